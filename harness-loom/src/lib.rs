// litmus tests live in tests/litmus.rs (built only with --cfg loom --cfg hipstr_verif)
