//! Loom litmus suite for C04: the REAL counted pointer of hipstr (`Smart<_, Arc>`, re-exported behind cfg(hipstr_verif))
//! with a loom-tracked payload.  loom explores the interleavings and the C11 reorderings of the atomics used by
//! `impl Kind for Arc` (the crate's own cfg(loom) switch) and reports a causality violation when a payload access is not
//! ordered after a conflicting one.  The payload's destructor is a write: freeing must happen after every access.
#![cfg(all(loom, hipstr_verif))]
use hipstr::verif::Smart;
use hipstr::Arc;
use loom::cell::UnsafeCell;
use loom::sync::atomic::{AtomicUsize, Ordering};
use loom::thread;

struct P { cell: UnsafeCell<u32>, drops: std::sync::Arc<AtomicUsize> }
impl Clone for P {
    fn clone(&self) -> Self { P { cell: UnsafeCell::new(self.read()), drops: self.drops.clone() } }
}
impl P {
    fn read(&self) -> u32 { self.cell.with(|p| unsafe { *p }) }
    fn write(&mut self, v: u32) { self.cell.with_mut(|p| unsafe { *p = v }) }
}
impl Drop for P {
    fn drop(&mut self) { self.cell.with_mut(|p| unsafe { *p = 0xDEAD }); self.drops.fetch_add(1, Ordering::SeqCst); }
}
type S = Smart<P, Arc>;
fn mk() -> (S, std::sync::Arc<AtomicUsize>) { let d = std::sync::Arc::new(AtomicUsize::new(0)); (Smart::new(P { cell: UnsafeCell::new(7), drops: d.clone() }), d) }
struct SendS(S);
unsafe impl Send for SendS {}   // P contains a loom UnsafeCell (not Sync); the real payload Vec<u8> is Send + Sync

fn model(f: impl Fn() + Sync + Send + 'static) {
    let mut b = loom::model::Builder::new();
    b.preemption_bound = std::env::var("VERIF_LOOM_PREEMPT").ok().and_then(|s| s.parse().ok()).or(Some(3));
    b.check(f);
}

/// two owners on two threads: each reads then drops; the destructor (free) must be ordered after both reads; freed exactly once
#[test]
fn read_drop_read_drop() {
    model(|| {
        let (a, drops) = mk();
        let b = SendS(a.clone());
        let t = thread::spawn(move || { let b = b; assert_eq!(b.0.as_ref().read(), 7); drop(b); });
        assert_eq!(a.as_ref().read(), 7);
        drop(a);
        t.join().unwrap();
        assert_eq!(drops.load(Ordering::SeqCst), 1);
    });
}

/// the co-owner reads and drops on another thread; the first owner mutates in place only once it is unique:
/// the write must be ordered after the co-owner's read
#[test]
fn read_drop_then_mutate() {
    model(|| {
        let (mut a, drops) = mk();
        let b = SendS(a.clone());
        let t = thread::spawn(move || { let b = b; assert_eq!(b.0.as_ref().read(), 7); drop(b); });
        if let Some(p) = a.as_mut() { p.write(9); assert_eq!(p.read(), 9); }
        t.join().unwrap();
        assert!(a.as_mut().is_some());
        drop(a);
        assert_eq!(drops.load(Ordering::SeqCst), 1);
    });
}

/// ownership of the payload (try_unwrap / into_vec) only for the sole owner, after the co-owner's accesses
#[test]
fn read_drop_then_unwrap() {
    model(|| {
        let (a, drops) = mk();
        let b = SendS(a.clone());
        let t = thread::spawn(move || { let b = b; assert_eq!(b.0.as_ref().read(), 7); drop(b); });
        match a.try_unwrap() {
            Ok(mut p) => { p.write(1); drop(p); }
            Err(a) => { assert_eq!(a.as_ref().read(), 7); drop(a); }
        }
        t.join().unwrap();
        assert_eq!(drops.load(Ordering::SeqCst), 1);
    });
}

/// concurrent increments from two threads sharing through &Smart (the Sync half), then everything is dropped: freed exactly once
#[test]
fn concurrent_clones() {
    model(|| {
        let (a, drops) = mk();
        let a = std::sync::Arc::new(SendSync(a));
        let a2 = a.clone();
        let t = thread::spawn(move || { let c = SendS(a2.0.clone()); assert_eq!(c.0.as_ref().read(), 7); drop(c); drop(a2); });
        let c = a.0.clone();
        assert_eq!(c.as_ref().read(), 7);
        drop(c);
        t.join().unwrap();
        assert_eq!(drops.load(Ordering::SeqCst), 0);
        drop(a);
        assert_eq!(drops.load(Ordering::SeqCst), 1);
    });
}
struct SendSync(S);
unsafe impl Send for SendSync {}
unsafe impl Sync for SendSync {}

/// at the share-count ceiling: two threads clone concurrently (both must fall back to private copies) while a third owner
/// asks for exclusive access -- it must never be granted, and the count must never wrap
#[test]
fn ceiling_concurrent_clones() {
    model(|| {
        let (mut a, drops) = mk();
        let b = SendS(a.clone());
        let c = SendS(a.clone());
        a.verif_force_count(usize::MAX - 1);            // stored value at the ceiling: every further increment must be refused
        let t1 = thread::spawn(move || { let b = b; let x = b.0.clone(); assert_eq!(x.as_ref().read(), 7); drop(x); b });
        let t2 = thread::spawn(move || { let c = c; let x = c.0.clone(); assert_eq!(x.as_ref().read(), 7); drop(x); c });
        assert!(!a.is_unique(), "exclusive access while two other owners exist");
        assert!(a.as_mut().is_none(), "mutable access while two other owners exist");
        assert!(a.verif_count() >= 3, "the share count wrapped");
        let b = t1.join().unwrap();
        let c = t2.join().unwrap();
        assert_eq!(a.verif_count(), usize::MAX);
        a.verif_force_count(2);                         // back to the true count before releasing
        drop(b); drop(c); drop(a);
        assert_eq!(drops.load(Ordering::SeqCst), 3);    // the payload and the two private copies
    });
}

/// C07 under contention: clones made while another thread clones (or drops) the same value, away from the ceiling, must all
/// SHARE the owner -- a failed compare-exchange is a retry, never a reason to fall back to a private copy
#[test]
fn sharing_concurrent_clones() {
    model(|| {
        let (a, drops) = mk();
        let addr = a.verif_addr();
        let a = std::sync::Arc::new(SendSync(a));
        let a2 = a.clone();
        let t = thread::spawn(move || { let c = SendS(a2.0.clone()); let same = c.0.verif_addr() == a2.0.verif_addr(); drop(c); drop(a2); same });
        let c = a.0.clone();
        assert!(c.verif_addr() == addr, "a clone made while another thread was cloning does not share the buffer (it was copied)");
        let d = c.clone();
        assert!(d.verif_addr() == addr, "a clone made while another thread was dropping its clone does not share the buffer");
        drop(d); drop(c);
        assert!(t.join().unwrap(), "the other thread's clone does not share the buffer (it was copied)");
        drop(a);
        assert_eq!(drops.load(Ordering::SeqCst), 1);     // one payload only: no private copy was ever made
    });
}

/// C02 under threads: after two threads cloned a sole owner concurrently and one clone is gone, the other clone still counts:
/// no in-place mutable access and no ownership of the buffer for the original while it lives
#[test]
fn exclusive_after_concurrent_clones() {
    model(|| {
        let (a, drops) = mk();
        let a = std::sync::Arc::new(SendSync(a));
        let a2 = a.clone();
        let t = thread::spawn(move || { let c = SendS(a2.0.clone()); drop(a2); c });
        let c = a.0.clone();
        drop(c);
        let kept = t.join().unwrap();
        let mut a = std::sync::Arc::try_unwrap(a).ok().expect("the other thread released its reference").0;
        assert!(!a.is_unique(), "reported unique while a clone made on another thread is alive");
        assert!(a.as_mut().is_none(), "mutable access granted while a clone made on another thread is alive");
        assert_eq!(kept.0.as_ref().read(), 7);
        drop(kept);
        assert!(a.as_mut().is_some());
        drop(a);
        assert_eq!(drops.load(Ordering::SeqCst), 1);
    });
}

/// one increment below the ceiling: two threads clone concurrently; exactly one may take the last share, the other must fall
/// back to a private copy -- the stored count must never go past the ceiling (the check and the increment are ONE atomic step)
#[test]
fn ceiling_minus_one_concurrent_clones() {
    model(|| {
        let (a, drops) = mk();
        let b = SendS(a.clone());
        let c = SendS(a.clone());
        a.verif_force_count(usize::MAX - 2);            // one more increment is possible, two are not
        let t1 = thread::spawn(move || { let b = b; let x = b.0.clone(); assert_eq!(x.as_ref().read(), 7); let shared = x.verif_addr() == b.0.verif_addr(); (b, SendS(x), shared) });
        let t2 = thread::spawn(move || { let c = c; let x = c.0.clone(); assert_eq!(x.as_ref().read(), 7); let shared = x.verif_addr() == c.0.verif_addr(); (c, SendS(x), shared) });
        let (b, x1, s1) = t1.join().unwrap();
        let (c, x2, s2) = t2.join().unwrap();
        assert!(!(s1 && s2), "both concurrent clones took a share although only one increment was left below the ceiling");
        let n = a.verif_count();
        assert!(n == usize::MAX || n == usize::MAX - 1, "the share count went past the ceiling or wrapped: {}", n);
        assert!(!a.is_unique());
        // back to the true count before releasing: a, b, c + the clones that share
        a.verif_force_count(2 + s1 as usize + s2 as usize);
        drop(x1); drop(x2); drop(b); drop(c); drop(a);
        assert_eq!(drops.load(Ordering::SeqCst), 1 + (!s1) as usize + (!s2) as usize);
    });
}
