(** * CasesCodec: correspondence vocabulary of the `codec` driver (C16). *)
From Hip Require Import Base Utf8 CasesRange Codec.

Inductive bout := BOk (v : list N) (rest_len : N) | BErr.
Record bcodec := BCodec { bc_str : bool; bc_input : list N; bc_out : bout; bc_max_request : N }.

Definition check_borsh (c : bcodec) : bool :=
  let r := if bc_str c then borsh_de_str (bc_input c) else borsh_de (bc_input c) in
  (match r, bc_out c with
   | Some (v, rest), BOk v' n => list_eqb v v' && (len rest =? n)
   | None, BErr => true
   | _, _ => false
   end) && (bc_max_request c <=? borsh_alloc_bound (bc_input c)).

Inductive sout_ := SOk_ (v : list N) (borrowed : bool) | SErr_.
Record scodec := SCodec { sc_str_ : bool; sc_borrowing : bool; sc_token : token; sc_out_ : sout_ }.
Definition check_serde (c : scodec) : bool :=
  match (if sc_str_ c then visit_str else visit_byt) (sc_borrowing c) (sc_token c), sc_out_ c with
  | VOk v b, SOk_ v' b' => list_eqb v v' && Bool.eqb b b'
  | VErr, SErr_ => true
  | _, _ => false
  end.
