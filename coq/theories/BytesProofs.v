(** * BytesProofs: the invariant of the Bytes machine is inductive and the machine refines the
    std-level specification (C01), at step level and at run level.

    [OForceCount] carries the side condition [force_ok] (defined in BytesProofs3.v): without it
    the statements are false, see BytesCounterexample.v.  For every other operation [force_ok] is [True]. *)
From Hip Require Import Base Range RangeProofs Utf8 StrRange Bytes BytesSpec BytesInv BytesLib
  BytesProofs1 BytesProofs2 BytesProofs3 BytesProofs4.

Theorem init_inv : forall bk, Inv bk init.
Proof.
  intros bk. constructor.
  - reflexivity.
  - intros h hd H. unfold get_h, nthN, init in H. cbn [hs] in H. destruct (N.to_nat h); discriminate.
  - intros h hd H. unfold get_h, nthN, init in H. cbn [hs] in H. destruct (N.to_nat h); discriminate.
  - intros b blk H. unfold get_b, nthN, init in H. cbn [bs] in H. destruct (N.to_nat b); discriminate.
  - reflexivity.
Qed.

(** both halves at once *)
Theorem step_good : forall bk ty st o st' u,
  Inv bk st -> force_ok st o -> step bk ty st o = (st', u) -> good bk ty st o st' u.
Proof.
  intros bk ty st o st' u I FO E. destruct o.
  - apply good_ONew; assumption.
  - apply good_OInline; assumption.
  - apply good_OTryInline; assumption.
  - apply good_OWithCapacity; assumption.
  - apply good_OBorrowed; assumption.
  - apply good_OFromSlice; assumption.
  - apply good_OFromVec; assumption.
  - apply good_OFromUtf8; assumption.
  - apply good_OClone; assumption.
  - apply good_OSlice; assumption.
  - apply good_OTrySlice; assumption.
  - apply good_OSliceRef; assumption.
  - apply good_OSliceRefForeign; assumption.
  - apply good_OPush; assumption.
  - apply good_OPushSlice; assumption.
  - apply good_OPop; assumption.
  - apply good_OTruncate; assumption.
  - apply good_OClear; assumption.
  - apply good_OShrinkTo; assumption.
  - apply good_OShrinkToFit; assumption.
  - apply good_OAsMutWrite; assumption.
  - apply good_OToMutWrite; assumption.
  - apply good_OMakeAscii; assumption.
  - apply good_OToAscii; assumption.
  - apply good_ORepeat; assumption.
  - apply good_OMutate; assumption.
  - apply good_OIntoOwned; assumption.
  - apply good_OIntoVec; assumption.
  - apply good_OVecFrom; assumption.
  - apply good_OIntoBorrowed; assumption.
  - apply good_OAsBorrowed; assumption.
  - apply good_ODrop; assumption.
  - apply good_OForceCount; assumption.
  - apply good_ORestoreCount; assumption.
Qed.

Theorem step_inv : forall bk ty st o st' u,
  Inv bk st -> force_ok st o -> step bk ty st o = (st', u) -> Inv bk st'.
Proof. intros bk ty st o st' u I FO E. exact (proj1 (step_good bk ty st o st' u I FO E)). Qed.

Theorem step_refines : forall bk ty st o st' u,
  Inv bk st -> force_ok st o -> step bk ty st o = (st', u) -> spec_rel ty (abs st) o u (abs st').
Proof. intros bk ty st o st' u I FO E. exact (proj2 (step_good bk ty st o st' u I FO E)). Qed.

(** every operation other than the force-count hook: the statements exactly as first posed *)
Definition not_force (o : op) : Prop := match o with OForceCount _ _ => False | _ => True end.

Lemma not_force_ok st o : not_force o -> force_ok st o.
Proof. destruct o; cbn [not_force force_ok]; intros H; try exact I; contradiction. Qed.

Corollary step_inv_no_hook : forall bk ty st o st' u,
  not_force o -> Inv bk st -> step bk ty st o = (st', u) -> Inv bk st'.
Proof. intros bk ty st o st' u N I E. eapply step_inv; [exact I | apply not_force_ok; exact N | exact E]. Qed.

Corollary step_refines_no_hook : forall bk ty st o st' u,
  not_force o -> Inv bk st -> step bk ty st o = (st', u) -> spec_rel ty (abs st) o u (abs st').
Proof. intros bk ty st o st' u N I E. eapply step_refines; [exact I | apply not_force_ok; exact N | exact E]. Qed.

(** ** runs *)

(** [force_ok] holds at every step of the run *)
Fixpoint run_pre (bk : backend) (ty : hty) (st : state) (ops : list op) : Prop :=
  match ops with
  | [] => True
  | o :: r => force_ok st o /\ run_pre bk ty (fst (step bk ty st o)) r
  end.

Fixpoint spec_run_rel (ty : hty) (sp : sstate) (ops : list op) (us : list out) (sp' : sstate) : Prop :=
  match ops, us with
  | [], [] => sp' = sp
  | o :: r, u :: ur => exists sp1, spec_rel ty sp o u sp1 /\ spec_run_rel ty sp1 r ur sp'
  | _, _ => False
  end.

Theorem run_good : forall bk ty ops st st' us,
  Inv bk st -> run_pre bk ty st ops -> run bk ty st ops = (st', us) ->
  Inv bk st' /\ spec_run_rel ty (abs st) ops us (abs st').
Proof.
  intros bk ty ops. induction ops as [|o r IH]; intros st st' us I P E; cbn [run run_pre] in *.
  - injection E as <- <-. split; [exact I | reflexivity].
  - destruct (step bk ty st o) as [st1 u] eqn:Es. destruct (run bk ty st1 r) as [st2 ur] eqn:Er.
    injection E as <- <-. destruct P as [FO P]. cbn [fst] in P.
    destruct (step_good bk ty st o st1 u I FO Es) as [I1 R1].
    destruct (IH st1 st2 ur I1 P Er) as [I2 R2].
    split; [exact I2|]. cbn [spec_run_rel]. exists (abs st1). split; assumption.
Qed.

Theorem run_inv : forall bk ty ops st st' us,
  Inv bk st -> run_pre bk ty st ops -> run bk ty st ops = (st', us) -> Inv bk st'.
Proof. intros bk ty ops st st' us I P E. exact (proj1 (run_good bk ty ops st st' us I P E)). Qed.

Theorem run_refines : forall bk ty ops st st' us,
  Inv bk st -> run_pre bk ty st ops -> run bk ty st ops = (st', us) ->
  spec_run_rel ty (abs st) ops us (abs st').
Proof. intros bk ty ops st st' us I P E. exact (proj2 (run_good bk ty ops st st' us I P E)). Qed.

(** runs without the force-count hook need no side condition *)
Lemma run_pre_no_hook bk ty ops : Forall not_force ops -> forall st, run_pre bk ty st ops.
Proof.
  induction 1 as [|o r Ho Hr IH]; intros st; cbn [run_pre]; [exact I|].
  split; [apply not_force_ok; exact Ho | apply IH].
Qed.

Corollary run_inv_no_hook : forall bk ty ops st st' us,
  Forall not_force ops -> Inv bk st -> run bk ty st ops = (st', us) -> Inv bk st'.
Proof. intros bk ty ops st st' us N I E. eapply run_inv; [exact I | apply run_pre_no_hook; exact N | exact E]. Qed.

Corollary run_refines_no_hook : forall bk ty ops st st' us,
  Forall not_force ops -> Inv bk st -> run bk ty st ops = (st', us) -> spec_run_rel ty (abs st) ops us (abs st').
Proof. intros bk ty ops st st' us N I E. eapply run_refines; [exact I | apply run_pre_no_hook; exact N | exact E]. Qed.

(** from the initial state *)
Corollary run_from_init : forall bk ty ops st' us,
  run_pre bk ty init ops -> run bk ty init ops = (st', us) ->
  Inv bk st' /\ spec_run_rel ty [] ops us (abs st').
Proof. intros bk ty ops st' us P E. exact (run_good bk ty ops init st' us (init_inv bk) P E). Qed.

(** ** corollaries of the invariant *)
Theorem rlen_view : forall bk st h hd,
  Inv bk st -> get_h st h = Some hd -> len (view_r st (hrepr hd)) = rlen (hrepr hd).
Proof. intros bk st h hd I Hh. exact (Inv_rlen bk st h hd I Hh). Qed.

Theorem unique_means_sole : forall bk st h hd b off n blk,
  Inv bk st -> get_h st h = Some hd -> hrepr hd = RAlloc b off n -> get_b st b = Some blk ->
  is_unique_c bk (cnt blk) = true -> nrefs b (hs st) = 1.
Proof.
  intros bk st h hd b off n blk I Hh Er Hb U.
  pose proof (nrefs_handle b _ _ _ Hh) as Hc. rewrite Er, pt_self in Hc.
  exact (proj1 (unique_rc bk _ blk (inv_b _ _ I _ _ Hb) U Hc)).
Qed.

(** no other live handle points to a uniquely owned block *)
Corollary unique_no_alias : forall bk st h hd b off n blk i hi b' off' n',
  Inv bk st -> get_h st h = Some hd -> hrepr hd = RAlloc b off n -> get_b st b = Some blk ->
  is_unique_c bk (cnt blk) = true -> i <> h -> get_h st i = Some hi -> hrepr hi = RAlloc b' off' n' -> b' <> b.
Proof.
  intros bk st h hd b off n blk i hi b' off' n' I Hh Er Hb U Hne Hi Eri ->.
  pose proof (unique_means_sole _ _ _ _ _ _ _ _ I Hh Er Hb U) as H1.
  pose proof (nrefs_two b _ _ _ _ _ Hne Hh Hi) as H2. rewrite Er, Eri, !pt_self in H2. lia.
Qed.

Print Assumptions init_inv.
Print Assumptions step_inv.
Print Assumptions step_refines.
Print Assumptions run_inv.
Print Assumptions run_refines.
Print Assumptions rlen_view.
Print Assumptions unique_means_sole.
