(** * BytesProofs4: edits, conversions, lifetime and hook operations of [step]. *)
From Hip Require Import Base Range RangeProofs Utf8 StrRange Bytes BytesSpec BytesInv BytesLib
  BytesProofs1 BytesProofs2 BytesProofs3.

(** ** edits *)
Lemma good_OPush bk ty st h c st' u :
  Inv bk st -> step bk ty st (OPush h c) = (st', u) -> good bk ty st (OPush h c) st' u.
Proof.
  intros I E. open_step E. with_h E Hh hd.
  - destruct (do_push_slice_good _ _ _ _ _ _ _ I Hh E) as (I' & A & U).
    eapply good_det; [exact I' | | exact A | exact U]. spec_h Hh. reflexivity.
  - injection E as <- <-. skip_case I Hh.
Qed.

Lemma good_OPushSlice bk ty st h x st' u :
  Inv bk st -> step bk ty st (OPushSlice h x) = (st', u) -> good bk ty st (OPushSlice h x) st' u.
Proof.
  intros I E. open_step E. with_h E Hh hd.
  - destruct (do_push_slice_good _ _ _ _ _ _ _ I Hh E) as (I' & A & U).
    eapply good_det; [exact I' | | exact A | exact U]. spec_h Hh. reflexivity.
  - injection E as <- <-. skip_case I Hh.
Qed.

Lemma good_OPop bk ty st h st' u :
  Inv bk st -> step bk ty st (OPop h) = (st', u) -> good bk ty st (OPop h) st' u.
Proof.
  intros I E. open_step E. with_h E Hh hd.
  - pose proof (Inv_rlen _ _ _ _ I Hh) as Hlen. destruct (rlen (hrepr hd) =? 0) eqn:C.
    + injection E as <- <-. apply same_det; [exact I|]. spec_h Hh. rewrite Hlen, C. reflexivity.
    + injection E as <- <-.
      set (cut := match ty with TByt => rlen (hrepr hd) - 1 | TStr => last_start (view_r st (hrepr hd)) end).
      assert (Hcut : cut <= rlen (hrepr hd)).
      { unfold cut. destruct ty; [lia|]. rewrite <- Hlen. apply last_start_le. }
      destruct (do_shorten_good bk st h hd cut I Hh Hcut) as (I' & A).
      eapply good_det; [exact I' | | exact A | reflexivity].
      spec_h Hh. rewrite Hlen, C. reflexivity.
  - injection E as <- <-. skip_case I Hh.
Qed.

Lemma good_OTruncate bk ty st h m st' u :
  Inv bk st -> step bk ty st (OTruncate h m) = (st', u) -> good bk ty st (OTruncate h m) st' u.
Proof.
  intros I E. open_step E. with_h E Hh hd.
  - pose proof (Inv_rlen _ _ _ _ I Hh) as Hlen.
    destruct (match ty with
              | TByt => false
              | TStr => (m <=? rlen (hrepr hd)) && negb (is_char_boundary (view_r st (hrepr hd)) m)
              end) eqn:C1.
    + injection E as <- <-. apply same_det; [exact I|]. spec_h Hh. rewrite Hlen, C1. reflexivity.
    + destruct (m <? rlen (hrepr hd)) eqn:C2.
      * injection E as <- <-. destruct (do_shorten_good bk st h hd m I Hh ltac:(lia)) as (I' & A).
        eapply good_det; [exact I' | | exact A | reflexivity]. spec_h Hh. rewrite Hlen, C1, C2. reflexivity.
      * injection E as <- <-. apply same_det; [exact I|]. spec_h Hh. rewrite Hlen, C1, C2. reflexivity.
  - injection E as <- <-. skip_case I Hh.
Qed.

Lemma good_OClear bk ty st h st' u :
  Inv bk st -> step bk ty st (OClear h) = (st', u) -> good bk ty st (OClear h) st' u.
Proof.
  intros I E. open_step E. with_h E Hh hd.
  - pose proof (Inv_rlen _ _ _ _ I Hh) as Hlen. destruct (0 <? rlen (hrepr hd)) eqn:C.
    + injection E as <- <-. destruct (do_shorten_good bk st h hd 0 I Hh ltac:(lia)) as (I' & A).
      rewrite sub_empty in A.
      eapply good_det; [exact I' | | exact A | reflexivity]. spec_h Hh. reflexivity.
    + injection E as <- <-. eapply good_det; [exact I | | | reflexivity].
      * spec_h Hh. reflexivity.
      * symmetry. rewrite <- (sset_abs_same st h hd Hh) at 2. f_equal. f_equal.
        destruct (view_r st (hrepr hd)) as [|y l]; [reflexivity|]. rewrite len_cons in Hlen. lia.
  - injection E as <- <-. skip_case I Hh.
Qed.

Lemma good_OShrinkTo bk ty st h m st' u :
  Inv bk st -> step bk ty st (OShrinkTo h m) = (st', u) -> good bk ty st (OShrinkTo h m) st' u.
Proof.
  intros I E. open_step E. with_h E Hh hd.
  - destruct (do_shrink_to_good _ _ _ _ _ _ _ I Hh E) as (I' & A & U).
    eapply good_det; [exact I' | | exact A | exact U]. spec_h Hh. reflexivity.
  - injection E as <- <-. skip_case I Hh.
Qed.

Lemma good_OShrinkToFit bk ty st h st' u :
  Inv bk st -> step bk ty st (OShrinkToFit h) = (st', u) -> good bk ty st (OShrinkToFit h) st' u.
Proof.
  intros I E. open_step E. with_h E Hh hd.
  - destruct (do_shrink_to_good _ _ _ _ _ _ _ I Hh E) as (I' & A & U).
    eapply good_det; [exact I' | | exact A | exact U]. spec_h Hh. reflexivity.
  - injection E as <- <-. skip_case I Hh.
Qed.

(** the handle's own representation as its own replacement *)
Lemma self_replacement bk st h hd :
  Inv bk st -> get_h st h = Some hd ->
  others_kept (fun b => nrefs b (hs st)) (hrepr hd) st st
  /\ BInv bk st (fun b => nrefs b (hs st) - pt b (hrepr hd) + pt b (hrepr hd)) 0.
Proof.
  intros I Hh. split.
  - intros b _. apply blk_keeps_refl.
  - eapply BInv_ext; [apply Inv_BInv; exact I|]. intros b. cbn beta. pose proof (nrefs_handle b _ _ _ Hh). lia.
Qed.

Lemma good_OAsMutWrite bk ty st h i b st' u :
  Inv bk st -> step bk ty st (OAsMutWrite h i b) = (st', u) -> good bk ty st (OAsMutWrite h i b) st' u.
Proof.
  intros I E. open_step E. with_h E Hh hd.
  - pose proof (Inv_rlen _ _ _ _ I Hh) as Hlen.
    assert (Hspec : forall sp', (u = USome [] /\ sp' = sset (abs st) h
                       (Some (if i <? len (view_r st (hrepr hd)) then write_at (view_r st (hrepr hd)) i b
                              else view_r st (hrepr hd)))) \/ (u = UNone /\ sp' = abs st) ->
                     spec_rel ty (abs st) (OAsMutWrite h i b) u sp').
    { intros sp' H. unfold spec_rel, spec_det. rewrite sget_abs, Hh. cbn [option_map]. exact H. }
    destruct (grants_mut bk st (hrepr hd)) eqn:G.
    + destruct (i <? rlen (hrepr hd)) eqn:C.
      * let_pair E st2 r2 Ew. injection E as <- <-.
        destruct (self_replacement _ _ _ _ I Hh) as [K B].
        destruct (write_set_good bk st st h hd (hrepr hd) _ st2 r2 (lin hd) I Hh (Frame_refl st) K B
                    (inv_h _ _ I _ _ Hh) G Ew (fun d => len_write_at d i b) (inv_norm _ _ I _ _ Hh)) as [I' A].
        split; [exact I'|]. apply Hspec. left. split; [reflexivity|]. rewrite A, Hlen, C. reflexivity.
      * injection E as <- <-. split; [exact I|]. apply Hspec. left. split; [reflexivity|].
        rewrite Hlen, C. symmetry. apply sset_abs_same. exact Hh.
    + injection E as <- <-. split; [exact I|]. apply Hspec. right. auto.
  - injection E as <- <-. skip_case I Hh.
Qed.

(** make_unique on the handle's own representation *)
Lemma make_unique_handle bk st h hd st1 r1 :
  Inv bk st -> get_h st h = Some hd -> make_unique bk st (hrepr hd) = (st1, r1) ->
  Frame st st1 /\ others_kept (fun b => nrefs b (hs st)) (hrepr hd) st st1
  /\ BInv bk st1 (fun b => nrefs b (hs st) - pt b (hrepr hd) + pt b r1) 0
  /\ repr_ok st1 r1 /\ view_r st1 r1 = view_r st (hrepr hd) /\ grants_mut bk st1 r1 = true
  /\ rlen r1 = rlen (hrepr hd) /\ (lin hd && is_alloc r1 = false -> normalized r1 = true).
Proof.
  intros I Hh E.
  destruct (make_unique_spec bk st (hrepr hd) st1 r1 _ _ E (Inv_BInv _ _ I) (inv_h _ _ I _ _ Hh) (Inv_counted _ _ _ _ I Hh))
    as (F & K & B & Ok & V & G & Hr & Hn).
  repeat (split; [assumption|]). apply (lin_norm bk st h hd r1 I Hh Hn).
Qed.

Lemma good_OToMutWrite bk ty st h i b st' u :
  Inv bk st -> step bk ty st (OToMutWrite h i b) = (st', u) -> good bk ty st (OToMutWrite h i b) st' u.
Proof.
  intros I E. open_step E. with_h E Hh hd.
  - pose proof (Inv_rlen _ _ _ _ I Hh) as Hlen.
    let_pair E st1 r1 Em.
    destruct (make_unique_handle _ _ _ _ _ _ I Hh Em) as (F & K & B & Ok & V & G & Hr & Hn).
    destruct (i <? rlen r1) eqn:C.
    + let_pair E st2 r2 Ew. injection E as <- <-.
      destruct (write_set_good bk st st1 h hd r1 _ st2 r2 _ I Hh F K B Ok G Ew (fun d => len_write_at d i b) Hn) as [I' A].
      eapply good_det; [exact I' | | exact A | reflexivity].
      spec_h Hh. rewrite Hlen, <- Hr, C, V. reflexivity.
    + injection E as <- <-.
      destruct (replace_good bk st st1 h hd r1 _ I Hh F K B Ok Hn) as [I' A].
      eapply good_det; [exact I' | | exact A | reflexivity].
      spec_h Hh. rewrite Hlen, <- Hr, C, V. reflexivity.
  - injection E as <- <-. skip_case I Hh.
Qed.

Lemma good_OMakeAscii bk ty st h up st' u :
  Inv bk st -> step bk ty st (OMakeAscii h up) = (st', u) -> good bk ty st (OMakeAscii h up) st' u.
Proof.
  intros I E. open_step E. with_h E Hh hd.
  - let_pair E st1 r1 Em.
    destruct (make_unique_handle _ _ _ _ _ _ I Hh Em) as (F & K & B & Ok & V & G & Hr & Hn).
    let_pair E st2 r2 Ew. injection E as <- <-.
    destruct (write_set_good bk st st1 h hd r1 _ st2 r2 _ I Hh F K B Ok G Ew (len_ascii_map up) Hn) as [I' A].
    eapply good_det; [exact I' | | exact A | reflexivity].
    spec_h Hh. rewrite V. reflexivity.
  - injection E as <- <-. skip_case I Hh.
Qed.

Lemma good_OToAscii bk ty st h up st' u :
  Inv bk st -> step bk ty st (OToAscii h up) = (st', u) -> good bk ty st (OToAscii h up) st' u.
Proof.
  intros I E. open_step E. with_h E Hh hd.
  - let_pair E st0 r0 Ec. let_pair E st1 r1 Em. let_pair E st2 r2 Ew.
    pose proof (Inv_BInv _ _ I) as B.
    destruct (clone_repr_spec bk _ _ _ _ Ec (inv_h _ _ I _ _ Hh)) as ([F0 K0 Ok0 V0 HB0] & _ & _ & Hn0).
    assert (Hc0 : counted (fun x => nrefs x (hs st) + pt x r0) r0) by (intros x; cbn beta; lia).
    destruct (make_unique_spec bk st0 r0 st1 r1 _ _ Em (HB0 _ _ B) Ok0 Hc0) as (F1 & K1 & B1 & Ok1 & V1 & G1 & Hr1 & Hn1).
    assert (Hc1 : counted (fun x => nrefs x (hs st) + pt x r0 - pt x r0 + pt x r1) r1) by (intros x; cbn beta; lia).
    destruct (write_repr_spec bk st1 r1 _ st2 r2 _ _ Ew B1 Ok1 Hc1 G1 (len_ascii_map up))
      as (F2 & K2 & B2 & Hpt & Ok2 & V2 & Hr2 & Ha2 & Hn2).
    assert (X : Inv bk st' /\ abs st' = abs st ++ [Some (view_r st2 r2)] /\ u = UNew (len (abs st))).
    { apply (final_new bk st st2 r2 (lin hd && is_alloc r1) st' u I).
      - eapply Frame_trans; [exact F0|]. eapply Frame_trans; eauto.
      - intros x Hx. eapply blk_keeps_trans; [apply K0|]. eapply blk_keeps_trans.
        + apply K1. cbn beta. lia.
        + apply K2. cbn beta. lia.
      - eapply BInv_ext; [exact B2|]. intros x. cbn beta. rewrite Hpt. lia.
      - exact Ok2.
      - intros Hl. rewrite Hn2. apply (lin_norm bk st h hd r1 I Hh); [|exact Hl].
        intros Hnm. apply Hn1. congruence.
      - exact E. }
    destruct X as (I' & A & U). eapply good_det; [exact I' | | exact A | exact U].
    spec_h Hh. rewrite V2, V1, V0. reflexivity.
  - injection E as <- <-. skip_case I Hh.
Qed.

Lemma good_ORepeat bk ty st h k st' u :
  Inv bk st -> step bk ty st (ORepeat h k) = (st', u) -> good bk ty st (ORepeat h k) st' u.
Proof.
  intros I E. open_step E. with_h E Hh hd.
  - pose proof (Inv_rlen _ _ _ _ I Hh) as Hlen.
    assert (Hrl : len (repeat_list (view_r st (hrepr hd)) (N.to_nat k)) = rlen (hrepr hd) * k)
      by (rewrite len_repeat_list, Hlen; lia).
    destruct ((rlen (hrepr hd) =? 0) || (k =? 1)) eqn:C1.
    + let_pair E st1 r Ec. destruct (clone_new_good _ _ _ _ _ _ _ _ I Hh Ec E) as (I' & A & U).
      eapply good_det; [exact I' | | exact A | exact U]. spec_h Hh. rewrite Hlen, C1. reflexivity.
    + destruct (IMAX <? rlen (hrepr hd) * k) eqn:C2.
      * injection E as <- <-. apply same_det; [exact I|]. spec_h Hh. rewrite Hlen, C1, C2. reflexivity.
      * destruct (rlen (hrepr hd) * k <=? INLINE_CAP) eqn:C3.
        -- eapply new_det; [exact I | exact E | apply produces_inline; lia | reflexivity |].
           spec_h Hh. rewrite Hlen, C1, C2. reflexivity.
        -- let_pair E st1 b' Ef.
           destruct (produces_fresh bk _ _ _ _ _ _ Ef Hrl (N.le_refl _)) as (P & _).
           eapply new_det; [exact I | exact E | exact P | intros _; rewrite normalized_alloc; lia |].
           spec_h Hh. rewrite Hlen, C1, C2. reflexivity.
  - injection E as <- <-. skip_case I Hh.
Qed.

Lemma good_OMutate bk ty st h script leak st' u :
  Inv bk st -> step bk ty st (OMutate h script leak) = (st', u) -> good bk ty st (OMutate h script leak) st' u.
Proof.
  intros I E. open_step E. with_h E Hh hd.
  - let_pair E st1 vc Et. destruct vc as [d0 cap0].
    match type of E with context [fold_left vec_step script ?X] =>
      destruct (fold_left vec_step script X) as [st3 [d cap]] eqn:Efold end.
    destruct (take_vec_spec bk st h (hrepr hd) st1 d0 cap0 _ _ Et (Inv_BInv _ _ I) (inv_h _ _ I _ _ Hh)
                (Inv_counted _ _ _ _ I Hh)) as (F1 & K1 & B1 & Hd0 & Hl0).
    set (X0 := Some (mkH (RInline []) false)) in *.
    assert (B2 : BInv bk (set_h st1 h X0) (fun x => nrefs x (hs st) - pt x (hrepr hd)) (0 + buf_count cap0))
      by (unfold set_h; apply BInv_set_hs; exact B1).
    destruct (vec_fold_spec bk script _ _ _ _ _ _ _ _ Efold B2 Hl0) as (B3 & Hl3 & Hd3 & Hh3 & Hb3 & Hs3).
    unfold set_h in Hh3, Hb3, Hs3. sproj. rewrite (fr_hs _ _ F1) in Hh3.
    assert (K3 : forall st4, bs st4 = bs st3 -> others_kept (fun b => nrefs b (hs st)) (hrepr hd) st st4).
    { intros st4 Hb4 x Hx. eapply blk_keeps_trans; [apply K1; exact Hx|].
      apply blk_keeps_same. unfold get_b. rewrite Hb4, Hb3. reflexivity. }
    destruct leak.
    + injection E as <- <-.
      assert (X : Inv bk (add_leak st3 (if cap =? 0 then 0 else 1))
                  /\ abs (add_leak st3 (if cap =? 0 then 0 else 1))
                     = sset (abs st) h (option_map (hview (add_leak st3 (if cap =? 0 then 0 else 1))) X0)).
      { apply (final_upd bk st _ h hd X0 I Hh).
        - sproj. exact Hh3.
        - sproj. rewrite Hs3. exact (fr_srcs _ _ F1).
        - apply K3. reflexivity.
        - eapply BInv_ext.
          + eapply binv_cnt; [exact B3 | reflexivity | reflexivity |]. sproj. unfold buf_count. lia.
          + intros x. cbn beta. unfold X0. rewrite pto_Some. cbn [hrepr pt]. lia.
        - intros hd' Ex. unfold X0 in Ex. inversion Ex; subst hd'. cbn [hrepr lin repr_ok].
          split; [apply len_nil_inline | reflexivity]. }
      destruct X as [I' A]. eapply good_det; [exact I' | | exact A | reflexivity].
      spec_h Hh. reflexivity.
    + let_pair E st4 r Ev. injection E as <- <-.
      destruct (from_vec_spec bk _ _ _ _ _ Ev Hl3) as (F4 & K4 & Ok4 & V4 & Hn4 & HB4).
      assert (X : Inv bk (set_h st4 h (Some (mkH r false)))
                  /\ abs (set_h st4 h (Some (mkH r false)))
                     = sset (abs st) h (option_map (hview (set_h st4 h (Some (mkH r false)))) (Some (mkH r false)))).
      { apply (final_upd bk st _ h hd _ I Hh).
        - unfold set_h. sproj. rewrite (fr_hs _ _ F4), Hh3. apply upd_upd.
        - unfold set_h. sproj. destruct (fr_srcs _ _ F4) as [e4 S4]. destruct (fr_srcs _ _ F1) as [e1 S1].
          exists (e1 ++ e4). rewrite S4, Hs3, S1, app_assoc. reflexivity.
        - intros x Hx. eapply blk_keeps_trans; [apply (K3 st3 eq_refl); exact Hx|].
          eapply blk_keeps_trans; [apply K4|]. apply blk_keeps_same. reflexivity.
        - unfold set_h. apply BInv_set_hs. eapply BInv_ext; [apply HB4; exact B3|].
          intros x. cbn beta. rewrite pto_Some. reflexivity.
        - intros hd' Ex. inversion Ex; subst hd'. cbn [hrepr lin]. split; [|intros _; exact Hn4].
          unfold set_h. apply repr_ok_set_hs. exact Ok4. }
      destruct X as [I' A]. eapply good_det; [exact I' | | exact A | reflexivity].
      spec_h Hh. cbn [option_map]. unfold hview. cbn [hrepr]. rewrite view_r_set_h, V4, Hd3, Hd0. reflexivity.
  - injection E as <- <-. skip_case I Hh.
Qed.

(** ** conversions *)
Lemma good_OIntoOwned bk ty st h st' u :
  Inv bk st -> step bk ty st (OIntoOwned h) = (st', u) -> good bk ty st (OIntoOwned h) st' u.
Proof.
  intros I E. open_step E. with_h E Hh hd.
  - destruct (hrepr hd) as [d|s off n|b off n] eqn:Er.
    + injection E as <- <-. apply same_det; [exact I|]. spec_h Hh. reflexivity.
    + let_pair E st1 r Ef. injection E as <- <-.
      destruct (from_slice_spec bk _ _ _ _ Ef) as (P & Hn & _).
      pose proof (assign_good bk st st1 h hd r _ false I Hh P (fun _ => Hn)) as G.
      rewrite Er in G. unfold assign in G. cbn [drop_repr] in G. destruct G as [G1 G2].
      eapply good_det; [exact G1 | | | reflexivity].
      * spec_h Hh. reflexivity.
      * rewrite G2, <- Er. apply sset_abs_same. exact Hh.
    + injection E as <- <-. apply same_det; [exact I|]. spec_h Hh. reflexivity.
  - injection E as <- <-. skip_case I Hh.
Qed.

(** [try_into_vec] succeeds: the box is freed, the handle disappears *)
Lemma unwrap_good bk st h hd b n blk :
  Inv bk st -> get_h st h = Some hd -> hrepr hd = RAlloc b 0 n -> get_b st b = Some blk ->
  is_unique_c bk (cnt blk) = true ->
  let st' := add_free (set_h (set_b st b None) h None) (1 + buf_count (vcap blk)) in
  Inv bk st' /\ abs st' = sset (abs st) h None
  /\ firstn (N.to_nat n) (vdata blk) = view_r st (hrepr hd) /\ len (view_r st (hrepr hd)) <= vcap blk.
Proof.
  intros I Hh Er Hb U st'.
  pose proof (Inv_BInv _ _ I) as B.
  pose proof (bi_b _ _ _ _ B _ _ Hb) as Hblk; cbn beta in Hblk.
  pose proof (nrefs_handle b _ _ _ Hh) as Hcb; rewrite Er, pt_self in Hcb.
  destruct (unique_rc _ _ _ Hblk U Hcb) as (R1 & C0 & P0).
  assert (X : Inv bk st' /\ abs st' = sset (abs st) h (option_map (hview st') None)).
  { apply (final_upd bk st st' h hd None I Hh).
    - reflexivity.
    - exists []. unfold st'. sproj. now rewrite app_nil_r.
    - rewrite Er. intros y Hy. destruct (N.eq_dec y b) as [->|Hne].
      + rewrite pt_self in Hy. lia.
      + apply blk_keeps_same. unfold st', get_b. sproj. rewrite nthN_upd_neq by congruence. reflexivity.
    - rewrite Er. eapply binv_upd with (o := Some blk) (o' := None) (b := b);
        [exact B | apply get_b_nth; exact Hb | reflexivity | reflexivity | | |].
      + intros y Hy. cbn beta. rewrite pt_other by congruence. rewrite pto_None. lia.
      + cbn beta. rewrite pt_self, pto_None. lia.
      + unfold st'. sproj. cbn [ho]. lia.
    - discriminate. }
  destruct X as [X1 X2]. split; [exact X1|]. split; [exact X2|].
  pose proof (Inv_rlen _ _ _ _ I Hh) as Hlen. pose proof (inv_h _ _ I _ _ Hh) as Hok.
  rewrite Er in *. cbn [view_r repr_ok rlen] in *. rewrite Hb in *. destruct Hok as (blk0 & Eb & Hl).
  inversion Eb; subst blk0. split; [symmetry; apply sub_0'|]. destruct Hblk as (H1 & _). lia.
Qed.

Lemma good_OIntoVec bk ty st h st' u :
  Inv bk st -> step bk ty st (OIntoVec h) = (st', u) -> good bk ty st (OIntoVec h) st' u.
Proof.
  intros I E. open_step E. with_h E Hh hd.
  - assert (Hspec : forall sp', ((exists cap, u = UVec (view_r st (hrepr hd)) cap /\ len (view_r st (hrepr hd)) <= cap
                                   /\ sp' = sset (abs st) h None) \/ (u = UNone /\ sp' = abs st)) ->
                     spec_rel ty (abs st) (OIntoVec h) u sp').
    { intros sp' H. unfold spec_rel, spec_det. rewrite sget_abs, Hh. cbn [option_map]. exact H. }
    destruct (hrepr hd) as [d|s off n|b off n] eqn:Er.
    + injection E as <- <-. split; [exact I|]. apply Hspec. right. auto.
    + injection E as <- <-. split; [exact I|]. apply Hspec. right. auto.
    + pose proof (inv_h _ _ I _ _ Hh) as Hok. rewrite Er in Hok. destruct Hok as (blk & Hb & Hl). rewrite Hb in E.
      destruct ((off =? 0) && is_unique_c bk (cnt blk)) eqn:C.
      * apply andb_prop in C. destruct C as [C0 U]. apply N.eqb_eq in C0. subst off.
        injection E as <- <-. destruct (unwrap_good bk st h hd b n blk I Hh Er Hb U) as (I' & A & V & L).
        split; [exact I'|]. apply Hspec. left. exists (vcap blk). rewrite Er in V, L. rewrite <- V in L |- *.
        repeat split; auto.
      * injection E as <- <-. split; [exact I|]. apply Hspec. right. auto.
  - injection E as <- <-. skip_case I Hh.
Qed.

Lemma good_OVecFrom bk ty st h st' u :
  Inv bk st -> step bk ty st (OVecFrom h) = (st', u) -> good bk ty st (OVecFrom h) st' u.
Proof.
  intros I E. open_step E. with_h E Hh hd.
  - assert (Hspec : forall sp', (exists cap, u = UVec (view_r st (hrepr hd)) cap /\ len (view_r st (hrepr hd)) <= cap
                                   /\ sp' = sset (abs st) h None) ->
                     spec_rel ty (abs st) (OVecFrom h) u sp').
    { intros sp' H. unfold spec_rel, spec_det. rewrite sget_abs, Hh. cbn [option_map]. exact H. }
    pose proof (Inv_BInv _ _ I) as B.
    set (v := view_r st (hrepr hd)) in *.
    set (k := if len v =? 0 then 0 else 1) in *.
    set (st0 := add_free (add_alloc st k) k) in *.
    assert (B0 : BInv bk st0 (fun x => nrefs x (hs st)) 0).
    { eapply binv_cnt; [exact B | reflexivity | reflexivity |]. unfold st0. sproj. lia. }
    assert (F0 : Frame st st0) by (apply Frame_intro; reflexivity).
    assert (Hnon : is_alloc (hrepr hd) = false -> (st', u) = (set_h st0 h None, UVec v (len v)) ->
                   good bk ty st (OVecFrom h) st' u).
    { intros Hna Eq. injection Eq as -> ->.
      assert (X : Inv bk (set_h st0 h None) /\ abs (set_h st0 h None) = sset (abs st) h (option_map (hview st0) None)).
      { apply (final_set bk st st0 h hd None I Hh F0).
        - intros x _. apply blk_keeps_same. reflexivity.
        - eapply BInv_ext; [exact B0|]. intros x. cbn beta. rewrite pto_None, pt_nonalloc by exact Hna. lia.
        - discriminate. }
      destruct X as [X1 X2]. split; [exact X1|]. apply Hspec. exists (len v). split; [reflexivity|]. split; [lia|exact X2]. }
    destruct (hrepr hd) as [d|s off n|b off n] eqn:Er.
    + apply Hnon; [reflexivity | symmetry; exact E].
    + apply Hnon; [reflexivity | symmetry; exact E].
    + clear Hnon. pose proof (inv_h _ _ I _ _ Hh) as Hok. rewrite Er in Hok. destruct Hok as (blk & Hb & Hl). rewrite Hb in E.
      destruct ((off =? 0) && is_unique_c bk (cnt blk)) eqn:C.
      * apply andb_prop in C. destruct C as [C0 U]. apply N.eqb_eq in C0. subst off.
        injection E as <- <-. destruct (unwrap_good bk st h hd b n blk I Hh Er Hb U) as (I' & A & V & L).
        split; [exact I'|]. apply Hspec. exists (vcap blk). rewrite Er in V, L. unfold v. rewrite <- V in L |- *.
        repeat split; auto.
      * injection E as <- <-.
        pose proof (nrefs_handle b _ _ _ Hh) as Hcb; rewrite Er, pt_self in Hcb.
        destruct (detach_spec bk st0 b blk _ _ off n B0 Hb Hcb) as (F1 & K1 & B1 & _).
        assert (X : Inv bk (set_h (detach bk st0 b) h None)
                    /\ abs (set_h (detach bk st0 b) h None) = sset (abs st) h (option_map (hview (detach bk st0 b)) None)).
        { apply (final_set bk st _ h hd None I Hh).
          - eapply Frame_trans; eauto.
          - rewrite Er. intros x Hx. eapply blk_keeps_trans; [|apply K1; exact Hx]. apply blk_keeps_same. reflexivity.
          - rewrite Er. eapply BInv_ext; [exact B1|]. intros x. cbn beta. rewrite pto_None. lia.
          - discriminate. }
        destruct X as [X1 X2]. split; [exact X1|]. apply Hspec. exists (len v). split; [reflexivity|]. split; [lia|exact X2].
  - injection E as <- <-. skip_case I Hh.
Qed.

Lemma good_OIntoBorrowed bk ty st h st' u :
  Inv bk st -> step bk ty st (OIntoBorrowed h) = (st', u) -> good bk ty st (OIntoBorrowed h) st' u.
Proof.
  intros I E. open_step E. with_h E Hh hd.
  - assert (Hspec : forall sp', ((u = USome (view_r st (hrepr hd)) /\ sp' = sset (abs st) h None) \/ (u = UNone /\ sp' = abs st)) ->
                     spec_rel ty (abs st) (OIntoBorrowed h) u sp').
    { intros sp' H. unfold spec_rel, spec_det. rewrite sget_abs, Hh. cbn [option_map]. exact H. }
    destruct (hrepr hd) as [d|s off n|b off n] eqn:Er.
    + injection E as <- <-. split; [exact I|]. apply Hspec. right. auto.
    + injection E as <- <-.
      assert (X : Inv bk (set_h st h None) /\ abs (set_h st h None) = sset (abs st) h (option_map (hview st) None)).
      { apply (final_set bk st st h hd None I Hh (Frame_refl st)).
        - intros x _. apply blk_keeps_refl.
        - eapply BInv_ext; [apply Inv_BInv; exact I|]. intros x. cbn beta. rewrite Er, pto_None. cbn [pt]. lia.
        - discriminate. }
      destruct X as [X1 X2]. split; [exact X1|]. apply Hspec. left. auto.
    + injection E as <- <-. split; [exact I|]. apply Hspec. right. auto.
  - injection E as <- <-. skip_case I Hh.
Qed.

Lemma good_OAsBorrowed bk ty st h st' u :
  Inv bk st -> step bk ty st (OAsBorrowed h) = (st', u) -> good bk ty st (OAsBorrowed h) st' u.
Proof.
  intros I E. open_step E. with_h E Hh hd.
  - split; [destruct (hrepr hd); injection E as <- <-; exact I|].
    unfold spec_rel, spec_det. rewrite sget_abs, Hh. cbn [option_map]. unfold hview.
    destruct (hrepr hd); injection E as <- <-; auto.
  - injection E as <- <-. skip_case I Hh.
Qed.

(** ** lifetime and hooks *)
Lemma good_ODrop bk ty st h st' u :
  Inv bk st -> step bk ty st (ODrop h) = (st', u) -> good bk ty st (ODrop h) st' u.
Proof.
  intros I E. open_step E. with_h E Hh hd.
  - injection E as <- <-.
    destruct (drop_repr_spec bk st (hrepr hd) _ _ (Inv_BInv _ _ I) (inv_h _ _ I _ _ Hh) (Inv_counted _ _ _ _ I Hh))
      as (F & K & B).
    assert (X : Inv bk (set_h (drop_repr bk st (hrepr hd)) h None)
                /\ abs (set_h (drop_repr bk st (hrepr hd)) h None)
                   = sset (abs st) h (option_map (hview (drop_repr bk st (hrepr hd))) None)).
    { apply (final_set bk st _ h hd None I Hh F K).
      - eapply BInv_ext; [exact B|]. intros x. cbn beta. rewrite pto_None. lia.
      - discriminate. }
    destruct X as [X1 X2]. eapply good_det; [exact X1 | | exact X2 | reflexivity]. spec_h Hh. reflexivity.
  - injection E as <- <-. skip_case I Hh.
Qed.

(** a block's counters are rewritten; bytes and capacity stay *)
Lemma recount_good bk st b blk c ph :
  Inv bk st -> get_b st b = Some blk -> bk <> BUnique ->
  c + 1 = nrefs b (hs st) + ph -> c <= UMAX - 1 ->
  let st' := set_b st b (Some (mkBlock (vdata blk) (vcap blk) c ph)) in
  Inv bk st' /\ abs st' = abs st.
Proof.
  intros I Hb Hbk Hc Hm st'. apply final_same; [exact I | apply Frame_intro; reflexivity | |].
  - intros x _ blkx Hx. unfold st', get_b. sproj. destruct (N.eq_dec x b) as [->|Hne].
    + rewrite nthN_upd_eq by (eapply get_b_lt; exact Hb). eexists. split; [reflexivity|]. cbn [vdata]. congruence.
    + rewrite nthN_upd_neq by congruence. exists blkx. auto.
  - pose proof (Inv_BInv _ _ I) as B.
    eapply binv_upd with (o := Some blk) (b := b);
      [exact B | apply get_b_nth; exact Hb | reflexivity | reflexivity | reflexivity | |].
    + cbn beta. destruct (bi_b _ _ _ _ B _ _ Hb) as (H1 & _).
      unfold blk_ok; cbn [vdata vcap cnt phantom]. repeat split; auto; try lia; intros; contradiction.
    + unfold st'. sproj. cbn [ho vcap]. lia.
Qed.

Lemma good_OForceCount bk ty st h k st' u :
  Inv bk st -> force_ok st (OForceCount h k) -> step bk ty st (OForceCount h k) = (st', u) ->
  good bk ty st (OForceCount h k) st' u.
Proof.
  intros I FO E. open_step E. with_h E Hh hd.
  - assert (Hspec : forall sp', sp' = abs st /\ (u = UUnit \/ u = USkip) -> spec_rel ty (abs st) (OForceCount h k) u sp').
    { intros sp' H. unfold spec_rel, spec_det. exact H. }
    destruct (hrepr hd) as [d|s off n|b off n] eqn:Er.
    + injection E as <- <-. split; [exact I|]. apply Hspec. auto.
    + injection E as <- <-. split; [exact I|]. apply Hspec. auto.
    + pose proof (inv_h _ _ I _ _ Hh) as Hok. rewrite Er in Hok. destruct Hok as (blk & Hb & Hl).
      specialize (FO hd b off n Hh Er). cbn [force_ok] in FO.
      pose proof (nrefs_handle b _ _ _ Hh) as Hcb; rewrite Er, pt_self in Hcb.
      assert (Hgo : bk <> BUnique ->
                (st', u) = (set_b st b (Some (mkBlock (vdata blk) (vcap blk) (UMAX - 1 - k) (UMAX - 1 - k + 1 - nrefs b (hs st)))), UUnit) ->
                good bk ty st (OForceCount h k) st' u).
      { intros Hbk Eq. injection Eq as -> ->.
        destruct (recount_good bk st b blk (UMAX - 1 - k) (UMAX - 1 - k + 1 - nrefs b (hs st)) I Hb Hbk) as [X1 X2].
        - unfold UMAX in *. lia.
        - unfold UMAX in *. lia.
        - split; [exact X1|]. apply Hspec. auto. }
      destruct bk.
      * rewrite Hb in E. apply Hgo; [discriminate | symmetry; exact E].
      * rewrite Hb in E. apply Hgo; [discriminate | symmetry; exact E].
      * injection E as <- <-. split; [exact I|]. apply Hspec. auto.
  - injection E as <- <-. split; [exact I|]. unfold spec_rel, spec_det. auto.
Qed.

Lemma good_ORestoreCount bk ty st h st' u :
  Inv bk st -> step bk ty st (ORestoreCount h) = (st', u) -> good bk ty st (ORestoreCount h) st' u.
Proof.
  intros I E. open_step E. with_h E Hh hd.
  - assert (Hspec : forall sp', sp' = abs st /\ (u = UUnit \/ u = USkip) -> spec_rel ty (abs st) (ORestoreCount h) u sp').
    { intros sp' H. unfold spec_rel, spec_det. exact H. }
    destruct (hrepr hd) as [d|s off n|b off n] eqn:Er.
    + injection E as <- <-. split; [exact I|]. apply Hspec. auto.
    + injection E as <- <-. split; [exact I|]. apply Hspec. auto.
    + pose proof (inv_h _ _ I _ _ Hh) as Hok. rewrite Er in Hok. destruct Hok as (blk & Hb & Hl).
      pose proof (nrefs_handle b _ _ _ Hh) as Hcb; rewrite Er, pt_self in Hcb.
      destruct (inv_b _ _ I _ _ Hb) as (_ & H2 & H3 & _).
      assert (Hgo : bk <> BUnique ->
                (st', u) = (set_b st b (Some (mkBlock (vdata blk) (vcap blk) (nrefs b (hs st) - 1) 0)), UUnit) ->
                good bk ty st (ORestoreCount h) st' u).
      { intros Hbk Eq. injection Eq as -> ->.
        destruct (recount_good bk st b blk (nrefs b (hs st) - 1) 0 I Hb Hbk) as [X1 X2].
        - lia.
        - unfold UMAX in *. lia.
        - split; [exact X1|]. apply Hspec. auto. }
      destruct bk.
      * rewrite Hb in E. apply Hgo; [discriminate | symmetry; exact E].
      * rewrite Hb in E. apply Hgo; [discriminate | symmetry; exact E].
      * injection E as <- <-. split; [exact I|]. apply Hspec. auto.
  - injection E as <- <-. split; [exact I|]. unfold spec_rel, spec_det. auto.
Qed.
