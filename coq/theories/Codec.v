(** * Codec: borsh and serde models for the Hip types (C16). *)
From Hip Require Import Base Utf8.

(** ** borsh: u32 little-endian length, then the bytes *)
Definition U32 : N := 4294967296.
Definition le32 (n : N) : list N := [n mod 256; (n / 256) mod 256; (n / 65536) mod 256; (n / 16777216) mod 256].
Definition of_le32 (b0 b1 b2 b3 : N) : N := b0 + 256 * b1 + 65536 * b2 + 16777216 * b3.

Definition borsh_ser (v : list N) : list N := le32 (len v) ++ v.

(** the reader after the fix: reserve min(len, 4096), then push byte by byte as they arrive.
    Result: [Some (value, rest)] or [None] (an io error: unexpected end of input); never a panic.
    [max_req]: the largest single allocation request made while reading (amortised growth of the Vec). *)
Definition MAX_PREALLOC : N := 4096.

Fixpoint take_n (n : nat) (l : list N) : option (list N * list N) :=
  match n with
  | O => Some ([], l)
  | S n' => match l with [] => None | b :: r => match take_n n' r with Some (a, rest) => Some (b :: a, rest) | None => None end end
  end.

Definition borsh_de (input : list N) : option (list N * list N) :=
  match input with
  | b0 :: b1 :: b2 :: b3 :: r =>
    let n := of_le32 b0 b1 b2 b3 in
    if n =? 0 then Some ([], r)
    else if len r <? n then None            (* the stream ends before n bytes: the byte-by-byte reader reports an io error *)
    else take_n (N.to_nat n) r
  | _ => None
  end.

(** bytes actually consumed after the prefix before the reader stops (all of them on success, what there is on failure) *)
Definition borsh_consumed (input : list N) : N :=
  match input with
  | b0 :: b1 :: b2 :: b3 :: r => N.min (of_le32 b0 b1 b2 b3) (len r)
  | _ => 0
  end.
(** upper bound on the largest allocation request: the bounded pre-allocation, or the amortised growth (at most doubling,
    minimum 8) over the bytes actually pushed *)
Definition borsh_alloc_bound (input : list N) : N := N.max MAX_PREALLOC (N.max 8 (2 * borsh_consumed input)).

(** the pinned reader: with_capacity(len) before reading anything *)
Definition borsh_alloc_pinned (input : list N) : N :=
  match input with b0 :: b1 :: b2 :: b3 :: _ => of_le32 b0 b1 b2 b3 | _ => 0 end.

(** HipStr: read the bytes, then validate *)
Definition borsh_de_str (input : list N) : option (list N * list N) :=
  match borsh_de input with
  | Some (v, rest) => if valid v then Some (v, rest) else None
  | None => None
  end.

(** ** serde: what a format hands to the visitor *)
Inductive token :=
| KStr (v : list N) | KBorrowedStr (v : list N) | KString (v : list N)          (* v is well-formed UTF-8 by serde's types *)
| KBytes (v : list N) | KBorrowedBytes (v : list N) | KByteBuf (v : list N)
| KSeq (v : list N)                                                            (* a sequence of u8 (how Vec<u8> serialises) *)
| KOther.                                                                      (* any other token: integers, maps, ... *)

Inductive vres := VOk (v : list N) (borrowed : bool) | VErr.

(** HipByt: OwnedVisitor / BorrowedVisitor of src/bytes/serde.rs *)
Definition visit_byt (borrowing : bool) (t : token) : vres :=
  match t with
  | KStr v | KString v | KBytes v | KByteBuf v | KSeq v => VOk v false
  | KBorrowedStr v | KBorrowedBytes v => VOk v borrowing            (* the owned visitor falls back to visit_str / visit_bytes *)
  | KOther => VErr
  end.

(** HipStr: byte input is validated *)
Definition visit_str (borrowing : bool) (t : token) : vres :=
  match t with
  | KStr v | KString v => VOk v false
  | KBorrowedStr v => VOk v borrowing
  | KBytes v | KByteBuf v => if valid v then VOk v false else VErr
  | KBorrowedBytes v => if valid v then VOk v borrowing else VErr
  | KSeq _ | KOther => VErr
  end.

(** what the Hip types serialise to, and what their std counterparts serialise to *)
Definition ser_byt (v : list N) : token := KBytes v.
Definition ser_str (v : list N) : token := KStr v.
Definition ser_vec_u8 (v : list N) : token := KSeq v.      (* Vec<u8> *)
Definition ser_string (v : list N) : token := KStr v.      (* String / str *)
