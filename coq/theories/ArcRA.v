(** * ArcRA: release/acquire view machine for the share-count protocol of `impl Kind for Arc` (C04).
    Threads carry vector clocks (with a coherence point `seen` on the counter's modification order and a `pend`ing view
    acquired by relaxed loads and released into the clock by an Acquire fence); the counter is a modification-order list of
    messages (value, view); RMWs read the latest message and extend the release sequence; relaxed loads may read any message
    not older than the thread's coherence point; the payload (Inner box + Vec buffer) is a FastTrack-style non-atomic
    location: an access not ordered after a conflicting one is a race, an access after the free is a use-after-free, both
    set [err].  Owner operations: Read Clone Drop TryMut Unwrap Send Lend; operations through a shared borrow &H held by
    another thread (the Sync half): BRead BClone Return.  Exclusive operations are enabled only while nothing is lent (the borrow
    checker's contribution).  [proto] is the protocol: which accesses release/acquire; coq/gen/ArcGen.v instantiates it from
    the orderings written in src/smart.rs today. *)
From Coq Require Import List Arith Lia Bool.
Import ListNotations.

(* ---------- vector clocks ---------- *)
Definition vc := nat -> nat.
Definition vzero : vc := fun _ => 0.
Definition vle (a b : vc) := forall t, a t <= b t.
Definition vjoin (a b : vc) : vc := fun t => Nat.max (a t) (b t).
Definition vbump (t : nat) (a : vc) : vc := fun u => if Nat.eqb u t then S (a u) else a u.

(* ---------- protocol parameters (what gen/CounterGen.v will supply) ---------- *)
Record proto := { incr_release : bool; decr_release : bool; free_fence : bool; uniq_fence : bool }.

Record msg := { mval : nat; mview : vc }.
Record thr := { clk : vc; seen : nat; pend : vc }.
(* a handle is owned by one thread and may be lent (&H) to several others at once *)
Record hnd := { owner : nat; alive : bool; lent : list nat }.
Inductive akind := AR | AW | AF.
Record acc := { atid : nat; aep : nat; akd : akind; ahnd : nat }.
Record st := { ms : list msg; ths : nat -> thr; hds : list hnd; accs : list acc; freed : bool; err : bool }.

Definition top (s : st) := length (ms s) - 1.
Definition msg_at (s : st) j := nth j (ms s) {| mval := 0; mview := vzero |}.
Definition dh := {| owner := 0; alive := false; lent := [] |}.
Definition hnd_at (s : st) h := nth h (hds s) dh.
Definition updf {A} (f : nat -> A) (t : nat) (x : A) : nat -> A := fun u => if Nat.eqb u t then x else f u.
Fixpoint updl {A} (l : list A) (i : nat) (x : A) : list A :=
  match l, i with [] , _ => [] | _ :: r, 0 => x :: r | y :: r, S i => y :: updl r i x end.
Fixpoint memn (x : nat) (l : list nat) := match l with [] => false | y :: r => Nat.eqb x y || memn x r end.
Fixpoint rem1 (x : nat) (l : list nat) := match l with [] => [] | y :: r => if Nat.eqb x y then r else y :: rem1 x r end.

Definition conflict (a b : akind) : bool := match a, b with AR, AR => false | _, _ => true end.
Definition safe_access (s : st) (c : vc) (k : akind) : bool :=
  negb (freed s) && forallb (fun a => negb (conflict (akd a) k) || (aep a <=? c (atid a))) (accs s).

(* owner ops: Read Clone Drop TryMut Unwrap Send Lend;  borrower ops (through &H): BRead BClone Return.
   - `slice` (a sub-range view sharing the same buffer) is, at the level of the share-count protocol, exactly [Clone]
     (one increment, one more handle on the same box); the range arithmetic lives in Range.v/Bytes.v.  No separate op.
   - [Unwrap j] is `Smart::try_unwrap` / `into_vec`: like [TryMut j] the exclusive owner loads counter message j
     (relaxed load, then an Acquire fence iff [uniq_fence]); on reading 0 it takes the buffer out of the box: a
     write-like access (AW), the handle dies and the box is freed (AF) WITHOUT a decrement message; on reading
     anything else only the coherence point / pending view move (as in a failed TryMut). *)
Inductive op := Read | Clone | Drop | TryMut (j : nat) | Send (t' : nat) | Lend (t' : nat) | BRead | BClone | Return
              | Unwrap (j : nat).

Definition do_access (s : st) (t h : nat) (c : vc) (k : akind) : st :=
  {| ms := ms s; ths := ths s; hds := hds s;
     accs := {| atid := t; aep := c t; akd := k; ahnd := h |} :: accs s;
     freed := match k with AF => true | _ => freed s end;
     err := err s || negb (safe_access s c k) |}.
Definition with_thr (s : st) (t : nat) (x : thr) : st :=
  {| ms := ms s; ths := updf (ths s) t x; hds := hds s; accs := accs s; freed := freed s; err := err s |}.

Definition do_read (s : st) (t h : nat) : st :=
  let T := ths s t in let c := vbump t (clk T) in
  do_access (with_thr s t {| clk := c; seen := seen T; pend := pend T |}) t h c AR.
Definition do_clone (p : proto) (s : st) (t : nat) : st :=
  let T := ths s t in let c := vbump t (clk T) in
  let m := msg_at s (top s) in
  {| ms := ms s ++ [ {| mval := S (mval m); mview := if incr_release p then vjoin (mview m) c else mview m |} ];
     ths := updf (ths s) t {| clk := c; seen := S (top s); pend := pend T |};
     hds := hds s ++ [ {| owner := t; alive := true; lent := [] |} ];
     accs := accs s; freed := freed s; err := err s |}.
(* synchronising hand-over of knowledge from thread t (clock c) to thread t' *)
Definition sync_to (s : st) (t : nat) (c : vc) (t' : nat) : nat -> thr :=
  let T := ths s t in let T' := ths s t' in
  updf (updf (ths s) t {| clk := c; seen := seen T; pend := pend T |}) t'
       {| clk := vjoin (clk T') c; seen := Nat.max (seen T') (seen T); pend := pend T' |}.

Definition step (p : proto) (s : st) (t h : nat) (o : op) : st :=
  let H := hnd_at s h in
  let T := ths s t in
  let c := vbump t (clk T) in
  let is_owner := alive H && Nat.eqb (owner H) t in
  let is_borrower := alive H && memn t (lent H) in
  let exclusive := is_owner && match lent H with [] => true | _ => false end in
  match o with
  | Read => if is_owner then do_read s t h else s
  | BRead => if is_borrower then do_read s t h else s
  | Clone => if is_owner then do_clone p s t else s
  | BClone => if is_borrower then do_clone p s t else s
  | Drop =>
      if negb exclusive then s else
      let m := msg_at s (top s) in
      let pd := vjoin (pend T) (mview m) in
      let c' := if (mval m =? 0) && free_fence p then vjoin c pd else c in
      let s1 := {| ms := ms s ++ [ {| mval := mval m - 1; mview := if decr_release p then vjoin (mview m) c else mview m |} ];
                   ths := updf (ths s) t {| clk := c'; seen := S (top s); pend := pd |};
                   hds := updl (hds s) h {| owner := t; alive := false; lent := [] |};
                   accs := accs s; freed := freed s; err := err s |} in
      if mval m =? 0 then do_access s1 t h c' AF else s1
  | TryMut j =>
      if negb exclusive then s else
      if negb ((seen T <=? j) && (j <=? top s)) then s else
      let m := msg_at s j in
      let pd := vjoin (pend T) (mview m) in
      if mval m =? 0 then
        let c' := if uniq_fence p then vjoin c pd else c in
        do_access (with_thr s t {| clk := c'; seen := j; pend := pd |}) t h c' AW
      else with_thr s t {| clk := c; seen := j; pend := pd |}
  | Unwrap j =>
      if negb exclusive then s else
      if negb ((seen T <=? j) && (j <=? top s)) then s else
      let m := msg_at s j in
      let pd := vjoin (pend T) (mview m) in
      if mval m =? 0 then
        let c' := if uniq_fence p then vjoin c pd else c in
        let s1 := {| ms := ms s; ths := updf (ths s) t {| clk := c'; seen := j; pend := pd |};
                     hds := updl (hds s) h {| owner := t; alive := false; lent := [] |};
                     accs := accs s; freed := freed s; err := err s |} in
        do_access (do_access s1 t h c' AW) t h c' AF
      else with_thr s t {| clk := c; seen := j; pend := pd |}
  | Send t' =>
      if negb exclusive then s else
      {| ms := ms s; ths := sync_to s t c t'; hds := updl (hds s) h {| owner := t'; alive := true; lent := [] |};
         accs := accs s; freed := freed s; err := err s |}
  | Lend t' =>
      if negb is_owner then s else
      {| ms := ms s; ths := sync_to s t c t'; hds := updl (hds s) h {| owner := t; alive := true; lent := t' :: lent H |};
         accs := accs s; freed := freed s; err := err s |}
  | Return =>
      if negb is_borrower then s else
      {| ms := ms s; ths := sync_to s t c (owner H); hds := updl (hds s) h {| owner := owner H; alive := true; lent := rem1 t (lent H) |};
         accs := accs s; freed := freed s; err := err s |}
  end.

Definition init : st :=
  {| ms := [ {| mval := 0; mview := vzero |} ];
     ths := fun _ => {| clk := vzero; seen := 0; pend := vzero |};
     hds := [ {| owner := 0; alive := true; lent := [] |} ]; accs := []; freed := false; err := false |}.

Definition sched := list (nat * nat * op).
Definition run (p : proto) (sc : sched) : st := fold_left (fun s '(t, h, o) => step p s t h o) sc init.

Definition sound : proto := {| incr_release := true; decr_release := true; free_fence := true; uniq_fence := true |}.
Definition sound_proto (p : proto) : bool := decr_release p && free_fence p && uniq_fence p.

Example relaxed_decr_races : err (run {| incr_release := true; decr_release := false; free_fence := true; uniq_fence := true |}
   [ (0,0,Clone); (0,1,Send 1); (1,1,Read); (1,1,Drop); (0,0,TryMut 2) ]) = true.
Proof. vm_compute. reflexivity. Qed.
Example no_uniq_fence_races : err (run {| incr_release := true; decr_release := true; free_fence := true; uniq_fence := false |}
   [ (0,0,Clone); (0,1,Send 1); (1,1,Read); (1,1,Drop); (0,0,TryMut 2) ]) = true.
Proof. vm_compute. reflexivity. Qed.
Example no_free_fence_races : err (run {| incr_release := true; decr_release := true; free_fence := false; uniq_fence := true |}
   [ (0,0,Clone); (0,1,Send 1); (1,1,Read); (1,1,Drop); (0,0,Drop) ]) = true.
Proof. vm_compute. reflexivity. Qed.
(* into_vec without the Acquire fence after the relaxed uniqueness load: thread 1 reads through its handle and drops
   it; thread 0 then unwraps, but the read is not ordered before the unwrap's write/free *)
Example no_uniq_fence_unwrap_races : err (run {| incr_release := true; decr_release := true; free_fence := true; uniq_fence := false |}
   [ (0,0,Clone); (0,1,Send 1); (1,1,Read); (1,1,Drop); (0,0,Unwrap 2) ]) = true.
Proof. vm_compute. reflexivity. Qed.
(* the same schedule under the pinned protocol: no race, the box is freed by the unwrap, no handle is left *)
Example unwrap_ok : let s := run sound [ (0,0,Clone); (0,1,Send 1); (1,1,Read); (1,1,Drop); (0,0,Unwrap 2) ] in
  err s = false /\ freed s = true /\ map akd (accs s) = [AF; AW; AR].
Proof. vm_compute. auto. Qed.
(* unwrap while another handle exists (or on a stale 0 that coherence forbids) does nothing to the payload *)
Example unwrap_shared_fails : let s := run sound [ (0,0,Clone); (0,1,Send 1); (0,0,Unwrap 1); (0,0,Unwrap 0) ] in
  err s = false /\ freed s = false /\ accs s = [].
Proof. vm_compute. auto. Qed.
(* Sync: a borrower on another thread clones and reads through &H; the clone is dropped there; the owner then mutates *)
Example lend_clone_return_ok : err (run sound
   [ (0,0,Lend 1); (1,0,BClone); (1,0,BRead); (1,1,Read); (1,1,Drop); (1,0,Return); (0,0,TryMut 2) ]) = false.
Proof. vm_compute. reflexivity. Qed.
(* while the value is lent the owner cannot mutate: the step is not enabled (this is the borrow checker's doing) *)
Example no_mut_while_lent : accs (run sound [ (0,0,Lend 1); (0,0,TryMut 0) ]) = [].
Proof. vm_compute. reflexivity. Qed.
