(** * CodecProofs: C16 theorems. *)
From Hip Require Import Base Utf8 Codec.

Lemma of_le32_le32 n : n < U32 -> match le32 n with [a; b; c; d] => of_le32 a b c d = n | _ => False end.
Proof. intros H. unfold le32, of_le32, U32 in *. lia. Qed.

Lemma take_n_app v rest : take_n (length v) (v ++ rest) = Some (v, rest).
Proof. induction v as [|b v IH]; cbn [take_n length app]; [reflexivity|]. rewrite IH. reflexivity. Qed.

(** serialise then deserialise gives the value back, whatever follows in the stream *)
Theorem borsh_roundtrip : forall v rest, len v < U32 -> borsh_de (borsh_ser v ++ rest) = Some (v, rest).
Proof.
  intros v rest H. unfold borsh_ser. pose proof (of_le32_le32 (len v) H) as E.
  unfold le32 in *. cbn [app borsh_de]. rewrite E. destruct (len v =? 0) eqn:Z.
  - destruct v; [reflexivity|]. rewrite len_cons in Z. lia.
  - destruct (len (v ++ rest) <? len v) eqn:L; [rewrite len_app in L; lia|].
    unfold len. rewrite Nat2N.id. apply take_n_app.
Qed.

(** HipStr serialises exactly like str, and round-trips *)
Theorem borsh_str_roundtrip : forall v rest, len v < U32 -> valid v = true -> borsh_de_str (borsh_ser v ++ rest) = Some (v, rest).
Proof. intros v rest H Hv. unfold borsh_de_str. rewrite borsh_roundtrip by exact H. rewrite Hv. reflexivity. Qed.

Lemma take_n_spec n l a rest : take_n n l = Some (a, rest) -> l = a ++ rest /\ length a = n.
Proof.
  revert l a rest. induction n as [|n IH]; intros l a rest H; cbn [take_n] in H.
  - inversion H. split; reflexivity.
  - destruct l as [|b r]; [discriminate|]. destruct (take_n n r) as [[a' rest']|] eqn:E; [|discriminate].
    inversion H; subst. destruct (IH _ _ _ E) as [-> L]. split; [reflexivity | cbn [length]; lia].
Qed.

(** arbitrary, truncated or ill-typed input: [borsh_de] is total (an error or a value: the result type has no panic), and *)
(** a successful read consumed exactly 4 + n bytes where n is the decoded prefix, and returned those n bytes *)
Theorem borsh_de_shape : forall input v rest, borsh_de input = Some (v, rest) ->
  exists b0 b1 b2 b3, input = [b0; b1; b2; b3] ++ v ++ rest /\ len v = of_le32 b0 b1 b2 b3.
Proof.
  intros input v rest H. unfold borsh_de in H.
  destruct input as [|b0 [|b1 [|b2 [|b3 r]]]]; try discriminate.
  exists b0, b1, b2, b3. destruct (of_le32 b0 b1 b2 b3 =? 0) eqn:Z.
  - inversion H; subst. split; [reflexivity | rewrite len_nil; lia].
  - destruct (len r <? of_le32 b0 b1 b2 b3); [discriminate|].
    apply take_n_spec in H as [-> L]. split; [reflexivity | unfold len; lia].
Qed.

(** never a HipStr with ill-formed UTF-8 *)
Theorem borsh_str_valid : forall input v rest, borsh_de_str input = Some (v, rest) -> valid v = true.
Proof. intros input v rest H. unfold borsh_de_str in H. destruct (borsh_de input) as [[v' r']|]; [|discriminate]. destruct (valid v') eqn:E; inversion H; subst; exact E. Qed.

(** the allocation is in proportion to the input actually supplied: at most max(4096, 2 * bytes read) *)
Theorem borsh_alloc_proportional : forall input, borsh_alloc_bound input <= N.max MAX_PREALLOC (N.max 8 (2 * len input)).
Proof.
  intros input. unfold borsh_alloc_bound, borsh_consumed.
  destruct input as [|b0 [|b1 [|b2 [|b3 r]]]]; rewrite ?len_cons, ?len_nil; unfold MAX_PREALLOC; lia.
Qed.

(** the pinned reader is refuted: ff ff ff ff 01 02 03 requests 4 GiB *)
Theorem borsh_pinned_refuted : exists input, len input = 7 /\ borsh_alloc_pinned input = 4294967295 /\ borsh_alloc_bound input = 4096.
Proof. exists [255; 255; 255; 255; 1; 2; 3]. repeat split; vm_compute; reflexivity. Qed.

(** ** serde *)
Theorem serde_byt_roundtrip : forall b v, visit_byt b (ser_byt v) = VOk v false.
Proof. reflexivity. Qed.
Theorem serde_str_roundtrip : forall b v, visit_str b (ser_str v) = VOk v false.
Proof. reflexivity. Qed.
(** every Hip type also deserialises from what its std counterpart serialises to *)
Theorem serde_byt_from_vec : forall b v, visit_byt b (ser_vec_u8 v) = VOk v false.
Proof. reflexivity. Qed.
Theorem serde_str_from_string : forall b v, visit_str b (ser_string v) = VOk v false.
Proof. reflexivity. Qed.

(** arbitrary tokens: an error or a value; a HipStr only from well-formed input (string tokens carry well-formed text by serde's typing) *)
Definition token_wf (t : token) : Prop :=
  match t with KStr v | KBorrowedStr v | KString v => valid v = true | _ => True end.
Theorem serde_str_valid : forall b t v bo, token_wf t -> visit_str b t = VOk v bo -> valid v = true.
Proof.
  intros b t v bo W H. destruct t as [x|x|x|x|x|x|x|]; cbn [visit_str token_wf] in *;
    try (inversion H; subst; exact W); try discriminate;
    destruct (valid x) eqn:E; inversion H; subst; exact E.
Qed.

(** borrow_deserialize borrows exactly when the format hands out borrowed data; otherwise it equals the owning form *)
Theorem serde_borrow_iff : forall t v bo, visit_byt true t = VOk v bo ->
  (bo = true <-> exists x, t = KBorrowedStr x \/ t = KBorrowedBytes x) /\ visit_byt false t = VOk v false.
Proof.
  intros t v bo H. destruct t as [x|x|x|x|x|x|x|]; cbn [visit_byt] in *; inversion H; subst; (split; [split; [intros E; try discriminate; eauto | intros [y [E|E]]; try discriminate; reflexivity] | reflexivity]).
Qed.
Theorem serde_str_borrow_iff : forall t v bo, visit_str true t = VOk v bo ->
  (bo = true <-> exists x, t = KBorrowedStr x \/ t = KBorrowedBytes x) /\ visit_str false t = VOk v false.
Proof.
  intros t v bo H. destruct t as [x|x|x|x|x|x|x|]; cbn [visit_str] in *; try discriminate;
    try (destruct (valid x); [|discriminate]); inversion H; subst;
    (split; [split; [intros E; try discriminate; eauto | intros [y [E|E]]; try discriminate; reflexivity] | reflexivity]).
Qed.
