(** * BytesInv: the invariant of the Bytes machine.  Definitions; proofs in BytesProofs.v. *)
From Hip Require Import Base Range Utf8 StrRange Bytes BytesSpec.

(** well-formedness of one representation in a state *)
Definition repr_ok (st : state) (r : repr) : Prop :=
  match r with
  | RInline d => len d <= INLINE_CAP
  | RBorrowed s off n => s < len (srcs st) /\ off + n <= len (get_src st s)
  | RAlloc b off n => exists blk, get_b st b = Some blk /\ off + n <= len (vdata blk)
  end.

Definition block_ok (bk : backend) (st : state) (b : N) (blk : block) : Prop :=
  len (vdata blk) <= vcap blk
  /\ cnt blk + 1 = nrefs b (hs st) + phantom blk          (* the stored count is the number of handles (+ outside shares) minus one *)
  /\ cnt blk <= UMAX - 1                                  (* never reaches usize::MAX *)
  /\ (bk = BUnique -> cnt blk = 0 /\ phantom blk = 0).

(** live heap objects: one box per block, one buffer per block of non-zero capacity *)
Fixpoint heap_objects (l : list (option block)) : N :=
  match l with
  | [] => 0
  | None :: r => heap_objects r
  | Some blk :: r => 1 + buf_count (vcap blk) + heap_objects r
  end.

Record Inv (bk : backend) (st : state) : Prop := {
  inv_bad : bad st = false;
  inv_h : forall h hd, get_h st h = Some hd -> repr_ok st (hrepr hd);
  inv_norm : forall h hd, get_h st h = Some hd -> lin hd = false -> normalized (hrepr hd) = true;
  inv_b : forall b blk, get_b st b = Some blk -> block_ok bk st b blk;
  inv_heap : n_alloc st = n_free st + heap_objects (bs st) + n_leak st
}.

(** HipStr cases: every value is well-formed UTF-8 (C06) *)
Definition all_valid (st : state) : Prop :=
  forall h hd, get_h st h = Some hd -> valid (view_r st (hrepr hd)) = true.

(** arguments typed [&str] / [char] in Rust are well-formed: Rust's own invariant on the caller's side.
    A [mutate] guard of a HipStr derefs to [String]: pushes take [char]/[&str], and [String::truncate] panics
    inside a code point (not modelled, hence excluded here). *)
Fixpoint script_wf (d : list N) (script : list vop) : bool :=
  match script with
  | [] => true
  | o :: r =>
    (match o with
     | VPush b => b <? 128
     | VExtend x => valid x
     | VTruncate n => (len d <? n) || is_char_boundary d n
     | _ => true
     end) && script_wf (vec_spec d o) r
  end.

Definition op_wf (ty : hty) (st : state) (o : op) : Prop :=
  match ty with
  | TByt => True
  | TStr =>
    match o with
    | OBorrowed x | OFromSlice x | OFromVec x _ | OPushSlice _ x => valid x = true
    | OPush _ c => is_scalar c = true
    | OInline _ | OTryInline _ | OAsMutWrite _ _ _ | OToMutWrite _ _ _ => False        (* HipStr offers no byte-level constructor/write *)
    | OSliceRef h off n =>
      (* a [&str] argument: both ends are char boundaries of the value *)
      is_char_boundary (view st h) off = true /\ is_char_boundary (view st h) (off + n) = true
    | OMutate h script _ => script_wf (view st h) script = true
    | _ => True
    end
  end.
