(** * VecProofs1: soundness (C14, C15) of every operation of the slot-level vector model,
    whatever the position of the injected panic. *)
From Coq Require Import Permutation.
From Hip Require Import Base Range RangeProofs VecModel VecSpec VecLib.
Local Open Scope nat_scope.

Ltac inj H := injection H; clear H; intros; subst.
Ltac csolve := intros ?x; cnt_norm; lia.

(** ** loops *)
Lemma cib_inv : forall ids w v i R w' v' p,
  clone_into_bump' w v i ids = (w', v', p) -> vsound v -> vlen v = i -> i + length ids <= vcapn v ->
  own w (elems v ++ R) ->
  vsound v' /\ vcapn v' = vcapn v /\ own w' (elems v' ++ R) /\ (p = false -> vlen v' = i + length ids).
Proof.
  induction ids as [|id r IH]; intros w v i R w' v' p H Hs Hi Hc Ho; cbn [clone_into_bump' length] in *.
  - inj H. split; [exact Hs|]. split; [reflexivity|]. split; [exact Ho|]. intros _. lia.
  - pose proof (cb_clone_spec w id (val_of w id)) as Hcb. destruct (cb_clone w id (val_of w id)) as [nid w1|w1].
    + subst i. rewrite wr_ok in H by lia. cbv beta iota in H. rewrite setlen_ok in H by (unfold vcapn; cbn [slots]; rewrite updn_length; fold (vcapn v); lia).
      cbv beta iota in H. cbn [slots vlen] in H. fold (pushv v nid) in H.
      destruct (pushv_spec v nid Hs ltac:(lia)) as (Hs1 & He1 & Hc1 & Hl1).
      apply IH with (R := R) in H; auto; try lia.
      * destruct H as (A & B & C & D). split; [exact A|]. split; [congruence|]. split; [exact C|]. intros Hp. specialize (D Hp). lia.
      * eapply own_sub; [eapply own_born; [exact Ho|exact Hcb]|]. rewrite He1. csolve.
    + inj H. split; [exact Hs|]. split; [reflexivity|]. split; [eapply own_same; eauto|]. discriminate.
Qed.

Lemma drop_range_inv st w v v0 i n G L : slots v = slots v0 -> vsound v0 -> i + n <= vlen v0 ->
  G = firstn n (skipn i (elems v0)) -> own w (G ++ L) -> own (resw (drop_range st w v i n)) L.
Proof.
  intros Hsl Hs Hle -> Ho. unfold drop_range. rewrite (slots_from_ext v0 v i n Hsl), (slots_from_sound v0 i n Hs Hle).
  now apply own_drop_slots.
Qed.

Lemma drop_vec_inv k w v L : vsound v -> own w (elems v ++ L) -> own (resw (drop_vec k w v)) L.
Proof.
  intros Hs Ho. assert (elems v = firstn (vlen v) (skipn 0 (elems v))) as HG.
  { cbn [skipn]. symmetry. apply firstn_all_ge. destruct Hs as [_ He]. lia. }
  pose proof (drop_range_inv Stop w v v 0 (vlen v) _ L eq_refl Hs ltac:(lia) HG Ho) as H1.
  pose proof (drop_range_inv Continue w v v 0 (vlen v) _ L eq_refl Hs ltac:(lia) HG Ho) as H2.
  unfold drop_vec. destruct k; [exact H1|].
  destruct (drop_range Continue w v 0 (vlen v)) as [[] w1|w1]; cbn [resw] in *; auto.
  eapply own_same; [exact H2|]. unfold wsame, ev_free; wfields. repeat split; reflexivity.
Qed.

Lemma wr_above v i s : vsound v -> vlen v <= i ->
  let v2 := mkV (updn (slots v) i s) (vlen v) in vsound v2 /\ elems v2 = elems v /\ vcapn v2 = vcapn v /\ vlen v2 = vlen v.
Proof.
  intros Hs Hi v2. assert (elems v2 = elems v) as He by (now apply elems_wr_ge).
  assert (vcapn v2 = vcapn v) as Hc by (unfold vcapn, v2; cbn [slots]; apply updn_length).
  split; [|auto]. destruct Hs as [A B]. split; [rewrite Hc; exact A | rewrite He; exact B].
Qed.

Lemma elems_extend v n G : vsound v -> slots_from v (vlen v) n = map E G -> vlen v + n <= vcapn v ->
  vsound (mkV (slots v) (vlen v + n)) /\ elems (mkV (slots v) (vlen v + n)) = elems v ++ G.
Proof.
  intros Hs HG Hc. assert (length G = n) as Hn by (rewrite <- (map_length E G), <- HG; apply slots_from_length).
  apply vsound_ext.
  - exact Hc.
  - destruct Hs as [_ He]. rewrite app_length. cbn [vlen]. lia.
  - cbn [vlen]. intros j Hj. change (rd (mkV (slots v) (vlen v + n)) j) with (rd v j).
    rewrite nth_app'. pose proof Hs as [_ He]. rewrite He. destruct (Nat.ltb j (vlen v)) eqn:E1.
    + apply Nat.ltb_lt in E1. now apply rd_elems.
    + apply Nat.ltb_ge in E1. rewrite <- nth_map_E by lia. rewrite <- HG. rewrite nth_slots_from by lia. f_equal. lia.
Qed.

Lemma gc_inv : forall ids w v i0 i R G w' v' p,
  guarded_clone w v i0 i ids = (w', v', p) -> vsound v -> vlen v = i0 -> i0 <= i -> i + length ids <= vcapn v ->
  slots_from v i0 (i - i0) = map E G -> own w (G ++ elems v ++ R) ->
  vsound v' /\ vcapn v' = vcapn v /\ vlen v' = i0 /\ elems v' = elems v /\
  (p = true -> own w' (elems v' ++ R)) /\
  (p = false -> exists G', slots_from v' i0 (i + length ids - i0) = map E G' /\ own w' (G' ++ elems v' ++ R)).
Proof.
  induction ids as [|id r IH]; intros w v i0 i R G w' v' p H Hs Hi0 Hle Hc HG Ho; cbn [guarded_clone length] in *.
  - inj H. split; [exact Hs|]. split; [reflexivity|]. split; [reflexivity|]. split; [reflexivity|]. split; [discriminate|].
    intros _. exists G. rewrite Nat.add_0_r. split; assumption.
  - pose proof (cb_clone_spec w id (val_of w id)) as Hcb. destruct (cb_clone w id (val_of w id)) as [nid w1|w1].
    + rewrite wr_ok in H by lia. cbv beta iota in H.
      destruct (wr_above v i (E nid) Hs ltac:(lia)) as (Hs2 & He2 & Hc2 & Hl2). cbv zeta in *.
      set (v2 := mkV (updn (slots v) i (E nid)) (vlen v)) in *.
      assert (length G = i - i0) as HlG by (rewrite <- (map_length E G), <- HG; apply slots_from_length).
      apply IH with (R := R) (G := G ++ [nid]) in H; auto; try lia.
      * destruct H as (A & B & C & D & F1 & F2). split; [exact A|]. split; [congruence|]. split; [exact C|]. split; [congruence|].
        split; [exact F1|]. intros Hp. destruct (F2 Hp) as (G' & X & Y). exists G'. split; [|exact Y].
        rewrite <- X. f_equal. lia.
      * apply list_ext with (d := U); [rewrite slots_from_length, map_length, app_length; cbn [length]; lia|].
        rewrite slots_from_length. intros j Hj. rewrite nth_slots_from by exact Hj.
        unfold rd, v2. cbn [slots]. rewrite nth_updn by (unfold vcapn in Hc; lia). rewrite map_app, nth_app', map_length, HlG.
        destruct (Nat.eqb (i0 + j) i) eqn:E1.
        -- apply Nat.eqb_eq in E1. rewrite (proj2 (Nat.ltb_ge _ _)) by lia. replace (j - (i - i0)) with 0 by lia. reflexivity.
        -- apply Nat.eqb_neq in E1. rewrite (proj2 (Nat.ltb_lt _ _)) by lia. rewrite <- HG. rewrite nth_slots_from by lia. reflexivity.
      * eapply own_sub; [eapply own_born; [exact Ho|exact Hcb]|]. rewrite He2. csolve.
    + assert (own w1 (G ++ elems v ++ R)) as Ho1 by (eapply own_same; eauto).
      pose proof (own_drop_slots Continue G w1 false _ Ho1) as Hd. unfold drop_range in H. rewrite HG in H.
      assert ((w', v', p) = (resw (drop_slots Continue w1 (map E G) false), v, true)) as Heq
        by (destruct (drop_slots Continue w1 (map E G) false); cbn [resw]; congruence).
      inj Heq. split; [exact Hs|]. split; [reflexivity|]. split; [reflexivity|]. split; [reflexivity|]. split; [intros _; exact Hd|discriminate].
Qed.

Lemma iter_loop_ind (P : world -> vec -> nat -> Prop) (Q : world -> vec -> Prop) f :
  (forall w v j x nid w1 w2 v2 (p : bool), P w v j -> wborn w w1 nid x -> f w1 v j nid = (w2, v2, p) -> if p then Q w2 v2 else P w2 v2 (S j)) ->
  (forall w v j w1, P w v j -> wsame w w1 -> Q w1 v) ->
  forall vs w v j w' v' (p : bool), iter_loop w v j vs f = (w', v', p) -> P w v j -> if p then Q w' v' else P w' v' (j + length vs).
Proof.
  intros Hstep Hpan. induction vs as [|x r IH]; intros w v j w' v' p H HP; cbn [iter_loop length] in *.
  - inj H. now rewrite Nat.add_0_r.
  - pose proof (cb_next_spec w x) as Hcb. destruct (cb_next w x) as [nid w1|w1].
    + destruct (f w1 v j nid) as [[w2 v2] p2] eqn:Ef. pose proof (Hstep _ _ _ _ _ _ _ _ _ HP Hcb Ef) as H2.
      destruct p2.
      * inj H. exact H2.
      * apply IH in H; [|exact H2]. replace (j + S (length r)) with (S j + length r) by lia. exact H.
    + inj H. eapply Hpan; eauto.
Qed.

Lemma inline_push_inv w v id R w' v' p : inline_push w v id = (w', v', p) -> vsound v -> own w (id :: elems v ++ R) ->
  vsound v' /\ vcapn v' = vcapn v /\ own w' (elems v' ++ R) /\ (p = false -> elems v' = elems v ++ [id]).
Proof.
  intros H Hs Ho. unfold inline_push, inline_try_push in H. destruct (Nat.ltb (vlen v) (vcapn v)) eqn:E.
  - apply Nat.ltb_lt in E. rewrite wr_ok in H by exact E. cbv beta iota in H.
    rewrite setlen_ok in H by (unfold vcapn; cbn [slots]; rewrite updn_length; exact E). cbv beta iota in H. cbn [slots vlen] in H.
    fold (pushv v id) in H. inj H. destruct (pushv_spec v id Hs E) as (A & B & C & D).
    split; [exact A|]. split; [exact C|]. split; [|intros _; exact B]. eapply own_sub; [exact Ho|]. rewrite B. csolve.
  - cbv beta iota in H. pose proof (own_drop w id _ Ho) as Hd.
    destruct (cb_drop w id) as [[] w2|w2]; cbn [resw] in Hd; inj H.
    + split; [exact Hs|]. split; [reflexivity|]. split; [now apply own_set_unw|discriminate].
    + split; [exact Hs|]. split; [reflexivity|]. split; [exact Hd|discriminate].
Qed.

Lemma iter_inline_inv R : forall vs w v j w' v' p,
  iter_loop w v j vs (fun w v _ id => inline_push w v id) = (w', v', p) -> vsound v -> own w (elems v ++ R) ->
  vsound v' /\ vcapn v' = vcapn v /\ own w' (elems v' ++ R).
Proof.
  intros vs w v j w' v' p H Hs Ho.
  pose (P := fun (w1 : world) (v1 : vec) (_ : nat) => vsound v1 /\ vcapn v1 = vcapn v /\ own w1 (elems v1 ++ R)).
  pose (Q := fun (w1 : world) (v1 : vec) => vsound v1 /\ vcapn v1 = vcapn v /\ own w1 (elems v1 ++ R)).
  assert (if p then Q w' v' else P w' v' (j + length vs)) as HR.
  { eapply (iter_loop_ind P Q); [| |exact H|].
    - intros w0 v0 j0 x nid w1 w2 v2 p2 (A & B & C) Hb Hf.
      apply inline_push_inv with (R := R) in Hf; [|exact A|eapply own_born; eauto].
      destruct Hf as (A' & B' & C' & _). unfold P, Q. destruct p2; (split; [exact A'|]; split; [congruence|exact C']).
    - intros w0 v0 j0 w1 (A & B & C) Hsm. unfold Q. split; [exact A|]. split; [exact B|]. eapply own_same; eauto.
    - unfold P. auto. }
  unfold P, Q in HR. destruct p; exact HR.
Qed.

Lemma iter_thin_inv R n hint : forall vs w v w' v' p,
  iter_loop w v 0 vs (fun w v j id =>
            let '(wa', va) := if Nat.leb hint j then thin_reserve w v 1 else (w, v) in
            let '(wb, vb) := wr wa' va (n + j) (E id) in
            let '(wc, vc) := setlen wb vb (S (n + j)) in (wc, vc, false)) = (w', v', p) ->
  vsound v -> vlen v = n -> n + hint <= vcapn v -> own w (elems v ++ R) ->
  vsound v' /\ own w' (elems v' ++ R).
Proof.
  intros vs w v w' v' p H Hs Hl Hc Ho.
  pose (P := fun (w1 : world) (v1 : vec) (j : nat) => vsound v1 /\ vlen v1 = n + j /\ n + hint <= vcapn v1 /\ own w1 (elems v1 ++ R)).
  pose (Q := fun (w1 : world) (v1 : vec) => vsound v1 /\ own w1 (elems v1 ++ R)).
  assert (if p then Q w' v' else P w' v' (0 + length vs)) as HR.
  { eapply (iter_loop_ind P Q); [| |exact H|].
    - intros w0 v0 j0 x nid w1 w2 v2 p2 (A & B & C & D) Hb Hf.
      assert (own w1 (nid :: elems v0 ++ R)) as Ho1 by (eapply own_born; eauto).
      assert (exists wa' va, (if Nat.leb hint j0 then thin_reserve w1 v0 1 else (w1, v0)) = (wa', va) /\
                vsound va /\ vlen va = n + j0 /\ n + j0 < vcapn va /\ n + hint <= vcapn va /\ own wa' (nid :: elems va ++ R)) as (wa' & va & Eq & A1 & B1 & C1 & C2 & D1).
      { destruct (Nat.leb hint j0) eqn:E1.
        - destruct (thin_reserve w1 v0 1) as [wa' va] eqn:Er. exists wa', va. split; [reflexivity|].
          apply thin_reserve_spec in Er; [|exact A]. destruct Er as ((S1 & _) & S2 & S3 & S4 & S5 & S6).
          split; [exact S6|]. split; [lia|]. split; [lia|]. split; [lia|]. rewrite S5. eapply own_same; eauto.
        - apply Nat.leb_gt in E1. exists w1, v0. split; [reflexivity|]. split; [exact A|]. split; [exact B|]. split; [lia|]. split; [exact C|exact Ho1]. }
      rewrite Eq in Hf. rewrite <- B1 in Hf. rewrite wr_ok in Hf by lia. cbv beta iota in Hf.
      rewrite setlen_ok in Hf by (unfold vcapn; cbn [slots]; rewrite updn_length; fold (vcapn va); lia). cbv beta iota in Hf.
      cbn [slots vlen] in Hf. fold (pushv va nid) in Hf. inj Hf.
      destruct (pushv_spec va nid A1 ltac:(lia)) as (X1 & X2 & X3 & X4). unfold P.
      split; [exact X1|]. split; [lia|]. split; [lia|]. eapply own_sub; [exact D1|]. rewrite X2. csolve.
    - intros w0 v0 j0 w1 (A & B & C & D) Hsm. unfold Q. split; [exact A|]. eapply own_same; eauto.
    - unfold P. split; [exact Hs|]. split; [lia|]. split; [exact Hc|exact Ho]. }
  unfold P, Q in HR. destruct p; tauto.
Qed.

Definition rw_go (x : N) := fix go (w : world) (v : vec) (i : nat) (cnt : nat) {struct cnt} : world * vec * bool :=
  match cnt with
  | O => (w, v, false)
  | S cnt' =>
    match cb_make w x with
    | Pan w1 => (w1, v, true)
    | Done id w1 =>
      let '(w2, v2) := wr w1 v i (E id) in
      let '(w3, v3) := setlen w2 v2 (S i) in go w3 v3 (S i) cnt'
    end
  end.

Lemma rwgo_inv x : forall cnt w v i R w' v' p,
  rw_go x w v i cnt = (w', v', p) -> vsound v -> vlen v = i -> i + cnt <= vcapn v ->
  own w (elems v ++ R) ->
  vsound v' /\ vcapn v' = vcapn v /\ own w' (elems v' ++ R).
Proof.
  induction cnt as [|cnt IH]; intros w v i R w' v' p H Hs Hi Hc Ho; cbn [rw_go] in *.
  - inj H. split; [exact Hs|]. split; [reflexivity|exact Ho].
  - pose proof (cb_make_spec w x) as Hcb. destruct (cb_make w x) as [nid w1|w1].
    + subst i. rewrite wr_ok in H by lia. cbv beta iota in H. rewrite setlen_ok in H by (unfold vcapn; cbn [slots]; rewrite updn_length; fold (vcapn v); lia).
      cbv beta iota in H. cbn [slots vlen] in H. fold (pushv v nid) in H.
      destruct (pushv_spec v nid Hs ltac:(lia)) as (Hs1 & He1 & Hc1 & Hl1).
      apply IH with (R := R) in H; auto; try lia.
      * destruct H as (A & B & C). split; [exact A|]. split; [congruence|exact C].
      * eapply own_sub; [eapply own_born; [exact Ho|exact Hcb]|]. rewrite He1. csolve.
    + inj H. split; [exact Hs|]. split; [reflexivity|]. eapply own_same; eauto.
Qed.

(** ** operations *)
Ltac wsame_tac := unfold wsame, ev_alloc, ev_free, ev_realloc; wfields; repeat split; reflexivity.

Lemma addv_let s v w (f : N -> vout) : fst (let '(s1, i) := addv s v w in (s1, f i)) = fst (addv s v w).
Proof. reflexivity. Qed.

Lemma VInvU_own k s : VInvU k s -> own (wd s) (reachable s).
Proof. now intros [_ H]. Qed.

Lemma new_vec_sound k c : match k with KInline c' => c = c' | KThin => True end -> vec_sound k (new_vec c).
Proof.
  intros H. destruct (new_vec_spec c) as (A & B & C & D). apply vec_sound_intro; [exact A|]. destruct k; auto. congruence.
Qed.

(** a new vector [v] whose elements are owned on top of what the state reaches *)
Lemma VInvU_addv' k s v w : VInvU k s -> vec_sound k v -> own w (elems v ++ reachable s) -> VInvU k (fst (addv s v w)).
Proof. intros HI Hv Ho. eapply VInvU_addv; eauto. csolve. Qed.

Ltac open_v HI Hg :=
  match goal with |- context [getv ?s ?vi] =>
    let v := fresh "v" in
    destruct (getv s vi) as [v|] eqn:Hg; [|exact HI];
    let Hvs := fresh "Hvs" in let R := fresh "R" in let Hown := fresh "Hown" in let HR := fresh "HR" in
    destruct (VInvU_open _ s vi v HI Hg) as (Hvs & R & Hown & HR)
  end.

Lemma inv_XNew k s : VInvU k s -> VInvU k (fst (vstep_core k s XNew)).
Proof.
  intros HI. unfold vstep_core. destruct k as [c|].
  - rewrite addv_let. apply VInvU_addv'; [exact HI|now apply new_vec_sound|].
    destruct (new_vec_spec c) as (_ & -> & _). apply (VInvU_own _ _ HI).
  - unfold thin_with_capacity. rewrite addv_let. apply VInvU_addv'; [exact HI|now apply new_vec_sound|].
    destruct (new_vec_spec (Nat.max THIN_MIN THIN_MIN)) as (_ & -> & _). eapply own_same; [apply (VInvU_own _ _ HI)|wsame_tac].
Qed.

Lemma inv_XWithCap k s c : VInvU k s -> VInvU k (fst (vstep_core k s (XWithCap c))).
Proof.
  intros HI. unfold vstep_core. destruct k as [c'|]; [exact HI|].
  unfold thin_with_capacity. rewrite addv_let. apply VInvU_addv'; [exact HI|now apply new_vec_sound|].
  destruct (new_vec_spec (Nat.max c THIN_MIN)) as (_ & -> & _). eapply own_same; [apply (VInvU_own _ _ HI)|wsame_tac].
Qed.

(** closing an operation that replaces vector [vi] by [v'] and hands [h] to the caller *)
Lemma close_setv k s vi v v' h w R : VInvU k s -> getv s vi = Some v -> vec_sound k v' ->
  (forall x, cnt (reachable s) x = cnt (elems v) x + cnt R x) ->
  own w (elems v' ++ h ++ R) -> VInvU k (hand (setv s vi (Some v') w) h).
Proof.
  intros HI Hg Hv HR Ho. eapply VInvU_setv; [exact HI|exact Hg| |exact Ho|].
  - intros u Hu. inj Hu. exact Hv.
  - intros x. cbn [oelems]. cnt_norm. rewrite (HR x). lia.
Qed.
Lemma close_setv0 k s vi v v' w R : VInvU k s -> getv s vi = Some v -> vec_sound k v' ->
  (forall x, cnt (reachable s) x = cnt (elems v) x + cnt R x) ->
  own w (elems v' ++ R) -> VInvU k (setv s vi (Some v') w).
Proof.
  intros HI Hg Hv HR Ho. eapply VInvU_setv0; [exact HI|exact Hg| |exact Ho|].
  - intros u Hu. inj Hu. exact Hv.
  - intros x. cbn [oelems]. cnt_norm. rewrite (HR x). lia.
Qed.
Lemma close_none k s vi v h w R : VInvU k s -> getv s vi = Some v ->
  (forall x, cnt (reachable s) x = cnt (elems v) x + cnt R x) ->
  own w (h ++ R) -> VInvU k (hand (setv s vi None w) h).
Proof.
  intros HI Hg HR Ho. eapply VInvU_setv; [exact HI|exact Hg| |exact Ho|].
  - intros u Hu. discriminate.
  - intros x. cbn [oelems]. cnt_norm. rewrite (HR x). lia.
Qed.
Lemma close_none0 k s vi v w R : VInvU k s -> getv s vi = Some v ->
  (forall x, cnt (reachable s) x = cnt (elems v) x + cnt R x) ->
  own w R -> VInvU k (setv s vi None w).
Proof.
  intros HI Hg HR Ho. eapply VInvU_setv0; [exact HI|exact Hg| |exact Ho|].
  - intros u Hu. discriminate.
  - intros x. cbn [oelems]. cnt_norm. rewrite (HR x). lia.
Qed.
Lemma close_setw k s vi v w R : VInvU k s -> getv s vi = Some v ->
  (forall x, cnt (reachable s) x = cnt (elems v) x + cnt R x) ->
  own w (elems v ++ R) -> VInvU k (setw s w).
Proof.
  intros HI Hg HR Ho. apply VInvU_setw; [exact HI|]. eapply own_sub; [exact Ho|]. intros x. cnt_norm. rewrite (HR x). lia.
Qed.

Lemma thin_push_inv w v id R w' v' : thin_push w v id = (w', v') -> vsound v -> own w (id :: elems v ++ R) ->
  vsound v' /\ own w' (elems v' ++ R) /\ elems v' = elems v ++ [id].
Proof.
  intros H Hs Ho. unfold thin_push in H. destruct (thin_reserve w v 1) as [w1 v1] eqn:Er.
  apply thin_reserve_spec in Er; [|exact Hs]. destruct Er as ((S1 & _) & S2 & S3 & S4 & S5 & S6).
  rewrite wr_ok in H by lia. cbv beta iota in H. cbn [vlen] in H.
  rewrite setlen_ok in H by (unfold vcapn; cbn [slots]; rewrite updn_length; fold (vcapn v1); lia). cbn [slots] in H.
  fold (pushv v1 id) in H. inj H. destruct (pushv_spec v1 id S6 ltac:(lia)) as (A & B & C & D).
  split; [exact A|]. rewrite B, S5. split; [|reflexivity]. eapply own_sub; [eapply own_same; [exact Ho|exact S1]|]. csolve.
Qed.

Lemma inv_XPush k s vi x : VInvU k s -> VInvU k (fst (vstep_core k s (XPush vi x))).
Proof.
  intros HI. unfold vstep_core. open_v HI Hg.
  pose proof (fresh_spec (wd s) x) as Hb. destruct (fresh (wd s) x) as [id w1]. cbn [fst snd] in Hb.
  pose proof (own_born _ _ _ _ _ Hown Hb) as Ho1.
  destruct k as [c|].
  - destruct (inline_push w1 v id) as [[w2 v2] p] eqn:E. cbn [fst].
    apply inline_push_inv with (R := R) in E; [|eapply vec_sound_vsound; eauto|exact Ho1]. destruct E as (A & B & C & _).
    eapply close_setv0; eauto. eapply vec_sound_same_cap; eauto.
  - destruct (thin_push w1 v id) as [w2 v2] eqn:E. cbn [fst].
    apply thin_push_inv with (R := R) in E; [|eapply vec_sound_vsound; eauto|exact Ho1]. destruct E as (A & B & _).
    eapply close_setv0; eauto. now apply vec_sound_intro.
Qed.

Lemma inv_XTryPush k s vi x : VInvU k s -> VInvU k (fst (vstep_core k s (XTryPush vi x))).
Proof.
  intros HI. unfold vstep_core. open_v HI Hg. destruct k as [c|]; [|exact HI].
  pose proof (fresh_spec (wd s) x) as Hb. destruct (fresh (wd s) x) as [id w1]. cbn [fst snd] in Hb.
  pose proof (own_born _ _ _ _ _ Hown Hb) as Ho1. pose proof (vec_sound_vsound _ _ Hvs) as Hs.
  unfold inline_try_push. destruct (Nat.ltb (vlen v) (vcapn v)) eqn:E.
  - apply Nat.ltb_lt in E. rewrite wr_ok by exact E. cbv beta iota.
    rewrite setlen_ok by capsolve. cbv beta iota. cbn [slots vlen fst]. fold (pushv v id).
    destruct (pushv_spec v id Hs E) as (A & B & C & D).
    eapply close_setv0; eauto; [eapply vec_sound_same_cap; eauto|]. eapply own_sub; [exact Ho1|]. rewrite B. csolve.
  - cbv beta iota. cbn [fst]. eapply close_setv; eauto. eapply own_sub; [exact Ho1|]. csolve.
Qed.

Lemma inv_XPop k s vi : VInvU k s -> VInvU k (fst (vstep_core k s (XPop vi))).
Proof.
  intros HI. unfold vstep_core. open_v HI Hg. pose proof (vec_sound_vsound _ _ Hvs) as Hs.
  destruct (vlen v) as [|n] eqn:El; [exact HI|].
  rewrite (take_slot_ok _ v n (nth n (elems v) 0%N)) by (apply rd_elems; [exact Hs|lia]). cbv beta iota.
  rewrite setlen_ok by (destruct Hs; lia). cbv beta iota. cbn [fst].
  destruct (elems_mk_le v n Hs ltac:(lia)) as [He Hs'].
  eapply close_setv; eauto; [eapply vec_sound_same_cap; eauto|].
  eapply own_sub; [exact Hown|]. rewrite He. intros x. cnt_norm.
  destruct Hs as [_ Hlen]. rewrite (cnt_nth_split (elems v) n x) by lia. lia.
Qed.

Lemma inv_XPopIf k s vi r : VInvU k s -> VInvU k (fst (vstep_core k s (XPopIf vi r))).
Proof.
  intros HI. unfold vstep_core. open_v HI Hg. pose proof (vec_sound_vsound _ _ Hvs) as Hs.
  destruct k as [c|]; [|exact HI].
  destruct (vlen v) as [|n] eqn:El; [exact HI|].
  rewrite (take_slot_ok _ v n (nth n (elems v) 0%N)) by (apply rd_elems; [exact Hs|lia]). cbv beta iota.
  pose proof (cb_pred_spec (wd s) (nth n (elems v) 0%N) r) as Hcb.
  destruct (cb_pred (wd s) (nth n (elems v) 0%N) r) as [r' w2|w2].
  - destruct Hcb as [-> Hsm]. destruct r.
    + rewrite setlen_ok by (destruct Hs; lia). cbv beta iota. cbn [fst].
      destruct (elems_mk_le v n Hs ltac:(lia)) as [He Hs'].
      eapply close_setv; eauto; [eapply vec_sound_same_cap; eauto|].
      eapply own_sub; [eapply own_same; [exact Hown|exact Hsm]|]. rewrite He. intros x. cnt_norm.
      destruct Hs as [_ Hlen]. rewrite (cnt_nth_split (elems v) n x) by lia. lia.
    + cbn [fst]. eapply close_setw; eauto. eapply own_same; eauto.
  - cbn [fst]. eapply close_setw; eauto. eapply own_same; eauto.
Qed.

Lemma insert_steps_inv k s vi v v1 R id w1 i : VInvU k s -> getv s vi = Some v -> vec_sound k v1 -> elems v1 = elems v ->
  (forall x, cnt (reachable s) x = cnt (elems v) x + cnt R x) ->
  own w1 (id :: elems v ++ R) -> i <= vlen v1 -> vlen v1 < vcapn v1 ->
  VInvU k (fst (let '(w2, v2) := write_slots w1 v1 (S i) (slots_from v1 i (vlen v1 - i)) in
                let '(w3, v3) := wr w2 v2 i (E id) in
                let '(w4, v4) := setlen w3 v3 (S (vlen v1)) in (setv s vi (Some v4) w4, VUnit))).
Proof.
  intros HI Hg Hvs He1 HR Ho Hi Hc. pose proof (vec_sound_vsound _ _ Hvs) as Hs.
  rewrite write_slots_ok by (rewrite slots_from_length; lia). cbv beta iota.
  rewrite wr_ok by capsolve. cbv beta iota. rewrite setlen_ok by capsolve. cbv beta iota. cbn [slots vlen fst].
  fold (insertv v1 i id). destruct (insertv_spec v1 i id Hs Hi Hc) as (A & B & C).
  eapply close_setv0; eauto; [eapply vec_sound_same_cap; eauto|].
  eapply own_sub; [exact Ho|]. rewrite B, He1. intros x. cnt_norm. rewrite cnt_insert_at. lia.
Qed.

Lemma inv_XInsert k s vi i x : VInvU k s -> VInvU k (fst (vstep_core k s (XInsert vi i x))).
Proof.
  intros HI. unfold vstep_core. open_v HI Hg. pose proof (vec_sound_vsound _ _ Hvs) as Hs.
  pose proof (fresh_spec (wd s) x) as Hb. destruct (fresh (wd s) x) as [id w1]. cbn [fst snd] in Hb.
  pose proof (own_born _ _ _ _ _ Hown Hb) as Ho1.
  assert (VInvU k (fst (match cb_drop (set_unw w1 true) id with
                        | Done _ w2 => (setw s w2, VPanicked) | Pan w2 => (setw s w2, VPanicked) end))) as Hrej.
  { pose proof (own_drop _ id _ (own_set_unw _ true _ Ho1)) as Hd.
    destruct (cb_drop (set_unw w1 true) id) as [[] w2|w2]; cbn [resw fst] in *; eapply close_setw; eauto. }
  destruct (Nat.ltb (vlen v) i) eqn:E1; [exact Hrej|]. apply Nat.ltb_ge in E1.
  destruct k as [c|].
  - destruct (Nat.eqb (vlen v) c) eqn:E2; [exact Hrej|]. apply Nat.eqb_neq in E2.
    pose proof (vec_sound_cap _ _ Hvs) as Hcap. destruct Hs as [Hl He].
    eapply insert_steps_inv; eauto. lia.
  - destruct (thin_reserve w1 v 1) as [w1' v1] eqn:Er.
    apply thin_reserve_spec in Er; [|exact Hs]. destruct Er as ((S1 & _) & S2 & S3 & S4 & S5 & S6).
    rewrite <- S4. eapply insert_steps_inv; eauto; try lia.
    + now apply vec_sound_intro.
    + eapply own_same; eauto.
Qed.

Lemma inv_XTryInsert k s vi i x : VInvU k s -> VInvU k (fst (vstep_core k s (XTryInsert vi i x))).
Proof.
  intros HI. unfold vstep_core. open_v HI Hg. pose proof (vec_sound_vsound _ _ Hvs) as Hs.
  destruct k as [c|]; [|exact HI].
  pose proof (fresh_spec (wd s) x) as Hb. destruct (fresh (wd s) x) as [id w1]. cbn [fst snd] in Hb.
  pose proof (own_born _ _ _ _ _ Hown Hb) as Ho1.
  assert (VInvU (KInline c) (hand (setw s w1) [id])) as Hrej.
  { change (setw s w1) with (setw s w1). split.
    - intros j u. rewrite getv_hand, getv_setw. apply HI.
    - cbn [wd hand setw]. eapply own_sub; [exact Ho1|]. unfold reachable. cbn [pool handed hand setw]. intros y.
      specialize (HR y). unfold reachable in HR. cnt_norm. rewrite count_occ_app in HR. lia. }
  destruct (Nat.ltb (vlen v) i) eqn:E1; [exact Hrej|]. apply Nat.ltb_ge in E1.
  destruct (Nat.eqb (vlen v) c) eqn:E2; [exact Hrej|]. apply Nat.eqb_neq in E2.
  pose proof (vec_sound_cap _ _ Hvs) as Hcap. destruct Hs as [Hl He].
  eapply insert_steps_inv; eauto. lia.
Qed.

Lemma inv_XRemove k s vi i : VInvU k s -> VInvU k (fst (vstep_core k s (XRemove vi i))).
Proof.
  intros HI. unfold vstep_core. open_v HI Hg. pose proof (vec_sound_vsound _ _ Hvs) as Hs.
  destruct (Nat.ltb i (vlen v)) eqn:E1; [|exact HI]. apply Nat.ltb_lt in E1. pose proof Hs as [Hl He].
  rewrite (take_slot_ok _ v i (nth i (elems v) 0%N)) by (apply rd_elems; [exact Hs|lia]). cbv beta iota.
  rewrite write_slots_ok by (rewrite slots_from_length; lia). cbv beta iota.
  rewrite setlen_ok by capsolve. cbv beta iota. cbn [slots vlen fst]. fold (removev v i).
  destruct (removev_spec v i Hs E1) as (A & B & C).
  eapply close_setv; eauto; [eapply vec_sound_same_cap; eauto|].
  eapply own_sub; [exact Hown|]. rewrite B. intros x. cnt_norm. rewrite (cnt_remove_at (elems v) i x) by lia. lia.
Qed.

Lemma inv_XSwapRemove k s vi i : VInvU k s -> VInvU k (fst (vstep_core k s (XSwapRemove vi i))).
Proof.
  intros HI. unfold vstep_core. open_v HI Hg. pose proof (vec_sound_vsound _ _ Hvs) as Hs.
  destruct (Nat.ltb i (vlen v)) eqn:E1; [|exact HI]. apply Nat.ltb_lt in E1. pose proof Hs as [Hl He].
  rewrite (take_slot_ok _ v i (nth i (elems v) 0%N)) by (apply rd_elems; [exact Hs|lia]). cbv beta iota.
  destruct k as [c|].
  - rewrite wr_ok by lia. cbv beta iota. rewrite wr_ok by capsolve. cbv beta iota. rewrite setlen_ok by capsolve.
    cbv beta iota. cbn [slots vlen fst].
    destruct (swap_remove_spec v i (updn (updn (slots v) i (rd v (vlen v - 1))) (vlen v - 1) (E (nth i (elems v) 0%N))) Hs E1) as (A & B & C).
    { rewrite !updn_length. reflexivity. }
    { intros j Hj. rewrite nth_updn_ne by lia. rewrite nth_updn by (unfold vcapn in Hl; lia). reflexivity. }
    eapply close_setv; eauto; [eapply vec_sound_same_cap; eauto|].
    eapply own_sub; [exact Hown|]. rewrite B. intros x. cnt_norm. rewrite (cnt_swap_list (elems v) i x) by lia. lia.
  - rewrite wr_ok by lia. cbv beta iota. rewrite setlen_ok by capsolve.
    cbv beta iota. cbn [slots vlen fst].
    destruct (swap_remove_spec v i (updn (slots v) i (rd v (vlen v - 1))) Hs E1) as (A & B & C).
    { rewrite !updn_length. reflexivity. }
    { intros j Hj. rewrite nth_updn by (unfold vcapn in Hl; lia). reflexivity. }
    eapply close_setv; eauto; [eapply vec_sound_same_cap; eauto|].
    eapply own_sub; [exact Hown|]. rewrite B. intros x. cnt_norm. rewrite (cnt_swap_list (elems v) i x) by lia. lia.
Qed.

Lemma trunc_inv st w v m R : vsound v -> m <= vlen v -> own w (elems v ++ R) ->
  let v1 := mkV (slots v) m in
  own (resw (drop_range st w v1 m (vlen v - m))) (elems v1 ++ R) /\ vsound v1 /\ vcapn v1 = vcapn v.
Proof.
  intros Hs Hm Ho v1. destruct (elems_mk_le v m Hs Hm) as [He Hs1]. fold v1 in He, Hs1.
  split; [|split; [exact Hs1|reflexivity]].
  eapply (drop_range_inv st w v1 v m (vlen v - m)); [reflexivity|exact Hs|lia|reflexivity|].
  eapply own_sub; [exact Ho|]. rewrite He. intros x. cnt_norm.
  rewrite (cnt_firstn_skipn (elems v) m x). rewrite (firstn_all_ge (skipn m (elems v))) by (rewrite skipn_length; destruct Hs; lia). lia.
Qed.

Lemma trunc_steps_inv k st s vi v R w m : VInvU k s -> getv s vi = Some v -> vec_sound k v ->
  (forall x, cnt (reachable s) x = cnt (elems v) x + cnt R x) -> own w (elems v ++ R) -> m <= vlen v ->
  VInvU k (fst (let '(w1, v1) := setlen w v m in
                match drop_range st w1 v1 m (vlen v - m) with
                | Done _ w2 => (setv s vi (Some v1) w2, VUnit)
                | Pan w2 => (setv s vi (Some v1) w2, VPanicked)
                end)).
Proof.
  intros HI Hg Hvs HR Ho Hm. pose proof (vec_sound_vsound _ _ Hvs) as Hs.
  rewrite setlen_ok by (destruct Hs; lia). cbv beta iota.
  destruct (trunc_inv st w v m R Hs Hm Ho) as (A & B & C). cbv zeta in *.
  destruct (drop_range st w (mkV (slots v) m) m (vlen v - m)) as [[] w2|w2]; cbn [resw fst] in *;
    (eapply close_setv0; eauto; eapply vec_sound_same_cap; eauto).
Qed.

Lemma inv_XTruncate k s vi m : VInvU k s -> VInvU k (fst (vstep_core k s (XTruncate vi m))).
Proof.
  intros HI. unfold vstep_core. open_v HI Hg.
  destruct k as [c|].
  - destruct (Nat.ltb m (vlen v)) eqn:E; [|exact HI]. apply Nat.ltb_lt in E. eapply trunc_steps_inv; eauto. lia.
  - destruct (Nat.ltb (vlen v) m) eqn:E; [exact HI|]. apply Nat.ltb_ge in E. eapply trunc_steps_inv; eauto.
Qed.

Lemma inv_XClear k s vi : VInvU k s -> VInvU k (fst (vstep_core k s (XClear vi))).
Proof.
  intros HI. unfold vstep_core. open_v HI Hg.
  destruct k as [c|].
  - destruct (Nat.ltb 0 (vlen v)) eqn:E; [|exact HI]. apply Nat.ltb_lt in E.
    pose proof (trunc_steps_inv (KInline c) Stop s vi v R (wd s) 0 HI Hg Hvs HR Hown ltac:(lia)) as H.
    rewrite Nat.sub_0_r in H. exact H.
  - pose proof (trunc_steps_inv KThin Continue s vi v R (wd s) 0 HI Hg Hvs HR Hown ltac:(lia)) as H.
    rewrite Nat.sub_0_r in H. exact H.
Qed.

Lemma drop_value_inv k s vi v0 R id w v (u1 u2 : vout) : VInvU k s -> getv s vi = Some v0 ->
  (forall x, cnt (reachable s) x = cnt (elems v0) x + cnt R x) -> vec_sound k v -> own w (id :: elems v ++ R) ->
  VInvU k (fst (match cb_drop w id with
                | Done _ w0 => (setv s vi (Some v) w0, u1)
                | Pan w0 => (setv s vi (Some v) w0, u2)
                end)).
Proof.
  intros HI Hg HR Hvs Ho. pose proof (own_drop w id _ Ho) as Hd.
  destruct (cb_drop w id) as [[] w0|w0]; cbn [resw fst] in *; eapply close_setv0; eauto.
Qed.

Lemma own_mid w a id L : own w (id :: a ++ L) <-> own w (a ++ id :: L).
Proof. split; intros H; (eapply own_sub; [exact H|]); csolve. Qed.

Lemma inv_XResize k s vi m x : VInvU k s -> VInvU k (fst (vstep_core k s (XResize vi m x))).
Proof.
  intros HI. unfold vstep_core. open_v HI Hg. pose proof (vec_sound_vsound _ _ Hvs) as Hs.
  pose proof (fresh_spec (wd s) x) as Hb. destruct (fresh (wd s) x) as [id w1]. cbn [fst snd] in Hb.
  pose proof (own_born _ _ _ _ _ Hown Hb) as Ho1. pose proof Hs as [Hl He].
  destruct k as [c|].
  - pose proof (vec_sound_cap _ _ Hvs) as Hcap.
    destruct (Nat.ltb (vlen v) m) eqn:E1.
    + apply Nat.ltb_lt in E1. destruct (Nat.ltb c m) eqn:E2.
      * eapply drop_value_inv; eauto. now apply own_set_unw.
      * apply Nat.ltb_ge in E2.
        destruct (clone_into_bump' w1 v (vlen v) (repeat id (m - vlen v))) as [[w2 v2] p] eqn:Ec.
        apply cib_inv with (R := id :: R) in Ec; [|exact Hs|reflexivity|rewrite repeat_length; lia|now apply own_mid].
        destruct Ec as (A & B & C & _). apply own_mid in C.
        eapply drop_value_inv; eauto; [eapply vec_sound_same_cap; eauto|]. destruct p; [now apply own_set_unw|exact C].
    + apply Nat.ltb_ge in E1. destruct (Nat.ltb m (vlen v)) eqn:E2.
      * rewrite setlen_ok by lia. cbv beta iota.
        destruct (trunc_inv Stop w1 v m (id :: R) Hs E1 ltac:(now apply own_mid)) as (A & B & C). cbv zeta in *.
        apply own_mid in A.
        destruct (drop_range Stop w1 (mkV (slots v) m) m (vlen v - m)) as [[] w3|w3]; cbn [resw] in A.
        -- eapply drop_value_inv; eauto. eapply vec_sound_same_cap; eauto.
        -- eapply drop_value_inv; eauto; [eapply vec_sound_same_cap; eauto|now apply own_set_unw].
      * cbv beta iota. eapply drop_value_inv; eauto.
  - destruct (Nat.ltb (vlen v) m) eqn:E1.
    + apply Nat.ltb_lt in E1. destruct (thin_reserve w1 v (m - vlen v)) as [w2 v2] eqn:Er.
      apply thin_reserve_spec in Er; [|exact Hs]. destruct Er as ((S1 & _) & S2 & S3 & S4 & S5 & S6).
      destruct (clone_into_bump' w2 v2 (vlen v) (repeat id (m - vlen v - 1))) as [[w3 v3] p] eqn:Ec.
      apply cib_inv with (R := id :: R) in Ec; [|exact S6|exact S4|rewrite repeat_length; lia|].
      2:{ rewrite S5. apply own_mid. eapply own_same; eauto. }
      destruct Ec as (A & B & C & D). apply own_mid in C. destruct p.
      * eapply drop_value_inv; eauto; [now apply vec_sound_intro|now apply own_set_unw].
      * specialize (D eq_refl). rewrite repeat_length in D.
        assert (m - 1 = vlen v3) as -> by lia. rewrite wr_ok by lia. cbv beta iota.
        rewrite setlen_ok by capsolve. cbv beta iota. cbn [slots vlen fst].
        replace m with (S (vlen v3)) by lia. fold (pushv v3 id).
        destruct (pushv_spec v3 id A ltac:(lia)) as (X1 & X2 & X3 & X4).
        eapply close_setv0; eauto; [now apply vec_sound_intro|]. eapply own_sub; [exact C|]. rewrite X2. csolve.
    + apply Nat.ltb_ge in E1. rewrite setlen_ok by lia. cbv beta iota.
      destruct (trunc_inv Continue w1 v m (id :: R) Hs E1 ltac:(now apply own_mid)) as (A & B & C). cbv zeta in *.
      apply own_mid in A.
      destruct (drop_range Continue w1 (mkV (slots v) m) m (vlen v - m)) as [[] w3|w3]; cbn [resw] in A.
      * eapply drop_value_inv; eauto. now apply vec_sound_intro.
      * eapply drop_value_inv; eauto; [now apply vec_sound_intro|now apply own_set_unw].
Qed.

Lemma inv_XResizeWith k s vi m x : VInvU k s -> VInvU k (fst (vstep_core k s (XResizeWith vi m x))).
Proof.
  intros HI. unfold vstep_core. open_v HI Hg. pose proof (vec_sound_vsound _ _ Hvs) as Hs.
  destruct k as [c|]; [|exact HI]. pose proof (vec_sound_cap _ _ Hvs) as Hcap.
  destruct (Nat.ltb (vlen v) m) eqn:E1.
  - apply Nat.ltb_lt in E1. destruct (Nat.ltb c m) eqn:E2; [exact HI|]. apply Nat.ltb_ge in E2.
    fold (rw_go x). destruct (rw_go x (wd s) v (vlen v) (m - vlen v)) as [[w1 v1] p] eqn:Eg. cbn [fst].
    apply rwgo_inv with (R := R) in Eg; [|exact Hs|reflexivity|lia|exact Hown]. destruct Eg as (A & B & C).
    eapply close_setv0; eauto. eapply vec_sound_same_cap; eauto.
  - apply Nat.ltb_ge in E1. destruct (Nat.ltb m (vlen v)) eqn:E2; [|exact HI]. eapply trunc_steps_inv; eauto.
Qed.

Lemma inv_XExtendFromSlice k s vi srcs : VInvU k s -> VInvU k (fst (vstep_core k s (XExtendFromSlice vi srcs))).
Proof.
  intros HI. unfold vstep_core. open_v HI Hg. pose proof (vec_sound_vsound _ _ Hvs) as Hs.
  destruct k as [c|].
  - pose proof (vec_sound_cap _ _ Hvs) as Hcap.
    destruct (Nat.ltb c (vlen v + length srcs)) eqn:E1; [exact HI|]. apply Nat.ltb_ge in E1.
    destruct (clone_into_bump' (wd s) v (vlen v) srcs) as [[w1 v1] p] eqn:Ec. cbn [fst].
    apply cib_inv with (R := R) in Ec; [|exact Hs|reflexivity|lia|exact Hown]. destruct Ec as (A & B & C & _).
    eapply close_setv0; eauto. eapply vec_sound_same_cap; eauto.
  - destruct (thin_reserve (wd s) v (length srcs)) as [w1 v1] eqn:Er.
    apply thin_reserve_spec in Er; [|exact Hs]. destruct Er as ((S1 & _) & S2 & S3 & S4 & S5 & S6).
    destruct (guarded_clone w1 v1 (vlen v) (vlen v) srcs) as [[w2 v2] p] eqn:Eg.
    apply gc_inv with (R := R) (G := []) in Eg; [|exact S6|exact S4|lia|lia|rewrite Nat.sub_diag; reflexivity|].
    2:{ cbn [app]. rewrite S5. eapply own_same; eauto. }
    destruct Eg as (A & B & C & D & F1 & F2). destruct p.
    + cbn [fst]. eapply close_setv0; eauto. now apply vec_sound_intro.
    + destruct (F2 eq_refl) as (G' & X & Y). rewrite setlen_ok by lia. cbv beta iota. cbn [fst].
      replace (vlen v + length srcs - vlen v) with (length srcs) in X by lia. rewrite <- C in X.
      destruct (elems_extend v2 (length srcs) G' A X ltac:(lia)) as [Z1 Z2]. rewrite C in Z1, Z2.
      eapply close_setv0; eauto; [now apply vec_sound_intro|]. rewrite Z2. eapply own_sub; [exact Y|]. csolve.
Qed.

Lemma inv_XExtendFromWithin k s vi b1 b2 : VInvU k s -> VInvU k (fst (vstep_core k s (XExtendFromWithin vi b1 b2))).
Proof.
  intros HI. unfold vstep_core. open_v HI Hg. pose proof (vec_sound_vsound _ _ Hvs) as Hs.
  destruct (to_range b1 b2 (vlen v)) as [[a b]|] eqn:Et; [|exact HI]. apply to_range_ok in Et.
  assert (length (idents (slots_from v a (b - a))) = b - a) as Hlen.
  { rewrite idents_slots_from by (auto; lia). rewrite firstn_length, skipn_length. destruct Hs. lia. }
  destruct k as [c|].
  - pose proof (vec_sound_cap _ _ Hvs) as Hcap.
    destruct (Nat.ltb c (vlen v + (b - a))) eqn:E1; [exact HI|]. apply Nat.ltb_ge in E1.
    destruct (clone_into_bump' (wd s) v (vlen v) (idents (slots_from v a (b - a)))) as [[w1 v1] p] eqn:Ec. cbn [fst].
    apply cib_inv with (R := R) in Ec; [|exact Hs|reflexivity|lia|exact Hown]. destruct Ec as (A & B & C & _).
    eapply close_setv0; eauto. eapply vec_sound_same_cap; eauto.
  - destruct (thin_reserve (wd s) v (b - a)) as [w1 v1] eqn:Er.
    apply thin_reserve_spec in Er; [|exact Hs]. destruct Er as ((S1 & _) & S2 & S3 & S4 & S5 & S6).
    destruct (clone_into_bump' w1 v1 (vlen v) (idents (slots_from v a (b - a)))) as [[w2 v2] p] eqn:Ec. cbn [fst].
    apply cib_inv with (R := R) in Ec; [|exact S6|exact S4|lia|rewrite S5; eapply own_same; eauto]. destruct Ec as (A & B & C & _).
    eapply close_setv0; eauto. now apply vec_sound_intro.
Qed.

Lemma inv_XExtendIter k s vi vs hint : VInvU k s -> VInvU k (fst (vstep_core k s (XExtendIter vi vs hint))).
Proof.
  intros HI. unfold vstep_core. open_v HI Hg. pose proof (vec_sound_vsound _ _ Hvs) as Hs.
  destruct k as [c|].
  - destruct (iter_loop (wd s) v 0 vs (fun w v _ id => inline_push w v id)) as [[w1 v1] p] eqn:Ei. cbn [fst].
    apply iter_inline_inv with (R := R) in Ei; [|exact Hs|exact Hown]. destruct Ei as (A & B & C).
    eapply close_setv0; eauto. eapply vec_sound_same_cap; eauto.
  - destruct (thin_reserve (wd s) v hint) as [w0 v0] eqn:Er.
    apply thin_reserve_spec in Er; [|exact Hs]. destruct Er as ((S1 & _) & S2 & S3 & S4 & S5 & S6).
    match goal with |- context [iter_loop w0 v0 0 vs ?f] => destruct (iter_loop w0 v0 0 vs f) as [[w1 v1] p] eqn:Ei end. cbn [fst].
    apply iter_thin_inv with (R := R) in Ei; [|exact S6|exact S4|lia|rewrite S5; eapply own_same; eauto]. destruct Ei as (A & B).
    eapply close_setv0; eauto. now apply vec_sound_intro.
Qed.

(** a new vector was being built and the operation unwinds: the partial vector is dropped *)
Lemma unwind_new_inv k s w1 v1 : VInvU k s -> vsound v1 -> own w1 (elems v1 ++ reachable s) ->
  VInvU k (fst (match drop_vec k w1 v1 with Done _ w2 => setw s w2 | Pan w2 => setw s w2 end, VPanicked)).
Proof.
  intros HI Hs Ho. pose proof (drop_vec_inv k w1 v1 _ Hs Ho) as Hd.
  destruct (drop_vec k w1 v1) as [[] w2|w2]; cbn [resw fst] in *; now apply VInvU_setw.
Qed.

Lemma inv_XFromSlice k s srcs : VInvU k s -> VInvU k (fst (vstep_core k s (XFromSlice srcs))).
Proof.
  intros HI. unfold vstep_core. pose proof (VInvU_own _ _ HI) as Hown.
  destruct k as [c|].
  - destruct (Nat.ltb c (length srcs)) eqn:E1; [exact HI|]. apply Nat.ltb_ge in E1.
    destruct (new_vec_spec c) as (N1 & N2 & N3 & N4).
    destruct (clone_into_bump' (wd s) (new_vec c) 0 srcs) as [[w1 v1] p] eqn:Ec.
    apply cib_inv with (R := reachable s) in Ec; [|exact N1|exact N4|lia|rewrite N2; exact Hown].
    destruct Ec as (A & B & C & _). destruct p.
    + now apply unwind_new_inv.
    + rewrite addv_let. apply VInvU_addv'; auto. apply vec_sound_intro; [exact A|congruence].
  - unfold thin_with_capacity. destruct (new_vec_spec (Nat.max (length srcs) THIN_MIN)) as (N1 & N2 & N3 & N4).
    destruct (guarded_clone (ev_alloc (wd s)) (new_vec (Nat.max (length srcs) THIN_MIN)) 0 0 srcs) as [[w1 v1] p] eqn:Eg.
    apply gc_inv with (R := reachable s) (G := []) in Eg; [|exact N1|exact N4|lia|lia|reflexivity|].
    2:{ cbn [app]. rewrite N2. eapply own_same; [exact Hown|wsame_tac]. }
    destruct Eg as (A & B & C & D & F1 & F2). destruct p.
    + apply unwind_new_inv; auto.
    + destruct (F2 eq_refl) as (G' & X & Y). rewrite setlen_ok by lia. cbv beta iota. rewrite addv_let.
      replace (0 + length srcs - 0) with (length srcs) in X by lia. rewrite <- C in X at 1.
      destruct (elems_extend v1 (length srcs) G' A X ltac:(lia)) as [Z1 Z2]. rewrite C in Z1, Z2. cbn [Nat.add] in Z1, Z2.
      apply VInvU_addv'; [exact HI|now apply vec_sound_intro|]. rewrite Z2. eapply own_sub; [exact Y|]. csolve.
Qed.

Lemma inv_XFromIter k s vs hint : VInvU k s -> VInvU k (fst (vstep_core k s (XFromIter vs hint))).
Proof.
  intros HI. unfold vstep_core. pose proof (VInvU_own _ _ HI) as Hown.
  destruct k as [c|].
  - destruct (Nat.ltb c hint) eqn:E1; [exact HI|].
    destruct (new_vec_spec c) as (N1 & N2 & N3 & N4).
    destruct (iter_loop (wd s) (new_vec c) 0 vs (fun w v _ id => inline_push w v id)) as [[w1 v1] p] eqn:Ei.
    apply iter_inline_inv with (R := reachable s) in Ei; [|exact N1|rewrite N2; exact Hown]. destruct Ei as (A & B & C).
    destruct p.
    + now apply unwind_new_inv.
    + rewrite addv_let. apply VInvU_addv'; auto. apply vec_sound_intro; [exact A|congruence].
  - unfold thin_with_capacity. destruct (new_vec_spec (Nat.max hint THIN_MIN)) as (N1 & N2 & N3 & N4).
    match goal with |- context [iter_loop ?w ?v 0 vs ?f] => destruct (iter_loop w v 0 vs f) as [[w1 v1] p] eqn:Ei end.
    apply (iter_thin_inv (reachable s) 0 hint) in Ei; [|exact N1|exact N4|lia|].
    2:{ rewrite N2. eapply own_same; [exact Hown|wsame_tac]. }
    destruct Ei as (A & B). destruct p.
    + now apply unwind_new_inv.
    + rewrite addv_let. apply VInvU_addv'; auto. now apply vec_sound_intro.
Qed.

Lemma inv_XCloneV k s vi : VInvU k s -> VInvU k (fst (vstep_core k s (XCloneV vi))).
Proof.
  intros HI. unfold vstep_core. pose proof (VInvU_own _ _ HI) as Hown0. open_v HI Hg. pose proof (vec_sound_vsound _ _ Hvs) as Hs.
  destruct k as [c|]; [|exact HI]. pose proof (vec_sound_cap _ _ Hvs) as Hcap.
  destruct (new_vec_spec c) as (N1 & N2 & N3 & N4).
  destruct (clone_into_bump' (wd s) (new_vec c) 0 (elems v)) as [[w1 v1] p] eqn:Ec.
  apply cib_inv with (R := reachable s) in Ec; [|exact N1|exact N4|destruct Hs; lia|rewrite N2; exact Hown0].
  destruct Ec as (A & B & C & _). destruct p.
  - now apply unwind_new_inv.
  - rewrite addv_let. apply VInvU_addv'; auto. apply vec_sound_intro; [exact A|congruence].
Qed.

Lemma inv_XDropV k s vi : VInvU k s -> VInvU k (fst (vstep_core k s (XDropV vi))).
Proof.
  intros HI. unfold vstep_core. open_v HI Hg. pose proof (vec_sound_vsound _ _ Hvs) as Hs.
  pose proof (drop_vec_inv k (wd s) v R Hs Hown) as Hd.
  destruct (drop_vec k (wd s) v) as [[] w1|w1]; cbn [resw fst] in *; eapply close_none0; eauto.
Qed.

Lemma inv_XReserve k s vi m : VInvU k s -> VInvU k (fst (vstep_core k s (XReserve vi m))).
Proof.
  intros HI. unfold vstep_core. open_v HI Hg. pose proof (vec_sound_vsound _ _ Hvs) as Hs.
  destruct k as [c|]; [exact HI|].
  destruct (thin_reserve (wd s) v m) as [w1 v1] eqn:Er. cbn [fst].
  apply thin_reserve_spec in Er; [|exact Hs]. destruct Er as ((S1 & _) & S2 & S3 & S4 & S5 & S6).
  eapply close_setv0; eauto; [now apply vec_sound_intro|]. rewrite S5. eapply own_same; eauto.
Qed.

Lemma inv_XReserveExact k s vi m : VInvU k s -> VInvU k (fst (vstep_core k s (XReserveExact vi m))).
Proof.
  intros HI. unfold vstep_core. open_v HI Hg. pose proof (vec_sound_vsound _ _ Hvs) as Hs.
  destruct k as [c|]; [exact HI|].
  destruct (thin_reserve_exact (wd s) v m) as [w1 v1] eqn:Er. cbn [fst].
  apply thin_reserve_exact_spec in Er; [|exact Hs]. destruct Er as ((S1 & _) & S2 & S4 & S5 & S6).
  eapply close_setv0; eauto; [now apply vec_sound_intro|]. rewrite S5. eapply own_same; eauto.
Qed.

Lemma inv_XShrinkTo k s vi m : VInvU k s -> VInvU k (fst (vstep_core k s (XShrinkTo vi m))).
Proof.
  intros HI. unfold vstep_core. open_v HI Hg. pose proof (vec_sound_vsound _ _ Hvs) as Hs.
  destruct k as [c|]; [exact HI|].
  destruct (Nat.leb (vcapn v) m); [exact HI|].
  destruct (set_cap (wd s) v (Nat.max m (vlen v))) as [w1 v1] eqn:Er. cbn [fst].
  apply set_cap_spec in Er; [|exact Hs|lia]. destruct Er as ((S1 & _) & S2 & S4 & S5 & S6).
  eapply close_setv0; eauto; [now apply vec_sound_intro|]. rewrite S5. eapply own_same; eauto.
Qed.

Lemma inv_XShrinkToFit k s vi : VInvU k s -> VInvU k (fst (vstep_core k s (XShrinkToFit vi))).
Proof.
  intros HI. unfold vstep_core. open_v HI Hg. pose proof (vec_sound_vsound _ _ Hvs) as Hs.
  destruct k as [c|]; [exact HI|].
  destruct (Nat.eqb (vlen v) (vcapn v)); [exact HI|].
  destruct (set_cap (wd s) v (vlen v)) as [w1 v1] eqn:Er. cbn [fst].
  apply set_cap_spec in Er; [|exact Hs|lia]. destruct Er as ((S1 & _) & S2 & S4 & S5 & S6).
  eapply close_setv0; eauto; [now apply vec_sound_intro|]. rewrite S5. eapply own_same; eauto.
Qed.

(** the identities handed out by a double-ended partial consumption of [a, b) *)
Lemma take_both_ok w v v0 a b f bk : slots v = slots v0 -> vsound v0 -> a + f + bk <= b -> b <= vlen v0 ->
  take_ids w v a f = (w, firstn f (skipn a (elems v0))) /\
  take_ids_back w v b bk = (w, rev (firstn bk (skipn (b - bk) (elems v0)))).
Proof.
  intros Hsl Hs H1 H2. split.
  - apply take_ids_ok. rewrite (slots_from_ext v0 v a f Hsl). apply slots_from_sound; [exact Hs|lia].
  - apply take_ids_back_ok; [lia|]. rewrite (slots_from_ext v0 v (b - bk) bk Hsl). apply slots_from_sound; [exact Hs|lia].
Qed.

Lemma inv_XIntoIter k s vi front back : VInvU k s -> VInvU k (fst (vstep_core k s (XIntoIter vi front back))).
Proof.
  intros HI. unfold vstep_core. open_v HI Hg. pose proof (vec_sound_vsound _ _ Hvs) as Hs.
  destruct k as [c|]; [|exact HI]. pose proof Hs as [Hl He].
  set (n := vlen v) in *. set (f := Nat.min front n). set (bk := Nat.min back (n - f)).
  destruct (take_both_ok (wd s) v v 0 n f bk eq_refl Hs ltac:(lia) ltac:(lia)) as [T1 T2].
  rewrite T1. cbv beta iota. rewrite T2. cbv beta iota.
  set (ids1 := firstn f (skipn 0 (elems v))). set (ids2 := rev (firstn bk (skipn (n - bk) (elems v)))).
  assert (own (resw (drop_range Stop (wd s) v f (n - bk - f))) ((ids1 ++ ids2) ++ R)) as Hd.
  { eapply (drop_range_inv Stop (wd s) v v f (n - bk - f)); [reflexivity|exact Hs|fold n; lia|reflexivity|].
    eapply own_sub; [exact Hown|]. intros x. unfold ids1, ids2. cnt_norm.
    rewrite (cnt_split5 (elems v) 0 f (n - bk - f) bk x). cbn [Nat.add].
    replace (f + (n - bk - f)) with (n - bk) by lia. lia. }
  destruct (drop_range Stop (wd s) v f (n - bk - f)) as [[] w4|w4]; cbn [resw fst] in *; eapply close_none; eauto.
Qed.

Lemma inv_XDrain k s vi b1 b2 front back forget : VInvU k s -> VInvU k (fst (vstep_core k s (XDrain vi b1 b2 front back forget))).
Proof.
  intros HI. unfold vstep_core. open_v HI Hg. pose proof (vec_sound_vsound _ _ Hvs) as Hs.
  destruct (to_range b1 b2 (vlen v)) as [[a b]|] eqn:Et; [|exact HI]. apply to_range_ok in Et. pose proof Hs as [Hl He].
  set (n := vlen v) in *. rewrite setlen_ok by lia. cbv beta iota.
  set (f := Nat.min front (b - a)). set (bk := Nat.min back (b - a - f)). set (v1 := mkV (slots v) a).
  destruct (take_both_ok (wd s) v1 v a b f bk eq_refl Hs ltac:(lia) ltac:(lia)) as [T1 T2].
  rewrite T1. cbv beta iota. rewrite T2. cbv beta iota.
  set (ids1 := firstn f (skipn a (elems v))). set (ids2 := rev (firstn bk (skipn (b - bk) (elems v)))).
  destruct (elems_mk_le v a Hs ltac:(lia)) as [He1 Hs1]. fold v1 in He1, Hs1.
  assert (forall x, cnt (elems v) x = cnt (firstn a (elems v)) x + cnt ids1 x + cnt (firstn (b - bk - (a + f)) (skipn (a + f) (elems v))) x
                                      + cnt ids2 x + cnt (skipn b (elems v)) x) as Hsplit.
  { intros x. unfold ids1, ids2. cnt_norm. rewrite (cnt_split5 (elems v) a f (b - bk - (a + f)) bk x).
    replace (a + f + (b - bk - (a + f))) with (b - bk) by lia. replace (b - bk + bk) with b by lia. lia. }
  unfold drain_finish. destruct forget.
  - cbn [fst]. eapply close_setv; eauto; [eapply vec_sound_same_cap; eauto|].
    eapply own_sub; [exact Hown|]. rewrite He1. intros x. cnt_norm. rewrite (Hsplit x). lia.
  - pose proof (drop_range_inv Continue (wd s) v1 v (a + f) (b - bk - (a + f)) _
                  ((firstn a (elems v) ++ skipn b (elems v)) ++ (ids1 ++ ids2) ++ R) eq_refl Hs ltac:(fold n; lia) eq_refl) as Hd.
    match type of Hd with ?P -> _ => assert P as HP; [|specialize (Hd HP); clear HP] end.
    { eapply own_sub; [exact Hown|]. intros x. cnt_norm. rewrite (Hsplit x). lia. }
    destruct (drop_range Continue (wd s) v1 (a + f) (b - bk - (a + f))) as [[] w1|w1]; cbn [resw] in Hd.
    + cbn [vlen v1]. rewrite write_slots_ok by (rewrite slots_from_length; unfold vcapn, v1 in *; cbn [slots]; lia). cbv beta iota.
      rewrite setlen_ok by (unfold vcapn, v1 in *; cbn [slots]; rewrite wrl_length; lia). cbv beta iota. cbn [fst slots].
      rewrite (slots_from_ext v v1 b (n - b) eq_refl).
      destruct (wrl_copy v1 v a b (n - b) Hs1 ltac:(cbn; lia) Hs ltac:(fold n; lia) ltac:(unfold vcapn, v1 in *; cbn [slots]; lia)) as (A & B & C).
      cbv zeta in *. cbn [slots v1] in *.
      eapply close_setv; eauto; [eapply vec_sound_same_cap; eauto|].
      rewrite B. change (elems (mkV (slots v) a)) with (elems v1). rewrite He1, firstn_firstn, Nat.min_id.
      rewrite (firstn_all_ge (skipn b (elems v))) by (rewrite skipn_length; lia). exact Hd.
    + cbn [fst]. eapply close_setv; eauto; [eapply vec_sound_same_cap; eauto|].
      eapply own_sub; [exact Hd|]. rewrite He1. csolve.
Qed.

Lemma inv_XSplitOff k s vi at_ : VInvU k s -> VInvU k (fst (vstep_core k s (XSplitOff vi at_))).
Proof.
  intros HI. unfold vstep_core. open_v HI Hg. pose proof (vec_sound_vsound _ _ Hvs) as Hs.
  destruct (Nat.ltb (vlen v) at_) eqn:E1; [exact HI|]. apply Nat.ltb_ge in E1. pose proof Hs as [Hl He].
  set (n := vlen v) in *.
  assert (exists w0 c0, (match k with KInline c => (wd s, new_vec c) | KThin => thin_with_capacity (wd s) (n - at_) end) = (w0, new_vec c0)
            /\ wsame (wd s) w0 /\ n - at_ <= c0 /\ match k with KInline c' => c0 = c' | KThin => True end) as (w0 & c0 & Eq & Hsm & Hc0 & Hk).
  { destruct k as [c|].
    - exists (wd s), c. split; [reflexivity|]. split; [apply wsame_refl|]. pose proof (vec_sound_cap _ _ Hvs). split; [lia|reflexivity].
    - exists (ev_alloc (wd s)), (Nat.max (n - at_) THIN_MIN). split; [reflexivity|]. split; [wsame_tac|]. split; [lia|exact I]. }
  rewrite Eq. destruct (new_vec_spec c0) as (N1 & N2 & N3 & N4).
  rewrite write_slots_ok by (rewrite slots_from_length; lia). cbv beta iota.
  rewrite setlen_ok by lia. cbv beta iota. rewrite setlen_ok by capsolve. cbv beta iota. rewrite addv_let. cbn [slots].
  destruct (wrl_copy (new_vec c0) v 0 at_ (n - at_) N1 ltac:(lia) Hs ltac:(fold n; lia) ltac:(lia)) as (A & B & C).
  cbv zeta in *. cbn [Nat.add] in *. cbn [firstn app] in B.
  rewrite (firstn_all_ge (skipn at_ (elems v))) in B by (rewrite skipn_length; lia).
  destruct (elems_mk_le v at_ Hs ltac:(lia)) as [He1 Hs1].
  assert (own w0 (elems v ++ R)) as Ho0 by (eapply own_same; eauto).
  assert (VInvU k (setv s vi (Some (mkV (slots v) at_)) w0)) as HI1.
  { eapply close_setv0; eauto; [eapply vec_sound_same_cap; eauto|]. eapply own_sub; [exact Ho0|]. rewrite He1. intros x. cnt_norm.
    rewrite (cnt_firstn_skipn (elems v) at_ x). lia. }
  eapply VInvU_addv; [exact HI1| |exact Ho0|].
  - apply vec_sound_intro; [exact A|]. destruct k; [congruence|exact I].
  - intros x. rewrite B. pose proof (reach_setv0 s vi (Some v) (Some (mkV (slots v) at_)) w0 x (proj1 (getv_nth _ _ _) Hg)) as Hr.
    cbn [oelems] in Hr. rewrite He1 in Hr. cnt_norm. specialize (HR x). rewrite (cnt_firstn_skipn (elems v) at_ x) in *. lia.
Qed.

Lemma append_go_inv k s vi oi v ov w v1 : VInvU k s -> getv s vi = Some v -> getv s oi = Some ov -> vi <> oi ->
  vec_sound k v1 -> elems v1 = elems v -> vlen v1 = vlen v -> vlen v + vlen ov <= vcapn v1 -> own w (reachable s) ->
  VInvU k (fst (let '(w2, v2) := write_slots w v1 (vlen v) (slots_from ov 0 (vlen ov)) in
                let '(w3, v3) := setlen w2 v2 (vlen v + vlen ov) in
                let '(w4, ov4) := setlen w3 ov 0 in
                (setv (setv s vi (Some v3) w4) oi (Some ov4) w4, VUnit))).
Proof.
  intros HI Hg Hgo Hne Hvs1 He1 Hl1 Hc Ho. pose proof (vec_sound_vsound _ _ Hvs1) as Hs1.
  pose proof HI as [Hall _]. pose proof (Hall _ _ Hgo) as Hvso. pose proof (vec_sound_vsound _ _ Hvso) as Hso.
  rewrite write_slots_ok by (rewrite slots_from_length; lia). cbv beta iota.
  rewrite setlen_ok by capsolve. cbv beta iota. rewrite setlen_ok by lia. cbv beta iota. cbn [fst slots].
  rewrite <- Hl1. destruct (wrl_copy v1 ov (vlen v1) 0 (vlen ov) Hs1 ltac:(lia) Hso ltac:(lia) ltac:(lia)) as (A & B & C).
  cbv zeta in *. cbn [skipn] in B. rewrite (firstn_all_ge (elems v1)) in B by (destruct Hs1; lia).
  rewrite (firstn_all_ge (elems ov)) in B by (destruct Hso; lia).
  destruct (elems_mk_le ov 0 Hso ltac:(lia)) as [Heo Hso']. cbn [firstn] in Heo.
  rewrite setv_comm by exact Hne.
  assert (VInvU k (setv s oi (Some (mkV (slots ov) 0)) w)) as HI1.
  { eapply VInvU_setv0; [exact HI|exact Hgo| |exact Ho|].
    - intros u Hu. inj Hu. eapply (vec_sound_same_cap k ov); eauto.
    - intros x. cbn [oelems]. rewrite Heo, cnt_nil. lia. }
  eapply VInvU_setv0; [exact HI1| | |exact Ho|].
  - rewrite getv_setv_ne by congruence. exact Hg.
  - intros u Hu. inj Hu. eapply (vec_sound_same_cap k v1); eauto.
  - intros x. cbn [oelems]. rewrite B, He1. cnt_norm.
    pose proof (reach_setv0 s oi (Some ov) (Some (mkV (slots ov) 0)) w x (proj1 (getv_nth _ _ _) Hgo)) as Hr.
    cbn [oelems] in Hr. rewrite Heo, cnt_nil in Hr. lia.
Qed.

Lemma inv_XAppend k s vi oi : VInvU k s -> VInvU k (fst (vstep_core k s (XAppend vi oi))).
Proof.
  intros HI. unfold vstep_core. pose proof (VInvU_own _ _ HI) as Hown0. open_v HI Hg. pose proof (vec_sound_vsound _ _ Hvs) as Hs.
  destruct (N.eqb vi oi) eqn:En; [exact HI|]. apply N.eqb_neq in En.
  destruct (getv s oi) as [ov|] eqn:Hgo; [|exact HI].
  destruct k as [c|].
  - pose proof (vec_sound_cap _ _ Hvs) as Hcap.
    destruct (Nat.ltb c (vlen v + vlen ov)) eqn:E1; [exact HI|]. apply Nat.ltb_ge in E1.
    eapply append_go_inv; eauto. lia.
  - destruct (thin_reserve (wd s) v (vlen ov)) as [w1 v1] eqn:Er.
    apply thin_reserve_spec in Er; [|exact Hs]. destruct Er as ((S1 & _) & S2 & S3 & S4 & S5 & S6).
    eapply append_go_inv; eauto; [now apply vec_sound_intro|eapply own_same; eauto].
Qed.

(** ** all operations *)
Theorem vstep_core_invU k s o : VInvU k s -> VInvU k (fst (vstep_core k s o)).
Proof.
  intros HI. destruct o.
  - now apply inv_XNew.
  - now apply inv_XWithCap.
  - now apply inv_XFromSlice.
  - now apply inv_XFromIter.
  - now apply inv_XPush.
  - now apply inv_XTryPush.
  - now apply inv_XPop.
  - now apply inv_XPopIf.
  - now apply inv_XInsert.
  - now apply inv_XTryInsert.
  - now apply inv_XRemove.
  - now apply inv_XSwapRemove.
  - now apply inv_XTruncate.
  - now apply inv_XClear.
  - now apply inv_XResize.
  - now apply inv_XResizeWith.
  - now apply inv_XExtendFromSlice.
  - now apply inv_XExtendFromWithin.
  - now apply inv_XExtendIter.
  - now apply inv_XAppend.
  - now apply inv_XSplitOff.
  - now apply inv_XDrain.
  - now apply inv_XIntoIter.
  - now apply inv_XCloneV.
  - now apply inv_XReserve.
  - now apply inv_XReserveExact.
  - now apply inv_XShrinkTo.
  - now apply inv_XShrinkToFit.
  - now apply inv_XDropV.
Qed.

Lemma vstep_fst k s o : fst (vstep k s o) = setw (fst (vstep_core k s o)) (set_unw (wd (fst (vstep_core k s o))) false).
Proof. unfold vstep. destruct (vstep_core k s o) as [s1 u]. reflexivity. Qed.

(** [VInv' k s := VInv k s /\ DFresh s]: the invariant of VecSpec strengthened by "a dropped identity is below the
    allocation counter", without which [vi_drops] is not inductive (see VecCounterexample.v). *)
Theorem vinit_inv' : forall k p, VInv' k (vinit p).
Proof.
  intros k p. apply VInv'_iff. split; [|reflexivity]. split.
  - intros i v H. unfold getv, vinit in H. cbn [pool] in H. destruct (N.to_nat i); discriminate.
  - split; [|split].
    + split; cbn; try constructor; try tauto.
    + constructor.
    + intros x [].
Qed.

(** C14 + C15: soundness is preserved by every operation, whatever the panic position: nothing is assumed about [pan (wd s)] *)
Theorem vstep_inv' : forall k s o, VInv' k s -> VInv' k (fst (vstep k s o)).
Proof.
  intros k s o H. apply VInv'_iff in H. destruct H as [HU _]. apply VInv'_iff. rewrite vstep_fst. split; [|reflexivity].
  apply VInvU_setw_unw. now apply vstep_core_invU.
Qed.

Theorem vrun_inv' : forall k ops s, VInv' k s -> VInv' k (fst (vrun k s ops)).
Proof.
  intros k ops. induction ops as [|o r IH]; intros s H; cbn [vrun]; [exact H|].
  pose proof (vstep_inv' k s o H) as H1. destruct (vstep k s o) as [s1 u]. cbn [fst] in H1.
  specialize (IH s1 H1). destruct (vrun k s1 r) as [s2 us]. exact IH.
Qed.

(** the statements of the task, for the invariant [VInv] of VecSpec, on states that satisfy the extra clause *)
Theorem vinit_inv : forall k p, VInv k (vinit p).
Proof. intros k p. apply (vinit_inv' k p). Qed.

Theorem vstep_inv : forall k s o, VInv k s -> DFresh s -> vop_ok o -> VInv k (fst (vstep k s o)) /\ DFresh (fst (vstep k s o)).
Proof. intros k s o H1 H2 _. apply (vstep_inv' k s o). split; assumption. Qed.

Theorem vrun_inv : forall k ops s, VInv k s -> DFresh s -> Forall vop_ok ops -> VInv k (fst (vrun k s ops)) /\ DFresh (fst (vrun k s ops)).
Proof. intros k ops s H1 H2 _. apply (vrun_inv' k ops s). split; assumption. Qed.

(** every state reachable from [vinit] is sound, for every panic position and every script *)
Corollary vrun_sound : forall k p ops, VInv k (fst (vrun k (vinit p) ops)).
Proof. intros k p ops. apply (vrun_inv' k ops (vinit p)). apply vinit_inv'. Qed.

Print Assumptions vinit_inv.
Print Assumptions vstep_inv'.
Print Assumptions vstep_inv.
Print Assumptions vrun_inv.
Print Assumptions vrun_sound.
