(** * BytesSpec: the std-level specification of the Bytes machine (C01).

    A specification state maps each handle to the bytes the corresponding std
    owned value ([Vec<u8>] / [String]) would hold.  [spec_rel ty sp o u sp']:
    performing [o] on the std model [sp] may return [u] and lead to [sp'].
    It mentions neither the backend nor any representation detail, so "any
    backend", "any mix of borrowed, inline and heap values" and "debug
    assertions on or off" are built into the refinement statement.

    The relation is deterministic except where the *documented* result depends
    on sharing (as_mut_* = Some/None, into_vec = Ok/Err, into/as_borrowed,
    the count hooks): there both documented outcomes are allowed, and C02
    says which one occurs. *)
From Hip Require Import Base Range Utf8 StrRange Bytes.

Definition sstate := list (option (list N)).

Definition sget (sp : sstate) (h : N) : option (list N) := nthN sp h.
Definition sset (sp : sstate) (h : N) (v : option (list N)) : sstate := upd sp (N.to_nat h) v.
Definition snew (sp : sstate) (v : list N) : sstate * out := (sp ++ [Some v], UNew (len sp)).

Definition vec_spec (d : list N) (o : vop) : list N :=
  match o with
  | VPush b => d ++ [b]
  | VExtend x => d ++ x
  | VTruncate n => firstn (N.to_nat n) d
  | VClear => []
  | VReserve _ | VShrinkFit => d
  end.

(** the deterministic part: [Some (sp', u)] *)
Definition spec_det (ty : hty) (sp : sstate) (o : op) : option (sstate * out) :=
  let with_v h (f : list N -> option (sstate * out)) :=
    match sget sp h with Some v => f v | None => Some (sp, USkip) end in
  match o with
  | ONew => Some (snew sp [])
  | OInline x => Some (if len x <=? INLINE_CAP then snew sp x else (sp, UPanic))
  | OTryInline x => Some (if len x <=? INLINE_CAP then snew sp x else (sp, UNone))
  | OWithCapacity _ => Some (snew sp [])
  | OBorrowed x | OFromSlice x | OFromVec x _ => Some (snew sp x)
  | OFromUtf8 x => Some (match ty with TByt => (sp, USkip) | TStr => if valid x then snew sp x else (sp, UErr SStartOutOfBounds 0 0) end)
  | OClone h => with_v h (fun v => Some (snew sp v))
  | OSlice h s e => with_v h (fun v =>
      Some (match simplify_ty ty v s e with RErr _ => (sp, UPanic) | ROk (a, b) => snew sp (sub v a b) end))
  | OTrySlice h s e => with_v h (fun v =>
      Some (match simplify_ty ty v s e with RErr (a, b, k) => (sp, UErr k a b) | ROk (a, b) => snew sp (sub v a b) end))
  | OSliceRef h off n => with_v h (fun v =>
      Some (if off + n <=? len v then snew sp (sub v off (off + n)) else (sp, USkip)))
  | OSliceRefForeign h try_ => with_v h (fun v => Some (sp, if try_ then UNone else UPanic))
  | OPush h c => with_v h (fun v => Some (sset sp h (Some (v ++ encode_char ty c)), UUnit))
  | OPushSlice h x => with_v h (fun v => Some (sset sp h (Some (v ++ x)), UUnit))
  | OPop h => with_v h (fun v =>
      if len v =? 0 then Some (sp, UNone)
      else let cut := match ty with TByt => len v - 1 | TStr => last_start v end in
           Some (sset sp h (Some (sub v 0 cut)), USome (sub v cut (len v))))
  | OTruncate h m => with_v h (fun v =>
      if (match ty with TStr => (m <=? len v) && negb (is_char_boundary v m) | TByt => false end) then Some (sp, UPanic)
      else if m <? len v then Some (sset sp h (Some (sub v 0 m)), UUnit) else Some (sp, UUnit))
  | OClear h => with_v h (fun v => Some (sset sp h (Some []), UUnit))
  | OShrinkTo h _ | OShrinkToFit h => with_v h (fun v => Some (sp, UUnit))
  | OToMutWrite h i b => with_v h (fun v => Some (sset sp h (Some (if i <? len v then write_at v i b else v)), UUnit))
  | OMakeAscii h upper => with_v h (fun v => Some (sset sp h (Some (ascii_map upper v)), UUnit))
  | OToAscii h upper => with_v h (fun v => Some (snew sp (ascii_map upper v)))
  | ORepeat h k => with_v h (fun v =>
      Some (if (len v =? 0) || (k =? 1) then snew sp v
            else if IMAX <? len v * k then (sp, UPanic)
            else snew sp (repeat_list v (N.to_nat k))))
  | OMutate h script leak => with_v h (fun v =>
      Some (sset sp h (Some (if leak then [] else fold_left vec_spec script v)), UUnit))
  | OIntoOwned h => with_v h (fun v => Some (sp, UUnit))
  | OVecFrom h => with_v h (fun v => None)    (* capacity of the returned Vec is unspecified: see spec_rel *)
  | ODrop h => with_v h (fun v => Some (sset sp h None, UUnit))
  | OAsMutWrite _ _ _ | OIntoVec _ | OIntoBorrowed _ | OAsBorrowed _ | OForceCount _ _ | ORestoreCount _ => None
  end.

Definition spec_rel (ty : hty) (sp : sstate) (o : op) (u : out) (sp' : sstate) : Prop :=
  match spec_det ty sp o with
  | Some (sp1, u1) => sp' = sp1 /\ u = u1
  | None =>
    match o with
    | OAsMutWrite h i b =>
      match sget sp h with
      | None => sp' = sp /\ u = USkip
      | Some v => (u = USome [] /\ sp' = sset sp h (Some (if i <? len v then write_at v i b else v))) \/ (u = UNone /\ sp' = sp)
      end
    | OIntoVec h =>
      match sget sp h with
      | None => sp' = sp /\ u = USkip
      | Some v => (exists cap, u = UVec v cap /\ len v <= cap /\ sp' = sset sp h None) \/ (u = UNone /\ sp' = sp)
      end
    | OVecFrom h =>
      match sget sp h with
      | None => sp' = sp /\ u = USkip
      | Some v => exists cap, u = UVec v cap /\ len v <= cap /\ sp' = sset sp h None
      end
    | OIntoBorrowed h =>
      match sget sp h with
      | None => sp' = sp /\ u = USkip
      | Some v => (u = USome v /\ sp' = sset sp h None) \/ (u = UNone /\ sp' = sp)
      end
    | OAsBorrowed h =>
      match sget sp h with
      | None => sp' = sp /\ u = USkip
      | Some v => sp' = sp /\ (u = USome v \/ u = UNone)
      end
    | OForceCount _ _ | ORestoreCount _ => sp' = sp /\ (u = UUnit \/ u = USkip)
    | _ => False
    end
  end.

(** the handle an op acts upon (new handles are appended; nothing else may change) *)
Definition target (o : op) : option N :=
  match o with
  | OPush h _ | OPushSlice h _ | OPop h | OTruncate h _ | OClear h | OShrinkTo h _ | OShrinkToFit h
  | OAsMutWrite h _ _ | OToMutWrite h _ _ | OMakeAscii h _ | OMutate h _ _ | OIntoOwned h | OIntoVec h | OVecFrom h
  | OIntoBorrowed h | ODrop h => Some h
  | _ => None
  end.

(** the abstraction of a machine state *)
Definition abs (st : state) : sstate := map (option_map (fun hd => view_r st (hrepr hd))) (hs st).
