From Coq Require Import List Arith Lia Bool.
Import ListNotations.
From Hip Require Import ArcRA ArcRALib.

Lemma nal_two l h h' d : alive d = false -> h <> h' -> alive (nth h l d) = true -> alive (nth h' l d) = true -> nal l >= 2.
Proof.
  intros Hd Hne Hh Hh'. pose proof (nal_alive l h d Hh Hd). destruct (Nat.eq_dec (nal l) 1) as [E|E]; [|lia].
  exfalso. apply Hne. eapply nal_one; eauto.
Qed.
Lemma nal_zero_dead l h d : nal l = 0 -> alive d = false -> alive (nth h l d) = false.
Proof. intros Hz Hd. destruct (alive (nth h l d)) eqn:E; auto. pose proof (nal_alive l h d E Hd). lia. Qed.
Lemma nth_app_old {A} (l : list A) x j d : j < length l -> nth j (l ++ [x]) d = nth j l d.
Proof. intros. now rewrite app_nth1. Qed.
Lemma nth_app_new {A} (l : list A) x d : nth (length l) (l ++ [x]) d = x.
Proof. rewrite app_nth2 by lia. now rewrite Nat.sub_diag. Qed.
Lemma memn_In x l : memn x l = true <-> In x l.
Proof. induction l as [|y r IH]; cbn; [intuition discriminate|]. rewrite orb_true_iff, Nat.eqb_eq, IH. intuition. Qed.
Lemma rem1_In y x l : In y (rem1 x l) -> In y l.
Proof. induction l as [|z r IH]; cbn; auto. destruct (Nat.eqb x z); cbn; intuition. Qed.
Lemma rem1_keep y x l : In y l -> y <> x -> In y (rem1 x l).
Proof. induction l as [|z r IH]; cbn; auto. destruct (Nat.eqb x z) eqn:E; cbn; [apply Nat.eqb_eq in E; intuition congruence|intuition]. Qed.

(* the threads that currently hold (a borrow of) handle h: its owner and everybody it is lent to *)
Definition knowers (s : st) (h : nat) : list nat := owner (hnd_at s h) :: lent (hnd_at s h).

Record Inv (s : st) : Prop := {
  i_err : err s = false;
  i_ms : length (ms s) >= 1;
  i_cnt : nal (hds s) > 0 -> freed s = false /\ mval (msg_at s (top s)) + 1 = nal (hds s);
  i_seen : forall t, seen (ths s t) <= top s;
  (* a stale 0 in the history is always already superseded in the eyes of somebody holding the handle *)
  i_K : forall h j, alive (hnd_at s h) = true -> j < top s -> mval (msg_at s j) = 0 ->
        exists u, In u (knowers s h) /\ seen (ths s u) > j;
  i_W : forall a h u, In a (accs s) -> akd a = AW -> alive (hnd_at s h) = true -> In u (knowers s h) ->
        aep a <= clk (ths s u) (atid a);
  i_R : forall a, In a (accs s) -> akd a = AR ->
        (alive (hnd_at s (ahnd a)) = true -> exists u, In u (knowers s (ahnd a)) /\ aep a <= clk (ths s u) (atid a)) /\
        (alive (hnd_at s (ahnd a)) = false -> aep a <= mview (msg_at s (top s)) (atid a));
  i_F : forall a, In a (accs s) -> akd a = AF -> freed s = true;
  i_H : forall a, In a (accs s) -> ahnd a < length (hds s);
}.

Lemma alive_lt s h : alive (hnd_at s h) = true -> h < length (hds s).
Proof. unfold hnd_at. intros H. destruct (lt_dec h (length (hds s))); auto. rewrite nth_overflow in H by lia. discriminate. Qed.
Lemma alive_nal s h : alive (hnd_at s h) = true -> nal (hds s) > 0.
Proof. intros H. eapply nal_alive; eauto. Qed.

(* any update of the thread map that only increases knowledge preserves the invariant *)
Definition with_ths (s : st) (f : nat -> thr) : st :=
  {| ms := ms s; ths := f; hds := hds s; accs := accs s; freed := freed s; err := err s |}.
Lemma inv_ths_mono s f : Inv s ->
  (forall u, vle (clk (ths s u)) (clk (f u)) /\ seen (ths s u) <= seen (f u) /\ seen (f u) <= top s) -> Inv (with_ths s f).
Proof.
  intros I Hm. destruct I. split; cbn [err ms ths hds accs freed with_ths]; auto.
  - intros u. apply Hm.
  - intros h j Ha Hj Hz. destruct (i_K0 h j Ha Hj Hz) as (u & Hu & Hs). exists u. split; [exact Hu|]. destruct (Hm u) as (_ & ? & _). lia.
  - intros a h u Hin Hk Ha Hu. pose proof (i_W0 a h u Hin Hk Ha Hu). destruct (Hm u) as (Hv & _). specialize (Hv (atid a)). lia.
  - intros a Hin Hk. destruct (i_R0 a Hin Hk) as [R1 R2]. split; [|exact R2]. intros Ha. destruct (R1 Ha) as (u & Hu & Hle).
    exists u. split; [exact Hu|]. destruct (Hm u) as (Hv & _). specialize (Hv (atid a)). lia.
Qed.

Lemma with_thr_mono s t x : vle (clk (ths s t)) (clk x) -> seen (ths s t) <= seen x -> seen x <= top s -> Inv s ->
  forall u, vle (clk (ths s u)) (clk (updf (ths s) t x u)) /\ seen (ths s u) <= seen (updf (ths s) t x u) /\ seen (updf (ths s) t x u) <= top s.
Proof.
  intros Hc Hs Ht I u. unfold updf. destruct (Nat.eqb u t) eqn:E.
  - apply Nat.eqb_eq in E. subst u. auto.
  - repeat split; [apply vle_refl|lia|apply (i_seen _ I)].
Qed.
Lemma inv_with_thr s t x : Inv s -> vle (clk (ths s t)) (clk x) -> seen (ths s t) <= seen x -> seen x <= top s -> Inv (with_thr s t x).
Proof. intros I Hc Hs Ht. apply (inv_ths_mono s (updf (ths s) t x) I). now apply with_thr_mono. Qed.

Lemma sync_to_mono s t t' : Inv s ->
  let c := vbump t (clk (ths s t)) in
  (forall u, vle (clk (ths s u)) (clk (sync_to s t c t' u)) /\ seen (ths s u) <= seen (sync_to s t c t' u) /\ seen (sync_to s t c t' u) <= top s)
  /\ vle (clk (ths s t)) (clk (sync_to s t c t' t')) /\ seen (ths s t) <= seen (sync_to s t c t' t').
Proof.
  intros I c. pose proof (vle_bump t (clk (ths s t))) as Hb. fold c in Hb. split; [|split].
  - intros u. unfold sync_to, updf. destruct (Nat.eqb u t') eqn:E1; cbn.
    + apply Nat.eqb_eq in E1. subst u. split; [apply vle_join_l|]. pose proof (i_seen _ I t). pose proof (i_seen _ I t'). lia.
    + destruct (Nat.eqb u t) eqn:E2; cbn.
      * apply Nat.eqb_eq in E2. subst u. split; [exact Hb|]. pose proof (i_seen _ I t). lia.
      * split; [apply vle_refl|]. pose proof (i_seen _ I u). lia.
  - unfold sync_to. rewrite updf_eq. cbn. eapply vle_trans; [exact Hb|apply vle_join_r].
  - unfold sync_to. rewrite updf_eq. cbn. lia.
Qed.

Lemma safe_access_true s c k :
  freed s = false ->
  (forall a, In a (accs s) -> conflict (akd a) k = true -> aep a <= c (atid a)) -> safe_access s c k = true.
Proof.
  intros Hf H. unfold safe_access. rewrite Hf. cbn. apply forallb_forall. intros a Hin.
  destruct (conflict (akd a) k) eqn:E; cbn; auto. apply Nat.leb_le. auto.
Qed.

(* a read through a handle by anybody holding it (owner or borrower) *)
Lemma inv_do_read s t h : Inv s -> alive (hnd_at s h) = true -> In t (knowers s h) -> Inv (do_read s t h).
Proof.
  intros I Ha Hk. unfold do_read. set (T := ths s t). set (c := vbump t (clk T)).
  assert (vle (clk T) c) as Hcb by apply vle_bump.
  pose proof (alive_lt _ _ Ha) as Hlt. destruct (i_cnt _ I (alive_nal _ _ Ha)) as [Hfr _].
  set (s1 := with_thr s t {| clk := c; seen := seen T; pend := pend T |}).
  assert (Inv s1) as I1 by (apply inv_with_thr; cbn; auto; apply (i_seen _ I)).
  assert (safe_access s1 c AR = true) as Hsafe.
  { apply safe_access_true; [exact Hfr|]. cbn. intros a Hin Hcf. destruct (akd a) eqn:Ek; cbn in Hcf; try discriminate.
    - pose proof (i_W _ I a h t Hin Ek Ha Hk) as H1. specialize (Hcb (atid a)). fold T in H1. lia.
    - rewrite (i_F _ I a Hin Ek) in Hfr. discriminate. }
  destruct I1. unfold do_access. split; cbn [err ms ths hds accs freed].
  - rewrite i_err0, Hsafe. reflexivity.
  - exact i_ms0.
  - exact i_cnt0.
  - exact i_seen0.
  - exact i_K0.
  - intros a h' u [<-|Hin] Hk' Ha' Hu; [discriminate|]. eauto.
  - intros a [<-|Hin] Hk'; [|eauto]. cbn. split; [|intros E; unfold s1, hnd_at in E; cbn in E; unfold hnd_at in Ha; congruence].
    intros _. exists t. split; [exact Hk|]. unfold s1. cbn. rewrite updf_eq. cbn. lia.
  - intros a [<-|Hin] Hk'; [discriminate|]. eauto.
  - intros a [<-|Hin]; [cbn; exact Hlt|eauto].
Qed.

(* an increment through a handle by anybody holding it *)
Lemma inv_do_clone p s t h : Inv s -> alive (hnd_at s h) = true -> In t (knowers s h) -> Inv (do_clone p s t).
Proof.
  intros I Ha Hk. unfold do_clone. set (T := ths s t). set (c := vbump t (clk T)).
  assert (vle (clk T) c) as Hcb by apply vle_bump.
  pose proof (alive_lt _ _ Ha) as Hlt. pose proof (alive_nal _ _ Ha) as Hn. destruct (i_cnt _ I Hn) as [Hfr Hcnt].
  pose proof (i_ms _ I) as Hms. set (m := msg_at s (top s)) in *.
  assert (length (ms s) = S (top s)) as Hlen by (unfold top; lia).
  set (nm := {| mval := S (mval m); mview := if incr_release p then vjoin (mview m) c else mview m |}).
  set (s1 := {| ms := ms s ++ [nm]; ths := updf (ths s) t {| clk := c; seen := S (top s); pend := pend T |};
                hds := hds s ++ [{| owner := t; alive := true; lent := [] |}]; accs := accs s; freed := freed s; err := err s |}).
  assert (top s1 = S (top s)) as Htop1 by (unfold top, s1; cbn; rewrite app_length; cbn; lia).
  assert (forall j, j <= top s -> msg_at s1 j = msg_at s j) as Hmold by (intros j Hj; unfold msg_at, s1; cbn; apply nth_app_old; lia).
  assert (msg_at s1 (S (top s)) = nm) as Hmnew by (unfold msg_at, s1; cbn; rewrite <- Hlen; apply nth_app_new).
  assert (forall g, g < length (hds s) -> hnd_at s1 g = hnd_at s g) as Hhold by (intros g Hg; unfold hnd_at, s1; cbn; now apply nth_app_old).
  assert (hnd_at s1 (length (hds s)) = {| owner := t; alive := true; lent := [] |}) as Hhnew by (unfold hnd_at, s1; cbn; apply nth_app_new).
  assert (forall g, alive (hnd_at s1 g) = true -> g = length (hds s) \/ (g < length (hds s) /\ alive (hnd_at s g) = true)) as Hcase.
  { intros g Hg. destruct (lt_dec g (length (hds s))) as [Hl|Hl]; [right; split; auto; now rewrite <- Hhold|].
    destruct (Nat.eq_dec g (length (hds s))); [now left|]. unfold hnd_at, s1 in Hg. cbn in Hg. rewrite nth_overflow in Hg by (rewrite app_length; cbn; lia). discriminate. }
  assert (forall u, vle (clk (ths s u)) (clk (ths s1 u)) /\ seen (ths s u) <= seen (ths s1 u)) as Hmono.
  { intros u. unfold s1. cbn. unfold updf. destruct (Nat.eqb u t) eqn:E; [|split; [apply vle_refl|lia]].
    apply Nat.eqb_eq in E. subst u. cbn. fold T. split; [exact Hcb|]. pose proof (i_seen _ I t). fold T in H. lia. }
  assert (seen (ths s1 t) = S (top s) /\ clk (ths s1 t) = c) as [Hst Hct] by (unfold s1; cbn; rewrite updf_eq; cbn; auto).
  change (Inv s1). split.
  - apply I.
  - unfold s1; cbn. rewrite app_length; cbn; lia.
  - intros _. split; [exact Hfr|]. rewrite Htop1, Hmnew. unfold s1; cbn [hds]. rewrite nal_app. cbn. fold m in Hcnt. lia.
  - intros u. rewrite Htop1. unfold s1. cbn. unfold updf. destruct (Nat.eqb u t); cbn; [lia|]. pose proof (i_seen _ I u). lia.
  - intros g j Hg Hj Hz. rewrite Htop1 in Hj.
    destruct (Nat.eq_dec j (top s)) as [->|Hjne].
    + (* the old latest message had value 0: then h was the only handle, and the cloner now sees the new message *)
      rewrite Hmold in Hz by lia. fold m in Hz. assert (nal (hds s) = 1) as H1 by lia.
      destruct (Hcase g Hg) as [->|[Hgl Hga]].
      * exists t. split; [unfold knowers; rewrite Hhnew; now left|]. lia.
      * assert (g = h) as -> by (exact (nal_one (hds s) g h dh H1 eq_refl Hga Ha)).
        exists t. split; [unfold knowers; rewrite Hhold by exact Hlt; exact Hk|]. lia.
    + rewrite Hmold in Hz by lia.
      destruct (Hcase g Hg) as [->|[Hgl Hga]].
      * exists t. split; [unfold knowers; rewrite Hhnew; now left|]. lia.
      * destruct (i_K _ I g j Hga ltac:(lia) Hz) as (u & Hu & Hs). exists u. split; [unfold knowers; rewrite Hhold by exact Hgl; exact Hu|].
        destruct (Hmono u). lia.
  - intros a g u Hin Hk' Hg Hu. change (In a (accs s)) in Hin.
    destruct (Hcase g Hg) as [->|[Hgl Hga]].
    + unfold knowers in Hu. rewrite Hhnew in Hu. cbn in Hu. destruct Hu as [<-|[]].
      pose proof (i_W _ I a h t Hin Hk' Ha Hk) as X. rewrite Hct. specialize (Hcb (atid a)). fold T in X. lia.
    + unfold knowers in Hu. rewrite Hhold in Hu by exact Hgl. pose proof (i_W _ I a g u Hin Hk' Hga Hu) as X.
      destruct (Hmono u) as [Hv _]. specialize (Hv (atid a)). lia.
  - intros a Hin Hk'. change (In a (accs s)) in Hin. pose proof (i_H _ I a Hin) as Hg. destruct (i_R _ I a Hin Hk') as [R1 R2].
    rewrite Hhold by exact Hg. split.
    + intros Hag. destruct (R1 Hag) as (u & Hu & Hle). exists u. split; [unfold knowers; rewrite Hhold by exact Hg; exact Hu|].
      destruct (Hmono u) as [Hv _]. specialize (Hv (atid a)). lia.
    + intros Hag. specialize (R2 Hag). rewrite Htop1, Hmnew. unfold nm. cbn. fold m in R2. destruct (incr_release p); unfold vjoin; lia.
  - intros a Hin. apply (i_F _ I a Hin).
  - intros a Hin. change (In a (accs s)) in Hin. unfold s1; cbn. rewrite app_length; cbn. pose proof (i_H _ I a Hin). lia.
Qed.

(* re-labelling who holds handle h, together with a synchronising hand-over of knowledge from the actor t to r *)
Lemma inv_rehandle s t r h H' : Inv s -> alive (hnd_at s h) = true -> alive H' = true ->
  (forall u, In u (knowers s h) -> In u (owner H' :: lent H') \/ (u = t /\ In r (owner H' :: lent H'))) ->
  (forall u', In u' (owner H' :: lent H') -> In u' (knowers s h) \/ (u' = r /\ In t (knowers s h))) ->
  Inv {| ms := ms s; ths := sync_to s t (vbump t (clk (ths s t))) r; hds := updl (hds s) h H';
         accs := accs s; freed := freed s; err := err s |}.
Proof.
  intros I Ha Ha' HE HU. set (c := vbump t (clk (ths s t))).
  destruct (sync_to_mono s t r I) as (Hmono & Hrc & Hrs). fold c in Hmono, Hrc, Hrs.
  pose proof (alive_lt _ _ Ha) as Hlt. pose proof (alive_nal _ _ Ha) as Hn. destruct (i_cnt _ I Hn) as [Hfr Hcnt].
  set (s1 := {| ms := ms s; ths := sync_to s t c r; hds := updl (hds s) h H'; accs := accs s; freed := freed s; err := err s |}).
  assert (forall g, g <> h -> hnd_at s1 g = hnd_at s g) as Hother by (intros g Hg; unfold hnd_at, s1; cbn; apply nth_updl_ne; auto).
  assert (hnd_at s1 h = H') as Hh1 by (unfold hnd_at, s1; cbn; rewrite nth_updl_eq; auto).
  assert (forall g, alive (hnd_at s1 g) = alive (hnd_at s g)) as Hal.
  { intros g. destruct (Nat.eq_dec g h) as [->|Hg]; [rewrite Hh1; congruence | now rewrite Hother]. }
  assert (nal (hds s1) = nal (hds s)) as Hnal.
  { pose proof (nal_updl (hds s) h H' dh Hlt) as X. unfold hnd_at in Ha. rewrite Ha, Ha' in X. unfold s1; cbn [hds]. lia. }
  (* existential transfer: whatever some old holder of g knew, some new holder of g knows *)
  assert (forall g u, alive (hnd_at s g) = true -> In u (knowers s g) ->
            exists u', In u' (knowers s1 g) /\ vle (clk (ths s u)) (clk (ths s1 u')) /\ seen (ths s u) <= seen (ths s1 u')) as HEx.
  { intros g u Hg Hu. destruct (Nat.eq_dec g h) as [->|Hne].
    - unfold knowers at 1. rewrite Hh1. destruct (HE u Hu) as [Hin|[-> Hin]].
      + exists u. split; [exact Hin|]. destruct (Hmono u) as (A & B & _). split; [exact A|exact B].
      + exists r. split; [exact Hin|]. split; [exact Hrc|exact Hrs].
    - exists u. split; [unfold knowers; rewrite (Hother _ Hne); exact Hu|]. destruct (Hmono u) as (A & B & _). split; [exact A|exact B]. }
  (* universal transfer: every new holder of g knows at least what some old holder of g knew *)
  assert (forall g u', alive (hnd_at s g) = true -> In u' (knowers s1 g) ->
            exists u, In u (knowers s g) /\ vle (clk (ths s u)) (clk (ths s1 u'))) as HUn.
  { intros g u' Hg Hu'. destruct (Nat.eq_dec g h) as [->|Hne].
    - unfold knowers in Hu'. rewrite Hh1 in Hu'. destruct (HU u' Hu') as [Hin|[-> Hin]].
      + exists u'. split; [exact Hin|]. apply Hmono.
      + exists t. split; [exact Hin|exact Hrc].
    - unfold knowers in Hu'. rewrite (Hother _ Hne) in Hu'. exists u'. split; [exact Hu'|apply Hmono]. }
  change (Inv s1). split.
  - apply I.
  - apply I.
  - intros _. split; [exact Hfr|]. rewrite Hnal. exact Hcnt.
  - intros u. apply Hmono.
  - intros g j Hg Hj Hz. rewrite Hal in Hg. destruct (i_K _ I g j Hg Hj Hz) as (u & Hu & Hs).
    destruct (HEx g u Hg Hu) as (u' & Hu' & _ & Hs'). exists u'. split; [exact Hu'|]. lia.
  - intros a g u' Hin Hk Hg Hu'. rewrite Hal in Hg. destruct (HUn g u' Hg Hu') as (u & Hu & Hv).
    pose proof (i_W _ I a g u Hin Hk Hg Hu). specialize (Hv (atid a)). lia.
  - intros a Hin Hk. destruct (i_R _ I a Hin Hk) as [R1 R2]. rewrite Hal. split; [|exact R2].
    intros Hg. destruct (R1 Hg) as (u & Hu & Hle). destruct (HEx _ u Hg Hu) as (u' & Hu' & Hv & _).
    exists u'. split; [exact Hu'|]. specialize (Hv (atid a)). lia.
  - apply I.
  - intros a Hin. unfold s1; cbn [hds]. rewrite updl_length. apply (i_H _ I a Hin).
Qed.

Lemma inv_access_free s t h c : Inv s -> (forall g, alive (hnd_at s g) = false) -> h < length (hds s) ->
  safe_access s c AF = true -> Inv (do_access s t h c AF).
Proof.
  intros I Hnone Hlt Hsafe. destruct I. unfold do_access. split; cbn [err ms ths hds accs freed].
  - rewrite i_err0, Hsafe. reflexivity.
  - exact i_ms0.
  - intros Hpos. destruct (nal_pos_ex (hds s) dh Hpos) as [g Hg]. specialize (Hnone g). unfold hnd_at in Hnone. congruence.
  - exact i_seen0.
  - intros h' j Ha'. unfold hnd_at in *. cbn in *. rewrite Hnone in Ha'. discriminate.
  - intros a h' u _ _ Ha'. unfold hnd_at in *. cbn in *. rewrite Hnone in Ha'. discriminate.
  - intros a [<-|Hin] Hk; [discriminate|]. apply (i_R0 a Hin Hk).
  - intros a _ _. reflexivity.
  - intros a [<-|Hin]; [cbn; exact Hlt|auto].
Qed.

Lemma owner_knower s t h : alive (hnd_at s h) && Nat.eqb (owner (hnd_at s h)) t = true ->
  alive (hnd_at s h) = true /\ owner (hnd_at s h) = t /\ In t (knowers s h).
Proof. intros G. apply andb_prop in G as [A B]. apply Nat.eqb_eq in B. repeat split; auto. unfold knowers. now left. Qed.
Lemma borrower_knower s t h : alive (hnd_at s h) && memn t (lent (hnd_at s h)) = true ->
  alive (hnd_at s h) = true /\ In t (lent (hnd_at s h)) /\ In t (knowers s h).
Proof. intros G. apply andb_prop in G as [A B]. apply memn_In in B. repeat split; auto. unfold knowers. now right. Qed.

Theorem step_inv p s t h o : sound_proto p = true -> Inv s -> Inv (step p s t h o).
Proof.
  intros Hp I. unfold sound_proto in Hp. apply andb_prop in Hp as [Hp Hp3]. apply andb_prop in Hp as [Hp1 Hp2]. unfold step.
  set (H := hnd_at s h). set (T := ths s t). set (c := vbump t (clk T)).
  assert (vle (clk T) c) as Hcb by apply vle_bump.
  destruct o as [| | |j|t'|t'| | |].
  - (* Read *) destruct (alive H && Nat.eqb (owner H) t) eqn:G; [|exact I]. destruct (owner_knower _ _ _ G) as (Ha & _ & Hk). now apply inv_do_read.
  - (* Clone *) destruct (alive H && Nat.eqb (owner H) t) eqn:G; [|exact I]. destruct (owner_knower _ _ _ G) as (Ha & _ & Hk). eapply inv_do_clone; eauto.
  - (* Drop *)
    destruct (alive H && Nat.eqb (owner H) t && match lent H with [] => true | _ :: _ => false end) eqn:G; cbn [negb]; [|exact I].
    apply andb_prop in G as [G GL]. destruct (owner_knower _ _ _ G) as (Ha & Ho & _).
    assert (lent H = []) as HL by (destruct (lent H); [reflexivity|discriminate]).
    assert (knowers s h = [t]) as Hkn by (unfold knowers; unfold H in HL; now rewrite Ho, HL).
    pose proof (alive_lt _ _ Ha) as Hlt. pose proof (alive_nal _ _ Ha) as Hn. destruct (i_cnt _ I Hn) as [Hfr Hcnt].
    pose proof (i_ms _ I) as Hms. set (m := msg_at s (top s)) in *.
    assert (length (ms s) = S (top s)) as Hlen by (unfold top; lia).
    set (pd := vjoin (pend T) (mview m)). rewrite Hp1, Hp2. rewrite andb_true_r.
    set (c' := if mval m =? 0 then vjoin c pd else c).
    assert (vle c c') as Hc' by (unfold c'; destruct (mval m =? 0); [apply vle_join_l|apply vle_refl]).
    assert (vle (clk T) c') as Hcc' by (eapply vle_trans; eauto).
    set (s1 := {| ms := ms s ++ [{| mval := mval m - 1; mview := vjoin (mview m) c |}];
                  ths := updf (ths s) t {| clk := c'; seen := S (top s); pend := pd |};
                  hds := updl (hds s) h {| owner := t; alive := false; lent := [] |};
                  accs := accs s; freed := freed s; err := err s |}).
    assert (nal (hds s1) + 1 = nal (hds s)) as Hnal.
    { pose proof (nal_updl (hds s) h {| owner := t; alive := false; lent := [] |} dh Hlt) as X. unfold H, hnd_at in Ha. rewrite Ha in X. cbn [alive] in X. unfold s1; cbn [hds]. lia. }
    assert (forall g, g <> h -> hnd_at s1 g = hnd_at s g) as Hother by (intros g Hg; unfold hnd_at, s1; cbn; apply nth_updl_ne; auto).
    assert (alive (hnd_at s1 h) = false) as Hdead by (unfold hnd_at, s1; cbn; rewrite nth_updl_eq; auto).
    assert (top s1 = S (top s)) as Htop1 by (unfold top, s1; cbn; rewrite app_length; cbn; lia).
    assert (msg_at s1 (top s1) = {| mval := mval m - 1; mview := vjoin (mview m) c |}) as Hm1.
    { rewrite Htop1. unfold msg_at, s1. cbn. rewrite <- Hlen. apply nth_app_new. }
    assert (forall j, j <= top s -> msg_at s1 j = msg_at s j) as Hmold by (intros j Hj; unfold msg_at, s1; cbn; apply nth_app_old; lia).
    assert (forall u, vle (clk (ths s u)) (clk (ths s1 u)) /\ seen (ths s u) <= seen (ths s1 u)) as Hmono.
    { intros u. unfold s1. cbn. unfold updf. destruct (Nat.eqb u t) eqn:E; [|split; [apply vle_refl|lia]].
      apply Nat.eqb_eq in E. subst u. cbn. fold T. split; [exact Hcc'|]. pose proof (i_seen _ I t). fold T in H0. lia. }
    assert (Inv s1) as I1.
    { split.
      - apply I.
      - unfold s1; cbn. rewrite app_length; cbn; lia.
      - intros Hpos. split; [exact Hfr|]. rewrite Hm1. cbn [mval]. fold m in Hcnt. lia.
      - intros u. rewrite Htop1. unfold s1. cbn. unfold updf. destruct (Nat.eqb u t); cbn; [lia|]. pose proof (i_seen _ I u). lia.
      - intros g j Hg Hj Hz. rewrite Htop1 in Hj. assert (g <> h) as Hne by (intros ->; congruence). rewrite (Hother _ Hne) in Hg.
        rewrite Hmold in Hz by lia.
        destruct (Nat.eq_dec j (top s)) as [->|Hjne].
        + fold m in Hz. pose proof (nal_two (hds s) h g dh eq_refl (not_eq_sym Hne) Ha Hg). lia.
        + destruct (i_K _ I g j Hg ltac:(lia) Hz) as (u & Hu & Hs). exists u. split; [unfold knowers; rewrite (Hother _ Hne); exact Hu|].
          destruct (Hmono u). lia.
      - intros a g u Hin Hk Hg Hu. change (In a (accs s)) in Hin. assert (g <> h) as Hne by (intros ->; congruence).
        rewrite (Hother _ Hne) in Hg. unfold knowers in Hu. rewrite (Hother _ Hne) in Hu.
        pose proof (i_W _ I a g u Hin Hk Hg Hu). destruct (Hmono u) as [Hv _]. specialize (Hv (atid a)). lia.
      - intros a Hin Hk. change (In a (accs s)) in Hin. destruct (i_R _ I a Hin Hk) as [R1 R2]. rewrite Hm1. cbn [mview].
        destruct (Nat.eq_dec (ahnd a) h) as [Eg|Eg].
        + rewrite Eg in *. split; [intros X; congruence|]. intros _. destruct (R1 Ha) as (u & Hu & Hle). rewrite Hkn in Hu. destruct Hu as [<-|[]].
          fold T in Hle. specialize (Hcb (atid a)). unfold vjoin. lia.
        + rewrite (Hother _ Eg). split.
          * intros Hag. destruct (R1 Hag) as (u & Hu & Hle). exists u. split; [unfold knowers; rewrite (Hother _ Eg); exact Hu|].
            destruct (Hmono u) as [Hv _]. specialize (Hv (atid a)). lia.
          * intros Hag. specialize (R2 Hag). fold m in R2. unfold vjoin. lia.
      - intros a Hin. apply (i_F _ I a Hin).
      - intros a Hin. change (In a (accs s)) in Hin. unfold s1; cbn [hds]. rewrite updl_length. apply (i_H _ I a Hin). }
    destruct (mval m =? 0) eqn:Ez; [|exact I1].
    apply Nat.eqb_eq in Ez.
    assert (nal (hds s) = 1) as H1 by (fold m in Hcnt; lia). assert (nal (hds s1) = 0) as H0 by lia.
    assert (safe_access s1 c' AF = true) as Hsafe.
    { apply safe_access_true; [exact Hfr|]. unfold s1; cbn [accs]. intros a Hin _. unfold c'. destruct (akd a) eqn:Ek.
      - destruct (i_R _ I a Hin Ek) as [R1 R2]. destruct (alive (hnd_at s (ahnd a))) eqn:Eg.
        + assert (ahnd a = h) as Eh by (exact (nal_one (hds s) (ahnd a) h dh H1 eq_refl Eg Ha)).
          destruct (R1 eq_refl) as (u & Hu & Hle). rewrite Eh, Hkn in Hu. destruct Hu as [<-|[]]. fold T in Hle. specialize (Hcb (atid a)). unfold vjoin. lia.
        + specialize (R2 eq_refl). fold m in R2. unfold pd, vjoin. lia.
      - assert (In t (knowers s h)) as Hkt by (rewrite Hkn; now left).
        pose proof (i_W _ I a h t Hin Ek Ha Hkt) as H2. fold T in H2. specialize (Hcb (atid a)). unfold vjoin. lia.
      - rewrite (i_F _ I a Hin Ek) in Hfr. discriminate. }
    assert (forall g, alive (hnd_at s1 g) = false) as Hnone by (intros g; apply nal_zero_dead; auto).
    apply inv_access_free; auto. unfold s1; cbn [hds]. rewrite updl_length. exact Hlt.
  - (* TryMut *)
    destruct (alive H && Nat.eqb (owner H) t && match lent H with [] => true | _ :: _ => false end) eqn:G; cbn [negb]; [|exact I].
    apply andb_prop in G as [G GL]. destruct (owner_knower _ _ _ G) as (Ha & Ho & _).
    assert (lent H = []) as HL by (destruct (lent H); [reflexivity|discriminate]).
    assert (knowers s h = [t]) as Hkn by (unfold knowers; unfold H in HL; now rewrite Ho, HL).
    pose proof (alive_lt _ _ Ha) as Hlt. pose proof (alive_nal _ _ Ha) as Hn. destruct (i_cnt _ I Hn) as [Hfr Hcnt].
    destruct ((seen T <=? j) && (j <=? top s)) eqn:Gj; cbn [negb]; [|exact I].
    apply andb_prop in Gj as [Hsj Hjt]. apply Nat.leb_le in Hsj. apply Nat.leb_le in Hjt.
    set (m := msg_at s j). set (pd := vjoin (pend T) (mview m)).
    destruct (mval m =? 0) eqn:Ez.
    2:{ apply inv_with_thr; cbn; auto. }
    apply Nat.eqb_eq in Ez. rewrite Hp3.
    (* key lemma: the sole holder of a handle that reads 0 has read the latest message *)
    assert (j = top s) as Hj.
    { destruct (Nat.eq_dec j (top s)); auto. exfalso.
      destruct (i_K _ I h j Ha ltac:(lia) Ez) as (u & Hu & Hs). rewrite Hkn in Hu. destruct Hu as [<-|[]]. fold T in Hs. lia. }
    assert (nal (hds s) = 1) as H1 by (subst j; fold m in Hcnt; lia).
    set (c' := vjoin c pd).
    set (s1 := with_thr s t {| clk := c'; seen := j; pend := pd |}).
    assert (vle (clk T) c') as Hcc' by (eapply vle_trans; [exact Hcb | apply vle_join_l]).
    assert (Inv s1) as I1 by (apply inv_with_thr; cbn; auto).
    assert (safe_access s1 c' AW = true) as Hsafe.
    { apply safe_access_true; [exact Hfr|]. cbn. intros a Hin _. destruct (akd a) eqn:Ek.
      - destruct (i_R _ I a Hin Ek) as [R1 R2]. destruct (alive (hnd_at s (ahnd a))) eqn:Eg.
        + assert (ahnd a = h) as Eh by (exact (nal_one (hds s) (ahnd a) h dh H1 eq_refl Eg Ha)).
          destruct (R1 eq_refl) as (u & Hu & Hle). rewrite Eh, Hkn in Hu. destruct Hu as [<-|[]]. fold T in Hle. specialize (Hcc' (atid a)). lia.
        + specialize (R2 eq_refl). rewrite <- Hj in R2. fold m in R2. unfold c', pd, vjoin. lia.
      - assert (In t (knowers s h)) as Hkt by (rewrite Hkn; now left).
        pose proof (i_W _ I a h t Hin Ek Ha Hkt) as H2. fold T in H2. specialize (Hcc' (atid a)). lia.
      - rewrite (i_F _ I a Hin Ek) in Hfr. discriminate. }
    destruct I1. unfold do_access. split; cbn [err ms ths hds accs freed].
    + rewrite i_err0, Hsafe. reflexivity.
    + exact i_ms0.
    + exact i_cnt0.
    + exact i_seen0.
    + exact i_K0.
    + intros a h' u [<-|Hin] Hk Ha' Hu; [|eauto]. cbn.
      assert (h' = h) as -> by (exact (nal_one (hds s) h' h dh H1 eq_refl Ha' Ha)).
      change (In u (knowers s h)) in Hu. rewrite Hkn in Hu. destruct Hu as [<-|[]]. unfold s1. cbn. rewrite updf_eq. cbn. lia.
    + intros a [<-|Hin] Hk; [discriminate|eauto].
    + intros a [<-|Hin] Hk; [discriminate|eauto].
    + intros a [<-|Hin]; [cbn; exact Hlt|eauto].
  - (* Send *)
    destruct (alive H && Nat.eqb (owner H) t && match lent H with [] => true | _ :: _ => false end) eqn:G; cbn [negb]; [|exact I].
    apply andb_prop in G as [G GL]. destruct (owner_knower _ _ _ G) as (Ha & Ho & _).
    assert (lent H = []) as HL by (destruct (lent H); [reflexivity|discriminate]).
    assert (knowers s h = [t]) as Hkn by (unfold knowers; unfold H in HL; now rewrite Ho, HL).
    apply inv_rehandle; auto; cbn [owner lent].
    + intros u Hu. rewrite Hkn in Hu. destruct Hu as [<-|[]]. right. split; [reflexivity|now left].
    + intros u' [<-|[]]. right. split; [reflexivity|rewrite Hkn; now left].
  - (* Lend *)
    destruct (alive H && Nat.eqb (owner H) t) eqn:G; cbn [negb]; [|exact I]. destruct (owner_knower _ _ _ G) as (Ha & Ho & Hk).
    apply inv_rehandle; auto; cbn [owner lent].
    + intros u Hu. left. unfold knowers in Hu. rewrite Ho in Hu. destruct Hu as [<-|Hu]; [now left|right; now right].
    + intros u' [<-|[<-|Hu']].
      * left. exact Hk.
      * right. split; [reflexivity|exact Hk].
      * left. unfold knowers. now right.
  - (* BRead *) destruct (alive H && memn t (lent H)) eqn:G; [|exact I]. destruct (borrower_knower _ _ _ G) as (Ha & _ & Hk). now apply inv_do_read.
  - (* BClone *) destruct (alive H && memn t (lent H)) eqn:G; [|exact I]. destruct (borrower_knower _ _ _ G) as (Ha & _ & Hk). eapply inv_do_clone; eauto.
  - (* Return *)
    destruct (alive H && memn t (lent H)) eqn:G; cbn [negb]; [|exact I]. destruct (borrower_knower _ _ _ G) as (Ha & Hl & Hk).
    apply inv_rehandle; auto; cbn [owner lent].
    + intros u Hu. unfold knowers in Hu. destruct Hu as [<-|Hu]; [left; now left|].
      destruct (Nat.eq_dec u t) as [->|Hne]; [right; split; [reflexivity|now left] | left; right; now apply rem1_keep].
    + intros u' [<-|Hu']; left; unfold knowers; [now left | right; eapply rem1_In; eauto].
Qed.

Theorem run_inv p : sound_proto p = true -> forall sc s, Inv s -> Inv (fold_left (fun s '(t, h, o) => step p s t h o) sc s).
Proof. intros Hp. induction sc as [|[[t h] o] sc IH]; intros s I; cbn [fold_left]; [exact I|]. apply IH. now apply step_inv. Qed.
Lemma inv_init : Inv init.
Proof.
  split.
  - reflexivity.
  - cbn. lia.
  - intros _. split; reflexivity.
  - intros t. cbn. lia.
  - intros h j Ha Hj Hz. unfold top in Hj. cbn in Hj. lia.
  - intros a h u Hin. cbn in Hin. contradiction.
  - intros a Hin. cbn in Hin. contradiction.
  - intros a Hin. cbn in Hin. contradiction.
  - intros a Hin. cbn in Hin. contradiction.
Qed.
(* every protocol meeting the side condition, every schedule, any number of threads, handles, loans *)
Theorem race_free_all_schedules : forall p, sound_proto p = true -> forall sc, err (run p sc) = false.
Proof. intros p Hp sc. apply i_err. apply run_inv; [exact Hp|apply inv_init]. Qed.
Corollary pinned_protocol_ok : forall sc, err (run sound sc) = false.
Proof. apply race_free_all_schedules. reflexivity. Qed.
Corollary relaxed_incr_ok : forall sc, err (run {| incr_release := false; decr_release := true; free_fence := true; uniq_fence := true |} sc) = false.
Proof. apply race_free_all_schedules. reflexivity. Qed.
Print Assumptions race_free_all_schedules.
