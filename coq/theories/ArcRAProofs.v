(** * ArcRAProofs: all-schedule theorems for the share-count protocol machine of ArcRA.v.
    Layer 1, [Inv0]: ordering/coherence invariant (counter value = alive handles - 1; a stale 0 is superseded in the eyes
      of some holder; every write is known to every holder; every read is known to a holder of its handle or, once that
      handle is dead, was released into the latest counter message).  [step_inv0] covers all ten ops incl. [Unwrap].
    Layer 2, [Inv] = [Inv0] + accounting: no alive handle -> freed; #free accesses = (freed ? 1 : 0); once freed, the
      free is the most recent access.  [step_inv], [run_inv].
    Main theorems: [race_free_all_schedules], [freed_iff_no_handle], [no_double_free], [grant_exclusive] (one step),
      [mutation_is_exclusive] and [release_after_last_access] (whole executions).  All axiom-free. *)
From Coq Require Import List Arith Lia Bool.
Import ListNotations.
From Hip Require Import ArcRA ArcRALib.

Lemma nal_two l h h' d : alive d = false -> h <> h' -> alive (nth h l d) = true -> alive (nth h' l d) = true -> nal l >= 2.
Proof.
  intros Hd Hne Hh Hh'. pose proof (nal_alive l h d Hh Hd). destruct (Nat.eq_dec (nal l) 1) as [E|E]; [|lia].
  exfalso. apply Hne. eapply nal_one; eauto.
Qed.
Lemma nal_zero_dead l h d : nal l = 0 -> alive d = false -> alive (nth h l d) = false.
Proof. intros Hz Hd. destruct (alive (nth h l d)) eqn:E; auto. pose proof (nal_alive l h d E Hd). lia. Qed.
Lemma nth_app_old {A} (l : list A) x j d : j < length l -> nth j (l ++ [x]) d = nth j l d.
Proof. intros. now rewrite app_nth1. Qed.
Lemma nth_app_new {A} (l : list A) x d : nth (length l) (l ++ [x]) d = x.
Proof. rewrite app_nth2 by lia. now rewrite Nat.sub_diag. Qed.
Lemma memn_In x l : memn x l = true <-> In x l.
Proof. induction l as [|y r IH]; cbn; [intuition discriminate|]. rewrite orb_true_iff, Nat.eqb_eq, IH. intuition. Qed.
Lemma rem1_In y x l : In y (rem1 x l) -> In y l.
Proof. induction l as [|z r IH]; cbn; auto. destruct (Nat.eqb x z); cbn; intuition. Qed.
Lemma rem1_keep y x l : In y l -> y <> x -> In y (rem1 x l).
Proof. induction l as [|z r IH]; cbn; auto. destruct (Nat.eqb x z) eqn:E; cbn; [apply Nat.eqb_eq in E; intuition congruence|intuition]. Qed.

(* the threads that currently hold (a borrow of) handle h: its owner and everybody it is lent to *)
Definition knowers (s : st) (h : nat) : list nat := owner (hnd_at s h) :: lent (hnd_at s h).

Record Inv0 (s : st) : Prop := {
  i_err : err s = false;
  i_ms : length (ms s) >= 1;
  i_cnt : nal (hds s) > 0 -> freed s = false /\ mval (msg_at s (top s)) + 1 = nal (hds s);
  i_seen : forall t, seen (ths s t) <= top s;
  (* a stale 0 in the history is always already superseded in the eyes of somebody holding the handle *)
  i_K : forall h j, alive (hnd_at s h) = true -> j < top s -> mval (msg_at s j) = 0 ->
        exists u, In u (knowers s h) /\ seen (ths s u) > j;
  i_W : forall a h u, In a (accs s) -> akd a = AW -> alive (hnd_at s h) = true -> In u (knowers s h) ->
        aep a <= clk (ths s u) (atid a);
  i_R : forall a, In a (accs s) -> akd a = AR ->
        (alive (hnd_at s (ahnd a)) = true -> exists u, In u (knowers s (ahnd a)) /\ aep a <= clk (ths s u) (atid a)) /\
        (alive (hnd_at s (ahnd a)) = false -> nal (hds s) > 0 -> aep a <= mview (msg_at s (top s)) (atid a));
  i_F : forall a, In a (accs s) -> akd a = AF -> freed s = true;
  i_H : forall a, In a (accs s) -> ahnd a < length (hds s);
}.

Lemma alive_lt s h : alive (hnd_at s h) = true -> h < length (hds s).
Proof. unfold hnd_at. intros H. destruct (lt_dec h (length (hds s))); auto. rewrite nth_overflow in H by lia. discriminate. Qed.
Lemma alive_nal s h : alive (hnd_at s h) = true -> nal (hds s) > 0.
Proof. intros H. eapply nal_alive; eauto. Qed.

(* any update of the thread map that only increases knowledge preserves the invariant *)
Definition with_ths (s : st) (f : nat -> thr) : st :=
  {| ms := ms s; ths := f; hds := hds s; accs := accs s; freed := freed s; err := err s |}.
Lemma inv_ths_mono s f : Inv0 s ->
  (forall u, vle (clk (ths s u)) (clk (f u)) /\ seen (ths s u) <= seen (f u) /\ seen (f u) <= top s) -> Inv0 (with_ths s f).
Proof.
  intros I Hm. destruct I. split; cbn [err ms ths hds accs freed with_ths]; auto.
  - intros u. apply Hm.
  - intros h j Ha Hj Hz. destruct (i_K0 h j Ha Hj Hz) as (u & Hu & Hs). exists u. split; [exact Hu|]. destruct (Hm u) as (_ & ? & _). lia.
  - intros a h u Hin Hk Ha Hu. pose proof (i_W0 a h u Hin Hk Ha Hu). destruct (Hm u) as (Hv & _). specialize (Hv (atid a)). lia.
  - intros a Hin Hk. destruct (i_R0 a Hin Hk) as [R1 R2]. split; [|exact R2]. intros Ha. destruct (R1 Ha) as (u & Hu & Hle).
    exists u. split; [exact Hu|]. destruct (Hm u) as (Hv & _). specialize (Hv (atid a)). lia.
Qed.

Lemma with_thr_mono s t x : vle (clk (ths s t)) (clk x) -> seen (ths s t) <= seen x -> seen x <= top s -> Inv0 s ->
  forall u, vle (clk (ths s u)) (clk (updf (ths s) t x u)) /\ seen (ths s u) <= seen (updf (ths s) t x u) /\ seen (updf (ths s) t x u) <= top s.
Proof.
  intros Hc Hs Ht I u. unfold updf. destruct (Nat.eqb u t) eqn:E.
  - apply Nat.eqb_eq in E. subst u. auto.
  - repeat split; [apply vle_refl|lia|apply (i_seen _ I)].
Qed.
Lemma inv_with_thr s t x : Inv0 s -> vle (clk (ths s t)) (clk x) -> seen (ths s t) <= seen x -> seen x <= top s -> Inv0 (with_thr s t x).
Proof. intros I Hc Hs Ht. apply (inv_ths_mono s (updf (ths s) t x) I). now apply with_thr_mono. Qed.

Lemma sync_to_mono s t t' : Inv0 s ->
  let c := vbump t (clk (ths s t)) in
  (forall u, vle (clk (ths s u)) (clk (sync_to s t c t' u)) /\ seen (ths s u) <= seen (sync_to s t c t' u) /\ seen (sync_to s t c t' u) <= top s)
  /\ vle (clk (ths s t)) (clk (sync_to s t c t' t')) /\ seen (ths s t) <= seen (sync_to s t c t' t').
Proof.
  intros I c. pose proof (vle_bump t (clk (ths s t))) as Hb. fold c in Hb. split; [|split].
  - intros u. unfold sync_to, updf. destruct (Nat.eqb u t') eqn:E1; cbn.
    + apply Nat.eqb_eq in E1. subst u. split; [apply vle_join_l|]. pose proof (i_seen _ I t). pose proof (i_seen _ I t'). lia.
    + destruct (Nat.eqb u t) eqn:E2; cbn.
      * apply Nat.eqb_eq in E2. subst u. split; [exact Hb|]. pose proof (i_seen _ I t). lia.
      * split; [apply vle_refl|]. pose proof (i_seen _ I u). lia.
  - unfold sync_to. rewrite updf_eq. cbn. eapply vle_trans; [exact Hb|apply vle_join_r].
  - unfold sync_to. rewrite updf_eq. cbn. lia.
Qed.

Lemma safe_access_true s c k :
  freed s = false ->
  (forall a, In a (accs s) -> conflict (akd a) k = true -> aep a <= c (atid a)) -> safe_access s c k = true.
Proof.
  intros Hf H. unfold safe_access. rewrite Hf. cbn. apply forallb_forall. intros a Hin.
  destruct (conflict (akd a) k) eqn:E; cbn; auto. apply Nat.leb_le. auto.
Qed.

(* a read through a handle by anybody holding it (owner or borrower) *)
Lemma inv_do_read s t h : Inv0 s -> alive (hnd_at s h) = true -> In t (knowers s h) -> Inv0 (do_read s t h).
Proof.
  intros I Ha Hk. unfold do_read. set (T := ths s t). set (c := vbump t (clk T)).
  assert (vle (clk T) c) as Hcb by apply vle_bump.
  pose proof (alive_lt _ _ Ha) as Hlt. destruct (i_cnt _ I (alive_nal _ _ Ha)) as [Hfr _].
  set (s1 := with_thr s t {| clk := c; seen := seen T; pend := pend T |}).
  assert (Inv0 s1) as I1 by (apply inv_with_thr; cbn; auto; apply (i_seen _ I)).
  assert (safe_access s1 c AR = true) as Hsafe.
  { apply safe_access_true; [exact Hfr|]. cbn. intros a Hin Hcf. destruct (akd a) eqn:Ek; cbn in Hcf; try discriminate.
    - pose proof (i_W _ I a h t Hin Ek Ha Hk) as H1. specialize (Hcb (atid a)). fold T in H1. lia.
    - rewrite (i_F _ I a Hin Ek) in Hfr. discriminate. }
  destruct I1. unfold do_access. split; cbn [err ms ths hds accs freed].
  - rewrite i_err0, Hsafe. reflexivity.
  - exact i_ms0.
  - exact i_cnt0.
  - exact i_seen0.
  - exact i_K0.
  - intros a h' u [<-|Hin] Hk' Ha' Hu; [discriminate|]. eauto.
  - intros a [<-|Hin] Hk'; [|eauto]. cbn. split; [|intros E; unfold s1, hnd_at in E; cbn in E; unfold hnd_at in Ha; congruence].
    intros _. exists t. split; [exact Hk|]. unfold s1. cbn. rewrite updf_eq. cbn. lia.
  - intros a [<-|Hin] Hk'; [discriminate|]. eauto.
  - intros a [<-|Hin]; [cbn; exact Hlt|eauto].
Qed.

(* an increment through a handle by anybody holding it *)
Lemma inv_do_clone p s t h : Inv0 s -> alive (hnd_at s h) = true -> In t (knowers s h) -> Inv0 (do_clone p s t).
Proof.
  intros I Ha Hk. unfold do_clone. set (T := ths s t). set (c := vbump t (clk T)).
  assert (vle (clk T) c) as Hcb by apply vle_bump.
  pose proof (alive_lt _ _ Ha) as Hlt. pose proof (alive_nal _ _ Ha) as Hn. destruct (i_cnt _ I Hn) as [Hfr Hcnt].
  pose proof (i_ms _ I) as Hms. set (m := msg_at s (top s)) in *.
  assert (length (ms s) = S (top s)) as Hlen by (unfold top; lia).
  set (nm := {| mval := S (mval m); mview := if incr_release p then vjoin (mview m) c else mview m |}).
  set (s1 := {| ms := ms s ++ [nm]; ths := updf (ths s) t {| clk := c; seen := S (top s); pend := pend T |};
                hds := hds s ++ [{| owner := t; alive := true; lent := [] |}]; accs := accs s; freed := freed s; err := err s |}).
  assert (top s1 = S (top s)) as Htop1 by (unfold top, s1; cbn; rewrite app_length; cbn; lia).
  assert (forall j, j <= top s -> msg_at s1 j = msg_at s j) as Hmold by (intros j Hj; unfold msg_at, s1; cbn; apply nth_app_old; lia).
  assert (msg_at s1 (S (top s)) = nm) as Hmnew by (unfold msg_at, s1; cbn; rewrite <- Hlen; apply nth_app_new).
  assert (forall g, g < length (hds s) -> hnd_at s1 g = hnd_at s g) as Hhold by (intros g Hg; unfold hnd_at, s1; cbn; now apply nth_app_old).
  assert (hnd_at s1 (length (hds s)) = {| owner := t; alive := true; lent := [] |}) as Hhnew by (unfold hnd_at, s1; cbn; apply nth_app_new).
  assert (forall g, alive (hnd_at s1 g) = true -> g = length (hds s) \/ (g < length (hds s) /\ alive (hnd_at s g) = true)) as Hcase.
  { intros g Hg. destruct (lt_dec g (length (hds s))) as [Hl|Hl]; [right; split; auto; now rewrite <- Hhold|].
    destruct (Nat.eq_dec g (length (hds s))); [now left|]. unfold hnd_at, s1 in Hg. cbn in Hg. rewrite nth_overflow in Hg by (rewrite app_length; cbn; lia). discriminate. }
  assert (forall u, vle (clk (ths s u)) (clk (ths s1 u)) /\ seen (ths s u) <= seen (ths s1 u)) as Hmono.
  { intros u. unfold s1. cbn. unfold updf. destruct (Nat.eqb u t) eqn:E; [|split; [apply vle_refl|lia]].
    apply Nat.eqb_eq in E. subst u. cbn. fold T. split; [exact Hcb|]. pose proof (i_seen _ I t). fold T in H. lia. }
  assert (seen (ths s1 t) = S (top s) /\ clk (ths s1 t) = c) as [Hst Hct] by (unfold s1; cbn; rewrite updf_eq; cbn; auto).
  change (Inv0 s1). split.
  - apply I.
  - unfold s1; cbn. rewrite app_length; cbn; lia.
  - intros _. split; [exact Hfr|]. rewrite Htop1, Hmnew. unfold s1; cbn [hds]. rewrite nal_app. cbn. fold m in Hcnt. lia.
  - intros u. rewrite Htop1. unfold s1. cbn. unfold updf. destruct (Nat.eqb u t); cbn; [lia|]. pose proof (i_seen _ I u). lia.
  - intros g j Hg Hj Hz. rewrite Htop1 in Hj.
    destruct (Nat.eq_dec j (top s)) as [->|Hjne].
    + (* the old latest message had value 0: then h was the only handle, and the cloner now sees the new message *)
      rewrite Hmold in Hz by lia. fold m in Hz. assert (nal (hds s) = 1) as H1 by lia.
      destruct (Hcase g Hg) as [->|[Hgl Hga]].
      * exists t. split; [unfold knowers; rewrite Hhnew; now left|]. lia.
      * assert (g = h) as -> by (exact (nal_one (hds s) g h dh H1 eq_refl Hga Ha)).
        exists t. split; [unfold knowers; rewrite Hhold by exact Hlt; exact Hk|]. lia.
    + rewrite Hmold in Hz by lia.
      destruct (Hcase g Hg) as [->|[Hgl Hga]].
      * exists t. split; [unfold knowers; rewrite Hhnew; now left|]. lia.
      * destruct (i_K _ I g j Hga ltac:(lia) Hz) as (u & Hu & Hs). exists u. split; [unfold knowers; rewrite Hhold by exact Hgl; exact Hu|].
        destruct (Hmono u). lia.
  - intros a g u Hin Hk' Hg Hu. change (In a (accs s)) in Hin.
    destruct (Hcase g Hg) as [->|[Hgl Hga]].
    + unfold knowers in Hu. rewrite Hhnew in Hu. cbn in Hu. destruct Hu as [<-|[]].
      pose proof (i_W _ I a h t Hin Hk' Ha Hk) as X. rewrite Hct. specialize (Hcb (atid a)). fold T in X. lia.
    + unfold knowers in Hu. rewrite Hhold in Hu by exact Hgl. pose proof (i_W _ I a g u Hin Hk' Hga Hu) as X.
      destruct (Hmono u) as [Hv _]. specialize (Hv (atid a)). lia.
  - intros a Hin Hk'. change (In a (accs s)) in Hin. pose proof (i_H _ I a Hin) as Hg. destruct (i_R _ I a Hin Hk') as [R1 R2].
    rewrite Hhold by exact Hg. split.
    + intros Hag. destruct (R1 Hag) as (u & Hu & Hle). exists u. split; [unfold knowers; rewrite Hhold by exact Hg; exact Hu|].
      destruct (Hmono u) as [Hv _]. specialize (Hv (atid a)). lia.
    + intros Hag _. specialize (R2 Hag Hn). rewrite Htop1, Hmnew. unfold nm. cbn. fold m in R2. destruct (incr_release p); unfold vjoin; lia.
  - intros a Hin. apply (i_F _ I a Hin).
  - intros a Hin. change (In a (accs s)) in Hin. unfold s1; cbn. rewrite app_length; cbn. pose proof (i_H _ I a Hin). lia.
Qed.

(* re-labelling who holds handle h, together with a synchronising hand-over of knowledge from the actor t to r *)
Lemma inv_rehandle s t r h H' : Inv0 s -> alive (hnd_at s h) = true -> alive H' = true ->
  (forall u, In u (knowers s h) -> In u (owner H' :: lent H') \/ (u = t /\ In r (owner H' :: lent H'))) ->
  (forall u', In u' (owner H' :: lent H') -> In u' (knowers s h) \/ (u' = r /\ In t (knowers s h))) ->
  Inv0 {| ms := ms s; ths := sync_to s t (vbump t (clk (ths s t))) r; hds := updl (hds s) h H';
         accs := accs s; freed := freed s; err := err s |}.
Proof.
  intros I Ha Ha' HE HU. set (c := vbump t (clk (ths s t))).
  destruct (sync_to_mono s t r I) as (Hmono & Hrc & Hrs). fold c in Hmono, Hrc, Hrs.
  pose proof (alive_lt _ _ Ha) as Hlt. pose proof (alive_nal _ _ Ha) as Hn. destruct (i_cnt _ I Hn) as [Hfr Hcnt].
  set (s1 := {| ms := ms s; ths := sync_to s t c r; hds := updl (hds s) h H'; accs := accs s; freed := freed s; err := err s |}).
  assert (forall g, g <> h -> hnd_at s1 g = hnd_at s g) as Hother by (intros g Hg; unfold hnd_at, s1; cbn; apply nth_updl_ne; auto).
  assert (hnd_at s1 h = H') as Hh1 by (unfold hnd_at, s1; cbn; rewrite nth_updl_eq; auto).
  assert (forall g, alive (hnd_at s1 g) = alive (hnd_at s g)) as Hal.
  { intros g. destruct (Nat.eq_dec g h) as [->|Hg]; [rewrite Hh1; congruence | now rewrite Hother]. }
  assert (nal (hds s1) = nal (hds s)) as Hnal.
  { pose proof (nal_updl (hds s) h H' dh Hlt) as X. unfold hnd_at in Ha. rewrite Ha, Ha' in X. unfold s1; cbn [hds]. lia. }
  (* existential transfer: whatever some old holder of g knew, some new holder of g knows *)
  assert (forall g u, alive (hnd_at s g) = true -> In u (knowers s g) ->
            exists u', In u' (knowers s1 g) /\ vle (clk (ths s u)) (clk (ths s1 u')) /\ seen (ths s u) <= seen (ths s1 u')) as HEx.
  { intros g u Hg Hu. destruct (Nat.eq_dec g h) as [->|Hne].
    - unfold knowers at 1. rewrite Hh1. destruct (HE u Hu) as [Hin|[-> Hin]].
      + exists u. split; [exact Hin|]. destruct (Hmono u) as (A & B & _). split; [exact A|exact B].
      + exists r. split; [exact Hin|]. split; [exact Hrc|exact Hrs].
    - exists u. split; [unfold knowers; rewrite (Hother _ Hne); exact Hu|]. destruct (Hmono u) as (A & B & _). split; [exact A|exact B]. }
  (* universal transfer: every new holder of g knows at least what some old holder of g knew *)
  assert (forall g u', alive (hnd_at s g) = true -> In u' (knowers s1 g) ->
            exists u, In u (knowers s g) /\ vle (clk (ths s u)) (clk (ths s1 u'))) as HUn.
  { intros g u' Hg Hu'. destruct (Nat.eq_dec g h) as [->|Hne].
    - unfold knowers in Hu'. rewrite Hh1 in Hu'. destruct (HU u' Hu') as [Hin|[-> Hin]].
      + exists u'. split; [exact Hin|]. apply Hmono.
      + exists t. split; [exact Hin|exact Hrc].
    - unfold knowers in Hu'. rewrite (Hother _ Hne) in Hu'. exists u'. split; [exact Hu'|apply Hmono]. }
  change (Inv0 s1). split.
  - apply I.
  - apply I.
  - intros _. split; [exact Hfr|]. rewrite Hnal. exact Hcnt.
  - intros u. apply Hmono.
  - intros g j Hg Hj Hz. rewrite Hal in Hg. destruct (i_K _ I g j Hg Hj Hz) as (u & Hu & Hs).
    destruct (HEx g u Hg Hu) as (u' & Hu' & _ & Hs'). exists u'. split; [exact Hu'|]. lia.
  - intros a g u' Hin Hk Hg Hu'. rewrite Hal in Hg. destruct (HUn g u' Hg Hu') as (u & Hu & Hv).
    pose proof (i_W _ I a g u Hin Hk Hg Hu). specialize (Hv (atid a)). lia.
  - intros a Hin Hk. destruct (i_R _ I a Hin Hk) as [R1 R2]. rewrite Hal. split; [|intros X _; exact (R2 X Hn)].
    intros Hg. destruct (R1 Hg) as (u & Hu & Hle). destruct (HEx _ u Hg Hu) as (u' & Hu' & Hv & _).
    exists u'. split; [exact Hu'|]. specialize (Hv (atid a)). lia.
  - apply I.
  - intros a Hin. unfold s1; cbn [hds]. rewrite updl_length. apply (i_H _ I a Hin).
Qed.

Lemma inv_access_free s t h c : Inv0 s -> (forall g, alive (hnd_at s g) = false) -> h < length (hds s) ->
  safe_access s c AF = true -> Inv0 (do_access s t h c AF).
Proof.
  intros I Hnone Hlt Hsafe. destruct I. unfold do_access. split; cbn [err ms ths hds accs freed].
  - rewrite i_err0, Hsafe. reflexivity.
  - exact i_ms0.
  - intros Hpos. destruct (nal_pos_ex (hds s) dh Hpos) as [g Hg]. specialize (Hnone g). unfold hnd_at in Hnone. congruence.
  - exact i_seen0.
  - intros h' j Ha'. unfold hnd_at in *. cbn in *. rewrite Hnone in Ha'. discriminate.
  - intros a h' u _ _ Ha'. unfold hnd_at in *. cbn in *. rewrite Hnone in Ha'. discriminate.
  - intros a [<-|Hin] Hk; [discriminate|]. apply (i_R0 a Hin Hk).
  - intros a _ _. reflexivity.
  - intros a [<-|Hin]; [cbn; exact Hlt|auto].
Qed.

(* once every handle is dead and the box is freed the remaining clauses are vacuous *)
Lemma inv0_all_dead s : err s = false -> length (ms s) >= 1 -> (forall t, seen (ths s t) <= top s) ->
  nal (hds s) = 0 -> freed s = true -> (forall a, In a (accs s) -> ahnd a < length (hds s)) -> Inv0 s.
Proof.
  intros He Hm Hs Hz Hf HH.
  assert (forall g, alive (hnd_at s g) = false) as Hnone by (intros g; apply nal_zero_dead; auto).
  split.
  - exact He.
  - exact Hm.
  - intros Hpos. lia.
  - exact Hs.
  - intros h j Ha. rewrite Hnone in Ha. discriminate.
  - intros a h u _ _ Ha. rewrite Hnone in Ha. discriminate.
  - intros a _ _. split; [intros Ha; rewrite Hnone in Ha; discriminate | intros _ Hp; lia].
  - intros a _ _. exact Hf.
  - exact HH.
Qed.

(* key lemma 1: the sole (un-lent) holder of a handle that reads 0 has read the latest message, and its handle is the
   only one alive *)
Lemma sole_latest s t h j : Inv0 s -> alive (hnd_at s h) = true -> knowers s h = [t] ->
  seen (ths s t) <= j -> j <= top s -> mval (msg_at s j) = 0 -> j = top s /\ nal (hds s) = 1.
Proof.
  intros I Ha Hkn Hsj Hjt Ez.
  assert (j = top s) as Hj.
  { destruct (Nat.eq_dec j (top s)); auto. exfalso.
    destruct (i_K _ I h j Ha ltac:(lia) Ez) as (u & Hu & Hs). rewrite Hkn in Hu. destruct Hu as [<-|[]]. lia. }
  split; [exact Hj|]. destruct (i_cnt _ I (alive_nal _ _ Ha)) as [_ Hcnt]. subst j. lia.
Qed.
(* key lemma 2: the sole holder of the only alive handle, once it has acquired the view of the latest message, is
   ordered after every access ever made to the payload *)
Lemma sole_hb s t h c' : Inv0 s -> alive (hnd_at s h) = true -> knowers s h = [t] -> nal (hds s) = 1 ->
  vle (clk (ths s t)) c' -> vle (mview (msg_at s (top s))) c' -> forall a, In a (accs s) -> aep a <= c' (atid a).
Proof.
  intros I Ha Hkn H1 Hc Hm a Hin. pose proof (alive_nal _ _ Ha) as Hn. destruct (i_cnt _ I Hn) as [Hfr _].
  specialize (Hc (atid a)). specialize (Hm (atid a)). destruct (akd a) eqn:Ek.
  - destruct (i_R _ I a Hin Ek) as [R1 R2]. destruct (alive (hnd_at s (ahnd a))) eqn:Eg.
    + assert (ahnd a = h) as Eh by (exact (nal_one (hds s) (ahnd a) h dh H1 eq_refl Eg Ha)).
      destruct (R1 eq_refl) as (u & Hu & Hle). rewrite Eh, Hkn in Hu. destruct Hu as [<-|[]]. lia.
    + specialize (R2 eq_refl Hn). lia.
  - assert (In t (knowers s h)) as Hkt by (rewrite Hkn; now left). pose proof (i_W _ I a h t Hin Ek Ha Hkt). lia.
  - rewrite (i_F _ I a Hin Ek) in Hfr. discriminate.
Qed.

Lemma owner_knower s t h : alive (hnd_at s h) && Nat.eqb (owner (hnd_at s h)) t = true ->
  alive (hnd_at s h) = true /\ owner (hnd_at s h) = t /\ In t (knowers s h).
Proof. intros G. apply andb_prop in G as [A B]. apply Nat.eqb_eq in B. repeat split; auto. unfold knowers. now left. Qed.
Lemma borrower_knower s t h : alive (hnd_at s h) && memn t (lent (hnd_at s h)) = true ->
  alive (hnd_at s h) = true /\ In t (lent (hnd_at s h)) /\ In t (knowers s h).
Proof. intros G. apply andb_prop in G as [A B]. apply memn_In in B. repeat split; auto. unfold knowers. now right. Qed.

Theorem step_inv0 p s t h o : sound_proto p = true -> Inv0 s -> Inv0 (step p s t h o).
Proof.
  intros Hp I. unfold sound_proto in Hp. apply andb_prop in Hp as [Hp Hp3]. apply andb_prop in Hp as [Hp1 Hp2]. unfold step.
  set (H := hnd_at s h). set (T := ths s t). set (c := vbump t (clk T)).
  assert (vle (clk T) c) as Hcb by apply vle_bump.
  destruct o as [| | |j|t'|t'| | | |j].
  - (* Read *) destruct (alive H && Nat.eqb (owner H) t) eqn:G; [|exact I]. destruct (owner_knower _ _ _ G) as (Ha & _ & Hk). now apply inv_do_read.
  - (* Clone *) destruct (alive H && Nat.eqb (owner H) t) eqn:G; [|exact I]. destruct (owner_knower _ _ _ G) as (Ha & _ & Hk). eapply inv_do_clone; eauto.
  - (* Drop *)
    destruct (alive H && Nat.eqb (owner H) t && match lent H with [] => true | _ :: _ => false end) eqn:G; cbn [negb]; [|exact I].
    apply andb_prop in G as [G GL]. destruct (owner_knower _ _ _ G) as (Ha & Ho & _).
    assert (lent H = []) as HL by (destruct (lent H); [reflexivity|discriminate]).
    assert (knowers s h = [t]) as Hkn by (unfold knowers; unfold H in HL; now rewrite Ho, HL).
    pose proof (alive_lt _ _ Ha) as Hlt. pose proof (alive_nal _ _ Ha) as Hn. destruct (i_cnt _ I Hn) as [Hfr Hcnt].
    pose proof (i_ms _ I) as Hms. set (m := msg_at s (top s)) in *.
    assert (length (ms s) = S (top s)) as Hlen by (unfold top; lia).
    set (pd := vjoin (pend T) (mview m)). rewrite Hp1, Hp2. rewrite andb_true_r.
    set (c' := if mval m =? 0 then vjoin c pd else c).
    assert (vle c c') as Hc' by (unfold c'; destruct (mval m =? 0); [apply vle_join_l|apply vle_refl]).
    assert (vle (clk T) c') as Hcc' by (eapply vle_trans; eauto).
    set (s1 := {| ms := ms s ++ [{| mval := mval m - 1; mview := vjoin (mview m) c |}];
                  ths := updf (ths s) t {| clk := c'; seen := S (top s); pend := pd |};
                  hds := updl (hds s) h {| owner := t; alive := false; lent := [] |};
                  accs := accs s; freed := freed s; err := err s |}).
    assert (nal (hds s1) + 1 = nal (hds s)) as Hnal.
    { pose proof (nal_updl (hds s) h {| owner := t; alive := false; lent := [] |} dh Hlt) as X. unfold H, hnd_at in Ha. rewrite Ha in X. cbn [alive] in X. unfold s1; cbn [hds]. lia. }
    assert (forall g, g <> h -> hnd_at s1 g = hnd_at s g) as Hother by (intros g Hg; unfold hnd_at, s1; cbn; apply nth_updl_ne; auto).
    assert (alive (hnd_at s1 h) = false) as Hdead by (unfold hnd_at, s1; cbn; rewrite nth_updl_eq; auto).
    assert (top s1 = S (top s)) as Htop1 by (unfold top, s1; cbn; rewrite app_length; cbn; lia).
    assert (msg_at s1 (top s1) = {| mval := mval m - 1; mview := vjoin (mview m) c |}) as Hm1.
    { rewrite Htop1. unfold msg_at, s1. cbn. rewrite <- Hlen. apply nth_app_new. }
    assert (forall j, j <= top s -> msg_at s1 j = msg_at s j) as Hmold by (intros j Hj; unfold msg_at, s1; cbn; apply nth_app_old; lia).
    assert (forall u, vle (clk (ths s u)) (clk (ths s1 u)) /\ seen (ths s u) <= seen (ths s1 u)) as Hmono.
    { intros u. unfold s1. cbn. unfold updf. destruct (Nat.eqb u t) eqn:E; [|split; [apply vle_refl|lia]].
      apply Nat.eqb_eq in E. subst u. cbn. fold T. split; [exact Hcc'|]. pose proof (i_seen _ I t). fold T in H0. lia. }
    assert (Inv0 s1) as I1.
    { split.
      - apply I.
      - unfold s1; cbn. rewrite app_length; cbn; lia.
      - intros Hpos. split; [exact Hfr|]. rewrite Hm1. cbn [mval]. fold m in Hcnt. lia.
      - intros u. rewrite Htop1. unfold s1. cbn. unfold updf. destruct (Nat.eqb u t); cbn; [lia|]. pose proof (i_seen _ I u). lia.
      - intros g j Hg Hj Hz. rewrite Htop1 in Hj. assert (g <> h) as Hne by (intros ->; congruence). rewrite (Hother _ Hne) in Hg.
        rewrite Hmold in Hz by lia.
        destruct (Nat.eq_dec j (top s)) as [->|Hjne].
        + fold m in Hz. pose proof (nal_two (hds s) h g dh eq_refl (not_eq_sym Hne) Ha Hg). lia.
        + destruct (i_K _ I g j Hg ltac:(lia) Hz) as (u & Hu & Hs). exists u. split; [unfold knowers; rewrite (Hother _ Hne); exact Hu|].
          destruct (Hmono u). lia.
      - intros a g u Hin Hk Hg Hu. change (In a (accs s)) in Hin. assert (g <> h) as Hne by (intros ->; congruence).
        rewrite (Hother _ Hne) in Hg. unfold knowers in Hu. rewrite (Hother _ Hne) in Hu.
        pose proof (i_W _ I a g u Hin Hk Hg Hu). destruct (Hmono u) as [Hv _]. specialize (Hv (atid a)). lia.
      - intros a Hin Hk. change (In a (accs s)) in Hin. destruct (i_R _ I a Hin Hk) as [R1 R2]. rewrite Hm1. cbn [mview].
        destruct (Nat.eq_dec (ahnd a) h) as [Eg|Eg].
        + rewrite Eg in *. split; [intros X; congruence|]. intros _ _. destruct (R1 Ha) as (u & Hu & Hle). rewrite Hkn in Hu. destruct Hu as [<-|[]].
          fold T in Hle. specialize (Hcb (atid a)). unfold vjoin. lia.
        + rewrite (Hother _ Eg). split.
          * intros Hag. destruct (R1 Hag) as (u & Hu & Hle). exists u. split; [unfold knowers; rewrite (Hother _ Eg); exact Hu|].
            destruct (Hmono u) as [Hv _]. specialize (Hv (atid a)). lia.
          * intros Hag _. specialize (R2 Hag Hn). fold m in R2. unfold vjoin. lia.
      - intros a Hin. apply (i_F _ I a Hin).
      - intros a Hin. change (In a (accs s)) in Hin. unfold s1; cbn [hds]. rewrite updl_length. apply (i_H _ I a Hin). }
    destruct (mval m =? 0) eqn:Ez; [|exact I1].
    apply Nat.eqb_eq in Ez.
    assert (nal (hds s) = 1) as H1 by (fold m in Hcnt; lia). assert (nal (hds s1) = 0) as H0 by lia.
    assert (safe_access s1 c' AF = true) as Hsafe.
    { apply safe_access_true; [exact Hfr|]. unfold s1; cbn [accs]. intros a Hin _.
      apply (sole_hb s t h c' I Ha Hkn H1 Hcc'); [|exact Hin].
      unfold c', pd. intros x. unfold vjoin. fold m. lia. }
    assert (forall g, alive (hnd_at s1 g) = false) as Hnone by (intros g; apply nal_zero_dead; auto).
    apply inv_access_free; auto. unfold s1; cbn [hds]. rewrite updl_length. exact Hlt.
  - (* TryMut *)
    destruct (alive H && Nat.eqb (owner H) t && match lent H with [] => true | _ :: _ => false end) eqn:G; cbn [negb]; [|exact I].
    apply andb_prop in G as [G GL]. destruct (owner_knower _ _ _ G) as (Ha & Ho & _).
    assert (lent H = []) as HL by (destruct (lent H); [reflexivity|discriminate]).
    assert (knowers s h = [t]) as Hkn by (unfold knowers; unfold H in HL; now rewrite Ho, HL).
    pose proof (alive_lt _ _ Ha) as Hlt. pose proof (alive_nal _ _ Ha) as Hn. destruct (i_cnt _ I Hn) as [Hfr Hcnt].
    destruct ((seen T <=? j) && (j <=? top s)) eqn:Gj; cbn [negb]; [|exact I].
    apply andb_prop in Gj as [Hsj Hjt]. apply Nat.leb_le in Hsj. apply Nat.leb_le in Hjt.
    set (m := msg_at s j). set (pd := vjoin (pend T) (mview m)).
    destruct (mval m =? 0) eqn:Ez.
    2:{ apply inv_with_thr; cbn; auto. }
    apply Nat.eqb_eq in Ez. rewrite Hp3.
    destruct (sole_latest s t h j I Ha Hkn Hsj Hjt Ez) as [Hj H1].
    set (c' := vjoin c pd).
    set (s1 := with_thr s t {| clk := c'; seen := j; pend := pd |}).
    assert (vle (clk T) c') as Hcc' by (eapply vle_trans; [exact Hcb | apply vle_join_l]).
    assert (vle (mview (msg_at s (top s))) c') as Hmc by (rewrite <- Hj; fold m; unfold c', pd; intros x; unfold vjoin; lia).
    pose proof (sole_hb s t h c' I Ha Hkn H1 Hcc' Hmc) as Hhb.
    assert (Inv0 s1) as I1 by (apply inv_with_thr; cbn; auto).
    assert (safe_access s1 c' AW = true) as Hsafe by (apply safe_access_true; [exact Hfr|]; intros a Hin _; apply Hhb; exact Hin).
    destruct I1. unfold do_access. split; cbn [err ms ths hds accs freed].
    + rewrite i_err0, Hsafe. reflexivity.
    + exact i_ms0.
    + exact i_cnt0.
    + exact i_seen0.
    + exact i_K0.
    + intros a h' u [<-|Hin] Hk Ha' Hu; [|eauto]. cbn.
      assert (h' = h) as -> by (exact (nal_one (hds s) h' h dh H1 eq_refl Ha' Ha)).
      change (In u (knowers s h)) in Hu. rewrite Hkn in Hu. destruct Hu as [<-|[]]. unfold s1. cbn. rewrite updf_eq. cbn. lia.
    + intros a [<-|Hin] Hk; [discriminate|eauto].
    + intros a [<-|Hin] Hk; [discriminate|eauto].
    + intros a [<-|Hin]; [cbn; exact Hlt|eauto].
  - (* Send *)
    destruct (alive H && Nat.eqb (owner H) t && match lent H with [] => true | _ :: _ => false end) eqn:G; cbn [negb]; [|exact I].
    apply andb_prop in G as [G GL]. destruct (owner_knower _ _ _ G) as (Ha & Ho & _).
    assert (lent H = []) as HL by (destruct (lent H); [reflexivity|discriminate]).
    assert (knowers s h = [t]) as Hkn by (unfold knowers; unfold H in HL; now rewrite Ho, HL).
    apply inv_rehandle; auto; cbn [owner lent].
    + intros u Hu. rewrite Hkn in Hu. destruct Hu as [<-|[]]. right. split; [reflexivity|now left].
    + intros u' [<-|[]]. right. split; [reflexivity|rewrite Hkn; now left].
  - (* Lend *)
    destruct (alive H && Nat.eqb (owner H) t) eqn:G; cbn [negb]; [|exact I]. destruct (owner_knower _ _ _ G) as (Ha & Ho & Hk).
    apply inv_rehandle; auto; cbn [owner lent].
    + intros u Hu. left. unfold knowers in Hu. rewrite Ho in Hu. destruct Hu as [<-|Hu]; [now left|right; now right].
    + intros u' [<-|[<-|Hu']].
      * left. exact Hk.
      * right. split; [reflexivity|exact Hk].
      * left. unfold knowers. now right.
  - (* BRead *) destruct (alive H && memn t (lent H)) eqn:G; [|exact I]. destruct (borrower_knower _ _ _ G) as (Ha & _ & Hk). now apply inv_do_read.
  - (* BClone *) destruct (alive H && memn t (lent H)) eqn:G; [|exact I]. destruct (borrower_knower _ _ _ G) as (Ha & _ & Hk). eapply inv_do_clone; eauto.
  - (* Return *)
    destruct (alive H && memn t (lent H)) eqn:G; cbn [negb]; [|exact I]. destruct (borrower_knower _ _ _ G) as (Ha & Hl & Hk).
    apply inv_rehandle; auto; cbn [owner lent].
    + intros u Hu. unfold knowers in Hu. destruct Hu as [<-|Hu]; [left; now left|].
      destruct (Nat.eq_dec u t) as [->|Hne]; [right; split; [reflexivity|now left] | left; right; now apply rem1_keep].
    + intros u' [<-|Hu']; left; unfold knowers; [now left | right; eapply rem1_In; eauto].
  - (* Unwrap *)
    destruct (alive H && Nat.eqb (owner H) t && match lent H with [] => true | _ :: _ => false end) eqn:G; cbn [negb]; [|exact I].
    apply andb_prop in G as [G GL]. destruct (owner_knower _ _ _ G) as (Ha & Ho & _).
    assert (lent H = []) as HL by (destruct (lent H); [reflexivity|discriminate]).
    assert (knowers s h = [t]) as Hkn by (unfold knowers; unfold H in HL; now rewrite Ho, HL).
    pose proof (alive_lt _ _ Ha) as Hlt. pose proof (alive_nal _ _ Ha) as Hn. destruct (i_cnt _ I Hn) as [Hfr Hcnt].
    destruct ((seen T <=? j) && (j <=? top s)) eqn:Gj; cbn [negb]; [|exact I].
    apply andb_prop in Gj as [Hsj Hjt]. apply Nat.leb_le in Hsj. apply Nat.leb_le in Hjt.
    set (m := msg_at s j). set (pd := vjoin (pend T) (mview m)).
    destruct (mval m =? 0) eqn:Ez.
    2:{ apply inv_with_thr; cbn; auto. }
    apply Nat.eqb_eq in Ez. rewrite Hp3.
    destruct (sole_latest s t h j I Ha Hkn Hsj Hjt Ez) as [Hj H1].
    set (c' := vjoin c pd).
    assert (vle (clk T) c') as Hcc' by (eapply vle_trans; [exact Hcb | apply vle_join_l]).
    assert (vle (mview (msg_at s (top s))) c') as Hmc by (rewrite <- Hj; fold m; unfold c', pd; intros x; unfold vjoin; lia).
    pose proof (sole_hb s t h c' I Ha Hkn H1 Hcc' Hmc) as Hhb.
    set (s1 := {| ms := ms s; ths := updf (ths s) t {| clk := c'; seen := j; pend := pd |};
                  hds := updl (hds s) h {| owner := t; alive := false; lent := [] |};
                  accs := accs s; freed := freed s; err := err s |}).
    assert (safe_access s1 c' AW = true) as Hs1 by (apply safe_access_true; [exact Hfr|]; intros a Hin _; apply Hhb; exact Hin).
    set (s2 := do_access s1 t h c' AW).
    assert (safe_access s2 c' AF = true) as Hs2.
    { apply safe_access_true; [exact Hfr|]. intros a [<-|Hin] _; [cbn; lia | apply Hhb; exact Hin]. }
    apply inv0_all_dead.
    + unfold do_access at 1. cbn [err]. rewrite Hs2. unfold s2, do_access. cbn [err]. rewrite Hs1. unfold s1. cbn [err].
      rewrite (i_err _ I). reflexivity.
    + exact (i_ms _ I).
    + intros u. change (seen (updf (ths s) t {| clk := c'; seen := j; pend := pd |} u) <= top s).
      unfold updf. destruct (Nat.eqb u t); cbn [seen]; [exact Hjt|apply (i_seen _ I)].
    + change (nal (updl (hds s) h {| owner := t; alive := false; lent := [] |}) = 0).
      pose proof (nal_updl (hds s) h {| owner := t; alive := false; lent := [] |} dh Hlt) as X.
      unfold H, hnd_at in Ha. rewrite Ha in X. cbn [alive] in X. lia.
    + reflexivity.
    + change (forall a, In a (accs (do_access s2 t h c' AF)) -> ahnd a < length (updl (hds s) h {| owner := t; alive := false; lent := [] |})).
      rewrite updl_length. intros a [<-|[<-|Hin]]; [exact Hlt|exact Hlt|apply (i_H _ I a Hin)].
Qed.


(* ---------- accounting layer: the box is freed iff no handle is left; at most one free is ever recorded ---------- *)
Definition isAF (a : acc) : bool := match akd a with AF => true | _ => false end.
Definition nfree (s : st) : nat := length (filter isAF (accs s)).

(** The full invariant.  [i_0]: the ordering/coherence invariant above.  [i_Z]: when the last handle is gone the box has
    been freed (the converse, "freed -> no handle", is the contrapositive of [i_cnt]).  [i_D]: the number of free
    accesses ever recorded is 1 if the box is freed and 0 otherwise.  [i_L]: once freed, the free is the most recent
    access in the log (nothing touches the payload afterwards). *)
Definition acct (s : st) : Prop :=
  nfree s = (if freed s then 1 else 0) /\ (freed s = true -> exists a l, accs s = a :: l /\ akd a = AF).
Record Inv (s : st) : Prop := {
  i_0 : Inv0 s;
  i_Z : nal (hds s) = 0 -> freed s = true;
  i_D : nfree s = if freed s then 1 else 0;
  i_L : freed s = true -> exists a l, accs s = a :: l /\ akd a = AF;
}.

(* any recorded access that does not set [err] happened before the free; so a free access is the first one *)
Lemma access_ok_unfreed s t h c k : err (do_access s t h c k) = false -> freed s = false.
Proof.
  unfold do_access. cbn [err]. intros He. apply orb_false_elim in He as [_ He]. apply negb_false_iff in He.
  unfold safe_access in He. apply andb_prop in He as [Hf _]. now apply negb_true_iff in Hf.
Qed.
Lemma acct_access s t h c k : err (do_access s t h c k) = false -> acct s -> acct (do_access s t h c k).
Proof.
  intros He [Hd _]. pose proof (access_ok_unfreed _ _ _ _ _ He) as Hf. rewrite Hf in Hd. split.
  - unfold nfree, do_access in *. cbn [accs freed filter]. unfold isAF at 1. cbn [akd].
    destruct k; cbn [length]; rewrite ?Hf; lia.
  - unfold do_access. cbn [accs freed]. destruct k; [congruence|congruence|]. intros _. eexists _, _. split; reflexivity.
Qed.
Lemma acct_same s s' : accs s' = accs s -> freed s' = freed s -> acct s -> acct s'.
Proof. intros Ea Ef. unfold acct, nfree. now rewrite Ea, Ef. Qed.

Lemma exclusive_facts s t h :
  alive (hnd_at s h) && Nat.eqb (owner (hnd_at s h)) t && match lent (hnd_at s h) with [] => true | _ :: _ => false end = true ->
  alive (hnd_at s h) = true /\ owner (hnd_at s h) = t /\ lent (hnd_at s h) = [] /\ knowers s h = [t].
Proof.
  intros G. apply andb_prop in G as [G GL]. destruct (owner_knower _ _ _ G) as (Ha & Ho & _).
  assert (lent (hnd_at s h) = []) as HL by (destruct (lent (hnd_at s h)); [reflexivity|discriminate]).
  repeat split; auto. unfold knowers. now rewrite Ho, HL.
Qed.
Lemma nal_relabel s h H' : alive (hnd_at s h) = true -> alive H' = true -> nal (updl (hds s) h H') = nal (hds s).
Proof.
  intros Ha Ha'. pose proof (nal_updl (hds s) h H' dh (alive_lt _ _ Ha)) as X. unfold hnd_at in Ha. rewrite Ha, Ha' in X. lia.
Qed.
Lemma nal_kill s h H' : alive (hnd_at s h) = true -> alive H' = false -> nal (updl (hds s) h H') + 1 = nal (hds s).
Proof.
  intros Ha Ha'. pose proof (nal_updl (hds s) h H' dh (alive_lt _ _ Ha)) as X. unfold hnd_at in Ha. rewrite Ha, Ha' in X. lia.
Qed.

Lemma step_acct p s t h o : Inv0 s -> Inv0 (step p s t h o) ->
  (nal (hds s) = 0 -> freed s = true) -> acct s ->
  (nal (hds (step p s t h o)) = 0 -> freed (step p s t h o) = true) /\ acct (step p s t h o).
Proof.
  intros I I' Z D. pose proof (i_err _ I') as He. revert He. clear I'. unfold step.
  set (H := hnd_at s h). set (T := ths s t). set (c := vbump t (clk T)).
  destruct o as [| | |j|t'|t'| | | |j].
  - (* Read *) destruct (alive H && Nat.eqb (owner H) t); [|now split]. unfold do_read. intros He. split; [exact Z|].
    now apply acct_access.
  - (* Clone *) destruct (alive H && Nat.eqb (owner H) t); [|now split]. unfold do_clone. intros _. split; [|exact D].
    cbn [hds]. rewrite nal_app. cbn. lia.
  - (* Drop *)
    destruct (alive H && Nat.eqb (owner H) t && match lent H with [] => true | _ :: _ => false end) eqn:G; cbn [negb]; [|now split].
    destruct (exclusive_facts _ _ _ G) as (Ha & _). destruct (i_cnt _ I (alive_nal _ _ Ha)) as [_ Hcnt].
    destruct (mval (msg_at s (top s)) =? 0) eqn:Ez.
    + intros He. split; [reflexivity|]. apply acct_access; [exact He|exact D].
    + intros _. apply Nat.eqb_neq in Ez. split; [|exact D]. cbn [hds].
      pose proof (nal_kill s h {| owner := t; alive := false; lent := [] |} Ha eq_refl). lia.
  - (* TryMut *)
    destruct (alive H && Nat.eqb (owner H) t && match lent H with [] => true | _ :: _ => false end); cbn [negb]; [|now split].
    destruct ((seen T <=? j) && (j <=? top s)); cbn [negb]; [|now split].
    destruct (mval (msg_at s j) =? 0); [|now split].
    intros He. split; [exact Z|]. now apply acct_access.
  - (* Send *)
    destruct (alive H && Nat.eqb (owner H) t && match lent H with [] => true | _ :: _ => false end) eqn:G; cbn [negb]; [|now split].
    destruct (exclusive_facts _ _ _ G) as (Ha & _). intros _. split; [|exact D]. cbn [hds freed]. rewrite nal_relabel by auto. exact Z.
  - (* Lend *)
    destruct (alive H && Nat.eqb (owner H) t) eqn:G; cbn [negb]; [|now split].
    destruct (owner_knower _ _ _ G) as (Ha & _). intros _. split; [|exact D]. cbn [hds freed]. rewrite nal_relabel by auto. exact Z.
  - (* BRead *) destruct (alive H && memn t (lent H)); [|now split]. unfold do_read. intros He. split; [exact Z|].
    now apply acct_access.
  - (* BClone *) destruct (alive H && memn t (lent H)); [|now split]. unfold do_clone. intros _. split; [|exact D].
    cbn [hds]. rewrite nal_app. cbn. lia.
  - (* Return *)
    destruct (alive H && memn t (lent H)) eqn:G; cbn [negb]; [|now split].
    destruct (borrower_knower _ _ _ G) as (Ha & _). intros _. split; [|exact D]. cbn [hds freed]. rewrite nal_relabel by auto. exact Z.
  - (* Unwrap *)
    destruct (alive H && Nat.eqb (owner H) t && match lent H with [] => true | _ :: _ => false end); cbn [negb]; [|now split].
    destruct ((seen T <=? j) && (j <=? top s)); cbn [negb]; [|now split].
    destruct (mval (msg_at s j) =? 0); [|now split].
    intros He. split; [reflexivity|]. apply acct_access; [exact He|].
    unfold do_access at 1 in He. cbn [err] in He. apply orb_false_elim in He as [He _].
    apply acct_access; [exact He|exact D].
Qed.

Theorem step_inv p s t h o : sound_proto p = true -> Inv s -> Inv (step p s t h o).
Proof.
  intros Hp [I Z D L]. pose proof (step_inv0 p s t h o Hp I) as I'.
  destruct (step_acct p s t h o I I' Z (conj D L)) as [Z' [D' L']]. now split.
Qed.

Theorem run_inv p : sound_proto p = true -> forall sc s, Inv s -> Inv (fold_left (fun s '(t, h, o) => step p s t h o) sc s).
Proof. intros Hp. induction sc as [|[[t h] o] sc IH]; intros s I; cbn [fold_left]; [exact I|]. apply IH. now apply step_inv. Qed.
Lemma inv0_init : Inv0 init.
Proof.
  split.
  - reflexivity.
  - cbn. lia.
  - intros _. split; reflexivity.
  - intros t. cbn. lia.
  - intros h j Ha Hj Hz. unfold top in Hj. cbn in Hj. lia.
  - intros a h u Hin. cbn in Hin. contradiction.
  - intros a Hin. cbn in Hin. contradiction.
  - intros a Hin. cbn in Hin. contradiction.
  - intros a Hin. cbn in Hin. contradiction.
Qed.
Lemma inv_init : Inv init.
Proof. split; [exact inv0_init | cbn; discriminate | reflexivity | cbn; discriminate]. Qed.
Lemma inv_run p sc : sound_proto p = true -> Inv (run p sc).
Proof. intros Hp. apply run_inv; [exact Hp|apply inv_init]. Qed.
Lemma run_snoc p sc t h o : run p (sc ++ [(t, h, o)]) = step p (run p sc) t h o.
Proof. unfold run. now rewrite fold_left_app. Qed.

(** ** Main theorem 1: no data race, no use after free, under every schedule *)
(* every protocol meeting the side condition, every schedule, any number of threads, handles, loans *)
Theorem race_free_all_schedules : forall p, sound_proto p = true -> forall sc, err (run p sc) = false.
Proof. intros p Hp sc. apply i_err, i_0. now apply inv_run. Qed.
Corollary pinned_protocol_ok : forall sc, err (run sound sc) = false.
Proof. apply race_free_all_schedules. reflexivity. Qed.
Corollary relaxed_incr_ok : forall sc, err (run {| incr_release := false; decr_release := true; free_fence := true; uniq_fence := true |} sc) = false.
Proof. apply race_free_all_schedules. reflexivity. Qed.

(** ** Main theorem 2: the box is freed exactly when the last handle is gone, and at most once.
    "Not before": freed -> no alive handle.  "Not leaked": no alive handle -> freed.  "Once": a second free would be an
    access after [freed], which sets [err] (theorem 1); explicitly, the access log never contains two free accesses. *)
Theorem freed_iff_no_handle : forall p, sound_proto p = true -> forall sc, freed (run p sc) = true <-> nal (hds (run p sc)) = 0.
Proof.
  intros p Hp sc. pose proof (inv_run p sc Hp) as I. split.
  - intros Hf. destruct (Nat.eq_dec (nal (hds (run p sc))) 0) as [E|E]; [exact E|].
    destruct (i_cnt _ (i_0 _ I)) as [X _]; [lia|congruence].
  - apply (i_Z _ I).
Qed.
Theorem no_double_free : forall p, sound_proto p = true -> forall sc,
  length (filter (fun a => match akd a with AF => true | _ => false end) (accs (run p sc))) <= 1.
Proof.
  intros p Hp sc. pose proof (i_D _ (inv_run p sc Hp)) as D. change (nfree (run p sc) <= 1). rewrite D.
  destruct (freed (run p sc)); lia.
Qed.

(** ** Main theorem 3: mutable access / ownership / release only for the sole owner, after everything else.
    [exclusive_grant s s' t h]: in the state [s] in which thread [t] acts through handle [h], that handle is alive,
    owned by [t] and not lent to anybody; it is the ONLY alive handle ("no other value still refers to the buffer");
    and every access [b] ever made to the payload -- by any thread, through any handle, in particular through all the
    former co-owners -- happens-before the granted access: its epoch is covered by the vector clock that thread [t]
    holds after the uniqueness load and Acquire fence ([clk (ths s' t)], the clock with which the access is recorded). *)
Definition exclusive_grant (s s' : st) (t h : nat) : Prop :=
  alive (hnd_at s h) = true /\ owner (hnd_at s h) = t /\ lent (hnd_at s h) = [] /\
  nal (hds s) = 1 /\ (forall g, alive (hnd_at s g) = true -> g = h) /\
  (forall b, In b (accs s) -> aep b <= clk (ths s' t) (atid b)).
(* the access record written by thread t through handle h with the clock it holds in s' *)
Definition acc_of (s' : st) (t h : nat) (k : akind) : acc := {| atid := t; aep := clk (ths s' t) t; akd := k; ahnd := h |}.

Lemma sound_proto_fields p : sound_proto p = true -> decr_release p = true /\ free_fence p = true /\ uniq_fence p = true.
Proof. unfold sound_proto. intros Hp. apply andb_prop in Hp as [Hp H3]. apply andb_prop in Hp as [H1 H2]. auto. Qed.

Lemma grant_intro s s' t h c' : Inv0 s -> alive (hnd_at s h) = true -> owner (hnd_at s h) = t -> lent (hnd_at s h) = [] ->
  knowers s h = [t] -> nal (hds s) = 1 -> clk (ths s' t) = c' ->
  vle (clk (ths s t)) c' -> vle (mview (msg_at s (top s))) c' -> exclusive_grant s s' t h.
Proof.
  intros I Ha Ho HL Hkn H1 Hc Hcc Hmc. repeat split; auto.
  - intros g Hg. exact (nal_one (hds s) g h dh H1 eq_refl Hg Ha).
  - rewrite Hc. exact (sole_hb s t h c' I Ha Hkn H1 Hcc Hmc).
Qed.

(* TryMut either records nothing or records exactly one write access, and then the grant is exclusive *)
Lemma trymut_cases p s t h j : sound_proto p = true -> Inv0 s -> let s' := step p s t h (TryMut j) in
  accs s' = accs s \/ (accs s' = acc_of s' t h AW :: accs s /\ exclusive_grant s s' t h).
Proof.
  intros Hp I. destruct (sound_proto_fields p Hp) as (_ & _ & Hp3). cbn zeta. unfold step.
  destruct (alive (hnd_at s h) && Nat.eqb (owner (hnd_at s h)) t && match lent (hnd_at s h) with [] => true | _ :: _ => false end) eqn:G;
    cbn [negb]; [|now left].
  destruct (exclusive_facts _ _ _ G) as (Ha & Ho & HL & Hkn).
  destruct ((seen (ths s t) <=? j) && (j <=? top s)) eqn:Gj; cbn [negb]; [|now left].
  apply andb_prop in Gj as [Hsj Hjt]. apply Nat.leb_le in Hsj. apply Nat.leb_le in Hjt.
  destruct (mval (msg_at s j) =? 0) eqn:Ez; [|now left].
  apply Nat.eqb_eq in Ez. right. rewrite Hp3. destruct (sole_latest s t h j I Ha Hkn Hsj Hjt Ez) as [Hj H1].
  split; [unfold acc_of, do_access, with_thr; cbn [accs ths]; rewrite updf_eq; reflexivity|].
  eapply grant_intro; [exact I|exact Ha|exact Ho|exact HL|exact Hkn|exact H1| | |].
  - unfold do_access, with_thr; cbn [ths]. rewrite updf_eq. cbn [clk]. reflexivity.
  - eapply vle_trans; [apply vle_bump | apply vle_join_l].
  - rewrite <- Hj. intros x. unfold vjoin. lia.
Qed.

(* Unwrap either records nothing (and changes neither handles nor [freed]) or records a write and a free access, and
   then the grant is exclusive *)
Lemma unwrap_cases p s t h j : sound_proto p = true -> Inv0 s -> let s' := step p s t h (Unwrap j) in
  accs s' = accs s \/ (accs s' = acc_of s' t h AF :: acc_of s' t h AW :: accs s /\ exclusive_grant s s' t h).
Proof.
  intros Hp I. destruct (sound_proto_fields p Hp) as (_ & _ & Hp3). cbn zeta. unfold step.
  destruct (alive (hnd_at s h) && Nat.eqb (owner (hnd_at s h)) t && match lent (hnd_at s h) with [] => true | _ :: _ => false end) eqn:G;
    cbn [negb]; [|now left].
  destruct (exclusive_facts _ _ _ G) as (Ha & Ho & HL & Hkn).
  destruct ((seen (ths s t) <=? j) && (j <=? top s)) eqn:Gj; cbn [negb]; [|now left].
  apply andb_prop in Gj as [Hsj Hjt]. apply Nat.leb_le in Hsj. apply Nat.leb_le in Hjt.
  destruct (mval (msg_at s j) =? 0) eqn:Ez; [|now left].
  apply Nat.eqb_eq in Ez. right. rewrite Hp3. destruct (sole_latest s t h j I Ha Hkn Hsj Hjt Ez) as [Hj H1].
  split; [unfold acc_of, do_access; cbn [accs ths]; rewrite updf_eq; reflexivity|].
  eapply grant_intro; [exact I|exact Ha|exact Ho|exact HL|exact Hkn|exact H1| | |].
  - unfold do_access; cbn [ths]. rewrite updf_eq. cbn [clk]. reflexivity.
  - eapply vle_trans; [apply vle_bump | apply vle_join_l].
  - rewrite <- Hj. intros x. unfold vjoin. lia.
Qed.

(* Drop either records nothing or records exactly one free access, and then it was the last handle and everything
   happens-before the free *)
Lemma drop_cases p s t h : sound_proto p = true -> Inv0 s -> let s' := step p s t h Drop in
  accs s' = accs s \/ (accs s' = acc_of s' t h AF :: accs s /\ exclusive_grant s s' t h).
Proof.
  intros Hp I. destruct (sound_proto_fields p Hp) as (_ & Hp2 & _). cbn zeta. unfold step.
  destruct (alive (hnd_at s h) && Nat.eqb (owner (hnd_at s h)) t && match lent (hnd_at s h) with [] => true | _ :: _ => false end) eqn:G;
    cbn [negb]; [|now left].
  destruct (exclusive_facts _ _ _ G) as (Ha & Ho & HL & Hkn).
  destruct (i_cnt _ I (alive_nal _ _ Ha)) as [_ Hcnt].
  destruct (mval (msg_at s (top s)) =? 0) eqn:Ez; [|now left].
  apply Nat.eqb_eq in Ez. right. rewrite Hp2. cbn [andb].
  split; [unfold acc_of, do_access; cbn [accs ths]; rewrite updf_eq; reflexivity|].
  eapply grant_intro; [exact I|exact Ha|exact Ho|exact HL|exact Hkn|lia| | |].
  - unfold do_access; cbn [ths]. rewrite updf_eq. cbn [clk]. reflexivity.
  - eapply vle_trans; [apply vle_bump | apply vle_join_l].
  - intros x. unfold vjoin. lia.
Qed.

(* which operations can record which kind of access (pure computation, no invariant needed) *)
Lemma step_new_accs p s t h o : exists new, accs (step p s t h o) = new ++ accs s /\
  forall a, In a new -> match akd a with
                        | AR => True
                        | AW => exists j, o = TryMut j \/ o = Unwrap j
                        | AF => o = Drop \/ exists j, o = Unwrap j
                        end.
Proof.
  assert (exists new : list acc, accs s = new ++ accs s /\ forall a, In a new ->
            match akd a with AR => True | AW => exists j, o = TryMut j \/ o = Unwrap j | AF => o = Drop \/ exists j, o = Unwrap j end) as Hnil
    by (exists []; split; [reflexivity|intros a []]).
  unfold step. destruct o as [| | |j|t'|t'| | | |j]; cbv zeta;
    repeat match goal with |- context [accs (if ?b then _ else _)] => destruct b end; try exact Hnil;
    unfold do_read, do_clone, do_access, with_thr; cbn [accs].
  - eexists [_]. split; [reflexivity|]. intros a [<-|[]]. exact I.
  - eexists [_]. split; [reflexivity|]. intros a [<-|[]]. cbn. now left.
  - eexists [_]. split; [reflexivity|]. intros a [<-|[]]. cbn. exists j. now left.
  - eexists [_]. split; [reflexivity|]. intros a [<-|[]]. exact I.
  - eexists [_; _]. split; [reflexivity|]. intros a [<-|[<-|[]]]; cbn; [right|]; exists j; [reflexivity|now right].
Qed.

(** One step, any state satisfying the invariant: every non-read access that the step records -- a write (in-place
    mutation by TryMut, taking ownership by Unwrap) or a free (last Drop, Unwrap) -- is recorded for the acting thread
    and handle with the thread's post-fence clock, and the grant is exclusive. *)
Lemma grant_exclusive p s t h o new a : sound_proto p = true -> Inv s ->
  accs (step p s t h o) = new ++ accs s -> In a new -> akd a <> AR ->
  a = acc_of (step p s t h o) t h (akd a) /\ exclusive_grant s (step p s t h o) t h /\
  match akd a with
  | AR => False
  | AW => exists j, o = TryMut j \/ o = Unwrap j
  | AF => o = Drop \/ exists j, o = Unwrap j
  end.
Proof.
  intros Hp [I _ _ _] Hnew Hin Hk.
  assert (forall l, accs (step p s t h o) = l ++ accs s -> new = l) as Huniq
    by (intros l El; rewrite El in Hnew; symmetry; exact (app_inv_tail _ _ _ Hnew)).
  destruct (step_new_accs p s t h o) as (new0 & E0 & Hops). pose proof (Huniq _ E0) as ->. specialize (Hops a Hin).
  assert (forall o', o = o' -> let s' := step p s t h o' in
            accs s' = accs s \/ (exists l, accs s' = l ++ accs s /\ exclusive_grant s s' t h /\
                                  forall b, In b l -> b = acc_of s' t h (akd b)) ->
            a = acc_of (step p s t h o) t h (akd a) /\ exclusive_grant s (step p s t h o) t h) as Hfin.
  { intros o' <-. cbn zeta. intros [E|(l & E & Hg & Hl)].
    - pose proof (Huniq [] E) as ->. destruct Hin.
    - pose proof (Huniq l E) as ->. split; [exact (Hl a Hin)|exact Hg]. }
  destruct (akd a) eqn:Ek; [congruence| |].
  - destruct Hops as [j [-> | ->]]; (apply and_assoc; split; [|eauto]); apply (Hfin _ eq_refl).
    + destruct (trymut_cases p s t h j Hp I) as [E|[E Hg]]; [now left|right]. eexists [_]. split; [exact E|]. split; [exact Hg|].
      intros b [<-|[]]. reflexivity.
    + destruct (unwrap_cases p s t h j Hp I) as [E|[E Hg]]; [now left|right]. eexists [_; _]. split; [exact E|]. split; [exact Hg|].
      intros b [<-|[<-|[]]]; reflexivity.
  - destruct Hops as [-> | [j ->]]; (apply and_assoc; split; [|eauto]); apply (Hfin _ eq_refl).
    + destruct (drop_cases p s t h Hp I) as [E|[E Hg]]; [now left|right]. eexists [_]. split; [exact E|]. split; [exact Hg|].
      intros b [<-|[]]. reflexivity.
    + destruct (unwrap_cases p s t h j Hp I) as [E|[E Hg]]; [now left|right]. eexists [_; _]. split; [exact E|]. split; [exact Hg|].
      intros b [<-|[<-|[]]]; reflexivity.
Qed.

(* the formulation by "the step records an access": a TryMut step that records an access is an exclusive grant ... *)
Corollary trymut_grant_exclusive p s t h j : sound_proto p = true -> Inv s ->
  length (accs (step p s t h (TryMut j))) = S (length (accs s)) ->
  accs (step p s t h (TryMut j)) = acc_of (step p s t h (TryMut j)) t h AW :: accs s /\
  exclusive_grant s (step p s t h (TryMut j)) t h.
Proof. intros Hp [I _ _ _] Hl. destruct (trymut_cases p s t h j Hp I) as [E|X]; [rewrite E in Hl; lia|exact X]. Qed.
(* ... and so is an Unwrap step that records anything (it then records the write and the free) *)
Corollary unwrap_grant_exclusive p s t h j : sound_proto p = true -> Inv s ->
  length (accs (step p s t h (Unwrap j))) > length (accs s) ->
  accs (step p s t h (Unwrap j)) = acc_of (step p s t h (Unwrap j)) t h AF :: acc_of (step p s t h (Unwrap j)) t h AW :: accs s /\
  exclusive_grant s (step p s t h (Unwrap j)) t h.
Proof. intros Hp [I _ _ _] Hl. destruct (unwrap_cases p s t h j Hp I) as [E|X]; [rewrite E in Hl; lia|exact X]. Qed.

(** Whole executions.  Every write or free access [a] found in the log after ANY schedule [sc] was recorded by one
    identifiable step of that schedule, [sc = sc1 ++ (atid a, ahnd a, o) :: sc2]; in the state reached by the prefix
    [sc1] the acting handle was the only alive handle, un-lent and owned by the acting thread, and every access recorded
    until then happens-before [a]. *)
Lemma nonread_origin : forall p, sound_proto p = true -> forall sc a, In a (accs (run p sc)) -> akd a <> AR ->
  exists sc1 o sc2, sc = sc1 ++ (atid a, ahnd a, o) :: sc2 /\
    let s := run p sc1 in let s' := step p s (atid a) (ahnd a) o in
    a = acc_of s' (atid a) (ahnd a) (akd a) /\ In a (accs s') /\ exclusive_grant s s' (atid a) (ahnd a) /\
    match akd a with
    | AR => False
    | AW => exists j, o = TryMut j \/ o = Unwrap j
    | AF => o = Drop \/ exists j, o = Unwrap j
    end.
Proof.
  intros p Hp sc a. induction sc as [|[[t h] o] sc IH] using rev_ind; intros Hin Hk; [destruct Hin|].
  rewrite run_snoc in Hin. destruct (step_new_accs p (run p sc) t h o) as (new & E & _). rewrite E in Hin.
  apply in_app_or in Hin as [Hin|Hin].
  - destruct (grant_exclusive p (run p sc) t h o new a Hp (inv_run p sc Hp) E Hin Hk) as (Ha & Hg & Hm).
    assert (atid a = t) as Et by (rewrite Ha; reflexivity). assert (ahnd a = h) as Eh by (rewrite Ha; reflexivity).
    exists sc, o, []. rewrite Et, Eh. split; [reflexivity|]. cbn zeta. split; [exact Ha|]. split; [|split; [exact Hg|exact Hm]].
    rewrite E. apply in_or_app. now left.
  - destruct (IH Hin Hk) as (sc1 & o1 & sc2 & -> & Rest). exists sc1, o1, (sc2 ++ [(t, h, o)]). split; [|exact Rest].
    rewrite <- app_assoc. reflexivity.
Qed.

Theorem mutation_is_exclusive : forall p, sound_proto p = true -> forall sc a, In a (accs (run p sc)) -> akd a = AW ->
  exists sc1 o sc2, sc = sc1 ++ (atid a, ahnd a, o) :: sc2 /\ (exists j, o = TryMut j \/ o = Unwrap j) /\
    let s := run p sc1 in let s' := step p s (atid a) (ahnd a) o in
    a = acc_of s' (atid a) (ahnd a) AW /\ In a (accs s') /\ exclusive_grant s s' (atid a) (ahnd a).
Proof.
  intros p Hp sc a Hin Hk. destruct (nonread_origin p Hp sc a Hin) as (sc1 & o & sc2 & E & X); [congruence|].
  cbn zeta in X. rewrite Hk in X. destruct X as (Ha & Hi & Hg & Hm). exists sc1, o, sc2. cbn zeta. auto.
Qed.

(** The release (the free access) likewise: it is made by the last [Drop] or by [Unwrap], by the holder of the only
    alive handle, after (happens-after) every access ever made; and it stays the most recent access of the log for
    ever -- no schedule continues with an access to the payload. *)
Theorem release_after_last_access : forall p, sound_proto p = true -> forall sc a, In a (accs (run p sc)) -> akd a = AF ->
  (exists sc1 o sc2, sc = sc1 ++ (atid a, ahnd a, o) :: sc2 /\ (o = Drop \/ exists j, o = Unwrap j) /\
     let s := run p sc1 in let s' := step p s (atid a) (ahnd a) o in
     a = acc_of s' (atid a) (ahnd a) AF /\ In a (accs s') /\ exclusive_grant s s' (atid a) (ahnd a)) /\
  exists l, accs (run p sc) = a :: l.
Proof.
  intros p Hp sc a Hin Hk. split.
  - destruct (nonread_origin p Hp sc a Hin) as (sc1 & o & sc2 & E & X); [congruence|].
    cbn zeta in X. rewrite Hk in X. destruct X as (Ha & Hi & Hg & Hm). exists sc1, o, sc2. cbn zeta. auto.
  - pose proof (inv_run p sc Hp) as I. pose proof (i_F _ (i_0 _ I) a Hin Hk) as Hf.
    destruct (i_L _ I Hf) as (b & l & El & Hb). pose proof (i_D _ I) as D. rewrite Hf in D. unfold nfree in D.
    rewrite El in *. exists l. f_equal. destruct Hin as [->|Hin]; [reflexivity|exfalso].
    cbn [filter] in D. unfold isAF at 1 in D. rewrite Hb in D. cbn [length] in D.
    assert (In a (filter isAF l)) as X by (apply filter_In; split; [exact Hin|unfold isAF; now rewrite Hk]).
    destruct (filter isAF l); [destruct X|cbn in D; lia].
Qed.

Print Assumptions race_free_all_schedules.
Print Assumptions freed_iff_no_handle.
Print Assumptions no_double_free.
Print Assumptions grant_exclusive.
Print Assumptions trymut_grant_exclusive.
Print Assumptions unwrap_grant_exclusive.
Print Assumptions mutation_is_exclusive.
Print Assumptions release_after_last_access.
