(** * Base: machine words, results, the panic monad, shared tactics.

    Conventions (DESIGN.md section 3): machine words are [N] with the wrap
    written out; [usize] values satisfy [x < W]; lengths of slices satisfy
    [len <= IMAX] (Rust's allocation invariant, listed in the trusted base). *)
From Coq Require Export List NArith ZArith Lia Bool.
From Coq Require Export ZifyBool ZifyN ZifyNat.
Export ListNotations.
Open Scope N_scope.

Arguments N.add : simpl never.
Arguments N.sub : simpl never.
Arguments N.mul : simpl never.
Arguments N.ltb : simpl never.
Arguments N.leb : simpl never.
Arguments N.eqb : simpl never.
Arguments N.pow : simpl never.
Arguments N.modulo : simpl never.
Arguments N.div : simpl never.
Arguments N.max : simpl never.
Arguments N.min : simpl never.

(** [usize] on the 64-bit targets the crate is checked on. *)
Definition W : N := 18446744073709551616.        (* 2^64 *)
Definition UMAX : N := 18446744073709551615.     (* usize::MAX *)
Definition IMAX : N := 9223372036854775807.      (* isize::MAX *)

Lemma W_eq : W = 2 ^ 64. Proof. reflexivity. Qed.
Lemma UMAX_eq : UMAX = W - 1. Proof. reflexivity. Qed.

(** A computation that may panic. *)
Inductive M (A : Type) : Type := Val (a : A) | Panic.
Arguments Val {A} a.
Arguments Panic {A}.

Definition bindM {A B} (m : M A) (f : A -> M B) : M B :=
  match m with Val a => f a | Panic => Panic end.

(** Rust's [Result]. *)
Inductive result (A E : Type) : Type := ROk (a : A) | RErr (e : E).
Arguments ROk {A E} a.
Arguments RErr {A E} e.

Definition ok_or {A E} (o : option A) (e : E) : result A E :=
  match o with Some a => ROk a | None => RErr e end.

(** Unchecked [+], [-], [*] on [usize]: panic when debug assertions
    (overflow checks) are on, wrap otherwise. *)
Definition add_w (dbg : bool) (a b : N) : M N :=
  if a + b <? W then Val (a + b) else if dbg then Panic else Val ((a + b) mod W).
Definition sub_w (dbg : bool) (a b : N) : M N :=
  if b <=? a then Val (a - b) else if dbg then Panic else Val ((W + a - b) mod W).
Definition mul_w (dbg : bool) (a b : N) : M N :=
  if a * b <? W then Val (a * b) else if dbg then Panic else Val ((a * b) mod W).

(** [checked_*], [saturating_*]. *)
Definition add_chk (a b : N) : option N := if a + b <? W then Some (a + b) else None.
Definition sub_chk (a b : N) : option N := if b <=? a then Some (a - b) else None.
Definition mul_chk (a b : N) : option N := if a * b <? W then Some (a * b) else None.
Definition sat_add (a b : N) : N := if a + b <? W then a + b else UMAX.
Definition sat_sub (a b : N) : N := if b <=? a then a - b else 0.

(** [core::ops::Bound<usize>]. *)
Inductive bound := Incl (n : N) | Excl (n : N) | Unb.
Definition bound_ok (b : bound) : Prop :=
  match b with Incl a | Excl a => a < W | Unb => True end.

(** Bytes are [N] below 256. *)
Definition byte := N.
Definition is_byte (b : N) : bool := b <? 256.
Definition bytes_ok (l : list N) : Prop := Forall (fun b => b < 256) l.

(** Sub-list [a, b). *)
Definition sub {A} (l : list A) (a b : N) : list A :=
  firstn (N.to_nat (b - a)) (skipn (N.to_nat a) l).
Definition len {A} (l : list A) : N := N.of_nat (length l).

Lemma len_app {A} (l1 l2 : list A) : len (l1 ++ l2) = len l1 + len l2.
Proof. unfold len. rewrite app_length. lia. Qed.
Lemma len_nil {A} : len (@nil A) = 0. Proof. reflexivity. Qed.
Lemma len_cons {A} (x : A) l : len (x :: l) = 1 + len l.
Proof. unfold len. cbn [length]. lia. Qed.
Lemma len_firstn {A} (l : list A) n : len (firstn n l) = N.min (N.of_nat n) (len l).
Proof. unfold len. rewrite firstn_length. lia. Qed.
Lemma len_skipn {A} (l : list A) n : len (skipn n l) = len l - N.of_nat n.
Proof. unfold len. rewrite skipn_length. lia. Qed.
Lemma len_sub {A} (l : list A) a b : a <= b -> b <= len l -> len (sub l a b) = b - a.
Proof. intros. unfold sub. rewrite len_firstn, len_skipn. lia. Qed.
Lemma sub_full {A} (l : list A) : sub l 0 (len l) = l.
Proof. unfold sub, len. cbn [N.to_nat skipn]. rewrite N.sub_0_r, Nat2N.id. apply firstn_all. Qed.

Ltac Zify.zify_post_hook ::= Z.div_mod_to_equations.

(** Case-splitting tactic for word-level functions: destruct every [if]
    condition and [match] scrutinee that is a variable-free-of-binders
    comparison, then [lia].  Written against operators, not term shapes, so
    it is reused unchanged for the generated-equals-hand lemmas. *)
Ltac split_ifs :=
  repeat match goal with
  | |- context [if ?c then _ else _] => destruct c eqn:?
  | H : context [if ?c then _ else _] |- _ => destruct c eqn:?
  end.

Ltac word_unfold :=
  unfold add_w, sub_w, mul_w, add_chk, sub_chk, mul_chk, sat_add, sat_sub, ok_or, bindM, W, UMAX, IMAX in *.
