(** * Concat: the two-pass concat / join of src/bytes.rs (C10), with an adversarial second traversal.

    The generic forms compute the length in a first traversal of a *cloned*
    iterator ([ps1]: what the length pass saw) and copy in a second one
    ([ps2]: what the copy pass sees).  A misbehaving Clone / Iterator / AsRef
    makes the two unrelated, so the model takes them as two arbitrary lists.
    The destination is the spare capacity of a fresh value of capacity
    [new_len]; the code writes it contiguously from the start (each copy
    begins where the previous one ended), so the buffer is described by the
    list of bytes [written] so far; [publish] is [set_len(new_len)]: the cells
    beyond what was written are uninitialised ([None]).
    [check_end = false] is the pinned code (only [end <= final] was asserted
    in the loop); [true] is the repaired code (also [end == final] after it). *)
From Hip Require Import Base Utf8.

Definition cells := list (option N).
Inductive cres := CVal (out : cells) | CPanic.

Fixpoint flat (ps : list (list N)) : list N :=
  match ps with [] => [] | p :: r => p ++ flat r end.
Fixpoint total_len (ps : list (list N)) : N :=
  match ps with [] => 0 | p :: r => len p + total_len r end.
Fixpoint intercalate (sep : list N) (ps : list (list N)) : list N :=
  match ps with
  | [] => []
  | p :: r => match r with [] => p | _ => p ++ sep ++ intercalate sep r end
  end.

Definition publish (new_len : N) (written : list N) : cells :=
  firstn (N.to_nat new_len) (map Some written ++ repeat None (N.to_nat (new_len - len written))).

(** the copy fold of [concat]: [None] = the in-loop assertion [end_ptr <= final_ptr] failed (panic) *)
Fixpoint copy_loop (final : N) (written : list N) (ps : list (list N)) : option (list N) :=
  match ps with
  | [] => Some written
  | p :: r => if len written + len p <=? final then copy_loop final (written ++ p) r else None
  end.

Definition concat_generic (check_end : bool) (ps1 ps2 : list (list N)) : cres :=
  let new_len := total_len ps1 in
  if new_len =? 0 then CVal []
  else match copy_loop new_len [] ps2 with
       | None => CPanic
       | Some w => if check_end && negb (len w =? new_len) then CPanic else CVal (publish new_len w)
       end.

(** the copy fold of [join] after the first piece: separator then piece, each guarded by the in-loop assertion *)
Fixpoint join_loop (final : N) (written : list N) (sep : list N) (ps : list (list N)) : option (list N) :=
  match ps with
  | [] => Some written
  | p :: r =>
    if len written + len sep <=? final then
      let w1 := written ++ sep in
      if len w1 + len p <=? final then join_loop final (w1 ++ p) sep r else None
    else None
  end.

Definition join_generic (check_end : bool) (ps1 ps2 : list (list N)) (sep : list N) : cres :=
  match ps1 with
  | [] => CVal []                                           (* segments == 0 *)
  | _ =>
    let new_len := (len ps1 - 1) * len sep + total_len ps1 in
    let copied :=
      match ps2 with
      | [] => Some []
      | first :: rest => if len first <=? new_len then join_loop new_len first sep rest else None
      end in
    match copied with
    | None => CPanic
    | Some w => if check_end && negb (len w =? new_len) then CPanic else CVal (publish new_len w)
    end
  end.

Definition all_init (c : cells) : bool := forallb (fun o => match o with Some _ => true | None => false end) c.
