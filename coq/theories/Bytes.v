(** * Bytes: executable model of the HipByt / HipStr machine (C01 C02 C03 C07 C09).

    Written function-by-function after src/smart.rs, src/bytes/raw.rs,
    src/bytes/raw/allocated.rs, src/bytes.rs, src/string.rs (after the fix:
    commits of DESIGN.md section 7).  Definitions only; the invariant and the
    theorems are in BytesInv.v / BytesRefine.v; the std-level specification
    is in BytesSpec.v. *)
From Hip Require Import Base Range Utf8 StrRange.

Definition INLINE_CAP : N := 23.

Inductive backend := BArc | BRc | BUnique.
Inductive hty := TByt | TStr.

(** One live owner [Inner<Vec<u8>>]: the Vec's initialised bytes, its capacity,
    the *stored* counter (shares - 1), and the shares held by parties outside
    the handle pool (only the force-count hook makes it non-zero). *)
Record block := mkBlock { vdata : list N; vcap : N; cnt : N; phantom : N }.

Inductive repr :=
| RInline (d : list N)
| RBorrowed (s off n : N)
| RAlloc (b off n : N).

(** [lin]: may be non-normalised because it descends from [with_capacity(n > 23)]. *)
Record handle := mkH { hrepr : repr; lin : bool }.

Record state := mkSt {
  hs : list (option handle);
  bs : list (option block);
  srcs : list (list N);        (* borrow sources: immutable, outlive every borrower *)
  n_alloc : N; n_free : N; n_realloc : N; n_leak : N;
  bad : bool                   (* sticky: a primitive was used outside its precondition (UB in Rust) *)
}.

Definition init : state := mkSt [] [] [] 0 0 0 0 false.

(** ** list plumbing *)
Fixpoint upd {A} (l : list A) (i : nat) (x : A) : list A :=
  match l, i with
  | [], _ => []
  | _ :: r, O => x :: r
  | y :: r, S i' => y :: upd r i' x
  end.

Definition nthN {A} (l : list (option A)) (i : N) : option A :=
  match nth_error l (N.to_nat i) with Some (Some x) => Some x | _ => None end.

Definition get_h (st : state) (h : N) : option handle := nthN (hs st) h.
Definition get_b (st : state) (b : N) : option block := nthN (bs st) b.
Definition get_src (st : state) (s : N) : list N := nth (N.to_nat s) (srcs st) [].

Definition set_hs (st : state) (x : list (option handle)) : state :=
  mkSt x (bs st) (srcs st) (n_alloc st) (n_free st) (n_realloc st) (n_leak st) (bad st).
Definition set_bs (st : state) (x : list (option block)) : state :=
  mkSt (hs st) x (srcs st) (n_alloc st) (n_free st) (n_realloc st) (n_leak st) (bad st).
Definition set_h (st : state) (h : N) (v : option handle) : state := set_hs st (upd (hs st) (N.to_nat h) v).
Definition set_b (st : state) (b : N) (v : option block) : state := set_bs st (upd (bs st) (N.to_nat b) v).
Definition add_alloc (st : state) (k : N) : state :=
  mkSt (hs st) (bs st) (srcs st) (n_alloc st + k) (n_free st) (n_realloc st) (n_leak st) (bad st).
Definition add_free (st : state) (k : N) : state :=
  mkSt (hs st) (bs st) (srcs st) (n_alloc st) (n_free st + k) (n_realloc st) (n_leak st) (bad st).
Definition add_realloc (st : state) (k : N) : state :=
  mkSt (hs st) (bs st) (srcs st) (n_alloc st) (n_free st) (n_realloc st + k) (n_leak st) (bad st).
Definition add_leak (st : state) (k : N) : state :=
  mkSt (hs st) (bs st) (srcs st) (n_alloc st) (n_free st) (n_realloc st) (n_leak st + k) (bad st).
Definition set_bad (st : state) : state :=
  mkSt (hs st) (bs st) (srcs st) (n_alloc st) (n_free st) (n_realloc st) (n_leak st) true.
Definition add_src (st : state) (x : list N) : state * N :=
  (mkSt (hs st) (bs st) (srcs st ++ [x]) (n_alloc st) (n_free st) (n_realloc st) (n_leak st) (bad st), len (srcs st)).

(** new handle / block ids are dense, in creation order *)
Definition new_h (st : state) (v : handle) : state * N := (set_hs st (hs st ++ [Some v]), len (hs st)).
Definition new_b (st : state) (v : block) : state * N := (set_bs st (bs st ++ [Some v]), len (bs st)).

(** ** Kind (src/smart.rs) on the stored value *)
Definition can_incr (bk : backend) (c : N) : bool :=
  match bk with BUnique => false | _ => c + 1 <? UMAX end.
Definition is_unique_c (bk : backend) (c : N) : bool :=
  match bk with BUnique => true | _ => c =? 0 end.
Definition kind_get (bk : backend) (c : N) : N :=
  match bk with BUnique => 1 | _ => c + 1 end.

(** ** views *)
Definition view_r (st : state) (r : repr) : list N :=
  match r with
  | RInline d => d
  | RBorrowed s off n => sub (get_src st s) off (off + n)
  | RAlloc b off n => match get_b st b with Some blk => sub (vdata blk) off (off + n) | None => [] end
  end.
Definition view (st : state) (h : N) : list N :=
  match get_h st h with Some hd => view_r st (hrepr hd) | None => [] end.
Definition rlen (r : repr) : N :=
  match r with RInline d => len d | RBorrowed _ _ n => n | RAlloc _ _ n => n end.
Definition is_alloc (r : repr) : bool := match r with RAlloc _ _ _ => true | _ => false end.
Definition is_inline (r : repr) : bool := match r with RInline _ => true | _ => false end.
Definition is_borrowed (r : repr) : bool := match r with RBorrowed _ _ _ => true | _ => false end.
Definition normalized (r : repr) : bool := is_inline r || is_borrowed r || (INLINE_CAP <? rlen r).

(** number of handles on block [b] *)
Definition points_to (b : N) (o : option handle) : bool :=
  match o with Some (mkH (RAlloc b' _ _) _) => b' =? b | _ => false end.
Fixpoint nrefs (b : N) (l : list (option handle)) : N :=
  match l with [] => 0 | o :: r => (if points_to b o then 1 else 0) + nrefs b r end.

(** ** Smart / Allocated transformers *)

(** [Allocated::new(vec)] + [Smart::new]: the box is always allocated; the buffer too unless an existing Vec is adopted ([adopt]) or the capacity is 0. *)
Definition buf_count (cap : N) : N := if cap =? 0 then 0 else 1.   (* a Vec owns a buffer iff its capacity is non-zero *)
Definition fresh_block (st : state) (data : list N) (cap : N) (adopt : bool) : state * N :=
  new_b (add_alloc st (1 + if adopt then 0 else buf_count cap)) (mkBlock data cap 0 0).

(** [Smart::drop] / [explicit_drop]: one share less; the last one frees box and buffer. *)
Definition detach (bk : backend) (st : state) (b : N) : state :=
  match get_b st b with
  | None => set_bad st
  | Some blk =>
    if is_unique_c bk (cnt blk)
    then add_free (set_b st b None) (1 + buf_count (vcap blk))
    else set_b st b (Some (mkBlock (vdata blk) (vcap blk) (cnt blk - 1) (phantom blk)))
  end.

(** [incr() == Done]: one more share. *)
Definition attach (st : state) (b : N) : state :=
  match get_b st b with
  | None => set_bad st
  | Some blk => set_b st b (Some (mkBlock (vdata blk) (vcap blk) (cnt blk + 1) (phantom blk)))
  end.

(** drop of a representation (what [impl Drop for HipByt] does) *)
Definition drop_repr (bk : backend) (st : state) (r : repr) : state :=
  match r with RAlloc b _ _ => detach bk st b | _ => st end.

(** [HipByt::from_slice] *)
Definition from_slice (st : state) (x : list N) : state * repr :=
  if len x <=? INLINE_CAP then (st, RInline x)
  else let '(st', b) := fresh_block st x (len x) false in (st', RAlloc b 0 (len x)).

(** [normalized_from_vec] of a Vec (data, cap) whose buffer exists iff [cap > 0]. *)
Definition from_vec (st : state) (x : list N) (cap : N) : state * repr :=
  if len x <=? INLINE_CAP then (add_free st (buf_count cap), RInline x)
  else let '(st', b) := fresh_block st x cap true in (st', RAlloc b 0 (len x)).

(** [Allocated::explicit_clone] / [slice_unchecked] on window [(off', n')] of block [b] (source view [v]) *)
Definition share_or_copy (bk : backend) (st : state) (b off' n' : N) (v : list N) : state * repr :=
  match get_b st b with
  | None => (set_bad st, RInline [])
  | Some blk =>
    if can_incr bk (cnt blk) then (attach st b, RAlloc b off' n')
    else let '(st', b') := fresh_block st v n' false in (st', RAlloc b' 0 n')
  end.

(** [Clone for HipByt] *)
Definition clone_repr (bk : backend) (st : state) (r : repr) : state * repr :=
  match r with
  | RAlloc b off n => share_or_copy bk st b off n (view_r st r)
  | _ => (st, r)
  end.

(** [range_unchecked(a..b)] with [a <= b <= len] *)
Definition range_repr (bk : backend) (st : state) (r : repr) (a b : N) : state * repr :=
  match r with
  | RInline d => (st, RInline (sub d a b))
  | RBorrowed s off n => (st, RBorrowed s (off + a) (b - a))
  | RAlloc blk off n =>
    if b - a <=? INLINE_CAP then (st, RInline (sub (view_r st r) a b))
    else share_or_copy bk st blk (off + a) (b - a) (sub (view_r st r) a b)
  end.

(** std's amortised growth for [Vec<u8>]: [RawVec::grow_amortized] *)
Definition grow (cap need : N) : N := N.max 8 (N.max (cap * 2) need).
(** capacity after making room for [add] more bytes in a Vec of length [l] and capacity [cap] *)
Definition reserve_cap (l cap add : N) : N := if cap - l <? add then grow cap (l + add) else cap.

(** ** the operations *)
Inductive vop := VPush (b : N) | VExtend (x : list N) | VTruncate (n : N) | VClear | VReserve (n : N) | VShrinkFit.

Inductive op :=
(* constructors *)
| ONew | OInline (x : list N) | OTryInline (x : list N) | OWithCapacity (n : N)
| OBorrowed (x : list N) | OFromSlice (x : list N) | OFromVec (x : list N) (extra : N)
| OFromUtf8 (x : list N)
(* sharing *)
| OClone (h : N) | OSlice (h : N) (s e : bound) | OTrySlice (h : N) (s e : bound)
| OSliceRef (h : N) (off n : N)                 (* a sub-slice of the value's own memory *)
| OSliceRefForeign (h : N) (try_ : bool)         (* a slice that is not part of the value *)
(* edits *)
| OPush (h : N) (c : N)                          (* byte for TByt, scalar value for TStr *)
| OPushSlice (h : N) (x : list N) | OPop (h : N) | OTruncate (h : N) (n : N) | OClear (h : N)
| OShrinkTo (h : N) (n : N) | OShrinkToFit (h : N)
| OAsMutWrite (h : N) (i : N) (b : N) | OToMutWrite (h : N) (i : N) (b : N)
| OMakeAscii (h : N) (upper : bool) | OToAscii (h : N) (upper : bool)
| ORepeat (h : N) (k : N)
| OMutate (h : N) (script : list vop) (leak : bool)
(* conversions *)
| OIntoOwned (h : N) | OIntoVec (h : N) | OVecFrom (h : N) | OIntoBorrowed (h : N) | OAsBorrowed (h : N)
(* lifetime and hooks *)
| ODrop (h : N) | OForceCount (h : N) (k : N) | ORestoreCount (h : N).

Inductive out :=
| UUnit | UNew (h : N) | UNone | USome (v : list N) | UByte (b : N)
| UErr (k : str_kind) (a b : N) | UPanic | USkip
| UVec (v : list N) (cap : N).

Definition result_t := (state * out)%type.

Definition mk_new (st : state) (r : repr) (l : bool) : result_t :=
  let '(st', h) := new_h st (mkH r l) in (st', UNew h).

(** replace the representation of [h] by [r] after dropping the old one *)
Definition assign (bk : backend) (st : state) (h : N) (old : repr) (r : repr) (l : bool) : state :=
  set_h (drop_repr bk st old) h (Some (mkH r l)).

Definition ascii_map (upper : bool) (l : list N) : list N := map (if upper then ascii_upper else ascii_lower) l.

Fixpoint repeat_list (v : list N) (k : nat) : list N :=
  match k with O => [] | S k' => v ++ repeat_list v k' end.

(** write [b] at position [i] of a list *)
Definition write_at (l : list N) (i : N) (b : N) : list N := upd l (N.to_nat i) b.

(** [make_unique]: returns the new state and representation (the handle entry is updated by the caller) *)
Definition make_unique (bk : backend) (st : state) (r : repr) : state * repr :=
  match r with
  | RInline _ => (st, r)
  | RBorrowed _ _ _ => from_slice st (view_r st r)
  | RAlloc b off n =>
    match get_b st b with
    | None => (set_bad st, r)
    | Some blk =>
      if is_unique_c bk (cnt blk) then (st, r)
      else
        let v := view_r st r in
        let '(st1, b') := fresh_block st v n false in
        (detach bk st1 b, RAlloc b' 0 n)
    end
  end.

(** write through a unique representation *)
Definition write_repr (st : state) (r : repr) (f : list N -> list N) : state * repr :=
  match r with
  | RInline d => (st, RInline (f d))
  | RBorrowed _ _ _ => (set_bad st, r)
  | RAlloc b off n =>
    match get_b st b with
    | None => (set_bad st, r)
    | Some blk =>
      let d := vdata blk in
      let d' := firstn (N.to_nat off) d ++ f (sub d off (off + n)) ++ skipn (N.to_nat (off + n)) d in
      (set_b st b (Some (mkBlock d' (vcap blk) (cnt blk) (phantom blk))), r)
    end
  end.

(** the Vec inside a [mutate] guard: (data, capacity); allocation events are counted on the state *)
Definition resize_events (st : state) (cap cap' : N) : state :=
  if cap' =? cap then st
  else if cap =? 0 then add_alloc st 1
  else if cap' =? 0 then add_free st 1
  else add_realloc st 1.

Definition vec_step (acc : state * (list N * N)) (o : vop) : state * (list N * N) :=
  let '(st, (d, cap)) := acc in
  let resize st cap' := resize_events st cap cap' in
  match o with
  | VPush b => let cap' := reserve_cap (len d) cap 1 in (resize st cap', (d ++ [b], cap'))
  | VExtend x => let cap' := reserve_cap (len d) cap (len x) in (resize st cap', (d ++ x, cap'))
  | VTruncate n => (st, (firstn (N.to_nat n) d, cap))
  | VClear => (st, ([], cap))
  | VReserve n => let cap' := reserve_cap (len d) cap n in (resize st cap', (d, cap'))
  | VShrinkFit => let cap' := if len d <? cap then len d else cap in (resize st cap', (d, cap'))
  end.

(** [take_vec]: the Vec handed to the guard; [h] becomes the empty inline value *)
Definition take_vec (bk : backend) (st : state) (h : N) (r : repr) : state * (list N * N) :=
  let v := view_r st r in
  let copy st := (add_alloc st (if len v =? 0 then 0 else 1), (v, len v)) in
  match r with
  | RAlloc b off n =>
    match get_b st b with
    | None => (set_bad st, ([], 0))
    | Some blk =>
      if (off =? 0) && is_unique_c bk (cnt blk)
      then (add_free (set_b st b None) 1, (firstn (N.to_nat n) (vdata blk), vcap blk))   (* try_into_vec = Ok: the box is freed, the buffer moves *)
      else let '(st1, vc) := copy st in (detach bk st1 b, vc)
    end
  | _ => copy st
  end.

Definition encode_char (ty : hty) (c : N) : list N := match ty with TByt => [c] | TStr => encode c end.

Definition simplify_ty (ty : hty) (v : list N) (s e : bound) : result (N * N) (N * N * str_kind) :=
  match ty with
  | TStr => str_try_slice v s e
  | TByt => match simplify s e (len v) with ROk r => ROk r | RErr (a, b, k) => RErr (a, b, lift_kind k) end
  end.

(** [HipByt::push_slice] *)
Definition do_push_slice (bk : backend) (st : state) (h : N) (hd : handle) (x : list N) : result_t :=
  let r := hrepr hd in let v := view_r st r in let nl := rlen r + len x in
  let fresh st0 old_is_alloc :=
    if nl <=? INLINE_CAP then (st0, RInline (v ++ x))
    else let '(st1, b') := fresh_block st0 (v ++ x) nl false in (st1, RAlloc b' 0 nl) in
  match r with
  | RAlloc b off n =>
    match get_b st b with
    | None => (set_bad st, UUnit)
    | Some blk =>
      if is_unique_c bk (cnt blk) then
        let d' := firstn (N.to_nat (off + n)) (vdata blk) ++ x in
        let cap' := reserve_cap (off + n) (vcap blk) (len x) in
        let st1 := resize_events st (vcap blk) cap' in
        (set_h (set_b st1 b (Some (mkBlock d' cap' (cnt blk) (phantom blk)))) h (Some (mkH (RAlloc b off nl) (lin hd))), UUnit)
      else let '(st1, r') := fresh st true in (assign bk st1 h r r' false, UUnit)
    end
  | _ => let '(st1, r') := fresh st false in (set_h st1 h (Some (mkH r' false)), UUnit)
  end.

(** [HipByt::truncate(m)] for [m < len] (the caller tests that) *)
Definition do_shorten (bk : backend) (st : state) (h : N) (r : repr) (m : N) : state :=
  if is_alloc r && (m <=? INLINE_CAP) then assign bk st h r (RInline (sub (view_r st r) 0 m)) false
  else match r with
       | RInline d => set_h st h (Some (mkH (RInline (sub d 0 m)) false))
       | RBorrowed s off _ => set_h st h (Some (mkH (RBorrowed s off m) false))
       | RAlloc b off _ => set_h st h (Some (mkH (RAlloc b off m) false))
       end.

(** [HipByt::shrink_to(m)] *)
Definition do_shrink_to (bk : backend) (st : state) (h : N) (hd : handle) (m : N) : result_t :=
  let r := hrepr hd in
  match r with
  | RAlloc b off n =>
    let mc := N.max m n in
    if INLINE_CAP <? mc then
      match get_b st b with
      | None => (set_bad st, UUnit)
      | Some blk =>
        if vcap blk <=? mc then (st, UUnit)
        else
          let v := view_r st r in
          let '(st1, b') := fresh_block st v mc false in
          (set_h (detach bk st1 b) h (Some (mkH (RAlloc b' 0 n) (lin hd))), UUnit)
      end
    else (assign bk st h r (RInline (view_r st r)) false, UUnit)
  | _ => (st, UUnit)
  end.

(** [Allocated::try_into_vec] succeeds: sole owner at offset 0 *)
Definition can_unwrap (bk : backend) (st : state) (r : repr) : bool :=
  match r with
  | RAlloc b off _ => match get_b st b with Some blk => (off =? 0) && is_unique_c bk (cnt blk) | None => false end
  | _ => false
  end.

(** in-place mutable access is granted *)
Definition grants_mut (bk : backend) (st : state) (r : repr) : bool :=
  match r with
  | RInline _ => true
  | RBorrowed _ _ _ => false
  | RAlloc b _ _ => match get_b st b with Some blk => is_unique_c bk (cnt blk) | None => false end
  end.

Definition step (bk : backend) (ty : hty) (st : state) (o : op) : result_t :=
  let with_h h (f : handle -> result_t) : result_t :=
    match get_h st h with Some hd => f hd | None => (st, USkip) end in
  match o with
  | ONew => mk_new st (RInline []) false
  | OInline x => if len x <=? INLINE_CAP then mk_new st (RInline x) false else (st, UPanic)
  | OTryInline x => if len x <=? INLINE_CAP then mk_new st (RInline x) false else (st, UNone)
  | OWithCapacity n =>
    if n <=? INLINE_CAP then mk_new st (RInline []) false
    else let '(st', b) := fresh_block st [] n false in mk_new st' (RAlloc b 0 0) true
  | OBorrowed x => let '(st', s) := add_src st x in mk_new st' (RBorrowed s 0 (len x)) false
  | OFromSlice x => let '(st', r) := from_slice st x in mk_new st' r false
  | OFromVec x extra =>
    (* Vec::with_capacity(|x| + extra) + extend: one buffer iff the capacity is non-zero *)
    let cap := len x + extra in
    let st0 := add_alloc st (if cap =? 0 then 0 else 1) in
    let '(st', r) := from_vec st0 x cap in mk_new st' r false
  | OFromUtf8 x =>
    match ty with
    | TByt => (st, USkip)
    | TStr => if valid x then let '(st', r) := from_slice st x in mk_new st' r false
              else ((if len x <=? INLINE_CAP then st else add_free (add_alloc st 2) 2), UErr SStartOutOfBounds 0 0)
    end
  | OClone h => with_h h (fun hd =>
      let '(st', r) := clone_repr bk st (hrepr hd) in mk_new st' r (lin hd && is_alloc r))
  | OSlice h s e => with_h h (fun hd =>
      match simplify_ty ty (view_r st (hrepr hd)) s e with
      | RErr _ => (st, UPanic)
      | ROk (a, b) => let '(st', r) := range_repr bk st (hrepr hd) a b in mk_new st' r false
      end)
  | OTrySlice h s e => with_h h (fun hd =>
      match simplify_ty ty (view_r st (hrepr hd)) s e with
      | RErr (a, b, k) => (st, UErr k a b)
      | ROk (a, b) => let '(st', r) := range_repr bk st (hrepr hd) a b in mk_new st' r false
      end)
  | OSliceRef h off n => with_h h (fun hd =>
      if off + n <=? rlen (hrepr hd)
      then let '(st', r) := range_repr bk st (hrepr hd) off (off + n) in mk_new st' r false
      else (st, USkip))
  | OSliceRefForeign h try_ => with_h h (fun hd => (st, if try_ then UNone else UPanic))
  | OPush h c => with_h h (fun hd => do_push_slice bk st h hd (encode_char ty c))
  | OPushSlice h x => with_h h (fun hd => do_push_slice bk st h hd x)
  | OPop h => with_h h (fun hd =>
      let r := hrepr hd in let v := view_r st r in let n := rlen r in
      if n =? 0 then (st, UNone) else
      let cut := match ty with TByt => n - 1 | TStr => last_start v end in
      (do_shorten bk st h r cut, USome (sub v cut n)))
  | OTruncate h m => with_h h (fun hd =>
      let r := hrepr hd in let v := view_r st r in let n := rlen r in
      if (match ty with TStr => (m <=? n) && negb (is_char_boundary v m) | TByt => false end) then (st, UPanic)
      else if m <? n then (do_shorten bk st h r m, UUnit) else (st, UUnit))
  | OClear h => with_h h (fun hd =>
      let r := hrepr hd in
      if 0 <? rlen r then (do_shorten bk st h r 0, UUnit) else (st, UUnit))
  | OShrinkTo h m => with_h h (fun hd => do_shrink_to bk st h hd m)
  | OShrinkToFit h => with_h h (fun hd => do_shrink_to bk st h hd (rlen (hrepr hd)))
  | OAsMutWrite h i b => with_h h (fun hd =>
      let r := hrepr hd in
      if grants_mut bk st r then
        if i <? rlen r then
          let '(st', r') := write_repr st r (fun d => write_at d i b) in (set_h st' h (Some (mkH r' (lin hd))), USome [])
        else (st, USome [])
      else (st, UNone))
  | OToMutWrite h i b => with_h h (fun hd =>
      let '(st1, r1) := make_unique bk st (hrepr hd) in
      let l1 := lin hd && is_alloc r1 in
      if i <? rlen r1 then
        let '(st2, r2) := write_repr st1 r1 (fun d => write_at d i b) in (set_h st2 h (Some (mkH r2 l1)), UUnit)
      else (set_h st1 h (Some (mkH r1 l1)), UUnit))
  | OMakeAscii h upper => with_h h (fun hd =>
      let '(st1, r1) := make_unique bk st (hrepr hd) in
      let l1 := lin hd && is_alloc r1 in
      let '(st2, r2) := write_repr st1 r1 (ascii_map upper) in (set_h st2 h (Some (mkH r2 l1)), UUnit))
  | OToAscii h upper => with_h h (fun hd =>
      let '(st0, r0) := clone_repr bk st (hrepr hd) in
      let '(st1, r1) := make_unique bk st0 r0 in
      let l1 := lin hd && is_alloc r1 in
      let '(st2, r2) := write_repr st1 r1 (ascii_map upper) in mk_new st2 r2 l1)
  | ORepeat h k => with_h h (fun hd =>
      let r := hrepr hd in let v := view_r st r in let n := rlen r in
      if (n =? 0) || (k =? 1) then
        let '(st', r') := clone_repr bk st r in mk_new st' r' (lin hd && is_alloc r')
      else if IMAX <? n * k then (st, UPanic)
      else if n * k <=? INLINE_CAP then mk_new st (RInline (repeat_list v (N.to_nat k))) false
      else let '(st1, b') := fresh_block st (repeat_list v (N.to_nat k)) (n * k) false in mk_new st1 (RAlloc b' 0 (n * k)) false)
  | OMutate h script leak => with_h h (fun hd =>
      let '(st1, vc) := take_vec bk st h (hrepr hd) in
      let st2 := set_h st1 h (Some (mkH (RInline []) false)) in
      let '(st3, (d, cap)) := fold_left vec_step script (st2, vc) in
      if leak then (add_leak st3 (if cap =? 0 then 0 else 1), UUnit)
      else let '(st4, r) := from_vec st3 d cap in (set_h st4 h (Some (mkH r false)), UUnit))
  | OIntoOwned h => with_h h (fun hd =>
      match hrepr hd with
      | RBorrowed _ _ _ =>
        let '(st', r) := from_slice st (view_r st (hrepr hd)) in (set_h st' h (Some (mkH r false)), UUnit)
      | _ => (st, UUnit)
      end)
  | OIntoVec h => with_h h (fun hd =>
      match hrepr hd with
      | RAlloc b off n =>
        match get_b st b with
        | None => (set_bad st, UNone)
        | Some blk =>
          if (off =? 0) && is_unique_c bk (cnt blk)
          then (* Ok(vec): box freed now, the Vec is dropped by the caller right after being read *)
            (add_free (set_h (set_b st b None) h None) (1 + buf_count (vcap blk)), UVec (firstn (N.to_nat n) (vdata blk)) (vcap blk))
          else (st, UNone)
        end
      | _ => (st, UNone)
      end)
  | OVecFrom h => with_h h (fun hd =>
      let r := hrepr hd in let v := view_r st r in
      let copy st := add_free (add_alloc st (if len v =? 0 then 0 else 1)) (if len v =? 0 then 0 else 1) in
      match r with
      | RAlloc b off n =>
        match get_b st b with
        | None => (set_bad st, UNone)
        | Some blk =>
          if (off =? 0) && is_unique_c bk (cnt blk)
          then (add_free (set_h (set_b st b None) h None) (1 + buf_count (vcap blk)), UVec (firstn (N.to_nat n) (vdata blk)) (vcap blk))
          else (set_h (detach bk (copy st) b) h None, UVec v (len v))
        end
      | _ => (set_h (copy st) h None, UVec v (len v))
      end)
  | OIntoBorrowed h => with_h h (fun hd =>
      match hrepr hd with
      | RBorrowed _ _ _ => (set_h st h None, USome (view_r st (hrepr hd)))
      | _ => (st, UNone)
      end)
  | OAsBorrowed h => with_h h (fun hd =>
      match hrepr hd with
      | RBorrowed _ _ _ => (st, USome (view_r st (hrepr hd)))
      | _ => (st, UNone)
      end)
  | ODrop h => with_h h (fun hd => (set_h (drop_repr bk st (hrepr hd)) h None, UUnit))
  | OForceCount h k => with_h h (fun hd =>
      match hrepr hd, bk with
      | RAlloc b _ _, BUnique => (st, USkip)
      | RAlloc b _ _, _ =>
        match get_b st b with
        | None => (set_bad st, UUnit)
        | Some blk =>
          let c := UMAX - 1 - k in
          (set_b st b (Some (mkBlock (vdata blk) (vcap blk) c (c + 1 - nrefs b (hs st)))), UUnit)
        end
      | _, _ => (st, USkip)
      end)
  | ORestoreCount h => with_h h (fun hd =>
      match hrepr hd, bk with
      | RAlloc b _ _, BUnique => (st, USkip)
      | RAlloc b _ _, _ =>
        match get_b st b with
        | None => (set_bad st, UUnit)
        | Some blk => (set_b st b (Some (mkBlock (vdata blk) (vcap blk) (nrefs b (hs st) - 1) 0)), UUnit)
        end
      | _, _ => (st, USkip)
      end)
  end.

(** a run: the outputs in order, and the final state *)
Fixpoint run (bk : backend) (ty : hty) (st : state) (ops : list op) : state * list out :=
  match ops with
  | [] => (st, [])
  | o :: r => let '(st1, u) := step bk ty st o in let '(st2, us) := run bk ty st1 r in (st2, u :: us)
  end.

(** ** what the correspondence check observes of a state (hook level) *)
Record obs := mkObs {
  o_id : N; o_tag : N (* 1 inline, 2 borrowed, 3 allocated *); o_bytes : list N;
  o_where : N (* alloc: least handle id on the same block; borrowed: source id; inline: 0 *);
  o_off : N; o_count : N (* Kind::get, 0 if not allocated *);
  o_vlen : N; o_cap : N; o_norm : bool
}.

Fixpoint first_on (b : N) (l : list (option handle)) (i : N) : N :=
  match l with
  | [] => i
  | o :: r => if points_to b o then i else first_on b r (i + 1)
  end.

Definition observe_h (bk : backend) (st : state) (i : N) (hd : handle) : obs :=
  let r := hrepr hd in
  match r with
  | RInline d => mkObs i 1 d 0 0 0 0 INLINE_CAP true
  | RBorrowed s off n => mkObs i 2 (view_r st r) s off 0 0 n true
  | RAlloc b off n =>
    match get_b st b with
    | Some blk => mkObs i 3 (view_r st r) (first_on b (hs st) 0) off (kind_get bk (cnt blk)) (len (vdata blk)) (vcap blk) (normalized r)
    | None => mkObs i 3 [] 0 off 0 0 0 false
    end
  end.

Fixpoint observe_from (bk : backend) (st : state) (l : list (option handle)) (i : N) : list obs :=
  match l with
  | [] => []
  | None :: r => observe_from bk st r (i + 1)
  | Some hd :: r => observe_h bk st i hd :: observe_from bk st r (i + 1)
  end.
Definition observe (bk : backend) (st : state) : list obs := observe_from bk st (hs st) 0.

Definition live_blocks (st : state) : N := len (filter (fun o => match o with Some _ => true | None => false end) (bs st)).
