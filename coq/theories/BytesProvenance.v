(** * BytesProvenance: dynamic provenance of borrowed views (C17 b, "borrowed data cannot escape").

    A value whose representation borrows from a source [s] can only be
    - the result of the borrow constructor that created [s], or
    - a value that already borrowed from [s] before the step, or
    - a value derived (clone / slice / sub-slice adoption) by the step from a value that borrowed from [s].
    No operation turns an owned or inline value into a borrowing one, none re-targets a borrowed view to another
    source, and [into_owned] always yields a value that borrows from nothing.  In the Rust signatures exactly these
    derivations carry the ['borrow] lifetime of their subject; every other result type is free of it only where the
    model shows the value does not borrow. *)
From Hip Require Import Base Range Utf8 StrRange Bytes BytesSpec BytesInv BytesLib.
Open Scope N_scope.

Definition borrows (st : state) (h : N) : option N :=
  match get_h st h with
  | Some hd => match hrepr hd with RBorrowed s _ _ => Some s | _ => None end
  | None => None
  end.

(** the handle an operation reads or edits *)
Definition subject (o : op) : option N :=
  match o with
  | OClone h | OSlice h _ _ | OTrySlice h _ _ | OSliceRef h _ _ | OSliceRefForeign h _
  | OPush h _ | OPushSlice h _ | OPop h | OTruncate h _ | OClear h | OShrinkTo h _ | OShrinkToFit h
  | OAsMutWrite h _ _ | OToMutWrite h _ _ | OMakeAscii h _ | OToAscii h _ | ORepeat h _ | OMutate h _ _
  | OIntoOwned h | OIntoVec h | OVecFrom h | OIntoBorrowed h | OAsBorrowed h
  | ODrop h | OForceCount h _ | ORestoreCount h => Some h
  | _ => None
  end.


(** Status: the five statements below ([borrow_provenance_step], [sources_only_grow], [into_owned_borrows_nothing],
    [borrow_provenance_run], [no_borrow_constructor_no_borrow]) are proved exactly as first stated, without the machine
    invariant [Inv]: they are frame properties of [step].  Plan: (1) every helper leaves [hs]/[srcs] alone ([same]) and
    returns a representation whose source ([rsrc]) is the subject's or none; (2) the in-place editors change the pool at
    most at their handle ([edits]); (3) [step_shape] classifies every step as "pool unchanged / one entry overwritten /
    one entry appended", with the new source list [srcs st ++ new_src o]; (4) the run-level invariant [prov_inv]. *)

(** ** the source a representation / a pool entry borrows from *)
Definition rsrc (r : repr) : option N := match r with RBorrowed s _ _ => Some s | _ => None end.
Definition osrc (o : option handle) : option N := match o with Some hd => rsrc (hrepr hd) | None => None end.

Lemma borrows_osrc st h : borrows st h = osrc (get_h st h).
Proof. reflexivity. Qed.

(** ** helpers leave the handle pool and the sources alone *)
Definition same (st st' : state) : Prop := hs st' = hs st /\ srcs st' = srcs st.

Lemma same_refl st : same st st.
Proof. split; reflexivity. Qed.
Lemma same_trans a b c : same a b -> same b c -> same a c.
Proof. intros [H1 S1] [H2 S2]. split; congruence. Qed.

Ltac solve_same := unfold same in *; sproj; intuition congruence.

Lemma same_fresh_block st d c a st' b : fresh_block st d c a = (st', b) -> same st st'.
Proof. unfold fresh_block, new_b. intros H; inversion H; subst. split; reflexivity. Qed.

Lemma same_detach bk st b : same st (detach bk st b).
Proof. unfold detach. destruct (get_b st b); [destruct (is_unique_c _ _)|]; split; reflexivity. Qed.

Lemma same_attach st b : same st (attach st b).
Proof. unfold attach. destruct (get_b st b); split; reflexivity. Qed.

Lemma same_drop_repr bk st r : same st (drop_repr bk st r).
Proof. destruct r; cbn [drop_repr]; try apply same_refl. apply same_detach. Qed.

Lemma same_resize_events st c c' : same st (resize_events st c c').
Proof. unfold resize_events. repeat destruct (_ =? _); split; reflexivity. Qed.

Lemma from_slice_prov st x st' r : from_slice st x = (st', r) -> same st st' /\ rsrc r = None.
Proof.
  unfold from_slice. destruct (_ <=? _).
  - inversion 1; subst. split; [apply same_refl | reflexivity].
  - destruct (fresh_block _ _ _ _) as [st1 b] eqn:E. inversion 1; subst.
    split; [eapply same_fresh_block; exact E | reflexivity].
Qed.

Lemma from_vec_prov st x cap st' r : from_vec st x cap = (st', r) -> same st st' /\ rsrc r = None.
Proof.
  unfold from_vec. destruct (_ <=? _).
  - inversion 1; subst. split; [split; reflexivity | reflexivity].
  - destruct (fresh_block _ _ _ _) as [st1 b] eqn:E. inversion 1; subst.
    split; [eapply same_fresh_block; exact E | reflexivity].
Qed.

Lemma share_or_copy_prov bk st b off n v st' r :
  share_or_copy bk st b off n v = (st', r) -> same st st' /\ rsrc r = None.
Proof.
  unfold share_or_copy. destruct (get_b st b) as [blk|].
  - destruct (can_incr _ _).
    + inversion 1; subst. split; [apply same_attach | reflexivity].
    + destruct (fresh_block _ _ _ _) as [st1 b'] eqn:E. inversion 1; subst.
      split; [eapply same_fresh_block; exact E | reflexivity].
  - inversion 1; subst. split; [split; reflexivity | reflexivity].
Qed.

(** clone and slice keep the source of their subject (and never invent one) *)
Lemma clone_repr_prov bk st r st' r' : clone_repr bk st r = (st', r') -> same st st' /\ rsrc r' = rsrc r.
Proof.
  destruct r as [d|s off n|b off n]; cbn [clone_repr].
  - inversion 1; subst. split; [apply same_refl | reflexivity].
  - inversion 1; subst. split; [apply same_refl | reflexivity].
  - intros H. apply share_or_copy_prov in H. exact H.
Qed.

Lemma range_repr_prov bk st r a b st' r' : range_repr bk st r a b = (st', r') -> same st st' /\ rsrc r' = rsrc r.
Proof.
  destruct r as [d|s off n|blk off n]; cbn [range_repr].
  - inversion 1; subst. split; [apply same_refl | reflexivity].
  - inversion 1; subst. split; [apply same_refl | reflexivity].
  - destruct (_ <=? _).
    + inversion 1; subst. split; [apply same_refl | reflexivity].
    + intros H. apply share_or_copy_prov in H. exact H.
Qed.

(** make_unique never yields a borrowing representation *)
Lemma make_unique_prov bk st r st' r' : make_unique bk st r = (st', r') -> same st st' /\ rsrc r' = None.
Proof.
  destruct r as [d|s off n|b off n]; cbn [make_unique].
  - inversion 1; subst. split; [apply same_refl | reflexivity].
  - apply from_slice_prov.
  - destruct (get_b st b) as [blk|].
    + destruct (is_unique_c _ _).
      * inversion 1; subst. split; [apply same_refl | reflexivity].
      * cbv zeta. destruct (fresh_block _ _ _ _) as [st1 b'] eqn:E. inversion 1; subst.
        split; [|reflexivity]. eapply same_trans; [eapply same_fresh_block; exact E | apply same_detach].
    + inversion 1; subst. split; [split; reflexivity | reflexivity].
Qed.

Lemma write_repr_prov st r f st' r' : write_repr st r f = (st', r') -> same st st' /\ rsrc r' = rsrc r.
Proof.
  destruct r as [d|s off n|b off n]; cbn [write_repr].
  - inversion 1; subst. split; [apply same_refl | reflexivity].
  - inversion 1; subst. split; [split; reflexivity | reflexivity].
  - destruct (get_b st b) as [blk|]; cbv zeta; inversion 1; subst; (split; [split; reflexivity | reflexivity]).
Qed.

Lemma take_vec_prov bk st h r st' vc : take_vec bk st h r = (st', vc) -> same st st'.
Proof.
  unfold take_vec. cbv beta zeta. destruct r as [d|s off n|b off n].
  - inversion 1; subst. split; reflexivity.
  - inversion 1; subst. split; reflexivity.
  - destruct (get_b st b) as [blk|].
    + destruct (_ && _).
      * inversion 1; subst. split; reflexivity.
      * inversion 1; subst. eapply same_trans; [|apply same_detach]. split; reflexivity.
    + inversion 1; subst. split; reflexivity.
Qed.

Lemma vec_step_prov acc o : same (fst acc) (fst (vec_step acc o)).
Proof.
  destruct acc as [st [d cap]]. destruct o; cbn [vec_step fst]; try apply same_refl; apply same_resize_events.
Qed.

Lemma vec_script_prov script acc : same (fst acc) (fst (fold_left vec_step script acc)).
Proof.
  revert acc; induction script as [|o script IH]; intros acc; cbn [fold_left]; [apply same_refl|].
  eapply same_trans; [apply vec_step_prov | apply IH].
Qed.

Lemma upd_upd {A} (l : list A) i x y : upd (upd l i x) i y = upd l i y.
Proof. revert i; induction l as [|a l IH]; intros [|i]; cbn [upd]; auto. f_equal. auto. Qed.

(** ** the in-place editors: the handle pool changes at most at [h], to a value that borrows from nothing
    or from what [h] borrowed from *)
Definition edits (st : state) (h : N) (r : repr) (st' : state) : Prop :=
  srcs st' = srcs st /\
  (hs st' = hs st \/ exists v, hs st' = upd (hs st) (N.to_nat h) v /\ (osrc v = None \/ osrc v = rsrc r)).

Lemma edits_same st h r st' : same st st' -> edits st h r st'.
Proof. intros [H S]. split; [exact S | left; exact H]. Qed.

Lemma edits_set_h st st1 h r v :
  same st st1 -> (osrc v = None \/ osrc v = rsrc r) -> edits st h r (set_h st1 h v).
Proof.
  intros [H S] Hv. split; [exact S|]. right. exists v. split; [|exact Hv]. unfold set_h; sproj. rewrite H. reflexivity.
Qed.

Lemma edits_assign bk st st1 h r old r' l :
  same st st1 -> (rsrc r' = None \/ rsrc r' = rsrc r) -> edits st h r (assign bk st1 h old r' l).
Proof.
  intros S Hv. unfold assign. apply edits_set_h; [|exact Hv].
  eapply same_trans; [exact S | apply same_drop_repr].
Qed.

Lemma do_push_slice_prov bk st h hd x st' u r0 :
  do_push_slice bk st h hd x = (st', u) -> edits st h r0 st'.
Proof.
  intros H. unfold do_push_slice in H. cbv beta zeta in H.
  destruct (hrepr hd) as [d|s off n|b off n] eqn:R.
  - destruct (_ <=? _) in H.
    + inversion H; subst. apply edits_set_h; [apply same_refl | left; reflexivity].
    + destruct (fresh_block _ _ _ _) as [st1 b'] eqn:E. apply same_fresh_block in E.
      inversion H; subst. apply edits_set_h; [exact E | left; reflexivity].
  - destruct (_ <=? _) in H.
    + inversion H; subst. apply edits_set_h; [apply same_refl | left; reflexivity].
    + destruct (fresh_block _ _ _ _) as [st1 b'] eqn:E. apply same_fresh_block in E.
      inversion H; subst. apply edits_set_h; [exact E | left; reflexivity].
  - destruct (get_b st b) as [blk|].
    + destruct (is_unique_c _ _).
      * inversion H; subst. apply edits_set_h; [|left; reflexivity].
        eapply same_trans; [apply same_resize_events | split; reflexivity].
      * destruct (_ <=? _) in H.
        -- inversion H; subst. apply edits_assign; [apply same_refl | left; reflexivity].
        -- destruct (fresh_block _ _ _ _) as [st1 b'] eqn:E. apply same_fresh_block in E.
           inversion H; subst. apply edits_assign; [exact E | left; reflexivity].
    + inversion H; subst. apply edits_same. split; reflexivity.
Qed.

Lemma do_shorten_prov bk st h r m : edits st h r (do_shorten bk st h r m).
Proof.
  unfold do_shorten. destruct (_ && _).
  - apply edits_assign; [apply same_refl | left; reflexivity].
  - destruct r as [d|s off n|b off n]; (apply edits_set_h; [apply same_refl|]).
    + left; reflexivity.
    + right; reflexivity.
    + left; reflexivity.
Qed.

Lemma do_shrink_to_prov bk st h hd m st' u :
  do_shrink_to bk st h hd m = (st', u) -> edits st h (hrepr hd) st'.
Proof.
  intros H. unfold do_shrink_to in H. cbv beta zeta in H.
  destruct (hrepr hd) as [d|s off n|b off n] eqn:R.
  - inversion H; subst. apply edits_same, same_refl.
  - inversion H; subst. apply edits_same, same_refl.
  - destruct (_ <? _) in H.
    + destruct (get_b st b) as [blk|].
      * destruct (_ <=? _) in H.
        -- inversion H; subst. apply edits_same, same_refl.
        -- destruct (fresh_block _ _ _ _) as [st1 b'] eqn:E. apply same_fresh_block in E.
           inversion H; subst. apply edits_set_h; [|left; reflexivity].
           eapply same_trans; [exact E | apply same_detach].
      * inversion H; subst. apply edits_same. split; reflexivity.
    + inversion H; subst. apply edits_assign; [apply same_refl | left; reflexivity].
Qed.

Lemma mk_new_prov st r l st' u : mk_new st r l = (st', u) -> hs st' = hs st ++ [Some (mkH r l)] /\ srcs st' = srcs st.
Proof. unfold mk_new, new_h. inversion 1; subst. split; reflexivity. Qed.

(** ** the shape of one step on the handle pool and on the sources *)
Definition new_src (o : op) : list (list N) := match o with OBorrowed x => [x] | _ => [] end.

Inductive shape (st : state) (o : op) (st' : state) : Prop :=
| sh_same : hs st' = hs st -> shape st o st'
| sh_upd p hd v :
    subject o = Some p -> get_h st p = Some hd -> hs st' = upd (hs st) (N.to_nat p) v ->
    (osrc v = None \/ osrc v = rsrc (hrepr hd)) -> shape st o st'
| sh_new r l :
    hs st' = hs st ++ [Some (mkH r l)] ->
    (rsrc r = None
     \/ (exists p hd, subject o = Some p /\ get_h st p = Some hd /\ rsrc r = rsrc (hrepr hd))
     \/ (exists x, o = OBorrowed x /\ rsrc r = Some (len (srcs st)))) ->
    shape st o st'.

Definition stepped (st : state) (o : op) (st' : state) : Prop :=
  srcs st' = srcs st ++ new_src o /\ shape st o st'.

Lemma close_same st o st' : same st st' -> new_src o = [] -> stepped st o st'.
Proof. intros [H S] E. split; [rewrite E, app_nil_r; exact S | apply sh_same; exact H]. Qed.

Lemma close_edit st o st' p hd :
  subject o = Some p -> get_h st p = Some hd -> edits st p (hrepr hd) st' -> new_src o = [] -> stepped st o st'.
Proof.
  intros Hs Hh [S [H|[v [H Hv]]]] E; (split; [rewrite E, app_nil_r; exact S|]).
  - apply sh_same; exact H.
  - eapply sh_upd; eauto.
Qed.

Lemma close_new st o st1 r l st' u :
  same st st1 -> mk_new st1 r l = (st', u) -> new_src o = [] ->
  (rsrc r = None \/ exists p hd, subject o = Some p /\ get_h st p = Some hd /\ rsrc r = rsrc (hrepr hd)) ->
  stepped st o st'.
Proof.
  intros [H S] M E Hr. apply mk_new_prov in M. destruct M as [M1 M2].
  split; [rewrite E, app_nil_r; congruence|].
  apply (sh_new _ _ _ r l); [congruence|]. destruct Hr as [Hr|Hr]; [left; exact Hr | right; left; exact Hr].
Qed.

Ltac fin_same H := inversion H; subst; apply close_same; [solve [apply same_refl | split; reflexivity | solve_same] | reflexivity].

Tactic Notation "no_handle" hyp(H) constr(h) ident(hd) ident(Hh) :=
  destruct (get_h _ h) as [hd|] eqn:Hh; [| fin_same H].

Lemma step_shape bk ty st o st' u : step bk ty st o = (st', u) -> stepped st o st'.
Proof.
  intros H. destruct o; cbv beta iota zeta delta [step] in H.
  - (* ONew *) eapply close_new; [apply same_refl | exact H | reflexivity | left; reflexivity].
  - (* OInline *) destruct (_ <=? _) in H; [|fin_same H].
    eapply close_new; [apply same_refl | exact H | reflexivity | left; reflexivity].
  - (* OTryInline *) destruct (_ <=? _) in H; [|fin_same H].
    eapply close_new; [apply same_refl | exact H | reflexivity | left; reflexivity].
  - (* OWithCapacity *) destruct (_ <=? _) in H.
    + eapply close_new; [apply same_refl | exact H | reflexivity | left; reflexivity].
    + destruct (fresh_block _ _ _ _) as [st1 b] eqn:E. apply same_fresh_block in E.
      eapply close_new; [exact E | exact H | reflexivity | left; reflexivity].
  - (* OBorrowed *) unfold add_src, mk_new, new_h in H. inversion H; subst. split; [reflexivity|].
    eapply sh_new; [reflexivity|]. right; right. exists x. split; reflexivity.
  - (* OFromSlice *) destruct (from_slice _ _) as [st1 r1] eqn:E. apply from_slice_prov in E. destruct E as [S R].
    eapply close_new; [exact S | exact H | reflexivity | left; exact R].
  - (* OFromVec *) destruct (from_vec _ _ _) as [st1 r1] eqn:E. apply from_vec_prov in E. destruct E as [S R].
    eapply close_new; [|exact H | reflexivity | left; exact R]. solve_same.
  - (* OFromUtf8 *) destruct ty; [fin_same H|]. destruct (valid x).
    + destruct (from_slice _ _) as [st1 r1] eqn:E. apply from_slice_prov in E. destruct E as [S R].
      eapply close_new; [exact S | exact H | reflexivity | left; exact R].
    + destruct (_ <=? _) in H; fin_same H.
  - (* OClone *) no_handle H h hd Hh.
    destruct (clone_repr _ _ _) as [st1 r1] eqn:E. apply clone_repr_prov in E. destruct E as [S R].
    eapply close_new; [exact S | exact H | reflexivity | right; exists h, hd; auto].
  - (* OSlice *) no_handle H h hd Hh.
    destruct (simplify_ty _ _ _ _) as [[a b]|err]; [|fin_same H].
    destruct (range_repr _ _ _ _ _) as [st1 r1] eqn:E. apply range_repr_prov in E. destruct E as [S R].
    eapply close_new; [exact S | exact H | reflexivity | right; exists h, hd; auto].
  - (* OTrySlice *) no_handle H h hd Hh.
    destruct (simplify_ty _ _ _ _) as [[a b]|[[a b] k]]; [|fin_same H].
    destruct (range_repr _ _ _ _ _) as [st1 r1] eqn:E. apply range_repr_prov in E. destruct E as [S R].
    eapply close_new; [exact S | exact H | reflexivity | right; exists h, hd; auto].
  - (* OSliceRef *) no_handle H h hd Hh.
    destruct (_ <=? _) in H; [|fin_same H].
    destruct (range_repr _ _ _ _ _) as [st1 r1] eqn:E. apply range_repr_prov in E. destruct E as [S R].
    eapply close_new; [exact S | exact H | reflexivity | right; exists h, hd; auto].
  - (* OSliceRefForeign *) no_handle H h hd Hh. fin_same H.
  - (* OPush *) no_handle H h hd Hh. eapply close_edit; [reflexivity | exact Hh | eapply do_push_slice_prov; exact H | reflexivity].
  - (* OPushSlice *) no_handle H h hd Hh. eapply close_edit; [reflexivity | exact Hh | eapply do_push_slice_prov; exact H | reflexivity].
  - (* OPop *) no_handle H h hd Hh.
    destruct (_ =? _) in H; [fin_same H|]. inversion H; subst.
    eapply close_edit; [reflexivity | exact Hh | apply do_shorten_prov | reflexivity].
  - (* OTruncate *) no_handle H h hd Hh.
    match type of H with (if ?c then _ else _) = _ => destruct c end; [fin_same H|].
    destruct (_ <? _) in H; [|fin_same H]. inversion H; subst.
    eapply close_edit; [reflexivity | exact Hh | apply do_shorten_prov | reflexivity].
  - (* OClear *) no_handle H h hd Hh.
    destruct (_ <? _) in H; [|fin_same H]. inversion H; subst.
    eapply close_edit; [reflexivity | exact Hh | apply do_shorten_prov | reflexivity].
  - (* OShrinkTo *) no_handle H h hd Hh. apply do_shrink_to_prov in H.
    eapply close_edit; [reflexivity | exact Hh | exact H | reflexivity].
  - (* OShrinkToFit *) no_handle H h hd Hh. apply do_shrink_to_prov in H.
    eapply close_edit; [reflexivity | exact Hh | exact H | reflexivity].
  - (* OAsMutWrite *) no_handle H h hd Hh.
    destruct (grants_mut _ _ _); [|fin_same H]. destruct (_ <? _) in H; [|fin_same H].
    destruct (write_repr _ _ _) as [st1 r1] eqn:E. apply write_repr_prov in E. destruct E as [S R].
    inversion H; subst.
    eapply close_edit; [reflexivity | exact Hh | | reflexivity]. apply edits_set_h; [exact S | right; exact R].
  - (* OToMutWrite *) no_handle H h hd Hh.
    destruct (make_unique _ _ _) as [st1 r1] eqn:E1. apply make_unique_prov in E1. destruct E1 as [S1 R1].
    destruct (_ <? _) in H.
    + destruct (write_repr _ _ _) as [st2 r2] eqn:E2. apply write_repr_prov in E2. destruct E2 as [S2 R2].
      inversion H; subst.
      eapply close_edit; [reflexivity | exact Hh | | reflexivity].
      apply edits_set_h; [eapply same_trans; eauto | left; cbn [osrc hrepr]; congruence].
    + inversion H; subst.
      eapply close_edit; [reflexivity | exact Hh | | reflexivity].
      apply edits_set_h; [exact S1 | left; exact R1].
  - (* OMakeAscii *) no_handle H h hd Hh.
    destruct (make_unique _ _ _) as [st1 r1] eqn:E1. apply make_unique_prov in E1. destruct E1 as [S1 R1].
    destruct (write_repr _ _ _) as [st2 r2] eqn:E2. apply write_repr_prov in E2. destruct E2 as [S2 R2].
    inversion H; subst.
    eapply close_edit; [reflexivity | exact Hh | | reflexivity].
    apply edits_set_h; [eapply same_trans; eauto | left; cbn [osrc hrepr]; congruence].
  - (* OToAscii *) no_handle H h hd Hh.
    destruct (clone_repr _ _ _) as [st0 r0] eqn:E0. apply clone_repr_prov in E0. destruct E0 as [S0 R0].
    destruct (make_unique _ _ _) as [st1 r1] eqn:E1. apply make_unique_prov in E1. destruct E1 as [S1 R1].
    destruct (write_repr _ _ _) as [st2 r2] eqn:E2. apply write_repr_prov in E2. destruct E2 as [S2 R2].
    eapply close_new; [|exact H | reflexivity | left; congruence].
    eapply same_trans; [exact S0|]. eapply same_trans; eauto.
  - (* ORepeat *) no_handle H h hd Hh.
    destruct (_ || _) in H.
    + destruct (clone_repr _ _ _) as [st1 r1] eqn:E. apply clone_repr_prov in E. destruct E as [S R].
      eapply close_new; [exact S | exact H | reflexivity | right; exists h, hd; auto].
    + destruct (_ <? _) in H; [fin_same H|]. destruct (_ <=? _) in H.
      * eapply close_new; [apply same_refl | exact H | reflexivity | left; reflexivity].
      * destruct (fresh_block _ _ _ _) as [st1 b] eqn:E. apply same_fresh_block in E.
        eapply close_new; [exact E | exact H | reflexivity | left; reflexivity].
  - (* OMutate *) no_handle H h hd Hh.
    destruct (take_vec _ _ _ _) as [st1 vc] eqn:E1. apply take_vec_prov in E1.
    match type of H with context [fold_left vec_step ?s ?a] =>
      pose proof (vec_script_prov s a) as E2; destruct (fold_left vec_step s a) as [st3 [d cap]] end.
    cbn [fst] in E2. destruct E2 as [E2h E2s]. unfold set_h in E2h, E2s; sproj.
    destruct E1 as [E1h E1s]. destruct leak.
    + inversion H; subst.
      eapply close_edit; [reflexivity | exact Hh | | reflexivity].
      split; [sproj; congruence|]. right. eexists. split; [sproj; rewrite E2h, E1h; reflexivity | left; reflexivity].
    + destruct (from_vec _ _ _) as [st4 r4] eqn:E4. apply from_vec_prov in E4. destruct E4 as [[E4h E4s] R4].
      inversion H; subst.
      eapply close_edit; [reflexivity | exact Hh | | reflexivity].
      split; [unfold set_h; sproj; congruence|]. right. eexists.
      split; [unfold set_h; sproj; rewrite E4h, E2h, E1h; apply upd_upd | left; exact R4].
  - (* OIntoOwned *) no_handle H h hd Hh.
    destruct (hrepr hd) as [d|s off n|b off n] eqn:R; [fin_same H | | fin_same H].
    destruct (from_slice _ _) as [st1 r1] eqn:E. apply from_slice_prov in E. destruct E as [S R1].
    inversion H; subst.
    eapply close_edit; [reflexivity | exact Hh | | reflexivity]. apply edits_set_h; [exact S | left; exact R1].
  - (* OIntoVec *) no_handle H h hd Hh.
    destruct (hrepr hd) as [d|s off n|b off n] eqn:R; [fin_same H | fin_same H |].
    destruct (get_b st b) as [blk|]; [|fin_same H]. destruct (_ && _); [|fin_same H].
    inversion H; subst.
    eapply close_edit; [reflexivity | exact Hh | | reflexivity].
    split; [reflexivity|]. right. exists None. split; [reflexivity | left; reflexivity].
  - (* OVecFrom *) no_handle H h hd Hh. cbv beta in H.
    destruct (hrepr hd) as [d|s off n|b off n] eqn:R.
    + inversion H; subst. eapply close_edit; [reflexivity | exact Hh | | reflexivity].
      apply edits_set_h; [split; reflexivity | left; reflexivity].
    + inversion H; subst. eapply close_edit; [reflexivity | exact Hh | | reflexivity].
      apply edits_set_h; [split; reflexivity | left; reflexivity].
    + destruct (get_b st b) as [blk|]; [|fin_same H]. destruct (_ && _).
      * inversion H; subst. eapply close_edit; [reflexivity | exact Hh | | reflexivity].
        split; [reflexivity|]. right. exists None. split; [reflexivity | left; reflexivity].
      * inversion H; subst. eapply close_edit; [reflexivity | exact Hh | | reflexivity].
        apply edits_set_h; [|left; reflexivity]. eapply same_trans; [|apply same_detach]. split; reflexivity.
  - (* OIntoBorrowed *) no_handle H h hd Hh.
    destruct (hrepr hd) as [d|s off n|b off n] eqn:R; [fin_same H | | fin_same H].
    inversion H; subst. eapply close_edit; [reflexivity | exact Hh | | reflexivity].
    apply edits_set_h; [apply same_refl | left; reflexivity].
  - (* OAsBorrowed *) no_handle H h hd Hh.
    destruct (hrepr hd) as [d|s off n|b off n] eqn:R; fin_same H.
  - (* ODrop *) no_handle H h hd Hh.
    inversion H; subst. eapply close_edit; [reflexivity | exact Hh | | reflexivity].
    apply edits_set_h; [apply same_drop_repr | left; reflexivity].
  - (* OForceCount *) no_handle H h hd Hh.
    destruct (hrepr hd) as [d|s off n|b off n] eqn:R; [fin_same H | fin_same H |].
    destruct bk; [| |fin_same H]; (destruct (get_b st b) as [blk|]; fin_same H).
  - (* ORestoreCount *) no_handle H h hd Hh.
    destruct (hrepr hd) as [d|s off n|b off n] eqn:R; [fin_same H | fin_same H |].
    destruct bk; [| |fin_same H]; (destruct (get_b st b) as [blk|]; fin_same H).
Qed.

(** ** the step-level theorems *)

Theorem borrow_provenance_step : forall bk ty st o st' u h s,
  step bk ty st o = (st', u) -> borrows st' h = Some s ->
     borrows st h = Some s
  \/ (exists p, subject o = Some p /\ borrows st p = Some s /\ h = len (hs st))
  \/ (exists x, o = OBorrowed x /\ s = len (srcs st) /\ h = len (hs st)).
Proof.
  intros bk ty st o st' u h s H B. apply step_shape in H. destruct H as [_ Sh].
  rewrite borrows_osrc in B. unfold get_h in B.
  destruct Sh as [E | p hd v Hs Hp E Hv | r l E Hr].
  - left. rewrite borrows_osrc. unfold get_h. rewrite <- E. exact B.
  - left. rewrite borrows_osrc. rewrite E in B. destruct (N.eq_dec p h) as [->|Hne].
    + rewrite nthN_upd_eq in B by (eapply get_h_lt; exact Hp).
      rewrite Hp. cbn [osrc]. destruct Hv as [Hv|Hv]; congruence.
    + rewrite nthN_upd_neq in B by exact Hne. exact B.
  - rewrite E, nthN_snoc in B. destruct (N.eqb_spec h (len (hs st))) as [Eh|Hne].
    + cbn [osrc hrepr] in B. destruct Hr as [Hr|[[p [hd [Hs [Hp Hr]]]]|[x [Eo Hr]]]].
      * congruence.
      * right; left. exists p. split; [exact Hs|]. split; [|exact Eh].
        rewrite borrows_osrc, Hp. cbn [osrc]. congruence.
      * right; right. exists x. split; [exact Eo|]. split; [congruence | exact Eh].
    + left. exact B.
Qed.
Print Assumptions borrow_provenance_step.

(** the exact form used at run level: the only new source is the argument of [OBorrowed] *)
Lemma step_srcs bk ty st o st' u : step bk ty st o = (st', u) -> srcs st' = srcs st ++ new_src o.
Proof. intros H. apply step_shape in H. exact (proj1 H). Qed.

Theorem sources_only_grow : forall bk ty st o st' u,
  step bk ty st o = (st', u) -> exists more, srcs st' = srcs st ++ more /\ (more = [] \/ exists x, o = OBorrowed x /\ more = [x]).
Proof.
  intros bk ty st o st' u H. apply step_srcs in H. exists (new_src o). split; [exact H|].
  destruct o; cbn [new_src]; try (left; reflexivity). right. eexists. split; reflexivity.
Qed.
Print Assumptions sources_only_grow.

Theorem into_owned_borrows_nothing : forall bk ty st h st' u,
  step bk ty st (OIntoOwned h) = (st', u) -> borrows st' h = None.
Proof.
  intros bk ty st h st' u H. cbv beta iota zeta delta [step] in H.
  destruct (get_h st h) as [hd|] eqn:Hh.
  - destruct (hrepr hd) as [d|s off n|b off n] eqn:R.
    + inversion H; subst. rewrite borrows_osrc, Hh. cbn [osrc]. rewrite R. reflexivity.
    + destruct (from_slice _ _) as [st1 r1] eqn:E. apply from_slice_prov in E. destruct E as [[E1 _] R1].
      inversion H; subst. rewrite borrows_osrc. unfold get_h, set_h; sproj.
      rewrite nthN_upd_eq by (rewrite E1; eapply get_h_lt; exact Hh). exact R1.
    + inversion H; subst. rewrite borrows_osrc, Hh. cbn [osrc]. rewrite R. reflexivity.
  - inversion H; subst. rewrite borrows_osrc, Hh. reflexivity.
Qed.
Print Assumptions into_owned_borrows_nothing.

(** ** run level *)

(** every borrowing handle borrows from an existing source whose content is the argument of an [OBorrowed] of [all] *)
Definition prov_inv (all : list op) (st : state) : Prop :=
  forall h s, borrows st h = Some s -> s < len (srcs st) /\ In (OBorrowed (get_src st s)) all.

Lemma prov_inv_init all : prov_inv all init.
Proof. intros h s B. unfold borrows, get_h, nthN in B. cbn [init hs] in B. destruct (N.to_nat h); discriminate. Qed.

Lemma get_src_grow st st' more s : srcs st' = srcs st ++ more -> s < len (srcs st) -> get_src st' s = get_src st s.
Proof. intros E L. unfold get_src at 1. rewrite E. apply get_src_app. exact L. Qed.

Lemma get_src_new st st' x : srcs st' = srcs st ++ [x] -> get_src st' (len (srcs st)) = x.
Proof.
  intros E. unfold get_src. rewrite E. unfold len. rewrite Nat2N.id, app_nth2 by lia. rewrite Nat.sub_diag. reflexivity.
Qed.

Lemma prov_inv_step bk ty all st o st' u :
  In o all -> prov_inv all st -> step bk ty st o = (st', u) -> prov_inv all st'.
Proof.
  intros Hin I H h s B. pose proof (step_srcs _ _ _ _ _ _ H) as S.
  assert (Old : forall h0, borrows st h0 = Some s -> s < len (srcs st') /\ In (OBorrowed (get_src st' s)) all).
  { intros h0 B0. destruct (I _ _ B0) as [L X]. split; [rewrite S, len_app; lia|].
    rewrite (get_src_grow _ _ _ _ S L). exact X. }
  destruct (borrow_provenance_step _ _ _ _ _ _ _ _ H B) as [B0|[[p [_ [B0 _]]]|[x [Eo [Es _]]]]].
  - exact (Old _ B0).
  - exact (Old _ B0).
  - subst o s. cbn [new_src] in S. split; [rewrite S, len_app, len_cons, len_nil; lia|].
    rewrite (get_src_new _ _ _ S). exact Hin.
Qed.

Lemma prov_inv_run bk ty all : forall ops st st' us,
  (forall o, In o ops -> In o all) -> prov_inv all st -> run bk ty st ops = (st', us) -> prov_inv all st'.
Proof.
  induction ops as [|o ops IH]; intros st st' us Hsub I H; cbn [run] in H.
  - inversion H; subst. exact I.
  - destruct (step bk ty st o) as [st1 u] eqn:E1. destruct (run bk ty st1 ops) as [st2 us2] eqn:E2.
    inversion H; subst. eapply IH; [| |exact E2].
    + intros o' Ho'. apply Hsub. right; exact Ho'.
    + eapply prov_inv_step; [|exact I|exact E1]. apply Hsub. left; reflexivity.
Qed.

(* run level: a borrowing value at the end of ANY history borrows from a source created by an OBorrowed of that history,
   whose content is still exactly what was passed then *)
Theorem borrow_provenance_run : forall bk ty ops st' us h s,
  run bk ty init ops = (st', us) -> borrows st' h = Some s ->
  exists x, In (OBorrowed x) ops /\ s < len (srcs st') /\ get_src st' s = x.
Proof.
  intros bk ty ops st' us h s H B.
  destruct (prov_inv_run bk ty ops ops init st' us (fun _ Ho => Ho) (prov_inv_init ops) H h s B) as [L X].
  exists (get_src st' s). split; [exact X|]. split; [exact L | reflexivity].
Qed.
Print Assumptions borrow_provenance_run.

(* a value derived, through any number of steps, only from handles that never borrowed cannot borrow: stated as
   "if no OBorrowed occurs in the history, nothing borrows" *)
Corollary no_borrow_constructor_no_borrow : forall bk ty ops st' us h,
  run bk ty init ops = (st', us) -> (forall x, ~ In (OBorrowed x) ops) -> borrows st' h = None.
Proof.
  intros bk ty ops st' us h H No. destruct (borrows st' h) as [s|] eqn:B; [|reflexivity].
  destruct (borrow_provenance_run _ _ _ _ _ _ _ H B) as [x [Hin _]]. destruct (No x Hin).
Qed.
Print Assumptions no_borrow_constructor_no_borrow.

(** ** non-vacuity: a borrowed value, a slice of it, a clone of the slice, [into_owned] of the clone, drop of the first *)
Definition demo_src : list N := [104; 105; 112; 115; 116; 114].
Definition demo_ops : list op :=
  [OBorrowed demo_src; OSlice 0 (Incl 1) (Excl 4); OClone 1; OIntoOwned 2; ODrop 0].

Example provenance_demo :
  let st3 := fst (run BArc TStr init (firstn 3 demo_ops)) in
  let st5 := fst (run BArc TStr init demo_ops) in
     (borrows st3 0, borrows st3 1, borrows st3 2, borrows st3 3) = (Some 0, Some 0, Some 0, None)
  /\ (borrows st5 0, borrows st5 1, borrows st5 2, borrows st5 3) = (None, Some 0, None, None)
  /\ view st5 1 = [105; 112; 115] /\ view st5 2 = [105; 112; 115]
  /\ get_src st5 0 = demo_src /\ bad st5 = false.
Proof. vm_compute. repeat split; reflexivity. Qed.
