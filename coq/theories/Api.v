(** * Api: the audit predicate over the table of public functions (C17 a). *)
From Coq Require Import List String Bool.
Import ListNotations.

(** An entry point that carries a `# Safety` section or the `_unchecked` suffix trusts its caller (for a range, a
    sub-slice relationship, initialisation, uniqueness or encoding): it must be declared `unsafe fn`. *)
Definition trusts_caller (unchecked safety_doc : bool) : bool := unchecked || safety_doc.
Definition audit_entry (is_unsafe safety_doc unchecked : bool) : bool := implb (trusts_caller unchecked safety_doc) is_unsafe.

(** ** Sealing of traits (C17: the unchecked adoption of `&str` results trusts the implementors of the pattern traits).
    Implementing a trait outside the crate requires naming it AND implementing every supertrait; a trait with a supertrait
    (transitively) that cannot be named outside the crate therefore has no implementors but the crate's own. *)
Section Sealing.
  Variable A : Type.
  Variable name_of : A -> string.
  Variable nameable_of : A -> bool.
  Variable supers_of : A -> list string.

  Definition lookup (tbl : list A) (n : string) : option A := find (fun t => String.eqb (name_of t) n) tbl.

  Fixpoint sealed (fuel : nat) (tbl : list A) (n : string) : bool :=
    match fuel with
    | O => false
    | S f => match lookup tbl n with
             | None => false
             | Some t => negb (nameable_of t) || existsb (sealed f tbl) (supers_of t)
             end
    end.

  (** [n] requires [m]: [m] is [n] or a (transitive) supertrait of [n] *)
  Inductive requires (tbl : list A) : string -> string -> Prop :=
  | req_refl n : requires tbl n n
  | req_step n t s m : lookup tbl n = Some t -> In s (supers_of t) -> requires tbl s m -> requires tbl n m.

  Theorem sealed_sound : forall fuel tbl n, sealed fuel tbl n = true ->
    exists m t, requires tbl n m /\ lookup tbl m = Some t /\ nameable_of t = false.
  Proof.
    induction fuel as [|f IH]; intros tbl n H; cbn [sealed] in H; [discriminate|].
    destruct (lookup tbl n) as [t|] eqn:L; [|discriminate].
    apply orb_true_iff in H as [H|H].
    - exists n, t. split; [constructor|]. split; [exact L|]. now destruct (nameable_of t).
    - apply existsb_exists in H as (s & Hs & Hse). destruct (IH tbl s Hse) as (m & t' & R & L' & N).
      exists m, t'. split; [|split; assumption]. eapply req_step; eassumption.
  Qed.
End Sealing.
