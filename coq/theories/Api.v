(** * Api: the audit predicate over the table of public functions (C17 a). *)
From Coq Require Import List String Bool.
Import ListNotations.

(** An entry point that carries a `# Safety` section or the `_unchecked` suffix trusts its caller (for a range, a
    sub-slice relationship, initialisation, uniqueness or encoding): it must be declared `unsafe fn`. *)
Definition trusts_caller (unchecked safety_doc : bool) : bool := unchecked || safety_doc.
Definition audit_entry (is_unsafe safety_doc unchecked : bool) : bool := implb (trusts_caller unchecked safety_doc) is_unsafe.
