(** * VecProofs2: without an injected panic the slot-level model behaves exactly like [Vec] (C13) and leaks nothing (C14). *)
From Coq Require Import Permutation.
From Hip Require Import Base Range RangeProofs VecModel VecSpec VecLib VecProofs1.
Local Open Scope nat_scope.

(** ** loops, without panic *)
Lemma push_wr_setlen w v id : vlen v < vcapn v ->
  (let '(w2, v2) := wr w v (vlen v) (E id) in setlen w2 v2 (S (vlen v))) = (w, pushv v id).
Proof. apply push_steps. Qed.

Lemma cib_np : forall ids w v i, pan w = None -> vsound v -> vlen v = i -> i + length ids <= vcapn v ->
  (forall id, In id ids -> (id < len (vals w) \/ SRC_BASE <= id)%N) ->
  exists w' v', clone_into_bump' w v i ids = (w', v', false) /\ wev w w' (map (val_of w) ids) [] /\
    vsound v' /\ vcapn v' = vcapn v /\ vlen v' = i + length ids /\ elems v' = elems v ++ newids w (length ids).
Proof.
  induction ids as [|id r IH]; intros w v i Hp Hs Hi Hc Hst; cbn [clone_into_bump' length map] in *.
  - exists w, v. split; [reflexivity|]. split; [apply wev_refl|]. split; [exact Hs|]. split; [reflexivity|]. split; [lia|].
    now rewrite newids_0, app_nil_r.
  - destruct (cb_clone_np w id (val_of w id) Hp) as [w1 E1]. pose proof (cb_clone_spec w id (val_of w id)) as Hb. rewrite E1 in *.
    subst i. rewrite wr_ok by lia. cbv beta iota. rewrite setlen_ok by capsolve. cbv beta iota. cbn [slots vlen]. fold (pushv v (len (vals w))).
    destruct (pushv_spec v (len (vals w)) Hs ltac:(lia)) as (Hs1 & He1 & Hc1 & Hl1).
    pose proof (wev_born _ _ _ _ Hb) as Hev. pose proof (wev_stable _ _ _ _ Hev) as Hstb.
    destruct (IH w1 (pushv v (len (vals w))) (S (vlen v))) as (w' & v' & E' & Hev' & A & B & C & D); auto; try lia.
    { rewrite (we_pan _ _ _ _ Hev). exact Hp. }
    { intros x Hx. destruct (Hst x (or_intror Hx)) as [H|H]; [left|right; exact H]. pose proof (stable_len _ _ Hstb). lia. }
    exists w', v'. split; [exact E'|]. split.
    + replace (map (val_of w1) r) with (map (val_of w) r) in Hev'.
      * apply (wev_trans _ _ _ _ _ _ _ Hev Hev').
      * apply map_ext_in. intros x Hx. symmetry. apply val_of_stable; [exact Hstb|]. apply Hst. now right.
    + split; [exact A|]. split; [congruence|]. split; [lia|]. rewrite D, He1, <- app_assoc. f_equal.
      change (S (length r)) with (1 + length r). rewrite (newids_app w w1 1 (length r)); [now rewrite newids_1|].
      rewrite (we_vals _ _ _ _ Hev), len_app. reflexivity.
Qed.

Lemma rwgo_np x : forall cnt w v i, pan w = None -> vsound v -> vlen v = i -> i + cnt <= vcapn v ->
  exists w' v', rw_go x w v i cnt = (w', v', false) /\ wev w w' (repeat x cnt) [] /\
    vsound v' /\ vcapn v' = vcapn v /\ elems v' = elems v ++ newids w cnt.
Proof.
  induction cnt as [|cnt IH]; intros w v i Hp Hs Hi Hc; cbn [rw_go repeat] in *.
  - exists w, v. split; [reflexivity|]. split; [apply wev_refl|]. split; [exact Hs|]. split; [reflexivity|].
    now rewrite newids_0, app_nil_r.
  - destruct (cb_make_np w x Hp) as [w1 E1]. pose proof (cb_make_spec w x) as Hb. rewrite E1 in *.
    subst i. rewrite wr_ok by lia. cbv beta iota. rewrite setlen_ok by capsolve. cbv beta iota. cbn [slots vlen]. fold (pushv v (len (vals w))).
    destruct (pushv_spec v (len (vals w)) Hs ltac:(lia)) as (Hs1 & He1 & Hc1 & Hl1).
    pose proof (wev_born _ _ _ _ Hb) as Hev.
    destruct (IH w1 (pushv v (len (vals w))) (S (vlen v))) as (w' & v' & E' & Hev' & A & B & D); auto; try lia.
    { rewrite (we_pan _ _ _ _ Hev). exact Hp. }
    exists w', v'. split; [exact E'|]. split; [apply (wev_trans _ _ _ _ _ _ _ Hev Hev')|].
    split; [exact A|]. split; [congruence|]. rewrite D, He1, <- app_assoc. f_equal.
    change (S cnt) with (1 + cnt). rewrite (newids_app w w1 1 cnt); [now rewrite newids_1|].
    rewrite (we_vals _ _ _ _ Hev), len_app. reflexivity.
Qed.

Lemma slots_from_snoc v i0 i G nid : i0 <= i -> i < vcapn v -> slots_from v i0 (i - i0) = map E G ->
  slots_from (mkV (updn (slots v) i (E nid)) (vlen v)) i0 (S i - i0) = map E (G ++ [nid]).
Proof.
  intros Hle Hc HG. assert (length G = i - i0) as HlG by (rewrite <- (map_length E G), <- HG; apply slots_from_length).
  apply list_ext with (d := U); [rewrite slots_from_length, map_length, app_length; cbn [length]; lia|].
  rewrite slots_from_length. intros j Hj. rewrite nth_slots_from by exact Hj.
  unfold rd. cbn [slots]. rewrite nth_updn by (unfold vcapn in Hc; lia). rewrite map_app, nth_app', map_length, HlG.
  destruct (Nat.eqb (i0 + j) i) eqn:E1.
  - apply Nat.eqb_eq in E1. rewrite (proj2 (Nat.ltb_ge _ _)) by lia. replace (j - (i - i0)) with 0 by lia. reflexivity.
  - apply Nat.eqb_neq in E1. rewrite (proj2 (Nat.ltb_lt _ _)) by lia. rewrite <- HG. rewrite nth_slots_from by lia. reflexivity.
Qed.

Lemma gc_np : forall ids w v i0 i, pan w = None -> vsound v -> vlen v = i0 -> i0 <= i -> i + length ids <= vcapn v ->
  (forall id, In id ids -> (id < len (vals w) \/ SRC_BASE <= id)%N) ->
  exists w' v', guarded_clone w v i0 i ids = (w', v', false) /\ wev w w' (map (val_of w) ids) [] /\
    vsound v' /\ vcapn v' = vcapn v /\ vlen v' = i0 /\ elems v' = elems v /\
    (forall G, slots_from v i0 (i - i0) = map E G -> slots_from v' i0 (i + length ids - i0) = map E (G ++ newids w (length ids))).
Proof.
  induction ids as [|id r IH]; intros w v i0 i Hp Hs Hi0 Hle Hc Hst; cbn [guarded_clone length map] in *.
  - exists w, v. split; [reflexivity|]. split; [apply wev_refl|]. split; [exact Hs|]. split; [reflexivity|]. split; [exact Hi0|].
    split; [reflexivity|]. intros G HG. now rewrite Nat.add_0_r, newids_0, app_nil_r.
  - destruct (cb_clone_np w id (val_of w id) Hp) as [w1 E1]. pose proof (cb_clone_spec w id (val_of w id)) as Hb. rewrite E1 in *.
    rewrite wr_ok by lia. cbv beta iota.
    destruct (wr_above v i (E (len (vals w))) Hs ltac:(lia)) as (Hs2 & He2 & Hc2 & Hl2). cbv zeta in *.
    set (v2 := mkV (updn (slots v) i (E (len (vals w)))) (vlen v)) in *.
    pose proof (wev_born _ _ _ _ Hb) as Hev. pose proof (wev_stable _ _ _ _ Hev) as Hstb.
    destruct (IH w1 v2 i0 (S i)) as (w' & v' & E' & Hev' & A & B & C & D & F); auto; try lia.
    { rewrite (we_pan _ _ _ _ Hev). exact Hp. }
    { intros x Hx. destruct (Hst x (or_intror Hx)) as [H|H]; [left|right; exact H]. pose proof (stable_len _ _ Hstb). lia. }
    exists w', v'. split; [exact E'|]. split.
    + replace (map (val_of w1) r) with (map (val_of w) r) in Hev'.
      * apply (wev_trans _ _ _ _ _ _ _ Hev Hev').
      * apply map_ext_in. intros x Hx. symmetry. apply val_of_stable; [exact Hstb|]. apply Hst. now right.
    + split; [exact A|]. split; [congruence|]. split; [exact C|]. split; [congruence|].
      intros G HG. pose proof (slots_from_snoc v i0 i G (len (vals w)) Hle ltac:(lia) HG) as Hsn. fold v2 in Hsn.
      specialize (F _ Hsn). replace (i + S (length r) - i0) with (S i + length r - i0) by lia. rewrite F. f_equal.
      rewrite <- app_assoc. f_equal. change (S (length r)) with (1 + length r).
      rewrite (newids_app w w1 1 (length r)); [now rewrite newids_1|]. rewrite (we_vals _ _ _ _ Hev), len_app. reflexivity.
Qed.

Lemma cb_drop_wev w id : pan w = None -> In id (live w) -> exists w', cb_drop w id = Done tt w' /\ wev w w' [] [id].
Proof.
  intros Hp Hin. destruct (cb_drop_np w id Hp) as [w' E1]. exists w'. split; [exact E1|].
  pose proof (cb_drop_spec w id Hin) as Hd. rewrite E1 in Hd. cbn [resw] in Hd. now apply wev_died.
Qed.

(** the iterator loop of InlineVec: everything fits *)
Lemma iter_inline_np_fit : forall vs w v j, pan w = None -> vsound v -> vlen v + length vs <= vcapn v ->
  exists w' v', iter_loop w v j vs (fun w v _ id => inline_push w v id) = (w', v', false) /\ wev w w' vs [] /\
    vsound v' /\ vcapn v' = vcapn v /\ elems v' = elems v ++ newids w (length vs).
Proof.
  induction vs as [|x r IH]; intros w v j Hp Hs Hc; cbn [iter_loop length] in *.
  - exists w, v. split; [reflexivity|]. split; [apply wev_refl|]. split; [exact Hs|]. split; [reflexivity|].
    now rewrite newids_0, app_nil_r.
  - destruct (cb_next_np w x Hp) as [w1 E1]. pose proof (cb_next_spec w x) as Hb. rewrite E1 in *.
    unfold inline_push, inline_try_push. rewrite (proj2 (Nat.ltb_lt _ _)) by lia.
    rewrite wr_ok by lia. cbv beta iota. rewrite setlen_ok by capsolve. cbv beta iota. cbn [slots vlen]. fold (pushv v (len (vals w))).
    destruct (pushv_spec v (len (vals w)) Hs ltac:(lia)) as (Hs1 & He1 & Hc1 & Hl1).
    pose proof (wev_born _ _ _ _ Hb) as Hev.
    destruct (IH w1 (pushv v (len (vals w))) (S j)) as (w' & v' & E' & Hev' & A & B & D); auto; try lia.
    { rewrite (we_pan _ _ _ _ Hev). exact Hp. }
    exists w', v'. split; [exact E'|]. split; [apply (wev_trans _ _ _ _ _ _ _ Hev Hev')|].
    split; [exact A|]. split; [congruence|]. rewrite D, He1, <- app_assoc. f_equal.
    change (S (length r)) with (1 + length r). rewrite (newids_app w w1 1 (length r)); [now rewrite newids_1|].
    rewrite (we_vals _ _ _ _ Hev), len_app. reflexivity.
Qed.

(** ... or the vector fills up: the item that does not fit is dropped and the call panics *)
Lemma iter_inline_np_over : forall vs w v j, pan w = None -> vsound v -> vlen v <= vcapn v -> vcapn v - vlen v < length vs ->
  let room := vcapn v - vlen v in
  exists w' v', iter_loop w v j vs (fun w v _ id => inline_push w v id) = (w', v', true) /\
    wev w w' (firstn (S room) vs) [(len (vals w) + N.of_nat room)%N] /\
    vsound v' /\ vcapn v' = vcapn v /\ elems v' = elems v ++ newids w room.
Proof.
  induction vs as [|x r IH]; intros w v j Hp Hs Hl Hc room; cbn [iter_loop length] in *; [lia|].
  destruct (cb_next_np w x Hp) as [w1 E1]. pose proof (cb_next_spec w x) as Hb. rewrite E1 in *.
  pose proof (wev_born _ _ _ _ Hb) as Hev.
  unfold inline_push, inline_try_push. destruct (Nat.ltb (vlen v) (vcapn v)) eqn:E2.
  - apply Nat.ltb_lt in E2.
    rewrite wr_ok by lia. cbv beta iota. rewrite setlen_ok by capsolve. cbv beta iota. cbn [slots vlen]. fold (pushv v (len (vals w))).
    destruct (pushv_spec v (len (vals w)) Hs ltac:(lia)) as (Hs1 & He1 & Hc1 & Hl1).
    destruct (IH w1 (pushv v (len (vals w))) (S j)) as (w' & v' & E' & Hev' & A & B & D); auto; try lia.
    { rewrite (we_pan _ _ _ _ Hev). exact Hp. }
    cbv zeta in *. rewrite Hc1, Hl1 in *.
    assert (room = S (vcapn v - S (vlen v))) as Hroom by (unfold room; lia).
    exists w', v'. split; [exact E'|]. split.
    + rewrite Hroom. pose proof (wev_trans _ _ _ _ _ _ _ Hev Hev') as Ht. cbn [app firstn] in *.
      replace (len (vals w1)) with (len (vals w) + 1)%N in Ht by (rewrite (we_vals _ _ _ _ Hev), len_app; reflexivity).
      replace (len (vals w) + N.of_nat (S (vcapn v - S (vlen v))))%N with (len (vals w) + 1 + N.of_nat (vcapn v - S (vlen v)))%N by lia.
      exact Ht.
    + split; [exact A|]. split; [exact B|]. rewrite D, He1, <- app_assoc. f_equal. rewrite Hroom.
      change (S (vcapn v - S (vlen v))) with (1 + (vcapn v - S (vlen v))).
      rewrite (newids_app w w1 1); [now rewrite newids_1|]. rewrite (we_vals _ _ _ _ Hev), len_app. reflexivity.
  - apply Nat.ltb_ge in E2. cbv beta iota. assert (room = 0) as Hroom by (unfold room; lia).
    assert (In (len (vals w)) (live w1)) as Hin by (destruct Hb as (_ & Hl1 & _); rewrite Hl1; now left).
    destruct (cb_drop_wev w1 (len (vals w))) as (w2 & E3 & Hev2); [rewrite (we_pan _ _ _ _ Hev); exact Hp|exact Hin|].
    rewrite E3. exists (set_unw w2 true), v. split; [reflexivity|]. split.
    + rewrite Hroom. cbn [firstn]. rewrite N.add_0_r.
      pose proof (wev_trans _ _ _ _ _ _ _ (wev_trans _ _ _ _ _ _ _ Hev Hev2) (wev_set_unw w2 true)) as Ht. exact Ht.
    + split; [exact Hs|]. split; [reflexivity|]. now rewrite Hroom, newids_0, app_nil_r.
Qed.

Lemma iter_thin_np n hint : forall vs w v j, pan w = None -> vsound v -> vlen v = n + j -> n + hint <= vcapn v ->
  exists w' v', iter_loop w v j vs (fun w v j id =>
            let '(wa', va) := if Nat.leb hint j then thin_reserve w v 1 else (w, v) in
            let '(wb, vb) := wr wa' va (n + j) (E id) in
            let '(wc, vc) := setlen wb vb (S (n + j)) in (wc, vc, false)) = (w', v', false) /\ wev w w' vs [] /\
    vsound v' /\ elems v' = elems v ++ newids w (length vs).
Proof.
  induction vs as [|x r IH]; intros w v j Hp Hs Hl Hc; cbn [iter_loop length] in *.
  - exists w, v. split; [reflexivity|]. split; [apply wev_refl|]. split; [exact Hs|]. now rewrite newids_0, app_nil_r.
  - destruct (cb_next_np w x Hp) as [w1 E1]. pose proof (cb_next_spec w x) as Hb. rewrite E1 in *.
    pose proof (wev_born _ _ _ _ Hb) as Hev.
    assert (exists wa' va, (if Nat.leb hint j then thin_reserve w1 v 1 else (w1, v)) = (wa', va) /\
              vsound va /\ vlen va = n + j /\ n + j < vcapn va /\ n + hint <= vcapn va /\ elems va = elems v /\ wev w1 wa' [] [])
      as (wa' & va & Eq & A1 & B1 & C1 & C2 & D1 & Hev1).
    { destruct (Nat.leb hint j) eqn:E2.
      - destruct (thin_reserve w1 v 1) as [wa' va] eqn:Er. exists wa', va. split; [reflexivity|].
        apply thin_reserve_spec in Er; [|exact Hs]. destruct Er as ((S1 & S1') & S2 & S3 & S4 & S5 & S6).
        split; [exact S6|]. split; [lia|]. split; [lia|]. split; [lia|]. split; [exact S5|]. now apply wev_same.
      - apply Nat.leb_gt in E2. exists w1, v. split; [reflexivity|]. split; [exact Hs|]. split; [exact Hl|]. split; [lia|].
        split; [exact Hc|]. split; [reflexivity|apply wev_refl]. }
    rewrite Eq. rewrite <- B1. rewrite wr_ok by lia. cbv beta iota. rewrite setlen_ok by capsolve. cbv beta iota.
    cbn [slots vlen]. fold (pushv va (len (vals w))).
    destruct (pushv_spec va (len (vals w)) A1 ltac:(lia)) as (X1 & X2 & X3 & X4).
    pose proof (wev_trans _ _ _ _ _ _ _ Hev Hev1) as Hev01. cbn [app] in Hev01.
    destruct (IH wa' (pushv va (len (vals w))) (S j)) as (w' & v' & E' & Hev' & A & D); auto; try lia.
    { rewrite (we_pan _ _ _ _ Hev01). exact Hp. }
    exists w', v'. split; [exact E'|]. split; [apply (wev_trans _ _ _ _ _ _ _ Hev01 Hev')|].
    split; [exact A|]. rewrite D, X2, D1, <- app_assoc. f_equal.
    change (S (length r)) with (1 + length r). rewrite (newids_app w wa' 1 (length r)); [now rewrite newids_1|].
    rewrite (we_vals _ _ _ _ Hev01), len_app. reflexivity.
Qed.

Lemma drop_range_np st w v v0 i n : pan w = None -> slots v = slots v0 -> vsound v0 -> i + n <= vlen v0 ->
  subm (firstn n (skipn i (elems v0))) (live w) ->
  exists w', drop_range st w v i n = Done tt w' /\ wev w w' [] (firstn n (skipn i (elems v0))).
Proof.
  intros Hp Hsl Hs Hle Hsub. unfold drop_range. rewrite (slots_from_ext v0 v i n Hsl), (slots_from_sound v0 i n Hs Hle).
  apply (drop_slots_wev st _ w false Hp Hsub).
Qed.

Lemma drop_vec_np k w v : pan w = None -> vsound v -> subm (elems v) (live w) ->
  exists w1, drop_vec k w v = Done tt (match k with KInline _ => w1 | KThin => ev_free w1 end) /\ wev w w1 [] (elems v).
Proof.
  intros Hp Hs Hsub. assert (elems v = firstn (vlen v) (skipn 0 (elems v))) as HG.
  { cbn [skipn]. symmetry. apply firstn_all_ge. destruct Hs as [_ He]. lia. }
  unfold drop_vec. destruct k as [c|].
  - destruct (drop_range_np Stop w v v 0 (vlen v) Hp eq_refl Hs ltac:(lia)) as (w1 & E1 & Hev); [now rewrite <- HG|].
    exists w1. rewrite <- HG in Hev. split; assumption.
  - destruct (drop_range_np Continue w v v 0 (vlen v) Hp eq_refl Hs ltac:(lia)) as (w1 & E1 & Hev); [now rewrite <- HG|].
    exists w1. rewrite <- HG in Hev. rewrite E1. split; [reflexivity|assumption].
Qed.

(** ** the frame of a panic-free operation *)
Record NPre (k : kind) (s : vstate) : Prop := {
  np_vecs : forall i v, getv s i = Some v -> vec_sound k v;
  np_sub : subm (reachable s) (live (wd s));
  np_lnd : NoDup (live (wd s));
  np_fresh : forall id, In id (live (wd s)) -> (id < len (vals (wd s)))%N;
  np_pan : pan (wd s) = None
}.

Lemma NoDup_incl_subm (a b : list N) : NoDup a -> incl a b -> subm a b.
Proof.
  intros Hn Hi x. pose proof (cnt_NoDup_le a x Hn) as H1. destruct (cnt a x) as [|[|n]] eqn:E; try lia.
  assert (In x a) as Hin by (apply cnt_In; lia). apply Hi in Hin. apply cnt_In in Hin. lia.
Qed.

Lemma NPre_of_VInv k s : VInv k s -> pan (wd s) = None -> NPre k s.
Proof.
  intros [A B C D E F G H] Hp. split; auto. now apply NoDup_incl_subm.
Qed.

Lemma NPre_pool_small k s : NPre k s -> pool_small s.
Proof.
  intros [A B C D _] i v Hg id Hin. apply D. apply (subm_incl _ _ B). unfold reachable. apply in_or_app. left.
  apply in_flat_map. exists v. split; [|exact Hin]. unfold pool_vecs. apply in_flat_map. exists (Some v). split; [|now left].
  apply getv_nth in Hg. eapply nth_error_In; eauto.
Qed.

Lemma NPre_elems_sub k s vi v : NPre k s -> getv s vi = Some v -> subm (elems v) (live (wd s)).
Proof.
  intros HP Hg x. pose proof (np_sub _ _ HP x) as H1.
  pose proof (cnt_pelems_updn (pool s) (N.to_nat vi) (Some v) None x (proj1 (getv_nth _ _ _) Hg)) as H2.
  cbn [oelems] in H2. rewrite cnt_nil in H2. unfold reachable in H1. fold (pelems (pool s)) in H1. rewrite count_occ_app in H1. lia.
Qed.

Definition heap_ok (k : kind) (s : vstate) : Prop :=
  match k with
  | KThin => wa (wd s) = (wf (wd s) + N.of_nat (length (pool_vecs (pool s))))%N
  | KInline _ => wa (wd s) = 0%N /\ wf (wd s) = 0%N
  end.

Lemma noleak_sub k s : NPre k s -> VNoLeak k s -> subm (live (wd s)) (reachable s) /\ heap_ok k s.
Proof. intros HP [A B]. split; [|exact B]. apply NoDup_incl_subm; [apply (np_lnd _ _ HP)|exact A]. Qed.
Lemma noleak_intro k s : subm (live (wd s)) (reachable s) -> heap_ok k s -> VNoLeak k s.
Proof. intros A B. split; [now apply subm_incl|exact B]. Qed.

Definition pvn (p : list (option vec)) : nat := length (pool_vecs p).
Lemma pvn_updn_some : forall p i v v', nth_error p i = Some (Some v) -> pvn (updn p i (Some v')) = pvn p.
Proof.
  unfold pvn, pool_vecs. induction p as [|a p IH]; intros [|i] v v' H; cbn [nth_error updn flat_map] in *; try discriminate.
  - inj H. reflexivity.
  - rewrite !app_length. f_equal. eapply IH; eauto.
Qed.
Lemma pvn_updn_none : forall p i v, nth_error p i = Some (Some v) -> S (pvn (updn p i None)) = pvn p.
Proof.
  unfold pvn, pool_vecs. induction p as [|a p IH]; intros [|i] v H; cbn [nth_error updn flat_map] in *; try discriminate.
  - inj H. reflexivity.
  - rewrite !app_length. rewrite <- (IH i v H). lia.
Qed.
Lemma pvn_snoc p v : pvn (p ++ [Some v]) = S (pvn p).
Proof. unfold pvn, pool_vecs. rewrite flat_map_app, app_length. cbn. lia. Qed.

Lemma heap_ok_same k s s' : heap_ok k s -> wheap (wd s) (wd s') -> pvn (pool s') = pvn (pool s) -> heap_ok k s'.
Proof. unfold heap_ok, pvn. intros H [Ha Hf] Hn. destruct k; rewrite Ha, Hf, ?Hn; exact H. Qed.

Definition np_res (k : kind) (s : vstate) (o : vop) (r : vstate * vout) : Prop :=
  pan (wd (fst r)) = None /\
  (small_world (fst r) -> vspec k (vabs s) o = (vabs (fst r), out_abs (wd (fst r)) (snd r))) /\
  (VNoLeak k s -> no_forget o -> VNoLeak k (fst r)).

Lemma wev_pan_none w w' e d : wev w w' e d -> pan w = None -> pan w' = None.
Proof. intros H Hp. rewrite (we_pan _ _ _ _ H). exact Hp. Qed.

(** [wev] without the allocator clause (operations that allocate or free account for the heap separately) *)
Record wev0 (w w' : world) (ext died : list N) : Prop := {
  w0_pan : pan w' = pan w;
  w0_vals : vals w' = vals w ++ ext;
  w0_live : forall x, cnt (live w') x + cnt died x = cnt (live w) x + cnt (newids w (length ext)) x
}.
Lemma wev_wev0 w w' e d : wev w w' e d -> wev0 w w' e d.
Proof. intros [A B C _]. split; assumption. Qed.
Lemma wev0_pre w w0 w' e d : wsame w w0 -> wev0 w0 w' e d -> wev0 w w' e d.
Proof.
  intros (Hl & Hv & _ & _ & Hp) [A B C]. split; [congruence|congruence|]. intros x. specialize (C x).
  unfold newids in *. rewrite Hl, Hv in C. exact C.
Qed.
Lemma wev0_post w w1 w' e d : wev0 w w1 e d -> wsame w1 w' -> wev0 w w' e d.
Proof. intros [A B C] (Hl & Hv & _ & _ & Hp). split; [congruence|congruence|]. intros x. rewrite Hl. apply C. Qed.
Lemma wev0_stable w w' e d : wev0 w w' e d -> stable w w'.
Proof. intros [_ B _]. now exists e. Qed.

(** the operation replaces vector [vi] by [o'] and hands [h] to the caller *)
Lemma np_close_upd k s o s' vi v o' h u ext died :
  NPre k s -> getv s vi = Some v -> pool s' = updn (pool s) (N.to_nat vi) o' ->
  (forall x, cnt (handed s') x = cnt (handed s) x + cnt h x) ->
  wev0 (wd s) (wd s') ext died ->
  (no_forget o -> forall x, cnt (oelems o') x + cnt h x + cnt died x = cnt (elems v) x + cnt (newids (wd s) (length ext)) x) ->
  (heap_ok k s -> no_forget o -> heap_ok k s') ->
  (small_world s' -> vspec k (vabs s) o =
     (ssetv (vabs s) vi (option_map (fun v => vals_of (wd s') (elems v)) o'), out_abs (wd s') u)) ->
  np_res k s o (s', u).
Proof.
  intros HP Hg Hpool Hh Hev Hbal Hheap Hspec. split; [|split]; cbn [fst snd].
  - rewrite (w0_pan _ _ _ _ Hev). apply (np_pan _ _ HP).
  - intros Hsm. rewrite (Hspec Hsm). f_equal. unfold vabs at 2. rewrite Hpool, map_updn. unfold ssetv. f_equal.
    symmetry. apply vabs_pool_stable; [eapply NPre_pool_small; eauto|eapply wev0_stable; eauto].
  - intros HNL Hnf. destruct (noleak_sub _ _ HP HNL) as [Hsub Hhp]. apply noleak_intro; [|now apply Hheap].
    intros x. pose proof (w0_live _ _ _ _ Hev x) as H1. specialize (Hbal Hnf x). specialize (Hsub x). specialize (Hh x).
    pose proof (cnt_pelems_updn (pool s) (N.to_nat vi) (Some v) o' x (proj1 (getv_nth _ _ _) Hg)) as H2.
    change (oelems (Some v)) with (elems v) in H2.
    unfold reachable in *. rewrite Hpool. fold (pelems (updn (pool s) (N.to_nat vi) o')). fold (pelems (pool s)) in Hsub.
    rewrite count_occ_app in *. lia.
Qed.

Lemma heap_ok_setv k s s' vi v v' : getv s vi = Some v -> pool s' = updn (pool s) (N.to_nat vi) (Some v') ->
  wheap (wd s) (wd s') -> heap_ok k s -> heap_ok k s'.
Proof.
  intros Hg Hp Hh H. eapply heap_ok_same; eauto. rewrite Hp. eapply pvn_updn_some. apply getv_nth. eauto.
Qed.

Lemma np_close_setv k s o vi v v' w' h u ext died :
  NPre k s -> getv s vi = Some v -> wev (wd s) w' ext died ->
  (no_forget o -> forall x, cnt (elems v') x + cnt h x + cnt died x = cnt (elems v) x + cnt (newids (wd s) (length ext)) x) ->
  ((len (vals w') < SRC_BASE)%N -> vspec k (vabs s) o = (ssetv (vabs s) vi (Some (vals_of w' (elems v'))), out_abs w' u)) ->
  np_res k s o (hand (setv s vi (Some v') w') h, u).
Proof.
  intros HP Hg Hev Hbal Hspec.
  apply (np_close_upd k s o (hand (setv s vi (Some v') w') h) vi v (Some v') h u ext died HP Hg); [reflexivity| |apply wev_wev0; exact Hev|exact Hbal| |exact Hspec].
  - intros x. cbn [handed hand setv]. now rewrite count_occ_app.
  - intros Hh _. eapply (heap_ok_setv k s _ vi v v' Hg); [reflexivity|apply (we_heap _ _ _ _ Hev)|exact Hh].
Qed.

Lemma np_close_setv0 k s o vi v v' w' u ext died :
  NPre k s -> getv s vi = Some v -> wev (wd s) w' ext died ->
  (no_forget o -> forall x, cnt (elems v') x + cnt died x = cnt (elems v) x + cnt (newids (wd s) (length ext)) x) ->
  ((len (vals w') < SRC_BASE)%N -> vspec k (vabs s) o = (ssetv (vabs s) vi (Some (vals_of w' (elems v'))), out_abs w' u)) ->
  np_res k s o (setv s vi (Some v') w', u).
Proof.
  intros HP Hg Hev Hbal Hspec.
  apply (np_close_upd k s o (setv s vi (Some v') w') vi v (Some v') [] u ext died HP Hg); [reflexivity| |apply wev_wev0; exact Hev| | |exact Hspec].
  - intros x. cbn [handed setv]. rewrite cnt_nil. lia.
  - intros Hnf x. rewrite cnt_nil. specialize (Hbal Hnf x). cbn [oelems]. lia.
  - intros Hh _. eapply (heap_ok_setv k s _ vi v v' Hg); [reflexivity|apply (we_heap _ _ _ _ Hev)|exact Hh].
Qed.

(** a new vector *)
Lemma np_close_addv k s o v' w' (f : N -> vout) ext died :
  NPre k s -> wev0 (wd s) w' ext died ->
  (forall x, cnt (elems v') x + cnt died x = cnt (newids (wd s) (length ext)) x) ->
  (heap_ok k s -> heap_ok k (fst (addv s v' w'))) ->
  ((len (vals w') < SRC_BASE)%N -> vspec k (vabs s) o = (vabs s ++ [Some (vals_of w' (elems v'))], out_abs w' (f (len (vabs s))))) ->
  np_res k s o (let '(s1, i) := addv s v' w' in (s1, f i)).
Proof.
  intros HP Hev Hbal Hheap Hspec.
  change (let '(s1, i) := addv s v' w' in (s1, f i)) with (fst (addv s v' w'), f (snd (addv s v' w'))).
  destruct (vabs_addv s v' w' (NPre_pool_small _ _ HP) (wev0_stable _ _ _ _ Hev)) as [Hv Hi].
  split; [|split]; cbn [fst snd].
  - change (wd (fst (addv s v' w'))) with w'. rewrite (w0_pan _ _ _ _ Hev). apply (np_pan _ _ HP).
  - intros Hsm. rewrite Hv, Hi. apply Hspec. exact Hsm.
  - intros HNL _. destruct (noleak_sub _ _ HP HNL) as [Hsub Hhp]. apply noleak_intro; [|now apply Hheap].
    intros x. rewrite (reach_addv s v' w' x). change (wd (fst (addv s v' w'))) with w'.
    pose proof (w0_live _ _ _ _ Hev x) as H1. specialize (Hbal x). specialize (Hsub x). lia.
Qed.

(** only the world changes *)
Lemma np_close_setw k s o w' u ext died :
  NPre k s -> wev (wd s) w' ext died ->
  (forall x, cnt died x = cnt (newids (wd s) (length ext)) x) ->
  ((len (vals w') < SRC_BASE)%N -> vspec k (vabs s) o = (vabs s, out_abs w' u)) ->
  np_res k s o (setw s w', u).
Proof.
  intros HP Hev Hbal Hspec. split; [|split]; cbn [fst snd wd setw].
  - eapply wev_pan_none; eauto. apply (np_pan _ _ HP).
  - intros Hsm. rewrite vabs_setw by (eauto using NPre_pool_small, wev_stable). now apply Hspec.
  - intros HNL _. destruct (noleak_sub _ _ HP HNL) as [Hsub Hhp]. apply noleak_intro.
    + intros x. rewrite reach_setw. cbn [wd setw]. pose proof (we_live _ _ _ _ Hev x) as H1. specialize (Hbal x). specialize (Hsub x). lia.
    + eapply heap_ok_same; eauto. apply (we_heap _ _ _ _ Hev).
Qed.

Lemma np_close_same k s o u : NPre k s -> vspec k (vabs s) o = (vabs s, out_abs (wd s) u) -> np_res k s o (s, u).
Proof.
  intros HP Hspec. split; [|split]; cbn [fst snd]; auto. apply (np_pan _ _ HP).
Qed.

(** ** operations *)
Lemma heap_addv_inline c s v' w' : wheap (wd s) w' -> heap_ok (KInline c) s -> heap_ok (KInline c) (fst (addv s v' w')).
Proof. intros [Ha Hf] [H1 H2]. unfold heap_ok. cbn [wd addv fst]. split; congruence. Qed.
Lemma heap_addv_thin s v' w' : wa w' = (wa (wd s) + 1)%N -> wf w' = wf (wd s) -> heap_ok KThin s -> heap_ok KThin (fst (addv s v' w')).
Proof.
  intros Ha Hf H. unfold heap_ok in *. cbn [wd addv fst pool]. fold (pvn (pool s ++ [Some v'])). fold (pvn (pool s)) in H.
  rewrite pvn_snoc, Ha, Hf, H. lia.
Qed.
Lemma wev0_alloc w : wev0 w (ev_alloc w) [] [].
Proof. eapply wev0_post; [apply wev_wev0, wev_refl|wsame_tac]. Qed.

Ltac spec_open Hg := unfold vspec; rewrite sgetv_vabs, Hg; cbn [option_map].

Lemma np_XNew k s : NPre k s -> np_res k s XNew (vstep_core k s XNew).
Proof.
  intros HP. unfold vstep_core. destruct k as [c|].
  - destruct (new_vec_spec c) as (N1 & N2 & N3 & N4).
    apply np_close_addv with (ext := []) (died := []); [exact HP|apply wev_wev0, wev_refl| | |].
    + intros x. rewrite N2. reflexivity.
    + apply heap_addv_inline. apply wheap_refl.
    + intros _. rewrite N2. reflexivity.
  - unfold thin_with_capacity. destruct (new_vec_spec (Nat.max THIN_MIN THIN_MIN)) as (N1 & N2 & N3 & N4).
    apply np_close_addv with (ext := []) (died := []); [exact HP|apply wev0_alloc| | |].
    + intros x. rewrite N2. reflexivity.
    + apply heap_addv_thin; reflexivity.
    + intros _. rewrite N2. reflexivity.
Qed.

Lemma np_XWithCap k s c : NPre k s -> np_res k s (XWithCap c) (vstep_core k s (XWithCap c)).
Proof.
  intros HP. unfold vstep_core. destruct k as [c'|].
  - apply np_close_same; [exact HP|reflexivity].
  - unfold thin_with_capacity. destruct (new_vec_spec (Nat.max c THIN_MIN)) as (N1 & N2 & N3 & N4).
    apply np_close_addv with (ext := []) (died := []); [exact HP|apply wev0_alloc| | |].
    + intros x. rewrite N2. reflexivity.
    + apply heap_addv_thin; reflexivity.
    + intros _. rewrite N2. reflexivity.
Qed.

Ltac open_np HP Hg :=
  match goal with |- context [getv ?s ?vi] =>
    let v := fresh "v" in
    destruct (getv s vi) as [v|] eqn:Hg;
      [ | apply np_close_same; [exact HP | unfold vspec; rewrite sgetv_vabs, Hg; reflexivity] ];
    let Hvs := fresh "Hvs" in let Hs := fresh "Hs" in
    pose proof (np_vecs _ _ HP _ _ Hg) as Hvs; pose proof (vec_sound_vsound _ _ Hvs) as Hs
  end.

(** values of the old elements, seen from a later world *)
Lemma vals_old k s vi v w' : NPre k s -> getv s vi = Some v -> stable (wd s) w' ->
  vals_of w' (elems v) = vals_of (wd s) (elems v).
Proof.
  intros HP Hg Hst. apply vals_of_stable; [exact Hst|]. intros id Hin. left. eapply NPre_pool_small; eauto.
Qed.

Lemma ssetv_same sp i l : sgetv sp i = Some l -> ssetv sp i (Some l) = sp.
Proof.
  unfold sgetv, ssetv. revert sp. induction (N.to_nat i) as [|n IH]; intros [|a sp] H; cbn [nth_error updn] in *; try discriminate; auto.
  - destruct a; [|discriminate]. congruence.
  - f_equal. now apply IH.
Qed.

Lemma val_of_born w w1 w' id x : wborn w w1 id x -> stable w1 w' -> (len (vals w') < SRC_BASE)%N -> val_of w' id = x.
Proof.
  intros Hb Hst Hsm. pose proof (wev_born _ _ _ _ Hb) as Hev. destruct Hb as (Hid & _).
  pose proof (vals_of_newids w w1 w' [x] (we_vals _ _ _ _ Hev) Hst Hsm) as H. cbn [length] in H. rewrite newids_1, <- Hid in H.
  cbn [vals_of map] in H. now inj H.
Qed.

Lemma np_XPush k s vi x : NPre k s -> np_res k s (XPush vi x) (vstep_core k s (XPush vi x)).
Proof.
  intros HP. unfold vstep_core. open_np HP Hg. pose proof Hs as [Hl He].
  pose proof (fresh_spec (wd s) x) as Hb. destruct (fresh (wd s) x) as [id w1]. cbn [fst snd] in Hb.
  pose proof (wev_born _ _ _ _ Hb) as Hev. pose proof Hb as (Hid & Hl1 & _).
  destruct k as [c|].
  - pose proof (vec_sound_cap _ _ Hvs) as Hcap. unfold inline_push, inline_try_push.
    destruct (Nat.ltb (vlen v) (vcapn v)) eqn:E.
    + apply Nat.ltb_lt in E. rewrite wr_ok by exact E. cbv beta iota. rewrite setlen_ok by capsolve. cbv beta iota.
      cbn [slots vlen]. fold (pushv v id). destruct (pushv_spec v id Hs E) as (A & B & C & D).
      eapply np_close_setv0; [exact HP|exact Hg|exact Hev| |].
      * intros _ y. rewrite B. cbn [length]. rewrite newids_1, <- Hid. cnt_norm. lia.
      * intros Hsm. spec_open Hg. unfold fits, cap_of. rewrite vals_of_length, He. rewrite (proj2 (Nat.leb_le _ _)) by lia.
        rewrite B, vals_of_app. rewrite (vals_old _ _ _ _ _ HP Hg (wev_stable _ _ _ _ Hev)).
        cbn [vals_of map]. rewrite (val_of_born _ _ _ _ _ Hb (stable_refl _) Hsm). reflexivity.
    + apply Nat.ltb_ge in E. cbv beta iota.
      assert (In id (live w1)) as Hin by (rewrite Hl1; now left).
      destruct (cb_drop_wev w1 id (wev_pan_none _ _ _ _ Hev (np_pan _ _ HP)) Hin) as (w2 & E2 & Hev2). rewrite E2.
      pose proof (wev_trans _ _ _ _ _ _ _ (wev_trans _ _ _ _ _ _ _ Hev Hev2) (wev_set_unw w2 true)) as Ht. cbn [app] in Ht.
      eapply np_close_setv0; [exact HP|exact Hg|exact Ht| |].
      * intros _ y. cbn [length]. rewrite newids_1, <- Hid. lia.
      * intros Hsm. spec_open Hg. unfold fits, cap_of. rewrite vals_of_length, He. rewrite (proj2 (Nat.leb_gt _ _)) by lia.
        rewrite (vals_old _ _ _ _ _ HP Hg (wev_stable _ _ _ _ Ht)). rewrite ssetv_same; [reflexivity|]. now rewrite sgetv_vabs, Hg.
  - unfold thin_push. destruct (thin_reserve w1 v 1) as [w1' v1] eqn:Er.
    apply thin_reserve_spec in Er; [|exact Hs]. destruct Er as ((S1 & S1') & S2 & S3 & S4 & S5 & S6).
    rewrite wr_ok by lia. cbv beta iota. cbn [vlen]. rewrite setlen_ok by capsolve. cbn [slots]. fold (pushv v1 id).
    destruct (pushv_spec v1 id S6 ltac:(lia)) as (A & B & C & D).
    pose proof (wev_trans _ _ _ _ _ _ _ Hev (wev_same _ _ S1 S1')) as Ht. cbn [app] in Ht.
    eapply np_close_setv0; [exact HP|exact Hg|exact Ht| |].
    + intros _ y. rewrite B, S5. cbn [length]. rewrite newids_1, <- Hid. cnt_norm. lia.
    + intros Hsm. spec_open Hg. unfold fits, cap_of.
      rewrite B, S5, vals_of_app. rewrite (vals_old _ _ _ _ _ HP Hg (wev_stable _ _ _ _ Ht)).
      cbn [vals_of map]. rewrite (val_of_born _ _ w1' _ _ Hb); [reflexivity| |exact Hsm].
      exists []. rewrite app_nil_r. destruct S1 as (_ & Hv & _). exact Hv.
Qed.

(** only the caller's hand grows *)
Lemma np_close_hand k s o vi v w' h u ext died :
  NPre k s -> getv s vi = Some v -> wev (wd s) w' ext died ->
  (forall x, cnt h x + cnt died x = cnt (newids (wd s) (length ext)) x) ->
  ((len (vals w') < SRC_BASE)%N -> vspec k (vabs s) o = (vabs s, out_abs w' u)) ->
  np_res k s o (hand (setw s w') h, u).
Proof.
  intros HP Hg Hev Hbal Hspec.
  apply (np_close_upd k s o (hand (setw s w') h) vi v (Some v) h u ext died HP Hg).
  - cbn [pool hand setw]. symmetry. apply updn_same. now apply getv_nth.
  - intros x. cbn [handed hand setw]. now rewrite count_occ_app.
  - apply wev_wev0. exact Hev.
  - intros _ x. cbn [oelems]. specialize (Hbal x). lia.
  - intros Hh _. eapply heap_ok_same; [exact Hh|apply (we_heap _ _ _ _ Hev)|reflexivity].
  - intros Hsm. cbn [wd hand setw option_map] in *. rewrite (Hspec Hsm). f_equal.
    rewrite (vals_old _ _ _ _ _ HP Hg (wev_stable _ _ _ _ Hev)). symmetry. apply ssetv_same. now rewrite sgetv_vabs, Hg.
Qed.

Lemma np_XTryPush k s vi x : NPre k s -> np_res k s (XTryPush vi x) (vstep_core k s (XTryPush vi x)).
Proof.
  intros HP. unfold vstep_core. open_np HP Hg. pose proof Hs as [Hl He].
  destruct k as [c|]; [|apply np_close_same; [exact HP|spec_open Hg; reflexivity]].
  pose proof (fresh_spec (wd s) x) as Hb. destruct (fresh (wd s) x) as [id w1]. cbn [fst snd] in Hb.
  pose proof (wev_born _ _ _ _ Hb) as Hev. pose proof Hb as (Hid & Hl1 & _).
  pose proof (vec_sound_cap _ _ Hvs) as Hcap. unfold inline_try_push.
  destruct (Nat.ltb (vlen v) (vcapn v)) eqn:E.
  - apply Nat.ltb_lt in E. rewrite wr_ok by exact E. cbv beta iota. rewrite setlen_ok by capsolve. cbv beta iota.
    cbn [slots vlen]. fold (pushv v id). destruct (pushv_spec v id Hs E) as (A & B & C & D).
    eapply np_close_setv0; [exact HP|exact Hg|exact Hev| |].
    + intros _ y. rewrite B. cbn [length]. rewrite newids_1, <- Hid. cnt_norm. lia.
    + intros Hsm. spec_open Hg. unfold fits, cap_of. rewrite vals_of_length, He. rewrite (proj2 (Nat.leb_le _ _)) by lia.
      rewrite B, vals_of_app. rewrite (vals_old _ _ _ _ _ HP Hg (wev_stable _ _ _ _ Hev)).
      cbn [vals_of map]. rewrite (val_of_born _ _ _ _ _ Hb (stable_refl _) Hsm). reflexivity.
  - apply Nat.ltb_ge in E. cbv beta iota.
    eapply np_close_setv; [exact HP|exact Hg|exact Hev| |].
    + intros _ y. cbn [length]. rewrite newids_1, <- Hid. cnt_norm. lia.
    + intros Hsm. spec_open Hg. unfold fits, cap_of. rewrite vals_of_length, He. rewrite (proj2 (Nat.leb_gt _ _)) by lia.
      rewrite (vals_old _ _ _ _ _ HP Hg (wev_stable _ _ _ _ Hev)). rewrite ssetv_same by (now rewrite sgetv_vabs, Hg).
      cbn [out_abs]. now rewrite (val_of_born _ _ _ _ _ Hb (stable_refl _) Hsm).
Qed.

Lemma pop_facts (e : list N) n : length e = S n ->
  (forall x, cnt (firstn n e) x + cnt [nth n e 0%N] x = cnt e x) /\
  forall w, rev (vals_of w e) = val_of w (nth n e 0%N) :: rev (vals_of w (firstn n e)).
Proof.
  intros H. split.
  - intros x. rewrite (list_snoc_last e n 0%N H) at 3. rewrite count_occ_app. lia.
  - intros w. rewrite (list_snoc_last e n 0%N H) at 1. rewrite vals_of_app, rev_app_distr. reflexivity.
Qed.

Lemma np_XPop k s vi : NPre k s -> np_res k s (XPop vi) (vstep_core k s (XPop vi)).
Proof.
  intros HP. unfold vstep_core. open_np HP Hg. pose proof Hs as [Hl He].
  destruct (vlen v) as [|n] eqn:El.
  - apply np_close_same; [exact HP|]. spec_open Hg. destruct (elems v); [reflexivity|discriminate].
  - rewrite (take_slot_ok _ v n (nth n (elems v) 0%N)) by (apply rd_elems; [exact Hs|lia]). cbv beta iota.
    rewrite setlen_ok by lia. cbv beta iota.
    destruct (elems_mk_le v n Hs ltac:(lia)) as [He1 Hs1]. destruct (pop_facts (elems v) n He) as [F1 F2].
    eapply np_close_setv; [exact HP|exact Hg|apply wev_refl| |].
    + intros _ y. rewrite He1, newids_0, cnt_nil. specialize (F1 y). lia.
    + intros Hsm. spec_open Hg. rewrite F2, rev_involutive, He1. reflexivity.
Qed.

Lemma In_firstn {A} (l : list A) n x : In x (firstn n l) -> In x l.
Proof. intros H. rewrite <- (firstn_skipn n l). apply in_or_app. now left. Qed.
Lemma In_skipn {A} (l : list A) n x : In x (skipn n l) -> In x l.
Proof. intros H. rewrite <- (firstn_skipn n l). apply in_or_app. now right. Qed.

Lemma np_XPopIf k s vi r : NPre k s -> np_res k s (XPopIf vi r) (vstep_core k s (XPopIf vi r)).
Proof.
  intros HP. unfold vstep_core. open_np HP Hg. pose proof Hs as [Hl He].
  destruct k as [c|]; [|apply np_close_same; [exact HP|spec_open Hg; reflexivity]].
  destruct (vlen v) as [|n] eqn:El.
  - apply np_close_same; [exact HP|]. spec_open Hg. destruct (elems v); [reflexivity|discriminate].
  - rewrite (take_slot_ok _ v n (nth n (elems v) 0%N)) by (apply rd_elems; [exact Hs|lia]). cbv beta iota.
    destruct (cb_pred_wev (wd s) (nth n (elems v) 0%N) r (np_pan _ _ HP)) as (w2 & E2 & Hev). rewrite E2.
    destruct (elems_mk_le v n Hs ltac:(lia)) as [He1 Hs1]. destruct (pop_facts (elems v) n He) as [F1 F2].
    destruct r.
    + rewrite setlen_ok by lia. cbv beta iota.
      eapply np_close_setv; [exact HP|exact Hg|exact Hev| |].
      * intros _ y. rewrite He1, newids_0, cnt_nil. specialize (F1 y). lia.
      * intros Hsm. spec_open Hg. rewrite F2, rev_involutive, He1. cbn [out_abs].
        rewrite (vals_of_stable (wd s) w2 (firstn n (elems v))); [|eapply wev_stable; eauto|].
        2:{ intros id Hin. left. eapply NPre_pool_small; eauto. eapply In_firstn; eauto. }
        rewrite (val_of_stable (wd s) w2); [reflexivity|eapply wev_stable; eauto|].
        left. eapply NPre_pool_small; eauto. apply nth_In. lia.
    + eapply np_close_setw; [exact HP|exact Hev| |].
      * intros y. rewrite newids_0. reflexivity.
      * intros Hsm. spec_open Hg. rewrite F2. reflexivity.
Qed.

Lemma np_reject k s o vi v x id w1 : NPre k s -> getv s vi = Some v -> wborn (wd s) w1 id x ->
  vspec k (vabs s) o = (vabs s, SPanicked) ->
  np_res k s o (match cb_drop (set_unw w1 true) id with Done _ w2 => (setw s w2, VPanicked) | Pan w2 => (setw s w2, VPanicked) end).
Proof.
  intros HP Hg Hb Hspec. pose proof (wev_born _ _ _ _ Hb) as Hev. pose proof Hb as (Hid & Hl1 & _).
  pose proof (wev_trans _ _ _ _ _ _ _ Hev (wev_set_unw w1 true)) as Hev1.
  destruct (cb_drop_wev (set_unw w1 true) id) as (w2 & E2 & Hev2).
  { apply (wev_pan_none _ _ _ _ Hev1 (np_pan _ _ HP)). }
  { cbn [live set_unw]. rewrite Hl1. now left. }
  rewrite E2. pose proof (wev_trans _ _ _ _ _ _ _ Hev1 Hev2) as Ht. cbn [app] in Ht.
  eapply np_close_setw; [exact HP|exact Ht| |].
  - intros y. cbn [length]. now rewrite newids_1, <- Hid.
  - intros _. exact Hspec.
Qed.

Lemma insert_steps_np k s o vi v v1 id x w1 i : NPre k s -> getv s vi = Some v -> wev (wd s) w1 [x] [] -> id = len (vals (wd s)) ->
  ((len (vals w1) < SRC_BASE)%N -> val_of w1 id = x) ->
  vsound v1 -> elems v1 = elems v -> i <= vlen v1 -> vlen v1 < vcapn v1 ->
  vspec k (vabs s) o = (ssetv (vabs s) vi (Some (insert_at (vals_of (wd s) (elems v)) i x)), SUnit) ->
  np_res k s o (let '(w2, v2) := write_slots w1 v1 (S i) (slots_from v1 i (vlen v1 - i)) in
                let '(w3, v3) := wr w2 v2 i (E id) in
                let '(w4, v4) := setlen w3 v3 (S (vlen v1)) in (setv s vi (Some v4) w4, VUnit)).
Proof.
  intros HP Hg Hev Hid Hval Hs1 He1 Hi Hc Hspec.
  rewrite write_slots_ok by (rewrite slots_from_length; lia). cbv beta iota.
  rewrite wr_ok by capsolve. cbv beta iota. rewrite setlen_ok by capsolve. cbv beta iota. cbn [slots vlen].
  fold (insertv v1 i id). destruct (insertv_spec v1 i id Hs1 Hi Hc) as (A & B & C).
  eapply np_close_setv0; [exact HP|exact Hg|exact Hev| |].
  - intros _ y. rewrite B, He1, cnt_insert_at. cbn [length]. rewrite newids_1, <- Hid. cnt_norm. lia.
  - intros Hsm. rewrite Hspec. cbn [out_abs]. do 3 f_equal. rewrite B, He1. unfold vals_of at 2. rewrite map_insert_at.
    fold (vals_of w1 (elems v)). rewrite (vals_old _ _ _ _ _ HP Hg (wev_stable _ _ _ _ Hev)). now rewrite (Hval Hsm).
Qed.

Lemma np_XInsert k s vi i x : NPre k s -> np_res k s (XInsert vi i x) (vstep_core k s (XInsert vi i x)).
Proof.
  intros HP. unfold vstep_core. open_np HP Hg. pose proof Hs as [Hl He].
  pose proof (fresh_spec (wd s) x) as Hb. destruct (fresh (wd s) x) as [id w1]. cbn [fst snd] in Hb.
  pose proof (wev_born _ _ _ _ Hb) as Hev. pose proof Hb as (Hid & Hl1 & _).
  destruct (Nat.ltb (vlen v) i) eqn:E1.
  { eapply np_reject; eauto. spec_open Hg. now rewrite vals_of_length, He, E1. }
  apply Nat.ltb_ge in E1. destruct k as [c|].
  - pose proof (vec_sound_cap _ _ Hvs) as Hcap. destruct (Nat.eqb (vlen v) c) eqn:E2.
    { apply Nat.eqb_eq in E2. eapply np_reject; eauto. spec_open Hg. rewrite vals_of_length, He.
      rewrite (proj2 (Nat.ltb_ge _ _)) by lia. unfold fits, cap_of. now rewrite (proj2 (Nat.leb_gt _ _)) by lia. }
    apply Nat.eqb_neq in E2. eapply insert_steps_np; eauto; try lia.
    + intros Hsm. apply (val_of_born _ _ _ _ _ Hb (stable_refl _) Hsm).
    + spec_open Hg. rewrite vals_of_length, He. rewrite (proj2 (Nat.ltb_ge _ _)) by lia. unfold fits, cap_of.
      now rewrite (proj2 (Nat.leb_le _ _)) by lia.
  - destruct (thin_reserve w1 v 1) as [w1' v1] eqn:Er.
    apply thin_reserve_spec in Er; [|exact Hs]. destruct Er as ((S1 & S1') & S2 & S3 & S4 & S5 & S6).
    rewrite <- S4. pose proof (wev_trans _ _ _ _ _ _ _ Hev (wev_same _ _ S1 S1')) as Ht. cbn [app] in Ht.
    eapply insert_steps_np; eauto; try lia.
    + intros Hsm. apply (val_of_born _ _ _ _ _ Hb); [|exact Hsm]. exists []. rewrite app_nil_r. destruct S1 as (_ & Hv & _). exact Hv.
    + spec_open Hg. rewrite vals_of_length, He. rewrite (proj2 (Nat.ltb_ge _ _)) by lia. reflexivity.
Qed.

Lemma np_XTryInsert k s vi i x : NPre k s -> np_res k s (XTryInsert vi i x) (vstep_core k s (XTryInsert vi i x)).
Proof.
  intros HP. unfold vstep_core. open_np HP Hg. pose proof Hs as [Hl He].
  destruct k as [c|]; [|apply np_close_same; [exact HP|spec_open Hg; reflexivity]].
  pose proof (fresh_spec (wd s) x) as Hb. destruct (fresh (wd s) x) as [id w1]. cbn [fst snd] in Hb.
  pose proof (wev_born _ _ _ _ Hb) as Hev. pose proof Hb as (Hid & Hl1 & _).
  pose proof (vec_sound_cap _ _ Hvs) as Hcap.
  destruct (Nat.ltb (vlen v) i) eqn:E1.
  { eapply np_close_hand; [exact HP|exact Hg|exact Hev| |].
    - intros y. cbn [length]. rewrite newids_1, <- Hid. cnt_norm. lia.
    - intros Hsm. spec_open Hg. rewrite vals_of_length, He, E1. cbn [out_abs].
      now rewrite (val_of_born _ _ _ _ _ Hb (stable_refl _) Hsm). }
  apply Nat.ltb_ge in E1. destruct (Nat.eqb (vlen v) c) eqn:E2.
  { apply Nat.eqb_eq in E2. eapply np_close_hand; [exact HP|exact Hg|exact Hev| |].
    - intros y. cbn [length]. rewrite newids_1, <- Hid. cnt_norm. lia.
    - intros Hsm. spec_open Hg. rewrite vals_of_length, He. rewrite (proj2 (Nat.ltb_ge _ _)) by lia.
      unfold fits, cap_of. rewrite (proj2 (Nat.leb_gt _ _)) by lia. cbn [out_abs].
      now rewrite (val_of_born _ _ _ _ _ Hb (stable_refl _) Hsm). }
  apply Nat.eqb_neq in E2. eapply insert_steps_np; eauto; try lia.
  - intros Hsm. apply (val_of_born _ _ _ _ _ Hb (stable_refl _) Hsm).
  - spec_open Hg. rewrite vals_of_length, He. rewrite (proj2 (Nat.ltb_ge _ _)) by lia. unfold fits, cap_of.
    now rewrite (proj2 (Nat.leb_le _ _)) by lia.
Qed.

Lemma np_XRemove k s vi i : NPre k s -> np_res k s (XRemove vi i) (vstep_core k s (XRemove vi i)).
Proof.
  intros HP. unfold vstep_core. open_np HP Hg. pose proof Hs as [Hl He].
  destruct (Nat.ltb i (vlen v)) eqn:E1.
  2:{ apply np_close_same; [exact HP|]. spec_open Hg. now rewrite vals_of_length, He, E1. }
  apply Nat.ltb_lt in E1.
  rewrite (take_slot_ok _ v i (nth i (elems v) 0%N)) by (apply rd_elems; [exact Hs|lia]). cbv beta iota.
  rewrite write_slots_ok by (rewrite slots_from_length; lia). cbv beta iota.
  rewrite setlen_ok by capsolve. cbv beta iota. cbn [slots vlen]. fold (removev v i).
  destruct (removev_spec v i Hs E1) as (A & B & C).
  eapply np_close_setv; [exact HP|exact Hg|apply wev_refl| |].
  - intros _ y. rewrite B, newids_0. cnt_norm. rewrite (cnt_remove_at (elems v) i y) by lia. lia.
  - intros _. spec_open Hg. rewrite vals_of_length, He. rewrite (proj2 (Nat.ltb_lt _ _)) by lia.
    rewrite B. unfold vals_of at 3. rewrite map_remove_at. cbn [out_abs]. now rewrite nth_vals_of by lia.
Qed.

Lemma np_XSwapRemove k s vi i : NPre k s -> np_res k s (XSwapRemove vi i) (vstep_core k s (XSwapRemove vi i)).
Proof.
  intros HP. unfold vstep_core. open_np HP Hg. pose proof Hs as [Hl He].
  destruct (Nat.ltb i (vlen v)) eqn:E1.
  2:{ apply np_close_same; [exact HP|]. spec_open Hg. now rewrite vals_of_length, He, E1. }
  apply Nat.ltb_lt in E1.
  rewrite (take_slot_ok _ v i (nth i (elems v) 0%N)) by (apply rd_elems; [exact Hs|lia]). cbv beta iota.
  assert (forall sl', length sl' = vcapn v ->
    (forall j, j < vlen v - 1 -> nth j sl' U = if Nat.eqb j i then rd v (vlen v - 1) else rd v j) ->
    np_res k s (XSwapRemove vi i) (hand (setv s vi (Some (mkV sl' (vlen v - 1))) (wd s)) [nth i (elems v) 0%N], VItem (nth i (elems v) 0%N))) as Hgen.
  { intros sl' H1 H2. destruct (swap_remove_spec v i sl' Hs E1 H1 H2) as (A & B & C).
    eapply np_close_setv; [exact HP|exact Hg|apply wev_refl| |].
    - intros _ y. rewrite B, newids_0. cnt_norm. rewrite (cnt_swap_list (elems v) i y) by lia. lia.
    - intros _. spec_open Hg. rewrite vals_of_length, He. rewrite (proj2 (Nat.ltb_lt _ _)) by lia.
      rewrite B. change (vals_of (wd s) (swap_list (elems v) i)) with (map (val_of (wd s)) (swap_list (elems v) i)).
      rewrite map_swap_list by lia. fold (vals_of (wd s) (elems v)). cbn [out_abs]. now rewrite nth_vals_of by lia. }
  destruct k as [c|].
  - rewrite wr_ok by lia. cbv beta iota. rewrite wr_ok by capsolve. cbv beta iota. rewrite setlen_ok by capsolve.
    cbv beta iota. cbn [slots vlen]. apply Hgen.
    + rewrite !updn_length. reflexivity.
    + intros j Hj. rewrite nth_updn_ne by lia. rewrite nth_updn by (unfold vcapn in Hl; lia). reflexivity.
  - rewrite wr_ok by lia. cbv beta iota. rewrite setlen_ok by capsolve. cbv beta iota. cbn [slots vlen]. apply Hgen.
    + rewrite !updn_length. reflexivity.
    + intros j Hj. rewrite nth_updn by (unfold vcapn in Hl; lia). reflexivity.
Qed.

Lemma wev_live_keep w w' e d x : wev w w' e d -> In x (live w) -> ~ In x d -> In x (live w').
Proof.
  intros Hev Hin Hn. apply cnt_In in Hin. apply cnt_notIn in Hn. apply cnt_In. pose proof (we_live _ _ _ _ Hev x). lia.
Qed.

Lemma trunc_np st w v m : pan w = None -> vsound v -> m <= vlen v -> subm (skipn m (elems v)) (live w) ->
  exists w2, drop_range st w (mkV (slots v) m) m (vlen v - m) = Done tt w2 /\ wev w w2 [] (skipn m (elems v)).
Proof.
  intros Hp Hs Hm Hsub. pose proof Hs as [Hl He].
  assert (firstn (vlen v - m) (skipn m (elems v)) = skipn m (elems v)) as HG by (apply firstn_all_ge; rewrite skipn_length; lia).
  destruct (drop_range_np st w (mkV (slots v) m) v m (vlen v - m) Hp eq_refl Hs ltac:(lia)) as (w2 & E2 & Hev); [now rewrite HG|].
  exists w2. rewrite HG in Hev. split; assumption.
Qed.

Lemma skipn_sub_live k s vi v m : NPre k s -> getv s vi = Some v -> subm (skipn m (elems v)) (live (wd s)).
Proof.
  intros HP Hg x. pose proof (NPre_elems_sub _ _ _ _ HP Hg x) as H. rewrite (cnt_firstn_skipn (elems v) m x) in H. lia.
Qed.

Lemma trunc_steps_np k st s o vi v m : NPre k s -> getv s vi = Some v -> vsound v -> m <= vlen v ->
  vspec k (vabs s) o = (ssetv (vabs s) vi (Some (firstn m (vals_of (wd s) (elems v)))), SUnit) ->
  np_res k s o (let '(w1, v1) := setlen (wd s) v m in
                match drop_range st w1 v1 m (vlen v - m) with
                | Done _ w2 => (setv s vi (Some v1) w2, VUnit)
                | Pan w2 => (setv s vi (Some v1) w2, VPanicked)
                end).
Proof.
  intros HP Hg Hs Hm Hspec. pose proof Hs as [Hl He]. rewrite setlen_ok by lia. cbv beta iota.
  destruct (trunc_np st (wd s) v m (np_pan _ _ HP) Hs Hm (skipn_sub_live _ _ _ _ m HP Hg)) as (w2 & E2 & Hev). rewrite E2.
  destruct (elems_mk_le v m Hs Hm) as [He1 Hs1].
  eapply np_close_setv0; [exact HP|exact Hg|exact Hev| |].
  - intros _ y. rewrite He1, newids_0, cnt_nil. rewrite (cnt_firstn_skipn (elems v) m y). lia.
  - intros _. rewrite Hspec. cbn [out_abs]. do 3 f_equal. rewrite He1.
    rewrite (vals_of_stable (wd s) w2 (firstn m (elems v))); [|eapply wev_stable; eauto|].
    + unfold vals_of. apply firstn_map.
    + intros id Hin. left. eapply NPre_pool_small; eauto. eapply In_firstn; eauto.
Qed.

Lemma np_XTruncate k s vi m : NPre k s -> np_res k s (XTruncate vi m) (vstep_core k s (XTruncate vi m)).
Proof.
  intros HP. unfold vstep_core. open_np HP Hg. pose proof Hs as [Hl He].
  assert (vlen v <= m -> vspec k (vabs s) (XTruncate vi m) = (vabs s, SUnit)) as Hsame.
  { intros Hle. spec_open Hg. rewrite firstn_all_ge by (rewrite vals_of_length; lia). rewrite ssetv_same; [reflexivity|now rewrite sgetv_vabs, Hg]. }
  destruct k as [c|].
  - destruct (Nat.ltb m (vlen v)) eqn:E.
    + apply Nat.ltb_lt in E. eapply trunc_steps_np; eauto; [lia|]. spec_open Hg. reflexivity.
    + apply Nat.ltb_ge in E. apply np_close_same; [exact HP|]. now apply Hsame.
  - destruct (Nat.ltb (vlen v) m) eqn:E.
    + apply Nat.ltb_lt in E. apply np_close_same; [exact HP|]. apply Hsame. lia.
    + apply Nat.ltb_ge in E. eapply trunc_steps_np; eauto. spec_open Hg. reflexivity.
Qed.

Lemma np_XClear k s vi : NPre k s -> np_res k s (XClear vi) (vstep_core k s (XClear vi)).
Proof.
  intros HP. unfold vstep_core. open_np HP Hg. pose proof Hs as [Hl He].
  destruct k as [c|].
  - destruct (Nat.ltb 0 (vlen v)) eqn:E.
    + pose proof (trunc_steps_np (KInline c) Stop s (XClear vi) vi v 0 HP Hg Hs ltac:(lia)) as H. rewrite Nat.sub_0_r in H.
      apply H. spec_open Hg. reflexivity.
    + apply Nat.ltb_ge in E. apply np_close_same; [exact HP|]. spec_open Hg.
      destruct (elems v) eqn:Ee; [|cbn [length] in He; lia]. cbn [vals_of map]. rewrite ssetv_same; [reflexivity|].
      rewrite sgetv_vabs, Hg. cbn [option_map]. now rewrite Ee.
  - pose proof (trunc_steps_np KThin Continue s (XClear vi) vi v 0 HP Hg Hs ltac:(lia)) as H. rewrite Nat.sub_0_r in H.
    apply H. spec_open Hg. reflexivity.
Qed.

Lemma np_XResizeWith k s vi m x : NPre k s -> np_res k s (XResizeWith vi m x) (vstep_core k s (XResizeWith vi m x)).
Proof.
  intros HP. unfold vstep_core. open_np HP Hg. pose proof Hs as [Hl He].
  destruct k as [c|]; [|apply np_close_same; [exact HP|spec_open Hg; reflexivity]].
  pose proof (vec_sound_cap _ _ Hvs) as Hcap.
  destruct (Nat.ltb (vlen v) m) eqn:E1.
  - apply Nat.ltb_lt in E1. destruct (Nat.ltb c m) eqn:E2.
    + apply Nat.ltb_lt in E2. apply np_close_same; [exact HP|]. spec_open Hg. rewrite vals_of_length, He.
      rewrite (proj2 (Nat.ltb_lt _ _)) by lia. unfold fits, cap_of. now rewrite (proj2 (Nat.leb_gt _ _)) by lia.
    + apply Nat.ltb_ge in E2. fold (rw_go x).
      destruct (rwgo_np x (m - vlen v) (wd s) v (vlen v) (np_pan _ _ HP) Hs eq_refl ltac:(lia)) as (w' & v' & E' & Hev & A & B & D).
      rewrite E'. eapply np_close_setv0; [exact HP|exact Hg|exact Hev| |].
      * intros _ y. rewrite D, repeat_length. cnt_norm. lia.
      * intros Hsm. spec_open Hg. rewrite vals_of_length, He. rewrite (proj2 (Nat.ltb_lt _ _)) by lia.
        unfold fits, cap_of. rewrite (proj2 (Nat.leb_le _ _)) by lia. rewrite D, vals_of_app.
        rewrite (vals_old _ _ _ _ _ HP Hg (wev_stable _ _ _ _ Hev)).
        pose proof (vals_of_newids (wd s) w' w' _ (we_vals _ _ _ _ Hev) (stable_refl _) Hsm) as Hn. rewrite repeat_length in Hn.
        now rewrite Hn.
  - apply Nat.ltb_ge in E1. destruct (Nat.ltb m (vlen v)) eqn:E2.
    + apply Nat.ltb_lt in E2. eapply trunc_steps_np; eauto; try lia. spec_open Hg. rewrite vals_of_length, He.
      now rewrite (proj2 (Nat.ltb_ge _ _)) by lia.
    + apply Nat.ltb_ge in E2. apply np_close_same; [exact HP|]. spec_open Hg. rewrite vals_of_length, He.
      rewrite (proj2 (Nat.ltb_ge _ _)) by lia. rewrite firstn_all_ge by (rewrite vals_of_length; lia).
      rewrite ssetv_same; [reflexivity|now rewrite sgetv_vabs, Hg].
Qed.

Lemma drop_value_np k s o vi v0 v id w (u1 u2 : vout) ext died : NPre k s -> getv s vi = Some v0 ->
  wev (wd s) w ext died -> In id (live w) ->
  (no_forget o -> forall y, cnt (elems v) y + cnt died y + cnt [id] y = cnt (elems v0) y + cnt (newids (wd s) (length ext)) y) ->
  (forall w2, stable w w2 -> (len (vals w2) < SRC_BASE)%N ->
     vspec k (vabs s) o = (ssetv (vabs s) vi (Some (vals_of w2 (elems v))), out_abs w2 u1)) ->
  np_res k s o (match cb_drop w id with
                | Done _ w2 => (setv s vi (Some v) w2, u1)
                | Pan w2 => (setv s vi (Some v) w2, u2)
                end).
Proof.
  intros HP Hg Hev Hin Hbal Hspec.
  destruct (cb_drop_wev w id (wev_pan_none _ _ _ _ Hev (np_pan _ _ HP)) Hin) as (w2 & E2 & Hev2). rewrite E2.
  pose proof (wev_trans _ _ _ _ _ _ _ Hev Hev2) as Ht. rewrite app_nil_r in Ht.
  eapply np_close_setv0; [exact HP|exact Hg|exact Ht| |].
  - intros Hnf y. specialize (Hbal Hnf y). cnt_norm. lia.
  - intros Hsm. apply Hspec; [eapply wev_stable; eauto|exact Hsm].
Qed.

Lemma map_repeat {A B} (f : A -> B) x n : map f (repeat x n) = repeat (f x) n.
Proof. induction n as [|n IH]; cbn [repeat map]; [reflexivity|now rewrite IH]. Qed.

Lemma newids_same_vals w w' n : vals w' = vals w -> newids w' n = newids w n.
Proof. intros H. unfold newids. now rewrite H. Qed.

Lemma elems_not_fresh k s vi v : NPre k s -> getv s vi = Some v -> ~ In (len (vals (wd s))) (elems v).
Proof. intros HP Hg Hin. pose proof (NPre_pool_small _ _ HP _ _ Hg _ Hin). lia. Qed.

Lemma np_XResize k s vi m x : NPre k s -> np_res k s (XResize vi m x) (vstep_core k s (XResize vi m x)).
Proof.
  intros HP. unfold vstep_core. open_np HP Hg. pose proof Hs as [Hl He].
  pose proof (fresh_spec (wd s) x) as Hb. destruct (fresh (wd s) x) as [id w1]. cbn [fst snd] in Hb.
  pose proof (wev_born _ _ _ _ Hb) as Hev. pose proof Hb as (Hid & Hl1 & Hv1 & _).
  assert (In id (live w1)) as Hin1 by (rewrite Hl1; now left).
  assert (Hbal0 : forall y, cnt [id] y = cnt (newids (wd s) 1) y) by (intros y; now rewrite newids_1, <- Hid).
  (* the three shapes of the specification *)
  assert (Hspec_pan : (vlen v <? m) = true -> fits k m = false -> forall w2, stable w1 w2 -> (len (vals w2) < SRC_BASE)%N ->
            vspec k (vabs s) (XResize vi m x) = (ssetv (vabs s) vi (Some (vals_of w2 (elems v))), out_abs w2 VPanicked)).
  { intros E1 E2 w2 Hst _. spec_open Hg. rewrite vals_of_length, He, E1, E2.
    rewrite (vals_old _ _ _ _ _ HP Hg (stable_trans _ _ _ (wev_stable _ _ _ _ Hev) Hst)).
    rewrite ssetv_same; [reflexivity|now rewrite sgetv_vabs, Hg]. }
  assert (Hspec_shrink : (vlen v <? m) = false -> forall v2 w2, elems v2 = firstn m (elems v) -> stable w1 w2 -> (len (vals w2) < SRC_BASE)%N ->
            vspec k (vabs s) (XResize vi m x) = (ssetv (vabs s) vi (Some (vals_of w2 (elems v2))), out_abs w2 VUnit)).
  { intros E1 v2 w2 He2 Hst _. spec_open Hg. rewrite vals_of_length, He, E1, He2.
    rewrite (vals_of_stable (wd s) w2 (firstn m (elems v))); [|exact (stable_trans _ _ _ (wev_stable _ _ _ _ Hev) Hst)|].
    - unfold vals_of. now rewrite firstn_map.
    - intros i Hi. left. eapply NPre_pool_small; eauto. eapply In_firstn; eauto. }
  destruct k as [c|].
  - pose proof (vec_sound_cap _ _ Hvs) as Hcap.
    destruct (Nat.ltb (vlen v) m) eqn:E1.
    + destruct (Nat.ltb c m) eqn:E2.
      * apply Nat.ltb_lt in E2.
        eapply (drop_value_np _ s _ vi v v id (set_unw w1 true)); [exact HP|exact Hg|exact (wev_trans _ _ _ _ _ _ _ Hev (wev_set_unw w1 true))|exact Hin1| |].
        -- intros _ y. cbn [app length]. rewrite <- Hbal0. cnt_norm. lia.
        -- intros w2 Hst Hsm. apply Hspec_pan; auto. unfold fits, cap_of. apply Nat.leb_gt. lia.
      * apply Nat.ltb_lt in E1. apply Nat.ltb_ge in E2.
        destruct (cib_np (repeat id (m - vlen v)) w1 v (vlen v) (wev_pan_none _ _ _ _ Hev (np_pan _ _ HP)) Hs eq_refl) as (w2 & v2 & E' & Hev2 & A & B & C & D).
        { rewrite repeat_length. lia. }
        { intros i Hi. apply repeat_spec in Hi. subst i. left. rewrite Hv1, len_app, Hid. cbn. lia. }
        rewrite E'. rewrite repeat_length in D. rewrite map_repeat in Hev2.
        pose proof (wev_trans _ _ _ _ _ _ _ Hev Hev2) as Ht. cbn [app] in Ht.
        eapply (drop_value_np _ s _ vi v v2 id w2); [exact HP|exact Hg|exact Ht| | |].
        -- apply (wev_live_keep _ _ _ _ _ Hev2 Hin1). intros [].
        -- intros _ y. rewrite D. cbn [length]. rewrite repeat_length.
           change (S (m - vlen v)) with (1 + (m - vlen v)). rewrite (newids_app (wd s) w1 1) by (rewrite Hv1, len_app; reflexivity).
           cnt_norm. rewrite <- (Hbal0 y). lia.
        -- intros w3 Hst Hsm. spec_open Hg. rewrite vals_of_length, He, (proj2 (Nat.ltb_lt _ _) E1).
           unfold fits, cap_of. rewrite (proj2 (Nat.leb_le _ _)) by lia. rewrite D, vals_of_app.
           rewrite (vals_old _ _ _ _ _ HP Hg (stable_trans _ _ _ (wev_stable _ _ _ _ Ht) Hst)).
           pose proof (vals_of_newids w1 w2 w3 _ (we_vals _ _ _ _ Hev2) Hst Hsm) as Hn. rewrite repeat_length in Hn. rewrite Hn.
           rewrite (val_of_born _ _ w1 _ _ Hb (stable_refl _)); [reflexivity|].
           pose proof (stable_len _ _ (stable_trans _ _ _ (wev_stable _ _ _ _ Hev2) Hst)). lia.
    + apply Nat.ltb_ge in E1. destruct (Nat.ltb m (vlen v)) eqn:E2.
      * apply Nat.ltb_lt in E2. rewrite setlen_ok by lia. cbv beta iota.
        destruct (trunc_np Stop w1 v m (wev_pan_none _ _ _ _ Hev (np_pan _ _ HP)) Hs E1) as (w3 & E3 & Hev3).
        { intros y. pose proof (skipn_sub_live _ _ _ _ m HP Hg y). rewrite Hl1, (cnt_cons id). lia. }
        rewrite E3. destruct (elems_mk_le v m Hs E1) as [He1 Hs1].
        pose proof (wev_trans _ _ _ _ _ _ _ Hev Hev3) as Ht. cbn [app] in Ht.
        eapply (drop_value_np _ s _ vi v _ id w3); [exact HP|exact Hg|exact Ht| | |].
        -- apply (wev_live_keep _ _ _ _ _ Hev3 Hin1). intros Hc. apply In_skipn in Hc. rewrite Hid in Hc. eapply elems_not_fresh; eauto.
        -- intros _ y. rewrite He1. cbn [length]. rewrite <- (Hbal0 y). rewrite (cnt_firstn_skipn (elems v) m y). lia.
        -- intros w4 Hst Hsm. apply Hspec_shrink; auto. eapply stable_trans; [apply (wev_stable _ _ _ _ Hev3)|exact Hst].
      * apply Nat.ltb_ge in E2. cbv beta iota.
        eapply (drop_value_np _ s _ vi v v id w1); [exact HP|exact Hg|exact Hev|exact Hin1| |].
        -- intros _ y. cbn [length]. cnt_norm. rewrite <- (Hbal0 y). lia.
        -- intros w4 Hst Hsm. apply Hspec_shrink; auto. symmetry. apply firstn_all_ge. lia.
  - destruct (Nat.ltb (vlen v) m) eqn:E1.
    + apply Nat.ltb_lt in E1. destruct (thin_reserve w1 v (m - vlen v)) as [w2 v2] eqn:Er.
      apply thin_reserve_spec in Er; [|exact Hs]. destruct Er as ((S1 & S1') & S2 & S3 & S4 & S5 & S6).
      pose proof (wev_trans _ _ _ _ _ _ _ Hev (wev_same _ _ S1 S1')) as Hev12. cbn [app] in Hev12.
      assert (vals w2 = vals w1) as Hv2 by (destruct S1 as (_ & Hv & _); exact Hv).
      destruct (cib_np (repeat id (m - vlen v - 1)) w2 v2 (vlen v) (wev_pan_none _ _ _ _ Hev12 (np_pan _ _ HP)) S6 S4) as (w3 & v3 & E' & Hev3 & A & B & C & D).
      { rewrite repeat_length. lia. }
      { intros i Hi. apply repeat_spec in Hi. subst i. left. rewrite Hv2, Hv1, len_app, Hid. cbn. lia. }
      rewrite E'. rewrite repeat_length in C, D. rewrite map_repeat in Hev3.
      assert (m - 1 = vlen v3) as -> by lia. rewrite wr_ok by lia. cbv beta iota.
      rewrite setlen_ok by capsolve. cbv beta iota. cbn [slots vlen].
      assert (mkV (updn (slots v3) (vlen v3) (E id)) m = pushv v3 id) as -> by (unfold pushv; f_equal; lia).
      destruct (pushv_spec v3 id A ltac:(lia)) as (X1 & X2 & X3 & X4).
      pose proof (wev_trans _ _ _ _ _ _ _ Hev12 Hev3) as Ht. cbn [app] in Ht.
      eapply np_close_setv0; [exact HP|exact Hg|exact Ht| |].
      * intros _ y. rewrite X2, D, S5. cbn [length]. rewrite repeat_length.
        change (S (m - vlen v - 1)) with (1 + (m - vlen v - 1)). rewrite (newids_app (wd s) w1 1) by (rewrite Hv1, len_app; reflexivity).
        rewrite (newids_same_vals w1 w2 _ Hv2). cnt_norm. rewrite <- (Hbal0 y). lia.
      * intros Hsm. spec_open Hg. rewrite vals_of_length, He, (proj2 (Nat.ltb_lt _ _) E1). unfold fits, cap_of.
        rewrite X2, D, S5, !vals_of_app. rewrite (vals_old _ _ _ _ _ HP Hg (wev_stable _ _ _ _ Ht)).
        pose proof (vals_of_newids w2 w3 w3 _ (we_vals _ _ _ _ Hev3) (stable_refl _) Hsm) as Hn. rewrite repeat_length in Hn. rewrite Hn.
        assert (stable w1 w2) as Hst12 by (exists []; now rewrite app_nil_r).
        assert (val_of w2 id = x) as Hx2.
        { apply (val_of_born _ _ w2 _ _ Hb Hst12). pose proof (stable_len _ _ (wev_stable _ _ _ _ Hev3)). lia. }
        assert (val_of w3 id = x) as Hx3.
        { apply (val_of_born _ _ w3 _ _ Hb); [|exact Hsm]. apply (stable_trans _ _ _ Hst12 (wev_stable _ _ _ _ Hev3)). }
        cbn [vals_of map]. rewrite Hx2, Hx3. do 3 f_equal.
        rewrite <- app_assoc. f_equal.
        assert (exists k', m - vlen v = S k' /\ m - vlen v - 1 = k') as (k' & -> & ->) by (exists (m - vlen v - 1); lia).
        cbn [repeat]. apply repeat_cons.
    + apply Nat.ltb_ge in E1. rewrite setlen_ok by lia. cbv beta iota.
      destruct (trunc_np Continue w1 v m (wev_pan_none _ _ _ _ Hev (np_pan _ _ HP)) Hs E1) as (w3 & E3 & Hev3).
      { intros y. pose proof (skipn_sub_live _ _ _ _ m HP Hg y). rewrite Hl1, (cnt_cons id). lia. }
      rewrite E3. destruct (elems_mk_le v m Hs E1) as [He1 Hs1].
      pose proof (wev_trans _ _ _ _ _ _ _ Hev Hev3) as Ht. cbn [app] in Ht.
      eapply (drop_value_np _ s _ vi v _ id w3); [exact HP|exact Hg|exact Ht| | |].
      * apply (wev_live_keep _ _ _ _ _ Hev3 Hin1). intros Hc. apply In_skipn in Hc. rewrite Hid in Hc. eapply elems_not_fresh; eauto.
      * intros _ y. rewrite He1. cbn [length]. rewrite <- (Hbal0 y). rewrite (cnt_firstn_skipn (elems v) m y). lia.
      * intros w4 Hst Hsm. apply Hspec_shrink; auto. eapply stable_trans; [apply (wev_stable _ _ _ _ Hev3)|exact Hst].
Qed.

(** the vector is replaced by one with the same elements *)
Lemma np_same_elems k s o vi v v1 w1 : NPre k s -> getv s vi = Some v -> wsame (wd s) w1 -> wheap (wd s) w1 -> elems v1 = elems v ->
  vspec k (vabs s) o = (vabs s, SUnit) -> np_res k s o (setv s vi (Some v1) w1, VUnit).
Proof.
  intros HP Hg S1 S1' He Hspec. pose proof (wev_same _ _ S1 S1') as Hev.
  eapply np_close_setv0; [exact HP|exact Hg|exact Hev| |].
  - intros _ y. rewrite He, newids_0. cnt_norm. lia.
  - intros _. rewrite Hspec. cbn [out_abs]. f_equal. rewrite He, (vals_old _ _ _ _ _ HP Hg (wev_stable _ _ _ _ Hev)).
    symmetry. apply ssetv_same. now rewrite sgetv_vabs, Hg.
Qed.

Lemma np_XReserve k s vi m : NPre k s -> np_res k s (XReserve vi m) (vstep_core k s (XReserve vi m)).
Proof.
  intros HP. unfold vstep_core. open_np HP Hg.
  destruct k as [c|]; [apply np_close_same; [exact HP|spec_open Hg; reflexivity]|].
  destruct (thin_reserve (wd s) v m) as [w1 v1] eqn:Er.
  apply thin_reserve_spec in Er; [|exact Hs]. destruct Er as ((S1 & S1') & S2 & S3 & S4 & S5 & S6).
  eapply np_same_elems; eauto. spec_open Hg. reflexivity.
Qed.
Lemma np_XReserveExact k s vi m : NPre k s -> np_res k s (XReserveExact vi m) (vstep_core k s (XReserveExact vi m)).
Proof.
  intros HP. unfold vstep_core. open_np HP Hg.
  destruct k as [c|]; [apply np_close_same; [exact HP|spec_open Hg; reflexivity]|].
  destruct (thin_reserve_exact (wd s) v m) as [w1 v1] eqn:Er.
  apply thin_reserve_exact_spec in Er; [|exact Hs]. destruct Er as ((S1 & S1') & S2 & S4 & S5 & S6).
  eapply np_same_elems; eauto. spec_open Hg. reflexivity.
Qed.
Lemma np_XShrinkTo k s vi m : NPre k s -> np_res k s (XShrinkTo vi m) (vstep_core k s (XShrinkTo vi m)).
Proof.
  intros HP. unfold vstep_core. open_np HP Hg.
  destruct k as [c|]; [apply np_close_same; [exact HP|spec_open Hg; reflexivity]|].
  destruct (Nat.leb (vcapn v) m); [apply np_close_same; [exact HP|spec_open Hg; reflexivity]|].
  destruct (set_cap (wd s) v (Nat.max m (vlen v))) as [w1 v1] eqn:Er.
  apply set_cap_spec in Er; [|exact Hs|lia]. destruct Er as ((S1 & S1') & S2 & S4 & S5 & S6).
  eapply np_same_elems; eauto. spec_open Hg. reflexivity.
Qed.
Lemma np_XShrinkToFit k s vi : NPre k s -> np_res k s (XShrinkToFit vi) (vstep_core k s (XShrinkToFit vi)).
Proof.
  intros HP. unfold vstep_core. open_np HP Hg.
  destruct k as [c|]; [apply np_close_same; [exact HP|spec_open Hg; reflexivity]|].
  destruct (Nat.eqb (vlen v) (vcapn v)); [apply np_close_same; [exact HP|spec_open Hg; reflexivity]|].
  destruct (set_cap (wd s) v (vlen v)) as [w1 v1] eqn:Er.
  apply set_cap_spec in Er; [|exact Hs|lia]. destruct Er as ((S1 & S1') & S2 & S4 & S5 & S6).
  eapply np_same_elems; eauto. spec_open Hg. reflexivity.
Qed.

Lemma np_XDropV k s vi : NPre k s -> np_res k s (XDropV vi) (vstep_core k s (XDropV vi)).
Proof.
  intros HP. unfold vstep_core. open_np HP Hg.
  destruct (drop_vec_np k (wd s) v (np_pan _ _ HP) Hs (NPre_elems_sub _ _ _ _ HP Hg)) as (w1 & E1 & Hev). rewrite E1.
  apply (np_close_upd k s (XDropV vi) _ vi v None [] VUnit [] (elems v) HP Hg); [reflexivity| | | | |].
  - intros y. cbn [handed setv]. rewrite cnt_nil. lia.
  - cbn [wd setv]. destruct k; [apply wev_wev0; exact Hev|]. eapply wev0_post; [apply wev_wev0; exact Hev|wsame_tac].
  - intros _ y. cbn [oelems]. rewrite newids_0. cnt_norm. lia.
  - intros Hh _. destruct (we_heap _ _ _ _ Hev) as [Ha Hf]. unfold heap_ok in *. cbn [wd pool setv]. destruct k as [c|].
    + destruct Hh as [H1 H2]. split; congruence.
    + unfold ev_free; wfields. fold (pvn (updn (pool s) (N.to_nat vi) None)). fold (pvn (pool s)) in Hh.
      pose proof (pvn_updn_none (pool s) (N.to_nat vi) v (proj1 (getv_nth _ _ _) Hg)). rewrite Ha, Hf, Hh. lia.
  - intros _. spec_open Hg. reflexivity.
Qed.

Lemma np_XIntoIter k s vi front back : NPre k s -> np_res k s (XIntoIter vi front back) (vstep_core k s (XIntoIter vi front back)).
Proof.
  intros HP. unfold vstep_core. open_np HP Hg. pose proof Hs as [Hl He].
  destruct k as [c|]; [|apply np_close_same; [exact HP|spec_open Hg; reflexivity]].
  set (n := vlen v) in *. set (f := Nat.min front n). set (bk := Nat.min back (n - f)).
  destruct (take_both_ok (wd s) v v 0 n f bk eq_refl Hs ltac:(lia) ltac:(lia)) as [T1 T2].
  rewrite T1. cbv beta iota. rewrite T2. cbv beta iota.
  set (ids1 := firstn f (skipn 0 (elems v))). set (ids2 := rev (firstn bk (skipn (n - bk) (elems v)))).
  assert (forall y, cnt (elems v) y = cnt ids1 y + cnt (firstn (n - bk - f) (skipn f (elems v))) y + cnt ids2 y) as Hsplit.
  { intros y. unfold ids1, ids2. cnt_norm. rewrite (cnt_split5 (elems v) 0 f (n - bk - f) bk y). cbn [Nat.add firstn].
    replace (f + (n - bk - f)) with (n - bk) by lia. replace (n - bk + bk) with n by lia.
    rewrite (@skipn_all2 _ n (elems v)) by lia. cnt_norm. lia. }
  destruct (drop_range_np Stop (wd s) v v f (n - bk - f) (np_pan _ _ HP) eq_refl Hs ltac:(fold n; lia)) as (w4 & E4 & Hev).
  { intros y. pose proof (NPre_elems_sub _ _ _ _ HP Hg y). rewrite (Hsplit y) in *. lia. }
  rewrite E4.
  apply (np_close_upd (KInline c) s _ _ vi v None (ids1 ++ ids2) (VItems (ids1 ++ ids2)) [] (firstn (n - bk - f) (skipn f (elems v))) HP Hg); [reflexivity| |apply wev_wev0; exact Hev| | |].
  - intros y. cbn [handed hand setv]. now rewrite count_occ_app.
  - intros _ y. cbn [oelems]. rewrite newids_0. cnt_norm. rewrite (Hsplit y). lia.
  - intros [H1 H2] _. destruct (we_heap _ _ _ _ Hev) as [Ha Hf]. unfold heap_ok. cbn [wd hand setv]. split; congruence.
  - intros _. spec_open Hg. cbn [out_abs wd hand setv option_map]. rewrite vals_of_length, He. fold n f bk. do 3 f_equal.
    assert (stable (wd s) w4) as Hst by (eapply wev_stable; eauto).
    rewrite (vals_of_stable (wd s) w4 (ids1 ++ ids2) Hst).
    + unfold ids1, ids2, vals_of. cbn [skipn]. rewrite map_app, map_rev, <- !firstn_map, <- !skipn_map. reflexivity.
    + intros id Hin. left. eapply NPre_pool_small; eauto. apply in_app_or in Hin. destruct Hin as [Hin|Hin].
      * unfold ids1 in Hin. apply In_firstn in Hin. exact Hin.
      * unfold ids2 in Hin. apply in_rev in Hin. apply In_firstn, In_skipn in Hin. exact Hin.
Qed.

Lemma np_XDrain k s vi b1 b2 front back forget : NPre k s ->
  np_res k s (XDrain vi b1 b2 front back forget) (vstep_core k s (XDrain vi b1 b2 front back forget)).
Proof.
  intros HP. unfold vstep_core. open_np HP Hg. pose proof Hs as [Hl He].
  destruct (to_range b1 b2 (vlen v)) as [[a b]|] eqn:Et.
  2:{ apply np_close_same; [exact HP|]. spec_open Hg. now rewrite vals_of_length, He, Et. }
  pose proof (to_range_ok _ _ _ _ _ Et) as Hab.
  set (n := vlen v) in *. rewrite setlen_ok by lia. cbv beta iota.
  set (f := Nat.min front (b - a)). set (bk := Nat.min back (b - a - f)). set (v1 := mkV (slots v) a).
  destruct (take_both_ok (wd s) v1 v a b f bk eq_refl Hs ltac:(lia) ltac:(lia)) as [T1 T2].
  rewrite T1. cbv beta iota. rewrite T2. cbv beta iota.
  set (ids1 := firstn f (skipn a (elems v))). set (ids2 := rev (firstn bk (skipn (b - bk) (elems v)))).
  destruct (elems_mk_le v a Hs ltac:(lia)) as [He1 Hs1]. fold v1 in He1, Hs1.
  set (mid := firstn (b - bk - (a + f)) (skipn (a + f) (elems v))).
  assert (forall x, cnt (elems v) x = cnt (firstn a (elems v)) x + cnt ids1 x + cnt mid x + cnt ids2 x + cnt (skipn b (elems v)) x) as Hsplit.
  { intros x. unfold ids1, ids2, mid. cnt_norm. rewrite (cnt_split5 (elems v) a f (b - bk - (a + f)) bk x).
    replace (a + f + (b - bk - (a + f))) with (b - bk) by lia. replace (b - bk + bk) with b by lia. lia. }
  assert (forall w', stable (wd s) w' -> vals_of w' (ids1 ++ ids2) =
            firstn f (skipn a (vals_of (wd s) (elems v))) ++ rev (firstn bk (skipn (b - bk) (vals_of (wd s) (elems v))))) as Hgot.
  { intros w' Hst. rewrite (vals_of_stable (wd s) w' (ids1 ++ ids2) Hst).
    - unfold ids1, ids2, vals_of. rewrite map_app, map_rev, <- !firstn_map, <- !skipn_map. reflexivity.
    - intros id Hin. left. eapply NPre_pool_small; eauto. apply in_app_or in Hin. destruct Hin as [Hin|Hin].
      + unfold ids1 in Hin. apply In_firstn, In_skipn in Hin. exact Hin.
      + unfold ids2 in Hin. apply in_rev in Hin. apply In_firstn, In_skipn in Hin. exact Hin. }
  unfold drain_finish. destruct forget.
  - eapply np_close_setv; [exact HP|exact Hg|apply wev_refl| |].
    + intros [].
    + intros _. spec_open Hg. rewrite vals_of_length, He. fold n. rewrite Et. fold f bk. cbn [out_abs].
      rewrite (Hgot _ (stable_refl _)), He1. unfold vals_of. now rewrite firstn_map.
  - destruct (drop_range_np Continue (wd s) v1 v (a + f) (b - bk - (a + f)) (np_pan _ _ HP) eq_refl Hs ltac:(fold n; lia)) as (w1 & E1 & Hev).
    { fold mid. intros y. pose proof (NPre_elems_sub _ _ _ _ HP Hg y). rewrite (Hsplit y) in *. lia. }
    fold mid in Hev. rewrite E1.
    cbn [vlen v1]. rewrite write_slots_ok by (rewrite slots_from_length; unfold vcapn, v1 in *; cbn [slots]; lia). cbv beta iota.
    rewrite setlen_ok by (unfold vcapn, v1 in *; cbn [slots]; rewrite wrl_length; lia). cbv beta iota. cbn [slots].
    rewrite (slots_from_ext v v1 b (n - b) eq_refl).
    destruct (wrl_copy v1 v a b (n - b) Hs1 ltac:(cbn; lia) Hs ltac:(fold n; lia) ltac:(unfold vcapn, v1 in *; cbn [slots]; lia)) as (A & B & C).
    cbv zeta in *. cbn [slots v1] in *.
    change (elems (mkV (slots v) a)) with (elems v1) in B. rewrite He1, firstn_firstn, Nat.min_id in B.
    rewrite (firstn_all_ge (skipn b (elems v))) in B by (rewrite skipn_length; lia).
    eapply np_close_setv; [exact HP|exact Hg|exact Hev| |].
    + intros _ y. rewrite B, newids_0. cnt_norm. rewrite (Hsplit y). unfold mid. lia.
    + intros _. spec_open Hg. rewrite vals_of_length, He. fold n. rewrite Et. fold f bk. cbn [out_abs].
      assert (stable (wd s) w1) as Hst by (eapply wev_stable; eauto).
      rewrite (Hgot _ Hst), B. rewrite (vals_of_stable (wd s) w1 _ Hst).
      * unfold vals_of. now rewrite map_app, <- firstn_map, <- skipn_map.
      * intros id Hin. left. eapply NPre_pool_small; eauto. apply in_app_or in Hin. destruct Hin as [Hin|Hin].
        -- apply In_firstn in Hin. exact Hin.
        -- apply In_skipn in Hin. exact Hin.
Qed.

Lemma val_of_srcs w srcs : Forall (fun id => (SRC_BASE <= id)%N) srcs -> map (val_of w) srcs = map src_val srcs.
Proof.
  intros H. apply map_ext_in. intros id Hin. rewrite Forall_forall in H. specialize (H id Hin).
  unfold val_of, src_val. now rewrite (proj2 (N.leb_le _ _) H).
Qed.

Lemma np_XExtendFromSlice k s vi srcs : NPre k s -> vop_ok (XExtendFromSlice vi srcs) ->
  np_res k s (XExtendFromSlice vi srcs) (vstep_core k s (XExtendFromSlice vi srcs)).
Proof.
  intros HP Hok. cbn [vop_ok] in Hok. unfold vstep_core. open_np HP Hg. pose proof Hs as [Hl He].
  assert (Hst : forall id, In id srcs -> forall w, (id < len (vals w) \/ SRC_BASE <= id)%N).
  { intros id Hin w. right. rewrite Forall_forall in Hok. now apply Hok. }
  destruct k as [c|].
  - pose proof (vec_sound_cap _ _ Hvs) as Hcap.
    destruct (Nat.ltb c (vlen v + length srcs)) eqn:E1.
    + apply Nat.ltb_lt in E1. apply np_close_same; [exact HP|]. spec_open Hg. rewrite vals_of_length, He. unfold fits, cap_of.
      now rewrite (proj2 (Nat.leb_gt _ _)) by lia.
    + apply Nat.ltb_ge in E1.
      destruct (cib_np srcs (wd s) v (vlen v) (np_pan _ _ HP) Hs eq_refl ltac:(lia)) as (w' & v' & E' & Hev & A & B & C & D).
      { intros id Hin. now apply Hst. }
      rewrite E'. rewrite (val_of_srcs _ _ Hok) in Hev.
      eapply np_close_setv0; [exact HP|exact Hg|exact Hev| |].
      * intros _ y. rewrite D, map_length. cnt_norm. lia.
      * intros Hsm. spec_open Hg. rewrite vals_of_length, He. unfold fits, cap_of. rewrite (proj2 (Nat.leb_le _ _)) by lia.
        rewrite D, vals_of_app, (vals_old _ _ _ _ _ HP Hg (wev_stable _ _ _ _ Hev)).
        pose proof (vals_of_newids (wd s) w' w' _ (we_vals _ _ _ _ Hev) (stable_refl _) Hsm) as Hn. rewrite map_length in Hn. now rewrite Hn.
  - destruct (thin_reserve (wd s) v (length srcs)) as [w1 v1] eqn:Er.
    apply thin_reserve_spec in Er; [|exact Hs]. destruct Er as ((S1 & S1') & S2 & S3 & S4 & S5 & S6).
    pose proof (wev_same _ _ S1 S1') as Hev1.
    destruct (gc_np srcs w1 v1 (vlen v) (vlen v) (wev_pan_none _ _ _ _ Hev1 (np_pan _ _ HP)) S6 S4 ltac:(lia) ltac:(lia))
      as (w2 & v2 & E' & Hev2 & A & B & C & D & F).
    { intros id Hin. now apply Hst. }
    rewrite E'. rewrite (val_of_srcs _ _ Hok) in Hev2. rewrite setlen_ok by lia. cbv beta iota.
    specialize (F [] ltac:(rewrite Nat.sub_diag; reflexivity)). cbn [app] in F.
    replace (vlen v + length srcs - vlen v) with (length srcs) in F by lia. rewrite <- C in F at 1.
    destruct (elems_extend v2 (length srcs) _ A F ltac:(lia)) as [Z1 Z2]. rewrite C in Z1, Z2.
    pose proof (wev_trans _ _ _ _ _ _ _ Hev1 Hev2) as Ht. cbn [app] in Ht.
    assert (newids w1 (length srcs) = newids (wd s) (length srcs)) as Hnw by (apply newids_same_vals; destruct S1 as (_ & Hv & _); exact Hv).
    eapply np_close_setv0; [exact HP|exact Hg|exact Ht| |].
    + intros _ y. rewrite Z2, D, S5, map_length, Hnw. cnt_norm. lia.
    + intros Hsm. spec_open Hg. unfold fits, cap_of.
      rewrite Z2, D, S5, Hnw, vals_of_app, (vals_old _ _ _ _ _ HP Hg (wev_stable _ _ _ _ Ht)).
      pose proof (vals_of_newids (wd s) w2 w2 _ (we_vals _ _ _ _ Ht) (stable_refl _) Hsm) as Hn. rewrite map_length in Hn. now rewrite Hn.
Qed.

Lemma np_XExtendFromWithin k s vi b1 b2 : NPre k s ->
  np_res k s (XExtendFromWithin vi b1 b2) (vstep_core k s (XExtendFromWithin vi b1 b2)).
Proof.
  intros HP. unfold vstep_core. open_np HP Hg. pose proof Hs as [Hl He].
  destruct (to_range b1 b2 (vlen v)) as [[a b]|] eqn:Et.
  2:{ apply np_close_same; [exact HP|]. spec_open Hg. now rewrite vals_of_length, He, Et. }
  pose proof (to_range_ok _ _ _ _ _ Et) as Hab.
  rewrite (idents_slots_from v a (b - a) Hs ltac:(lia)). set (ids := firstn (b - a) (skipn a (elems v))).
  assert (length ids = b - a) as Hlen by (unfold ids; rewrite firstn_length, skipn_length; lia).
  assert (Hin_ids : forall id, In id ids -> In id (elems v)) by (intros id Hin; unfold ids in Hin; now apply In_firstn, In_skipn in Hin).
  assert (Hvals : map (val_of (wd s)) ids = firstn (b - a) (skipn a (vals_of (wd s) (elems v)))).
  { unfold ids, vals_of. now rewrite <- firstn_map, <- skipn_map. }
  destruct k as [c|].
  - pose proof (vec_sound_cap _ _ Hvs) as Hcap.
    destruct (Nat.ltb c (vlen v + (b - a))) eqn:E1.
    + apply Nat.ltb_lt in E1. apply np_close_same; [exact HP|]. spec_open Hg. rewrite vals_of_length, He, Et. unfold fits, cap_of.
      now rewrite (proj2 (Nat.leb_gt _ _)) by lia.
    + apply Nat.ltb_ge in E1.
      destruct (cib_np ids (wd s) v (vlen v) (np_pan _ _ HP) Hs eq_refl ltac:(lia)) as (w' & v' & E' & Hev & A & B & C & D).
      { intros id Hin. left. eapply NPre_pool_small; eauto. }
      rewrite E'. rewrite Hvals in Hev.
      eapply np_close_setv0; [exact HP|exact Hg|exact Hev| |].
      * intros _ y. rewrite D. rewrite firstn_length, skipn_length, vals_of_length, He, Hlen.
        replace (Nat.min (b - a) (vlen v - a)) with (b - a) by lia. cnt_norm. lia.
      * intros Hsm. spec_open Hg. rewrite vals_of_length, He, Et. unfold fits, cap_of. rewrite (proj2 (Nat.leb_le _ _)) by lia.
        rewrite D, vals_of_app, (vals_old _ _ _ _ _ HP Hg (wev_stable _ _ _ _ Hev)).
        pose proof (vals_of_newids (wd s) w' w' _ (we_vals _ _ _ _ Hev) (stable_refl _) Hsm) as Hn.
        rewrite firstn_length, skipn_length, vals_of_length, He in Hn. replace (Nat.min (b - a) (vlen v - a)) with (b - a) in Hn by lia.
        rewrite Hlen. now rewrite Hn.
  - destruct (thin_reserve (wd s) v (b - a)) as [w1 v1] eqn:Er.
    apply thin_reserve_spec in Er; [|exact Hs]. destruct Er as ((S1 & S1') & S2 & S3 & S4 & S5 & S6).
    pose proof (wev_same _ _ S1 S1') as Hev1. assert (vals w1 = vals (wd s)) as Hv1 by (destruct S1 as (_ & Hv & _); exact Hv).
    destruct (cib_np ids w1 v1 (vlen v) (wev_pan_none _ _ _ _ Hev1 (np_pan _ _ HP)) S6 S4 ltac:(lia)) as (w' & v' & E' & Hev & A & B & C & D).
    { intros id Hin. left. rewrite Hv1. eapply NPre_pool_small; eauto. }
    rewrite E'. assert (map (val_of w1) ids = map (val_of (wd s)) ids) as Hm.
    { apply map_ext. intros id. unfold val_of. now rewrite Hv1. }
    rewrite Hm, Hvals in Hev. pose proof (wev_trans _ _ _ _ _ _ _ Hev1 Hev) as Ht. cbn [app] in Ht.
    rewrite (newids_same_vals _ _ _ Hv1) in D.
    eapply np_close_setv0; [exact HP|exact Hg|exact Ht| |].
    + intros _ y. rewrite D, S5. rewrite firstn_length, skipn_length, vals_of_length, He, Hlen.
      replace (Nat.min (b - a) (vlen v - a)) with (b - a) by lia. cnt_norm. lia.
    + intros Hsm. spec_open Hg. rewrite vals_of_length, He, Et. unfold fits, cap_of.
      rewrite D, S5, vals_of_app, (vals_old _ _ _ _ _ HP Hg (wev_stable _ _ _ _ Ht)).
      pose proof (vals_of_newids (wd s) w' w' _ (we_vals _ _ _ _ Ht) (stable_refl _) Hsm) as Hn.
      rewrite firstn_length, skipn_length, vals_of_length, He in Hn. replace (Nat.min (b - a) (vlen v - a)) with (b - a) in Hn by lia.
      rewrite Hlen. now rewrite Hn.
Qed.

Lemma np_XExtendIter k s vi vs hint : NPre k s ->
  np_res k s (XExtendIter vi vs hint) (vstep_core k s (XExtendIter vi vs hint)).
Proof.
  intros HP. unfold vstep_core. open_np HP Hg. pose proof Hs as [Hl He].
  destruct k as [c|].
  - pose proof (vec_sound_cap _ _ Hvs) as Hcap.
    destruct (Nat.leb (length vs) (c - vlen v)) eqn:E1.
    + apply Nat.leb_le in E1.
      destruct (iter_inline_np_fit vs (wd s) v 0 (np_pan _ _ HP) Hs ltac:(lia)) as (w' & v' & E' & Hev & A & B & D).
      rewrite E'. eapply np_close_setv0; [exact HP|exact Hg|exact Hev| |].
      * intros _ y. rewrite D. cnt_norm. lia.
      * intros Hsm. spec_open Hg. rewrite vals_of_length, He. unfold fits, cap_of. rewrite (proj2 (Nat.leb_le _ _)) by lia.
        rewrite D, vals_of_app, (vals_old _ _ _ _ _ HP Hg (wev_stable _ _ _ _ Hev)).
        now rewrite (vals_of_newids (wd s) w' w' _ (we_vals _ _ _ _ Hev) (stable_refl _) Hsm).
    + apply Nat.leb_gt in E1.
      destruct (iter_inline_np_over vs (wd s) v 0 (np_pan _ _ HP) Hs Hl ltac:(lia)) as (w' & v' & E' & Hev & A & B & D).
      cbv zeta in *. rewrite Hcap in *. rewrite E'. set (room := c - vlen v) in *.
      assert (length (firstn (S room) vs) = S room) as Hlf by (rewrite firstn_length; lia).
      eapply np_close_setv0; [exact HP|exact Hg|exact Hev| |].
      * intros _ y. rewrite D, Hlf, newids_S. cnt_norm. lia.
      * intros Hsm. spec_open Hg. rewrite vals_of_length, He. unfold fits, cap_of. rewrite (proj2 (Nat.leb_gt _ _)) by lia.
        unfold prefix_fit, cap_of. fold room.
        rewrite D, vals_of_app, (vals_old _ _ _ _ _ HP Hg (wev_stable _ _ _ _ Hev)).
        assert (vals_of w' (newids (wd s) room) = firstn room vs) as Hn.
        { pose proof (vals_of_newids' (wd s) w' (firstn room vs) [nth room vs 0%N]) as Hn.
          rewrite firstn_length in Hn. replace (Nat.min room (length vs)) with room in Hn by lia. apply Hn; [|exact Hsm].
          rewrite (we_vals _ _ _ _ Hev). f_equal. apply firstn_snoc_nth. lia. }
        now rewrite Hn.
  - destruct (thin_reserve (wd s) v hint) as [w0 v0] eqn:Er.
    apply thin_reserve_spec in Er; [|exact Hs]. destruct Er as ((S1 & S1') & S2 & S3 & S4 & S5 & S6).
    pose proof (wev_same _ _ S1 S1') as Hev1. assert (vals w0 = vals (wd s)) as Hv0 by (destruct S1 as (_ & Hv & _); exact Hv).
    destruct (iter_thin_np (vlen v) hint vs w0 v0 0 (wev_pan_none _ _ _ _ Hev1 (np_pan _ _ HP)) S6 ltac:(lia) ltac:(lia)) as (w' & v' & E' & Hev & A & D).
    rewrite E'. pose proof (wev_trans _ _ _ _ _ _ _ Hev1 Hev) as Ht. cbn [app] in Ht.
    rewrite (newids_same_vals _ _ _ Hv0) in D.
    eapply np_close_setv0; [exact HP|exact Hg|exact Ht| |].
    + intros _ y. rewrite D, S5. cnt_norm. lia.
    + intros Hsm. spec_open Hg. unfold fits, cap_of.
      rewrite D, S5, vals_of_app, (vals_old _ _ _ _ _ HP Hg (wev_stable _ _ _ _ Ht)).
      now rewrite (vals_of_newids (wd s) w' w' _ (we_vals _ _ _ _ Ht) (stable_refl _) Hsm).
Qed.

Lemma np_XFromSlice k s srcs : NPre k s -> vop_ok (XFromSlice srcs) ->
  np_res k s (XFromSlice srcs) (vstep_core k s (XFromSlice srcs)).
Proof.
  intros HP Hok. cbn [vop_ok] in Hok. unfold vstep_core.
  assert (Hst : forall id, In id srcs -> forall w, (id < len (vals w) \/ SRC_BASE <= id)%N).
  { intros id Hin w. right. rewrite Forall_forall in Hok. now apply Hok. }
  destruct k as [c|].
  - destruct (Nat.ltb c (length srcs)) eqn:E1.
    + apply Nat.ltb_lt in E1. apply np_close_same; [exact HP|]. unfold vspec, fits, cap_of. now rewrite (proj2 (Nat.leb_gt _ _)) by lia.
    + apply Nat.ltb_ge in E1. destruct (new_vec_spec c) as (N1 & N2 & N3 & N4).
      destruct (cib_np srcs (wd s) (new_vec c) 0 (np_pan _ _ HP) N1 N4 ltac:(lia)) as (w' & v' & E' & Hev & A & B & C & D).
      { intros id Hin. now apply Hst. }
      rewrite E'. rewrite (val_of_srcs _ _ Hok) in Hev. rewrite N2 in D. cbn [app] in D.
      apply np_close_addv with (ext := map src_val srcs) (died := []); [exact HP|apply wev_wev0; exact Hev| | |].
      * intros y. rewrite D, map_length. cnt_norm. lia.
      * apply heap_addv_inline. apply (we_heap _ _ _ _ Hev).
      * intros Hsm. unfold vspec, fits, cap_of. rewrite (proj2 (Nat.leb_le _ _)) by lia. unfold saddv. rewrite D.
        pose proof (vals_of_newids (wd s) w' w' _ (we_vals _ _ _ _ Hev) (stable_refl _) Hsm) as Hn. rewrite map_length in Hn. now rewrite Hn.
  - unfold thin_with_capacity. destruct (new_vec_spec (Nat.max (length srcs) THIN_MIN)) as (N1 & N2 & N3 & N4).
    destruct (gc_np srcs (ev_alloc (wd s)) (new_vec (Nat.max (length srcs) THIN_MIN)) 0 0 (np_pan _ _ HP) N1 N4 ltac:(lia) ltac:(lia))
      as (w2 & v2 & E' & Hev2 & A & B & C & D & F).
    { intros id Hin. now apply Hst. }
    rewrite E'. rewrite (val_of_srcs _ _ Hok) in Hev2. rewrite setlen_ok by lia. cbv beta iota.
    specialize (F [] eq_refl). cbn [app] in F.
    replace (0 + length srcs - 0) with (length srcs) in F by lia. rewrite <- C in F at 1.
    destruct (elems_extend v2 (length srcs) _ A F ltac:(lia)) as [Z1 Z2]. rewrite C in Z1, Z2. cbn [Nat.add] in Z1, Z2.
    rewrite D, N2 in Z2. cbn [app] in Z2.
    assert (newids (ev_alloc (wd s)) (length srcs) = newids (wd s) (length srcs)) as Hnw by (apply newids_same_vals; reflexivity).
    assert (wev0 (wd s) w2 (map src_val srcs) []) as Ht.
    { eapply wev0_pre; [|apply wev_wev0; exact Hev2]. wsame_tac. }
    apply np_close_addv with (ext := map src_val srcs) (died := []); [exact HP|exact Ht| | |].
    + intros y. rewrite Z2, map_length, Hnw. cnt_norm. lia.
    + destruct (we_heap _ _ _ _ Hev2) as [Ha Hf]. apply heap_addv_thin; [rewrite Ha|rewrite Hf]; reflexivity.
    + intros Hsm. unfold vspec, fits, cap_of, saddv. rewrite Z2, Hnw.
      pose proof (vals_of_newids' (wd s) w2 (map src_val srcs) [] ltac:(rewrite app_nil_r; apply (w0_vals _ _ _ _ Ht)) Hsm) as Hn.
      rewrite map_length in Hn. now rewrite Hn.
Qed.

Lemma np_XFromIter k s vs hint : NPre k s -> np_res k s (XFromIter vs hint) (vstep_core k s (XFromIter vs hint)).
Proof.
  intros HP. unfold vstep_core.
  destruct k as [c|].
  - destruct (Nat.ltb c hint) eqn:E0.
    + apply Nat.ltb_lt in E0. apply np_close_same; [exact HP|]. unfold vspec, fits, cap_of. now rewrite (proj2 (Nat.leb_gt _ _)) by lia.
    + apply Nat.ltb_ge in E0. destruct (new_vec_spec c) as (N1 & N2 & N3 & N4).
      destruct (Nat.leb (length vs) c) eqn:E1.
      * apply Nat.leb_le in E1.
        destruct (iter_inline_np_fit vs (wd s) (new_vec c) 0 (np_pan _ _ HP) N1 ltac:(lia)) as (w' & v' & E' & Hev & A & B & D).
        rewrite E'. rewrite N2 in D. cbn [app] in D.
        apply np_close_addv with (ext := vs) (died := []); [exact HP|apply wev_wev0; exact Hev| | |].
        -- intros y. rewrite D. cnt_norm. lia.
        -- apply heap_addv_inline. apply (we_heap _ _ _ _ Hev).
        -- intros Hsm. unfold vspec, fits, cap_of. rewrite !(proj2 (Nat.leb_le _ _)) by lia. unfold saddv. cbn [andb]. rewrite D.
           now rewrite (vals_of_newids (wd s) w' w' _ (we_vals _ _ _ _ Hev) (stable_refl _) Hsm).
      * apply Nat.leb_gt in E1.
        destruct (iter_inline_np_over vs (wd s) (new_vec c) 0 (np_pan _ _ HP) N1 ltac:(lia) ltac:(lia)) as (w' & v' & E' & Hev & A & B & D).
        cbv zeta in *. rewrite N3, N4, Nat.sub_0_r in *. rewrite E'. rewrite N2 in D. cbn [app] in D.
        assert (length (firstn (S c) vs) = S c) as Hlf by (rewrite firstn_length; lia).
        destruct (drop_vec_np (KInline c) w' v' (wev_pan_none _ _ _ _ Hev (np_pan _ _ HP)) A) as (w2 & E2 & Hev2).
        { intros y. pose proof (we_live _ _ _ _ Hev y) as H1. rewrite Hlf, newids_S, count_occ_app in H1. rewrite D. lia. }
        rewrite E2. pose proof (wev_trans _ _ _ _ _ _ _ Hev Hev2) as Ht. rewrite app_nil_r in Ht.
        eapply np_close_setw; [exact HP|exact Ht| |].
        -- intros y. rewrite Hlf, newids_S, D. cnt_norm. lia.
        -- intros _. unfold vspec, fits, cap_of. rewrite (proj2 (Nat.leb_le hint c)) by lia. now rewrite (proj2 (Nat.leb_gt _ _)) by lia.
  - unfold thin_with_capacity. destruct (new_vec_spec (Nat.max hint THIN_MIN)) as (N1 & N2 & N3 & N4).
    destruct (iter_thin_np 0 hint vs (ev_alloc (wd s)) (new_vec (Nat.max hint THIN_MIN)) 0 (np_pan _ _ HP) N1 ltac:(lia) ltac:(lia)) as (w' & v' & E' & Hev & A & D).
    cbn [Nat.add] in E'. rewrite E'. rewrite N2 in D. cbn [app] in D.
    assert (newids (ev_alloc (wd s)) (length vs) = newids (wd s) (length vs)) as Hnw by (apply newids_same_vals; reflexivity).
    assert (wev0 (wd s) w' vs []) as Ht.
    { eapply wev0_pre; [|apply wev_wev0; exact Hev]. wsame_tac. }
    apply np_close_addv with (ext := vs) (died := []); [exact HP|exact Ht| | |].
    + intros y. rewrite D, Hnw. cnt_norm. lia.
    + destruct (we_heap _ _ _ _ Hev) as [Ha Hf]. apply heap_addv_thin; [rewrite Ha|rewrite Hf]; reflexivity.
    + intros Hsm. unfold vspec, fits, cap_of, saddv. cbn [andb]. rewrite D, Hnw.
      now rewrite (vals_of_newids' (wd s) w' vs [] ltac:(rewrite app_nil_r; apply (w0_vals _ _ _ _ Ht)) Hsm).
Qed.

Lemma np_XCloneV k s vi : NPre k s -> np_res k s (XCloneV vi) (vstep_core k s (XCloneV vi)).
Proof.
  intros HP. unfold vstep_core. open_np HP Hg. pose proof Hs as [Hl He].
  destruct k as [c|]; [|apply np_close_same; [exact HP|spec_open Hg; reflexivity]].
  pose proof (vec_sound_cap _ _ Hvs) as Hcap. destruct (new_vec_spec c) as (N1 & N2 & N3 & N4).
  destruct (cib_np (elems v) (wd s) (new_vec c) 0 (np_pan _ _ HP) N1 N4 ltac:(lia)) as (w' & v' & E' & Hev & A & B & C & D).
  { intros id Hin. left. eapply NPre_pool_small; eauto. }
  rewrite E'. rewrite N2 in D. cbn [app] in D. fold (vals_of (wd s) (elems v)) in Hev.
  apply np_close_addv with (ext := vals_of (wd s) (elems v)) (died := []); [exact HP|apply wev_wev0; exact Hev| | |].
  - intros y. rewrite D, vals_of_length. cnt_norm. lia.
  - apply heap_addv_inline. apply (we_heap _ _ _ _ Hev).
  - intros Hsm. spec_open Hg. unfold saddv. rewrite D.
    pose proof (vals_of_newids (wd s) w' w' _ (we_vals _ _ _ _ Hev) (stable_refl _) Hsm) as Hn. rewrite vals_of_length in Hn. now rewrite Hn.
Qed.

Lemma wsame_stable w w' : wsame w w' -> stable w w'.
Proof. intros (_ & Hv & _). exists []. now rewrite app_nil_r. Qed.

Lemma np_close_split k s o vi v v2 o3 w3 : NPre k s -> getv s vi = Some v -> wsame (wd s) w3 ->
  (forall y, cnt (elems v2) y + cnt (elems o3) y = cnt (elems v) y) ->
  (heap_ok k s -> heap_ok k (fst (addv (setv s vi (Some v2) w3) o3 w3))) ->
  vspec k (vabs s) o = (ssetv (vabs s) vi (Some (vals_of w3 (elems v2))) ++ [Some (vals_of w3 (elems o3))], SNewV (len (vabs s))) ->
  np_res k s o (let '(s1, i) := addv (setv s vi (Some v2) w3) o3 w3 in (s1, VNewV i)).
Proof.
  intros HP Hg Hsm Hbal Hheap Hspec.
  change (let '(s1, i) := addv (setv s vi (Some v2) w3) o3 w3 in (s1, VNewV i))
    with (fst (addv (setv s vi (Some v2) w3) o3 w3), VNewV (snd (addv (setv s vi (Some v2) w3) o3 w3))).
  pose proof Hsm as (Hl & Hv & _ & _ & Hp).
  split; [|split]; cbn [fst snd].
  - cbn [wd addv fst]. rewrite Hp. apply (np_pan _ _ HP).
  - intros _. rewrite Hspec. unfold vabs at 3. cbn [wd pool addv fst setv snd out_abs]. rewrite map_app, map_updn. cbn [map option_map].
    rewrite (vabs_pool_stable s w3 (NPre_pool_small _ _ HP) (wsame_stable _ _ Hsm)). unfold ssetv. do 2 f_equal.
    unfold len, vabs. now rewrite updn_length, map_length.
  - intros HNL _. destruct (noleak_sub _ _ HP HNL) as [Hsub Hhp]. apply noleak_intro; [|now apply Hheap].
    intros y. rewrite (reach_addv (setv s vi (Some v2) w3) o3 w3 y).
    pose proof (reach_setv0 s vi (Some v) (Some v2) w3 y (proj1 (getv_nth _ _ _) Hg)) as H1. cbn [oelems] in H1.
    change (wd (fst (addv (setv s vi (Some v2) w3) o3 w3))) with w3. rewrite Hl. specialize (Hsub y). specialize (Hbal y). lia.
Qed.

Lemma np_XSplitOff k s vi at_ : NPre k s -> np_res k s (XSplitOff vi at_) (vstep_core k s (XSplitOff vi at_)).
Proof.
  intros HP. unfold vstep_core. open_np HP Hg. pose proof Hs as [Hl He].
  destruct (Nat.ltb (vlen v) at_) eqn:E1.
  { apply np_close_same; [exact HP|]. spec_open Hg. now rewrite vals_of_length, He, E1. }
  apply Nat.ltb_ge in E1. set (n := vlen v) in *.
  assert (exists w0 c0, (match k with KInline c => (wd s, new_vec c) | KThin => thin_with_capacity (wd s) (n - at_) end) = (w0, new_vec c0)
            /\ wsame (wd s) w0 /\ n - at_ <= c0 /\
            (forall s', wd s' = w0 -> pvn (pool s') = S (pvn (pool s)) -> heap_ok k s -> heap_ok k s')) as (w0 & c0 & Eq & Hsm & Hc0 & Hheap).
  { destruct k as [c|].
    - exists (wd s), c. split; [reflexivity|]. split; [apply wsame_refl|]. pose proof (vec_sound_cap _ _ Hvs). split; [lia|].
      intros s' Hw _ [H1 H2]. unfold heap_ok. rewrite Hw. split; assumption.
    - exists (ev_alloc (wd s)), (Nat.max (n - at_) THIN_MIN). split; [reflexivity|]. split; [wsame_tac|]. split; [lia|].
      intros s' Hw Hn H. unfold heap_ok, pvn in *. rewrite Hw, Hn. unfold ev_alloc; wfields. rewrite H. lia. }
  rewrite Eq. destruct (new_vec_spec c0) as (N1 & N2 & N3 & N4).
  rewrite write_slots_ok by (rewrite slots_from_length; lia). cbv beta iota.
  rewrite setlen_ok by lia. cbv beta iota. rewrite setlen_ok by capsolve. cbv beta iota. cbn [slots].
  destruct (wrl_copy (new_vec c0) v 0 at_ (n - at_) N1 ltac:(lia) Hs ltac:(fold n; lia) ltac:(lia)) as (A & B & C).
  cbv zeta in *. cbn [Nat.add] in *. cbn [firstn app] in B.
  rewrite (firstn_all_ge (skipn at_ (elems v))) in B by (rewrite skipn_length; lia).
  destruct (elems_mk_le v at_ Hs ltac:(lia)) as [He1 Hs1].
  apply (np_close_split k s _ vi v _ _ w0 HP Hg Hsm).
  - intros y. rewrite He1, B. now rewrite <- cnt_firstn_skipn.
  - apply Hheap; [reflexivity|]. cbn [pool addv fst setv]. rewrite pvn_snoc. f_equal.
    eapply pvn_updn_some. apply getv_nth. exact Hg.
  - spec_open Hg. rewrite vals_of_length, He. fold n. rewrite (proj2 (Nat.ltb_ge _ _) E1). unfold saddv.
    rewrite He1, B. rewrite !(vals_of_stable (wd s) w0 _ (wsame_stable _ _ Hsm)).
    + unfold vals_of. rewrite <- firstn_map, <- skipn_map. f_equal. unfold len, ssetv. now rewrite updn_length.
    + intros id Hin. left. eapply NPre_pool_small; eauto. eapply In_skipn; eauto.
    + intros id Hin. left. eapply NPre_pool_small; eauto. eapply In_firstn; eauto.
Qed.

Lemma np_close_append k s o vi oi v ov v3 ov4 w4 : NPre k s -> getv s vi = Some v -> getv s oi = Some ov -> vi <> oi ->
  wsame (wd s) w4 -> wheap (wd s) w4 ->
  (forall y, cnt (elems v3) y + cnt (elems ov4) y = cnt (elems v) y + cnt (elems ov) y) ->
  vspec k (vabs s) o = (ssetv (ssetv (vabs s) vi (Some (vals_of w4 (elems v3)))) oi (Some (vals_of w4 (elems ov4))), SUnit) ->
  np_res k s o (setv (setv s vi (Some v3) w4) oi (Some ov4) w4, VUnit).
Proof.
  intros HP Hg Hgo Hne Hsm Hh Hbal Hspec. pose proof Hsm as (Hl & Hv & _ & _ & Hp).
  assert (nth_error (updn (pool s) (N.to_nat vi) (Some v3)) (N.to_nat oi) = Some (Some ov)) as Hn2.
  { rewrite nth_error_updn_ne by lia. now apply getv_nth. }
  split; [|split]; cbn [fst snd].
  - cbn [wd setv]. rewrite Hp. apply (np_pan _ _ HP).
  - intros _. rewrite Hspec.
    change (vabs (setv (setv s vi (Some v3) w4) oi (Some ov4) w4))
      with (map (option_map (fun v => vals_of w4 (elems v))) (updn (updn (pool s) (N.to_nat vi) (Some v3)) (N.to_nat oi) (Some ov4))).
    cbn [out_abs]. rewrite !map_updn. cbn [option_map].
    rewrite (vabs_pool_stable s w4 (NPre_pool_small _ _ HP) (wsame_stable _ _ Hsm)). reflexivity.
  - intros HNL _. destruct (noleak_sub _ _ HP HNL) as [Hsub Hhp]. apply noleak_intro.
    + intros y. cbn [wd setv]. rewrite Hl. specialize (Hsub y). specialize (Hbal y).
      pose proof (cnt_pelems_updn (pool s) (N.to_nat vi) (Some v) (Some v3) y (proj1 (getv_nth _ _ _) Hg)) as H1.
      pose proof (cnt_pelems_updn _ (N.to_nat oi) (Some ov) (Some ov4) y Hn2) as H2. cbn [oelems] in H1, H2.
      unfold reachable in *. cbn [pool handed setv]. fold (pelems (updn (updn (pool s) (N.to_nat vi) (Some v3)) (N.to_nat oi) (Some ov4))).
      fold (pelems (pool s)) in Hsub. rewrite count_occ_app in *. lia.
    + eapply heap_ok_same; [exact Hhp|exact Hh|]. cbn [pool setv].
      rewrite (pvn_updn_some _ _ ov ov4 Hn2). eapply pvn_updn_some. apply getv_nth. exact Hg.
Qed.

Lemma append_go_np k s vi oi v ov w v1 : NPre k s -> getv s vi = Some v -> getv s oi = Some ov -> vi <> oi ->
  vsound v1 -> elems v1 = elems v -> vlen v1 = vlen v -> vlen v + vlen ov <= vcapn v1 -> wsame (wd s) w -> wheap (wd s) w ->
  vspec k (vabs s) (XAppend vi oi) =
    (ssetv (ssetv (vabs s) vi (Some (vals_of (wd s) (elems v) ++ vals_of (wd s) (elems ov)))) oi (Some []), SUnit) ->
  np_res k s (XAppend vi oi)
         (let '(w2, v2) := write_slots w v1 (vlen v) (slots_from ov 0 (vlen ov)) in
          let '(w3, v3) := setlen w2 v2 (vlen v + vlen ov) in
          let '(w4, ov4) := setlen w3 ov 0 in
          (setv (setv s vi (Some v3) w4) oi (Some ov4) w4, VUnit)).
Proof.
  intros HP Hg Hgo Hne Hs1 He1 Hl1 Hc Hsm Hh Hspec.
  pose proof (np_vecs _ _ HP _ _ Hgo) as Hvso. pose proof (vec_sound_vsound _ _ Hvso) as Hso.
  rewrite write_slots_ok by (rewrite slots_from_length; lia). cbv beta iota.
  rewrite setlen_ok by capsolve. cbv beta iota. rewrite setlen_ok by lia. cbv beta iota. cbn [slots].
  rewrite <- Hl1. destruct (wrl_copy v1 ov (vlen v1) 0 (vlen ov) Hs1 ltac:(lia) Hso ltac:(lia) ltac:(lia)) as (A & B & C).
  cbv zeta in *. cbn [skipn] in B. rewrite (firstn_all_ge (elems v1)) in B by (destruct Hs1; lia).
  rewrite (firstn_all_ge (elems ov)) in B by (destruct Hso; lia).
  destruct (elems_mk_le ov 0 Hso ltac:(lia)) as [Heo Hso']. cbn [firstn] in Heo.
  eapply (np_close_append k s _ vi oi v ov); eauto.
  - intros y. rewrite B, Heo, He1. cnt_norm. lia.
  - rewrite Hspec, B, Heo, He1, vals_of_app. pose proof (wsame_stable _ _ Hsm) as Hst.
    rewrite (vals_old _ _ _ _ _ HP Hg Hst), (vals_old _ _ _ _ _ HP Hgo Hst). reflexivity.
Qed.

Lemma np_XAppend k s vi oi : NPre k s -> np_res k s (XAppend vi oi) (vstep_core k s (XAppend vi oi)).
Proof.
  intros HP. unfold vstep_core. open_np HP Hg. pose proof Hs as [Hl He].
  destruct (N.eqb vi oi) eqn:En.
  { apply np_close_same; [exact HP|]. spec_open Hg. now rewrite En. }
  destruct (getv s oi) as [ov|] eqn:Hgo.
  2:{ apply np_close_same; [exact HP|]. spec_open Hg. now rewrite En, sgetv_vabs, Hgo. }
  apply N.eqb_neq in En.
  pose proof (np_vecs _ _ HP _ _ Hgo) as Hvso. pose proof (vec_sound_vsound _ _ Hvso) as [Hlo Heo].
  assert (Hsp : fits k (vlen v + vlen ov) = true -> vspec k (vabs s) (XAppend vi oi) =
    (ssetv (ssetv (vabs s) vi (Some (vals_of (wd s) (elems v) ++ vals_of (wd s) (elems ov)))) oi (Some []), SUnit)).
  { intros Hf. spec_open Hg. rewrite (proj2 (N.eqb_neq _ _) En), sgetv_vabs, Hgo. cbn [option_map].
    now rewrite !vals_of_length, He, Heo, Hf. }
  destruct k as [c|].
  - pose proof (vec_sound_cap _ _ Hvs) as Hcap.
    destruct (Nat.ltb c (vlen v + vlen ov)) eqn:E1.
    + apply Nat.ltb_lt in E1. apply np_close_same; [exact HP|]. spec_open Hg. rewrite (proj2 (N.eqb_neq _ _) En), sgetv_vabs, Hgo.
      cbn [option_map]. rewrite !vals_of_length, He, Heo. unfold fits, cap_of. now rewrite (proj2 (Nat.leb_gt _ _)) by lia.
    + apply Nat.ltb_ge in E1. eapply append_go_np; eauto; [lia|apply wsame_refl|apply wheap_refl|].
      apply Hsp. unfold fits, cap_of. apply Nat.leb_le. lia.
  - destruct (thin_reserve (wd s) v (vlen ov)) as [w1 v1] eqn:Er.
    apply thin_reserve_spec in Er; [|exact Hs]. destruct Er as ((S1 & S1') & S2 & S3 & S4 & S5 & S6).
    eapply append_go_np; eauto.
Qed.

(** ** all operations *)
Theorem np_all k s o : NPre k s -> vop_ok o -> np_res k s o (vstep_core k s o).
Proof.
  intros HP Hok. destruct o.
  - now apply np_XNew.
  - now apply np_XWithCap.
  - now apply np_XFromSlice.
  - now apply np_XFromIter.
  - now apply np_XPush.
  - now apply np_XTryPush.
  - now apply np_XPop.
  - now apply np_XPopIf.
  - now apply np_XInsert.
  - now apply np_XTryInsert.
  - now apply np_XRemove.
  - now apply np_XSwapRemove.
  - now apply np_XTruncate.
  - now apply np_XClear.
  - now apply np_XResize.
  - now apply np_XResizeWith.
  - now apply np_XExtendFromSlice.
  - now apply np_XExtendFromWithin.
  - now apply np_XExtendIter.
  - now apply np_XAppend.
  - now apply np_XSplitOff.
  - now apply np_XDrain.
  - now apply np_XIntoIter.
  - now apply np_XCloneV.
  - now apply np_XReserve.
  - now apply np_XReserveExact.
  - now apply np_XShrinkTo.
  - now apply np_XShrinkToFit.
  - now apply np_XDropV.
Qed.

Lemma vstep_eq k s o : vstep k s o = (setw (fst (vstep_core k s o)) (set_unw (wd (fst (vstep_core k s o))) false), snd (vstep_core k s o)).
Proof. unfold vstep. destruct (vstep_core k s o) as [s1 u]. reflexivity. Qed.

(** C13: without an injected panic the model behaves exactly like [Vec] (with the capacity rule of the kind) *)
Theorem vstep_refines : forall k s o, VInv k s -> vop_ok o -> pan (wd s) = None -> small_world (fst (vstep k s o)) ->
  vspec k (vabs s) o = (vabs (fst (vstep k s o)), out_abs (wd (fst (vstep k s o))) (snd (vstep k s o))).
Proof.
  intros k s o HI Hok Hp Hsm. destruct (np_all k s o (NPre_of_VInv _ _ HI Hp) Hok) as (_ & Href & _).
  rewrite vstep_eq in *. cbn [fst snd] in *. exact (Href Hsm).
Qed.

(** C14 completeness: nothing leaks without an injected panic or a forgotten drain *)
Theorem vstep_no_leak : forall k s o, VInv k s -> VNoLeak k s -> vop_ok o -> no_forget o -> pan (wd s) = None ->
  VNoLeak k (fst (vstep k s o)).
Proof.
  intros k s o HI HNL Hok Hnf Hp. destruct (np_all k s o (NPre_of_VInv _ _ HI Hp) Hok) as (_ & _ & Hleak).
  rewrite vstep_eq. cbn [fst]. destruct (Hleak HNL Hnf) as [A B]. split; [exact A|exact B].
Qed.

Lemma vinit_no_leak k p : VNoLeak k (vinit p).
Proof. split; [intros x []|]. destruct k; cbn; auto. Qed.

Print Assumptions vstep_refines.
Print Assumptions vstep_no_leak.
