(** * ApiAudit: the safe public functions with `unsafe` bodies that existed when the models were written.
    Each file's functions are the ones the named drivers exercise against std / the models (C17's operation-level theorems quantify
    over all arguments of the modelled ones).  A safe function with an `unsafe` body that is NOT in this list is new: nothing here
    has examined what it checks before trusting its arguments, so C17 is no longer shown for it (props/C17_tieA.v).
      src/bytes.rs, src/bytes/*      -- bytes driver (Bytes machine ops), range, concat, adversary, codec
      src/string.rs, src/string/*    -- bytes driver (TStr), strapi, range, concat, codec
      src/os_string.rs, src/path.rs, */convert.rs, */cmp.rs -- bytes driver (Os/Path cases), wrappers_api, cmp
      src/vecs/*, src/common/*       -- vec driver (Vec machine ops), api_battery, scenario_battery, range, adversary
      src/smart.rs                   -- counter driver, loom litmus suite *)
From Coq Require Import List String Bool.
Import ListNotations.
Open Scope string_scope.

Definition audited : list (string * string) := [
  ("src/bytes.rs", "concat");
  ("src/bytes.rs", "concat_slices");
  ("src/bytes.rs", "inline");
  ("src/bytes.rs", "into_owned");
  ("src/bytes.rs", "join");
  ("src/bytes.rs", "join_slices");
  ("src/bytes.rs", "pop");
  ("src/bytes.rs", "push_slice");
  ("src/bytes.rs", "repeat");
  ("src/bytes.rs", "shrink_to");
  ("src/bytes.rs", "to_mut_slice");
  ("src/bytes.rs", "truncate");
  ("src/bytes.rs", "try_inline");
  ("src/bytes.rs", "try_slice");
  ("src/bytes.rs", "try_slice_ref");
  ("src/bytes/raw.rs", "into_raw");
  ("src/bytes/raw.rs", "try_range_of");
  ("src/bytes/raw/allocated.rs", "as_mut_slice");
  ("src/bytes/raw/allocated.rs", "as_slice");
  ("src/bytes/raw/allocated.rs", "is_valid");
  ("src/bytes/raw/allocated.rs", "spare_capacity_mut");
  ("src/bytes/raw/inline.rs", "as_mut_slice");
  ("src/bytes/raw/inline.rs", "as_slice");
  ("src/common/drain.rs", "as_slice");
  ("src/os_string.rs", "as_borrowed");
  ("src/os_string.rs", "as_os_str");
  ("src/os_string.rs", "into_borrowed");
  ("src/os_string.rs", "into_os_string");
  ("src/os_string.rs", "to_str");
  ("src/os_string.rs", "to_str_lossy");
  ("src/path.rs", "as_borrowed");
  ("src/smart.rs", "as_mut");
  ("src/smart.rs", "from_raw");
  ("src/smart.rs", "new");
  ("src/smart.rs", "try_unwrap");
  ("src/string.rs", "as_borrowed");
  ("src/string.rs", "as_mut_str");
  ("src/string.rs", "as_str");
  ("src/string.rs", "concat_slices");
  ("src/string.rs", "from_utf8");
  ("src/string.rs", "into_borrowed");
  ("src/string.rs", "into_string");
  ("src/string.rs", "join_slices");
  ("src/string.rs", "mutate");
  ("src/string.rs", "rsplit_once");
  ("src/string.rs", "split_once");
  ("src/string.rs", "strip_prefix");
  ("src/string.rs", "strip_suffix");
  ("src/string.rs", "to_mut_str");
  ("src/string.rs", "trim");
  ("src/string.rs", "trim_end");
  ("src/string.rs", "trim_end_matches");
  ("src/string.rs", "trim_matches");
  ("src/string.rs", "trim_start");
  ("src/string.rs", "trim_start_matches");
  ("src/string.rs", "try_slice");
  ("src/vecs/inline.rs", "append");
  ("src/vecs/inline.rs", "as_mut_slice");
  ("src/vecs/inline.rs", "as_non_null");
  ("src/vecs/inline.rs", "as_slice");
  ("src/vecs/inline.rs", "const_append");
  ("src/vecs/inline.rs", "copy");
  ("src/vecs/inline.rs", "extend_from_array");
  ("src/vecs/inline.rs", "extend_from_slice_copy");
  ("src/vecs/inline.rs", "new");
  ("src/vecs/inline.rs", "pop");
  ("src/vecs/inline.rs", "remove");
  ("src/vecs/inline.rs", "resize_with");
  ("src/vecs/inline.rs", "spare_capacity_mut");
  ("src/vecs/inline.rs", "split_off");
  ("src/vecs/inline.rs", "swap_remove");
  ("src/vecs/inline.rs", "truncate");
  ("src/vecs/inline.rs", "try_insert");
  ("src/vecs/inline.rs", "try_push");
  ("src/vecs/thin.rs", "append");
  ("src/vecs/thin.rs", "as_mut_slice");
  ("src/vecs/thin.rs", "as_slice");
  ("src/vecs/thin.rs", "clear");
  ("src/vecs/thin.rs", "extend_from_slice");
  ("src/vecs/thin.rs", "extend_from_slice_copy");
  ("src/vecs/thin.rs", "from_slice_copy");
  ("src/vecs/thin.rs", "insert");
  ("src/vecs/thin.rs", "pop");
  ("src/vecs/thin.rs", "push");
  ("src/vecs/thin.rs", "remove");
  ("src/vecs/thin.rs", "reserve");
  ("src/vecs/thin.rs", "reserve_exact");
  ("src/vecs/thin.rs", "shrink_to");
  ("src/vecs/thin.rs", "shrink_to_fit");
  ("src/vecs/thin.rs", "spare_capacity_mut");
  ("src/vecs/thin.rs", "split_off");
  ("src/vecs/thin.rs", "swap_remove");
  ("src/vecs/thin.rs", "truncate");
  ("src/vecs/thin.rs", "try_extend_from_within");
  ("src/vecs/thin.rs", "with_capacity")
].

Definition pair_eqb (a b : string * string) : bool := String.eqb (fst a) (fst b) && String.eqb (snd a) (snd b).
Definition is_audited (e : string * string) : bool := existsb (pair_eqb e) audited.

(** the wrapper methods of HipStr / HipOsStr / HipPath that are pure forwards to the byte string (no logic of their own) when the
    models were written: the bytes driver's Os/Path cases and the TStr cases rely on it.  A forward that acquires logic of its own
    disappears from the regenerated table and the inclusion below fails. *)
Definition forward_required : list (string * string) := [("HipStr", "is_inline"); ("HipStr", "is_borrowed"); ("HipStr", "is_allocated"); ("HipStr", "len"); ("HipStr", "is_empty"); ("HipStr", "as_ptr"); ("HipStr", "as_mut_ptr"); ("HipStr", "as_mut_ptr_unchecked"); ("HipStr", "capacity"); ("HipStr", "clear"); ("HipStr", "shrink_to_fit"); ("HipStr", "shrink_to"); ("HipStr", "to_ascii_lowercase"); ("HipStr", "to_ascii_uppercase"); ("HipStr", "make_ascii_uppercase"); ("HipStr", "make_ascii_lowercase"); ("HipStr", "repeat"); ("HipOsStr", "is_inline"); ("HipOsStr", "is_borrowed"); ("HipOsStr", "is_allocated"); ("HipOsStr", "len"); ("HipOsStr", "is_empty"); ("HipOsStr", "capacity"); ("HipOsStr", "shrink_to_fit"); ("HipOsStr", "shrink_to"); ("HipPath", "is_inline"); ("HipPath", "is_borrowed"); ("HipPath", "is_allocated"); ("HipPath", "as_os_str"); ("HipPath", "capacity"); ("HipPath", "shrink_to_fit"); ("HipPath", "shrink_to")].
