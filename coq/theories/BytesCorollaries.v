(** * BytesCorollaries: derived theorems (C02 independence, C03 heap discipline, C09 ceiling,
    rejected operations) over BytesProofs.v. *)
From Hip Require Import Base Range RangeProofs Utf8 StrRange Bytes BytesSpec BytesInv BytesLib
  BytesProofs1 BytesProofs2 BytesProofs3 BytesProofs4 BytesProofs.

(** ** the shape of a specification step *)
Definition rejected (u : out) : Prop := u = UPanic \/ (exists k a b, u = UErr k a b) \/ u = UNone.

Inductive spec_shape (sp : sstate) (o : op) (u : out) (sp' : sstate) : Prop :=
| ss_same : sp' = sp -> spec_shape sp o u sp'
| ss_new v : sp' = sp ++ [Some v] -> u = UNew (len sp) -> spec_shape sp o u sp'
| ss_set h x : target o = Some h -> sp' = sset sp h x -> ~ rejected u -> spec_shape sp o u sp'.

Ltac spec_inv H :=
  unfold spec_rel, spec_det, snew in H;
  repeat (cbv beta iota zeta in H;
          match type of H with context [match ?x with _ => _ end] =>
            lazymatch x with
            | context [match _ with _ => _ end] => fail
            | _ => destruct x eqn:?
            end
          end);
  cbv beta iota zeta in H.

Ltac split_all :=
  repeat match goal with
         | H : _ /\ _ |- _ => destruct H
         | H : _ \/ _ |- _ => destruct H
         | H : exists _, _ |- _ => destruct H
         | H : False |- _ => contradiction
         end.

Ltac not_rej := let H := fresh in intros [H|[(? & ? & ? & H)|H]]; discriminate H.

Ltac shape_done :=
  first [ apply ss_same; reflexivity
        | eapply ss_new; reflexivity
        | eapply ss_set; [reflexivity | reflexivity | not_rej] ].

Lemma spec_rel_shape ty sp o u sp' : spec_rel ty sp o u sp' -> spec_shape sp o u sp'.
Proof.
  intros H. destruct o; spec_inv H; split_all; subst; shape_done.
Qed.

(** ** C02: independence *)
Theorem spec_rel_frame : forall ty sp o u sp' h,
  spec_rel ty sp o u sp' -> h < len sp -> target o <> Some h -> sget sp' h = sget sp h.
Proof.
  intros ty sp o u sp' h H Hlt Ht. destruct (spec_rel_shape _ _ _ _ _ H) as [->| v -> _ | h0 x Ht0 -> _].
  - reflexivity.
  - unfold sget. apply nthN_app_l. exact Hlt.
  - unfold sget, sset. apply nthN_upd_neq. congruence.
Qed.

Theorem C02_frame : forall bk ty st o st' u h,
  Inv bk st -> force_ok st o -> step bk ty st o = (st', u) -> h < len (hs st) -> target o <> Some h ->
  sget (abs st') h = sget (abs st) h.
Proof.
  intros bk ty st o st' u h I FO E Hlt Ht.
  apply (spec_rel_frame ty (abs st) o u (abs st') h); [eapply step_refines; eauto | rewrite abs_len; exact Hlt | exact Ht].
Qed.

(** new handles are appended: the pool never shrinks *)
Theorem C02_pool_grows : forall bk ty st o st' u,
  Inv bk st -> force_ok st o -> step bk ty st o = (st', u) ->
  len (hs st') = len (hs st) \/ (len (hs st') = len (hs st) + 1 /\ u = UNew (len (hs st))).
Proof.
  intros bk ty st o st' u I FO E. pose proof (step_refines _ _ _ _ _ _ I FO E) as H.
  rewrite <- !abs_len.
  destruct (spec_rel_shape _ _ _ _ _ H) as [->| v -> -> | h0 x Ht0 -> _].
  - left. reflexivity.
  - right. rewrite len_app, len_cons, len_nil. split; [lia | reflexivity].
  - left. unfold sset. apply len_upd.
Qed.

Theorem mut_exclusive : forall bk st h hd,
  Inv bk st -> get_h st h = Some hd -> grants_mut bk st (hrepr hd) = true ->
  is_borrowed (hrepr hd) = false /\ (forall b off n, hrepr hd = RAlloc b off n -> nrefs b (hs st) = 1).
Proof.
  intros bk st h hd I Hh G. split.
  - destruct (hrepr hd); cbn [grants_mut is_borrowed] in *; [reflexivity | discriminate | reflexivity].
  - intros b off n Er. rewrite Er in G. cbn [grants_mut] in G. destruct (get_b st b) as [blk|] eqn:Hb; [|discriminate].
    eapply unique_means_sole; eauto.
Qed.

Theorem unwrap_exclusive : forall bk st h hd,
  Inv bk st -> get_h st h = Some hd -> can_unwrap bk st (hrepr hd) = true ->
  is_borrowed (hrepr hd) = false
  /\ (forall b off n, hrepr hd = RAlloc b off n -> off = 0 /\ nrefs b (hs st) = 1).
Proof.
  intros bk st h hd I Hh G. split.
  - destruct (hrepr hd); cbn [can_unwrap is_borrowed] in *; [reflexivity | discriminate | reflexivity].
  - intros b off n Er. rewrite Er in G. cbn [can_unwrap] in G. destruct (get_b st b) as [blk|] eqn:Hb; [|discriminate].
    apply andb_prop in G. destruct G as [G0 U]. split; [lia|]. eapply unique_means_sole; eauto.
Qed.

Theorem sole_no_other : forall bk st h hd b off n,
  Inv bk st -> get_h st h = Some hd -> hrepr hd = RAlloc b off n -> nrefs b (hs st) = 1 ->
  forall h' hd', h' <> h -> get_h st h' = Some hd' -> points_to b (Some hd') = false.
Proof.
  intros bk st h hd b off n I Hh Er H1 h' hd' Hne Hh'.
  pose proof (nrefs_two b _ _ _ _ _ Hne Hh Hh') as H2. rewrite Er, pt_self, <- pto_Some in H2.
  unfold pto in H2. destruct (points_to b (Some hd')); [lia | reflexivity].
Qed.

Theorem as_mut_granted_iff : forall bk ty st h i b hd st' u,
  get_h st h = Some hd -> step bk ty st (OAsMutWrite h i b) = (st', u) ->
  (u = USome [] <-> grants_mut bk st (hrepr hd) = true)
  /\ (grants_mut bk st (hrepr hd) = false -> u = UNone /\ st' = st).
Proof.
  intros bk ty st h i b hd st' u Hh E. open_step E. rewrite Hh in E.
  destruct (grants_mut bk st (hrepr hd)) eqn:G.
  - destruct (i <? rlen (hrepr hd)).
    + let_pair E st2 r2 Ew. injection E as <- <-. split; [tauto | discriminate].
    + injection E as <- <-. split; [tauto | discriminate].
  - injection E as <- <-. split; [split; discriminate | auto].
Qed.

Theorem into_vec_ok_iff : forall bk ty st h hd st' u,
  Inv bk st -> get_h st h = Some hd -> step bk ty st (OIntoVec h) = (st', u) ->
  ((exists v c, u = UVec v c) <-> can_unwrap bk st (hrepr hd) = true)
  /\ (can_unwrap bk st (hrepr hd) = false -> u = UNone /\ st' = st).
Proof.
  intros bk ty st h hd st' u I Hh E. open_step E. rewrite Hh in E.
  pose proof (inv_h _ _ I _ _ Hh) as Hok.
  destruct (hrepr hd) as [d|s off n|b off n] eqn:Er; cbn [can_unwrap].
  - injection E as <- <-. split; [split; [intros (v & c & H); discriminate H | discriminate] | auto].
  - injection E as <- <-. split; [split; [intros (v & c & H); discriminate H | discriminate] | auto].
  - destruct Hok as (blk & Hb & _). rewrite Hb in *.
    destruct ((off =? 0) && is_unique_c bk (cnt blk)) eqn:C.
    + injection E as <- <-. split; [split; [reflexivity | intros _; eauto] | discriminate].
    + injection E as <- <-. split; [split; [intros (v & c & H); discriminate H | discriminate] | auto].
Qed.

(** ** C03: heap discipline *)
Theorem views_in_live_memory : forall bk st h hd,
  Inv bk st -> get_h st h = Some hd ->
  match hrepr hd with
  | RAlloc b off n => exists blk, get_b st b = Some blk /\ off + n <= len (vdata blk) /\ len (vdata blk) <= vcap blk
  | RBorrowed s off n => s < len (srcs st) /\ off + n <= len (get_src st s)
  | RInline d => len d <= INLINE_CAP
  end.
Proof.
  intros bk st h hd I Hh. pose proof (inv_h _ _ I _ _ Hh) as Hok.
  destruct (hrepr hd) as [d|s off n|b off n]; cbn [repr_ok] in Hok; auto.
  destruct Hok as (blk & Hb & Hl). exists blk. destruct (inv_b _ _ I _ _ Hb) as (H1 & _). auto.
Qed.

Theorem run_no_ub : forall bk ty ops st' us,
  run_pre bk ty init ops -> run bk ty init ops = (st', us) -> bad st' = false.
Proof.
  intros bk ty ops st' us P E. apply (inv_bad bk). eapply run_inv; [apply init_inv | exact P | exact E].
Qed.

Lemma all_none_nrefs b (l : list (option handle)) : (forall h, nthN l h = None) -> nrefs b l = 0.
Proof.
  intros H. apply nrefs_zero. intros [hd|] Hin; [|reflexivity]. exfalso.
  destruct (In_nth_error _ _ Hin) as [j Hj]. pose proof (nthN_of_nat _ _ _ Hj) as Hn. rewrite H in Hn. discriminate.
Qed.

Lemma all_none_heap (l : list (option block)) : (forall b, nthN l b = None) -> heap_objects l = 0.
Proof.
  induction l as [|o l IH]; intros H; [reflexivity|].
  assert (o = None).
  { specialize (H 0). unfold nthN in H. cbn [N.to_nat nth_error] in H. destruct o; [discriminate | reflexivity]. }
  subst o. cbn [heap_objects]. apply IH. intros b. specialize (H (b + 1)). unfold nthN in *.
  replace (N.to_nat (b + 1)) with (S (N.to_nat b)) in H by lia. exact H.
Qed.

Theorem no_leak : forall bk st,
  Inv bk st -> (forall h, get_h st h = None) -> (forall b blk, get_b st b = Some blk -> phantom blk = 0) ->
  n_alloc st = n_free st + n_leak st.
Proof.
  intros bk st I Hn Hp. rewrite (inv_heap _ _ I).
  rewrite all_none_heap; [lia|]. intros b. destruct (nthN (bs st) b) as [blk|] eqn:Hb; [|reflexivity]. exfalso.
  destruct (inv_b _ _ I _ _ Hb) as (_ & H2 & _). rewrite (Hp _ _ Hb), (all_none_nrefs b _ Hn) in H2. lia.
Qed.

(** ** C07: capacity observation *)
Lemma observe_h_cap bk st h hd j :
  Inv bk st -> get_h st h = Some hd -> len (o_bytes (observe_h bk st j hd)) <= o_cap (observe_h bk st j hd).
Proof.
  intros I Hh. pose proof (views_in_live_memory _ _ _ _ I Hh) as V. pose proof (Inv_rlen _ _ _ _ I Hh) as Hlen.
  unfold observe_h. destruct (hrepr hd) as [d|s off n|b off n] eqn:Er.
  - cbn [o_bytes o_cap]. exact V.
  - cbn [o_bytes o_cap]. cbn [rlen] in Hlen. lia.
  - destruct V as (blk & Hb & H1 & H2). rewrite Hb. cbn [o_bytes o_cap]. cbn [rlen] in Hlen. lia.
Qed.

Theorem capacity_ge_len : forall bk st, Inv bk st -> Forall (fun o => len (o_bytes o) <= o_cap o) (observe bk st).
Proof.
  intros bk st I. unfold observe.
  assert (G : forall l i, (forall hd, In (Some hd) l -> exists h, get_h st h = Some hd) ->
                          Forall (fun o => len (o_bytes o) <= o_cap o) (observe_from bk st l i)).
  { induction l as [|[hd|] l IH]; intros i H; cbn [observe_from].
    - constructor.
    - constructor.
      + destruct (H hd (or_introl eq_refl)) as [h Hh]. eapply observe_h_cap; eauto.
      + apply IH. intros hd' Hin. apply H. right. exact Hin.
    - apply IH. intros hd' Hin. apply H. right. exact Hin. }
  apply G. intros hd Hin. destruct (In_nth_error _ _ Hin) as [j Hj]. exists (N.of_nat j).
  apply nthN_of_nat. exact Hj.
Qed.

(** ** C09: ceiling *)
Theorem count_never_wraps : forall bk st b blk,
  Inv bk st -> get_b st b = Some blk -> cnt blk <= UMAX - 1 /\ kind_get bk (cnt blk) <= UMAX.
Proof.
  intros bk st b blk I Hb. destruct (inv_b _ _ I _ _ Hb) as (_ & _ & H3 & _). split; [exact H3|].
  unfold UMAX in *. destruct bk; cbn [kind_get]; lia.
Qed.

(** ** rejected operations change nothing *)
Lemma spec_rel_rejected ty sp o u sp' : spec_rel ty sp o u sp' -> rejected u -> sp' = sp.
Proof.
  intros H R. destruct (spec_rel_shape _ _ _ _ _ H) as [->| v _ -> | h0 x _ _ Hn].
  - reflexivity.
  - exfalso. destruct R as [R|[(k & a & b & R)|R]]; discriminate R.
  - contradiction.
Qed.

Theorem rejected_unchanged : forall bk ty st o st' u,
  Inv bk st -> force_ok st o -> step bk ty st o = (st', u) ->
  (u = UPanic \/ (exists k a b, u = UErr k a b) \/ u = UNone) -> abs st' = abs st.
Proof.
  intros bk ty st o st' u I FO E R. eapply spec_rel_rejected; [eapply step_refines; eauto | exact R].
Qed.

Print Assumptions spec_rel_frame.
Print Assumptions C02_frame.
Print Assumptions mut_exclusive.
Print Assumptions unwrap_exclusive.
Print Assumptions sole_no_other.
Print Assumptions as_mut_granted_iff.
Print Assumptions into_vec_ok_iff.
Print Assumptions views_in_live_memory.
Print Assumptions run_no_ub.
Print Assumptions no_leak.
Print Assumptions capacity_ge_len.
Print Assumptions count_never_wraps.
Print Assumptions rejected_unchanged.
