(** * VecLib: reusable lemmas for the slot-level vector model (C13 C14 C15):
    lists (updn, nth, insert_at/remove_at), multiset counting, slots (rd/wr/write_slots/slots_from/elems),
    the world invariant and the callbacks, drop_slots, pool plumbing. *)
From Coq Require Import Permutation.
From Hip Require Import Base Range RangeProofs VecModel VecSpec.
Local Open Scope nat_scope.

(** ** generic list lemmas *)
Lemma updn_length {A} (l : list A) i x : length (updn l i x) = length l.
Proof. revert i; induction l as [|y l IH]; intros [|i]; cbn [updn length]; auto. Qed.

Lemma nth_updn_eq {A} (l : list A) i x d : i < length l -> nth i (updn l i x) d = x.
Proof. revert i; induction l as [|y l IH]; intros [|i] H; cbn [updn length nth] in *; try lia; auto. apply IH; lia. Qed.

Lemma nth_updn_ne {A} (l : list A) i j x d : i <> j -> nth j (updn l i x) d = nth j l d.
Proof. revert i j; induction l as [|y l IH]; intros [|i] [|j] H; cbn [updn nth]; auto; try lia. Qed.

Lemma nth_updn {A} (l : list A) i j x d : i < length l ->
  nth j (updn l i x) d = if Nat.eqb j i then x else nth j l d.
Proof.
  intros H. destruct (Nat.eqb j i) eqn:E.
  - apply Nat.eqb_eq in E. subst. now apply nth_updn_eq.
  - apply Nat.eqb_neq in E. apply nth_updn_ne. lia.
Qed.

Lemma nth_error_updn_eq {A} (l : list A) i x : i < length l -> nth_error (updn l i x) i = Some x.
Proof. revert i; induction l as [|y l IH]; intros [|i] H; cbn [updn length nth_error] in *; try lia; auto. apply IH; lia. Qed.

Lemma nth_error_updn_ne {A} (l : list A) i j x : i <> j -> nth_error (updn l i x) j = nth_error l j.
Proof. revert i j; induction l as [|y l IH]; intros [|i] [|j] H; cbn [updn nth_error]; auto; try lia. Qed.

Lemma updn_oob {A} (l : list A) i x : length l <= i -> updn l i x = l.
Proof. revert i; induction l as [|y l IH]; intros [|i] H; cbn [updn length] in *; auto; try lia. f_equal. apply IH. lia. Qed.

Lemma updn_comm {A} (l : list A) i j x y : i <> j -> updn (updn l i x) j y = updn (updn l j y) i x.
Proof. revert i j; induction l as [|a l IH]; intros [|i] [|j] H; cbn [updn]; auto; try lia. f_equal. apply IH. lia. Qed.

Lemma map_updn {A B} (f : A -> B) l i x : map f (updn l i x) = updn (map f l) i (f x).
Proof. revert i; induction l as [|y l IH]; intros [|i]; cbn [updn map]; auto. f_equal. auto. Qed.

Lemma firstn_updn_ge {A} (l : list A) i x n : n <= i -> firstn n (updn l i x) = firstn n l.
Proof. revert i n; induction l as [|y l IH]; intros [|i] [|n] H; cbn [updn firstn]; auto; try lia. f_equal. apply IH. lia. Qed.

Lemma updn_split {A} (l : list A) i x : i < length l -> updn l i x = firstn i l ++ x :: skipn (S i) l.
Proof. revert i; induction l as [|y l IH]; intros [|i] H; cbn [updn length firstn skipn app] in *; try lia; auto. f_equal. apply IH. lia. Qed.

Lemma nth_firstn' {A} (l : list A) n j d : j < n -> nth j (firstn n l) d = nth j l d.
Proof. revert n j; induction l as [|y l IH]; intros [|n] [|j] H; cbn [firstn nth]; auto; try lia. apply IH. lia. Qed.

Lemma nth_skipn' {A} (l : list A) n j d : nth j (skipn n l) d = nth (n + j) l d.
Proof. revert n; induction l as [|y l IH]; intros [|n]; cbn [skipn nth Nat.add]; auto. destruct j; auto. Qed.

Lemma nth_app' {A} (l1 l2 : list A) j d :
  nth j (l1 ++ l2) d = if Nat.ltb j (length l1) then nth j l1 d else nth (j - length l1) l2 d.
Proof.
  destruct (Nat.ltb j (length l1)) eqn:E.
  - apply Nat.ltb_lt in E. now apply app_nth1.
  - apply Nat.ltb_ge in E. now apply app_nth2.
Qed.

Lemma nth_repeat' {A} (x : A) n j d : j < n -> nth j (repeat x n) d = x.
Proof. revert j; induction n as [|n IH]; intros [|j] H; cbn [repeat nth]; try lia; auto. apply IH. lia. Qed.

Lemma list_ext {A} (l l' : list A) d : length l = length l' ->
  (forall j, j < length l -> nth j l d = nth j l' d) -> l = l'.
Proof. intros. now apply nth_ext with (d := d) (d' := d). Qed.

Lemma firstn_all_ge {A} (l : list A) n : length l <= n -> firstn n l = l.
Proof. intros. now apply firstn_all2. Qed.

Lemma firstn_split_at {A} (l : list A) a b : a <= b ->
  firstn b l = firstn a l ++ firstn (b - a) (skipn a l).
Proof.
  revert a b; induction l as [|y l IH]; intros a b H.
  - now rewrite skipn_nil, !firstn_nil.
  - destruct a as [|a]; [cbn [firstn skipn app]; now rewrite Nat.sub_0_r|].
    destruct b as [|b]; [lia|]. cbn [firstn skipn app Nat.sub]. f_equal. apply IH. lia.
Qed.

Lemma sub_split3 {A} (l : list A) a b : a <= b ->
  l = firstn a l ++ firstn (b - a) (skipn a l) ++ skipn b l.
Proof. intros H. rewrite app_assoc, <- firstn_split_at by exact H. symmetry. apply firstn_skipn. Qed.

Lemma skipn_add {A} (l : list A) a b : skipn a (skipn b l) = skipn (b + a) l.
Proof. revert l; induction b as [|b IH]; intros l; cbn [skipn Nat.add]; auto. destruct l; [now rewrite skipn_nil | apply IH]. Qed.

Lemma sub_split_mid {A} (l : list A) a b c : a <= b -> b <= c ->
  firstn (c - a) (skipn a l) = firstn (b - a) (skipn a l) ++ firstn (c - b) (skipn b l).
Proof.
  intros H1 H2. rewrite (firstn_split_at (skipn a l) (b - a) (c - a)) by lia.
  f_equal. rewrite skipn_add. replace (c - a - (b - a)) with (c - b) by lia. replace (a + (b - a)) with b by lia. reflexivity.
Qed.

(** ** insert_at / remove_at *)
Lemma insert_at_length {A} (l : list A) i x : length (insert_at l i x) = S (length l).
Proof. revert l; induction i as [|i IH]; intros [|y l]; cbn [insert_at length]; auto. Qed.

Lemma nth_insert_at {A} (l : list A) i x j d : i <= length l ->
  nth j (insert_at l i x) d = if Nat.ltb j i then nth j l d else if Nat.eqb j i then x else nth (j - 1) l d.
Proof.
  revert l j; induction i as [|i IH]; intros l j H.
  - assert (insert_at l 0 x = x :: l) as -> by (destruct l; reflexivity).
    destruct j as [|j]; [reflexivity|]. replace (S j - 1) with j by lia. reflexivity.
  - destruct l as [|y l]; cbn [length] in H; [lia|]. cbn [insert_at]. destruct j as [|j]; [reflexivity|].
    cbn [nth]. rewrite IH by lia. change (Nat.ltb (S j) (S i)) with (Nat.ltb j i). change (Nat.eqb (S j) (S i)) with (Nat.eqb j i).
    destruct (Nat.ltb j i) eqn:E1; auto. destruct (Nat.eqb j i) eqn:E2; auto.
    apply Nat.ltb_ge in E1. apply Nat.eqb_neq in E2. destruct j as [|j]; [lia|]. replace (S j - 1) with j by lia. replace (S (S j) - 1) with (S j) by lia. reflexivity.
Qed.

Lemma remove_at_length {A} (l : list A) i : i < length l -> length (remove_at l i) = length l - 1.
Proof.
  revert l; induction i as [|i IH]; intros [|y l] H; cbn [remove_at length] in *; try lia.
  rewrite IH by lia. lia.
Qed.

Lemma nth_remove_at {A} (l : list A) i j d :
  nth j (remove_at l i) d = if Nat.ltb j i then nth j l d else nth (S j) l d.
Proof.
  revert l j; induction i as [|i IH]; intros [|y l] j.
  - cbn [remove_at]. destruct j; destruct (Nat.ltb _ _); reflexivity.
  - reflexivity.
  - cbn [remove_at]. destruct j; destruct (Nat.ltb _ _); reflexivity.
  - cbn [remove_at]. destruct j as [|j]; [reflexivity|]. cbn [nth]. rewrite IH. reflexivity.
Qed.

Lemma map_insert_at {A B} (f : A -> B) l i x : map f (insert_at l i x) = insert_at (map f l) i (f x).
Proof. revert l; induction i as [|i IH]; intros [|y l]; cbn [insert_at map]; auto. f_equal. auto. Qed.

Lemma map_remove_at {A B} (f : A -> B) l i : map f (remove_at l i) = remove_at (map f l) i.
Proof. revert l; induction i as [|i IH]; intros [|y l]; cbn [remove_at map]; auto. f_equal. auto. Qed.

Lemma removelast_length {A} (l : list A) : length (removelast l) = length l - 1.
Proof. induction l as [|x [|y l] IH]; cbn [removelast length] in *; auto. lia. Qed.

Lemma nth_removelast {A} (l : list A) j d : j < length l - 1 -> nth j (removelast l) d = nth j l d.
Proof.
  revert j; induction l as [|x [|y l] IH]; intros j H; cbn [length] in *; try lia.
  cbn [removelast]. destruct j as [|j]; [reflexivity|]. cbn [nth]. apply IH. cbn [length]. lia.
Qed.

Lemma last_nth {A} (l : list A) d : last l d = nth (length l - 1) l d.
Proof. induction l as [|x [|y l] IH]; cbn [last length nth Nat.sub] in *; auto. now rewrite Nat.sub_0_r in IH. Qed.

Lemma map_removelast {A B} (f : A -> B) l : map f (removelast l) = removelast (map f l).
Proof. induction l as [|x [|y l] IH]; cbn [removelast map] in *; auto. f_equal. auto. Qed.

Lemma map_last {A B} (f : A -> B) l d : f (last l d) = last (map f l) (f d).
Proof. induction l as [|x [|y l] IH]; cbn [last map] in *; auto. Qed.

(** ** multiset counting on identities: a uniform way to discharge NoDup / incl side conditions *)
Notation cnt := (count_occ N.eq_dec).

Lemma cnt_cons x l y : cnt (x :: l) y = cnt [x] y + cnt l y.
Proof. change (x :: l) with ([x] ++ l). apply count_occ_app. Qed.
Lemma cnt_nil y : cnt [] y = 0.
Proof. reflexivity. Qed.
Lemma cnt_one_le x y : cnt [x] y <= 1.
Proof. cbn [count_occ]. destruct (N.eq_dec x y); lia. Qed.
Lemma cnt_one_eq x : cnt [x] x = 1.
Proof. cbn [count_occ]. destruct (N.eq_dec x x); congruence. Qed.
Lemma cnt_one_ne x y : x <> y -> cnt [x] y = 0.
Proof. intros. cbn [count_occ]. destruct (N.eq_dec x y); congruence. Qed.

Ltac cnt_norm :=
  repeat first
   [ rewrite count_occ_app
   | rewrite count_occ_rev
   | rewrite cnt_nil
   | match goal with |- context [count_occ N.eq_dec (?x :: ?l) ?y] =>
       lazymatch l with nil => fail | _ => rewrite (cnt_cons x l y) end end ].
Ltac cnt_norm_in H :=
  repeat first
   [ rewrite count_occ_app in H
   | rewrite count_occ_rev in H
   | rewrite cnt_nil in H
   | match type of H with context [count_occ N.eq_dec (?x :: ?l) ?y] =>
       lazymatch l with nil => fail | _ => rewrite (cnt_cons x l y) in H end end ].

(** [subm L' L]: [L'] is a sub-multiset of [L] *)
Definition subm (L' L : list N) : Prop := forall x, cnt L' x <= cnt L x.

Lemma subm_refl L : subm L L.
Proof. intros x. lia. Qed.
Lemma subm_trans L1 L2 L3 : subm L1 L2 -> subm L2 L3 -> subm L1 L3.
Proof. intros H1 H2 x. specialize (H1 x). specialize (H2 x). lia. Qed.
Lemma subm_NoDup L' L : subm L' L -> NoDup L -> NoDup L'.
Proof. intros H Hn. apply (NoDup_count_occ N.eq_dec). intros x. rewrite (NoDup_count_occ N.eq_dec) in Hn. specialize (H x). specialize (Hn x). lia. Qed.
Lemma subm_incl L' L : subm L' L -> incl L' L.
Proof. intros H x Hx. apply (count_occ_In N.eq_dec) in Hx. apply (count_occ_In N.eq_dec). specialize (H x). lia. Qed.
Lemma cnt_In x L : In x L <-> cnt L x > 0.
Proof. apply count_occ_In. Qed.
Lemma cnt_notIn x L : ~ In x L <-> cnt L x = 0.
Proof. apply count_occ_not_In. Qed.
Lemma cnt_NoDup_le L x : NoDup L -> cnt L x <= 1.
Proof. intros H. now apply (NoDup_count_occ N.eq_dec). Qed.
Lemma perm_cnt L L' : (forall x, cnt L x = cnt L' x) -> Permutation L L'.
Proof. apply Permutation_count_occ. Qed.

Lemma cnt_firstn_skipn (l : list N) n x : cnt l x = cnt (firstn n l) x + cnt (skipn n l) x.
Proof. rewrite <- count_occ_app. now rewrite firstn_skipn. Qed.

Lemma cnt_insert_at (l : list N) i y x : cnt (insert_at l i y) x = cnt [y] x + cnt l x.
Proof.
  revert l; induction i as [|i IH]; intros [|z l]; cbn [insert_at]; try (now rewrite (cnt_cons y _ x)).
  rewrite (cnt_cons z (insert_at l i y)), (cnt_cons z l), IH. lia.
Qed.

Lemma cnt_remove_at (l : list N) i x : i < length l -> cnt l x = cnt [nth i l 0%N] x + cnt (remove_at l i) x.
Proof.
  revert l; induction i as [|i IH]; intros [|z l] H; cbn [length] in H; try lia.
  - cbn [remove_at nth]. apply cnt_cons.
  - cbn [remove_at nth]. rewrite (cnt_cons z l), (cnt_cons z (remove_at l i)), (IH l) by lia. lia.
Qed.

Lemma cnt_updn (l : list N) i y x : i < length l -> cnt (updn l i y) x + cnt [nth i l 0%N] x = cnt l x + cnt [y] x.
Proof.
  revert i; induction l as [|z l IH]; intros [|i] H; cbn [length] in H; try lia; cbn [updn nth].
  - rewrite (cnt_cons y l), (cnt_cons z l). lia.
  - rewrite (cnt_cons z (updn l i y)), (cnt_cons z l). specialize (IH i ltac:(lia)). lia.
Qed.

Lemma cnt_removelast (l : list N) x : l <> [] -> cnt l x = cnt (removelast l) x + cnt [last l 0%N] x.
Proof.
  intros H. rewrite (app_removelast_last 0%N H) at 1. now rewrite count_occ_app.
Qed.

(** ** mem / remove1 *)
Lemma mem_In x l : mem x l = true <-> In x l.
Proof.
  induction l as [|y r IH]; cbn [mem In]; [intuition discriminate|].
  rewrite orb_true_iff, N.eqb_eq, IH. intuition.
Qed.

Lemma remove1_In_weak x y l : In y (remove1 x l) -> In y l.
Proof. induction l as [|z r IH]; cbn [remove1 In]; auto. destruct (N.eqb z x); cbn [In]; intuition. Qed.

Lemma cnt_remove1 x l y : In x l -> cnt l y = cnt [x] y + cnt (remove1 x l) y.
Proof.
  induction l as [|z r IH]; cbn [remove1 In]; [tauto|]. intros H.
  destruct (N.eqb z x) eqn:E.
  - apply N.eqb_eq in E. subst. apply cnt_cons.
  - apply N.eqb_neq in E. destruct H as [H|H]; [congruence|].
    rewrite (cnt_cons z r), (cnt_cons z (remove1 x r)), IH by exact H. lia.
Qed.

Lemma remove1_In_nd x y l : NoDup l -> In x l -> (In y (remove1 x l) <-> In y l /\ y <> x).
Proof.
  intros Hn Hx. pose proof (cnt_remove1 x l y Hx) as Hc. pose proof (cnt_NoDup_le l y Hn) as Hl.
  rewrite !cnt_In. destruct (N.eq_dec x y) as [->|Hne].
  - rewrite cnt_one_eq in Hc. split; [lia|tauto].
  - rewrite (cnt_one_ne _ _ Hne) in Hc. split; [intros; split; [lia|congruence] | lia].
Qed.

(** ** worlds *)
Definition resw {A} (r : res A) : world := match r with Done _ w => w | Pan w => w end.

(** the part of [VInv] that speaks about the world alone; the last clause is the strengthening needed to make
    [vi_drops] inductive (a dropped identity is never handed out again) *)
Record WInv (w : world) : Prop := {
  wi_bad : badw w = false;
  wi_nd : NoDup (live w);
  wi_fresh : forall id, In id (live w) -> (id < len (vals w))%N;
  wi_dnd : NoDup (drop_ids (log w));
  wi_dead : forall id, In id (drop_ids (log w)) -> ~ In id (live w);
  wi_dfresh : forall id, In id (drop_ids (log w)) -> (id < len (vals w))%N
}.

(** [w'] has the same observable core as [w] *)
Definition wsame (w w' : world) : Prop :=
  live w' = live w /\ vals w' = vals w /\ badw w' = badw w /\ drop_ids (log w') = drop_ids (log w) /\ pan w' = pan w.
Definition wheap (w w' : world) : Prop := wa w' = wa w /\ wf w' = wf w.
(** [w'] is [w] plus the new identity [nid] of value [x] *)
Definition wborn (w w' : world) (nid x : N) : Prop :=
  nid = len (vals w) /\ live w' = nid :: live w /\ vals w' = vals w ++ [x] /\ badw w' = badw w
  /\ drop_ids (log w') = drop_ids (log w) /\ pan w' = pan w /\ wa w' = wa w /\ wf w' = wf w.
(** [w'] is [w] after the destructor of the live identity [id] ran *)
Definition wdied (w w' : world) (id : N) : Prop :=
  live w' = remove1 id (live w) /\ vals w' = vals w /\ badw w' = badw w
  /\ drop_ids (log w') = id :: drop_ids (log w) /\ pan w' = pan w /\ wa w' = wa w /\ wf w' = wf w.

Lemma wsame_refl w : wsame w w.
Proof. unfold wsame; tauto. Qed.
Lemma wsame_trans w1 w2 w3 : wsame w1 w2 -> wsame w2 w3 -> wsame w1 w3.
Proof. unfold wsame. intros (a&b&c&d&e) (a'&b'&c'&d'&e'). repeat split; congruence. Qed.
Lemma wheap_refl w : wheap w w.
Proof. unfold wheap; tauto. Qed.
Lemma wheap_trans w1 w2 w3 : wheap w1 w2 -> wheap w2 w3 -> wheap w1 w3.
Proof. unfold wheap. intros (a&b) (a'&b'). split; congruence. Qed.

Lemma WInv_same w w' : WInv w -> wsame w w' -> WInv w'.
Proof.
  intros [A B C D E F] (Hl & Hv & Hb & Hd & _). split; rewrite ?Hl, ?Hv, ?Hb, ?Hd; auto.
Qed.

Lemma WInv_born w w' nid x : WInv w -> wborn w w' nid x -> WInv w' /\ ~ In nid (live w).
Proof.
  intros [A B C D E F] (Hn & Hl & Hv & Hb & Hd & _).
  assert (~ In nid (live w)) as Hfresh by (intros Hin; apply C in Hin; lia).
  split; [|exact Hfresh]. split; rewrite ?Hl, ?Hv, ?Hb, ?Hd; auto.
  - constructor; auto.
  - intros id [<-|Hin]; rewrite len_app, len_cons, len_nil; [lia|]. apply C in Hin. lia.
  - intros id Hin [<-|Hc]; [apply F in Hin; lia | now apply (E id)].
  - intros id Hin. rewrite len_app. apply F in Hin. lia.
Qed.

Lemma WInv_died w w' id : WInv w -> In id (live w) -> wdied w w' id -> WInv w'.
Proof.
  intros [A B C D E F] Hin (Hl & Hv & Hb & Hd & _).
  split; rewrite ?Hl, ?Hv, ?Hb, ?Hd; auto.
  - eapply subm_NoDup; [|exact B]. intros y. rewrite (cnt_remove1 id (live w) y Hin). lia.
  - intros y Hy. apply C. eapply remove1_In_weak; eauto.
  - constructor; auto. intros Hc. now apply (E id).
  - intros y [<-|Hy] Hc.
    + apply (remove1_In_nd id id (live w) B Hin) in Hc. tauto.
    + apply remove1_In_weak in Hc. now apply (E y).
  - intros y [<-|Hy]; auto.
Qed.

(** ** callbacks *)
Ltac wfields := cbn [live vals cbs pan log badw wa wf wr_ unw set_badw set_unw add_log ev_alloc ev_free ev_realloc drop_ids fst snd].

Lemma cb_clone_spec w src x :
  match cb_clone w src x with
  | Done nid w' => wborn w w' nid x
  | Pan w' => wsame w w'
  end.
Proof.
  unfold cb_clone, tick, fresh. destruct (match pan w with Some k => _ | None => false end); wfields;
    unfold wborn, wsame; wfields; repeat split; reflexivity.
Qed.
Lemma cb_next_spec w x :
  match cb_next w x with
  | Done nid w' => wborn w w' nid x
  | Pan w' => wsame w w'
  end.
Proof.
  unfold cb_next, tick, fresh. destruct (match pan w with Some k => _ | None => false end); wfields;
    unfold wborn, wsame; wfields; repeat split; reflexivity.
Qed.
Lemma cb_make_spec w x :
  match cb_make w x with
  | Done nid w' => wborn w w' nid x
  | Pan w' => wsame w w'
  end.
Proof.
  unfold cb_make, tick, fresh. destruct (match pan w with Some k => _ | None => false end); wfields;
    unfold wborn, wsame; wfields; repeat split; reflexivity.
Qed.
Lemma cb_pred_spec w id r :
  match cb_pred w id r with
  | Done r' w' => r' = r /\ wsame w w'
  | Pan w' => wsame w w'
  end.
Proof.
  unfold cb_pred, tick. destruct (match pan w with Some k => _ | None => false end); wfields;
    unfold wsame; wfields; repeat split; reflexivity.
Qed.
Lemma fresh_spec w x : wborn w (snd (fresh w x)) (fst (fresh w x)) x.
Proof. unfold fresh, wborn; wfields. repeat split; reflexivity. Qed.

Lemma cb_drop_spec w id : In id (live w) -> wdied w (resw (cb_drop w id)) id.
Proof.
  intros Hin. unfold cb_drop, tick. wfields. apply mem_In in Hin. rewrite Hin.
  destruct (match pan w with Some k => _ | None => false end); unfold resw, wdied; wfields; repeat split; reflexivity.
Qed.

(** without an injected panic the callbacks succeed *)
Lemma cb_clone_np w src x : pan w = None -> exists w', cb_clone w src x = Done (len (vals w)) w'.
Proof. intros H. unfold cb_clone, tick, fresh. rewrite H. wfields. eexists; reflexivity. Qed.
Lemma cb_next_np w x : pan w = None -> exists w', cb_next w x = Done (len (vals w)) w'.
Proof. intros H. unfold cb_next, tick, fresh. rewrite H. wfields. eexists; reflexivity. Qed.
Lemma cb_make_np w x : pan w = None -> exists w', cb_make w x = Done (len (vals w)) w'.
Proof. intros H. unfold cb_make, tick, fresh. rewrite H. wfields. eexists; reflexivity. Qed.
Lemma cb_pred_np w id r : pan w = None -> exists w', cb_pred w id r = Done r w'.
Proof. intros H. unfold cb_pred, tick. rewrite H. eexists; reflexivity. Qed.
Lemma cb_drop_np w id : pan w = None -> exists w', cb_drop w id = Done tt w'.
Proof. intros H. unfold cb_drop, tick. rewrite H. eexists; reflexivity. Qed.

(** ** ownership: the identities in [L] are pairwise distinct and alive in a good world *)
Definition own (w : world) (L : list N) : Prop := WInv w /\ NoDup L /\ incl L (live w).

Lemma own_sub w L L' : own w L -> subm L' L -> own w L'.
Proof.
  intros (Hw & Hn & Hi) Hs. split; [exact Hw|]. split; [eapply subm_NoDup; eauto|].
  intros x Hx. apply Hi. eapply subm_incl; eauto.
Qed.
Lemma own_same w w' L : own w L -> wsame w w' -> own w' L.
Proof.
  intros (Hw & Hn & Hi) Hs. split; [eapply WInv_same; eauto|]. split; [exact Hn|].
  destruct Hs as (Hl & _). now rewrite Hl.
Qed.
Lemma own_born w w' nid x L : own w L -> wborn w w' nid x -> own w' (nid :: L).
Proof.
  intros (Hw & Hn & Hi) Hb. destruct (WInv_born _ _ _ _ Hw Hb) as [Hw' Hf].
  destruct Hb as (_ & Hl & _). split; [exact Hw'|]. split.
  - constructor; auto.
  - rewrite Hl. intros y [<-|Hy]; [now left | right; auto].
Qed.
Lemma own_died w w' id L : own w (id :: L) -> wdied w w' id -> own w' L.
Proof.
  intros (Hw & Hn & Hi) Hd. assert (In id (live w)) as Hin by (apply Hi; now left).
  split; [eapply WInv_died; eauto|]. inversion Hn as [|? ? Hni Hn']; subst. split; [exact Hn'|].
  destruct Hd as (Hl & _). rewrite Hl. intros y Hy.
  apply (remove1_In_nd id y (live w) (wi_nd _ Hw) Hin). split; [apply Hi; now right | congruence].
Qed.
Lemma own_drop w id L : own w (id :: L) -> own (resw (cb_drop w id)) L.
Proof. intros H. eapply own_died; [exact H|]. apply cb_drop_spec. destruct H as (_ & _ & Hi). apply Hi. now left. Qed.
Lemma own_In w L x : own w L -> In x L -> In x (live w).
Proof. intros (_ & _ & Hi). apply Hi. Qed.
Lemma own_WInv w L : own w L -> WInv w.
Proof. now intros (H & _). Qed.
Lemma own_fresh_notin w L : own w L -> ~ In (len (vals w)) L.
Proof. intros (Hw & _ & Hi) Hin. apply Hi in Hin. apply (wi_fresh _ Hw) in Hin. lia. Qed.

(** ** drop_slots *)
Lemma own_drop_slots st : forall G w pk L, own w (G ++ L) -> own (resw (drop_slots st w (map E G) pk)) L.
Proof.
  induction G as [|g G IH]; intros w pk L H; cbn [map drop_slots app] in *.
  - destruct pk; exact H.
  - pose proof (own_drop w g (G ++ L) H) as H1.
    destruct (cb_drop w g) as [[] w1|w1]; cbn [resw] in H1.
    + now apply IH.
    + destruct st; [|now apply IH]. cbn [resw]. eapply own_sub; [exact H1|]. intros x. cnt_norm. lia.
Qed.

Lemma drop_slots_np st : forall G w pk, pan w = None -> subm G (live w) ->
  exists w', drop_slots st w (map E G) pk = (if pk then Pan w' else Done tt w')
    /\ vals w' = vals w /\ pan w' = None /\ wa w' = wa w /\ wf w' = wf w /\ badw w' = badw w
    /\ (forall x, cnt (live w) x = cnt G x + cnt (live w') x).
Proof.
  induction G as [|g G IH]; intros w pk Hp Hs; cbn [map drop_slots].
  - exists w. repeat split; auto.
  - assert (In g (live w)) as Hg.
    { apply cnt_In. specialize (Hs g). rewrite (cnt_cons g G), cnt_one_eq in Hs. lia. }
    destruct (cb_drop_np w g Hp) as [w1 E1]. pose proof (cb_drop_spec w g Hg) as Hd. rewrite E1 in *. cbn [resw] in Hd.
    destruct Hd as (Hl & Hv & Hb & _ & Hp1 & Ha & Hf).
    assert (forall x, cnt (live w) x = cnt [g] x + cnt (live w1) x) as Hc.
    { intros x. rewrite Hl. now apply cnt_remove1. }
    destruct (IH w1 pk) as (w' & E' & Hv' & Hp' & Ha' & Hf' & Hb' & Hc').
    { congruence. }
    { intros x. specialize (Hs x). specialize (Hc x). rewrite (cnt_cons g G) in Hs. lia. }
    exists w'. split; [exact E'|]. repeat split; try congruence.
    intros x. rewrite (cnt_cons g G), (Hc x), (Hc' x). lia.
Qed.

(** ** slots *)
Lemma idents_app l1 l2 : idents (l1 ++ l2) = idents l1 ++ idents l2.
Proof. unfold idents. apply flat_map_app. Qed.
Lemma idents_map_E ids : idents (map E ids) = ids.
Proof. induction ids as [|x r IH]; cbn [map idents flat_map app] in *; auto. f_equal. exact IH. Qed.
Lemma idents_length_le l : length (idents l) <= length l.
Proof. induction l as [|s r IH]; [cbn; lia|]. destruct s; cbn [idents flat_map app length] in *; fold (idents r) in *; lia. Qed.
Lemma idents_full l : length (idents l) = length l -> l = map E (idents l).
Proof.
  induction l as [|s r IH]; [reflexivity|]. destruct s as [|x]; cbn [idents flat_map app length map]; fold (idents r).
  - pose proof (idents_length_le r). lia.
  - intros H. f_equal. apply IH. lia.
Qed.
Lemma nth_map_E ids j : j < length ids -> nth j (map E ids) U = E (nth j ids 0%N).
Proof. intros H. rewrite (nth_indep _ U (E 0%N)) by (now rewrite map_length). apply map_nth. Qed.

(** the vector's initialised prefix is well formed *)
Definition vsound (v : vec) : Prop := vlen v <= vcapn v /\ length (elems v) = vlen v.

Lemma vec_sound_vsound k v : vec_sound k v -> vsound v.
Proof. unfold vec_sound, vsound. tauto. Qed.

Lemma vsound_prefix v : vsound v -> firstn (vlen v) (slots v) = map E (elems v).
Proof.
  intros [Hl He]. unfold elems in *. apply idents_full. rewrite He, firstn_length. unfold vcapn in Hl. lia.
Qed.

Lemma rd_elems v j : vsound v -> j < vlen v -> rd v j = E (nth j (elems v) 0%N).
Proof.
  intros Hs Hj. unfold rd. rewrite <- (nth_firstn' (slots v) (vlen v)) by exact Hj.
  rewrite vsound_prefix by exact Hs. apply nth_map_E. destruct Hs as [_ He]. lia.
Qed.

Lemma elems_ext v l : vlen v <= vcapn v -> length l = vlen v ->
  (forall j, j < vlen v -> rd v j = E (nth j l 0%N)) -> elems v = l.
Proof.
  intros Hc Hl Hj. unfold elems. assert (firstn (vlen v) (slots v) = map E l) as ->; [|apply idents_map_E].
  apply list_ext with (d := U).
  - rewrite firstn_length, map_length. unfold vcapn in Hc. lia.
  - intros j Hlt. rewrite firstn_length in Hlt. assert (j < vlen v) as Hj' by lia.
    rewrite nth_firstn' by exact Hj'. rewrite nth_map_E by lia. now apply Hj.
Qed.

Lemma vsound_ext v l : vlen v <= vcapn v -> length l = vlen v ->
  (forall j, j < vlen v -> rd v j = E (nth j l 0%N)) -> vsound v /\ elems v = l.
Proof. intros Hc Hl Hj. pose proof (elems_ext v l Hc Hl Hj) as He. split; [|exact He]. split; [exact Hc|congruence]. Qed.

Lemma rd_mk sl n j : rd (mkV sl n) j = nth j sl U.
Proof. reflexivity. Qed.

Lemma wr_ok w v i s : i < vcapn v -> wr w v i s = (w, mkV (updn (slots v) i s) (vlen v)).
Proof. intros H. unfold wr. apply Nat.ltb_lt in H. now rewrite H. Qed.
Lemma setlen_ok w v n : n <= vcapn v -> setlen w v n = (w, mkV (slots v) n).
Proof. intros H. unfold setlen. apply Nat.leb_le in H. now rewrite H. Qed.

Fixpoint wrl (sl : list slot) (i : nat) (l : list slot) : list slot :=
  match l with [] => sl | s :: r => wrl (updn sl i s) (S i) r end.

Lemma wrl_length : forall l sl i, length (wrl sl i l) = length sl.
Proof. induction l as [|s r IH]; intros sl i; cbn [wrl]; auto. now rewrite IH, updn_length. Qed.

Lemma write_slots_ok : forall l w v i, i + length l <= vcapn v ->
  write_slots w v i l = (w, mkV (wrl (slots v) i l) (vlen v)).
Proof.
  induction l as [|s r IH]; intros w v i H; cbn [write_slots wrl length] in *.
  - now destruct v.
  - rewrite wr_ok by lia. rewrite IH by (unfold vcapn in *; cbn [slots]; rewrite updn_length; lia). reflexivity.
Qed.

Lemma nth_wrl : forall l sl i j, i + length l <= length sl ->
  nth j (wrl sl i l) U = if Nat.leb i j && Nat.ltb j (i + length l) then nth (j - i) l U else nth j sl U.
Proof.
  induction l as [|s r IH]; intros sl i j H; cbn [wrl length] in *.
  - destruct (Nat.leb i j) eqn:E1, (Nat.ltb j (i + 0)) eqn:E2; cbn [andb]; auto.
    apply Nat.leb_le in E1. apply Nat.ltb_lt in E2. lia.
  - rewrite IH by (rewrite updn_length; lia).
    destruct (Nat.leb (S i) j) eqn:E1, (Nat.ltb j (S i + length r)) eqn:E2; cbn [andb];
      destruct (Nat.leb i j) eqn:E3, (Nat.ltb j (i + S (length r))) eqn:E4; cbn [andb];
      try apply Nat.leb_le in E1; try apply Nat.leb_gt in E1; try apply Nat.ltb_lt in E2; try apply Nat.ltb_ge in E2;
      try apply Nat.leb_le in E3; try apply Nat.leb_gt in E3; try apply Nat.ltb_lt in E4; try apply Nat.ltb_ge in E4; try lia.
    + replace (j - i) with (S (j - S i)) by lia. reflexivity.
    + apply nth_updn_ne. lia.
    + assert (j = i) as -> by lia. rewrite Nat.sub_diag. cbn [nth]. apply nth_updn_eq. lia.
    + apply nth_updn_ne. lia.
Qed.

Lemma slots_from_length v i n : length (slots_from v i n) = n.
Proof. revert i; induction n as [|n IH]; intros i; cbn [slots_from length]; auto. Qed.
Lemma nth_slots_from v : forall n i j, j < n -> nth j (slots_from v i n) U = rd v (i + j).
Proof.
  induction n as [|n IH]; intros i j H; [lia|]. cbn [slots_from]. destruct j as [|j]; cbn [nth].
  - now rewrite Nat.add_0_r.
  - rewrite IH by lia. f_equal. lia.
Qed.
Lemma slots_from_ext v v' i n : slots v' = slots v -> slots_from v' i n = slots_from v i n.
Proof. intros H. revert i; induction n as [|n IH]; intros i; cbn [slots_from]; auto. unfold rd. rewrite H. f_equal. apply IH. Qed.

Lemma slots_from_sound v i n : vsound v -> i + n <= vlen v ->
  slots_from v i n = map E (firstn n (skipn i (elems v))).
Proof.
  intros Hs H. destruct Hs as [Hc He]. apply list_ext with (d := U).
  - rewrite slots_from_length, map_length, firstn_length, skipn_length. lia.
  - rewrite slots_from_length. intros j Hj. rewrite nth_slots_from by exact Hj.
    rewrite nth_map_E by (rewrite firstn_length, skipn_length; lia).
    rewrite nth_firstn' by exact Hj. rewrite nth_skipn'. apply rd_elems; [split; assumption | lia].
Qed.

Lemma take_slot_ok w v i id : rd v i = E id -> take_slot w v i = (w, id).
Proof. intros H. unfold take_slot. now rewrite H. Qed.

Lemma take_ids_ok w v : forall n i ids, slots_from v i n = map E ids -> take_ids w v i n = (w, ids).
Proof.
  induction n as [|n IH]; intros i ids H; cbn [slots_from take_ids] in *.
  - destruct ids; [reflexivity|discriminate].
  - destruct ids as [|x ids]; [discriminate|]. cbn [map] in H. injection H as H1 H2.
    rewrite (take_slot_ok w v i x H1). rewrite (IH (S i) ids H2). reflexivity.
Qed.

Lemma take_ids_back_ok w v : forall n i ids, n <= i -> slots_from v (i - n) n = map E ids ->
  take_ids_back w v i n = (w, rev ids).
Proof.
  induction n as [|n IH]; intros i ids Hle H; cbn [take_ids_back].
  - cbn [slots_from] in H. destruct ids; [reflexivity|discriminate].
  - assert (length ids = S n) as Hlen by (rewrite <- (map_length E ids), <- H; apply slots_from_length).
    assert (rd v (i - 1) = E (nth n ids 0%N)) as Hr.
    { rewrite <- nth_map_E by lia. rewrite <- H. rewrite nth_slots_from by lia. f_equal. lia. }
    rewrite (take_slot_ok w v (i - 1) _ Hr).
    rewrite (IH (i - 1) (firstn n ids)); [|lia|].
    + f_equal. assert (skipn n ids = [nth n ids 0%N]) as Hsk; [|rewrite <- (firstn_skipn n ids) at 3; rewrite rev_app_distr, Hsk; reflexivity].
      apply list_ext with (d := 0%N); [rewrite skipn_length; cbn [length]; lia|].
      intros j Hj. rewrite skipn_length in Hj. assert (j = 0) as -> by lia. rewrite nth_skipn'. cbn [nth]. f_equal. lia.
    + apply list_ext with (d := U); [rewrite slots_from_length, map_length, firstn_length; lia|].
      rewrite slots_from_length. intros j Hj. rewrite nth_slots_from by exact Hj.
      rewrite nth_map_E by (rewrite firstn_length; lia). rewrite nth_firstn' by exact Hj.
      rewrite <- nth_map_E by lia. rewrite <- H. rewrite nth_slots_from by lia. f_equal. lia.
Qed.

(** elements after a change of length / a write above the length *)
Lemma elems_mk_le v n : vsound v -> n <= vlen v -> elems (mkV (slots v) n) = firstn n (elems v) /\ vsound (mkV (slots v) n).
Proof.
  intros Hs Hn. destruct (vsound_ext (mkV (slots v) n) (firstn n (elems v))) as [A B].
  - destruct Hs as [Hc _]. unfold vcapn in *. cbn [slots vlen]. lia.
  - destruct Hs as [_ He]. cbn [vlen]. rewrite firstn_length. lia.
  - cbn [vlen]. intros j Hj. rewrite nth_firstn' by exact Hj. change (rd (mkV (slots v) n) j) with (rd v j). apply rd_elems; [exact Hs|lia].
  - tauto.
Qed.

Lemma elems_same_prefix v v' : vlen v' = vlen v -> firstn (vlen v) (slots v') = firstn (vlen v) (slots v) -> elems v' = elems v.
Proof. intros Hl Hf. unfold elems. now rewrite Hl, Hf. Qed.

Lemma elems_wr_ge v i s : vlen v <= i -> elems (mkV (updn (slots v) i s) (vlen v)) = elems v.
Proof. intros H. apply elems_same_prefix; cbn [vlen slots]; auto. now apply firstn_updn_ge. Qed.

(** push: write at the length, bump the length *)
Definition pushv (v : vec) (id : N) : vec := mkV (updn (slots v) (vlen v) (E id)) (S (vlen v)).

Lemma pushv_spec v id : vsound v -> vlen v < vcapn v ->
  vsound (pushv v id) /\ elems (pushv v id) = elems v ++ [id] /\ vcapn (pushv v id) = vcapn v /\ vlen (pushv v id) = S (vlen v).
Proof.
  intros Hs Hlt. assert (vcapn (pushv v id) = vcapn v) as Hc by (unfold vcapn, pushv; cbn [slots]; apply updn_length).
  destruct (vsound_ext (pushv v id) (elems v ++ [id])) as [A B].
  - rewrite Hc. cbn [pushv vlen]. lia.
  - destruct Hs as [_ He]. rewrite app_length, He. cbn [length pushv vlen]. lia.
  - cbn [pushv vlen]. intros j Hj. unfold rd. cbn [pushv slots]. rewrite nth_updn by (unfold vcapn in Hlt; lia).
    rewrite nth_app'. destruct Hs as [Hc' He]. rewrite He.
    destruct (Nat.eqb j (vlen v)) eqn:E1.
    + apply Nat.eqb_eq in E1. subst j. rewrite (proj2 (Nat.ltb_ge _ _)) by lia. now rewrite Nat.sub_diag.
    + apply Nat.eqb_neq in E1. rewrite (proj2 (Nat.ltb_lt _ _)) by lia. apply rd_elems; [split; assumption|lia].
  - split; [exact A|]. split; [exact B|]. split; [exact Hc|reflexivity].
Qed.

Lemma push_steps w v id : vlen v < vcapn v ->
  (let '(w1, v1) := wr w v (vlen v) (E id) in setlen w1 v1 (S (vlen v))) = (w, pushv v id).
Proof.
  intros H. rewrite wr_ok by exact H. rewrite setlen_ok; [reflexivity|]. unfold vcapn in *. cbn [slots]. rewrite updn_length. lia.
Qed.

(** ** capacity changes *)
Lemma new_vec_spec c : vsound (new_vec c) /\ elems (new_vec c) = [] /\ vcapn (new_vec c) = c /\ vlen (new_vec c) = 0.
Proof.
  unfold new_vec, vsound, elems, vcapn. cbn [slots vlen firstn idents flat_map length]. rewrite repeat_length. repeat split; lia.
Qed.

Lemma set_cap_spec w v c w' v' : vsound v -> vlen v <= c -> set_cap w v c = (w', v') ->
  (wsame w w' /\ wheap w w') /\ vcapn v' = c /\ vlen v' = vlen v /\ elems v' = elems v /\ vsound v'.
Proof.
  intros Hs Hc. unfold set_cap. destruct (Nat.eqb c (vcapn v)) eqn:E; intros H; injection H as <- <-.
  - apply Nat.eqb_eq in E. split; [split; [apply wsame_refl|apply wheap_refl]|]. split; [auto|]. split; [reflexivity|]. split; [reflexivity|exact Hs].
  - assert (elems (mkV (firstn c (slots v) ++ repeat U (c - vcapn v)) (vlen v)) = elems v) as He.
    { apply elems_same_prefix; cbn [vlen slots]; auto.
      rewrite firstn_app, firstn_firstn. rewrite firstn_length. destruct Hs as [Hl _]. unfold vcapn in Hl.
      replace (Nat.min (vlen v) c) with (vlen v) by lia. replace (vlen v - Nat.min c (length (slots v))) with 0 by lia.
      cbn [firstn]. apply app_nil_r. }
    assert (vcapn (mkV (firstn c (slots v) ++ repeat U (c - vcapn v)) (vlen v)) = c) as Hcap.
    { unfold vcapn. cbn [slots]. rewrite app_length, firstn_length, repeat_length. lia. }
    split; [unfold wsame, wheap, ev_realloc; wfields; repeat split; reflexivity|].
    split; [exact Hcap|]. split; [reflexivity|]. split; [exact He|].
    split; [rewrite Hcap; cbn [vlen]; exact Hc | rewrite He; cbn [vlen]; apply Hs].
Qed.

Lemma thin_reserve_spec w v add w' v' : vsound v -> thin_reserve w v add = (w', v') ->
  (wsame w w' /\ wheap w w') /\ vlen v + add <= vcapn v' /\ vcapn v <= vcapn v' /\ vlen v' = vlen v /\ elems v' = elems v /\ vsound v'.
Proof.
  intros Hs. unfold thin_reserve. destruct (Nat.ltb (vcapn v - vlen v) add) eqn:E.
  - intros H. apply set_cap_spec in H; [|exact Hs|lia]. destruct H as (A & B & C & D & F).
    split; [exact A|]. split; [lia|]. split; [lia|]. split; [exact C|]. split; [exact D|exact F].
  - intros H. injection H as <- <-. apply Nat.ltb_ge in E. pose proof Hs as [Hl He].
    split; [split; [apply wsame_refl|apply wheap_refl]|]. split; [lia|]. split; [lia|]. split; [reflexivity|]. split; [reflexivity|exact Hs].
Qed.

Lemma thin_reserve_exact_spec w v add w' v' : vsound v -> thin_reserve_exact w v add = (w', v') ->
  (wsame w w' /\ wheap w w') /\ vlen v + add <= vcapn v' /\ vlen v' = vlen v /\ elems v' = elems v /\ vsound v'.
Proof.
  intros Hs. unfold thin_reserve_exact. destruct (Nat.ltb (vcapn v - vlen v) add) eqn:E.
  - intros H. apply set_cap_spec in H; [|exact Hs|lia]. destruct H as (A & B & C & D & F).
    split; [exact A|]. split; [lia|]. split; [exact C|]. split; [exact D|exact F].
  - intros H. injection H as <- <-. apply Nat.ltb_ge in E. pose proof Hs as [Hl He].
    split; [split; [apply wsame_refl|apply wheap_refl]|]. split; [lia|]. split; [reflexivity|]. split; [reflexivity|exact Hs].
Qed.

(** ** the pool *)
Definition oelems (o : option vec) : list N := match o with Some v => elems v | None => [] end.
Definition pelems (p : list (option vec)) : list N := flat_map elems (pool_vecs p).

Lemma pelems_cons o p : pelems (o :: p) = oelems o ++ pelems p.
Proof. unfold pelems, pool_vecs. destruct o; cbn [flat_map oelems app]; rewrite ?app_nil_r; reflexivity. Qed.
Lemma pelems_app p q : pelems (p ++ q) = pelems p ++ pelems q.
Proof. unfold pelems, pool_vecs. now rewrite !flat_map_app. Qed.
Lemma reachable_eq s : reachable s = pelems (pool s) ++ handed s.
Proof. reflexivity. Qed.

Lemma cnt_pelems_updn : forall p i o0 o x, nth_error p i = Some o0 ->
  cnt (pelems (updn p i o)) x + cnt (oelems o0) x = cnt (pelems p) x + cnt (oelems o) x.
Proof.
  induction p as [|a p IH]; intros [|i] o0 o x H; cbn [nth_error updn] in *; try discriminate.
  - injection H as ->. rewrite !pelems_cons, !count_occ_app. lia.
  - rewrite !pelems_cons, !count_occ_app. specialize (IH i o0 o x H). lia.
Qed.

Lemma getv_nth s i v : getv s i = Some v <-> nth_error (pool s) (N.to_nat i) = Some (Some v).
Proof. unfold getv. destruct (nth_error (pool s) (N.to_nat i)) as [[u|]|]; split; intros H; try discriminate; congruence. Qed.
Lemma getv_lt s i v : getv s i = Some v -> N.to_nat i < length (pool s).
Proof. intros H. apply getv_nth in H. apply nth_error_Some. congruence. Qed.

Lemma getv_setv_eq s i o w : N.to_nat i < length (pool s) -> getv (setv s i o w) i = o.
Proof. intros H. unfold getv, setv. cbn [pool]. rewrite nth_error_updn_eq by exact H. now destruct o. Qed.
Lemma getv_setv_ne s i j o w : i <> j -> getv (setv s i o w) j = getv s j.
Proof. intros H. unfold getv, setv. cbn [pool]. rewrite nth_error_updn_ne by lia. reflexivity. Qed.
Lemma getv_hand s h j : getv (hand s h) j = getv s j.
Proof. reflexivity. Qed.
Lemma getv_setw s w j : getv (setw s w) j = getv s j.
Proof. reflexivity. Qed.
Lemma getv_addv s v w j : getv (fst (addv s v w)) j = if N.eqb j (len (pool s)) then Some v else getv s j.
Proof.
  unfold getv, addv. cbn [fst pool]. destruct (N.eqb j (len (pool s))) eqn:E.
  - apply N.eqb_eq in E. subst j. unfold len. rewrite Nat2N.id. rewrite nth_error_app2 by lia. now rewrite Nat.sub_diag.
  - apply N.eqb_neq in E. destruct (Nat.lt_ge_cases (N.to_nat j) (length (pool s))) as [Hlt|Hge].
    + now rewrite nth_error_app1 by exact Hlt.
    + assert (nth_error (pool s) (N.to_nat j) = None) as -> by (apply nth_error_None; lia).
      assert (nth_error (pool s ++ [Some v]) (N.to_nat j) = None) as ->; [|reflexivity].
      apply nth_error_None. rewrite app_length. cbn [length]. unfold len in E. lia.
Qed.

(** what the other vectors and the caller own *)
Lemma reach_setv s i o0 o w h x : nth_error (pool s) (N.to_nat i) = Some o0 ->
  cnt (reachable (hand (setv s i o w) h)) x + cnt (oelems o0) x = cnt (reachable s) x + cnt (oelems o) x + cnt h x.
Proof.
  intros H. unfold reachable, hand, setv. cbn [pool handed]. fold (pelems (updn (pool s) (N.to_nat i) o)). fold (pelems (pool s)).
  rewrite !count_occ_app. pose proof (cnt_pelems_updn (pool s) (N.to_nat i) o0 o x H). lia.
Qed.
Lemma reach_addv s v w x : cnt (reachable (fst (addv s v w))) x = cnt (reachable s) x + cnt (elems v) x.
Proof.
  unfold reachable, addv. cbn [fst pool handed]. fold (pelems (pool s ++ [Some v])). fold (pelems (pool s)).
  rewrite pelems_app, !count_occ_app. change (pelems [Some v]) with (elems v ++ []). rewrite app_nil_r. lia.
Qed.
Lemma reach_setw s w : reachable (setw s w) = reachable s.
Proof. reflexivity. Qed.

(** ** the invariant, split into a world part and an ownership part *)
Definition DFresh (s : vstate) : Prop := forall id, In id (drop_ids (log (wd s))) -> (id < len (vals (wd s)))%N.
Definition VInv' (k : kind) (s : vstate) : Prop := VInv k s /\ DFresh s.
(** everything but [unw] *)
Definition VInvU (k : kind) (s : vstate) : Prop :=
  (forall i v, getv s i = Some v -> vec_sound k v) /\ own (wd s) (reachable s).

Lemma VInv'_iff k s : VInv' k s <-> VInvU k s /\ unw (wd s) = false.
Proof.
  split.
  - intros [[A B C D E F G [H1 H2]] I]. split; [|exact G]. split; [exact B|]. split; [|split; assumption]. split; assumption.
  - intros [[B [[A E F H1 H2 I] [C D]]] G]. split; [split; auto | exact I].
Qed.

Lemma VInvU_setw_unw k s b : VInvU k s -> VInvU k (setw s (set_unw (wd s) b)).
Proof. intros [A B]. split; [exact A|]. eapply own_same; [exact B|]. unfold wsame; wfields. cbn [wd setw]. repeat split; reflexivity. Qed.

Lemma VInvU_setw k s w : VInvU k s -> own w (reachable s) -> VInvU k (setw s w).
Proof. intros [A _] H. split; [exact A | exact H]. Qed.

Lemma VInvU_upd k s s' i v o h L : VInvU k s -> getv s i = Some v ->
  pool s' = updn (pool s) (N.to_nat i) o -> (forall x, cnt (handed s') x = cnt (handed s) x + cnt h x) ->
  (forall v', o = Some v' -> vec_sound k v') -> own (wd s') L ->
  (forall x, cnt (oelems o) x + cnt h x + cnt (reachable s) x <= cnt L x + cnt (elems v) x) ->
  VInvU k s'.
Proof.
  intros [A _] Hg Hp Hh Hv Ho Hc. split.
  - intros j u. unfold getv. rewrite Hp. destruct (N.eq_dec i j) as [<-|Hne].
    + rewrite nth_error_updn_eq by (eapply getv_lt; eauto). destruct o as [v'|]; [|discriminate]. intros H. injection H as <-. now apply Hv.
    + rewrite nth_error_updn_ne by lia. apply A.
  - eapply own_sub; [exact Ho|]. intros x.
    pose proof (cnt_pelems_updn (pool s) (N.to_nat i) (Some v) o x (proj1 (getv_nth _ _ _) Hg)) as H.
    change (oelems (Some v)) with (elems v) in H. specialize (Hc x). specialize (Hh x).
    unfold reachable in *. rewrite Hp. fold (pelems (updn (pool s) (N.to_nat i) o)). fold (pelems (pool s)) in Hc.
    rewrite count_occ_app in *. lia.
Qed.

Lemma VInvU_setv k s i v o h w L : VInvU k s -> getv s i = Some v ->
  (forall v', o = Some v' -> vec_sound k v') -> own w L ->
  (forall x, cnt (oelems o) x + cnt h x + cnt (reachable s) x <= cnt L x + cnt (elems v) x) ->
  VInvU k (hand (setv s i o w) h).
Proof.
  intros HI Hg Hv Ho Hc. apply (VInvU_upd k s (hand (setv s i o w) h) i v o h L HI Hg); [reflexivity | | exact Hv | exact Ho | exact Hc].
  intros x. cbn [handed hand setv]. now rewrite count_occ_app.
Qed.

Lemma VInvU_setv0 k s i v o w L : VInvU k s -> getv s i = Some v ->
  (forall v', o = Some v' -> vec_sound k v') -> own w L ->
  (forall x, cnt (oelems o) x + cnt (reachable s) x <= cnt L x + cnt (elems v) x) ->
  VInvU k (setv s i o w).
Proof.
  intros HI Hg Hv Ho Hc. apply (VInvU_upd k s (setv s i o w) i v o [] L HI Hg); [reflexivity | | exact Hv | exact Ho | ].
  - intros x. cbn [handed setv]. rewrite cnt_nil. lia.
  - intros x. rewrite cnt_nil. specialize (Hc x). lia.
Qed.

Lemma VInvU_addv k s v w L : VInvU k s -> vec_sound k v -> own w L ->
  (forall x, cnt (elems v) x + cnt (reachable s) x <= cnt L x) -> VInvU k (fst (addv s v w)).
Proof.
  intros [A _] Hv Ho Hc. split.
  - intros j u. rewrite getv_addv. destruct (N.eqb j (len (pool s))); [intros H; injection H as <-; exact Hv | apply A].
  - change (wd (fst (addv s v w))) with w. eapply own_sub; [exact Ho|]. intros x. rewrite (reach_addv s v w x). specialize (Hc x). lia.
Qed.

Lemma VInvU_open k s i v : VInvU k s -> getv s i = Some v ->
  vec_sound k v /\ exists R, own (wd s) (elems v ++ R) /\ forall x, cnt (reachable s) x = cnt (elems v) x + cnt R x.
Proof.
  intros [A B] Hg. split; [eapply A; eauto|].
  exists (pelems (updn (pool s) (N.to_nat i) None) ++ handed s).
  assert (forall x, cnt (reachable s) x = cnt (elems v) x + cnt (pelems (updn (pool s) (N.to_nat i) None) ++ handed s) x) as Hc.
  { intros x. pose proof (cnt_pelems_updn (pool s) (N.to_nat i) (Some v) None x (proj1 (getv_nth _ _ _) Hg)) as H.
    unfold reachable. fold (pelems (pool s)). rewrite !count_occ_app. cbn [oelems] in H. rewrite cnt_nil in H. lia. }
  split; [|exact Hc]. eapply own_sub; [exact B|]. intros x. rewrite count_occ_app, (Hc x). lia.
Qed.

Lemma vec_sound_intro k v : vsound v -> match k with KInline c => vcapn v = c | KThin => True end -> vec_sound k v.
Proof. unfold vec_sound, vsound. tauto. Qed.
Lemma vec_sound_cap c v : vec_sound (KInline c) v -> vcapn v = c.
Proof. unfold vec_sound. tauto. Qed.
Lemma vec_sound_same_cap k v v' : vec_sound k v -> vsound v' -> vcapn v' = vcapn v -> vec_sound k v'.
Proof. intros (A & B & C) Hs Hc. apply vec_sound_intro; [exact Hs|]. destruct k; auto. congruence. Qed.

Lemma own_set_unw w b L : own w L -> own (set_unw w b) L.
Proof. intros H. eapply own_same; [exact H|]. unfold wsame; wfields. repeat split; reflexivity. Qed.

Lemma firstn_snoc_nth {A} (l : list A) n d : n < length l -> firstn (S n) l = firstn n l ++ [nth n l d].
Proof.
  revert n; induction l as [|y l IH]; intros [|n] H; cbn [length firstn nth app] in *; try lia; auto. f_equal. apply IH. lia.
Qed.
Lemma cnt_nth_split (l : list N) i x : i < length l ->
  cnt l x = cnt (firstn i l) x + cnt [nth i l 0%N] x + cnt (skipn (S i) l) x.
Proof.
  intros H. rewrite (cnt_firstn_skipn l (S i) x). rewrite (firstn_snoc_nth l i 0%N H), count_occ_app. lia.
Qed.

(** ** vector-level effect of the slot manipulations *)
Ltac nat_bool :=
  repeat match goal with
  | |- context [Nat.eqb ?a ?b] => destruct (Nat.eqb_spec a b)
  | |- context [Nat.ltb ?a ?b] => destruct (Nat.ltb_spec a b)
  | |- context [Nat.leb ?a ?b] => destruct (Nat.leb_spec a b)
  end; cbn [andb orb negb].

Ltac capsolve := unfold vcapn in *; cbn [slots vlen] in *; rewrite ?updn_length, ?wrl_length, ?slots_from_length; lia.

Definition insertv (v : vec) (i : nat) (id : N) : vec :=
  mkV (updn (wrl (slots v) (S i) (slots_from v i (vlen v - i))) i (E id)) (S (vlen v)).
Definition removev (v : vec) (i : nat) : vec :=
  mkV (wrl (slots v) i (slots_from v (S i) (vlen v - i - 1))) (vlen v - 1).

Lemma insertv_spec v i id : vsound v -> i <= vlen v -> vlen v < vcapn v ->
  vsound (insertv v i id) /\ elems (insertv v i id) = insert_at (elems v) i id /\ vcapn (insertv v i id) = vcapn v.
Proof.
  intros Hs Hi Hc. pose proof Hs as [Hl He].
  assert (vcapn (insertv v i id) = vcapn v) as Hcap by (unfold insertv; capsolve).
  destruct (vsound_ext (insertv v i id) (insert_at (elems v) i id)) as [A B].
  - rewrite Hcap. cbn [insertv vlen]. lia.
  - rewrite insert_at_length. cbn [insertv vlen]. lia.
  - cbn [insertv vlen]. intros j Hj. unfold rd. cbn [insertv slots].
    rewrite nth_updn by (rewrite wrl_length; unfold vcapn in Hc; lia).
    rewrite nth_wrl by (rewrite slots_from_length; unfold vcapn in Hc; lia). rewrite slots_from_length.
    rewrite nth_insert_at by lia. nat_bool; try lia; auto;
      first [ rewrite nth_slots_from by lia; rewrite rd_elems by (auto; lia); f_equal; f_equal; lia
            | fold (rd v j); apply rd_elems; [exact Hs|lia] ].
  - auto.
Qed.

Lemma removev_spec v i : vsound v -> i < vlen v ->
  vsound (removev v i) /\ elems (removev v i) = remove_at (elems v) i /\ vcapn (removev v i) = vcapn v.
Proof.
  intros Hs Hi. pose proof Hs as [Hl He].
  assert (vcapn (removev v i) = vcapn v) as Hcap by (unfold removev; capsolve).
  destruct (vsound_ext (removev v i) (remove_at (elems v) i)) as [A B].
  - rewrite Hcap. cbn [removev vlen]. lia.
  - rewrite remove_at_length by lia. cbn [removev vlen]. lia.
  - cbn [removev vlen]. intros j Hj. unfold rd. cbn [removev slots].
    rewrite nth_wrl by (rewrite slots_from_length; unfold vcapn in Hl; lia). rewrite slots_from_length.
    rewrite nth_remove_at. nat_bool; try lia;
      first [ rewrite nth_slots_from by lia; rewrite rd_elems by (auto; lia); f_equal; f_equal; lia
            | fold (rd v j); apply rd_elems; [exact Hs|lia] ].
  - auto.
Qed.

Definition swap_list (l : list N) (i : nat) : list N := removelast (updn l i (last l 0%N)).

Lemma swap_remove_spec v i sl' : vsound v -> i < vlen v -> length sl' = vcapn v ->
  (forall j, j < vlen v - 1 -> nth j sl' U = if Nat.eqb j i then rd v (vlen v - 1) else rd v j) ->
  let v' := mkV sl' (vlen v - 1) in vsound v' /\ elems v' = swap_list (elems v) i /\ vcapn v' = vcapn v.
Proof.
  intros Hs Hi Hlen Hn v'. pose proof Hs as [Hl He].
  destruct (vsound_ext v' (swap_list (elems v) i)) as [A B].
  - unfold v', vcapn. cbn [slots vlen]. lia.
  - unfold swap_list. rewrite removelast_length, updn_length. cbn [v' vlen]. lia.
  - cbn [v' vlen]. intros j Hj. unfold rd. cbn [v' slots]. rewrite (Hn j Hj). unfold swap_list.
    rewrite nth_removelast by (rewrite updn_length; lia). rewrite nth_updn by lia. rewrite last_nth, He.
    destruct (Nat.eqb j i); apply rd_elems; auto; lia.
  - auto.
Qed.

Lemma cnt_swap_list (l : list N) i x : i < length l -> cnt l x = cnt [nth i l 0%N] x + cnt (swap_list l i) x.
Proof.
  intros Hi. unfold swap_list. pose proof (cnt_updn l i (last l 0%N) x Hi) as H1.
  assert (updn l i (last l 0%N) <> []) as Hne by (intros Hc; apply (f_equal (@length N)) in Hc; rewrite updn_length in Hc; cbn [length] in Hc; lia).
  pose proof (cnt_removelast _ x Hne) as H2.
  assert (last (updn l i (last l 0%N)) 0%N = last l 0%N) as Hlast.
  { rewrite !last_nth, updn_length. rewrite nth_updn by lia. destruct (Nat.eqb_spec (length l - 1) i); auto. }
  rewrite Hlast in H2. lia.
Qed.

(** copy [m] elements of [src] from [a] to [dst] at [i <= vlen dst], the new length being [i + m] *)
Lemma wrl_copy dst src i a m : vsound dst -> i <= vlen dst -> vsound src -> a + m <= vlen src -> i + m <= vcapn dst ->
  let v' := mkV (wrl (slots dst) i (slots_from src a m)) (i + m) in
  vsound v' /\ elems v' = firstn i (elems dst) ++ firstn m (skipn a (elems src)) /\ vcapn v' = vcapn dst.
Proof.
  intros Hd Hi Hs Ha Hc v'. pose proof Hd as [Hld Hed]. pose proof Hs as [Hls Hes].
  assert (vcapn v' = vcapn dst) as Hcap by (unfold v'; capsolve).
  destruct (vsound_ext v' (firstn i (elems dst) ++ firstn m (skipn a (elems src)))) as [A B].
  - rewrite Hcap. cbn [v' vlen]. lia.
  - rewrite app_length, !firstn_length, skipn_length. cbn [v' vlen]. lia.
  - cbn [v' vlen]. intros j Hj. unfold rd. cbn [v' slots].
    rewrite nth_wrl by (rewrite slots_from_length; unfold vcapn in Hc; lia). rewrite slots_from_length.
    rewrite nth_app', firstn_length. replace (Nat.min i (length (elems dst))) with i by lia. nat_bool; try lia;
      first [ rewrite nth_slots_from by lia; rewrite nth_firstn' by lia; rewrite nth_skipn';
              rewrite rd_elems by (auto; lia); f_equal; f_equal; lia
            | rewrite nth_firstn' by lia; fold (rd dst j); apply rd_elems; [exact Hd|lia] ].
  - auto.
Qed.

Lemma to_range_ok s e l a b : to_range s e l = Some (a, b) -> a <= b /\ b <= l.
Proof.
  unfold to_range, range_mono, ok_or, add_chk.
  destruct s as [x|x|], e as [y|y|]; split_ifs; intros H; try discriminate; injection H as <- <-; lia.
Qed.

Lemma idents_slots_from v a n : vsound v -> a + n <= vlen v ->
  idents (slots_from v a n) = firstn n (skipn a (elems v)).
Proof. intros Hs H. rewrite slots_from_sound by assumption. apply idents_map_E. Qed.

Lemma cnt_split5 (l : list N) a f mid bk x :
  cnt l x = cnt (firstn a l) x + cnt (firstn f (skipn a l)) x + cnt (firstn mid (skipn (a + f) l)) x
            + cnt (firstn bk (skipn (a + f + mid) l)) x + cnt (skipn (a + f + mid + bk) l) x.
Proof.
  rewrite (cnt_firstn_skipn l a x). rewrite (cnt_firstn_skipn (skipn a l) f x), skipn_add.
  rewrite (cnt_firstn_skipn (skipn (a + f) l) mid x), skipn_add.
  rewrite (cnt_firstn_skipn (skipn (a + f + mid) l) bk x), skipn_add. lia.
Qed.

Lemma reach_setv0 s i o0 o w x : nth_error (pool s) (N.to_nat i) = Some o0 ->
  cnt (reachable (setv s i o w)) x + cnt (oelems o0) x = cnt (reachable s) x + cnt (oelems o) x.
Proof.
  intros H. unfold reachable, setv. cbn [pool handed]. fold (pelems (updn (pool s) (N.to_nat i) o)). fold (pelems (pool s)).
  rewrite !count_occ_app. pose proof (cnt_pelems_updn (pool s) (N.to_nat i) o0 o x H). lia.
Qed.

Lemma setv_comm s i j a b w : i <> j -> setv (setv s i a w) j b w = setv (setv s j b w) i a w.
Proof. intros H. unfold setv. cbn [pool handed]. f_equal. apply updn_comm. lia. Qed.

(** ** executions without an injected panic: how the world evolves *)
Definition newids (w : world) (n : nat) : list N := map (fun j => (len (vals w) + N.of_nat j)%N) (seq 0 n).

Lemma newids_length w n : length (newids w n) = n.
Proof. unfold newids. now rewrite map_length, seq_length. Qed.
Lemma newids_S w n : newids w (S n) = newids w n ++ [(len (vals w) + N.of_nat n)%N].
Proof. unfold newids. rewrite seq_S, map_app. reflexivity. Qed.
Lemma newids_app w w1 a b : len (vals w1) = (len (vals w) + N.of_nat a)%N -> newids w (a + b) = newids w a ++ newids w1 b.
Proof.
  intros H. induction b as [|b IH].
  - rewrite Nat.add_0_r. cbn. now rewrite app_nil_r.
  - replace (a + S b) with (S (a + b)) by lia. rewrite !newids_S, IH, <- app_assoc. do 3 f_equal. lia.
Qed.
Lemma nth_newids w n j : j < n -> nth j (newids w n) 0%N = (len (vals w) + N.of_nat j)%N.
Proof.
  intros H. unfold newids. pose proof (map_nth (fun j => (len (vals w) + N.of_nat j)%N) (seq 0 n) 0 j) as H1. cbv beta in H1.
  rewrite seq_nth in H1 by exact H. cbn [Nat.add] in H1. rewrite <- H1. apply nth_indep. now rewrite map_length, seq_length.
Qed.
Lemma newids_ge w n x : In x (newids w n) -> (len (vals w) <= x)%N.
Proof. unfold newids. rewrite in_map_iff. intros (j & <- & _). lia. Qed.

Definition stable (w w' : world) : Prop := exists ext, vals w' = vals w ++ ext.
Lemma stable_refl w : stable w w.
Proof. exists []. now rewrite app_nil_r. Qed.
Lemma stable_trans w1 w2 w3 : stable w1 w2 -> stable w2 w3 -> stable w1 w3.
Proof. intros [e1 H1] [e2 H2]. exists (e1 ++ e2). now rewrite H2, H1, app_assoc. Qed.
Lemma stable_len w w' : stable w w' -> (len (vals w) <= len (vals w'))%N.
Proof. intros [e H]. rewrite H, len_app. lia. Qed.

Lemma val_of_stable w w' id : stable w w' -> (id < len (vals w) \/ SRC_BASE <= id)%N -> val_of w' id = val_of w id.
Proof.
  intros [e H] Hid. unfold val_of. destruct (N.leb_spec SRC_BASE id) as [Hs|Hs]; [reflexivity|].
  rewrite H. apply app_nth1. unfold len in Hid. lia.
Qed.
Lemma vals_of_stable w w' ids : stable w w' -> (forall id, In id ids -> (id < len (vals w) \/ SRC_BASE <= id)%N) ->
  vals_of w' ids = vals_of w ids.
Proof. intros Hs H. unfold vals_of. apply map_ext_in. intros id Hin. apply val_of_stable; auto. Qed.

Lemma vals_of_newids w w' w'' ext : vals w' = vals w ++ ext -> stable w' w'' -> (len (vals w'') < SRC_BASE)%N ->
  vals_of w'' (newids w (length ext)) = ext.
Proof.
  intros H [more Hm] Hsm. unfold vals_of. apply list_ext with (d := 0%N); [now rewrite map_length, newids_length|].
  rewrite map_length, newids_length. intros j Hj.
  rewrite (nth_indep _ 0%N (val_of w'' 0%N)) by (now rewrite map_length, newids_length). rewrite map_nth. rewrite nth_newids by exact Hj.
  unfold val_of. rewrite Hm, H, !len_app in Hsm. unfold len in Hsm.
  destruct (N.leb_spec SRC_BASE (len (vals w) + N.of_nat j)) as [Hs|Hs]; [unfold len in Hs; lia|].
  rewrite Hm, H, <- app_assoc. unfold len. rewrite app_nth2 by lia.
  replace (N.to_nat (N.of_nat (length (vals w)) + N.of_nat j) - length (vals w)) with j by lia. now apply app_nth1.
Qed.

(** [w'] is reached from [w] without panic: [ext] are the values of the identities created, [died] those destroyed *)
Record wev (w w' : world) (ext died : list N) : Prop := {
  we_pan : pan w' = pan w;
  we_vals : vals w' = vals w ++ ext;
  we_live : forall x, cnt (live w') x + cnt died x = cnt (live w) x + cnt (newids w (length ext)) x;
  we_heap : wheap w w'
}.

Lemma wev_refl w : wev w w [] [].
Proof. split; [reflexivity|now rewrite app_nil_r| |apply wheap_refl]. intros x. cbn [length]. unfold newids. cbn. lia. Qed.

Lemma wev_trans w w1 w2 e1 d1 e2 d2 : wev w w1 e1 d1 -> wev w1 w2 e2 d2 -> wev w w2 (e1 ++ e2) (d1 ++ d2).
Proof.
  intros [A1 B1 C1 D1] [A2 B2 C2 D2]. split.
  - congruence.
  - now rewrite B2, B1, app_assoc.
  - intros x. rewrite app_length. rewrite (newids_app w w1) by (rewrite B1, len_app; unfold len; lia).
    rewrite !count_occ_app. specialize (C1 x). specialize (C2 x). lia.
  - eapply wheap_trans; eauto.
Qed.

Lemma wev_stable w w' e d : wev w w' e d -> stable w w'.
Proof. intros [_ B _ _]. now exists e. Qed.

Lemma wev_born w w' nid x : wborn w w' nid x -> wev w w' [x] [].
Proof.
  intros (Hn & Hl & Hv & _ & _ & Hp & Ha & Hf). split; [exact Hp|exact Hv| |split; assumption].
  intros y. rewrite Hl. cbn [length]. unfold newids. cbn [seq map]. rewrite N.add_0_r, <- Hn. rewrite (cnt_cons nid (live w)), cnt_nil. lia.
Qed.

Lemma wev_died w w' id : wdied w w' id -> In id (live w) -> wev w w' [] [id].
Proof.
  intros (Hl & Hv & _ & _ & Hp & Ha & Hf) Hin. split; [exact Hp|now rewrite app_nil_r| |split; assumption].
  intros y. rewrite Hl. cbn [length]. unfold newids. cbn [seq map]. rewrite cnt_nil. rewrite (cnt_remove1 id (live w) y Hin). lia.
Qed.

Lemma wev_same w w' : wsame w w' -> wheap w w' -> wev w w' [] [].
Proof.
  intros (Hl & Hv & _ & _ & Hp) Hh. split; [exact Hp|now rewrite app_nil_r| |exact Hh].
  intros y. rewrite Hl. cbn [length]. unfold newids. cbn [seq map]. lia.
Qed.

Lemma wev_set_unw w b : wev w (set_unw w b) [] [].
Proof. apply wev_same; [unfold wsame|unfold wheap]; wfields; repeat split; reflexivity. Qed.

Lemma drop_slots_wev st G w pk : pan w = None -> subm G (live w) ->
  exists w', drop_slots st w (map E G) pk = (if pk then Pan w' else Done tt w') /\ wev w w' [] G.
Proof.
  intros Hp Hs. destruct (drop_slots_np st G w pk Hp Hs) as (w' & E1 & Hv & Hp' & Ha & Hf & _ & Hc).
  exists w'. split; [exact E1|]. split; [congruence|now rewrite app_nil_r| |split; assumption].
  intros x. cbn [length]. unfold newids. cbn [seq map]. rewrite cnt_nil. specialize (Hc x). lia.
Qed.

(** ** abstraction *)
Definition pool_small (s : vstate) : Prop :=
  forall i v, getv s i = Some v -> forall id, In id (elems v) -> (id < len (vals (wd s)))%N.

Lemma vabs_pool_stable s w' : pool_small s -> stable (wd s) w' ->
  map (option_map (fun v => vals_of w' (elems v))) (pool s) = vabs s.
Proof.
  intros Hp Hs. unfold vabs. apply map_ext_in. intros [v|] Hin; [|reflexivity]. cbn [option_map]. f_equal.
  apply vals_of_stable; [exact Hs|]. intros id Hid. left.
  destruct (In_nth_error _ _ Hin) as [i Hi]. apply (Hp (N.of_nat i) v); [|exact Hid].
  apply getv_nth. now rewrite Nat2N.id.
Qed.

Lemma vabs_setv s i o w' h : pool_small s -> stable (wd s) w' ->
  vabs (hand (setv s i o w') h) = ssetv (vabs s) i (option_map (fun v => vals_of w' (elems v)) o).
Proof.
  intros Hp Hs. unfold vabs at 1. cbn [wd pool hand setv]. rewrite map_updn. unfold ssetv. f_equal. now apply vabs_pool_stable.
Qed.
Lemma vabs_setv0 s i o w' : pool_small s -> stable (wd s) w' ->
  vabs (setv s i o w') = ssetv (vabs s) i (option_map (fun v => vals_of w' (elems v)) o).
Proof.
  intros Hp Hs. unfold vabs at 1. cbn [wd pool setv]. rewrite map_updn. unfold ssetv. f_equal. now apply vabs_pool_stable.
Qed.
Lemma vabs_setw s w' : pool_small s -> stable (wd s) w' -> vabs (setw s w') = vabs s.
Proof. intros Hp Hs. unfold vabs at 1. cbn [wd pool setw]. now apply vabs_pool_stable. Qed.
Lemma vabs_hand s h : vabs (hand s h) = vabs s.
Proof. reflexivity. Qed.
Lemma vabs_addv s v w' : pool_small s -> stable (wd s) w' ->
  vabs (fst (addv s v w')) = vabs s ++ [Some (vals_of w' (elems v))] /\ snd (addv s v w') = len (vabs s).
Proof.
  intros Hp Hs. split.
  - unfold vabs at 1. cbn [wd pool addv fst]. rewrite map_app. cbn [map option_map]. f_equal. now apply vabs_pool_stable.
  - unfold addv, vabs, len. cbn [snd]. now rewrite map_length.
Qed.
Lemma sgetv_vabs s i : sgetv (vabs s) i = option_map (fun v => vals_of (wd s) (elems v)) (getv s i).
Proof.
  unfold sgetv, getv, vabs. rewrite nth_error_map. destruct (nth_error (pool s) (N.to_nat i)) as [[v|]|]; reflexivity.
Qed.

Lemma vals_of_newids' w w'' ext more : vals w'' = vals w ++ ext ++ more -> (len (vals w'') < SRC_BASE)%N ->
  vals_of w'' (newids w (length ext)) = ext.
Proof.
  intros H Hsm. set (w' := mkW (live w) (vals w ++ ext) (cbs w) (pan w) (log w) (badw w) (wa w) (wf w) (wr_ w) (unw w)).
  apply (vals_of_newids w w' w'' ext); [reflexivity| |exact Hsm]. exists more. cbn [vals w']. now rewrite <- app_assoc.
Qed.
Lemma vals_of_app w a b : vals_of w (a ++ b) = vals_of w a ++ vals_of w b.
Proof. unfold vals_of. apply map_app. Qed.
Lemma vals_of_length w a : length (vals_of w a) = length a.
Proof. unfold vals_of. apply map_length. Qed.
Lemma newids_1 w : newids w 1 = [len (vals w)].
Proof. unfold newids. cbn [seq map]. now rewrite N.add_0_r. Qed.
Lemma newids_0 w : newids w 0 = [].
Proof. reflexivity. Qed.

Lemma updn_same {A} (l : list A) i x : nth_error l i = Some x -> updn l i x = l.
Proof. revert i; induction l as [|y l IH]; intros [|i] H; cbn [updn nth_error] in *; try discriminate; [congruence|f_equal; auto]. Qed.
Lemma list_snoc_last {A} (l : list A) n d : length l = S n -> l = firstn n l ++ [nth n l d].
Proof. intros H. rewrite <- (firstn_snoc_nth l n d) by lia. symmetry. apply firstn_all_ge. lia. Qed.
Lemma nth_vals_of w e i : i < length e -> nth i (vals_of w e) 0%N = val_of w (nth i e 0%N).
Proof. intros H. unfold vals_of. rewrite (nth_indep _ 0%N (val_of w 0%N)) by (now rewrite map_length). apply map_nth. Qed.
Lemma last_map_ne {A B} (f : A -> B) l d d' : l <> [] -> last (map f l) d' = f (last l d).
Proof. induction l as [|x [|y l] IH]; intros H; cbn [map last] in *; try congruence. apply IH. discriminate. Qed.
Lemma map_swap_list (f : N -> N) l i : i < length l -> map f (swap_list l i) = swap_list (map f l) i.
Proof.
  intros H. unfold swap_list. rewrite map_removelast, map_updn. f_equal. f_equal. symmetry. apply last_map_ne.
  intros ->. cbn in H. lia.
Qed.
Lemma cb_pred_wev w id r : pan w = None -> exists w', cb_pred w id r = Done r w' /\ wev w w' [] [].
Proof.
  intros Hp. destruct (cb_pred_np w id r Hp) as [w' E1]. exists w'. split; [exact E1|].
  pose proof (cb_pred_spec w id r) as H. rewrite E1 in H. destruct H as [_ Hs]. apply wev_same; [exact Hs|].
  unfold cb_pred, tick in E1. rewrite Hp in E1. injection E1 as <-. unfold wheap; wfields; split; reflexivity.
Qed.
