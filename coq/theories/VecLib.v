(** * VecLib: reusable lemmas for the slot-level vector model (C13 C14 C15):
    lists (updn, nth, insert_at/remove_at), multiset counting, slots (rd/wr/write_slots/slots_from/elems),
    the world invariant and the callbacks, drop_slots, pool plumbing. *)
From Coq Require Import Permutation.
From Hip Require Import Base Range RangeProofs VecModel VecSpec.
Local Open Scope nat_scope.

(** ** generic list lemmas *)
Lemma updn_length {A} (l : list A) i x : length (updn l i x) = length l.
Proof. revert i; induction l as [|y l IH]; intros [|i]; cbn [updn length]; auto. Qed.

Lemma nth_updn_eq {A} (l : list A) i x d : i < length l -> nth i (updn l i x) d = x.
Proof. revert i; induction l as [|y l IH]; intros [|i] H; cbn [updn length nth] in *; try lia; auto. apply IH; lia. Qed.

Lemma nth_updn_ne {A} (l : list A) i j x d : i <> j -> nth j (updn l i x) d = nth j l d.
Proof. revert i j; induction l as [|y l IH]; intros [|i] [|j] H; cbn [updn nth]; auto; try lia. Qed.

Lemma nth_updn {A} (l : list A) i j x d : i < length l ->
  nth j (updn l i x) d = if Nat.eqb j i then x else nth j l d.
Proof.
  intros H. destruct (Nat.eqb j i) eqn:E.
  - apply Nat.eqb_eq in E. subst. now apply nth_updn_eq.
  - apply Nat.eqb_neq in E. apply nth_updn_ne. lia.
Qed.

Lemma nth_error_updn_eq {A} (l : list A) i x : i < length l -> nth_error (updn l i x) i = Some x.
Proof. revert i; induction l as [|y l IH]; intros [|i] H; cbn [updn length nth_error] in *; try lia; auto. apply IH; lia. Qed.

Lemma nth_error_updn_ne {A} (l : list A) i j x : i <> j -> nth_error (updn l i x) j = nth_error l j.
Proof. revert i j; induction l as [|y l IH]; intros [|i] [|j] H; cbn [updn nth_error]; auto; try lia. Qed.

Lemma updn_oob {A} (l : list A) i x : length l <= i -> updn l i x = l.
Proof. revert i; induction l as [|y l IH]; intros [|i] H; cbn [updn length] in *; auto; try lia. f_equal. apply IH. lia. Qed.

Lemma updn_comm {A} (l : list A) i j x y : i <> j -> updn (updn l i x) j y = updn (updn l j y) i x.
Proof. revert i j; induction l as [|a l IH]; intros [|i] [|j] H; cbn [updn]; auto; try lia. f_equal. apply IH. lia. Qed.

Lemma map_updn {A B} (f : A -> B) l i x : map f (updn l i x) = updn (map f l) i (f x).
Proof. revert i; induction l as [|y l IH]; intros [|i]; cbn [updn map]; auto. f_equal. auto. Qed.

Lemma firstn_updn_ge {A} (l : list A) i x n : n <= i -> firstn n (updn l i x) = firstn n l.
Proof. revert i n; induction l as [|y l IH]; intros [|i] [|n] H; cbn [updn firstn]; auto; try lia. f_equal. apply IH. lia. Qed.

Lemma updn_split {A} (l : list A) i x : i < length l -> updn l i x = firstn i l ++ x :: skipn (S i) l.
Proof. revert i; induction l as [|y l IH]; intros [|i] H; cbn [updn length firstn skipn app] in *; try lia; auto. f_equal. apply IH. lia. Qed.

Lemma nth_firstn' {A} (l : list A) n j d : j < n -> nth j (firstn n l) d = nth j l d.
Proof. revert n j; induction l as [|y l IH]; intros [|n] [|j] H; cbn [firstn nth]; auto; try lia. apply IH. lia. Qed.

Lemma nth_skipn' {A} (l : list A) n j d : nth j (skipn n l) d = nth (n + j) l d.
Proof. revert n; induction l as [|y l IH]; intros [|n]; cbn [skipn nth Nat.add]; auto. destruct j; auto. Qed.

Lemma nth_app' {A} (l1 l2 : list A) j d :
  nth j (l1 ++ l2) d = if Nat.ltb j (length l1) then nth j l1 d else nth (j - length l1) l2 d.
Proof.
  destruct (Nat.ltb j (length l1)) eqn:E.
  - apply Nat.ltb_lt in E. now apply app_nth1.
  - apply Nat.ltb_ge in E. now apply app_nth2.
Qed.

Lemma nth_repeat' {A} (x : A) n j d : j < n -> nth j (repeat x n) d = x.
Proof. revert j; induction n as [|n IH]; intros [|j] H; cbn [repeat nth]; try lia; auto. apply IH. lia. Qed.

Lemma list_ext {A} (l l' : list A) d : length l = length l' ->
  (forall j, j < length l -> nth j l d = nth j l' d) -> l = l'.
Proof. intros. now apply nth_ext with (d := d) (d' := d). Qed.

Lemma firstn_all_ge {A} (l : list A) n : length l <= n -> firstn n l = l.
Proof. intros. now apply firstn_all2. Qed.

Lemma firstn_split_at {A} (l : list A) a b : a <= b ->
  firstn b l = firstn a l ++ firstn (b - a) (skipn a l).
Proof.
  revert a b; induction l as [|y l IH]; intros a b H.
  - now rewrite skipn_nil, !firstn_nil.
  - destruct a as [|a]; [cbn [firstn skipn app]; now rewrite Nat.sub_0_r|].
    destruct b as [|b]; [lia|]. cbn [firstn skipn app Nat.sub]. f_equal. apply IH. lia.
Qed.

Lemma sub_split3 {A} (l : list A) a b : a <= b ->
  l = firstn a l ++ firstn (b - a) (skipn a l) ++ skipn b l.
Proof. intros H. rewrite app_assoc, <- firstn_split_at by exact H. symmetry. apply firstn_skipn. Qed.

Lemma skipn_add {A} (l : list A) a b : skipn a (skipn b l) = skipn (b + a) l.
Proof. revert l; induction b as [|b IH]; intros l; cbn [skipn Nat.add]; auto. destruct l; [now rewrite skipn_nil | apply IH]. Qed.

Lemma sub_split_mid {A} (l : list A) a b c : a <= b -> b <= c ->
  firstn (c - a) (skipn a l) = firstn (b - a) (skipn a l) ++ firstn (c - b) (skipn b l).
Proof.
  intros H1 H2. rewrite (firstn_split_at (skipn a l) (b - a) (c - a)) by lia.
  f_equal. rewrite skipn_add. replace (c - a - (b - a)) with (c - b) by lia. replace (a + (b - a)) with b by lia. reflexivity.
Qed.

(** ** insert_at / remove_at *)
Lemma insert_at_length {A} (l : list A) i x : length (insert_at l i x) = S (length l).
Proof. revert l; induction i as [|i IH]; intros [|y l]; cbn [insert_at length]; auto. Qed.

Lemma nth_insert_at {A} (l : list A) i x j d : i <= length l ->
  nth j (insert_at l i x) d = if Nat.ltb j i then nth j l d else if Nat.eqb j i then x else nth (j - 1) l d.
Proof.
  revert l j; induction i as [|i IH]; intros l j H.
  - cbn [insert_at]. destruct j as [|j]; [reflexivity|]. replace (S j - 1) with j by lia. reflexivity.
  - destruct l as [|y l]; cbn [length] in H; [lia|]. cbn [insert_at]. destruct j as [|j]; [reflexivity|].
    cbn [nth]. rewrite IH by lia. change (Nat.ltb (S j) (S i)) with (Nat.ltb j i). change (Nat.eqb (S j) (S i)) with (Nat.eqb j i).
    destruct (Nat.ltb j i) eqn:E1; auto. destruct (Nat.eqb j i) eqn:E2; auto.
    apply Nat.ltb_ge in E1. apply Nat.eqb_neq in E2. destruct j as [|j]; [lia|]. replace (S j - 1) with j by lia. replace (S (S j) - 1) with (S j) by lia. reflexivity.
Qed.

Lemma remove_at_length {A} (l : list A) i : i < length l -> length (remove_at l i) = length l - 1.
Proof.
  revert l; induction i as [|i IH]; intros [|y l] H; cbn [remove_at length] in *; try lia.
  rewrite IH by lia. lia.
Qed.

Lemma nth_remove_at {A} (l : list A) i j d :
  nth j (remove_at l i) d = if Nat.ltb j i then nth j l d else nth (S j) l d.
Proof.
  revert l j; induction i as [|i IH]; intros [|y l] j.
  - cbn [remove_at]. destruct j; destruct (Nat.ltb _ _); reflexivity.
  - reflexivity.
  - cbn [remove_at]. destruct j; destruct (Nat.ltb _ _); reflexivity.
  - cbn [remove_at]. destruct j as [|j]; [reflexivity|]. cbn [nth]. rewrite IH. reflexivity.
Qed.

Lemma map_insert_at {A B} (f : A -> B) l i x : map f (insert_at l i x) = insert_at (map f l) i (f x).
Proof. revert l; induction i as [|i IH]; intros [|y l]; cbn [insert_at map]; auto. f_equal. auto. Qed.

Lemma map_remove_at {A B} (f : A -> B) l i : map f (remove_at l i) = remove_at (map f l) i.
Proof. revert l; induction i as [|i IH]; intros [|y l]; cbn [remove_at map]; auto. f_equal. auto. Qed.

Lemma removelast_length {A} (l : list A) : length (removelast l) = length l - 1.
Proof. induction l as [|x [|y l] IH]; cbn [removelast length] in *; auto. lia. Qed.

Lemma nth_removelast {A} (l : list A) j d : j < length l - 1 -> nth j (removelast l) d = nth j l d.
Proof.
  revert j; induction l as [|x [|y l] IH]; intros j H; cbn [length] in *; try lia.
  cbn [removelast]. destruct j as [|j]; [reflexivity|]. cbn [nth]. apply IH. cbn [length]. lia.
Qed.

Lemma last_nth {A} (l : list A) d : last l d = nth (length l - 1) l d.
Proof. induction l as [|x [|y l] IH]; cbn [last length nth Nat.sub] in *; auto. now rewrite Nat.sub_0_r in IH. Qed.

Lemma map_removelast {A B} (f : A -> B) l : map f (removelast l) = removelast (map f l).
Proof. induction l as [|x [|y l] IH]; cbn [removelast map] in *; auto. f_equal. auto. Qed.

Lemma map_last {A B} (f : A -> B) l d : f (last l d) = last (map f l) (f d).
Proof. induction l as [|x [|y l] IH]; cbn [last map] in *; auto. Qed.

(** ** multiset counting on identities: a uniform way to discharge NoDup / incl side conditions *)
Notation cnt := (count_occ N.eq_dec).

Lemma cnt_cons x l y : cnt (x :: l) y = cnt [x] y + cnt l y.
Proof. change (x :: l) with ([x] ++ l). apply count_occ_app. Qed.
Lemma cnt_nil y : cnt [] y = 0.
Proof. reflexivity. Qed.
Lemma cnt_one_le x y : cnt [x] y <= 1.
Proof. cbn [count_occ]. destruct (N.eq_dec x y); lia. Qed.
Lemma cnt_one_eq x : cnt [x] x = 1.
Proof. cbn [count_occ]. destruct (N.eq_dec x x); congruence. Qed.
Lemma cnt_one_ne x y : x <> y -> cnt [x] y = 0.
Proof. intros. cbn [count_occ]. destruct (N.eq_dec x y); congruence. Qed.

Ltac cnt_norm :=
  repeat first
   [ rewrite count_occ_app
   | rewrite count_occ_rev
   | rewrite cnt_nil
   | match goal with |- context [count_occ N.eq_dec (?x :: ?l) ?y] =>
       lazymatch l with nil => fail | _ => rewrite (cnt_cons x l y) end end ].
Ltac cnt_norm_in H :=
  repeat first
   [ rewrite count_occ_app in H
   | rewrite count_occ_rev in H
   | rewrite cnt_nil in H
   | match type of H with context [count_occ N.eq_dec (?x :: ?l) ?y] =>
       lazymatch l with nil => fail | _ => rewrite (cnt_cons x l y) in H end end ].

(** [subm L' L]: [L'] is a sub-multiset of [L] *)
Definition subm (L' L : list N) : Prop := forall x, cnt L' x <= cnt L x.

Lemma subm_refl L : subm L L.
Proof. intros x. lia. Qed.
Lemma subm_trans L1 L2 L3 : subm L1 L2 -> subm L2 L3 -> subm L1 L3.
Proof. intros H1 H2 x. specialize (H1 x). specialize (H2 x). lia. Qed.
Lemma subm_NoDup L' L : subm L' L -> NoDup L -> NoDup L'.
Proof. intros H Hn. apply (NoDup_count_occ N.eq_dec). intros x. rewrite (NoDup_count_occ N.eq_dec) in Hn. specialize (H x). specialize (Hn x). lia. Qed.
Lemma subm_incl L' L : subm L' L -> incl L' L.
Proof. intros H x Hx. apply (count_occ_In N.eq_dec) in Hx. apply (count_occ_In N.eq_dec). specialize (H x). lia. Qed.
Lemma cnt_In x L : In x L <-> cnt L x > 0.
Proof. apply count_occ_In. Qed.
Lemma cnt_notIn x L : ~ In x L <-> cnt L x = 0.
Proof. apply count_occ_not_In. Qed.
Lemma cnt_NoDup_le L x : NoDup L -> cnt L x <= 1.
Proof. intros H. now apply (NoDup_count_occ N.eq_dec). Qed.
Lemma perm_cnt L L' : (forall x, cnt L x = cnt L' x) -> Permutation L L'.
Proof. apply Permutation_count_occ. Qed.

Lemma cnt_firstn_skipn (l : list N) n x : cnt l x = cnt (firstn n l) x + cnt (skipn n l) x.
Proof. rewrite <- count_occ_app. now rewrite firstn_skipn. Qed.

Lemma cnt_insert_at (l : list N) i y x : cnt (insert_at l i y) x = cnt [y] x + cnt l x.
Proof.
  revert l; induction i as [|i IH]; intros [|z l]; cbn [insert_at]; try (now rewrite (cnt_cons y _ x)).
  rewrite (cnt_cons z (insert_at l i y)), (cnt_cons z l), IH. lia.
Qed.

Lemma cnt_remove_at (l : list N) i x : i < length l -> cnt l x = cnt [nth i l 0%N] x + cnt (remove_at l i) x.
Proof.
  revert l; induction i as [|i IH]; intros [|z l] H; cbn [length] in H; try lia.
  - cbn [remove_at nth]. apply cnt_cons.
  - cbn [remove_at nth]. rewrite (cnt_cons z l), (cnt_cons z (remove_at l i)), (IH l) by lia. lia.
Qed.

Lemma cnt_updn (l : list N) i y x : i < length l -> cnt (updn l i y) x + cnt [nth i l 0%N] x = cnt l x + cnt [y] x.
Proof.
  revert i; induction l as [|z l IH]; intros [|i] H; cbn [length] in H; try lia; cbn [updn nth].
  - rewrite (cnt_cons y l), (cnt_cons z l). lia.
  - rewrite (cnt_cons z (updn l i y)), (cnt_cons z l). specialize (IH i ltac:(lia)). lia.
Qed.

Lemma cnt_removelast (l : list N) x : l <> [] -> cnt l x = cnt (removelast l) x + cnt [last l 0%N] x.
Proof.
  intros H. rewrite (app_removelast_last 0%N H) at 1. now rewrite count_occ_app.
Qed.
