(** * BytesContract: the representation contract (C07) and the fallback at the count ceiling (C09):
    which representation an operation produces and what it allocates.  Mostly direct evaluation of [step]. *)
From Hip Require Import Base Range RangeProofs Utf8 StrRange Bytes BytesSpec BytesInv BytesLib
  BytesProofs1 BytesProofs2 BytesProofs3 BytesProofs4 BytesProofs.

Lemma mk_new_eq st r l : mk_new st r l = (set_hs st (hs st ++ [Some (mkH r l)]), UNew (len (hs st))).
Proof. reflexivity. Qed.

Lemma get_h_new st r l : get_h (set_hs st (hs st ++ [Some (mkH r l)])) (len (hs st)) = Some (mkH r l).
Proof. unfold get_h. sproj. apply nthN_snoc_new. Qed.

Lemma attach_eq st b blk : get_b st b = Some blk ->
  attach st b = set_b st b (Some (mkBlock (vdata blk) (vcap blk) (cnt blk + 1) (phantom blk))).
Proof. intros H. unfold attach. rewrite H. reflexivity. Qed.

(** ** sharing: clone and slice of an allocated value below the ceiling *)
Theorem clone_shares : forall bk ty st h hd b off n blk,
  get_h st h = Some hd -> hrepr hd = RAlloc b off n -> get_b st b = Some blk -> can_incr bk (cnt blk) = true ->
  exists st', step bk ty st (OClone h) = (st', UNew (len (hs st)))
    /\ (exists l, get_h st' (len (hs st)) = Some (mkH (RAlloc b off n) l))
    /\ n_alloc st' = n_alloc st /\ n_realloc st' = n_realloc st.
Proof.
  intros bk ty st h hd b off n blk Hh Er Hb Hc.
  assert (E : step bk ty st (OClone h) = mk_new (attach st b) (RAlloc b off n) (lin hd && true)).
  { unfold step. cbv beta zeta. rewrite Hh, Er. cbn [clone_repr]. unfold share_or_copy. rewrite Hb, Hc. reflexivity. }
  rewrite mk_new_eq, (attach_eq _ _ _ Hb) in E. sproj.
  eexists. split; [exact E|]. split; [|split; reflexivity].
  eexists. apply (get_h_new (set_b st b _)).
Qed.

Theorem slice_shares : forall bk ty st h hd b off n blk s e a b',
  get_h st h = Some hd -> hrepr hd = RAlloc b off n -> get_b st b = Some blk -> can_incr bk (cnt blk) = true ->
  simplify_ty ty (view_r st (hrepr hd)) s e = ROk (a, b') -> INLINE_CAP < b' - a ->
  exists st', step bk ty st (OTrySlice h s e) = (st', UNew (len (hs st)))
    /\ get_h st' (len (hs st)) = Some (mkH (RAlloc b (off + a) (b' - a)) false)
    /\ n_alloc st' = n_alloc st /\ n_realloc st' = n_realloc st.
Proof.
  intros bk ty st h hd b off n blk s e a b' Hh Er Hb Hc Es Hlong.
  assert (E : step bk ty st (OTrySlice h s e) = mk_new (attach st b) (RAlloc b (off + a) (b' - a)) false).
  { unfold step. cbv beta zeta. rewrite Hh. cbv beta iota. rewrite Es, Er. cbn [range_repr].
    replace (b' - a <=? INLINE_CAP) with false by (symmetry; apply N.leb_gt; exact Hlong).
    unfold share_or_copy. rewrite Hb, Hc. reflexivity. }
  rewrite mk_new_eq, (attach_eq _ _ _ Hb) in E. sproj.
  eexists. split; [exact E|]. split; [|split; reflexivity].
  apply (get_h_new (set_b st b _)).
Qed.

(** a short slice of an inline or allocated value is copied inline, without allocation *)
Theorem slice_inlines : forall bk ty st h hd s e a b',
  get_h st h = Some hd -> is_borrowed (hrepr hd) = false ->
  simplify_ty ty (view_r st (hrepr hd)) s e = ROk (a, b') -> b' - a <= INLINE_CAP ->
  exists st', step bk ty st (OTrySlice h s e) = (st', UNew (len (hs st)))
    /\ get_h st' (len (hs st)) = Some (mkH (RInline (sub (view_r st (hrepr hd)) a b')) false)
    /\ n_alloc st' = n_alloc st /\ n_realloc st' = n_realloc st /\ bs st' = bs st.
Proof.
  intros bk ty st h hd s e a b' Hh Hnb Es Hshort.
  assert (E : step bk ty st (OTrySlice h s e) = mk_new st (RInline (sub (view_r st (hrepr hd)) a b')) false).
  { unfold step. cbv beta zeta. rewrite Hh. cbv beta iota. rewrite Es.
    destruct (hrepr hd) as [d|s0 off n|b off n]; cbn [range_repr is_borrowed] in *.
    - reflexivity.
    - discriminate.
    - replace (b' - a <=? INLINE_CAP) with true by (symmetry; apply N.leb_le; exact Hshort). reflexivity. }
  rewrite mk_new_eq in E. eexists. split; [exact E|]. split; [apply get_h_new|]. repeat split; reflexivity.
Qed.

(** a slice of a borrowed value stays borrowed, whatever its length: zero copy *)
Theorem slice_borrowed : forall bk ty st h hd s0 off n s e a b',
  get_h st h = Some hd -> hrepr hd = RBorrowed s0 off n ->
  simplify_ty ty (view_r st (hrepr hd)) s e = ROk (a, b') ->
  exists st', step bk ty st (OTrySlice h s e) = (st', UNew (len (hs st)))
    /\ get_h st' (len (hs st)) = Some (mkH (RBorrowed s0 (off + a) (b' - a)) false)
    /\ n_alloc st' = n_alloc st /\ n_realloc st' = n_realloc st /\ bs st' = bs st.
Proof.
  intros bk ty st h hd s0 off n s e a b' Hh Er Es.
  assert (E : step bk ty st (OTrySlice h s e) = mk_new st (RBorrowed s0 (off + a) (b' - a)) false).
  { unfold step. cbv beta zeta. rewrite Hh. cbv beta iota. rewrite Es, Er. reflexivity. }
  rewrite mk_new_eq in E. eexists. split; [exact E|]. split; [apply get_h_new|]. repeat split; reflexivity.
Qed.

(** ** at the ceiling: fall back to a copy in a fresh block *)
Lemma fresh_block_eq st d cap :
  fresh_block st d cap false
  = (set_bs (add_alloc st (1 + buf_count cap)) (bs st ++ [Some (mkBlock d cap 0 0)]), len (bs st)).
Proof. reflexivity. Qed.

Theorem fallback_clone : forall bk ty st h hd b off n blk,
  Inv bk st -> get_h st h = Some hd -> hrepr hd = RAlloc b off n -> get_b st b = Some blk ->
  can_incr bk (cnt blk) = false ->
  let b' := len (bs st) in
  exists st', step bk ty st (OClone h) = (st', UNew (len (hs st)))
    /\ (exists l, get_h st' (len (hs st)) = Some (mkH (RAlloc b' 0 n) l))
    /\ b' <> b
    /\ get_b st' b' = Some (mkBlock (view_r st (hrepr hd)) n 0 0)
    /\ get_b st' b = Some blk
    /\ view_r st' (RAlloc b' 0 n) = view_r st (hrepr hd).
Proof.
  intros bk ty st h hd b off n blk I Hh Er Hb Hc b'.
  pose proof (Inv_rlen _ _ _ _ I Hh) as Hlen. rewrite Er in Hlen. cbn [rlen] in Hlen.
  assert (E : step bk ty st (OClone h)
              = mk_new (fst (fresh_block st (view_r st (RAlloc b off n)) n false)) (RAlloc b' 0 n) (lin hd && true)).
  { unfold step. cbv beta zeta. rewrite Hh, Er. cbn [clone_repr]. unfold share_or_copy. rewrite Hb, Hc.
    rewrite fresh_block_eq. reflexivity. }
  rewrite fresh_block_eq, mk_new_eq in E. sproj. rewrite Er.
  pose proof (get_b_lt _ _ _ Hb) as Hlt.
  eexists. split; [exact E|].
  assert (G1 : forall X Y, get_b (set_hs (set_bs (add_alloc st X) (bs st ++ [Some Y])) (hs st ++ [Some (mkH (RAlloc b' 0 n) (lin hd && true))])) b' = Some Y).
  { intros X Y. unfold get_b. sproj. apply nthN_snoc_new. }
  split; [eexists; apply (get_h_new (set_bs (add_alloc st _) _))|].
  split; [unfold b'; lia|]. split; [apply G1|]. split.
  - unfold get_b. sproj. rewrite nthN_app_l by exact Hlt. exact Hb.
  - cbn [view_r]. rewrite G1. cbn [vdata]. apply sub_all. exact Hlen.
Qed.

Theorem fallback_slice : forall bk ty st h hd b off n blk s e a b',
  Inv bk st -> get_h st h = Some hd -> hrepr hd = RAlloc b off n -> get_b st b = Some blk ->
  can_incr bk (cnt blk) = false ->
  simplify_ty ty (view_r st (hrepr hd)) s e = ROk (a, b') -> INLINE_CAP < b' - a ->
  let nb := len (bs st) in
  exists st', step bk ty st (OTrySlice h s e) = (st', UNew (len (hs st)))
    /\ get_h st' (len (hs st)) = Some (mkH (RAlloc nb 0 (b' - a)) false)
    /\ nb <> b
    /\ get_b st' nb = Some (mkBlock (sub (view_r st (hrepr hd)) a b') (b' - a) 0 0)
    /\ get_b st' b = Some blk
    /\ view_r st' (RAlloc nb 0 (b' - a)) = sub (view_r st (hrepr hd)) a b'.
Proof.
  intros bk ty st h hd b off n blk s e a b' I Hh Er Hb Hc Es Hlong nb.
  destruct (simplify_ty_bounds _ _ _ _ _ _ Es) as [Hab Hbl].
  pose proof (Inv_rlen _ _ _ _ I Hh) as Hlen.
  assert (Hls : len (sub (view_r st (hrepr hd)) a b') = b' - a) by (apply len_sub; lia).
  assert (E : step bk ty st (OTrySlice h s e)
              = mk_new (fst (fresh_block st (sub (view_r st (hrepr hd)) a b') (b' - a) false)) (RAlloc nb 0 (b' - a)) false).
  { unfold step. cbv beta zeta. rewrite Hh. cbv beta iota. rewrite Es, Er. cbn [range_repr].
    replace (b' - a <=? INLINE_CAP) with false by (symmetry; apply N.leb_gt; exact Hlong).
    unfold share_or_copy. rewrite Hb, Hc. rewrite fresh_block_eq. reflexivity. }
  rewrite fresh_block_eq, mk_new_eq in E. sproj.
  pose proof (get_b_lt _ _ _ Hb) as Hlt.
  eexists. split; [exact E|].
  assert (G1 : forall X Y, get_b (set_hs (set_bs (add_alloc st X) (bs st ++ [Some Y])) (hs st ++ [Some (mkH (RAlloc nb 0 (b' - a)) false)])) nb = Some Y).
  { intros X Y. unfold get_b. sproj. apply nthN_snoc_new. }
  split; [apply (get_h_new (set_bs (add_alloc st _) _))|].
  split; [unfold nb; lia|]. split; [apply G1|]. split.
  - unfold get_b. sproj. rewrite nthN_app_l by exact Hlt. exact Hb.
  - cbn [view_r]. rewrite G1. cbn [vdata]. apply sub_all. exact Hls.
Qed.

(** ** constructors *)
Theorem borrowed_zero_copy : forall bk ty st x,
  exists st', step bk ty st (OBorrowed x) = (st', UNew (len (hs st)))
    /\ get_h st' (len (hs st)) = Some (mkH (RBorrowed (len (srcs st)) 0 (len x)) false)
    /\ get_src st' (len (srcs st)) = x /\ n_alloc st' = n_alloc st.
Proof.
  intros bk ty st x. unfold step, add_src. cbv beta iota zeta. rewrite mk_new_eq. sproj.
  eexists. split; [reflexivity|]. split; [|split; [|reflexivity]].
  - unfold get_h. sproj. apply nthN_snoc_new.
  - unfold get_src. sproj. apply nth_snoc_new.
Qed.

Theorem new_is_inline_empty : forall bk ty st,
  exists st', step bk ty st ONew = (st', UNew (len (hs st)))
    /\ get_h st' (len (hs st)) = Some (mkH (RInline []) false) /\ bs st' = bs st /\ n_alloc st' = n_alloc st.
Proof.
  intros bk ty st. unfold step. rewrite mk_new_eq. eexists. split; [reflexivity|].
  split; [apply get_h_new | split; reflexivity].
Qed.

Theorem from_vec_adopts : forall bk ty st x extra,
  INLINE_CAP < len x ->
  let b' := len (bs st) in
  exists st', step bk ty st (OFromVec x extra) = (st', UNew (len (hs st)))
    /\ get_h st' (len (hs st)) = Some (mkH (RAlloc b' 0 (len x)) false)
    /\ get_b st' b' = Some (mkBlock x (len x + extra) 0 0)
    /\ n_alloc st' = n_alloc st + 2.
Proof.
  intros bk ty st x extra Hlong b'.
  unfold step, from_vec. cbv beta zeta.
  replace (len x <=? INLINE_CAP) with false by (symmetry; apply N.leb_gt; exact Hlong).
  unfold fresh_block, new_b. cbv beta iota zeta. rewrite mk_new_eq. sproj.
  eexists. split; [reflexivity|]. split; [|split].
  - unfold get_h. sproj. apply nthN_snoc_new.
  - unfold get_b. sproj. apply nthN_snoc_new.
  - sproj. unfold INLINE_CAP in Hlong. destruct (len x + extra =? 0) eqn:C; lia.
Qed.

Theorem from_vec_inlines : forall bk ty st x extra,
  len x <= INLINE_CAP ->
  exists st', step bk ty st (OFromVec x extra) = (st', UNew (len (hs st)))
    /\ get_h st' (len (hs st)) = Some (mkH (RInline x) false)
    /\ bs st' = bs st
    /\ n_alloc st' + n_free st = n_alloc st + n_free st'.
Proof.
  intros bk ty st x extra Hshort.
  unfold step, from_vec. cbv beta zeta.
  replace (len x <=? INLINE_CAP) with true by (symmetry; apply N.leb_le; exact Hshort).
  rewrite mk_new_eq. sproj.
  eexists. split; [reflexivity|]. split; [|split].
  - unfold get_h. sproj. apply nthN_snoc_new.
  - reflexivity.
  - sproj. unfold buf_count. lia.
Qed.

(** ** conversions and edits in place *)
Theorem into_vec_reuses : forall bk ty st h hd b off n blk,
  get_h st h = Some hd -> hrepr hd = RAlloc b off n -> get_b st b = Some blk ->
  can_unwrap bk st (hrepr hd) = true ->
  exists st', step bk ty st (OIntoVec h) = (st', UVec (firstn (N.to_nat n) (vdata blk)) (vcap blk))
    /\ n_alloc st' = n_alloc st /\ n_realloc st' = n_realloc st /\ get_h st' h = None /\ get_b st' b = None.
Proof.
  intros bk ty st h hd b off n blk Hh Er Hb C. rewrite Er in C. cbn [can_unwrap] in C. rewrite Hb in C.
  unfold step. cbv beta zeta. rewrite Hh. cbv beta iota. rewrite Er. cbv beta iota. rewrite Hb. cbv beta iota. rewrite C.
  eexists. split; [reflexivity|]. split; [reflexivity|]. split; [reflexivity|]. split.
  - unfold get_h. sproj. apply nthN_upd_eq. eapply get_h_lt; exact Hh.
  - unfold get_b. sproj. apply nthN_upd_eq. eapply get_b_lt; exact Hb.
Qed.

Theorem with_capacity_in_place : forall bk ty st h hd b n x blk,
  Inv bk st -> get_h st h = Some hd -> hrepr hd = RAlloc b 0 n -> get_b st b = Some blk ->
  is_unique_c bk (cnt blk) = true -> n + len x <= vcap blk ->
  exists st', step bk ty st (OPushSlice h x) = (st', UUnit)
    /\ (exists l, get_h st' h = Some (mkH (RAlloc b 0 (n + len x)) l))
    /\ n_alloc st' = n_alloc st /\ n_realloc st' = n_realloc st
    /\ (exists blk', get_b st' b = Some blk' /\ vcap blk' = vcap blk).
Proof.
  intros bk ty st h hd b n x blk I Hh Er Hb U Hroom.
  assert (Hcap : reserve_cap (0 + n) (vcap blk) (len x) = vcap blk).
  { unfold reserve_cap. destruct (vcap blk - (0 + n) <? len x) eqn:C; [lia | reflexivity]. }
  unfold step. cbv beta zeta. rewrite Hh. cbv beta iota. unfold do_push_slice. cbv beta zeta.
  rewrite Er. cbv beta iota. rewrite Hb. cbv beta iota. rewrite U. rewrite Hcap.
  unfold resize_events. rewrite N.eqb_refl. cbn [rlen].
  eexists. split; [reflexivity|]. split; [|split; [reflexivity|split; [reflexivity|]]].
  - eexists. unfold get_h. sproj. apply nthN_upd_eq. eapply get_h_lt; exact Hh.
  - eexists. split.
    + unfold get_b. sproj. apply nthN_upd_eq. eapply get_b_lt; exact Hb.
    + reflexivity.
Qed.

Theorem clear_not_heap : forall bk ty st h hd st' u,
  get_h st h = Some hd -> 0 < rlen (hrepr hd) -> step bk ty st (OClear h) = (st', u) ->
  exists hd', get_h st' h = Some hd' /\ is_alloc (hrepr hd') = false.
Proof.
  intros bk ty st h hd st' u Hh Hpos E. open_step E. rewrite Hh in E.
  replace (0 <? rlen (hrepr hd)) with true in E by (symmetry; apply N.ltb_lt; exact Hpos).
  injection E as <- <-. pose proof (get_h_lt _ _ _ Hh) as Hlt.
  unfold do_shorten. replace (0 <=? INLINE_CAP) with true by reflexivity.
  destruct (hrepr hd) as [d|s off n|b off n]; cbn [is_alloc andb].
  - eexists. split; [unfold get_h; sproj; apply nthN_upd_eq; exact Hlt | reflexivity].
  - eexists. split; [unfold get_h; sproj; apply nthN_upd_eq; exact Hlt | reflexivity].
  - assert (Hlt' : h < len (hs (drop_repr bk st (RAlloc b off n)))).
    { cbn [drop_repr]. unfold detach. destruct (get_b st b) as [blk|]; [destruct (is_unique_c bk (cnt blk))|]; exact Hlt. }
    eexists. split; [unfold assign, get_h; sproj; apply nthN_upd_eq; exact Hlt' | reflexivity].
Qed.

Print Assumptions clone_shares.
Print Assumptions slice_shares.
Print Assumptions slice_inlines.
Print Assumptions slice_borrowed.
Print Assumptions fallback_clone.
Print Assumptions fallback_slice.
Print Assumptions borrowed_zero_copy.
Print Assumptions new_is_inline_empty.
Print Assumptions from_vec_adopts.
Print Assumptions from_vec_inlines.
Print Assumptions into_vec_reuses.
Print Assumptions with_capacity_in_place.
Print Assumptions clear_not_heap.
