(** * VecPan: no operation of the model ever changes the panic position chosen by the environment. *)
From Hip Require Import Base Range VecModel VecSpec VecLib VecProofs1.
Local Open Scope nat_scope.

Lemma pan_fresh w x : pan (snd (fresh w x)) = pan w.
Proof. reflexivity. Qed.
Lemma pan_cb_clone w s x : pan (resw (cb_clone w s x)) = pan w.
Proof. unfold cb_clone, tick, fresh. destruct (match pan w with Some k => _ | None => false end); reflexivity. Qed.
Lemma pan_cb_next w x : pan (resw (cb_next w x)) = pan w.
Proof. unfold cb_next, tick, fresh. destruct (match pan w with Some k => _ | None => false end); reflexivity. Qed.
Lemma pan_cb_make w x : pan (resw (cb_make w x)) = pan w.
Proof. unfold cb_make, tick, fresh. destruct (match pan w with Some k => _ | None => false end); reflexivity. Qed.
Lemma pan_cb_pred w id r : pan (resw (cb_pred w id r)) = pan w.
Proof. unfold cb_pred, tick. destruct (match pan w with Some k => _ | None => false end); reflexivity. Qed.
Lemma pan_cb_drop w id : pan (resw (cb_drop w id)) = pan w.
Proof.
  unfold cb_drop, tick. cbn [live]. destruct (mem id (live w)); destruct (match pan w with Some k => _ | None => false end); reflexivity.
Qed.

Lemma pan_wr w v i s : pan (fst (wr w v i s)) = pan w.
Proof. unfold wr. destruct (Nat.ltb i (vcapn v)); reflexivity. Qed.
Lemma pan_setlen w v n : pan (fst (setlen w v n)) = pan w.
Proof. unfold setlen. destruct (Nat.leb n (vcapn v)); reflexivity. Qed.
Lemma pan_take_slot w v i : pan (fst (take_slot w v i)) = pan w.
Proof. unfold take_slot. destruct (rd v i); reflexivity. Qed.
Lemma pan_write_slots : forall l w v i, pan (fst (write_slots w v i l)) = pan w.
Proof.
  induction l as [|s r IH]; intros w v i; cbn [write_slots]; [reflexivity|].
  pose proof (pan_wr w v i s) as H. destruct (wr w v i s) as [w1 v1]. cbn [fst] in H. rewrite IH. exact H.
Qed.
Lemma pan_take_ids v : forall n w i, pan (fst (take_ids w v i n)) = pan w.
Proof.
  induction n as [|n IH]; intros w i; cbn [take_ids]; [reflexivity|].
  pose proof (pan_take_slot w v i) as H. destruct (take_slot w v i) as [w1 id]. cbn [fst] in H.
  specialize (IH w1 (S i)). destruct (take_ids w1 v (S i) n) as [w2 r]. cbn [fst] in *. congruence.
Qed.
Lemma pan_take_ids_back v : forall n w i, pan (fst (take_ids_back w v i n)) = pan w.
Proof.
  induction n as [|n IH]; intros w i; cbn [take_ids_back]; [reflexivity|].
  pose proof (pan_take_slot w v (i - 1)) as H. destruct (take_slot w v (i - 1)) as [w1 id]. cbn [fst] in H.
  specialize (IH w1 (i - 1)). destruct (take_ids_back w1 v (i - 1) n) as [w2 r]. cbn [fst] in *. congruence.
Qed.
Lemma pan_drop_slots st : forall l w pk, pan (resw (drop_slots st w l pk)) = pan w.
Proof.
  induction l as [|s r IH]; intros w pk; cbn [drop_slots].
  - destruct pk; reflexivity.
  - destruct s as [|id]; [now rewrite IH|].
    pose proof (pan_cb_drop w id) as H. destruct (cb_drop w id) as [[] w1|w1]; cbn [resw] in H.
    + now rewrite IH.
    + destruct st; [exact H|now rewrite IH].
Qed.
Lemma pan_drop_range st w v i n : pan (resw (drop_range st w v i n)) = pan w.
Proof. apply pan_drop_slots. Qed.
Lemma pan_drop_vec k w v : pan (resw (drop_vec k w v)) = pan w.
Proof.
  unfold drop_vec. destruct k; [apply pan_drop_range|].
  pose proof (pan_drop_range Continue w v 0 (vlen v)) as H. destruct (drop_range Continue w v 0 (vlen v)); exact H.
Qed.
Lemma pan_set_cap w v c : pan (fst (set_cap w v c)) = pan w.
Proof. unfold set_cap. destruct (Nat.eqb c (vcapn v)); reflexivity. Qed.
Lemma pan_thin_reserve w v a : pan (fst (thin_reserve w v a)) = pan w.
Proof. unfold thin_reserve. destruct (Nat.ltb _ _); [apply pan_set_cap|reflexivity]. Qed.
Lemma pan_thin_reserve_exact w v a : pan (fst (thin_reserve_exact w v a)) = pan w.
Proof. unfold thin_reserve_exact. destruct (Nat.ltb _ _); [apply pan_set_cap|reflexivity]. Qed.
Lemma pan_thin_with_capacity w c : pan (fst (thin_with_capacity w c)) = pan w.
Proof. reflexivity. Qed.

Lemma pan_cib : forall ids w v i, pan (fst (fst (clone_into_bump' w v i ids))) = pan w.
Proof.
  induction ids as [|id r IH]; intros w v i; cbn [clone_into_bump']; [reflexivity|].
  pose proof (pan_cb_clone w id (val_of w id)) as H. destruct (cb_clone w id (val_of w id)) as [nid w1|w1]; cbn [resw] in H; [|exact H].
  pose proof (pan_wr w1 v i (E nid)) as H1. destruct (wr w1 v i (E nid)) as [w2 v2]. cbn [fst] in H1.
  pose proof (pan_setlen w2 v2 (S i)) as H2. destruct (setlen w2 v2 (S i)) as [w3 v3]. cbn [fst] in H2.
  rewrite IH. congruence.
Qed.
Lemma pan_gc : forall ids w v i0 i, pan (fst (fst (guarded_clone w v i0 i ids))) = pan w.
Proof.
  induction ids as [|id r IH]; intros w v i0 i; cbn [guarded_clone]; [reflexivity|].
  pose proof (pan_cb_clone w id (val_of w id)) as H. destruct (cb_clone w id (val_of w id)) as [nid w1|w1]; cbn [resw] in H.
  - pose proof (pan_wr w1 v i (E nid)) as H1. destruct (wr w1 v i (E nid)) as [w2 v2]. cbn [fst] in H1. rewrite IH. congruence.
  - pose proof (pan_drop_range Continue w1 v i0 (i - i0)) as H1. destruct (drop_range Continue w1 v i0 (i - i0)); cbn [resw fst] in *; congruence.
Qed.
Lemma pan_iter_loop f : (forall w v j id, pan (fst (fst (f w v j id))) = pan w) ->
  forall vs w v j, pan (fst (fst (iter_loop w v j vs f))) = pan w.
Proof.
  intros Hf. induction vs as [|x r IH]; intros w v j; cbn [iter_loop]; [reflexivity|].
  pose proof (pan_cb_next w x) as H. destruct (cb_next w x) as [nid w1|w1]; cbn [resw] in H; [|exact H].
  pose proof (Hf w1 v j nid) as H1. destruct (f w1 v j nid) as [[w2 v2] p]. cbn [fst] in H1. destruct p; [cbn [fst]; congruence|].
  rewrite IH. congruence.
Qed.
Lemma pan_inline_try_push w v id : pan (fst (fst (inline_try_push w v id))) = pan w.
Proof.
  unfold inline_try_push. destruct (Nat.ltb (vlen v) (vcapn v)); [|reflexivity].
  pose proof (pan_wr w v (vlen v) (E id)) as H1. destruct (wr w v (vlen v) (E id)) as [w1 v1]. cbn [fst] in H1.
  pose proof (pan_setlen w1 v1 (S (vlen v))) as H2. destruct (setlen w1 v1 (S (vlen v))) as [w2 v2]. cbn [fst] in *. congruence.
Qed.
Lemma pan_inline_push w v id : pan (fst (fst (inline_push w v id))) = pan w.
Proof.
  unfold inline_push. pose proof (pan_inline_try_push w v id) as H. destruct (inline_try_push w v id) as [[w1 v1] ok]. cbn [fst] in H.
  destruct ok; [exact H|]. pose proof (pan_cb_drop w1 id) as H1. destruct (cb_drop w1 id) as [[] w2|w2]; cbn [resw fst pan set_unw] in *; congruence.
Qed.
Lemma pan_thin_push w v id : pan (fst (thin_push w v id)) = pan w.
Proof.
  unfold thin_push. pose proof (pan_thin_reserve w v 1) as H. destruct (thin_reserve w v 1) as [w1 v1]. cbn [fst] in H.
  pose proof (pan_wr w1 v1 (vlen v1) (E id)) as H1. destruct (wr w1 v1 (vlen v1) (E id)) as [w2 v2]. cbn [fst] in H1.
  rewrite pan_setlen. congruence.
Qed.
Lemma pan_drain_finish w v lo hi ts tl fg : pan (fst (fst (drain_finish w v lo hi ts tl fg))) = pan w.
Proof.
  unfold drain_finish. destruct fg; [reflexivity|].
  pose proof (pan_drop_range Continue w v lo (hi - lo)) as H. destruct (drop_range Continue w v lo (hi - lo)) as [[] w1|w1]; cbn [resw] in H; [|exact H].
  pose proof (pan_write_slots (slots_from v ts tl) w1 v (vlen v)) as H1. destruct (write_slots w1 v (vlen v) (slots_from v ts tl)) as [w2 v2]. cbn [fst] in H1.
  pose proof (pan_setlen w2 v2 (vlen v + tl)) as H2. destruct (setlen w2 v2 (vlen v + tl)) as [w3 v3]. cbn [fst] in *. congruence.
Qed.
Lemma pan_rw_go x : forall cnt w v i, pan (fst (fst (rw_go x w v i cnt))) = pan w.
Proof.
  induction cnt as [|cnt IH]; intros w v i; cbn [rw_go]; [reflexivity|].
  pose proof (pan_cb_make w x) as H. destruct (cb_make w x) as [nid w1|w1]; cbn [resw] in H; [|exact H].
  pose proof (pan_wr w1 v i (E nid)) as H1. destruct (wr w1 v i (E nid)) as [w2 v2]. cbn [fst] in H1.
  pose proof (pan_setlen w2 v2 (S i)) as H2. destruct (setlen w2 v2 (S i)) as [w3 v3]. cbn [fst] in H2.
  rewrite IH. congruence.
Qed.

Ltac pan_scrut x tac :=
  lazymatch x with
  | wr ?a ?b ?c ?d => pose proof (pan_wr a b c d)
  | setlen ?a ?b ?c => pose proof (pan_setlen a b c)
  | write_slots ?a ?b ?c ?d => pose proof (pan_write_slots d a b c)
  | take_slot ?a ?b ?c => pose proof (pan_take_slot a b c)
  | take_ids ?a ?b ?c ?d => pose proof (pan_take_ids b d a c)
  | take_ids_back ?a ?b ?c ?d => pose proof (pan_take_ids_back b d a c)
  | fresh ?a ?b => pose proof (pan_fresh a b)
  | cb_drop ?a ?b => pose proof (pan_cb_drop a b)
  | cb_pred ?a ?b ?c => pose proof (pan_cb_pred a b c)
  | drop_range ?a ?b ?c ?d ?e => pose proof (pan_drop_range a b c d e)
  | drop_vec ?a ?b ?c => pose proof (pan_drop_vec a b c)
  | thin_reserve ?a ?b ?c => pose proof (pan_thin_reserve a b c)
  | thin_reserve_exact ?a ?b ?c => pose proof (pan_thin_reserve_exact a b c)
  | set_cap ?a ?b ?c => pose proof (pan_set_cap a b c)
  | thin_with_capacity ?a ?b => pose proof (pan_thin_with_capacity a b)
  | clone_into_bump' ?a ?b ?c ?d => pose proof (pan_cib d a b c)
  | guarded_clone ?a ?b ?c ?d ?e => pose proof (pan_gc e a b c d)
  | inline_push ?a ?b ?c => pose proof (pan_inline_push a b c)
  | inline_try_push ?a ?b ?c => pose proof (pan_inline_try_push a b c)
  | thin_push ?a ?b ?c => pose proof (pan_thin_push a b c)
  | drain_finish ?a ?b ?c ?d ?e ?f ?g => pose proof (pan_drain_finish a b c d e f g)
  | rw_go ?x ?a ?b ?c ?d => pose proof (pan_rw_go x d a b c)
  | addv ?a ?b ?c => pose proof (eq_refl : wd (fst (addv a b c)) = c)
  | iter_loop ?w ?v ?j ?vs ?f =>
      assert (pan (fst (fst (iter_loop w v j vs f))) = pan w) by (apply pan_iter_loop; intros; first [apply pan_inline_push | tac])
  | _ => idtac
  end.

Ltac pan_tac :=
  repeat (match goal with
          | |- context [match (match ?y with _ => _ end) with _ => _ end] => pan_scrut y pan_tac; destruct y eqn:?; cbn [fst snd resw] in *
          | |- context [match ?x with _ => _ end] => pan_scrut x pan_tac; destruct x eqn:?; cbn [fst snd resw] in *
          end);
  repeat (match goal with H : context [if ?c then _ else _] |- _ => destruct c end);
  cbn [wd setv hand setw addv fst snd pan set_unw] in *; congruence.

Theorem vstep_core_pan k s o : pan (wd (fst (vstep_core k s o))) = pan (wd s).
Proof.
  destruct o; unfold vstep_core; try fold (rw_go x); pan_tac.
Qed.

Theorem vstep_pan k s o : pan (wd (fst (vstep k s o))) = pan (wd s).
Proof. rewrite vstep_fst. cbn [wd setw pan set_unw]. apply vstep_core_pan. Qed.

Theorem vstep_pan_none : forall k s o, pan (wd s) = None -> pan (wd (fst (vstep k s o))) = None.
Proof. intros k s o H. now rewrite vstep_pan. Qed.

Print Assumptions vstep_pan_none.
