(** * BytesLib: reusable lemmas about the plumbing of the Bytes machine
    (upd / nth_error / nthN / get_h / get_b / nrefs / heap_objects / sub / view_r / abs). *)
From Hip Require Import Base Range Utf8 StrRange Bytes BytesSpec BytesInv.

(** simplification of the projections of the state transformers; never touches N arithmetic *)
Ltac sproj :=
  cbn [hs bs srcs n_alloc n_free n_realloc n_leak bad
       set_hs set_bs set_h set_b add_alloc add_free add_realloc add_leak set_bad fst snd] in *.

(** ** upd / nth_error *)
Lemma upd_length {A} (l : list A) i x : length (upd l i x) = length l.
Proof. revert i; induction l as [|y l IH]; intros [|i]; cbn [upd length]; auto. Qed.

Lemma len_upd {A} (l : list A) i x : len (upd l i x) = len l.
Proof. unfold len. now rewrite upd_length. Qed.

Lemma nth_error_upd_eq {A} (l : list A) i x : (i < length l)%nat -> nth_error (upd l i x) i = Some x.
Proof.
  revert i; induction l as [|y l IH]; intros [|i] H; cbn [upd length nth_error] in *; try lia; auto.
  apply IH. lia.
Qed.

Lemma nth_error_upd_neq {A} (l : list A) i j x : i <> j -> nth_error (upd l i x) j = nth_error l j.
Proof.
  revert i j; induction l as [|y l IH]; intros [|i] [|j] H; cbn [upd nth_error]; auto; try congruence.
Qed.

Lemma upd_same {A} (l : list A) i x : nth_error l i = Some x -> upd l i x = l.
Proof.
  revert i; induction l as [|y l IH]; intros [|i] H; cbn [upd nth_error] in *; try discriminate.
  - congruence.
  - f_equal. auto.
Qed.

Lemma upd_oob {A} (l : list A) i x : (length l <= i)%nat -> upd l i x = l.
Proof.
  revert i; induction l as [|y l IH]; intros [|i] H; cbn [upd length] in *; auto; try lia.
  f_equal. apply IH. lia.
Qed.

Lemma map_upd {A B} (f : A -> B) l i x : map f (upd l i x) = upd (map f l) i (f x).
Proof. revert i; induction l as [|y l IH]; intros [|i]; cbn [upd map]; auto. f_equal. auto. Qed.

Lemma upd_map_ext {A B} (f g : A -> B) l i z :
  (forall j y, j <> i -> nth_error l j = Some y -> f y = g y) -> upd (map f l) i z = upd (map g l) i z.
Proof.
  revert i; induction l as [|y l IH]; intros [|i] H; cbn [upd map]; auto.
  - f_equal. apply map_ext_in. intros a Ha. destruct (In_nth_error _ _ Ha) as [j Hj].
    apply (H (S j)); [lia | exact Hj].
  - f_equal.
    + apply (H O); [lia | reflexivity].
    + apply IH. intros j y' Hne Hj. apply (H (S j)); [lia | exact Hj].
Qed.

Lemma upd_snoc_last {A} (l : list A) y x : upd (l ++ [y]) (length l) x = l ++ [x].
Proof. induction l as [|a l IH]; cbn [upd app length]; auto. f_equal. auto. Qed.

Lemma upd_app_l {A} (l l' : list A) i x : (i < length l)%nat -> upd (l ++ l') i x = upd l i x ++ l'.
Proof.
  revert i; induction l as [|a l IH]; intros [|i] H; cbn [upd app length] in *; try lia; auto.
  f_equal. apply IH. lia.
Qed.

(** ** nthN *)
Lemma nthN_nth_error {A} (l : list (option A)) i x :
  nthN l i = Some x <-> nth_error l (N.to_nat i) = Some (Some x).
Proof.
  unfold nthN. destruct (nth_error l (N.to_nat i)) as [[y|]|]; split; intros H; try discriminate; congruence.
Qed.

Lemma nthN_Some_lt {A} (l : list (option A)) i x : nthN l i = Some x -> i < len l.
Proof.
  intros H. apply nthN_nth_error in H.
  assert (N.to_nat i < length l)%nat by (apply nth_error_Some; congruence). unfold len. lia.
Qed.

Lemma nthN_oob {A} (l : list (option A)) i : len l <= i -> nthN l i = None.
Proof.
  intros H. unfold nthN. replace (nth_error l (N.to_nat i)) with (@None (option A)); auto.
  symmetry. apply nth_error_None. unfold len in H. lia.
Qed.

Lemma nthN_upd_eq {A} (l : list (option A)) i x : i < len l -> nthN (upd l (N.to_nat i) x) i = x.
Proof.
  intros H. unfold nthN. rewrite nth_error_upd_eq by (unfold len in H; lia). destruct x; reflexivity.
Qed.

Lemma nthN_upd_neq {A} (l : list (option A)) i j x : i <> j -> nthN (upd l (N.to_nat i) x) j = nthN l j.
Proof. intros H. unfold nthN. rewrite nth_error_upd_neq by lia. reflexivity. Qed.

Lemma nthN_app_l {A} (l l' : list (option A)) i : i < len l -> nthN (l ++ l') i = nthN l i.
Proof. intros H. unfold nthN. rewrite nth_error_app1 by (unfold len in H; lia). reflexivity. Qed.

Lemma nthN_app {A} (l l' : list (option A)) i :
  nthN (l ++ l') i = if i <? len l then nthN l i else nthN l' (i - len l).
Proof.
  destruct (N.ltb_spec i (len l)) as [H|H]; [apply nthN_app_l; exact H|].
  unfold nthN, len in *. rewrite nth_error_app2 by lia.
  replace (N.to_nat (i - N.of_nat (length l))) with (N.to_nat i - length l)%nat by lia. reflexivity.
Qed.

Lemma nthN_snoc_new {A} (l : list (option A)) x : nthN (l ++ [x]) (len l) = x.
Proof.
  unfold nthN, len. rewrite Nat2N.id, nth_error_app2 by lia. rewrite Nat.sub_diag. cbn [nth_error].
  destruct x; reflexivity.
Qed.

Lemma nthN_snoc {A} (l : list (option A)) x i : nthN (l ++ [x]) i = if i =? len l then x else nthN l i.
Proof.
  destruct (N.eqb_spec i (len l)) as [->|Hne].
  - apply nthN_snoc_new.
  - destruct (N.lt_ge_cases i (len l)) as [Hlt|Hge].
    + apply nthN_app_l; exact Hlt.
    + rewrite !nthN_oob; auto. rewrite len_app, len_cons, len_nil. lia.
Qed.

Lemma nthN_map {A B} (f : A -> B) (l : list (option A)) i :
  nthN (map (option_map f) l) i = option_map f (nthN l i).
Proof.
  unfold nthN. rewrite nth_error_map. destruct (nth_error l (N.to_nat i)) as [[y|]|]; reflexivity.
Qed.

Lemma nthN_of_nat {A} (l : list (option A)) j y : nth_error l j = Some (Some y) -> nthN l (N.of_nat j) = Some y.
Proof. intros H. unfold nthN. rewrite Nat2N.id, H. reflexivity. Qed.

(** ** reference counting over the handle pool *)
Definition pt (b : N) (r : repr) : N :=
  match r with RAlloc b' _ _ => if b' =? b then 1 else 0 | _ => 0 end.
Definition pto (b : N) (o : option handle) : N := if points_to b o then 1 else 0.

Lemma pto_Some b hd : pto b (Some hd) = pt b (hrepr hd).
Proof. destruct hd as [[d|s off n|b' off n] l]; unfold pto, pt; cbn [points_to hrepr]; reflexivity. Qed.
Lemma pto_None b : pto b None = 0.
Proof. reflexivity. Qed.
Lemma pt_le1 b r : pt b r <= 1.
Proof. unfold pt. destruct r; try lia. destruct (_ =? _); lia. Qed.
Lemma pt_self b off n : pt b (RAlloc b off n) = 1.
Proof. unfold pt. rewrite N.eqb_refl. reflexivity. Qed.
Lemma pt_other b b' off n : b' <> b -> pt b (RAlloc b' off n) = 0.
Proof. intros H. unfold pt. destruct (N.eqb_spec b' b); congruence. Qed.
Lemma pt_nonalloc b r : is_alloc r = false -> pt b r = 0.
Proof. destruct r; cbn [is_alloc]; intros; try discriminate; reflexivity. Qed.

Lemma nrefs_cons b o l : nrefs b (o :: l) = pto b o + nrefs b l.
Proof. reflexivity. Qed.

Lemma nrefs_app b l l' : nrefs b (l ++ l') = nrefs b l + nrefs b l'.
Proof. induction l as [|o l IH]; cbn [app]; rewrite ?nrefs_cons; cbn [nrefs]; lia. Qed.

Lemma nrefs_snoc b l o : nrefs b (l ++ [o]) = nrefs b l + pto b o.
Proof. rewrite nrefs_app, nrefs_cons. cbn [nrefs]. lia. Qed.

Lemma nrefs_upd b l i o x : nth_error l i = Some o -> nrefs b (upd l i x) + pto b o = nrefs b l + pto b x.
Proof.
  revert i; induction l as [|y l IH]; intros [|i] H; cbn [nth_error upd] in *; try discriminate.
  - inversion H; subst. rewrite !nrefs_cons. lia.
  - rewrite !nrefs_cons. specialize (IH _ H). lia.
Qed.

Lemma nrefs_ge b l i o : nth_error l i = Some o -> pto b o <= nrefs b l.
Proof.
  revert i; induction l as [|y l IH]; intros [|i] H; cbn [nth_error] in *; try discriminate.
  - inversion H; subst. rewrite nrefs_cons. lia.
  - rewrite nrefs_cons. specialize (IH _ H). lia.
Qed.

Lemma nrefs_zero b l : (forall o, In o l -> points_to b o = false) -> nrefs b l = 0.
Proof.
  induction l as [|y l IH]; intros H; [reflexivity|]. rewrite nrefs_cons. unfold pto.
  rewrite (H y) by (left; reflexivity). rewrite IH; [lia|]. intros o Ho. apply H. right; exact Ho.
Qed.

(** a live handle on [b] is counted *)
Lemma nrefs_handle b st h hd : get_h st h = Some hd -> pt b (hrepr hd) <= nrefs b (hs st).
Proof.
  intros H. apply nthN_nth_error in H. rewrite <- pto_Some. eapply nrefs_ge; exact H.
Qed.

(** two distinct live handles are both counted *)
Lemma nrefs_two b st h hd i hi :
  i <> h -> get_h st h = Some hd -> get_h st i = Some hi ->
  pt b (hrepr hi) + pt b (hrepr hd) <= nrefs b (hs st).
Proof.
  intros Hne Hh Hi. apply nthN_nth_error in Hh, Hi.
  pose proof (nrefs_upd b _ _ _ None Hh) as E. rewrite pto_None, pto_Some in E.
  assert (Hi' : nth_error (upd (hs st) (N.to_nat h) None) (N.to_nat i) = Some (Some hi))
    by (rewrite nth_error_upd_neq by lia; exact Hi).
  pose proof (nrefs_ge b _ _ _ Hi') as G. rewrite pto_Some in G. lia.
Qed.

(** ** heap objects *)
Definition ho (o : option block) : N := match o with Some blk => 1 + buf_count (vcap blk) | None => 0 end.

Lemma heap_objects_cons o l : heap_objects (o :: l) = ho o + heap_objects l.
Proof. destruct o; cbn [heap_objects ho]; lia. Qed.

Lemma heap_objects_app l l' : heap_objects (l ++ l') = heap_objects l + heap_objects l'.
Proof. induction l as [|o l IH]; cbn [app]; rewrite ?heap_objects_cons; cbn [heap_objects]; lia. Qed.

Lemma heap_objects_snoc l o : heap_objects (l ++ [o]) = heap_objects l + ho o.
Proof. rewrite heap_objects_app, heap_objects_cons. cbn [heap_objects]. lia. Qed.

Lemma heap_objects_upd l i o x : nth_error l i = Some o -> heap_objects (upd l i x) + ho o = heap_objects l + ho x.
Proof.
  revert i; induction l as [|y l IH]; intros [|i] H; cbn [nth_error upd] in *; try discriminate.
  - inversion H; subst. rewrite !heap_objects_cons. lia.
  - rewrite !heap_objects_cons. specialize (IH _ H). lia.
Qed.

(** ** sub-lists *)
Lemma skipn_skipn' {A} (l : list A) a b : skipn a (skipn b l) = skipn (b + a) l.
Proof.
  revert l; induction b as [|b IH]; intros l; [reflexivity|].
  destruct l as [|x l]; cbn [skipn Nat.add]; [now rewrite skipn_nil | apply IH].
Qed.

Lemma firstn_add {A} (l : list A) a b : firstn (a + b) l = firstn a l ++ firstn b (skipn a l).
Proof.
  revert l; induction a as [|a IH]; intros l; [reflexivity|].
  destruct l as [|x l]; cbn [firstn skipn Nat.add app]; [now rewrite firstn_nil | f_equal; apply IH].
Qed.

Lemma sub_0 {A} (l : list A) n : sub l 0 n = firstn (N.to_nat n) l.
Proof. unfold sub. rewrite N.sub_0_r. reflexivity. Qed.

Lemma sub_0' {A} (l : list A) n : sub l 0 (0 + n) = firstn (N.to_nat n) l.
Proof. rewrite N.add_0_l. apply sub_0. Qed.

Lemma sub_all {A} (l : list A) n : len l = n -> sub l 0 (0 + n) = l.
Proof. intros <-. rewrite N.add_0_l. apply sub_full. Qed.

Lemma sub_empty {A} (l : list A) a : sub l a a = [].
Proof. unfold sub. rewrite N.sub_diag. reflexivity. Qed.

Lemma sub_empty' {A} (l : list A) a : sub l a (a + 0) = [].
Proof. rewrite N.add_0_r. apply sub_empty. Qed.

Lemma len_sub_le {A} (l : list A) a b : len (sub l a b) <= b - a.
Proof. unfold sub. rewrite len_firstn. lia. Qed.

Lemma len_sub' {A} (l : list A) off n : off + n <= len l -> len (sub l off (off + n)) = n.
Proof. intros H. rewrite len_sub by lia. lia. Qed.

(** a window of a window *)
Lemma sub_sub {A} (l : list A) x n a b :
  a <= b -> b <= n -> sub (sub l x (x + n)) a b = sub l (x + a) (x + a + (b - a)).
Proof.
  intros Hab Hbn. unfold sub. rewrite skipn_firstn_comm, firstn_firstn, skipn_skipn'.
  replace (Nat.min (N.to_nat (b - a)) (N.to_nat (x + n - x) - N.to_nat a)) with (N.to_nat (b - a)) by lia.
  replace (N.to_nat (x + a + (b - a) - (x + a))) with (N.to_nat (b - a)) by lia.
  replace (N.to_nat x + N.to_nat a)%nat with (N.to_nat (x + a)) by lia. reflexivity.
Qed.

Lemma sub_sub_0 {A} (l : list A) x n m :
  m <= n -> sub (sub l x (x + n)) 0 m = sub l x (x + m).
Proof.
  intros H. rewrite sub_sub by lia. rewrite N.add_0_r, N.sub_0_r. reflexivity.
Qed.

(** the middle of a three-part list *)
Lemma sub_mid {A} (la lb lc : list A) a n : len la = a -> len lb = n -> sub (la ++ lb ++ lc) a (a + n) = lb.
Proof.
  intros Ha Hb. unfold sub, len in *.
  rewrite skipn_app, skipn_all2 by lia.
  replace (N.to_nat a - length la)%nat with O by lia. cbn [skipn app].
  replace (N.to_nat (a + n - a)) with (length lb + 0)%nat by lia.
  rewrite firstn_app_2. cbn [firstn]. apply app_nil_r.
Qed.

Lemma firstn_sub_split {A} (l : list A) off n :
  firstn (N.to_nat (off + n)) l = firstn (N.to_nat off) l ++ sub l off (off + n).
Proof.
  unfold sub. replace (N.to_nat (off + n)) with (N.to_nat off + N.to_nat n)%nat by lia.
  rewrite firstn_add. do 2 f_equal. lia.
Qed.

Lemma len_firstn_le {A} (l : list A) n : n <= len l -> len (firstn (N.to_nat n) l) = n.
Proof. intros H. rewrite len_firstn. lia. Qed.

Lemma len_map {A B} (f : A -> B) l : len (map f l) = len l.
Proof. unfold len. now rewrite map_length. Qed.

(** ** state accessors *)
Lemma get_b_lt st b blk : get_b st b = Some blk -> b < len (bs st).
Proof. apply nthN_Some_lt. Qed.
Lemma get_h_lt st h hd : get_h st h = Some hd -> h < len (hs st).
Proof. apply nthN_Some_lt. Qed.
Lemma get_b_fresh st : get_b st (len (bs st)) = None.
Proof. apply nthN_oob. lia. Qed.

Lemma get_b_nth st b blk : get_b st b = Some blk -> nth_error (bs st) (N.to_nat b) = Some (Some blk).
Proof. apply nthN_nth_error. Qed.

Lemma get_src_app st s ext : s < len (srcs st) -> nth (N.to_nat s) (srcs st ++ ext) [] = get_src st s.
Proof. intros H. unfold get_src. apply app_nth1. unfold len in H. lia. Qed.

(** ** views *)
Lemma view_r_ext st st' r :
  (forall s off n, r = RBorrowed s off n -> get_src st' s = get_src st s) ->
  (forall b off n, r = RAlloc b off n -> option_map vdata (get_b st' b) = option_map vdata (get_b st b)) ->
  view_r st' r = view_r st r.
Proof.
  intros Hs Hb. destruct r as [d|s off n|b off n]; cbn [view_r].
  - reflexivity.
  - rewrite (Hs _ _ _ eq_refl). reflexivity.
  - specialize (Hb _ _ _ eq_refl). destruct (get_b st' b), (get_b st b); cbn [option_map] in Hb; congruence.
Qed.

Lemma view_r_set_hs st x r : view_r (set_hs st x) r = view_r st r.
Proof. destruct r; reflexivity. Qed.
Lemma view_r_set_h st h x r : view_r (set_h st h x) r = view_r st r.
Proof. destruct r; reflexivity. Qed.

(** views of other blocks do not see an update of block [b] *)
Lemma view_r_set_b_other st b v r : pt b r = 0 -> view_r (set_b st b v) r = view_r st r.
Proof.
  intros H. apply view_r_ext; [reflexivity|]. intros b' off n ->. unfold pt in H.
  destruct (N.eqb_spec b' b) as [|Hne]; [discriminate|].
  unfold get_b. sproj. rewrite nthN_upd_neq by congruence. reflexivity.
Qed.

(** ** abs *)
Definition hview (st : state) (hd : handle) : list N := view_r st (hrepr hd).

Lemma abs_eq st : abs st = map (option_map (hview st)) (hs st).
Proof. reflexivity. Qed.

Lemma abs_len st : len (abs st) = len (hs st).
Proof. unfold abs, len. now rewrite map_length. Qed.

Lemma sget_abs st h : sget (abs st) h = option_map (hview st) (get_h st h).
Proof. unfold sget, get_h. rewrite abs_eq. apply nthN_map. Qed.

Lemma abs_same st st1 :
  hs st1 = hs st ->
  (forall i hi, get_h st i = Some hi -> view_r st1 (hrepr hi) = view_r st (hrepr hi)) ->
  abs st1 = abs st.
Proof.
  intros Hh Hv. rewrite !abs_eq, Hh. apply map_ext_in. intros [hi|] Hin; [|reflexivity].
  cbn [option_map]. f_equal. destruct (In_nth_error _ _ Hin) as [j Hj].
  apply (Hv (N.of_nat j)). unfold get_h. apply nthN_of_nat. exact Hj.
Qed.

Lemma abs_new st st1 hd :
  hs st1 = hs st ++ [Some hd] ->
  (forall i hi, get_h st i = Some hi -> view_r st1 (hrepr hi) = view_r st (hrepr hi)) ->
  abs st1 = abs st ++ [Some (view_r st1 (hrepr hd))].
Proof.
  intros Hh Hv. rewrite !abs_eq, Hh, map_app. cbn [map option_map]. f_equal.
  apply map_ext_in. intros [hi|] Hin; [|reflexivity].
  cbn [option_map]. f_equal. destruct (In_nth_error _ _ Hin) as [j Hj].
  apply (Hv (N.of_nat j)). unfold get_h. apply nthN_of_nat. exact Hj.
Qed.

Lemma abs_upd st st1 h x :
  hs st1 = upd (hs st) (N.to_nat h) x ->
  (forall i hi, i <> h -> get_h st i = Some hi -> view_r st1 (hrepr hi) = view_r st (hrepr hi)) ->
  abs st1 = sset (abs st) h (option_map (hview st1) x).
Proof.
  intros Hh Hv. unfold sset. rewrite !abs_eq, Hh, map_upd. apply upd_map_ext.
  intros j [hi|] Hne Hj; [|reflexivity]. cbn [option_map]. f_equal.
  apply (Hv (N.of_nat j)); [lia|]. unfold get_h. apply nthN_of_nat. exact Hj.
Qed.

(** abs of the two handle-pool primitives when no view changes *)
Lemma abs_set_h st h x : abs (set_h st h x) = sset (abs st) h (option_map (hview st) x).
Proof.
  rewrite (abs_upd st (set_h st h x) h x); [|reflexivity|intros; apply view_r_set_h].
  destruct x; reflexivity.
Qed.

Lemma abs_new_h st hd : abs (fst (new_h st hd)) = abs st ++ [Some (hview st hd)].
Proof.
  unfold new_h. cbn [fst]. rewrite (abs_new st _ hd); [|reflexivity|intros; apply view_r_set_hs].
  unfold hview. rewrite view_r_set_hs. reflexivity.
Qed.

Lemma sset_same sp h v : sget sp h = Some v -> sset sp h (Some v) = sp.
Proof. intros H. unfold sset. apply upd_same. apply nthN_nth_error. exact H. Qed.

Lemma sset_none_oob sp h x : sget sp h = None -> len sp <= h -> sset sp h x = sp.
Proof. intros _ H. unfold sset. apply upd_oob. unfold len in H. lia. Qed.
