(** * VecModel: slot-level executable model of InlineVec and ThinVec (C13 C14 C15).

    Elements are identities ([N]) with a value; a vector is a list of slots
    ([U]ninitialised or [E id]) of length = capacity, and a length.  Every
    method of src/vecs/inline.rs, src/vecs/thin.rs, src/common/drain.rs is
    written as the code's sequence of micro-steps (slot writes, length
    updates, user callbacks); the ORDER of those steps is the content of the
    model.  User code (Clone, Drop, iterator next, closures) runs through
    callback primitives that (a) log an event, (b) may panic when the running
    callback counter reaches the position [pan] chosen by the environment.
    Undefined behaviour (drop or read of an uninitialised slot, double drop,
    write outside the buffer) sets the sticky flag [badw]. *)
From Hip Require Import Base Range.

Inductive slot := U | E (id : N).

Inductive ev :=
| EvClone (src new : N) | EvDrop (id : N) | EvNext (new : N) | EvPred (id : N) (r : bool) | EvMake (new : N) | EvPanic.

Record world := mkW {
  live : list N;          (* identities created and not yet dropped *)
  vals : list N;          (* value of identity i *)
  cbs : N;                (* user callbacks run so far *)
  pan : option N;         (* the callback (0-based) that panics, if any *)
  log : list ev;          (* newest first *)
  badw : bool;
  wa : N; wf : N; wr_ : N; (* allocator events: alloc, free, realloc *)
  unw : bool              (* the current operation is unwinding: user code that panics now would abort the process, so the
                             environment's panic position is not allowed to fire (the harness does the same) *)
}.

Definition w0 (p : option N) : world := mkW [] [] 0 p [] false 0 0 0 false.

Inductive res (A : Type) : Type := Done (a : A) (w : world) | Pan (w : world).
Arguments Done {A} a w.
Arguments Pan {A} w.

Definition bindr {A B} (r : res A) (f : A -> world -> res B) : res B :=
  match r with Done a w => f a w | Pan w => Pan w end.

Definition set_badw (w : world) : world := mkW (live w) (vals w) (cbs w) (pan w) (log w) true (wa w) (wf w) (wr_ w) (unw w).
Definition set_unw (w : world) (b : bool) : world := mkW (live w) (vals w) (cbs w) (pan w) (log w) (badw w) (wa w) (wf w) (wr_ w) b.
Definition add_log (w : world) (e : ev) : world := mkW (live w) (vals w) (cbs w) (pan w) (e :: log w) (badw w) (wa w) (wf w) (wr_ w) (unw w).
Definition ev_alloc (w : world) : world := mkW (live w) (vals w) (cbs w) (pan w) (log w) (badw w) (wa w + 1) (wf w) (wr_ w) (unw w).
Definition ev_free (w : world) : world := mkW (live w) (vals w) (cbs w) (pan w) (log w) (badw w) (wa w) (wf w + 1) (wr_ w) (unw w).
Definition ev_realloc (w : world) : world := mkW (live w) (vals w) (cbs w) (pan w) (log w) (badw w) (wa w) (wf w) (wr_ w + 1) (unw w).

(** one callback: returns the world with the counter bumped, and whether this callback panics *)
Definition tick (w : world) : world * bool :=
  (mkW (live w) (vals w) (cbs w + 1) (pan w) (log w) (badw w) (wa w) (wf w) (wr_ w) (unw w),
   match pan w with Some k => (k =? cbs w) && negb (unw w) | None => false end).

(** a new identity with value [v] (no callback: e.g. a value built by the caller) *)
Definition fresh (w : world) (v : N) : N * world :=
  let id := len (vals w) in
  (id, mkW (id :: live w) (vals w ++ [v]) (cbs w) (pan w) (log w) (badw w) (wa w) (wf w) (wr_ w) (unw w)).

(** identities at or above this bound are immortal sources owned by the caller (never dropped during a case); their value is id - SRC_BASE *)
Definition SRC_BASE : N := 1000000.
Definition val_of (w : world) (id : N) : N := if SRC_BASE <=? id then id - SRC_BASE else nth (N.to_nat id) (vals w) 0.

Fixpoint remove1 (x : N) (l : list N) : list N :=
  match l with [] => [] | y :: r => if y =? x then r else y :: remove1 x r end.
Fixpoint mem (x : N) (l : list N) : bool :=
  match l with [] => false | y :: r => (y =? x) || mem x r end.

Definition cb_clone (w : world) (src : N) (v : N) : res N :=
  let '(w1, p) := tick w in
  if p then Pan (set_unw (add_log w1 EvPanic) true)
  else let '(id, w2) := fresh w1 v in Done id (add_log w2 (EvClone src id)).

(** run the destructor of identity [id]: it is unregistered, then the user's Drop may panic *)
Definition cb_drop (w : world) (id : N) : res unit :=
  let '(w1, p) := tick w in
  let w2 := if mem id (live w1) then w1 else set_badw w1 in      (* double drop / drop of garbage *)
  let w3 := mkW (remove1 id (live w2)) (vals w2) (cbs w2) (pan w2) (EvDrop id :: log w2) (badw w2) (wa w2) (wf w2) (wr_ w2) (unw w2) in
  if p then Pan (set_unw (add_log w3 EvPanic) true) else Done tt w3.

Definition cb_next (w : world) (v : N) : res N :=
  let '(w1, p) := tick w in
  if p then Pan (set_unw (add_log w1 EvPanic) true)
  else let '(id, w2) := fresh w1 v in Done id (add_log w2 (EvNext id)).

Definition cb_make (w : world) (v : N) : res N :=
  let '(w1, p) := tick w in
  if p then Pan (set_unw (add_log w1 EvPanic) true)
  else let '(id, w2) := fresh w1 v in Done id (add_log w2 (EvMake id)).

Definition cb_pred (w : world) (id : N) (r : bool) : res bool :=
  let '(w1, p) := tick w in
  if p then Pan (set_unw (add_log w1 EvPanic) true) else Done r (add_log w1 (EvPred id r)).

(** ** vectors *)
Local Open Scope nat_scope.
Record vec := mkV { slots : list slot; vlen : nat }.
Definition vcapn (v : vec) : nat := length (slots v).

Fixpoint updn {A} (l : list A) (i : nat) (x : A) : list A :=
  match l, i with
  | [], _ => []
  | _ :: r, O => x :: r
  | y :: r, S i' => y :: updn r i' x
  end.

Definition rd (v : vec) (i : nat) : slot := nth i (slots v) U.
(** a write outside the buffer is undefined behaviour *)
Definition wr (w : world) (v : vec) (i : nat) (s : slot) : world * vec :=
  if Nat.ltb i (vcapn v) then (w, mkV (updn (slots v) i s) (vlen v)) else (set_badw w, v).
Definition setlen (w : world) (v : vec) (n : nat) : world * vec :=
  if Nat.leb n (vcapn v) then (w, mkV (slots v) n) else (set_badw w, mkV (slots v) n).

(** move the element out of slot [i]: reading an uninitialised slot is undefined behaviour *)
Definition take_slot (w : world) (v : vec) (i : nat) : world * N :=
  match rd v i with E id => (w, id) | U => (set_badw w, 0%N) end.

(** copy [n] slots from [src] at [si] to [dst] at [di] (memmove semantics: the source range is read first) *)
Fixpoint slots_from (v : vec) (i n : nat) : list slot :=
  match n with O => [] | S n' => rd v i :: slots_from v (S i) n' end.
Fixpoint write_slots (w : world) (v : vec) (i : nat) (l : list slot) : world * vec :=
  match l with
  | [] => (w, v)
  | s :: r => let '(w1, v1) := wr w v i s in write_slots w1 v1 (S i) r
  end.

Inductive dstyle := Stop | Continue.

(** drop slots [i, i+n).  [Stop]: a for-loop of assume_init_drop (a panic ends the loop);
    [Continue]: ptr::drop_in_place on a slice (the remaining elements are still dropped, then the panic resumes). *)
Fixpoint drop_slots (st : dstyle) (w : world) (l : list slot) (panicked : bool) : res unit :=
  match l with
  | [] => if panicked then Pan w else Done tt w
  | s :: r =>
    match s with
    | U => drop_slots st (set_badw w) r panicked
    | E id =>
      match cb_drop w id with
      | Done _ w1 => drop_slots st w1 r panicked
      | Pan w1 => match st with Stop => Pan w1 | Continue => drop_slots st w1 r true end
      end
    end
  end.
Definition drop_range (st : dstyle) (w : world) (v : vec) (i n : nat) : res unit := drop_slots st w (slots_from v i n) false.

(** ** the two kinds *)
Inductive kind := KInline (cap : nat) | KThin.
Definition THIN_MIN : nat := 2.        (* MINIMAL_CAPACITY for 16-byte elements: 32 / 16 *)

Definition new_vec (cap : nat) : vec := mkV (repeat U cap) O.

(** ThinVec::set_capacity for a 16-byte element (layout differs iff the capacity differs) *)
Definition set_cap (w : world) (v : vec) (c : nat) : world * vec :=
  if Nat.eqb c (vcapn v) then (w, v)
  else (ev_realloc w, mkV (firstn c (slots v) ++ repeat U (c - vcapn v)) (vlen v)).
Definition thin_reserve (w : world) (v : vec) (add : nat) : world * vec :=
  if Nat.ltb (vcapn v - vlen v) add then set_cap w v (Nat.max (vlen v + add) (vcapn v * 2)) else (w, v).
Definition thin_reserve_exact (w : world) (v : vec) (add : nat) : world * vec :=
  if Nat.ltb (vcapn v - vlen v) add then set_cap w v (vlen v + add) else (w, v).
Definition thin_with_capacity (w : world) (c : nat) : world * vec := (ev_alloc w, new_vec (Nat.max c THIN_MIN)).

(** dropping a whole vector *)
Definition drop_vec (k : kind) (w : world) (v : vec) : res unit :=
  match k with
  | KInline _ => drop_range Stop w v 0 (vlen v)
  | KThin =>
    match drop_range Continue w v 0 (vlen v) with
    | Done _ w1 => Done tt (ev_free w1)
    | Pan w1 => Pan w1          (* the panic leaves Drop before dealloc: the buffer leaks *)
    end
  end.

(** ** state of a case *)
Record vstate := mkVS { wd : world; pool : list (option vec); handed : list N }.

Inductive vout :=
| VUnit | VNewV (v : N) | VNone | VItem (id : N) | VItems (ids : list N) | VRejected (id : N) (full : bool)
| VRangeErr | VPanicked | VSkip.

Inductive vop :=
| XNew | XWithCap (c : nat) | XFromSlice (srcs : list N) | XFromIter (vs : list N) (hint : nat)
| XPush (v : N) (x : N) | XTryPush (v : N) (x : N) | XPop (v : N) | XPopIf (v : N) (r : bool)
| XInsert (v : N) (i : nat) (x : N) | XTryInsert (v : N) (i : nat) (x : N) | XRemove (v : N) (i : nat) | XSwapRemove (v : N) (i : nat)
| XTruncate (v : N) (n : nat) | XClear (v : N) | XResize (v : N) (n : nat) (x : N) | XResizeWith (v : N) (n : nat) (x : N)
| XExtendFromSlice (v : N) (srcs : list N) | XExtendFromWithin (v : N) (s e : bound) | XExtendIter (v : N) (vs : list N) (hint : nat)
| XAppend (v : N) (o : N) | XSplitOff (v : N) (at_ : nat)
| XDrain (v : N) (s e : bound) (front back : nat) (forget : bool)
| XIntoIter (v : N) (front back : nat) | XCloneV (v : N)
| XReserve (v : N) (n : nat) | XReserveExact (v : N) (n : nat) | XShrinkTo (v : N) (n : nat) | XShrinkToFit (v : N)
| XDropV (v : N).

Definition getv (s : vstate) (i : N) : option vec :=
  match nth_error (pool s) (N.to_nat i) with Some (Some v) => Some v | _ => None end.
Definition setv (s : vstate) (i : N) (v : option vec) (w : world) : vstate := mkVS w (updn (pool s) (N.to_nat i) v) (handed s).
Definition addv (s : vstate) (v : vec) (w : world) : vstate * N := (mkVS w (pool s ++ [Some v]) (handed s), len (pool s)).
Definition hand (s : vstate) (ids : list N) : vstate := mkVS (wd s) (pool s) (handed s ++ ids).
Definition setw (s : vstate) (w : world) : vstate := mkVS w (pool s) (handed s).

(** clone the identities [ids] into slots [i..] bumping the length after each write (extend_from_slice of InlineVec,
    extend_from_within of both) *)
Fixpoint clone_into_bump (w : world) (v : vec) (i : nat) (ids : list N) : res vec :=
  match ids with
  | [] => Done v w
  | id :: r =>
    match cb_clone w id (val_of w id) with
    | Pan w1 => Pan w1                                   (* the caller keeps [v] as it is: see the op *)
    | Done nid w1 =>
      let '(w2, v2) := wr w1 v i (E nid) in
      let '(w3, v3) := setlen w2 v2 (S i) in
      clone_into_bump w3 v3 (S i) r
    end
  end.
(** the same, but returning the vector as it stands when the panic happens *)
Fixpoint clone_into_bump' (w : world) (v : vec) (i : nat) (ids : list N) : world * vec * bool :=
  match ids with
  | [] => (w, v, false)
  | id :: r =>
    match cb_clone w id (val_of w id) with
    | Pan w1 => (w1, v, true)
    | Done nid w1 =>
      let '(w2, v2) := wr w1 v i (E nid) in
      let '(w3, v3) := setlen w2 v2 (S i) in
      clone_into_bump' w3 v3 (S i) r
    end
  end.

(** guarded_slice_clone: write clones into [i..] without touching the length; on a panic the guard drops what was written *)
Fixpoint guarded_clone (w : world) (v : vec) (i0 i : nat) (ids : list N) : world * vec * bool :=
  match ids with
  | [] => (w, v, false)
  | id :: r =>
    match cb_clone w id (val_of w id) with
    | Pan w1 =>
      (* SliceGuard::drop: drop_in_place of the initialised prefix *)
      match drop_range Continue w1 v i0 (i - i0) with Done _ w2 => (w2, v, true) | Pan w2 => (w2, v, true) end
    | Done nid w1 => let '(w2, v2) := wr w1 v i (E nid) in guarded_clone w2 v2 i0 (S i) r
    end
  end.

(** items produced by an iterator one at a time; [f] stores item number [j] *)
Fixpoint iter_loop (w : world) (v : vec) (j : nat) (vs : list N)
         (f : world -> vec -> nat -> N -> world * vec * bool) : world * vec * bool :=
  match vs with
  | [] => (w, v, false)
  | x :: r =>
    match cb_next w x with
    | Pan w1 => (w1, v, true)
    | Done id w1 =>
      let '(w2, v2, p) := f w1 v j id in
      if p then (w2, v2, true) else iter_loop w2 v2 (S j) r f
    end
  end.

Definition idents (l : list slot) : list N := flat_map (fun s => match s with E id => [id] | U => [] end) l.
Definition elems (v : vec) : list N := idents (firstn (vlen v) (slots v)).

(** InlineVec::push / try_push core *)
Definition inline_try_push (w : world) (v : vec) (id : N) : world * vec * bool :=
  if Nat.ltb (vlen v) (vcapn v)
  then let '(w1, v1) := wr w v (vlen v) (E id) in let '(w2, v2) := setlen w1 v1 (S (vlen v)) in (w2, v2, true)
  else (w, v, false).
(** push: on a full vector the rejected value is dropped, then the call panics *)
Definition inline_push (w : world) (v : vec) (id : N) : world * vec * bool (* panicked *) :=
  let '(w1, v1, ok) := inline_try_push w v id in
  if ok then (w1, v1, false)
  else match cb_drop w1 id with Done _ w2 => (set_unw w2 true, v1, true) | Pan w2 => (w2, v1, true) end.

Definition thin_push (w : world) (v : vec) (id : N) : world * vec :=
  let '(w1, v1) := thin_reserve w v 1 in
  let '(w2, v2) := wr w1 v1 (vlen v1) (E id) in
  setlen w2 v2 (S (vlen v2)).

(** Drain: consumption script then drop/forget.  The vector's length is already [start]. *)
Definition drain_finish (w : world) (v : vec) (lo hi : nat) (tail_start tail_len : nat) (forget : bool) : world * vec * bool :=
  if forget then (w, v, false)
  else
    match drop_range Continue w v lo (hi - lo) with
    | Pan w1 => (w1, v, true)
    | Done _ w1 =>
      let start := vlen v in
      let '(w2, v2) := write_slots w1 v start (slots_from v tail_start tail_len) in
      let '(w3, v3) := setlen w2 v2 (start + tail_len) in
      (w3, v3, false)
    end.

Fixpoint take_ids (w : world) (v : vec) (i n : nat) : world * list N :=
  match n with
  | O => (w, [])
  | S n' => let '(w1, id) := take_slot w v i in let '(w2, r) := take_ids w1 v (S i) n' in (w2, id :: r)
  end.
Fixpoint take_ids_back (w : world) (v : vec) (i n : nat) : world * list N :=   (* slots i-1, i-2, … *)
  match n with
  | O => (w, [])
  | S n' => let '(w1, id) := take_slot w v (i - 1) in let '(w2, r) := take_ids_back w1 v (i - 1) n' in (w2, id :: r)
  end.

Definition to_range (s e : bound) (l : nat) : option (nat * nat) :=
  match range_mono s e (N.of_nat l) with ROk (a, b) => Some (N.to_nat a, N.to_nat b) | RErr _ => None end.

(** ** one operation *)
Definition vstep_core (k : kind) (s : vstate) (o : vop) : vstate * vout :=
  let w := wd s in
  let with_v i (f : vec -> vstate * vout) := match getv s i with Some v => f v | None => (s, VSkip) end in
  let is_thin := match k with KThin => true | _ => false end in
  let capk := match k with KInline c => c | KThin => O end in
  match o with
  | XNew =>
    match k with
    | KInline c => let '(s1, i) := addv s (new_vec c) w in (s1, VNewV i)
    | KThin => let '(w1, v) := thin_with_capacity w THIN_MIN in let '(s1, i) := addv s v w1 in (s1, VNewV i)
    end
  | XWithCap c =>
    match k with
    | KInline _ => (s, VSkip)
    | KThin => let '(w1, v) := thin_with_capacity w c in let '(s1, i) := addv s v w1 in (s1, VNewV i)
    end
  | XFromSlice srcs =>
    match k with
    | KInline c =>
      if Nat.ltb c (length srcs) then (s, VPanicked)
      else
        let '(w1, v1, p) := clone_into_bump' w (new_vec c) 0 srcs in
        if p then (match drop_vec k w1 v1 with Done _ w2 => setw s w2 | Pan w2 => setw s w2 end, VPanicked)
        else let '(s1, i) := addv s v1 w1 in (s1, VNewV i)
    | KThin =>
      let '(w0', v0) := thin_with_capacity w (length srcs) in
      let '(w1, v1, p) := guarded_clone w0' v0 0 0 srcs in
      if p then (match drop_vec k w1 v1 with Done _ w2 => setw s w2 | Pan w2 => setw s w2 end, VPanicked)
      else let '(w2, v2) := setlen w1 v1 (length srcs) in let '(s1, i) := addv s v2 w2 in (s1, VNewV i)
    end
  | XFromIter vs hint =>
    match k with
    | KInline c =>
      if Nat.ltb c hint then (s, VPanicked)
      else
        let '(w1, v1, p) := iter_loop w (new_vec c) 0 vs (fun w v _ id => inline_push w v id) in
        if p then (match drop_vec k w1 v1 with Done _ w2 => setw s w2 | Pan w2 => setw s w2 end, VPanicked)
        else let '(s1, i) := addv s v1 w1 in (s1, VNewV i)
    | KThin =>
      let '(w0', v0) := thin_with_capacity w hint in
      let '(w1, v1, p) := iter_loop w0' v0 0 vs (fun w v j id =>
          let '(wa', va) := if Nat.leb hint j then thin_reserve w v 1 else (w, v) in
          let '(wb, vb) := wr wa' va j (E id) in
          let '(wc, vc) := setlen wb vb (S j) in (wc, vc, false)) in
      if p then (match drop_vec k w1 v1 with Done _ w2 => setw s w2 | Pan w2 => setw s w2 end, VPanicked)
      else let '(s1, i) := addv s v1 w1 in (s1, VNewV i)
    end
  | XPush vi x => with_v vi (fun v =>
      let '(id, w1) := fresh w x in
      match k with
      | KInline _ => let '(w2, v2, p) := inline_push w1 v id in (setv s vi (Some v2) w2, if p then VPanicked else VUnit)
      | KThin => let '(w2, v2) := thin_push w1 v id in (setv s vi (Some v2) w2, VUnit)
      end)
  | XTryPush vi x => with_v vi (fun v =>
      match k with
      | KThin => (s, VSkip)
      | KInline _ =>
        let '(id, w1) := fresh w x in
        let '(w2, v2, ok) := inline_try_push w1 v id in
        if ok then (setv s vi (Some v2) w2, VUnit) else (hand (setv s vi (Some v2) w2) [id], VRejected id true)
      end)
  | XPop vi => with_v vi (fun v =>
      match vlen v with
      | O => (s, VNone)
      | S n => let '(w1, id) := take_slot w v n in
               let '(w2, v2) := setlen w1 v n in (hand (setv s vi (Some v2) w2) [id], VItem id)
      end)
  | XPopIf vi r => with_v vi (fun v =>
      match k with
      | KThin => (s, VSkip)
      | KInline _ =>
        match vlen v with
        | O => (s, VNone)
        | S n =>
          let '(w1, id) := take_slot w v n in
          match cb_pred w1 id r with
          | Pan w2 => (setw s w2, VPanicked)
          | Done true w2 => let '(w3, v3) := setlen w2 v n in (hand (setv s vi (Some v3) w3) [id], VItem id)
          | Done false w2 => (setw s w2, VNone)
          end
        end
      end)
  | XInsert vi i x => with_v vi (fun v =>
      let '(id, w1) := fresh w x in
      let n := vlen v in
      let reject := match cb_drop (set_unw w1 true) id with Done _ w2 => (setw s w2, VPanicked) | Pan w2 => (setw s w2, VPanicked) end in
      if Nat.ltb n i then reject
      else match k with
           | KInline c =>
             if Nat.eqb n c then reject
             else
               let '(w2, v2) := write_slots w1 v (S i) (slots_from v i (n - i)) in
               let '(w3, v3) := wr w2 v2 i (E id) in
               let '(w4, v4) := setlen w3 v3 (S n) in (setv s vi (Some v4) w4, VUnit)
           | KThin =>
             let '(w1', v1) := thin_reserve w1 v 1 in
             let '(w2, v2) := write_slots w1' v1 (S i) (slots_from v1 i (n - i)) in
             let '(w3, v3) := wr w2 v2 i (E id) in
             let '(w4, v4) := setlen w3 v3 (S n) in (setv s vi (Some v4) w4, VUnit)
           end)
  | XTryInsert vi i x => with_v vi (fun v =>
      match k with
      | KThin => (s, VSkip)
      | KInline c =>
        let '(id, w1) := fresh w x in
        let n := vlen v in
        if Nat.ltb n i then (hand (setw s w1) [id], VRejected id false)
        else if Nat.eqb n c then (hand (setw s w1) [id], VRejected id true)
        else
          let '(w2, v2) := write_slots w1 v (S i) (slots_from v i (n - i)) in
          let '(w3, v3) := wr w2 v2 i (E id) in
          let '(w4, v4) := setlen w3 v3 (S n) in (setv s vi (Some v4) w4, VUnit)
      end)
  | XRemove vi i => with_v vi (fun v =>
      let n := vlen v in
      if Nat.ltb i n then
        let '(w1, id) := take_slot w v i in
        let '(w2, v2) := write_slots w1 v i (slots_from v (S i) (n - i - 1)) in
        let '(w3, v3) := setlen w2 v2 (n - 1) in (hand (setv s vi (Some v3) w3) [id], VItem id)
      else (s, VPanicked))
  | XSwapRemove vi i => with_v vi (fun v =>
      let n := vlen v in
      if Nat.ltb i n then
        let '(w1, id) := take_slot w v i in
        match k with
        | KInline _ =>
          (* data.swap(index, len - 1); set_len(len - 1); read data[len - 1] *)
          let '(w2, v2) := wr w1 v i (rd v (n - 1)) in
          let '(w3, v3) := wr w2 v2 (n - 1) (E id) in
          let '(w4, v4) := setlen w3 v3 (n - 1) in (hand (setv s vi (Some v4) w4) [id], VItem id)
        | KThin =>
          let '(w2, v2) := wr w1 v i (rd v (n - 1)) in
          let '(w3, v3) := setlen w2 v2 (n - 1) in (hand (setv s vi (Some v3) w3) [id], VItem id)
        end
      else (s, VPanicked))
  | XTruncate vi m => with_v vi (fun v =>
      let n := vlen v in
      match k with
      | KInline _ =>
        if Nat.ltb m n then
          let '(w1, v1) := setlen w v m in
          match drop_range Stop w1 v1 m (n - m) with
          | Done _ w2 => (setv s vi (Some v1) w2, VUnit)
          | Pan w2 => (setv s vi (Some v1) w2, VPanicked)
          end
        else (s, VUnit)
      | KThin =>
        if Nat.ltb n m then (s, VUnit)
        else
          let '(w1, v1) := setlen w v m in
          match drop_range Continue w1 v1 m (n - m) with
          | Done _ w2 => (setv s vi (Some v1) w2, VUnit)
          | Pan w2 => (setv s vi (Some v1) w2, VPanicked)
          end
      end)
  | XClear vi => with_v vi (fun v =>
      let n := vlen v in
      match k with
      | KInline _ =>
        if Nat.ltb O n then
          let '(w1, v1) := setlen w v 0 in
          match drop_range Stop w1 v1 0 n with
          | Done _ w2 => (setv s vi (Some v1) w2, VUnit)
          | Pan w2 => (setv s vi (Some v1) w2, VPanicked)
          end
        else (s, VUnit)
      | KThin =>
        let '(w1, v1) := setlen w v 0 in
        match drop_range Continue w1 v1 0 n with
        | Done _ w2 => (setv s vi (Some v1) w2, VUnit)
        | Pan w2 => (setv s vi (Some v1) w2, VPanicked)
        end
      end)
  | XResize vi m x => with_v vi (fun v =>
      let '(id, w1) := fresh w x in
      let n := vlen v in
      (* the value passed by the caller is dropped when the call returns or unwinds, unless it was moved into the vector *)
      let drop_value (w : world) (v : vec) (panicked : bool) :=
        match cb_drop (if panicked then set_unw w true else w) id with
        | Done _ w2 => (setv s vi (Some v) w2, if panicked then VPanicked else VUnit)
        | Pan w2 => (setv s vi (Some v) w2, VPanicked)
        end in
      match k with
      | KInline c =>
        if Nat.ltb n m then
          if Nat.ltb c m then drop_value w1 v true
          else
            let '(w2, v2, p) := clone_into_bump' w1 v n (repeat id (m - n)) in
            drop_value w2 v2 p
        else
          let '(w2, v2) := if Nat.ltb m n then setlen w1 v m else (w1, v) in
          match (if Nat.ltb m n then drop_range Stop w2 v2 m (n - m) else Done tt w2) with
          | Done _ w3 => drop_value w3 v2 false
          | Pan w3 => drop_value w3 v2 true
          end
      | KThin =>
        if Nat.ltb n m then
          (* extend_clone: reserve, then slots in increasing order, the moved value last *)
          let '(w2, v2) := thin_reserve w1 v (m - n) in
          let '(w3, v3, p) := clone_into_bump' w2 v2 n (repeat id (m - n - 1)) in
          if p then drop_value w3 v3 true
          else
            let '(w4, v4) := wr w3 v3 (m - 1) (E id) in
            let '(w5, v5) := setlen w4 v4 m in (setv s vi (Some v5) w5, VUnit)
        else
          let '(w2, v2) := setlen w1 v m in
          match drop_range Continue w2 v2 m (n - m) with
          | Done _ w3 => drop_value w3 v2 false
          | Pan w3 => drop_value w3 v2 true
          end
      end)
  | XResizeWith vi m x => with_v vi (fun v =>
      match k with
      | KThin => (s, VSkip)
      | KInline c =>
        let n := vlen v in
        if Nat.ltb n m then
          if Nat.ltb c m then (s, VPanicked)
          else
            let fix go (w : world) (v : vec) (i : nat) (cnt : nat) : world * vec * bool :=
              match cnt with
              | O => (w, v, false)
              | S cnt' =>
                match cb_make w x with
                | Pan w1 => (w1, v, true)
                | Done id w1 =>
                  let '(w2, v2) := wr w1 v i (E id) in
                  let '(w3, v3) := setlen w2 v2 (S i) in go w3 v3 (S i) cnt'
                end
              end in
            let '(w1, v1, p) := go w v n (m - n) in (setv s vi (Some v1) w1, if p then VPanicked else VUnit)
        else if Nat.ltb m n then
          let '(w1, v1) := setlen w v m in
          match drop_range Stop w1 v1 m (n - m) with
          | Done _ w2 => (setv s vi (Some v1) w2, VUnit)
          | Pan w2 => (setv s vi (Some v1) w2, VPanicked)
          end
        else (s, VUnit)
      end)
  | XExtendFromSlice vi srcs => with_v vi (fun v =>
      let n := vlen v in
      match k with
      | KInline c =>
        if Nat.ltb c (n + length srcs) then (s, VPanicked)
        else let '(w1, v1, p) := clone_into_bump' w v n srcs in (setv s vi (Some v1) w1, if p then VPanicked else VUnit)
      | KThin =>
        let '(w1, v1) := thin_reserve w v (length srcs) in
        let '(w2, v2, p) := guarded_clone w1 v1 n n srcs in
        if p then (setv s vi (Some v2) w2, VPanicked)
        else let '(w3, v3) := setlen w2 v2 (n + length srcs) in (setv s vi (Some v3) w3, VUnit)
      end)
  | XExtendFromWithin vi b1 b2 => with_v vi (fun v =>
      let n := vlen v in
      match to_range b1 b2 n with
      | None => (s, VRangeErr)
      | Some (a, b) =>
        let ids := idents (slots_from v a (b - a)) in
        match k with
        | KInline c =>
          if Nat.ltb c (n + (b - a)) then (s, VPanicked)
          else let '(w1, v1, p) := clone_into_bump' w v n ids in (setv s vi (Some v1) w1, if p then VPanicked else VUnit)
        | KThin =>
          let '(w1, v1) := thin_reserve w v (b - a) in
          let '(w2, v2, p) := clone_into_bump' w1 v1 n ids in (setv s vi (Some v2) w2, if p then VPanicked else VUnit)
        end
      end)
  | XExtendIter vi vs hint => with_v vi (fun v =>
      let n := vlen v in
      match k with
      | KInline _ =>
        let '(w1, v1, p) := iter_loop w v 0 vs (fun w v _ id => inline_push w v id) in
        (setv s vi (Some v1) w1, if p then VPanicked else VUnit)
      | KThin =>
        let '(w0', v0) := thin_reserve w v hint in
        let '(w1, v1, p) := iter_loop w0' v0 0 vs (fun w v j id =>
            let '(wa', va) := if Nat.leb hint j then thin_reserve w v 1 else (w, v) in
            let '(wb, vb) := wr wa' va (n + j) (E id) in
            let '(wc, vc) := setlen wb vb (S (n + j)) in (wc, vc, false)) in
        (setv s vi (Some v1) w1, if p then VPanicked else VUnit)
      end)
  | XAppend vi oi => with_v vi (fun v =>
      if N.eqb vi oi then (s, VSkip) else
      match getv s oi with
      | None => (s, VSkip)
      | Some ov =>
        let n := vlen v in let m := vlen ov in
        let go (w : world) (v : vec) :=
          let '(w2, v2) := write_slots w v n (slots_from ov 0 m) in
          let '(w3, v3) := setlen w2 v2 (n + m) in
          let '(w4, ov4) := setlen w3 ov 0 in
          (setv (setv s vi (Some v3) w4) oi (Some ov4) w4, VUnit) in
        match k with
        | KInline c => if Nat.ltb c (n + m) then (s, VPanicked) else go w v
        | KThin => let '(w1, v1) := thin_reserve w v m in go w1 v1
        end
      end)
  | XSplitOff vi at_ => with_v vi (fun v =>
      let n := vlen v in
      if Nat.ltb n at_ then (s, VPanicked)
      else
        let '(w0', other) := match k with KInline c => (w, new_vec c) | KThin => thin_with_capacity w (n - at_) end in
        let '(w1, o1) := write_slots w0' other 0 (slots_from v at_ (n - at_)) in
        let '(w2, v2) := setlen w1 v at_ in
        let '(w3, o3) := setlen w2 o1 (n - at_) in
        let '(s1, i) := addv (setv s vi (Some v2) w3) o3 w3 in (s1, VNewV i))
  | XDrain vi b1 b2 front back forget => with_v vi (fun v =>
      let n := vlen v in
      match to_range b1 b2 n with
      | None => (s, VRangeErr)
      | Some (a, b) =>
        let '(w1, v1) := setlen w v a in
        let f := Nat.min front (b - a) in
        let bk := Nat.min back (b - a - f) in
        let '(w2, ids1) := take_ids w1 v1 a f in
        let '(w3, ids2) := take_ids_back w2 v1 b bk in
        let '(w4, v4, p) := drain_finish w3 v1 (a + f) (b - bk) b (n - b) forget in
        (hand (setv s vi (Some v4) w4) (ids1 ++ ids2), if p then VPanicked else VItems (ids1 ++ ids2))
      end)
  | XIntoIter vi front back => with_v vi (fun v =>
      match k with
      | KThin => (s, VSkip)
      | KInline _ =>
        let n := vlen v in
        let f := Nat.min front n in
        let bk := Nat.min back (n - f) in
        let '(w2, ids1) := take_ids w v 0 f in
        let '(w3, ids2) := take_ids_back w2 v n bk in
        match drop_range Stop w3 v f (n - bk - f) with
        | Done _ w4 => (hand (setv s vi None w4) (ids1 ++ ids2), VItems (ids1 ++ ids2))
        | Pan w4 => (hand (setv s vi None w4) (ids1 ++ ids2), VPanicked)
        end
      end)
  | XCloneV vi => with_v vi (fun v =>
      match k with
      | KThin => (s, VSkip)
      | KInline c =>
        let '(w1, v1, p) := clone_into_bump' w (new_vec c) 0 (elems v) in
        if p then (match drop_vec k w1 v1 with Done _ w2 => setw s w2 | Pan w2 => setw s w2 end, VPanicked)
        else let '(s1, i) := addv s v1 w1 in (s1, VNewV i)
      end)
  | XReserve vi m => with_v vi (fun v =>
      match k with KInline _ => (s, VSkip) | KThin => let '(w1, v1) := thin_reserve w v m in (setv s vi (Some v1) w1, VUnit) end)
  | XReserveExact vi m => with_v vi (fun v =>
      match k with KInline _ => (s, VSkip) | KThin => let '(w1, v1) := thin_reserve_exact w v m in (setv s vi (Some v1) w1, VUnit) end)
  | XShrinkTo vi m => with_v vi (fun v =>
      match k with
      | KInline _ => (s, VSkip)
      | KThin =>
        if Nat.leb (vcapn v) m then (s, VUnit)
        else let '(w1, v1) := set_cap w v (Nat.max m (vlen v)) in (setv s vi (Some v1) w1, VUnit)
      end)
  | XShrinkToFit vi => with_v vi (fun v =>
      match k with
      | KInline _ => (s, VSkip)
      | KThin =>
        if Nat.eqb (vlen v) (vcapn v) then (s, VUnit)
        else let '(w1, v1) := set_cap w v (vlen v) in (setv s vi (Some v1) w1, VUnit)
      end)
  | XDropV vi => with_v vi (fun v =>
      match drop_vec k w v with
      | Done _ w1 => (setv s vi None w1, VUnit)
      | Pan w1 => (setv s vi None w1, VPanicked)
      end)
  end.

(** the unwinding flag lives for the duration of one operation *)
Definition vstep (k : kind) (s : vstate) (o : vop) : vstate * vout :=
  let '(s1, u) := vstep_core k s o in (setw s1 (set_unw (wd s1) false), u).

Fixpoint vrun (k : kind) (s : vstate) (ops : list vop) : vstate * list vout :=
  match ops with
  | [] => (s, [])
  | o :: r => let '(s1, u) := vstep k s o in let '(s2, us) := vrun k s1 r in (s2, u :: us)
  end.

Definition vinit (p : option N) : vstate := mkVS (w0 p) [] [].

(** observation: per live vector (index, len, capacity, element identities), then the live registry and the log *)
Fixpoint obs_pool (l : list (option vec)) (i : N) : list (N * N * N * list N) :=
  match l with
  | [] => []
  | None :: r => obs_pool r (N.add i 1%N)
  | Some v :: r => (i, N.of_nat (vlen v), N.of_nat (vcapn v), elems v) :: obs_pool r (N.add i 1%N)
  end.
