(** * CasesTraits: rustc's Send/Sync verdicts (harness `traits` driver) against [holds] over an environment (C05). *)
From Coq Require Import List String Bool.
Import ListNotations.
From Hip Require Import AutoTraits.
Open Scope string_scope.

Record tcase := TCase { t_type : string; t_backend : string; t_trait : trait; t_verdict : bool }.

(** the public types, instantiated at a backend *)
Definition mk_type (name : string) (b : ty) : ty :=
  if String.eqb name "IterWrapper" then TAdt name [b; TPrim]
  else if String.eqb name "Option<HipStr>" then TWrap (TAdt "HipStr" [b])
  else if String.eqb name "Vec<HipByt>" then TWrap (TAdt "HipByt" [b])
  else if String.eqb name "&HipStr" then TRef false (TAdt "HipStr" [b])
  else if String.eqb name "(HipPath, HipOsStr)" then TTuple [TAdt "HipPath" [b]; TAdt "HipOsStr" [b]]
  else TAdt name [b].

Definition check_trait (e : env) (c : tcase) : bool :=
  Bool.eqb (holds FUEL e (t_trait c) (mk_type (t_type c) (TAdt (t_backend c) []))) (t_verdict c).

Fixpoint bad_tcases (e : env) (l : list tcase) (i : nat) : list nat :=
  match l with [] => [] | c :: r => if check_trait e c then bad_tcases e r (S i) else i :: bad_tcases e r (S i) end.
