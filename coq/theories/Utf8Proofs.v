(** * Utf8Proofs: lemma library about UTF-8 well-formedness (C06).

    Structure: a well-formed string is a concatenation of single-scalar
    encodings ([chr]); [valid l = true <-> wf l].  All theorems are proved by
    induction on [wf].  No axioms. *)
From Hip Require Import Base Utf8 Bytes.

(** ** Small boolean facts about byte classes *)
Lemma ok3_cont b0 b1 : ok3 b0 b1 = true -> cont b1 = true.
Proof. unfold ok3, cont. lia. Qed.
Lemma ok4_cont b0 b1 : ok4 b0 b1 = true -> cont b1 = true.
Proof. unfold ok4, cont. lia. Qed.
Lemma lt128_not_cont b : (b <? 128) = true -> cont b = false.
Proof. unfold cont. lia. Qed.
Lemma is2_not_cont b : is2 b = true -> cont b = false.
Proof. unfold is2, cont. lia. Qed.
Lemma is3_not_cont b : is3 b = true -> cont b = false.
Proof. unfold is3, cont. lia. Qed.
Lemma is4_not_cont b : is4 b = true -> cont b = false.
Proof. unfold is4, cont. lia. Qed.
Lemma cont_ge128 b : cont b = true -> 128 <= b /\ b < 192.
Proof. unfold cont. lia. Qed.

(** ** Single-scalar encodings *)
Inductive chr : list N -> Prop :=
| chr1 b0 : (b0 <? 128) = true -> chr [b0]
| chr2 b0 b1 : (b0 <? 128) = false -> is2 b0 = true -> cont b1 = true -> chr [b0; b1]
| chr3 b0 b1 b2 : (b0 <? 128) = false -> is2 b0 = false -> is3 b0 = true ->
    ok3 b0 b1 = true -> cont b2 = true -> chr [b0; b1; b2]
| chr4 b0 b1 b2 b3 : (b0 <? 128) = false -> is2 b0 = false -> is3 b0 = false -> is4 b0 = true ->
    ok4 b0 b1 = true -> cont b2 = true -> cont b3 = true -> chr [b0; b1; b2; b3].

(** A scalar in front is transparent for [valid]. *)
Lemma chr_app_valid p t : chr p -> valid (p ++ t) = valid t.
Proof.
  intros [b0 E1|b0 b1 E1 E2 C1|b0 b1 b2 E1 E2 E3 O3 C2|b0 b1 b2 b3 E1 E2 E3 E4 O4 C2 C3];
    cbn [app valid].
  - rewrite E1. reflexivity.
  - rewrite E1, E2, C1. reflexivity.
  - rewrite E1, E2, E3, O3, C2. reflexivity.
  - rewrite E1, E2, E3, E4, O4, C2, C3. reflexivity.
Qed.

Lemma chr_valid p : chr p -> valid p = true.
Proof. intros H. rewrite <- (app_nil_r p). rewrite chr_app_valid by exact H. reflexivity. Qed.

Lemma chr_inv p : chr p ->
  exists b0 tl, p = b0 :: tl /\ cont b0 = false /\ Forall (fun b => cont b = true) tl.
Proof.
  intros [b0 E1|b0 b1 E1 E2 C1|b0 b1 b2 E1 E2 E3 O3 C2|b0 b1 b2 b3 E1 E2 E3 E4 O4 C2 C3].
  - exists b0, []. repeat split; [apply lt128_not_cont; exact E1 | constructor].
  - exists b0, [b1]. repeat split; [apply is2_not_cont; exact E2 | repeat constructor; exact C1].
  - exists b0, [b1; b2]. repeat split; [apply is3_not_cont; exact E3 |].
    repeat constructor; [exact (ok3_cont _ _ O3) | exact C2].
  - exists b0, [b1; b2; b3]. repeat split; [apply is4_not_cont; exact E4 |].
    repeat constructor; [exact (ok4_cont _ _ O4) | exact C2 | exact C3].
Qed.

Lemma chr_length p : chr p -> (1 <= length p <= 4)%nat.
Proof. intros []; cbn [length]; lia. Qed.

Lemma chr_nonnil p : chr p -> p <> [].
Proof. intros [] E; discriminate E. Qed.

(** ASCII, or every byte is >= 128. *)
Lemma chr_ascii_or_high p : chr p ->
  (exists b, p = [b] /\ b < 128) \/ Forall (fun b => 128 <= b) p.
Proof.
  intros [b0 E1|b0 b1 E1 E2 C1|b0 b1 b2 E1 E2 E3 O3 C2|b0 b1 b2 b3 E1 E2 E3 E4 O4 C2 C3].
  - left. exists b0. split; [reflexivity | lia].
  - right. pose proof (cont_ge128 _ C1). repeat constructor; lia.
  - right. pose proof (cont_ge128 _ (ok3_cont _ _ O3)). pose proof (cont_ge128 _ C2).
    repeat constructor; lia.
  - right. pose proof (cont_ge128 _ (ok4_cont _ _ O4)). pose proof (cont_ge128 _ C2).
    pose proof (cont_ge128 _ C3). repeat constructor; lia.
Qed.

Lemma chr_lt_245 p : chr p -> Forall (fun b => b < 245) p.
Proof.
  intros [b0 E1|b0 b1 E1 E2 C1|b0 b1 b2 E1 E2 E3 O3 C2|b0 b1 b2 b3 E1 E2 E3 E4 O4 C2 C3].
  - repeat constructor; lia.
  - pose proof (cont_ge128 _ C1). unfold is2 in E2. repeat constructor; lia.
  - pose proof (cont_ge128 _ (ok3_cont _ _ O3)). pose proof (cont_ge128 _ C2). unfold is3 in E3.
    repeat constructor; lia.
  - pose proof (cont_ge128 _ (ok4_cont _ _ O4)). pose proof (cont_ge128 _ C2).
    pose proof (cont_ge128 _ C3). unfold is4 in E4. repeat constructor; lia.
Qed.

(** The length of a scalar is the [width] of its lead byte. *)
Lemma chr_width p : chr p -> len p = width (hd 0 p).
Proof.
  intros [b0 E1|b0 b1 E1 E2 C1|b0 b1 b2 E1 E2 E3 O3 C2|b0 b1 b2 b3 E1 E2 E3 E4 O4 C2 C3];
    unfold width; cbn [hd].
  - rewrite E1. reflexivity.
  - rewrite E1, E2. reflexivity.
  - rewrite E1, E2, E3. reflexivity.
  - rewrite E1, E2, E3. reflexivity.
Qed.

(** ** Well-formed = concatenation of scalars *)
Inductive wf : list N -> Prop :=
| wf_nil : wf []
| wf_app p r : chr p -> wf r -> wf (p ++ r).

Lemma wf_valid l : wf l -> valid l = true.
Proof. induction 1 as [|p r Hp Hr IH]; [reflexivity|]. rewrite chr_app_valid by exact Hp. exact IH. Qed.

Lemma valid_wf_fuel n : forall l, (length l <= n)%nat -> valid l = true -> wf l.
Proof.
  induction n as [|n IH]; intros l Hn Hv.
  { destruct l; [constructor | cbn [length] in Hn; lia]. }
  destruct l as [|b0 r0]; [constructor|]. cbn [valid] in Hv. cbn [length] in Hn.
  destruct (b0 <? 128) eqn:E1.
  { apply (wf_app [b0] r0); [constructor; exact E1 | apply IH; [lia | exact Hv]]. }
  destruct r0 as [|b1 r1]; [discriminate Hv|]. cbn [length] in Hn.
  destruct (is2 b0) eqn:E2.
  { apply andb_prop in Hv as [C1 Hv].
    apply (wf_app [b0; b1] r1); [constructor; assumption | apply IH; [lia | exact Hv]]. }
  destruct r1 as [|b2 r2]; [discriminate Hv|]. cbn [length] in Hn.
  destruct (is3 b0) eqn:E3.
  { apply andb_prop in Hv as [Hv V]. apply andb_prop in Hv as [O3 C2].
    apply (wf_app [b0; b1; b2] r2); [constructor; assumption | apply IH; [lia | exact V]]. }
  destruct r2 as [|b3 r3]; [discriminate Hv|]. cbn [length] in Hn.
  destruct (is4 b0) eqn:E4; [|discriminate Hv].
  apply andb_prop in Hv as [Hv V]. apply andb_prop in Hv as [Hv C3]. apply andb_prop in Hv as [O4 C2].
  apply (wf_app [b0; b1; b2; b3] r3); [constructor; assumption | apply IH; [lia | exact V]].
Qed.

Lemma valid_wf l : valid l = true -> wf l.
Proof. apply (valid_wf_fuel (length l)). apply le_n. Qed.

Theorem valid_iff_wf l : valid l = true <-> wf l.
Proof. split; [apply valid_wf | apply wf_valid]. Qed.

(** Induction principle for valid strings. *)
Lemma valid_ind (P : list N -> Prop) :
  P [] -> (forall p r, chr p -> valid r = true -> P r -> P (p ++ r)) ->
  forall l, valid l = true -> P l.
Proof.
  intros H0 H1 l Hv. apply valid_wf in Hv. induction Hv as [|p r Hp Hr IH]; [exact H0|].
  apply H1; [exact Hp | apply wf_valid; exact Hr | exact IH].
Qed.

(** ** Concatenation *)
Theorem valid_app_eq a b : valid a = true -> valid (a ++ b) = valid b.
Proof.
  intros Ha. revert a Ha. apply (valid_ind (fun a => valid (a ++ b) = valid b)); [reflexivity|].
  intros p r Hp Hr IH. rewrite <- app_assoc. rewrite chr_app_valid by exact Hp. exact IH.
Qed.

Theorem valid_app a b : valid a = true -> valid b = true -> valid (a ++ b) = true.
Proof. intros Ha Hb. rewrite valid_app_eq by exact Ha. exact Hb. Qed.

Theorem valid_app_inv_boundary a b : valid (a ++ b) = true -> valid a = true -> valid b = true.
Proof. intros Hab Ha. rewrite valid_app_eq in Hab by exact Ha. exact Hab. Qed.

(** ** Boundaries: bridge between the bool/N and the Prop/nat versions *)
Lemma boundary_iff : forall l i,
  is_char_boundary l i = true <-> (i <= len l /\ boundary l (N.to_nat i)).
Proof.
  intros l i. unfold is_char_boundary, boundary, len.
  destruct (i =? 0) eqn:E0.
  { split; [intros _; split; [lia | left; lia] | reflexivity]. }
  destruct (N.of_nat (length l) <=? i) eqn:E1.
  { split; [intros H; split; [lia | right; left; lia] | intros [H _]; lia]. }
  split.
  - intros H. split; [lia|]. right; right. split; [lia|].
    destruct (cont (nth (N.to_nat i) l 0)); [discriminate H | reflexivity].
  - intros [_ [H|[H|[_ H]]]]; [lia | lia | rewrite H; reflexivity].
Qed.

Lemma boundary_le l i : boundary l i -> (i <= length l)%nat.
Proof. unfold boundary. lia. Qed.

Theorem boundary_0 l : is_char_boundary l 0 = true.
Proof. reflexivity. Qed.

Theorem boundary_len l : is_char_boundary l (len l) = true.
Proof.
  unfold is_char_boundary. destruct (len l =? 0) eqn:E0; [reflexivity|].
  rewrite N.leb_refl. apply N.eqb_refl.
Qed.

Lemma is_char_boundary_le l i : is_char_boundary l i = true -> i <= len l.
Proof. intros H. apply boundary_iff in H. tauto. Qed.

Lemma is_char_boundary_interior l i : 0 < i -> i < len l ->
  is_char_boundary l i = negb (cont (nth (N.to_nat i) l 0)).
Proof.
  intros H0 H1. unfold is_char_boundary.
  destruct (i =? 0) eqn:E0; [lia|]. destruct (len l <=? i) eqn:E1; [lia|]. reflexivity.
Qed.

Lemma boundary_shift pre rest j : (length pre <= j)%nat ->
  boundary (pre ++ rest) j -> boundary rest (j - length pre).
Proof.
  unfold boundary. rewrite app_length. intros Hp [H|[H|[H1 H2]]].
  - left; lia.
  - right; left; lia.
  - right; right. split; [lia|]. rewrite app_nth2 in H2 by lia. exact H2.
Qed.

Lemma boundary_unshift pre rest j : rest <> [] -> cont (hd 0 rest) = false ->
  boundary rest j -> boundary (pre ++ rest) (length pre + j).
Proof.
  unfold boundary. rewrite app_length. intros Hne Hhd [H|[H|[H1 H2]]].
  - subst j. right; right. destruct rest as [|x rest]; [congruence|]. cbn [length hd] in *.
    split; [lia|]. rewrite app_nth2 by lia. replace (length pre + 0 - length pre)%nat with 0%nat by lia.
    exact Hhd.
  - right; left; lia.
  - right; right. split; [lia|]. rewrite app_nth2 by lia.
    replace (length pre + j - length pre)%nat with j by lia. exact H2.
Qed.

(** Strictly inside a scalar there is no boundary. *)
Lemma chr_interior p r j : chr p -> (0 < j)%nat -> (j < length p)%nat -> ~ boundary (p ++ r) j.
Proof.
  intros Hp H0 H1. destruct (chr_inv p Hp) as (b0 & tl & -> & _ & Htl).
  unfold boundary. rewrite app_length. cbn [length] in *. intros [H|[H|[_ H]]]; [lia | lia |].
  destruct j as [|j]; [lia|]. cbn [app nth] in H. rewrite app_nth1 in H by lia.
  rewrite Forall_forall in Htl. rewrite Htl in H; [discriminate H | apply nth_In; lia].
Qed.

Lemma wf_split l : wf l -> forall i, boundary l i -> wf (firstn i l) /\ wf (skipn i l).
Proof.
  induction 1 as [|p r Hp Hr IH]; intros i Hb.
  { rewrite firstn_nil, skipn_nil. split; constructor. }
  destruct i as [|i]; [cbn [firstn skipn]; split; constructor; assumption|].
  destruct (le_lt_dec (length p) (S i)) as [Hle|Hlt].
  - destruct (IH _ (boundary_shift _ _ _ Hle Hb)) as [A B].
    rewrite firstn_app, skipn_app. rewrite (firstn_all2 p) by exact Hle.
    rewrite (skipn_all2 p) by exact Hle. cbn [app]. split; [constructor; assumption | exact B].
  - exfalso. revert Hb. apply chr_interior; [exact Hp | lia | exact Hlt].
Qed.

(** ** Splitting and slicing at boundaries *)
Lemma sub_0 {A} (l : list A) i : sub l 0 i = firstn (N.to_nat i) l.
Proof. unfold sub. rewrite N.sub_0_r. reflexivity. Qed.

Lemma sub_to_end {A} (l : list A) i : sub l i (len l) = skipn (N.to_nat i) l.
Proof. unfold sub. apply firstn_all2. rewrite skipn_length. unfold len. lia. Qed.

Theorem valid_split : forall l i, valid l = true -> is_char_boundary l i = true ->
  valid (sub l 0 i) = true /\ valid (sub l i (len l)) = true.
Proof.
  intros l i Hv Hb. apply boundary_iff in Hb as [_ Hb].
  destruct (wf_split l (valid_wf l Hv) _ Hb) as [A B].
  rewrite sub_0, sub_to_end. split; apply wf_valid; assumption.
Qed.

Theorem valid_firstn_boundary : forall l n, valid l = true -> is_char_boundary l n = true ->
  valid (firstn (N.to_nat n) l) = true.
Proof. intros l n Hv Hb. rewrite <- sub_0. apply (valid_split l n Hv Hb). Qed.

Theorem valid_skipn_boundary : forall l n, valid l = true -> is_char_boundary l n = true ->
  valid (skipn (N.to_nat n) l) = true.
Proof. intros l n Hv Hb. rewrite <- sub_to_end. apply (valid_split l n Hv Hb). Qed.

Theorem valid_sub : forall l a b, valid l = true -> a <= b -> b <= len l ->
  is_char_boundary l a = true -> is_char_boundary l b = true -> valid (sub l a b) = true.
Proof.
  intros l a b Hv Hab Hbl Ha Hb.
  pose proof (valid_skipn_boundary l a Hv Ha) as Hs.
  apply boundary_iff in Hb as [_ Hb]. unfold sub.
  replace (N.to_nat (b - a)) with (N.to_nat b - N.to_nat a)%nat by lia.
  apply wf_valid. apply (wf_split _ (valid_wf _ Hs)).
  assert (Hla : length (firstn (N.to_nat a) l) = N.to_nat a).
  { rewrite firstn_length. unfold len in Hbl. lia. }
  rewrite <- (firstn_skipn (N.to_nat a) l) in Hb. rewrite <- Hla at 2.
  apply boundary_shift; [rewrite Hla; lia | exact Hb].
Qed.

(** A string that is valid and cut at [len a] has two valid halves. *)
Theorem valid_app_split a b : valid (a ++ b) = true -> is_char_boundary (a ++ b) (len a) = true ->
  valid a = true /\ valid b = true.
Proof.
  intros Hv Hb. destruct (valid_split _ _ Hv Hb) as [A B].
  rewrite sub_0 in A. rewrite sub_to_end in B. unfold len in A, B. rewrite Nat2N.id in A, B.
  rewrite firstn_app, Nat.sub_diag, firstn_all, app_nil_r in A.
  rewrite skipn_app, Nat.sub_diag, skipn_all in B. cbn [skipn app] in B. split; assumption.
Qed.

(** ** Encoding a scalar value *)
Theorem chr_encode : forall c, is_scalar c = true -> chr (encode c).
Proof.
  intros c Hc. unfold is_scalar in Hc. unfold encode.
  destruct (c <? 128) eqn:E1; [constructor; exact E1|].
  destruct (c <? 2048) eqn:E2.
  { constructor; unfold is2, cont; lia. }
  destruct (c <? 65536) eqn:E3.
  { constructor; unfold is2, is3, ok3, cont; lia. }
  constructor; unfold is2, is3, is4, ok4, cont; lia.
Qed.

Theorem valid_encode : forall c, is_scalar c = true -> valid (encode c) = true.
Proof. intros c Hc. apply chr_valid. apply chr_encode. exact Hc. Qed.

Lemma len_encode c : is_scalar c = true -> 1 <= len (encode c) /\ len (encode c) <= 4.
Proof. intros Hc. pose proof (chr_length _ (chr_encode c Hc)). unfold len. lia. Qed.

(** ** Byte-wise maps that only touch ASCII *)
Theorem valid_map_ascii (f : N -> N) :
  (forall b, b < 128 -> f b < 128) -> (forall b, 128 <= b -> f b = b) ->
  forall l, valid l = true -> valid (map f l) = true.
Proof.
  intros Hlo Hhi. apply (valid_ind (fun l => valid (map f l) = true)); [reflexivity|].
  intros p r Hp Hr IH. rewrite map_app. apply valid_app; [|exact IH].
  destruct (chr_ascii_or_high p Hp) as [(b & -> & Hb)|Hall].
  - cbn [map]. apply chr_valid. constructor. specialize (Hlo b Hb). lia.
  - replace (map f p) with p; [apply chr_valid; exact Hp|].
    clear Hp. induction Hall as [|x p Hx Hall IHp]; [reflexivity|].
    cbn [map]. rewrite (Hhi x Hx), <- IHp. reflexivity.
Qed.

Lemma len_map_ascii (f : N -> N) l : len (map f l) = len l.
Proof. unfold len. rewrite map_length. reflexivity. Qed.

Theorem valid_ascii_map : forall up l, valid l = true -> valid (ascii_map up l) = true.
Proof.
  intros up l. unfold ascii_map. apply valid_map_ascii; destruct up; intros b Hb;
    unfold ascii_upper, ascii_lower; split_ifs; lia.
Qed.

(** ** Repetition *)
Theorem valid_repeat : forall l k, valid l = true -> valid (repeat_list l k) = true.
Proof.
  intros l k Hl. induction k as [|k IH]; cbn [repeat_list]; [reflexivity|].
  apply valid_app; assumption.
Qed.

(** ** Single bytes, byte ranges *)
Theorem valid_single_ascii : forall b, b < 128 -> valid [b] = true.
Proof. intros b Hb. apply chr_valid. constructor. lia. Qed.

Theorem valid_single_iff : forall b, valid [b] = true <-> b < 128.
Proof.
  intros b. split; [|apply valid_single_ascii]. cbn [valid].
  destruct (b <? 128) eqn:E; [lia | discriminate].
Qed.

Theorem valid_bytes_lt_245 : forall l, valid l = true -> Forall (fun b => b < 245) l.
Proof.
  apply (valid_ind (fun l => Forall (fun b => b < 245) l)); [constructor|].
  intros p r Hp _ IH. apply Forall_app. split; [apply chr_lt_245; exact Hp | exact IH].
Qed.

Theorem valid_bytes_lt_256 : forall l, valid l = true -> Forall (fun b => b < 256) l.
Proof.
  intros l Hv. eapply Forall_impl; [|apply valid_bytes_lt_245; exact Hv].
  cbn beta. intros a Ha. lia.
Qed.

(** The first byte of a non-empty valid string is not a continuation byte. *)
Lemma valid_hd_not_cont l : valid l = true -> l <> [] -> cont (hd 0 l) = false.
Proof.
  intros Hv Hne. apply valid_wf in Hv. destruct Hv as [|p r Hp Hr]; [congruence|].
  destruct (chr_inv p Hp) as (b0 & tl & -> & Hb0 & _). exact Hb0.
Qed.

(** ** Boundaries of concatenations *)
Lemma is_char_boundary_app_l_inv : forall a b i, i <= len a ->
  is_char_boundary (a ++ b) i = true -> is_char_boundary a i = true.
Proof.
  intros a b i Hi H. apply boundary_iff. split; [exact Hi|].
  apply boundary_iff in H as [_ H]. unfold boundary in *. unfold len in Hi.
  rewrite app_length in H.
  destruct (Nat.eq_dec (N.to_nat i) (length a)) as [E|E]; [right; left; exact E|].
  destruct H as [H|[H|[H1 H2]]]; [left; exact H | right; left; lia |].
  right; right. split; [lia|]. rewrite app_nth1 in H2 by lia. exact H2.
Qed.

Theorem is_char_boundary_app_l : forall a b i, valid b = true -> i <= len a ->
  is_char_boundary a i = true -> is_char_boundary (a ++ b) i = true.
Proof.
  intros a b i Hvb Hi H. apply boundary_iff. rewrite len_app. split; [lia|].
  apply boundary_iff in H as [_ H]. unfold boundary in *. unfold len in Hi.
  rewrite app_length.
  destruct H as [H|[H|[H1 H2]]]; [left; exact H | |].
  - destruct b as [|x b]; [right; left; cbn [length]; lia|].
    right; right. cbn [length]. split; [lia|]. rewrite app_nth2 by lia.
    replace (N.to_nat i - length a)%nat with 0%nat by lia.
    apply (valid_hd_not_cont (x :: b) Hvb). discriminate.
  - right; right. split; [lia|]. rewrite app_nth1 by lia. exact H2.
Qed.

Lemma is_char_boundary_app_r_inv : forall a b i,
  is_char_boundary (a ++ b) (len a + i) = true -> is_char_boundary b i = true.
Proof.
  intros a b i H. apply boundary_iff in H as [Hi H]. rewrite len_app in Hi.
  apply boundary_iff. split; [lia|].
  replace (N.to_nat i) with (N.to_nat (len a + i) - length a)%nat by (unfold len; lia).
  apply boundary_shift; [unfold len; lia | exact H].
Qed.

Theorem is_char_boundary_app_r : forall a b i, valid b = true ->
  is_char_boundary b i = true -> is_char_boundary (a ++ b) (len a + i) = true.
Proof.
  intros a b i Hvb H. apply boundary_iff in H as [Hi H]. apply boundary_iff.
  rewrite len_app. split; [lia|].
  destruct b as [|x b].
  - unfold boundary in *. cbn [length] in H. rewrite app_nil_r. right; left. unfold len. lia.
  - replace (N.to_nat (len a + i)) with (length a + N.to_nat i)%nat by (unfold len; lia).
    apply boundary_unshift; [discriminate | apply (valid_hd_not_cont _ Hvb); discriminate | exact H].
Qed.

(** For valid [a] and [b] the boundaries of [a ++ b] are exactly those of [a] and of [b] (shifted). *)
Theorem is_char_boundary_app : forall a b i, valid b = true ->
  is_char_boundary (a ++ b) i =
  if i <=? len a then is_char_boundary a i else is_char_boundary b (i - len a).
Proof.
  intros a b i Hvb. destruct (i <=? len a) eqn:E.
  - destruct (is_char_boundary a i) eqn:Ha.
    + apply is_char_boundary_app_l; [exact Hvb | lia | exact Ha].
    + destruct (is_char_boundary (a ++ b) i) eqn:Hab; [|reflexivity].
      apply is_char_boundary_app_l_inv in Hab; [congruence | lia].
  - replace i with (len a + (i - len a)) at 1 by lia.
    destruct (is_char_boundary b (i - len a)) eqn:Hb.
    + apply is_char_boundary_app_r; assumption.
    + destruct (is_char_boundary (a ++ b) (len a + (i - len a))) eqn:Hab; [|reflexivity].
      apply is_char_boundary_app_r_inv in Hab. congruence.
Qed.

(** ** [last_start]: index of the last non-continuation byte *)
Lemma last_start_aux_spec : forall l pos best,
  (last_start_aux l pos best = best /\ Forall (fun b => cont b = true) l) \/
  (pos <= last_start_aux l pos best /\ last_start_aux l pos best < pos + len l /\
   cont (nth (N.to_nat (last_start_aux l pos best - pos)) l 0) = false /\
   forall j, last_start_aux l pos best < j -> j < pos + len l ->
             cont (nth (N.to_nat (j - pos)) l 0) = true).
Proof.
  induction l as [|b r IH]; intros pos best; cbn [last_start_aux].
  { left. split; [reflexivity | constructor]. }
  rewrite len_cons.
  destruct (IH (pos + 1) (if cont b then best else pos)) as [[E F]|(A & B & C & D)].
  - rewrite E. destruct (cont b) eqn:Cb.
    + left. split; [reflexivity | constructor; assumption].
    + right. split; [lia|]. split; [lia|]. split.
      * replace (N.to_nat (pos - pos)) with 0%nat by lia. exact Cb.
      * intros j J1 J2. replace (N.to_nat (j - pos)) with (S (N.to_nat (j - (pos + 1)))) by lia.
        cbn [nth]. rewrite Forall_forall in F. apply F. apply nth_In. unfold len in J2. lia.
  - right. set (R := last_start_aux r (pos + 1) (if cont b then best else pos)) in *.
    split; [lia|]. split; [lia|]. split.
    + replace (N.to_nat (R - pos)) with (S (N.to_nat (R - (pos + 1)))) by lia. exact C.
    + intros j J1 J2. replace (N.to_nat (j - pos)) with (S (N.to_nat (j - (pos + 1)))) by lia.
      cbn [nth]. apply D; lia.
Qed.

(** Holds for every non-empty byte string (validity not needed). *)
Theorem last_start_spec_gen : forall l, l <> [] ->
  last_start l < len l /\ is_char_boundary l (last_start l) = true
  /\ (forall j, last_start l < j -> j < len l -> is_char_boundary l j = false).
Proof.
  intros l Hne. assert (Hlen : 0 < len l).
  { destruct l; [congruence | rewrite len_cons; lia]. }
  unfold last_start. destruct (last_start_aux_spec l 0 0) as [[E F]|(A & B & C & D)].
  - rewrite E. split; [exact Hlen|]. split; [reflexivity|].
    intros j J1 J2. rewrite is_char_boundary_interior by lia.
    rewrite Forall_forall in F. rewrite F; [reflexivity | apply nth_In; unfold len in J2; lia].
  - set (R := last_start_aux l 0 0) in *. rewrite N.sub_0_r in C. split; [lia|]. split.
    + destruct (R =? 0) eqn:R0.
      * replace R with 0 by lia. reflexivity.
      * rewrite is_char_boundary_interior by lia. rewrite C. reflexivity.
    + intros j J1 J2. rewrite is_char_boundary_interior by lia.
      specialize (D j J1). rewrite N.sub_0_r in D. rewrite D; [reflexivity | lia].
Qed.

Theorem last_start_spec : forall l, valid l = true -> l <> [] ->
  last_start l < len l /\ is_char_boundary l (last_start l) = true
  /\ (forall j, last_start l < j -> j < len l -> is_char_boundary l j = false).
Proof. intros l _. apply last_start_spec_gen. Qed.

(** The specification determines the index. *)
Lemma last_start_unique : forall l s, s < len l -> is_char_boundary l s = true ->
  (forall j, s < j -> j < len l -> is_char_boundary l j = false) -> last_start l = s.
Proof.
  intros l s Hs Hb Hno. assert (Hne : l <> []) by (intros ->; rewrite len_nil in Hs; lia).
  destruct (last_start_spec_gen l Hne) as (A & B & C).
  destruct (N.lt_trichotomy (last_start l) s) as [H|[H|H]]; [|exact H|].
  - rewrite (C s H Hs) in Hb. discriminate Hb.
  - rewrite (Hno _ H A) in B. discriminate B.
Qed.

(** What [String::pop] does: both pieces are well-formed, the removed piece is one scalar. *)
Theorem last_start_split : forall l, valid l = true -> l <> [] ->
  valid (sub l 0 (last_start l)) = true /\ chr (sub l (last_start l) (len l)).
Proof.
  intros l Hv Hne. destruct (last_start_spec_gen l Hne) as (A & B & C).
  destruct (valid_split l _ Hv B) as [V1 V2]. split; [exact V1|].
  pose proof (len_sub l (last_start l) (len l) ltac:(lia) ltac:(lia)) as Hlen.
  set (t := sub l (last_start l) (len l)) in *.
  assert (Hb : forall j, 0 < j -> j < len t -> is_char_boundary t j = false).
  { intros j J0 J1. destruct (is_char_boundary t j) eqn:Hj; [|reflexivity].
    rewrite <- (C (last_start l + j)) by lia. symmetry.
    replace l with (sub l 0 (last_start l) ++ t) at 1.
    2:{ unfold t. rewrite sub_0, sub_to_end. apply firstn_skipn. }
    replace (last_start l + j) with (len (sub l 0 (last_start l)) + j) by (rewrite len_sub; lia).
    apply is_char_boundary_app_r; assumption. }
  apply valid_wf in V2. destruct V2 as [|p r Hp Hr]; [rewrite len_nil in Hlen; lia|].
  destruct r as [|x r]; [rewrite app_nil_r; exact Hp|]. exfalso.
  pose proof (chr_length p Hp) as Lp.
  assert (Hbp : is_char_boundary (p ++ x :: r) (len p) = true).
  { apply is_char_boundary_app_l; [apply wf_valid; exact Hr | lia | apply boundary_len]. }
  rewrite Hb in Hbp; [discriminate Hbp | unfold len; lia |].
  rewrite len_app, len_cons. unfold len. lia.
Qed.

(** ** Convenience corollaries for the string operations *)
Theorem valid_nil : valid [] = true.
Proof. reflexivity. Qed.

Theorem valid_push_ascii : forall l b, valid l = true -> b < 128 -> valid (l ++ [b]) = true.
Proof. intros l b Hl Hb. apply valid_app; [exact Hl | apply valid_single_ascii; exact Hb]. Qed.

Theorem valid_push_char : forall l c, valid l = true -> is_scalar c = true -> valid (l ++ encode c) = true.
Proof. intros l c Hl Hc. apply valid_app; [exact Hl | apply valid_encode; exact Hc]. Qed.

(** [String::truncate n]: no-op beyond the length, otherwise cut at a boundary. *)
Theorem valid_truncate : forall l n, valid l = true ->
  (len l <? n) || is_char_boundary l n = true -> valid (firstn (N.to_nat n) l) = true.
Proof.
  intros l n Hv H. apply orb_prop in H as [H|H].
  - rewrite firstn_all2; [exact Hv | unfold len in H; lia].
  - apply valid_firstn_boundary; assumption.
Qed.

Print Assumptions boundary_iff.
Print Assumptions valid_split.
Print Assumptions valid_sub.
Print Assumptions valid_app.
Print Assumptions valid_app_eq.
Print Assumptions valid_app_inv_boundary.
Print Assumptions valid_app_split.
Print Assumptions valid_encode.
Print Assumptions valid_ascii_map.
Print Assumptions valid_repeat.
Print Assumptions valid_firstn_boundary.
Print Assumptions valid_skipn_boundary.
Print Assumptions last_start_spec.
Print Assumptions last_start_spec_gen.
Print Assumptions last_start_unique.
Print Assumptions last_start_split.
Print Assumptions boundary_0.
Print Assumptions boundary_len.
Print Assumptions valid_single_ascii.
Print Assumptions valid_bytes_lt_245.
Print Assumptions valid_bytes_lt_256.
Print Assumptions is_char_boundary_app_l.
Print Assumptions is_char_boundary_app_r.
Print Assumptions is_char_boundary_app.
Print Assumptions valid_iff_wf.
Print Assumptions valid_truncate.
Print Assumptions valid_push_char.
