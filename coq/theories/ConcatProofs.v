(** * ConcatProofs: C10 theorems. *)
From Hip Require Import Base Utf8 Bytes Utf8Proofs Concat.

Lemma len_flat ps : len (flat ps) = total_len ps.
Proof. induction ps as [|p r IH]; cbn [flat total_len]; [reflexivity|]. rewrite len_app, IH. reflexivity. Qed.

Lemma publish_exact n w : len w = n -> publish n w = map Some w.
Proof.
  intros H. unfold publish. rewrite H, N.sub_diag. cbn [N.to_nat repeat]. rewrite app_nil_r.
  rewrite <- H. unfold len. rewrite Nat2N.id. rewrite <- (map_length Some w). apply firstn_all.
Qed.

Lemma copy_loop_eq final w ps w' : copy_loop final w ps = Some w' -> w' = w ++ flat ps.
Proof.
  revert w. induction ps as [|p r IH]; intros w H; cbn [copy_loop flat] in *.
  - inversion H. now rewrite app_nil_r.
  - destruct (len w + len p <=? final) eqn:E; [|discriminate].
    rewrite (IH _ H). now rewrite <- app_assoc.
Qed.

Lemma copy_loop_complete final w ps : len w + total_len ps <= final -> copy_loop final w ps = Some (w ++ flat ps).
Proof.
  revert w. induction ps as [|p r IH]; intros w H; cbn [copy_loop flat total_len] in *.
  - now rewrite app_nil_r.
  - destruct (len w + len p <=? final) eqn:E; [|lia].
    rewrite IH by (rewrite len_app; lia). now rewrite <- app_assoc.
Qed.

(** concat of the same pieces (slice form, or a well-behaved iterator) = std's concat, every byte initialised *)
Theorem concat_equal_std : forall ps, concat_generic true ps ps = CVal (map Some (flat ps)).
Proof.
  intros ps. unfold concat_generic. destruct (total_len ps =? 0) eqn:E0.
  - assert (flat ps = []) as ->; [|reflexivity].
    pose proof (len_flat ps) as H. destruct (flat ps); [reflexivity|]. rewrite len_cons in H. lia.
  - rewrite copy_loop_complete by (rewrite len_nil; lia). cbn [app].
    rewrite len_flat, N.eqb_refl. cbn [negb andb]. now rewrite publish_exact by apply len_flat.
Qed.

(** adversarial second traversal: panic, or exactly the concatenation of the pieces actually copied -- never an uninitialised cell *)
Theorem concat_adversarial : forall ps1 ps2 out,
  concat_generic true ps1 ps2 = CVal out ->
  all_init out = true /\ (out = [] \/ out = map Some (flat ps2)).
Proof.
  intros ps1 ps2 out. unfold concat_generic. destruct (total_len ps1 =? 0) eqn:E0.
  - intros H; inversion H. split; [reflexivity|now left].
  - destruct (copy_loop (total_len ps1) [] ps2) as [w|] eqn:Ec; [|discriminate].
    destruct (len w =? total_len ps1) eqn:El; cbn [negb andb]; [|discriminate].
    intros H; inversion H; subst out. rewrite publish_exact by lia.
    apply copy_loop_eq in Ec. cbn [app] in Ec. subst w. split; [|now right].
    unfold all_init. rewrite forallb_forall. intros x Hx. apply in_map_iff in Hx as (b & <- & _). reflexivity.
Qed.

(** the pinned code exposes uninitialised memory: 1 piece of 40 bytes in the length pass, 2 bytes in the copy pass *)
Theorem concat_pinned_refuted : exists ps1 ps2 out,
  concat_generic false ps1 ps2 = CVal out /\ all_init out = false.
Proof.
  exists [repeat 7 40], [[1; 2]]. eexists. split; [vm_compute; reflexivity|vm_compute; reflexivity].
Qed.

(** ** join *)
Lemma join_loop_eq final w sep ps w' : join_loop final w sep ps = Some w' -> w' = w ++ flat (map (fun p => sep ++ p) ps).
Proof.
  revert w. induction ps as [|p r IH]; intros w H; cbn [join_loop flat map] in *.
  - inversion H. now rewrite app_nil_r.
  - destruct (len w + len sep <=? final); [|discriminate].
    destruct (len (w ++ sep) + len p <=? final); [|discriminate].
    rewrite (IH _ H). now rewrite <- !app_assoc.
Qed.

Lemma join_loop_complete final w sep ps :
  len w + total_len (map (fun p => sep ++ p) ps) <= final -> join_loop final w sep ps = Some (w ++ flat (map (fun p => sep ++ p) ps)).
Proof.
  revert w. induction ps as [|p r IH]; intros w H; cbn [join_loop flat map total_len] in *.
  - now rewrite app_nil_r.
  - rewrite len_app in H.
    destruct (len w + len sep <=? final) eqn:E1; [|lia].
    destruct (len (w ++ sep) + len p <=? final) eqn:E2; [|rewrite len_app in E2; lia].
    rewrite IH by (rewrite !len_app; lia). now rewrite <- !app_assoc.
Qed.

Lemma intercalate_cons sep p r : intercalate sep (p :: r) = p ++ flat (map (fun q => sep ++ q) r).
Proof.
  revert p. induction r as [|q r IH]; intros p.
  - cbn [intercalate flat map]. now rewrite app_nil_r.
  - change (intercalate sep (p :: q :: r)) with (p ++ sep ++ intercalate sep (q :: r)).
    rewrite IH. cbn [flat map]. now rewrite <- !app_assoc.
Qed.

Lemma total_len_sep sep r : total_len (map (fun q => sep ++ q) r) = len r * len sep + total_len r.
Proof.
  induction r as [|q r IH]; cbn [map total_len].
  - unfold len; cbn [length]. lia.
  - rewrite len_app, IH, len_cons. lia.
Qed.

Theorem join_equal_std : forall ps sep, join_generic true ps ps sep = CVal (map Some (intercalate sep ps)).
Proof.
  intros ps sep. unfold join_generic. destruct ps as [|p r]; [reflexivity|].
  set (new_len := (len (p :: r) - 1) * len sep + total_len (p :: r)).
  assert (Hn : new_len = len p + total_len (map (fun q => sep ++ q) r)).
  { unfold new_len. rewrite total_len_sep, len_cons. cbn [total_len]. lia. }
  destruct (len p <=? new_len) eqn:E; [|lia].
  rewrite join_loop_complete by lia.
  assert (Hl : len (p ++ flat (map (fun q => sep ++ q) r)) = new_len) by (rewrite len_app, len_flat; lia).
  rewrite Hl, N.eqb_refl. cbn [negb andb]. rewrite publish_exact by exact Hl. now rewrite intercalate_cons.
Qed.

Theorem join_adversarial : forall ps1 ps2 sep out,
  join_generic true ps1 ps2 sep = CVal out ->
  all_init out = true /\ (out = [] \/ out = map Some (intercalate sep ps2)).
Proof.
  intros ps1 ps2 sep out. unfold join_generic. destruct ps1 as [|p1 r1].
  - intros H; inversion H. split; [reflexivity|now left].
  - set (new_len := (len (p1 :: r1) - 1) * len sep + total_len (p1 :: r1)).
    destruct ps2 as [|f rest].
    + destruct (len (@nil N) =? new_len) eqn:El; cbn [negb andb]; [|discriminate].
      intros H; inversion H; subst out. rewrite publish_exact by (rewrite len_nil in *; lia).
      split; [reflexivity|now left].
    + destruct (len f <=? new_len); [|discriminate].
      destruct (join_loop new_len f sep rest) as [w|] eqn:Ej; [|discriminate].
      destruct (len w =? new_len) eqn:El; cbn [negb andb]; [|discriminate].
      intros H; inversion H; subst out. rewrite publish_exact by lia.
      apply join_loop_eq in Ej. subst w. rewrite intercalate_cons. split; [|now right].
      unfold all_init. rewrite forallb_forall. intros x Hx. apply in_map_iff in Hx as (b & <- & _). reflexivity.
Qed.

Theorem join_pinned_refuted : exists ps1 ps2 sep out,
  join_generic false ps1 ps2 sep = CVal out /\ all_init out = false.
Proof.
  exists [repeat 7 30; repeat 8 10], [[1; 2]], [44]. eexists. split; vm_compute; reflexivity.
Qed.

(** ** HipStr: well-formed pieces give a well-formed result *)
Theorem valid_flat : forall ps, Forall (fun p => valid p = true) ps -> valid (flat ps) = true.
Proof.
  induction 1 as [|p r Hp _ IH]; cbn [flat]; [reflexivity|]. now apply valid_app.
Qed.

Theorem valid_intercalate : forall sep ps, valid sep = true -> Forall (fun p => valid p = true) ps -> valid (intercalate sep ps) = true.
Proof.
  intros sep ps Hs H. destruct ps as [|p r]; [reflexivity|]. rewrite intercalate_cons.
  inversion H as [|? ? Hp Hr]; subst. apply valid_app; [exact Hp|]. apply valid_flat.
  clear H Hp. induction Hr as [|q r' Hq _ IH]; cbn [map]; constructor; [|exact IH].
  apply valid_app; assumption.
Qed.

(** a HipStr built by concat/join from [&str] pieces (both traversals yield well-formed pieces) is well-formed *)
Corollary concat_str_valid : forall ps1 ps2 out, Forall (fun p => valid p = true) ps2 ->
  concat_generic true ps1 ps2 = CVal (map Some out) -> valid out = true.
Proof.
  intros ps1 ps2 out Hv H. destruct (concat_adversarial _ _ _ H) as [_ [E|E]].
  - destruct out; [reflexivity|discriminate].
  - assert (out = flat ps2) as ->; [|now apply valid_flat].
    clear H Hv. revert E. generalize (flat ps2). induction out as [|a o IH]; intros [|b l] E; try discriminate; [reflexivity|].
    cbn [map] in E. injection E as Ea Er. subst b. f_equal. apply IH. exact Er.
Qed.
