(** * CasesCounter: correspondence vocabulary of the `counter` driver (Kind value semantics: C09, C04). *)
From Hip Require Import Base Bytes.

Record kcase := KCase { k_bk : backend; k_stored : N; k_get : N; k_unique : bool; k_shared_after_clone : bool; k_get_after : N }.

Definition check_counter (c : kcase) : bool :=
  let s := k_stored c in let bk := k_bk c in
  (kind_get bk s =? k_get c) && Bool.eqb (is_unique_c bk s) (k_unique c)
  && Bool.eqb (can_incr bk s) (k_shared_after_clone c)
  && ((if can_incr bk s then kind_get bk (s + 1) else kind_get bk s) =? k_get_after c).

Fixpoint bad_kcases (l : list kcase) (i : N) : list N :=
  match l with [] => [] | c :: r => if check_counter c then bad_kcases r (i + 1) else i :: bad_kcases r (i + 1) end.
