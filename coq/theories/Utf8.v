(** * Utf8: well-formedness of byte strings (Unicode table 3-7), char boundaries (C06, C08).
    Executable definitions only; proofs are in Utf8Proofs.v. *)
From Hip Require Import Base.

Definition cont (b : N) : bool := (128 <=? b) && (b <? 192).
(** second-byte ranges per Unicode table 3-7 *)
Definition ok3 (b0 b1 : N) : bool :=
  ((b0 =? 224) && (160 <=? b1) && (b1 <? 192))
  || (((225 <=? b0) && (b0 <? 237)) || ((238 <=? b0) && (b0 <? 240))) && cont b1
  || ((b0 =? 237) && (128 <=? b1) && (b1 <? 160)).
Definition ok4 (b0 b1 : N) : bool :=
  ((b0 =? 240) && (144 <=? b1) && (b1 <? 192))
  || ((241 <=? b0) && (b0 <? 244)) && cont b1
  || ((b0 =? 244) && (128 <=? b1) && (b1 <? 144)).
Definition is2 b0 := (194 <=? b0) && (b0 <? 224).
Definition is3 b0 := (224 <=? b0) && (b0 <? 240).
Definition is4 b0 := (240 <=? b0) && (b0 <? 245).

(** [core::str::from_utf8(l).is_ok()] *)
Fixpoint valid (l : list N) : bool :=
  match l with
  | [] => true
  | b0 :: r0 =>
    if b0 <? 128 then valid r0 else
    match r0 with
    | [] => false
    | b1 :: r1 =>
      if is2 b0 then cont b1 && valid r1 else
      match r1 with
      | [] => false
      | b2 :: r2 =>
        if is3 b0 then ok3 b0 b1 && cont b2 && valid r2 else
        match r2 with
        | [] => false
        | b3 :: r3 => if is4 b0 then ok4 b0 b1 && cont b2 && cont b3 && valid r3 else false
        end
      end
    end
  end.

(** [str::is_char_boundary], exactly as std defines it: index 0, index len,
    or a byte that is not a continuation byte.  (Beyond len: false.) *)
Definition is_char_boundary (l : list N) (i : N) : bool :=
  if i =? 0 then true
  else if len l <=? i then i =? len l
  else negb (cont (nth (N.to_nat i) l 0)).

(** Prop version on nat indices used by the proofs. *)
Definition boundary (l : list N) (i : nat) : Prop :=
  i = 0%nat \/ i = length l \/ (i < length l)%nat /\ cont (nth i l 0) = false.

(** Width of the scalar starting with lead byte [b0] (valid strings only). *)
Definition width (b0 : N) : N :=
  if b0 <? 128 then 1 else if is2 b0 then 2 else if is3 b0 then 3 else 4.

(** Index of the start of the last scalar: what [String::pop] / [char_indices().next_back()] finds. *)
Fixpoint last_start_aux (l : list N) (pos : N) (best : N) : N :=
  match l with
  | [] => best
  | b :: r => last_start_aux r (pos + 1) (if cont b then best else pos)
  end.
Definition last_start (l : list N) : N := last_start_aux l 0 0.

(** ASCII case maps ([u8::to_ascii_uppercase] etc.). *)
Definition ascii_upper (b : N) : N := if (97 <=? b) && (b <=? 122) then b - 32 else b.
Definition ascii_lower (b : N) : N := if (65 <=? b) && (b <=? 90) then b + 32 else b.

(** Encoding of a scalar value (char::encode_utf8). *)
Definition is_scalar (c : N) : bool := (c <? 55296) || ((57344 <=? c) && (c <? 1114112)).
Definition encode (c : N) : list N :=
  if c <? 128 then [c]
  else if c <? 2048 then [192 + c / 64; 128 + c mod 64]
  else if c <? 65536 then [224 + c / 4096; 128 + (c / 64) mod 64; 128 + c mod 64]
  else [240 + c / 262144; 128 + (c / 4096) mod 64; 128 + (c / 64) mod 64; 128 + c mod 64].
