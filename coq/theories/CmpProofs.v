(** * CmpProofs: the comparison kinds of Cmp.v are total orders coherent with their equalities (C12). *)
From Hip Require Import Base Cmp.

(** ** generic lexicographic order over an element comparison *)
Section Lex.
  Context {A : Type} (cmp : A -> A -> comparison).

  Fixpoint lex (a b : list A) : comparison :=
    match a, b with
    | [], [] => Eq
    | [], _ :: _ => Lt
    | _ :: _, [] => Gt
    | x :: a', y :: b' => match cmp x y with Eq => lex a' b' | c => c end
    end.

  Hypothesis cmp_eq_iff : forall x y, cmp x y = Eq <-> x = y.
  Hypothesis cmp_antisym : forall x y, cmp y x = CompOpp (cmp x y).
  Hypothesis cmp_trans : forall c x y z, cmp x y = c -> cmp y z = c -> cmp x z = c.

  Lemma lex_eq_iff : forall a b, lex a b = Eq <-> a = b.
  Proof.
    induction a as [|x a IH]; destruct b as [|y b]; cbn [lex]; split; intros H; try congruence.
    - destruct (cmp x y) eqn:E; try discriminate.
      apply cmp_eq_iff in E. apply IH in H. congruence.
    - injection H as -> ->.
      assert (E : cmp y y = Eq) by (apply cmp_eq_iff; reflexivity).
      rewrite E. apply IH. reflexivity.
  Qed.

  Lemma lex_antisym : forall a b, lex b a = CompOpp (lex a b).
  Proof.
    induction a as [|x a IH]; destruct b as [|y b]; cbn [lex]; try reflexivity.
    rewrite (cmp_antisym x y).
    destruct (cmp x y); cbn [CompOpp]; auto.
  Qed.

  Lemma lex_trans : forall c a b d, lex a b = c -> lex b d = c -> lex a d = c.
  Proof.
    intros c. induction a as [|x a IH]; destruct b as [|y b]; destruct d as [|z d];
      cbn [lex]; intros H1 H2; try congruence.
    destruct (cmp x y) eqn:E1; destruct (cmp y z) eqn:E2; try congruence.
    - rewrite (cmp_trans Eq x y z E1 E2). eauto.
    - apply cmp_eq_iff in E1. subst y. rewrite E2. exact H2.
    - apply cmp_eq_iff in E1. subst y. rewrite E2. exact H2.
    - apply cmp_eq_iff in E2. subst z. rewrite E1. exact H1.
    - rewrite (cmp_trans Lt x y z E1 E2). exact H1.
    - apply cmp_eq_iff in E2. subst z. rewrite E1. exact H1.
    - rewrite (cmp_trans Gt x y z E1 E2). exact H1.
  Qed.
End Lex.

(** ** the element order on bytes *)
Lemma Ncompare_antisym' : forall x y : N, (y ?= x) = CompOpp (x ?= y).
Proof. intros. apply N.compare_antisym. Qed.

Lemma Ncompare_trans : forall c (x y z : N), (x ?= y) = c -> (y ?= z) = c -> (x ?= z) = c.
Proof.
  intros c x y z H1 H2. destruct c.
  - apply N.compare_eq_iff in H1, H2. apply N.compare_eq_iff. congruence.
  - rewrite N.compare_lt_iff in *. lia.
  - rewrite N.compare_gt_iff in *. lia.
Qed.

Lemma bytes_cmp_lex : forall a b, bytes_cmp a b = lex N.compare a b.
Proof.
  induction a as [|x a IH]; destruct b as [|y b]; cbn [bytes_cmp lex]; try reflexivity.
  all: rewrite IH; reflexivity.
Qed.

(** ** byte-wise: a total order coherent with equality *)
Theorem bytes_eqb_iff : forall a b, bytes_eqb a b = true <-> a = b.
Proof.
  induction a as [|x a IH]; destruct b as [|y b]; cbn [bytes_eqb]; split; intros H; try congruence.
  - apply andb_true_iff in H. destruct H as [H1 H2].
    apply N.eqb_eq in H1. apply IH in H2. congruence.
  - injection H as -> ->. apply andb_true_iff. split.
    + apply N.eqb_refl.
    + apply IH. reflexivity.
Qed.
Print Assumptions bytes_eqb_iff.

Theorem bytes_cmp_eq_iff : forall a b, bytes_cmp a b = Eq <-> a = b.
Proof. intros. rewrite bytes_cmp_lex. apply lex_eq_iff. apply N.compare_eq_iff. Qed.
Print Assumptions bytes_cmp_eq_iff.

Theorem bytes_eq_iff_cmp : forall a b, bytes_eqb a b = true <-> bytes_cmp a b = Eq.
Proof. intros. rewrite bytes_eqb_iff, bytes_cmp_eq_iff. reflexivity. Qed.
Print Assumptions bytes_eq_iff_cmp.

Theorem bytes_cmp_antisym : forall a b, bytes_cmp b a = CompOpp (bytes_cmp a b).
Proof. intros. rewrite !bytes_cmp_lex. apply lex_antisym. apply Ncompare_antisym'. Qed.
Print Assumptions bytes_cmp_antisym.

Theorem bytes_cmp_trans : forall c a b d, bytes_cmp a b = c -> bytes_cmp b d = c -> bytes_cmp a d = c.
Proof.
  intros c a b d. rewrite !bytes_cmp_lex.
  apply lex_trans. - apply N.compare_eq_iff. - apply Ncompare_trans.
Qed.
Print Assumptions bytes_cmp_trans.

(** ** component-wise *)
Theorem comp_cmp_eq_iff : forall a b, comp_cmp a b = Eq <-> a = b.
Proof.
  intros a b. destruct a as [| | |x]; destruct b as [| | |y];
    try (split; intros H; [try reflexivity; discriminate H | try reflexivity; discriminate H]).
  unfold comp_cmp. rewrite bytes_cmp_eq_iff. split; congruence.
Qed.
Print Assumptions comp_cmp_eq_iff.

Theorem comp_cmp_antisym : forall a b, comp_cmp b a = CompOpp (comp_cmp a b).
Proof.
  intros a b. destruct a as [| | |x]; destruct b as [| | |y]; try reflexivity.
  unfold comp_cmp. apply bytes_cmp_antisym.
Qed.
Print Assumptions comp_cmp_antisym.

Theorem comp_cmp_trans : forall c a b d, comp_cmp a b = c -> comp_cmp b d = c -> comp_cmp a d = c.
Proof.
  intros c a b d.
  destruct a as [| | |x]; destruct b as [| | |y]; destruct d as [| | |z];
    try (vm_compute; congruence).
  unfold comp_cmp. apply bytes_cmp_trans.
Qed.
Print Assumptions comp_cmp_trans.

Lemma comps_cmp_lex : forall a b, comps_cmp a b = lex comp_cmp a b.
Proof.
  induction a as [|x a IH]; destruct b as [|y b]; cbn [comps_cmp lex]; try reflexivity.
  all: rewrite IH; reflexivity.
Qed.

Theorem comps_cmp_eq_iff : forall a b, comps_cmp a b = Eq <-> a = b.
Proof. intros. rewrite comps_cmp_lex. apply lex_eq_iff. apply comp_cmp_eq_iff. Qed.
Print Assumptions comps_cmp_eq_iff.

Theorem comps_cmp_antisym : forall a b, comps_cmp b a = CompOpp (comps_cmp a b).
Proof. intros. rewrite !comps_cmp_lex. apply lex_antisym. apply comp_cmp_antisym. Qed.
Print Assumptions comps_cmp_antisym.

Theorem comps_cmp_trans : forall c a b d, comps_cmp a b = c -> comps_cmp b d = c -> comps_cmp a d = c.
Proof.
  intros c a b d. rewrite !comps_cmp_lex.
  apply lex_trans. - apply comp_cmp_eq_iff. - apply comp_cmp_trans.
Qed.
Print Assumptions comps_cmp_trans.

(** ** paths *)
Theorem path_eq_iff_cmp : forall a b, path_eqb a b = true <-> path_cmp a b = Eq.
Proof. intros. unfold path_eqb. destruct (path_cmp a b); split; congruence. Qed.
Print Assumptions path_eq_iff_cmp.

Theorem path_eq_iff_components : forall a b, path_eqb a b = true <-> components a = components b.
Proof. intros. rewrite path_eq_iff_cmp. unfold path_cmp. apply comps_cmp_eq_iff. Qed.
Print Assumptions path_eq_iff_components.

Theorem path_cmp_antisym : forall a b, path_cmp b a = CompOpp (path_cmp a b).
Proof. intros. unfold path_cmp. apply comps_cmp_antisym. Qed.
Print Assumptions path_cmp_antisym.

Theorem path_cmp_trans : forall c a b d, path_cmp a b = c -> path_cmp b d = c -> path_cmp a d = c.
Proof. intros c a b d. unfold path_cmp. apply comps_cmp_trans. Qed.
Print Assumptions path_cmp_trans.

(** byte-equal paths are path-equal *)
Theorem path_eq_refl_of_bytes : forall a b, a = b -> path_eqb a b = true.
Proof. intros a b ->. apply path_eq_iff_components. reflexivity. Qed.
Print Assumptions path_eq_refl_of_bytes.

(** ... but not conversely: "a/" and "a" *)
Theorem path_eq_coarser : exists a b, path_eqb a b = true /\ a <> b.
Proof. exists [97; 47], [97]. split. - vm_compute. reflexivity. - discriminate. Qed.
Print Assumptions path_eq_coarser.

(** ** generic over the kind *)
Theorem k_eq_iff_cmp : forall k a b, k_eqb k a b = true <-> k_cmp k a b = Eq.
Proof. intros. unfold k_eqb. destruct (k_cmp k a b); split; congruence. Qed.
Print Assumptions k_eq_iff_cmp.

Theorem k_cmp_antisym : forall k a b, k_cmp k b a = CompOpp (k_cmp k a b).
Proof. intros [] a b; cbn [k_cmp]. - apply bytes_cmp_antisym. - apply path_cmp_antisym. Qed.
Print Assumptions k_cmp_antisym.

Theorem k_cmp_trans : forall k c a b d, k_cmp k a b = c -> k_cmp k b d = c -> k_cmp k a d = c.
Proof. intros [] c a b d; cbn [k_cmp]. - apply bytes_cmp_trans. - apply path_cmp_trans. Qed.
Print Assumptions k_cmp_trans.

(** the helper functions are called as f(other, self).map(reverse) in one of the two generated impls *)
Theorem reversed_impl_agrees : forall k a b, CompOpp (k_cmp k a b) = k_cmp k b a.
Proof. intros. symmetry. apply k_cmp_antisym. Qed.
Print Assumptions reversed_impl_agrees.
