(** * AutoTraits: a model of rustc's Send/Sync derivation over the type definitions and the
    `unsafe impl Send/Sync` headers of the crate (C05).  The environment (coq/gen/TypeEnv.v) is regenerated from the
    struct definitions and impl headers of /repo on every run; rustc's verdicts (harness `traits` driver) are compared
    with [holds] for every public type x backend x trait. *)
From Coq Require Import List String Bool Arith.
Import ListNotations.
Open Scope string_scope.

Inductive ty :=
| TPrim                                  (* integers, bool, (), NonZero*, str, [u8], OsStr, Path, String, OsString, PathBuf, plain enums: Send + Sync *)
| TVar (n : string)
| TRef (mut_ : bool) (t : ty)
| TRawPtr (t : ty)
| TNonNull (t : ty)
| TCell (t : ty)
| TAtomic
| TWrap (t : ty)                         (* PhantomData / MaybeUninit / ManuallyDrop / [T; N] / [T] / Vec / Box: structural *)
| TTuple (ts : list ty)
| TAdt (name : string) (args : list ty).

Inductive trait := Send | Sync.
Definition trait_eqb (a b : trait) : bool := match a, b with Send, Send | Sync, Sync => true | _, _ => false end.

(** an explicit impl: `unsafe impl<..> Tr for Adt<..> where bounds`; a bound is (type parameter, trait) *)
Record adt := mkAdt {
  a_name : string; a_params : list string; a_fields : list ty;
  a_send : option (list (string * trait)); a_sync : option (list (string * trait))
}.
Definition env := list adt.

Fixpoint lookup (e : env) (n : string) : option adt :=
  match e with [] => None | a :: r => if String.eqb (a_name a) n then Some a else lookup r n end.

Fixpoint assoc (l : list (string * ty)) (n : string) : ty :=
  match l with [] => TVar n | (k, v) :: r => if String.eqb k n then v else assoc r n end.

Fixpoint subst (s : list (string * ty)) (t : ty) : ty :=
  match t with
  | TPrim => TPrim | TAtomic => TAtomic
  | TVar n => assoc s n
  | TRef m t => TRef m (subst s t) | TRawPtr t => TRawPtr (subst s t) | TNonNull t => TNonNull (subst s t)
  | TCell t => TCell (subst s t) | TWrap t => TWrap (subst s t)
  | TTuple ts => TTuple (map (subst s) ts)
  | TAdt n args => TAdt n (map (subst s) args)
  end.

Fixpoint holds (fuel : nat) (e : env) (tr : trait) (t : ty) : bool :=
  match fuel with
  | O => false
  | S f =>
    match t with
    | TPrim | TAtomic => true
    | TVar _ => false                                   (* an unconstrained parameter has no auto trait *)
    | TRef false t' => holds f e Sync t'                (* &T: Send <=> T: Sync;  &T: Sync <=> T: Sync *)
    | TRef true t' => holds f e tr t'                   (* &mut T: Send <=> T: Send; Sync <=> T: Sync *)
    | TRawPtr _ | TNonNull _ => false
    | TCell t' => match tr with Send => holds f e Send t' | Sync => false end
    | TWrap t' => holds f e tr t'
    | TTuple ts => forallb (holds f e tr) ts
    | TAdt n args =>
      match lookup e n with
      | None => false
      | Some a =>
        let s := combine (a_params a) args in
        match (match tr with Send => a_send a | Sync => a_sync a end) with
        | Some bounds => forallb (fun b => holds f e (snd b) (assoc s (fst b))) bounds
        | None => forallb (fun fld => holds f e tr (subst s fld)) (a_fields a)
        end
      end
    end
  end.

Definition FUEL : nat := 24.
