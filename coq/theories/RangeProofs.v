(** * RangeProofs: C08 theorems over the hand model of Range.v. *)
From Hip Require Import Base Range.

Theorem simplify_total : forall s e len, bound_ok s -> bound_ok e -> len <= IMAX ->
  match simplify s e len with
  | ROk (a, b) => std_get s e len = Some (a, b)
  | RErr (a, b, k) => std_get s e len = None /\ names_failing k s e len
  end.
Proof.
  intros s e len Hs He Hl. unfold simplify, std_get, names_failing.
  word_unfold.
  destruct s as [a|a|], e as [b|b|]; cbn [bound_ok mstart mend] in *;
    split_ifs; try lia; try (split; [reflexivity | lia]); try reflexivity.
Qed.

(** try_slice = Ok exactly when std's get succeeds, with the same range. *)
Corollary simplify_ok_iff : forall s e len a b, bound_ok s -> bound_ok e -> len <= IMAX ->
  simplify s e len = ROk (a, b) <-> std_get s e len = Some (a, b).
Proof.
  intros s e len a b Hs He Hl. pose proof (simplify_total s e len Hs He Hl) as H.
  destruct (simplify s e len) as [[a' b']|[[a' b'] k]].
  - rewrite H. split; intros E; inversion E; reflexivity.
  - destruct H as [H _]. rewrite H. split; intros E; discriminate E.
Qed.

(** The pinned code is refuted: [..=usize::MAX] on a 5-byte value. *)
Theorem simplify_v0_refuted : exists dbg s e len, bound_ok s /\ bound_ok e /\ len <= IMAX /\
  match simplify_v0 dbg s e len with
  | Val (ROk (a, b)) => std_get s e len <> Some (a, b)
  | Val (RErr _) => False
  | Panic => True
  end.
Proof.
  exists false, Unb, (Incl UMAX), 5. unfold bound_ok, W, UMAX, IMAX.
  repeat split; try lia. vm_compute. discriminate.
Qed.

Theorem simplify_v0_debug_panics : simplify_v0 true Unb (Incl UMAX) 5 = Panic.
Proof. vm_compute. reflexivity. Qed.

(** Results stay in range: the returned bounds are usable as indices. *)
Theorem simplify_ok_bounds : forall s e len a b,
  simplify s e len = ROk (a, b) -> a <= b /\ b <= len.
Proof.
  intros s e len a b. unfold simplify. split_ifs; intros E; inversion E; subst; lia.
Qed.

(** Vector ranges: same accept set as std, errors name what failed. *)
Theorem range_mono_total : forall s e len, bound_ok s -> bound_ok e -> len <= IMAX ->
  match range_mono s e len with
  | ROk (a, b) => std_get s e len = Some (a, b)
  | RErr r => std_get s e len = None /\ rerr_names_failing r s e len
  end.
Proof.
  intros s e len Hs He Hl. unfold range_mono, std_get, rerr_names_failing.
  word_unfold.
  destruct s as [a|a|], e as [b|b|]; cbn [bound_ok mstart mend] in *;
    split_ifs; try lia; try (split; [reflexivity | lia]); try reflexivity.
Qed.

Corollary range_mono_ok_iff : forall s e len a b, bound_ok s -> bound_ok e -> len <= IMAX ->
  range_mono s e len = ROk (a, b) <-> std_get s e len = Some (a, b).
Proof.
  intros s e len a b Hs He Hl. pose proof (range_mono_total s e len Hs He Hl) as H.
  destruct (range_mono s e len) as [[a' b']|r].
  - rewrite H. split; intros E; inversion E; reflexivity.
  - destruct H as [H _]. rewrite H. split; intros E; discriminate E.
Qed.

(** try_slice and the vector ranges accept the same ranges. *)
Corollary simplify_range_mono_agree : forall s e len a b, bound_ok s -> bound_ok e -> len <= IMAX ->
  simplify s e len = ROk (a, b) <-> range_mono s e len = ROk (a, b).
Proof.
  intros. rewrite simplify_ok_iff, range_mono_ok_iff by assumption. reflexivity.
Qed.

(** slice_ref: accepted exactly when the candidate lies inside; result is its offset range. *)
Theorem try_range_of_spec : forall wstart wlen sstart slen,
  match try_range_of wstart wlen sstart slen with
  | Some (a, b) => inside wstart wlen sstart slen /\ a = sstart - wstart /\ b = a + slen
  | None => ~ inside wstart wlen sstart slen
  end.
Proof.
  intros. unfold try_range_of, inside.
  destruct (sstart <? wstart) eqn:E1; cbn [orb].
  - lia.
  - destruct (wstart + wlen <? sstart) eqn:E2.
    + lia.
    + destruct (wlen <? sstart - wstart + slen) eqn:E3; [lia | repeat split; lia].
Qed.

Corollary try_range_of_iff : forall wstart wlen sstart slen a b,
  try_range_of wstart wlen sstart slen = Some (a, b) <->
  inside wstart wlen sstart slen /\ a = sstart - wstart /\ b = a + slen.
Proof.
  intros. pose proof (try_range_of_spec wstart wlen sstart slen) as H.
  destruct (try_range_of wstart wlen sstart slen) as [[a' b']|].
  - split.
    + intros E; inversion E; subst. exact H.
    + intros (Hi & Ha & Hb). destruct H as (_ & Ha' & Hb'). subst. reflexivity.
  - split; [discriminate | intros (Hi & _); contradiction].
Qed.
