(** * CasesVec: correspondence vocabulary of the `vec` driver (Tie B for C13 C14 C15). *)
From Hip Require Import Base Range VecModel CasesRange.

Record xstep := XStep {
  x_op : vop; x_out : vout;
  x_pool : list (N * N * N * list N * list N);   (* index, len, cap, ids, values *)
  x_live : list N;                               (* live identities, ascending *)
  x_log : list ev;                               (* callback events of this op, oldest first *)
  x_cbs : N; x_alloc : N; x_free : N; x_realloc : N;   (* allocator events of this op (not compared when the op panicked: the panic machinery allocates) *)
  x_blocks : N                                          (* blocks obtained by the code under test and still live *)
}.
Record xcase := XCase { x_kind : kind; x_pan : option N; x_steps : list xstep }.

Definition ev_eqb (a b : ev) : bool :=
  match a, b with
  | EvClone x y, EvClone x' y' => (x =? x') && (y =? y')
  | EvDrop x, EvDrop x' | EvNext x, EvNext x' | EvMake x, EvMake x' => x =? x'
  | EvPred x r, EvPred x' r' => (x =? x') && Bool.eqb r r'
  | EvPanic, EvPanic => true
  | _, _ => false
  end.
Fixpoint evs_eqb (a b : list ev) : bool :=
  match a, b with [], [] => true | x :: a', y :: b' => ev_eqb x y && evs_eqb a' b' | _, _ => false end.

Definition vout_eqb (a b : vout) : bool :=
  match a, b with
  | VUnit, VUnit | VNone, VNone | VRangeErr, VRangeErr | VPanicked, VPanicked | VSkip, VSkip => true
  | VNewV x, VNewV y | VItem x, VItem y => x =? y
  | VItems x, VItems y => list_eqb x y
  | VRejected x f, VRejected y g => (x =? y) && Bool.eqb f g
  | _, _ => false
  end.

Fixpoint pool_eqb (w : world) (m : list (N * N * N * list N)) (i : list (N * N * N * list N * list N)) : bool :=
  match m, i with
  | [], [] => true
  | (a, b, c, ids) :: m', (a', b', c', ids', vs') :: i' =>
    (a =? a') && (b =? b') && (c =? c') && list_eqb ids ids' && list_eqb (map (val_of w) ids) vs' && pool_eqb w m' i'
  | _, _ => false
  end.

Definition same_set (a b : list N) : bool :=
  (len a =? len b) && forallb (fun x => mem x b) a && forallb (fun x => mem x a) b.

Definition xstep_ok (s0 s1 : vstate) (u : vout) (x : xstep) : bool :=
  let w0 := wd s0 in let w1 := wd s1 in
  vout_eqb u (x_out x) && pool_eqb w1 (obs_pool (pool s1) 0) (x_pool x) && same_set (live w1) (x_live x)
  && evs_eqb (rev (firstn (length (log w1) - length (log w0)) (log w1))) (x_log x)
  && (cbs w1 =? x_cbs x) && (wa w1 - wf w1 =? x_blocks x)
  && (match u with
      | VPanicked | VRangeErr => true
      | _ => (wa w1 - wa w0 =? x_alloc x) && (wf w1 - wf w0 =? x_free x) && (wr_ w1 - wr_ w0 =? x_realloc x)
      end)
  && negb (badw w1).

Fixpoint first_bad_xstep (k : kind) (s : vstate) (l : list xstep) (i : N) : option N :=
  match l with
  | [] => None
  | x :: r =>
    let '(s1, u) := vstep k s (x_op x) in
    if xstep_ok s s1 u x then first_bad_xstep k s1 r (i + 1) else Some i
  end.

Fixpoint bad_xcases (l : list xcase) (i : N) : list (N * N) :=
  match l with
  | [] => []
  | c :: r =>
    match first_bad_xstep (x_kind c) (vinit (x_pan c)) (x_steps c) 0 with
    | None => bad_xcases r (i + 1)
    | Some k => (i, k) :: bad_xcases r (i + 1)
    end
  end.

Fixpoint xmodel_at (k : kind) (s : vstate) (l : list xstep) (n : nat) :=
  match l with
  | [] => None
  | x :: r =>
    let '(s1, u) := vstep k s (x_op x) in
    match n with
    | O => Some (u, obs_pool (pool s1) 0, live (wd s1), rev (firstn (length (log (wd s1)) - length (log (wd s))) (log (wd s1))),
                 (cbs (wd s1), wa (wd s1), wf (wd s1), wr_ (wd s1)), badw (wd s1))
    | S n' => xmodel_at k s1 r n'
    end
  end.
