(** * Range: range normalisation and address-range membership (C08).

    Hand model, written function-by-function after
      - src/bytes.rs   [simplify_range_mono]   (used by try_slice / slice of HipByt, HipStr)
      - src/common.rs  [range_mono]            (used by drain / try_drain / extend_from_within)
      - src/bytes/raw.rs [try_range_of]        (used by try_slice_ref / slice_ref)
    The generated counterparts (coq/gen/RangeGen.v) are proved equal to these
    in tie/RangeEquiv.v on every run. *)
From Hip Require Import Base.

(** [SliceErrorKind] of src/bytes.rs. *)
Inductive skind := StartGreaterThanEnd | StartOutOfBounds | EndOutOfBounds.

(** [RangeError] of src/common.rs. *)
Inductive rerr :=
| StartOverflows
| EndOverflows
| RStartGreaterThanEnd (start end_ : N)
| REndOutOfBounds (end_ len : N).

(** ** simplify_range_mono (after the fix: the +1 saturates) *)
Definition simplify (s e : bound) (len : N) : result (N * N) (N * N * skind) :=
  let start := match s with Incl a => a | Excl a => sat_add a 1 | Unb => 0 end in
  let end_ := match e with Incl a => sat_add a 1 | Excl a => a | Unb => len end in
  if len <? start then RErr (start, end_, StartOutOfBounds)
  else if len <? end_ then RErr (start, end_, EndOutOfBounds)
  else if end_ <? start then RErr (start, end_, StartGreaterThanEnd)
  else ROk (start, end_).

(** The pinned (pre-fix) code, kept as a regression seed: unchecked [+ 1]. *)
Definition simplify_v0 (dbg : bool) (s e : bound) (len : N) : M (result (N * N) (N * N * skind)) :=
  bindM (match s with Incl a => Val a | Excl a => add_w dbg a 1 | Unb => Val 0 end) (fun start =>
  bindM (match e with Incl a => add_w dbg a 1 | Excl a => Val a | Unb => Val len end) (fun end_ =>
  Val (if len <? start then RErr (start, end_, StartOutOfBounds)
       else if len <? end_ then RErr (start, end_, EndOutOfBounds)
       else if end_ <? start then RErr (start, end_, StartGreaterThanEnd)
       else ROk (start, end_)))).

(** ** range_mono *)
Definition range_mono (s e : bound) (len : N) : result (N * N) rerr :=
  match (match s with
         | Incl a => ROk a
         | Excl a => ok_or (add_chk a 1) StartOverflows
         | Unb => ROk 0 end) with
  | RErr err => RErr err
  | ROk start =>
    match (match e with
           | Incl a => ok_or (add_chk a 1) EndOverflows
           | Excl a => ROk a
           | Unb => ROk len end) with
    | RErr err => RErr err
    | ROk end_ =>
      if end_ <? start then RErr (RStartGreaterThanEnd start end_)
      else if len <? end_ then RErr (REndOutOfBounds end_ len)
      else ROk (start, end_)
    end
  end.

(** ** try_range_of, on addresses.
    [wstart, wlen]: address and length of the whole; [sstart, slen]: of the candidate sub-slice. *)
Definition try_range_of (wstart wlen sstart slen : N) : option (N * N) :=
  let wend := wstart + wlen in
  if (sstart <? wstart) || (wend <? sstart) then None
  else
    let offset := sstart - wstart in
    if wlen <? offset + slen then None else Some (offset, offset + slen).

(** ** Specifications: std's checked indexing, over unbounded [N]. *)
Definition mstart (s : bound) : N := match s with Incl a => a | Excl a => a + 1 | Unb => 0 end.
Definition mend (e : bound) (len : N) : N := match e with Incl a => a + 1 | Excl a => a | Unb => len end.

(** [<[u8]>::get((s, e))] on a slice of length [len]: [Some] iff
    [start <= end <= len] after mathematically adding 1. *)
Definition std_get (s e : bound) (len : N) : option (N * N) :=
  if (mstart s <=? mend e len) && (mend e len <=? len) then Some (mstart s, mend e len) else None.

(** "an error naming the failing bound". *)
Definition names_failing (k : skind) (s e : bound) (len : N) : Prop :=
  match k with
  | StartOutOfBounds => mstart s > len
  | EndOutOfBounds => mend e len > len
  | StartGreaterThanEnd => mstart s > mend e len
  end.

Definition rerr_names_failing (r : rerr) (s e : bound) (len : N) : Prop :=
  match r with
  | StartOverflows => mstart s >= W
  | EndOverflows => mend e len >= W
  | RStartGreaterThanEnd a b => a = mstart s /\ b = mend e len /\ a > b
  | REndOutOfBounds b l => b = mend e len /\ l = len /\ b > len
  end.

(** A sub-slice lies address-wise inside the whole. *)
Definition inside (wstart wlen sstart slen : N) : Prop :=
  wstart <= sstart /\ sstart + slen <= wstart + wlen.
