(** * CasesBytes: correspondence vocabulary of the `bytes` driver (Tie B for C01 C02 C03 C07 C09).
    A case is a backend, a type, and a list of steps; each step carries what the implementation did:
    the op's outcome, the hook-level observation of *every* live handle, and the allocator counters.
    [bad_cases] replays the ops on the model and reports (case, step) of the first difference. *)
From Hip Require Import Base Range Utf8 StrRange Bytes CasesRange.

Definition DIG_MOD : N := 2305843009213693951.
Definition digest (l : list N) : N := fold_left (fun a b => (a * 257 + b + 1) mod DIG_MOD) l 7.

(** observation of a handle as printed by the harness (bytes as length + digest) *)
Record hobs := HObs {
  h_id : N; h_tag : N; h_len : N; h_dig : N; h_where : N; h_off : N; h_count : N; h_vlen : N; h_cap : N; h_norm : bool
}.

Record bstep := BStep {
  s_op : op; s_out : out; s_obs : list hobs;
  s_alloc : N; s_free : N; s_realloc : N;     (* cumulative event counts inside op windows *)
  s_live : N                                  (* blocks obtained inside windows and still live *)
}.

Record bcase := BCase { c_bk : backend; c_ty : hty; c_steps : list bstep }.

Definition str_kind_eqb' := str_kind_eqb.

Definition out_eqb (a b : out) : bool :=
  match a, b with
  | UUnit, UUnit | UNone, UNone | UPanic, UPanic | USkip, USkip => true
  | UNew x, UNew y => x =? y
  | USome x, USome y => list_eqb x y
  | UByte x, UByte y => x =? y
  | UErr k x y, UErr k' x' y' => str_kind_eqb k k' && (x =? x') && (y =? y')
  | UVec v c, UVec v' c' => list_eqb v v' && (c =? c')
  | _, _ => false
  end.

Definition obs_match (m : obs) (i : hobs) : bool :=
  (o_id m =? h_id i) && (o_tag m =? h_tag i) && (len (o_bytes m) =? h_len i) && (digest (o_bytes m) =? h_dig i)
  && (o_where m =? h_where i) && (o_off m =? h_off i) && (o_count m =? h_count i)
  && (o_vlen m =? h_vlen i) && (o_cap m =? h_cap i) && Bool.eqb (o_norm m) (h_norm i).

Fixpoint obs_all (ms : list obs) (is : list hobs) : bool :=
  match ms, is with
  | [], [] => true
  | m :: ms', i :: is' => obs_match m i && obs_all ms' is'
  | _, _ => false
  end.

(** compares everything except, after a panicking op, the event counters (panic machinery allocates) *)
Definition step_ok (bk : backend) (st' : state) (u : out) (s : bstep) : bool :=
  out_eqb u (s_out s) && obs_all (observe bk st') (s_obs s) && negb (bad st')
  && (n_alloc st' - n_free st' =? s_live s)
  && (n_alloc st' =? s_alloc s) && (n_free st' =? s_free s) && (n_realloc st' =? s_realloc s).

Fixpoint first_bad_step (bk : backend) (ty : hty) (st : state) (l : list bstep) (i : N) : option N :=
  match l with
  | [] => None
  | s :: r =>
    let '(st', u) := step bk ty st (s_op s) in
    if step_ok bk st' u s then first_bad_step bk ty st' r (i + 1) else Some i
  end.

Fixpoint bad_cases (l : list bcase) (i : N) : list (N * N) :=
  match l with
  | [] => []
  | c :: r =>
    match first_bad_step (c_bk c) (c_ty c) init (c_steps c) 0 with
    | None => bad_cases r (i + 1)
    | Some k => (i, k) :: bad_cases r (i + 1)
    end
  end.

(** debugging aid: what the model says at step [k] of a case *)
Fixpoint model_at (bk : backend) (ty : hty) (st : state) (l : list bstep) (k : nat) : option (out * list obs * (N * N * N)) :=
  match l with
  | [] => None
  | s :: r =>
    let '(st', u) := step bk ty st (s_op s) in
    match k with
    | O => Some (u, observe bk st', (n_alloc st', n_free st', n_realloc st'))
    | S k' => model_at bk ty st' r k'
    end
  end.
