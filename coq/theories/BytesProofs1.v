(** * BytesProofs1: the block-level invariant [BInv] (the invariant of BytesInv.v with the
    reference count abstracted to a function), and one specification lemma per helper of Bytes.v. *)
From Hip Require Import Base Range RangeProofs Utf8 StrRange Bytes BytesSpec BytesInv BytesLib.

(** ** block-level invariant, parametric in the number of references [rc b] each block has
    and in the number [p] of heap objects held outside the block table (the Vec inside a mutate guard) *)
Definition blk_ok (bk : backend) (rc : N) (blk : block) : Prop :=
  len (vdata blk) <= vcap blk
  /\ cnt blk + 1 = rc + phantom blk
  /\ cnt blk <= UMAX - 1
  /\ (bk = BUnique -> cnt blk = 0 /\ phantom blk = 0).

Record BInv (bk : backend) (st : state) (rc : N -> N) (p : N) : Prop := {
  bi_bad : bad st = false;
  bi_b : forall b blk, get_b st b = Some blk -> blk_ok bk (rc b) blk;
  bi_none : forall b, get_b st b = None -> rc b = 0;
  bi_heap : n_alloc st = n_free st + heap_objects (bs st) + n_leak st + p
}.

Lemma BInv_ext bk st rc rc' p : BInv bk st rc p -> (forall b, rc' b = rc b) -> BInv bk st rc' p.
Proof.
  intros [B1 B2 B3 B4] E. constructor; auto.
  - intros b blk H. rewrite E. auto.
  - intros b H. rewrite E. auto.
Qed.

Lemma BInv_p bk st rc p p' : BInv bk st rc p -> p' = p -> BInv bk st rc p'.
Proof. intros H ->. exact H. Qed.

(** the handle pool is irrelevant *)
Lemma BInv_set_hs bk st x rc p : BInv bk (set_hs st x) rc p <-> BInv bk st rc p.
Proof. split; intros [B1 B2 B3 B4]; constructor; auto. Qed.

Lemma block_ok_blk_ok bk st b blk : block_ok bk st b blk <-> blk_ok bk (nrefs b (hs st)) blk.
Proof. reflexivity. Qed.

(** uniqueness: a unique counter and one counted reference leave no room for another *)
Lemma unique_rc bk rc blk : blk_ok bk rc blk -> is_unique_c bk (cnt blk) = true -> 1 <= rc -> rc = 1 /\ cnt blk = 0 /\ phantom blk = 0.
Proof.
  intros (_ & H2 & _ & H4) U R. destruct bk; cbn [is_unique_c] in U;
    try (destruct (H4 eq_refl)); lia.
Qed.

Lemma is_unique_0 bk : is_unique_c bk 0 = true.
Proof. destruct bk; reflexivity. Qed.

(** ** primitive state changes *)
Lemma binv_cnt bk st st' rc p p' :
  BInv bk st rc p -> bs st' = bs st -> bad st' = bad st ->
  n_alloc st' + n_free st + n_leak st + p = n_alloc st + n_free st' + n_leak st' + p' ->
  BInv bk st' rc p'.
Proof.
  intros [B1 B2 B3 B4] Eb Ebad Eh. constructor.
  - congruence.
  - unfold get_b. rewrite Eb. exact B2.
  - unfold get_b. rewrite Eb. exact B3.
  - rewrite Eb. lia.
Qed.

Lemma binv_upd bk st st' rc rc' p p' b o o' :
  BInv bk st rc p ->
  nth_error (bs st) (N.to_nat b) = Some o ->
  bs st' = upd (bs st) (N.to_nat b) o' -> bad st' = bad st ->
  (forall x, x <> b -> rc' x = rc x) ->
  match o' with Some blk' => blk_ok bk (rc' b) blk' | None => rc' b = 0 end ->
  n_alloc st' + n_free st + n_leak st + p + ho o = n_alloc st + n_free st' + n_leak st' + p' + ho o' ->
  BInv bk st' rc' p'.
Proof.
  intros [B1 B2 B3 B4] Hn Eb Ebad Erc Hb Eh.
  assert (Hlt : b < len (bs st)).
  { assert (N.to_nat b < length (bs st))%nat by (apply nth_error_Some; congruence). unfold len. lia. }
  constructor.
  - congruence.
  - intros x blk. unfold get_b. rewrite Eb. destruct (N.eq_dec x b) as [->|Hne].
    + rewrite nthN_upd_eq by exact Hlt. intros ->. exact Hb.
    + rewrite nthN_upd_neq by congruence. rewrite Erc by exact Hne. apply B2.
  - intros x. unfold get_b. rewrite Eb. destruct (N.eq_dec x b) as [->|Hne].
    + rewrite nthN_upd_eq by exact Hlt. intros ->. exact Hb.
    + rewrite nthN_upd_neq by congruence. rewrite Erc by exact Hne. apply B3.
  - rewrite Eb. pose proof (heap_objects_upd _ _ _ o' Hn). lia.
Qed.

Lemma binv_snoc bk st st' rc rc' p p' blk :
  BInv bk st rc p ->
  bs st' = bs st ++ [Some blk] -> bad st' = bad st ->
  (forall x, x <> len (bs st) -> rc' x = rc x) ->
  blk_ok bk (rc' (len (bs st))) blk ->
  n_alloc st' + n_free st + n_leak st + p = n_alloc st + n_free st' + n_leak st' + p' + ho (Some blk) ->
  BInv bk st' rc' p'.
Proof.
  intros [B1 B2 B3 B4] Eb Ebad Erc Hb Eh. constructor.
  - congruence.
  - intros x blk'. unfold get_b. rewrite Eb, nthN_snoc. destruct (N.eqb_spec x (len (bs st))) as [->|Hne].
    + intros E. inversion E; subst. exact Hb.
    + rewrite Erc by exact Hne. apply B2.
  - intros x. unfold get_b. rewrite Eb, nthN_snoc. destruct (N.eqb_spec x (len (bs st))) as [->|Hne].
    + discriminate.
    + rewrite Erc by exact Hne. apply B3.
  - rewrite Eb, heap_objects_snoc. lia.
Qed.

(** ** frames: what a helper leaves alone *)
Record Frame (st st' : state) : Prop := {
  fr_hs : hs st' = hs st;
  fr_srcs : exists ext, srcs st' = srcs st ++ ext
}.

Lemma Frame_refl st : Frame st st.
Proof. constructor; [reflexivity | exists []; now rewrite app_nil_r]. Qed.

Lemma Frame_trans st1 st2 st3 : Frame st1 st2 -> Frame st2 st3 -> Frame st1 st3.
Proof.
  intros [H1 [e1 S1]] [H2 [e2 S2]]. constructor; [congruence|].
  exists (e1 ++ e2). rewrite S2, S1, app_assoc. reflexivity.
Qed.

Lemma Frame_intro st st' : hs st' = hs st -> srcs st' = srcs st -> Frame st st'.
Proof. intros H S. constructor; [exact H | exists []; now rewrite app_nil_r]. Qed.

Lemma Frame_get_src st st' s : Frame st st' -> s < len (srcs st) -> get_src st' s = get_src st s.
Proof. intros [_ [e S]] H. unfold get_src at 1. rewrite S. apply get_src_app. exact H. Qed.

Lemma Frame_srcs_len st st' : Frame st st' -> len (srcs st) <= len (srcs st').
Proof. intros [_ [e S]]. rewrite S, len_app. lia. Qed.

(** block [b], if live, stays live with the same bytes *)
Definition blk_keeps (st st' : state) (b : N) : Prop :=
  forall blk, get_b st b = Some blk -> exists blk', get_b st' b = Some blk' /\ vdata blk' = vdata blk.
Definition all_kept (st st' : state) : Prop := forall b, blk_keeps st st' b.
(** every block with a reference other than [r] is kept *)
Definition others_kept (rc : N -> N) (r : repr) (st st' : state) : Prop :=
  forall b, 1 <= rc b - pt b r -> blk_keeps st st' b.
Definition counted (rc : N -> N) (r : repr) : Prop := forall b, pt b r <= rc b.

Lemma blk_keeps_refl st b : blk_keeps st st b.
Proof. intros blk H. exists blk. auto. Qed.
Lemma blk_keeps_trans st1 st2 st3 b : blk_keeps st1 st2 b -> blk_keeps st2 st3 b -> blk_keeps st1 st3 b.
Proof.
  intros H1 H2 blk Hb. destruct (H1 _ Hb) as (blk' & Hb' & E'). destruct (H2 _ Hb') as (blk'' & Hb'' & E'').
  exists blk''. split; [exact Hb'' | congruence].
Qed.
Lemma all_kept_refl st : all_kept st st.
Proof. intros b. apply blk_keeps_refl. Qed.
Lemma all_kept_trans st1 st2 st3 : all_kept st1 st2 -> all_kept st2 st3 -> all_kept st1 st3.
Proof. intros H1 H2 b. eapply blk_keeps_trans; eauto. Qed.
Lemma all_kept_others rc r st st' : all_kept st st' -> others_kept rc r st st'.
Proof. intros H b _. apply H. Qed.
Lemma blk_keeps_same st st' b : get_b st' b = get_b st b -> blk_keeps st st' b.
Proof. intros E blk H. exists blk. split; congruence. Qed.
Lemma all_kept_same_bs st st' : bs st' = bs st -> all_kept st st'.
Proof. intros E b. apply blk_keeps_same. unfold get_b. now rewrite E. Qed.

(** a representation whose block is kept stays well-formed, with the same view *)
Lemma repr_keep st st' r :
  Frame st st' -> (forall b, 1 <= pt b r -> blk_keeps st st' b) ->
  repr_ok st r -> repr_ok st' r /\ view_r st' r = view_r st r.
Proof.
  intros F K Hok. destruct r as [d|s off n|b off n]; cbn [repr_ok view_r] in *.
  - auto.
  - destruct Hok as [Hs Hl]. rewrite (Frame_get_src _ _ _ F Hs).
    pose proof (Frame_srcs_len _ _ F). repeat split; auto; lia.
  - destruct Hok as (blk & Hb & Hl). assert (Kb : blk_keeps st st' b) by (apply K; rewrite pt_self; lia).
    destruct (Kb _ Hb) as (blk' & Hb' & E).
    split.
    + exists blk'. split; [exact Hb' | now rewrite E].
    + rewrite Hb', Hb, E. reflexivity.
Qed.

Lemma repr_ok_len st r : repr_ok st r -> len (view_r st r) = rlen r.
Proof.
  destruct r as [d|s off n|b off n]; cbn [repr_ok view_r rlen].
  - reflexivity.
  - intros [_ H]. apply len_sub'. exact H.
  - intros (blk & -> & H). apply len_sub'. exact H.
Qed.

Lemma normalized_nonalloc r : is_alloc r = false -> normalized r = true.
Proof. destruct r; cbn [is_alloc]; intros; try discriminate; reflexivity. Qed.

Lemma normalized_alloc b off n : normalized (RAlloc b off n) = (INLINE_CAP <? n).
Proof. reflexivity. Qed.

(** ** fresh_block *)
Lemma fresh_block_spec st d cap adopt st' b' :
  fresh_block st d cap adopt = (st', b') ->
  b' = len (bs st) /\ Frame st st' /\ all_kept st st' /\ get_b st b' = None
  /\ get_b st' b' = Some (mkBlock d cap 0 0)
  /\ (forall bk rc p p0 off n, BInv bk st rc p0 -> p0 = p + (if adopt then buf_count cap else 0) -> len d <= cap ->
        BInv bk st' (fun x => rc x + pt x (RAlloc b' off n)) p).
Proof.
  unfold fresh_block, new_b. intros E. inversion E; subst st' b'; clear E.
  split; [reflexivity|]. split; [apply Frame_intro; reflexivity|].
  split.
  { intros b blk H. exists blk. split; [|reflexivity]. unfold get_b. sproj.
    rewrite nthN_app_l; [exact H | eapply get_b_lt; exact H]. }
  split; [apply get_b_fresh|].
  split. { unfold get_b. sproj. apply nthN_snoc_new. }
  intros bk rc p p0 off n B -> Hl.
  eapply binv_snoc; [exact B | reflexivity | reflexivity | | |].
  - intros x Hx. cbn beta. rewrite pt_other by congruence. lia.
  - cbn beta. rewrite pt_self. rewrite (bi_none _ _ _ _ B _ (get_b_fresh st)).
    unfold blk_ok; cbn [vdata vcap cnt phantom]. unfold UMAX. repeat split; try lia; auto.
  - sproj. cbn [ho vcap]. destruct adopt; lia.
Qed.

(** ** attach *)
Lemma attach_spec bk st b blk :
  get_b st b = Some blk -> can_incr bk (cnt blk) = true ->
  Frame st (attach st b) /\ all_kept st (attach st b)
  /\ (forall rc p off n, BInv bk st rc p -> BInv bk (attach st b) (fun x => rc x + pt x (RAlloc b off n)) p).
Proof.
  intros Hb Hc. unfold attach. rewrite Hb.
  split; [apply Frame_intro; reflexivity|]. split.
  - intros x blkx Hx. unfold get_b. sproj. destruct (N.eq_dec x b) as [->|Hne].
    + rewrite nthN_upd_eq by (eapply get_b_lt; exact Hb). eexists. split; [reflexivity|].
      cbn [vdata]. congruence.
    + rewrite nthN_upd_neq by congruence. exists blkx. auto.
  - intros rc p off n B.
    eapply binv_upd with (o := Some blk); [exact B | apply get_b_nth; exact Hb | reflexivity | reflexivity | | |].
    + intros x Hx. cbn beta. rewrite pt_other by congruence. lia.
    + cbn beta. rewrite pt_self. destruct (bi_b _ _ _ _ B _ _ Hb) as (H1 & H2 & H3 & H4).
      unfold blk_ok; cbn [vdata vcap cnt phantom]. destruct bk; cbn [can_incr] in Hc; try discriminate;
        repeat split; try lia; intros; discriminate.
    + sproj. cbn [ho vcap]. lia.
Qed.

(** ** detach *)
Lemma detach_spec bk st b blk rc p off n :
  BInv bk st rc p -> get_b st b = Some blk -> 1 <= rc b ->
  Frame st (detach bk st b) /\ others_kept rc (RAlloc b off n) st (detach bk st b)
  /\ BInv bk (detach bk st b) (fun x => rc x - pt x (RAlloc b off n)) p
  /\ (forall b', b' <> b -> get_b (detach bk st b) b' = get_b st b').
Proof.
  intros B Hb Hrc. unfold detach. rewrite Hb.
  pose proof (bi_b _ _ _ _ B _ _ Hb) as Hok.
  destruct (is_unique_c bk (cnt blk)) eqn:U.
  - destruct (unique_rc _ _ _ Hok U Hrc) as (R1 & C0 & P0).
    split; [apply Frame_intro; reflexivity|]. split; [|split].
    + intros x Hx. destruct (N.eq_dec x b) as [->|Hne].
      * rewrite pt_self in Hx. lia.
      * apply blk_keeps_same. unfold get_b. sproj. rewrite nthN_upd_neq by congruence. reflexivity.
    + eapply binv_upd with (o := Some blk); [exact B | apply get_b_nth; exact Hb | reflexivity | reflexivity | | |].
      * intros x Hx. cbn beta. rewrite pt_other by congruence. lia.
      * cbn beta. rewrite pt_self. lia.
      * sproj. cbn [ho]. lia.
    + intros b' Hne. unfold get_b. sproj. rewrite nthN_upd_neq by congruence. reflexivity.
  - split; [apply Frame_intro; reflexivity|]. split; [|split].
    + intros x _ blkx Hx. unfold get_b. sproj. destruct (N.eq_dec x b) as [->|Hne].
      * rewrite nthN_upd_eq by (eapply get_b_lt; exact Hb). eexists. split; [reflexivity|].
        cbn [vdata]. congruence.
      * rewrite nthN_upd_neq by congruence. exists blkx. auto.
    + eapply binv_upd with (o := Some blk); [exact B | apply get_b_nth; exact Hb | reflexivity | reflexivity | | |].
      * intros x Hx. cbn beta. rewrite pt_other by congruence. lia.
      * cbn beta. rewrite pt_self. destruct Hok as (H1 & H2 & H3 & H4).
        unfold blk_ok; cbn [vdata vcap cnt phantom].
        destruct bk; cbn [is_unique_c] in U; try discriminate; repeat split; try lia; intros; discriminate.
      * sproj. cbn [ho vcap]. lia.
    + intros b' Hne. unfold get_b. sproj. rewrite nthN_upd_neq by congruence. reflexivity.
Qed.

(** ** drop_repr *)
Lemma drop_repr_spec bk st r rc p :
  BInv bk st rc p -> repr_ok st r -> counted rc r ->
  Frame st (drop_repr bk st r) /\ others_kept rc r st (drop_repr bk st r)
  /\ BInv bk (drop_repr bk st r) (fun x => rc x - pt x r) p.
Proof.
  intros B Hok Hc. destruct r as [d|s off n|b off n]; cbn [drop_repr].
  - split; [apply Frame_refl|]. split; [intros x _; apply blk_keeps_refl|].
    eapply BInv_ext; [exact B|]. intros x. cbn [pt]. lia.
  - split; [apply Frame_refl|]. split; [intros x _; apply blk_keeps_refl|].
    eapply BInv_ext; [exact B|]. intros x. cbn [pt]. lia.
  - destruct Hok as (blk & Hb & _). specialize (Hc b). rewrite pt_self in Hc.
    destruct (detach_spec bk st b blk rc p off n B Hb Hc) as (F & K & B' & _). auto.
Qed.

(** ** producers: a new representation [r] with view [v] appears; nothing else changes *)
Record Produces (bk : backend) (st st' : state) (r : repr) (v : list N) : Prop := {
  pr_frame : Frame st st';
  pr_kept : all_kept st st';
  pr_ok : repr_ok st' r;
  pr_view : view_r st' r = v;
  pr_binv : forall rc p, BInv bk st rc p -> BInv bk st' (fun x => rc x + pt x r) p
}.

Lemma binv_add0 bk st rc p r : (forall x, pt x r = 0) -> BInv bk st rc p -> BInv bk st (fun x => rc x + pt x r) p.
Proof. intros H B. eapply BInv_ext; [exact B|]. intros x. cbn beta. rewrite H. lia. Qed.

Lemma produces_inline bk st d : len d <= INLINE_CAP -> Produces bk st st (RInline d) d.
Proof.
  intros H. constructor; [apply Frame_refl | apply all_kept_refl | exact H | reflexivity |].
  intros rc p. apply binv_add0. reflexivity.
Qed.

(** a fresh block holding [d] in full *)
Lemma produces_fresh bk st d cap n st' b' :
  fresh_block st d cap false = (st', b') -> len d = n -> n <= cap ->
  Produces bk st st' (RAlloc b' 0 n) d /\ get_b st' b' = Some (mkBlock d cap 0 0) /\ b' = len (bs st).
Proof.
  intros E Hl Hc. destruct (fresh_block_spec _ _ _ _ _ _ E) as (Eb & F & K & Hn & Hg & HB).
  split; [|auto]. constructor; auto.
  - cbn [repr_ok]. eexists. split; [exact Hg|]. cbn [vdata]. lia.
  - cbn [view_r]. rewrite Hg. cbn [vdata]. apply sub_all. exact Hl.
  - intros rc p B. eapply HB; [exact B | lia | lia].
Qed.

Lemma from_slice_spec bk st x st' r :
  from_slice st x = (st', r) ->
  Produces bk st st' r x /\ normalized r = true /\ grants_mut bk st' r = true /\ rlen r = len x.
Proof.
  unfold from_slice. destruct (len x <=? INLINE_CAP) eqn:C.
  - intros E; inversion E; subst. split; [apply produces_inline; lia|]. auto.
  - destruct (fresh_block st x (len x) false) as [st1 b'] eqn:Ef. intros E; inversion E; subst.
    destruct (produces_fresh bk _ _ _ _ _ _ Ef eq_refl (N.le_refl _)) as (P & Hg & _).
    split; [exact P|]. split; [rewrite normalized_alloc; lia|]. split; [|reflexivity].
    cbn [grants_mut]. rewrite Hg. cbn [cnt]. apply is_unique_0.
Qed.

Lemma from_vec_spec bk st x cap st' r :
  from_vec st x cap = (st', r) -> len x <= cap ->
  Frame st st' /\ all_kept st st' /\ repr_ok st' r /\ view_r st' r = x /\ normalized r = true
  /\ (forall rc p, BInv bk st rc (p + buf_count cap) -> BInv bk st' (fun b => rc b + pt b r) p).
Proof.
  unfold from_vec. intros E Hc. destruct (len x <=? INLINE_CAP) eqn:C.
  - inversion E; subst. split; [apply Frame_intro; reflexivity|]. split; [apply all_kept_same_bs; reflexivity|].
    split; [cbn [repr_ok]; lia|]. split; [reflexivity|]. split; [reflexivity|].
    intros rc p B. apply binv_add0; [reflexivity|].
    eapply binv_cnt; [exact B | reflexivity | reflexivity |]. sproj. lia.
  - destruct (fresh_block st x cap true) as [st1 b'] eqn:Ef. inversion E; subst.
    destruct (fresh_block_spec _ _ _ _ _ _ Ef) as (Eb & F & K & Hn & Hg & HB).
    split; [exact F|]. split; [exact K|]. split; [|split; [|split]].
    + cbn [repr_ok]. eexists. split; [exact Hg|]. cbn [vdata]. lia.
    + cbn [view_r]. rewrite Hg. cbn [vdata]. apply sub_all. reflexivity.
    + rewrite normalized_alloc. lia.
    + intros rc p B. eapply HB; [exact B | reflexivity | exact Hc].
Qed.

(** ** share_or_copy / clone_repr / range_repr *)
Lemma share_or_copy_spec bk st b off' n' v blk st' r :
  share_or_copy bk st b off' n' v = (st', r) ->
  get_b st b = Some blk -> off' + n' <= len (vdata blk) -> v = sub (vdata blk) off' (off' + n') ->
  Produces bk st st' r v /\ rlen r = n' /\ is_alloc r = true.
Proof.
  unfold share_or_copy. intros E Hb Hl Hv. rewrite Hb in E.
  assert (Hlv : len v = n') by (subst v; apply len_sub'; exact Hl).
  destruct (can_incr bk (cnt blk)) eqn:C.
  - inversion E; subst st' r. destruct (attach_spec bk st b blk Hb C) as (F & K & HB).
    split; [|auto]. constructor; auto.
    + destruct (K b _ Hb) as (blk' & Hb' & Ed). cbn [repr_ok]. exists blk'. split; [exact Hb' | now rewrite Ed].
    + destruct (K b _ Hb) as (blk' & Hb' & Ed). cbn [view_r]. rewrite Hb', Ed. auto.
  - destruct (fresh_block st v n' false) as [st1 b'] eqn:Ef. inversion E; subst st' r.
    destruct (produces_fresh bk _ _ _ _ _ _ Ef Hlv (N.le_refl _)) as (P & _). auto.
Qed.

Lemma clone_repr_spec bk st r st' r' :
  clone_repr bk st r = (st', r') -> repr_ok st r ->
  Produces bk st st' r' (view_r st r) /\ rlen r' = rlen r /\ is_alloc r' = is_alloc r /\ normalized r' = normalized r.
Proof.
  intros E Hok. destruct r as [d|s off n|b off n]; cbn [clone_repr] in E.
  - inversion E; subst. split; [apply produces_inline; exact Hok|]. auto.
  - inversion E; subst. split; [|auto]. constructor; [apply Frame_refl | apply all_kept_refl | exact Hok | reflexivity |].
    intros rc p. apply binv_add0. reflexivity.
  - destruct Hok as (blk & Hb & Hl). cbn [view_r] in *. rewrite Hb in E.
    destruct (share_or_copy_spec _ _ _ _ _ _ _ _ _ E Hb Hl eq_refl) as (P & Hr & Ha).
    rewrite Hb. split; [exact P|]. split; [exact Hr|]. split; [exact Ha|].
    destruct r'; cbn [is_alloc] in Ha; try discriminate. cbn [rlen] in Hr. subst. reflexivity.
Qed.

Lemma range_repr_spec bk st r a b st' r' :
  range_repr bk st r a b = (st', r') -> repr_ok st r -> a <= b -> b <= rlen r ->
  Produces bk st st' r' (sub (view_r st r) a b) /\ normalized r' = true.
Proof.
  intros E Hok Hab Hb. destruct r as [d|s off n|blk off n]; cbn [range_repr rlen] in *.
  - inversion E; subst st' r'; clear E. split; [|reflexivity]. apply produces_inline.
    cbn [repr_ok view_r] in *. pose proof (len_sub_le d a b). lia.
  - inversion E; subst st' r'; clear E. split; [|reflexivity]. destruct Hok as [Hs Hl].
    constructor; [apply Frame_refl | apply all_kept_refl | | |].
    + cbn [repr_ok]. split; [exact Hs | lia].
    + cbn [view_r]. rewrite sub_sub by lia. reflexivity.
    + intros rc p. apply binv_add0. reflexivity.
  - destruct (b - a <=? INLINE_CAP) eqn:C.
    + inversion E; subst st' r'; clear E. split; [|reflexivity]. apply produces_inline.
      pose proof (len_sub_le (view_r st (RAlloc blk off n)) a b). lia.
    + destruct Hok as (bl & Hbl & Hl). cbn [view_r] in *. rewrite Hbl in *.
      rewrite sub_sub in E by lia.
      destruct (share_or_copy_spec _ _ _ _ _ _ _ _ _ E Hbl ltac:(lia) eq_refl) as (P & Hr & Ha).
      rewrite sub_sub by lia. split; [exact P|].
      destruct r'; cbn [is_alloc] in Ha; try discriminate. cbn [rlen] in Hr. rewrite normalized_alloc. lia.
Qed.

(** ** make_unique: consumes [r], produces a uniquely owned [r1] with the same view *)
Lemma make_unique_spec bk st r st1 r1 rc p :
  make_unique bk st r = (st1, r1) -> BInv bk st rc p -> repr_ok st r -> counted rc r ->
  Frame st st1 /\ others_kept rc r st st1
  /\ BInv bk st1 (fun x => rc x - pt x r + pt x r1) p
  /\ repr_ok st1 r1 /\ view_r st1 r1 = view_r st r /\ grants_mut bk st1 r1 = true /\ rlen r1 = rlen r
  /\ (normalized r = true -> normalized r1 = true).
Proof.
  intros E B Hok Hc. destruct r as [d|s off n|b off n]; cbn [make_unique] in E.
  - inversion E; subst. split; [apply Frame_refl|]. split; [intros x _; apply blk_keeps_refl|].
    split; [eapply BInv_ext; [exact B|]; intros x; cbn [pt]; lia|]. auto.
  - destruct (from_slice_spec bk _ _ _ _ E) as ([F K Ok V HB] & Hn & Hg & Hr).
    split; [exact F|]. split; [apply all_kept_others; exact K|].
    split; [eapply BInv_ext; [apply HB; exact B|]; intros x; cbn [pt]; lia|].
    split; [exact Ok|]. split; [exact V|]. split; [exact Hg|]. split; [|auto].
    rewrite Hr. apply repr_ok_len. exact Hok.
  - pose proof Hok as (blk & Hb & Hl). rewrite Hb in E.
    destruct (is_unique_c bk (cnt blk)) eqn:U.
    + inversion E; subst. split; [apply Frame_refl|]. split; [intros x _; apply blk_keeps_refl|].
      split; [eapply BInv_ext; [exact B|]; intros x; cbn beta; pose proof (Hc x); lia|].
      split; [exact Hok|]. split; [reflexivity|]. split; [|auto]. cbn [grants_mut]. rewrite Hb. exact U.
    + destruct (fresh_block st (view_r st (RAlloc b off n)) n false) as [st0 b'] eqn:Ef.
      inversion E; subst st1 r1; clear E.
      assert (Hlv : len (view_r st (RAlloc b off n)) = n) by (apply (repr_ok_len _ _ Hok)).
      destruct (produces_fresh bk _ _ _ _ _ _ Ef Hlv (N.le_refl _)) as ([F K Ok V HB] & Hg & Eb').
      destruct (K b _ Hb) as (blk0 & Hb0 & Ed0).
      pose proof (Hc b) as Hcb. rewrite pt_self in Hcb.
      assert (Hne : b' <> b) by (pose proof (get_b_lt _ _ _ Hb); lia).
      destruct (detach_spec bk st0 b blk0 _ p off n (HB _ _ B) Hb0 ltac:(cbn beta; lia)) as (F' & K' & B' & G').
      split; [eapply Frame_trans; eauto|]. split; [|split; [|split; [|split; [|split; [|split]]]]].
      * intros x Hx. eapply blk_keeps_trans; [apply K|]. apply K'. cbn beta.
        pose proof (pt_le1 x (RAlloc b' 0 n)). lia.
      * eapply BInv_ext; [exact B'|]. intros x. cbn beta. pose proof (Hc x). lia.
      * cbn [repr_ok]. rewrite G' by exact Hne. rewrite Hg. eexists. split; [reflexivity|]. cbn [vdata]. lia.
      * cbn [view_r] in *. rewrite G' by exact Hne. rewrite Hg. cbn [vdata]. rewrite Hb in *. apply sub_all. exact Hlv.
      * cbn [grants_mut]. rewrite G' by exact Hne. rewrite Hg. cbn [cnt]. apply is_unique_0.
      * reflexivity.
      * auto.
Qed.

(** ** write_repr through a representation that grants mutable access *)
Lemma write_repr_spec bk st r f st' r' rc p :
  write_repr st r f = (st', r') -> BInv bk st rc p -> repr_ok st r -> counted rc r ->
  grants_mut bk st r = true -> (forall d, len (f d) = len d) ->
  Frame st st' /\ others_kept rc r st st' /\ BInv bk st' rc p /\ (forall x, pt x r' = pt x r)
  /\ repr_ok st' r' /\ view_r st' r' = f (view_r st r) /\ rlen r' = rlen r
  /\ is_alloc r' = is_alloc r /\ normalized r' = normalized r.
Proof.
  intros E B Hok Hc G Hf. destruct r as [d|s off n|b off n]; cbn [write_repr grants_mut] in *.
  - inversion E; subst. split; [apply Frame_refl|]. split; [intros x _; apply blk_keeps_refl|].
    split; [exact B|]. split; [reflexivity|]. cbn [repr_ok view_r rlen is_alloc] in *. rewrite Hf.
    repeat split; auto.
  - discriminate.
  - destruct Hok as (blk & Hb & Hl). rewrite Hb in *. inversion E; subst st' r'; clear E.
    pose proof (bi_b _ _ _ _ B _ _ Hb) as Hblk.
    pose proof (Hc b) as Hcb. rewrite pt_self in Hcb.
    destruct (unique_rc _ _ _ Hblk G Hcb) as (R1 & C0 & P0).
    set (d' := firstn (N.to_nat off) (vdata blk) ++ f (sub (vdata blk) off (off + n)) ++ skipn (N.to_nat (off + n)) (vdata blk)).
    assert (Hoff : len (firstn (N.to_nat off) (vdata blk)) = off) by (apply len_firstn_le; lia).
    assert (Hmid : len (f (sub (vdata blk) off (off + n))) = n) by (rewrite Hf; apply len_sub'; exact Hl).
    assert (Hd' : len d' = len (vdata blk)).
    { unfold d'. rewrite !len_app, Hoff, Hmid, len_skipn. lia. }
    assert (Hg : get_b (set_b st b (Some (mkBlock d' (vcap blk) (cnt blk) (phantom blk)))) b
                 = Some (mkBlock d' (vcap blk) (cnt blk) (phantom blk))).
    { unfold get_b. sproj. apply nthN_upd_eq. eapply get_b_lt; exact Hb. }
    split; [apply Frame_intro; reflexivity|]. split; [|split; [|split; [|split; [|split]]]].
    + intros x Hx. destruct (N.eq_dec x b) as [->|Hne].
      * rewrite pt_self in Hx. lia.
      * apply blk_keeps_same. unfold get_b. sproj. rewrite nthN_upd_neq by congruence. reflexivity.
    + eapply binv_upd with (o := Some blk); [exact B | apply get_b_nth; exact Hb | reflexivity | reflexivity | | |].
      * reflexivity.
      * destruct Hblk as (H1 & H2 & H3 & H4). unfold blk_ok; cbn [vdata vcap cnt phantom].
        rewrite Hd'. auto.
      * sproj. cbn [ho vcap]. lia.
    + reflexivity.
    + cbn [repr_ok]. eexists. split; [exact Hg|]. cbn [vdata]. lia.
    + cbn [view_r]. rewrite Hg, Hb. cbn [vdata]. unfold d'. apply sub_mid; assumption.
    + auto.
Qed.

(** ** the Vec inside a mutate guard *)
Lemma resize_events_spec st cap cap' :
  let st' := resize_events st cap cap' in
  hs st' = hs st /\ bs st' = bs st /\ srcs st' = srcs st /\ bad st' = bad st /\ n_leak st' = n_leak st
  /\ n_alloc st' + n_free st + buf_count cap = n_alloc st + n_free st' + buf_count cap'.
Proof.
  unfold resize_events, buf_count.
  destruct (N.eqb_spec cap' cap); [subst; repeat split; lia|].
  destruct (N.eqb_spec cap 0); [destruct (N.eqb_spec cap' 0); sproj; repeat split; lia|].
  destruct (N.eqb_spec cap' 0); sproj; repeat split; lia.
Qed.

Lemma binv_resize bk st rc p cap cap' :
  BInv bk st rc (p + buf_count cap) -> BInv bk (resize_events st cap cap') rc (p + buf_count cap').
Proof.
  intros B. destruct (resize_events_spec st cap cap') as (H1 & H2 & H3 & H4 & H5 & H6).
  eapply binv_cnt; [exact B | exact H2 | exact H4 |]. lia.
Qed.

Lemma reserve_cap_ge l cap add : l <= cap -> l + add <= reserve_cap l cap add.
Proof. intros H. unfold reserve_cap, grow. destruct (cap - l <? add) eqn:C; lia. Qed.

Lemma vec_step_spec bk st d cap o st' d' cap' rc p :
  vec_step (st, (d, cap)) o = (st', (d', cap')) -> BInv bk st rc (p + buf_count cap) -> len d <= cap ->
  BInv bk st' rc (p + buf_count cap') /\ len d' <= cap' /\ d' = vec_spec d o
  /\ hs st' = hs st /\ bs st' = bs st /\ srcs st' = srcs st.
Proof.
  intros E B Hl. destruct o as [x|x|n| |n| ]; cbn [vec_step vec_spec] in *;
    injection E as E1 E2 E3; subst st' d' cap'.
  - pose proof (reserve_cap_ge (len d) cap 1 Hl).
    destruct (resize_events_spec st cap (reserve_cap (len d) cap 1)) as (H1 & H2 & H3 & _).
    split; [apply binv_resize; exact B|]. rewrite len_app, len_cons, len_nil. repeat split; auto; lia.
  - pose proof (reserve_cap_ge (len d) cap (len x) Hl).
    destruct (resize_events_spec st cap (reserve_cap (len d) cap (len x))) as (H1 & H2 & H3 & _).
    split; [apply binv_resize; exact B|]. rewrite len_app. repeat split; auto; lia.
  - split; [exact B|]. rewrite len_firstn. repeat split; auto; lia.
  - split; [exact B|]. rewrite len_nil. repeat split; auto; lia.
  - pose proof (reserve_cap_ge (len d) cap n Hl).
    destruct (resize_events_spec st cap (reserve_cap (len d) cap n)) as (H1 & H2 & H3 & _).
    split; [apply binv_resize; exact B|]. repeat split; auto; lia.
  - destruct (resize_events_spec st cap (if len d <? cap then len d else cap)) as (H1 & H2 & H3 & _).
    split; [apply binv_resize; exact B|]. destruct (len d <? cap) eqn:C; repeat split; auto; lia.
Qed.

Lemma vec_fold_spec bk script : forall st d cap st' d' cap' rc p,
  fold_left vec_step script (st, (d, cap)) = (st', (d', cap')) -> BInv bk st rc (p + buf_count cap) -> len d <= cap ->
  BInv bk st' rc (p + buf_count cap') /\ len d' <= cap' /\ d' = fold_left vec_spec script d
  /\ hs st' = hs st /\ bs st' = bs st /\ srcs st' = srcs st.
Proof.
  induction script as [|o script IH]; intros st d cap st' d' cap' rc p E B Hl; cbn [fold_left] in *.
  - injection E as E1 E2 E3; subst st' d' cap'. split; [exact B|]. repeat split; auto.
  - destruct (vec_step (st, (d, cap)) o) as [st1 [d1 cap1]] eqn:E1.
    destruct (vec_step_spec _ _ _ _ _ _ _ _ _ _ E1 B Hl) as (B1 & L1 & D1 & Hh1 & Hb1 & Hs1).
    destruct (IH _ _ _ _ _ _ _ _ E B1 L1) as (B2 & L2 & D2 & Hh2 & Hb2 & Hs2).
    subst d1. split; [exact B2|]. split; [exact L2|]. split; [exact D2|]. repeat split; congruence.
Qed.

(** ** take_vec: consumes [r]; its bytes move into a Vec of capacity [cap] held outside the block table *)
Lemma take_vec_spec bk st h r st1 d cap rc p :
  take_vec bk st h r = (st1, (d, cap)) -> BInv bk st rc p -> repr_ok st r -> counted rc r ->
  Frame st st1 /\ others_kept rc r st st1 /\ BInv bk st1 (fun x => rc x - pt x r) (p + buf_count cap)
  /\ d = view_r st r /\ len d <= cap.
Proof.
  intros E B Hok Hc.
  assert (Hcopy : forall st0, BInv bk st0 rc p ->
     BInv bk (add_alloc st0 (if len (view_r st r) =? 0 then 0 else 1)) rc (p + buf_count (len (view_r st r)))).
  { intros st0 B0. eapply binv_cnt; [exact B0 | reflexivity | reflexivity |]. sproj. unfold buf_count. lia. }
  destruct r as [dd|s off n|b off n]; cbn [take_vec] in E.
  - inversion E; subst. split; [apply Frame_intro; reflexivity|].
    split; [intros x _; apply blk_keeps_same; reflexivity|].
    split; [eapply BInv_ext; [apply Hcopy; exact B|]; intros x; cbn [pt]; lia|]. split; [reflexivity | lia].
  - inversion E; subst. split; [apply Frame_intro; reflexivity|].
    split; [intros x _; apply blk_keeps_same; reflexivity|].
    split; [eapply BInv_ext; [apply Hcopy; exact B|]; intros x; cbn [pt]; lia|]. split; [reflexivity | lia].
  - pose proof Hok as (blk & Hb & Hl). rewrite Hb in E.
    pose proof (bi_b _ _ _ _ B _ _ Hb) as Hblk.
    pose proof (Hc b) as Hcb. rewrite pt_self in Hcb.
    destruct ((off =? 0) && is_unique_c bk (cnt blk)) eqn:C.
    + apply andb_prop in C. destruct C as [C0 U]. apply N.eqb_eq in C0. subst off.
      inversion E; subst st1 d cap; clear E.
      destruct (unique_rc _ _ _ Hblk U Hcb) as (R1 & C0 & P0).
      split; [apply Frame_intro; reflexivity|]. split; [|split; [|split]].
      * intros x Hx. destruct (N.eq_dec x b) as [->|Hne].
        -- rewrite pt_self in Hx. lia.
        -- apply blk_keeps_same. unfold get_b. sproj. rewrite nthN_upd_neq by congruence. reflexivity.
      * eapply binv_upd with (o := Some blk) (o' := None) (b := b);
          [exact B | apply get_b_nth; exact Hb | reflexivity | reflexivity | | |].
        -- intros x Hx. cbn beta. rewrite pt_other by congruence. lia.
        -- cbn beta. rewrite pt_self. lia.
        -- sproj. cbn [ho]. lia.
      * cbn [view_r]. rewrite Hb. symmetry. apply sub_0'.
      * destruct Hblk as (H1 & _). rewrite len_firstn. lia.
    + set (v := view_r st (RAlloc b off n)) in *.
      inversion E; subst st1 d cap; clear E.
      set (st0 := add_alloc st (if len v =? 0 then 0 else 1)).
      assert (B0 : BInv bk st0 rc (p + buf_count (len v))) by (apply Hcopy; exact B).
      assert (Hb0 : get_b st0 b = Some blk) by exact Hb.
      destruct (detach_spec bk st0 b blk rc _ off n B0 Hb0 Hcb) as (F' & K' & B' & _).
      split; [eapply Frame_trans; [|exact F']; apply Frame_intro; reflexivity|].
      split; [|split; [exact B'|split; [reflexivity | lia]]].
      intros x Hx. eapply blk_keeps_trans; [|apply K'; exact Hx]. apply blk_keeps_same. reflexivity.
Qed.
