(** * VecSpec: [Vec<T>] on lists of values, with the capacity rule of the modelled kind (C13);
      the soundness invariant of the slot-level model (C14, C15).  Definitions only. *)
From Hip Require Import Base Range VecModel.
Local Open Scope nat_scope.

(** ** the std specification: vectors are lists of values *)
Definition sp_state := list (option (list N)).

Inductive sout :=
| SUnit | SNewV (v : N) | SNone | SItem (x : N) | SItems (xs : list N) | SRejected (x : N) (full : bool)
| SRangeErr | SPanicked | SSkip.

Definition sgetv (sp : sp_state) (i : N) : option (list N) :=
  match nth_error sp (N.to_nat i) with Some (Some l) => Some l | _ => None end.
Definition ssetv (sp : sp_state) (i : N) (l : option (list N)) : sp_state := updn sp (N.to_nat i) l.
Definition saddv (sp : sp_state) (l : list N) : sp_state * sout := (sp ++ [Some l], SNewV (len sp)).

(** [None]: unbounded (ThinVec); [Some c]: fixed capacity (InlineVec) *)
Definition cap_of (k : kind) : option nat := match k with KInline c => Some c | KThin => None end.
Definition fits (k : kind) (n : nat) : bool := match cap_of k with Some c => Nat.leb n c | None => true end.
Definition src_val (id : N) : N := (id - SRC_BASE)%N.

Fixpoint insert_at {A} (l : list A) (i : nat) (x : A) : list A :=
  match i, l with
  | O, _ => x :: l
  | S i', y :: r => y :: insert_at r i' x
  | S _, [] => [x]
  end.
Fixpoint remove_at {A} (l : list A) (i : nat) : list A :=
  match i, l with
  | _, [] => []
  | O, _ :: r => r
  | S i', y :: r => y :: remove_at r i'
  end.

(** the longest prefix of [xs] that still fits after [n] elements *)
Definition prefix_fit (k : kind) (n : nat) (xs : list N) : list N :=
  match cap_of k with Some c => firstn (c - n) xs | None => xs end.

(** One operation on the std model.  After a capacity panic of an appending operation the vector holds its previous
    elements followed by the prefix that fitted (what the property allows: "at most a prefix of the items being appended"). *)
Definition vspec (k : kind) (sp : sp_state) (o : vop) : sp_state * sout :=
  let with_l i (f : list N -> sp_state * sout) := match sgetv sp i with Some l => f l | None => (sp, SSkip) end in
  let thin := match k with KThin => true | _ => false end in
  match o with
  | XNew => saddv sp []
  | XWithCap _ => if thin then saddv sp [] else (sp, SSkip)
  | XFromSlice srcs => if fits k (length srcs) then saddv sp (map src_val srcs) else (sp, SPanicked)
  | XFromIter vs hint => if fits k hint && fits k (length vs) then saddv sp vs else (sp, SPanicked)
  | XPush v x => with_l v (fun l => if fits k (S (length l)) then (ssetv sp v (Some (l ++ [x])), SUnit) else (sp, SPanicked))
  | XTryPush v x => with_l v (fun l =>
      if thin then (sp, SSkip) else if fits k (S (length l)) then (ssetv sp v (Some (l ++ [x])), SUnit) else (sp, SRejected x true))
  | XPop v => with_l v (fun l =>
      match rev l with [] => (sp, SNone) | x :: r => (ssetv sp v (Some (rev r)), SItem x) end)
  | XPopIf v r => with_l v (fun l =>
      if thin then (sp, SSkip) else
      match rev l with
      | [] => (sp, SNone)
      | x :: rest => if r then (ssetv sp v (Some (rev rest)), SItem x) else (sp, SNone)
      end)
  | XInsert v i x => with_l v (fun l =>
      if Nat.ltb (length l) i then (sp, SPanicked)
      else if fits k (S (length l)) then (ssetv sp v (Some (insert_at l i x)), SUnit) else (sp, SPanicked))
  | XTryInsert v i x => with_l v (fun l =>
      if thin then (sp, SSkip)
      else if Nat.ltb (length l) i then (sp, SRejected x false)
      else if fits k (S (length l)) then (ssetv sp v (Some (insert_at l i x)), SUnit) else (sp, SRejected x true))
  | XRemove v i => with_l v (fun l =>
      if Nat.ltb i (length l) then (ssetv sp v (Some (remove_at l i)), SItem (nth i l 0%N)) else (sp, SPanicked))
  | XSwapRemove v i => with_l v (fun l =>
      if Nat.ltb i (length l)
      then (ssetv sp v (Some (removelast (updn l i (last l 0%N)))), SItem (nth i l 0%N))
      else (sp, SPanicked))
  | XTruncate v n => with_l v (fun l => (ssetv sp v (Some (firstn n l)), SUnit))
  | XClear v => with_l v (fun l => (ssetv sp v (Some []), SUnit))
  | XResize v n x => with_l v (fun l =>
      if Nat.ltb (length l) n
      then if fits k n then (ssetv sp v (Some (l ++ repeat x (n - length l))), SUnit) else (sp, SPanicked)
      else (ssetv sp v (Some (firstn n l)), SUnit))
  | XResizeWith v n x => with_l v (fun l =>
      if thin then (sp, SSkip)
      else if Nat.ltb (length l) n
      then if fits k n then (ssetv sp v (Some (l ++ repeat x (n - length l))), SUnit) else (sp, SPanicked)
      else (ssetv sp v (Some (firstn n l)), SUnit))
  | XExtendFromSlice v srcs => with_l v (fun l =>
      if fits k (length l + length srcs) then (ssetv sp v (Some (l ++ map src_val srcs)), SUnit) else (sp, SPanicked))
  | XExtendFromWithin v s e => with_l v (fun l =>
      match to_range s e (length l) with
      | None => (sp, SRangeErr)
      | Some (a, b) =>
        if fits k (length l + (b - a)) then (ssetv sp v (Some (l ++ firstn (b - a) (skipn a l))), SUnit) else (sp, SPanicked)
      end)
  | XExtendIter v vs _ => with_l v (fun l =>
      if fits k (length l + length vs) then (ssetv sp v (Some (l ++ vs)), SUnit)
      else (ssetv sp v (Some (l ++ prefix_fit k (length l) vs)), SPanicked))
  | XAppend v o' => with_l v (fun l =>
      if N.eqb v o' then (sp, SSkip) else
      match sgetv sp o' with
      | None => (sp, SSkip)
      | Some l2 =>
        if fits k (length l + length l2) then (ssetv (ssetv sp v (Some (l ++ l2))) o' (Some []), SUnit) else (sp, SPanicked)
      end)
  | XSplitOff v at_ => with_l v (fun l =>
      if Nat.ltb (length l) at_ then (sp, SPanicked)
      else saddv (ssetv sp v (Some (firstn at_ l))) (skipn at_ l))
  | XDrain v s e front back forget => with_l v (fun l =>
      match to_range s e (length l) with
      | None => (sp, SRangeErr)
      | Some (a, b) =>
        let f := Nat.min front (b - a) in
        let bk := Nat.min back (b - a - f) in
        let got := firstn f (skipn a l) ++ rev (firstn bk (skipn (b - bk) l)) in
        (ssetv sp v (Some (if forget then firstn a l else firstn a l ++ skipn b l)), SItems got)
      end)
  | XIntoIter v front back => with_l v (fun l =>
      if thin then (sp, SSkip) else
      let n := length l in
      let f := Nat.min front n in
      let bk := Nat.min back (n - f) in
      (ssetv sp v None, SItems (firstn f l ++ rev (firstn bk (skipn (n - bk) l)))))
  | XCloneV v => with_l v (fun l => if thin then (sp, SSkip) else saddv sp l)
  | XReserve v _ | XReserveExact v _ | XShrinkTo v _ | XShrinkToFit v => with_l v (fun l => if thin then (sp, SUnit) else (sp, SSkip))
  | XDropV v => with_l v (fun l => (ssetv sp v None, SUnit))
  end.

(** ** abstraction of a model state and of an output *)
Definition vals_of (w : world) (ids : list N) : list N := map (val_of w) ids.
Definition vabs (s : vstate) : sp_state := map (option_map (fun v => vals_of (wd s) (elems v))) (pool s).
Definition out_abs (w : world) (u : vout) : sout :=
  match u with
  | VUnit => SUnit | VNewV v => SNewV v | VNone => SNone | VItem id => SItem (val_of w id) | VItems ids => SItems (vals_of w ids)
  | VRejected id f => SRejected (val_of w id) f | VRangeErr => SRangeErr | VPanicked => SPanicked | VSkip => SSkip
  end.

(** ** the soundness invariant (C14, C15) *)
Definition pool_vecs (p : list (option vec)) : list vec := flat_map (fun o => match o with Some v => [v] | None => [] end) p.
(** every identity reachable from a vector's initialised prefix, or handed back to the caller *)
Definition reachable (s : vstate) : list N := flat_map elems (pool_vecs (pool s)) ++ handed s.

Definition vec_sound (k : kind) (v : vec) : Prop :=
  vlen v <= vcapn v                                      (* the length never exceeds the buffer *)
  /\ length (elems v) = vlen v                           (* every slot below the length is initialised *)
  /\ (match k with KInline c => vcapn v = c | KThin => True end).

Fixpoint drop_ids (l : list ev) : list N :=
  match l with [] => [] | EvDrop id :: r => id :: drop_ids r | _ :: r => drop_ids r end.

Record VInv (k : kind) (s : vstate) : Prop := {
  vi_bad : badw (wd s) = false;                          (* no undefined behaviour so far *)
  vi_vecs : forall i v, getv s i = Some v -> vec_sound k v;
  vi_nodup : NoDup (reachable s);                        (* no element is owned twice: it cannot be dropped twice *)
  vi_live : incl (reachable s) (live (wd s));            (* everything reachable is alive: nothing dropped is still in use *)
  vi_live_nodup : NoDup (live (wd s));
  vi_fresh : forall id, In id (live (wd s)) -> (id < len (vals (wd s)))%N;
  vi_unw : unw (wd s) = false;
  vi_drops : NoDup (drop_ids (log (wd s)))               (* no identity's destructor ran twice *)
             /\ (forall id, In id (drop_ids (log (wd s))) -> ~ In id (live (wd s)))
}.

(** without injected panics and without forgotten drains nothing leaks either: every live identity is reachable,
    and (ThinVec) every buffer obtained is still owned by a live vector *)
Record VNoLeak (k : kind) (s : vstate) : Prop := {
  nl_live : incl (live (wd s)) (reachable s);
  nl_heap : match k with KThin => wa (wd s) = (wf (wd s) + N.of_nat (length (pool_vecs (pool s))))%N | KInline _ => wa (wd s) = 0%N /\ wf (wd s) = 0%N end
}.
Definition no_forget (o : vop) : Prop := match o with XDrain _ _ _ _ _ true => False | _ => True end.

(** sources passed as slices are the caller's immortal elements *)
Definition vop_ok (o : vop) : Prop :=
  match o with
  | XFromSlice srcs | XExtendFromSlice _ srcs => Forall (fun id => (SRC_BASE <= id)%N) srcs
  | _ => True
  end.
(** identities handed out by the model stay below the source range *)
Definition small_world (s : vstate) : Prop := (len (vals (wd s)) < SRC_BASE)%N.
