(** * VecCounterexample: the invariant [VInv] of VecSpec.v is not inductive as stated.

    [vi_drops] says that an identity whose destructor ran is not alive, but nothing in [VInv] prevents the log from
    mentioning an identity that the allocation counter [len (vals w)] has not reached yet.  From such a state (which is
    NOT reachable from [vinit]) a push hands out exactly that identity and [vi_drops] breaks.  This is a missing clause
    of the invariant, not a defect of the modelled code: VecProofs1.v proves the strengthened invariant
    [VInv' k s := VInv k s /\ DFresh s] (every dropped identity is below the allocation counter) for [vinit] and for
    every operation at every panic position. *)
From Hip Require Import Base Range VecModel VecSpec.
Local Open Scope nat_scope.

Definition cx_w : world := mkW [] [] 0 None [EvDrop 0%N] false 0 0 0 false.
Definition cx_s : vstate := mkVS cx_w [Some (new_vec 1)] [].
Definition cx_op : vop := XPush 0%N 5%N.

Eval vm_compute in (live (wd (fst (vstep (KInline 1) cx_s cx_op))), drop_ids (log (wd (fst (vstep (KInline 1) cx_s cx_op))))).
(* = ([0%N], [0%N]) : identity 0 is alive although its destructor is in the log *)

Lemma cx_inv : VInv (KInline 1) cx_s.
Proof.
  split; cbn.
  - reflexivity.
  - intros i v H. unfold getv in H. cbn in H. destruct (N.to_nat i) as [|[|n]]; cbn in H; try discriminate.
    injection H as <-. unfold vec_sound, vcapn, elems. cbn. repeat split; auto.
  - constructor.
  - intros x [].
  - constructor.
  - intros id [].
  - reflexivity.
  - split; [constructor; [intros []|constructor] | intros id _ []].
Qed.

Lemma cx_broken : ~ VInv (KInline 1) (fst (vstep (KInline 1) cx_s cx_op)).
Proof. intros [_ _ _ _ _ _ _ [_ H]]. apply (H 0%N); vm_compute; auto. Qed.

Theorem VInv_not_inductive : ~ (forall k s o, VInv k s -> vop_ok o -> VInv k (fst (vstep k s o))).
Proof. intros H. apply cx_broken. apply H; [apply cx_inv | exact I]. Qed.

Print Assumptions VInv_not_inductive.
