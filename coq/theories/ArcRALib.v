From Coq Require Import List Arith Lia Bool.
Import ListNotations.
From Hip Require Import ArcRA.

Lemma updf_eq {A} (f : nat -> A) t x : updf f t x t = x.
Proof. unfold updf. now rewrite Nat.eqb_refl. Qed.
Lemma updf_ne {A} (f : nat -> A) t x u : u <> t -> updf f t x u = f u.
Proof. unfold updf. intros H. apply Nat.eqb_neq in H. now rewrite H. Qed.

Lemma updl_length {A} (l : list A) i x : length (updl l i x) = length l.
Proof. revert i; induction l as [|y r IH]; intros [|i]; cbn; auto. Qed.
Lemma nth_updl_eq {A} (l : list A) i x d : i < length l -> nth i (updl l i x) d = x.
Proof. revert i; induction l as [|y r IH]; intros [|i] H; cbn in *; try lia; auto. apply IH; lia. Qed.
Lemma nth_updl_ne {A} (l : list A) i j x d : i <> j -> nth j (updl l i x) d = nth j l d.
Proof. revert i j; induction l as [|y r IH]; intros [|i] [|j] H; cbn; auto; try lia. Qed.

Definition nal (l : list hnd) := length (filter alive l).
Lemma nal_app l x : nal (l ++ [x]) = nal l + (if alive x then 1 else 0).
Proof. unfold nal. rewrite filter_app, app_length. cbn. destruct (alive x); cbn; lia. Qed.
Lemma nal_updl l i x d : i < length l ->
  nal (updl l i x) + (if alive (nth i l d) then 1 else 0) = nal l + (if alive x then 1 else 0).
Proof.
  unfold nal. revert i; induction l as [|y r IH]; intros [|i] H; cbn in *; try lia.
  - destruct (alive y), (alive x); cbn; lia.
  - specialize (IH i ltac:(lia)). destruct (alive y); cbn; lia.
Qed.
Lemma nal_pos_ex l d : nal l > 0 -> exists h, alive (nth h l d) = true.
Proof.
  unfold nal. induction l as [|y r IH]; cbn; [lia|]. destruct (alive y) eqn:E.
  - intros _. now exists 0.
  - intros H. destruct (IH H) as [h Hh]. now exists (S h).
Qed.
Lemma nal_alive l h d : alive (nth h l d) = true -> alive d = false -> nal l > 0.
Proof.
  unfold nal. revert h; induction l as [|y r IH]; intros [|h] H Hd; cbn in *; try congruence.
  - rewrite H. cbn. lia.
  - destruct (alive y); cbn; [lia|]. eapply IH; eauto.
Qed.
(* exactly one alive: any two alive indices coincide *)
Lemma nal_one l h h' d : nal l = 1 -> alive d = false -> alive (nth h l d) = true -> alive (nth h' l d) = true -> h = h'.
Proof.
  unfold nal. revert h h'; induction l as [|y r IH]; intros h h' H1 Hd Hh Hh'.
  - destruct h; cbn in Hh; congruence.
  - cbn in H1. destruct (alive y) eqn:E; cbn in H1.
    + assert (length (filter alive r) = 0) as Z by lia.
      assert (forall k, alive (nth k r d) = false) as Hr.
      { intros k. destruct (alive (nth k r d)) eqn:Ek; auto. pose proof (nal_alive r k d Ek Hd). unfold nal in *. lia. }
      destruct h, h'; cbn in *; auto; rewrite Hr in *; congruence.
    + destruct h, h'; cbn in *; try congruence. f_equal. eapply IH; eauto.
Qed.

Lemma vle_refl a : vle a a. Proof. intros t; lia. Qed.
Lemma vle_trans a b c : vle a b -> vle b c -> vle a c. Proof. intros H1 H2 t. specialize (H1 t); specialize (H2 t); lia. Qed.
Lemma vle_join_l a b : vle a (vjoin a b). Proof. intros t; unfold vjoin; lia. Qed.
Lemma vle_join_r a b : vle b (vjoin a b). Proof. intros t; unfold vjoin; lia. Qed.
Lemma vle_bump t a : vle a (vbump t a). Proof. intros u; unfold vbump. destruct (Nat.eqb u t); lia. Qed.
