(** * CasesConcat: correspondence vocabulary of the `concat` driver (C10). *)
From Hip Require Import Base Utf8 CasesRange Concat.

Inductive cout := COk (bytes : list N) | CPan.
Record ccase := CCase { cc_join : bool; cc_ps1 : list (list N); cc_ps2 : list (list N); cc_sep : list N; cc_out : cout }.

Fixpoint cells_eqb (c : cells) (b : list N) : bool :=
  match c, b with
  | [], [] => true
  | Some x :: c', y :: b' => (x =? y) && cells_eqb c' b'
  | _, _ => false
  end.

Definition check_concat (c : ccase) : bool :=
  match (if cc_join c then join_generic true (cc_ps1 c) (cc_ps2 c) (cc_sep c) else concat_generic true (cc_ps1 c) (cc_ps2 c)), cc_out c with
  | CVal out, COk bytes => cells_eqb out bytes
  | CPanic, CPan => true
  | _, _ => false
  end.
