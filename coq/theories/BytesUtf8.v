(** * BytesUtf8: every HipStr value is well-formed UTF-8 (C06), from the refinement theorem. *)
From Hip Require Import Base Range RangeProofs Utf8 Utf8Proofs StrRange StrRangeProofs Bytes BytesSpec BytesInv
  BytesLib BytesProofs1 BytesProofs2 BytesProofs3 BytesProofs4 BytesProofs BytesCorollaries.

Definition sp_valid (sp : sstate) : Prop := forall h v, sget sp h = Some v -> valid v = true.
Definition sview (sp : sstate) (h : N) : list N := match sget sp h with Some v => v | None => [] end.

(** [op_wf TStr] stated on the specification state *)
Definition op_wf_sp (sp : sstate) (o : op) : Prop :=
  match o with
  | OBorrowed x | OFromSlice x | OFromVec x _ | OPushSlice _ x => valid x = true
  | OPush _ c => is_scalar c = true
  | OInline _ | OTryInline _ | OAsMutWrite _ _ _ | OToMutWrite _ _ _ => False
  | OSliceRef h off n => is_char_boundary (sview sp h) off = true /\ is_char_boundary (sview sp h) (off + n) = true
  | OMutate h script _ => script_wf (sview sp h) script = true
  | _ => True
  end.

Lemma view_sview st h : view st h = sview (abs st) h.
Proof. unfold view, sview. rewrite sget_abs. destruct (get_h st h); reflexivity. Qed.

Lemma op_wf_abs st o : op_wf TStr st o <-> op_wf_sp (abs st) o.
Proof. destruct o; cbn [op_wf op_wf_sp]; rewrite ?view_sview; reflexivity. Qed.

Lemma all_valid_abs st : all_valid st <-> sp_valid (abs st).
Proof.
  unfold all_valid, sp_valid. split.
  - intros H h v. rewrite sget_abs. destruct (get_h st h) as [hd|] eqn:Hh; cbn [option_map]; [|discriminate].
    intros E. inversion E; subst. apply (H _ _ Hh).
  - intros H h hd Hh. apply (H h). rewrite sget_abs, Hh. reflexivity.
Qed.

Lemma sp_valid_new sp v : sp_valid sp -> valid v = true -> sp_valid (sp ++ [Some v]).
Proof.
  intros H Hv h w. unfold sget. rewrite nthN_snoc. destruct (h =? len sp).
  - intros E. inversion E; subst. exact Hv.
  - apply H.
Qed.

Lemma sp_valid_upd sp h x : sp_valid sp -> (forall v, x = Some v -> valid v = true) -> sp_valid (sset sp h x).
Proof.
  intros H Hv h' w. unfold sget, sset. destruct (N.eq_dec h' h) as [->|Hne].
  - destruct (N.lt_ge_cases h (len sp)) as [Hlt|Hge].
    + rewrite nthN_upd_eq by exact Hlt. apply Hv.
    + rewrite upd_oob by (unfold len in Hge; lia). apply H.
  - rewrite nthN_upd_neq by congruence. apply H.
Qed.

Lemma sp_valid_set sp h v : sp_valid sp -> valid v = true -> sp_valid (sset sp h (Some v)).
Proof. intros H Hv. apply sp_valid_upd; [exact H|]. intros w E. inversion E; subst. exact Hv. Qed.

Lemma sp_valid_unset sp h : sp_valid sp -> sp_valid (sset sp h None).
Proof. intros H. apply sp_valid_upd; [exact H|]. discriminate. Qed.

Lemma script_valid script : forall d, valid d = true -> script_wf d script = true ->
  valid (fold_left vec_spec script d) = true.
Proof.
  induction script as [|o r IH]; intros d Hd Hw; cbn [fold_left script_wf] in *; [exact Hd|].
  apply andb_prop in Hw. destruct Hw as [H1 H2]. apply IH; [|exact H2].
  destruct o; cbn [vec_spec].
  - apply valid_push_ascii; [exact Hd | lia].
  - apply valid_app; assumption.
  - apply valid_truncate; assumption.
  - reflexivity.
  - exact Hd.
  - exact Hd.
Qed.

Lemma spec_valid sp o u sp' : spec_rel TStr sp o u sp' -> sp_valid sp -> op_wf_sp sp o -> sp_valid sp'.
Proof.
  intros H V W. destruct o; cbn [op_wf_sp] in W; unfold sview in W; spec_inv H; cbv beta iota in W; split_all; subst;
    try assumption; try contradiction; try (apply sp_valid_unset; assumption);
    (first [apply sp_valid_new | apply sp_valid_set]; [assumption|]);
    try match goal with Hs : sget _ _ = Some ?l |- _ =>
          assert (Vl : valid l = true) by (eapply V; exact Hs) end;
    try reflexivity; try assumption.
  - eapply str_try_slice_valid; [exact Vl | eassumption].
  - eapply str_try_slice_valid; [exact Vl | eassumption].
  - apply valid_sub; try assumption; lia.
  - cbn [encode_char]. apply valid_push_char; assumption.
  - apply valid_app; assumption.
  - apply last_start_split; [exact Vl|]. intros ->.
    match goal with Hb : (len [] =? 0) = false |- _ => rewrite len_nil in Hb; lia end.
  - rewrite Utf8Proofs.sub_0. apply valid_firstn_boundary; [exact Vl|].
    destruct (is_char_boundary l n) eqn:B; [reflexivity|]. cbn [negb] in *. lia.
  - apply valid_ascii_map. exact Vl.
  - apply valid_ascii_map. exact Vl.
  - apply valid_repeat. exact Vl.
  - apply script_valid; assumption.
Qed.

Theorem step_all_valid : forall bk st o st' u,
  Inv bk st -> force_ok st o -> all_valid st -> op_wf TStr st o -> step bk TStr st o = (st', u) -> all_valid st'.
Proof.
  intros bk st o st' u I FO V W E. apply all_valid_abs.
  apply (spec_valid (abs st) o u (abs st')).
  - eapply step_refines; eauto.
  - apply all_valid_abs. exact V.
  - apply op_wf_abs. exact W.
Qed.

(** every operation of the run is well-formed in the state it is applied to *)
Fixpoint run_wf (bk : backend) (st : state) (ops : list op) : Prop :=
  match ops with
  | [] => True
  | o :: r => op_wf TStr st o /\ run_wf bk (fst (step bk TStr st o)) r
  end.

Theorem run_all_valid_from : forall bk ops st st' us,
  Inv bk st -> all_valid st -> run_pre bk TStr st ops -> run_wf bk st ops ->
  run bk TStr st ops = (st', us) -> all_valid st'.
Proof.
  intros bk ops. induction ops as [|o r IH]; intros st st' us I V P W E; cbn [run run_pre run_wf] in *.
  - injection E as <- <-. exact V.
  - destruct (step bk TStr st o) as [st1 u] eqn:Es. destruct (run bk TStr st1 r) as [st2 ur] eqn:Er.
    injection E as <- <-. destruct P as [FO P]. destruct W as [Wo W]. cbn [fst] in *.
    apply (IH st1 st2 ur); auto.
    + eapply step_inv; eauto.
    + eapply step_all_valid; eauto.
Qed.

Lemma init_all_valid : all_valid init.
Proof.
  intros h hd H. unfold get_h, nthN, init in H. cbn [hs] in H. destruct (N.to_nat h); discriminate.
Qed.

Theorem run_all_valid : forall bk ops st' us,
  run_pre bk TStr init ops -> run_wf bk init ops -> run bk TStr init ops = (st', us) -> all_valid st'.
Proof.
  intros bk ops st' us P W E.
  exact (run_all_valid_from bk ops init st' us (init_inv bk) init_all_valid P W E).
Qed.

Print Assumptions step_all_valid.
Print Assumptions run_all_valid.
