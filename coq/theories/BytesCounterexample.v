(** * BytesCounterexample: [step_inv], as stated without a side condition, is FALSE.

    [OForceCount h k] stores [c := UMAX - 1 - k] and recomputes
    [phantom := c + 1 - nrefs b (hs st)] with truncated subtraction on [N].
    When [c + 1 < nrefs b (hs st)] (that is, [k + nrefs b (hs st) > UMAX]) the
    clause [cnt + 1 = nrefs + phantom] of [block_ok] is broken.  With two
    handles on one block and [k = UMAX] the stored count becomes 0 ("unique")
    although two handles exist; dropping one of them then frees the block under
    the other: a dangling handle whose view changes from 24 bytes to []. *)
From Hip Require Import Base Range Utf8 StrRange Bytes BytesSpec BytesInv BytesLib BytesProofs3 BytesProofs.

Definition cx_x : list N := repeat 65 (24%nat).
Definition cx_ops : list op := [OFromSlice cx_x; OClone 0; OForceCount 0 UMAX].

Eval vm_compute in (let '(st, us) := run BArc TByt init cx_ops in (hs st, bs st, us)).
Eval vm_compute in (let '(st, us) := run BArc TByt init (cx_ops ++ [ODrop 0]) in (hs st, bs st, abs st, us)).

Definition cx_st2 : state := fst (run BArc TByt init [OFromSlice cx_x; OClone 0]).
Definition cx_st3 : state := fst (run BArc TByt init cx_ops).
Definition cx_st4 : state := fst (run BArc TByt init (cx_ops ++ [ODrop 0])).

(** the state before the hook satisfies the invariant (it is reached from [init] without any hook) *)
Lemma cx_before_inv : Inv BArc cx_st2.
Proof.
  apply (run_inv_no_hook BArc TByt [OFromSlice cx_x; OClone 0] init cx_st2 (snd (run BArc TByt init [OFromSlice cx_x; OClone 0]))).
  - repeat constructor.
  - apply init_inv.
  - vm_compute. reflexivity.
Qed.

(** the side condition of the proved theorems is exactly what fails here *)
Lemma cx_not_force_ok : ~ force_ok cx_st2 (OForceCount 0 UMAX).
Proof.
  intros H. cbn [force_ok] in H.
  specialize (H (mkH (RAlloc 0 0 24) false) 0 0 24 eq_refl eq_refl). vm_compute in H. apply H. reflexivity.
Qed.

Lemma cx_step : step BArc TByt cx_st2 (OForceCount 0 UMAX) = (cx_st3, UUnit).
Proof. vm_compute. reflexivity. Qed.

(** ... and the state after it violates [inv_b] *)
Theorem cx_not_inv : ~ Inv BArc cx_st3.
Proof.
  intros I.
  assert (E : get_b cx_st3 0 = Some (mkBlock cx_x 24 0 0)) by (vm_compute; reflexivity).
  destruct (inv_b _ _ I _ _ E) as (_ & H & _). vm_compute in H. discriminate H.
Qed.

(** one more step makes the damage observable at the std level: handle 1 is not the target of [ODrop 0],
    yet its abstract value changes *)
Theorem cx_observable :
  sget (abs cx_st3) 1 = Some cx_x /\ sget (abs cx_st4) 1 = Some [] /\
  ~ spec_rel TByt (abs cx_st3) (ODrop 0) UUnit (abs cx_st4).
Proof.
  split; [vm_compute; reflexivity|]. split; [vm_compute; reflexivity|].
  intros H. vm_compute in H. destruct H as [H _]. discriminate H.
Qed.

(** hence the unconditional statements are refuted *)
Theorem step_inv_unconditional_false :
  ~ (forall bk ty st o st' u, Inv bk st -> step bk ty st o = (st', u) -> Inv bk st').
Proof. intros H. exact (cx_not_inv (H _ _ _ _ _ _ cx_before_inv cx_step)). Qed.

Theorem run_inv_unconditional_false :
  ~ (forall bk ty ops st st' us, Inv bk st -> run bk ty st ops = (st', us) -> Inv bk st').
Proof.
  intros H. apply cx_not_inv.
  apply (H BArc TByt cx_ops init cx_st3 (snd (run BArc TByt init cx_ops)) (init_inv BArc)).
  vm_compute. reflexivity.
Qed.

Print Assumptions step_inv_unconditional_false.
Print Assumptions run_inv_unconditional_false.
