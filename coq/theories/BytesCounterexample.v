(** * BytesCounterexample: [step_inv], as stated without a side condition, is FALSE.

    [OForceCount h k] stores [c := UMAX - 1 - k] and recomputes
    [phantom := c + 1 - nrefs b (hs st)] with truncated subtraction on [N].
    When [c + 1 < nrefs b (hs st)] (that is, [k + nrefs b (hs st) > UMAX]) the
    clause [cnt + 1 = nrefs + phantom] of [block_ok] is broken.  With two
    handles on one block and [k = UMAX] the stored count becomes 0 ("unique")
    although two handles exist; dropping one of them then frees the block under
    the other: a dangling handle whose view changes from 24 bytes to []. *)
From Hip Require Import Base Range Utf8 StrRange Bytes BytesSpec BytesInv.

Definition cx_x : list N := repeat 65 (24%nat).
Definition cx_ops : list op := [OFromSlice cx_x; OClone 0; OForceCount 0 UMAX].

Eval vm_compute in (let '(st, us) := run BArc TByt init cx_ops in (hs st, bs st, us)).
Eval vm_compute in (let '(st, us) := run BArc TByt init (cx_ops ++ [ODrop 0]) in (hs st, bs st, abs st, us)).

Definition cx_st2 : state := fst (run BArc TByt init [OFromSlice cx_x; OClone 0]).
Definition cx_st3 : state := fst (run BArc TByt init cx_ops).
Definition cx_st4 : state := fst (run BArc TByt init (cx_ops ++ [ODrop 0])).

(** the state before the hook satisfies every clause of the invariant that the hook breaks *)
Lemma cx_before_ok : forall blk, get_b cx_st2 0 = Some blk -> block_ok BArc cx_st2 0 blk.
Proof.
  intros blk E. vm_compute in E. inversion E; subst blk. unfold block_ok. vm_compute.
  repeat split; try discriminate; intros H; discriminate H.
Qed.

Lemma cx_step : step BArc TByt cx_st2 (OForceCount 0 UMAX) = (cx_st3, UUnit).
Proof. vm_compute. reflexivity. Qed.

(** ... and the state after it violates [inv_b] *)
Theorem cx_not_inv : ~ Inv BArc cx_st3.
Proof.
  intros I.
  assert (E : get_b cx_st3 0 = Some (mkBlock cx_x 24 0 0)) by (vm_compute; reflexivity).
  destruct (inv_b _ _ I _ _ E) as (_ & H & _). vm_compute in H. discriminate H.
Qed.

(** one more step makes the damage observable at the std level: handle 1 is not the target of [ODrop 0],
    yet its abstract value changes *)
Theorem cx_observable :
  sget (abs cx_st3) 1 = Some cx_x /\ sget (abs cx_st4) 1 = Some [] /\
  ~ spec_rel TByt (abs cx_st3) (ODrop 0) UUnit (abs cx_st4).
Proof.
  split; [vm_compute; reflexivity|]. split; [vm_compute; reflexivity|].
  intros H. vm_compute in H. destruct H as [H _]. discriminate H.
Qed.
