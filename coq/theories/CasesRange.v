(** * CasesRange: correspondence-check vocabulary for the `range` driver (Tie B, C08).
    The harness writes [cases] lists in these types; [bad_*] returns the
    indices of the cases on which the model and the implementation differ. *)
From Hip Require Import Base Range Utf8 StrRange.

Fixpoint list_eqb (a b : list N) : bool :=
  match a, b with
  | [], [] => true
  | x :: a', y :: b' => (x =? y) && list_eqb a' b'
  | _, _ => false
  end.

(** Outcome of try_slice on the implementation. *)
Inductive sl_out :=
| SOk (bytes : list N)                 (* Ok(value with these bytes) *)
| SErr (kind : str_kind) (a b : N)     (* Err(kind, start(), end()) *)
| SPanic.

Record slice_case := SliceCase {
  sc_str : bool;            (* HipStr (true) or HipByt/other byte-level (false) *)
  sc_content : list N;
  sc_s : bound; sc_e : bound;
  sc_out : sl_out;          (* try_slice *)
  sc_slice_panicked : bool  (* slice() panicked *)
}.

Definition str_kind_eqb (a b : str_kind) : bool :=
  match a, b with
  | SStartGreaterThanEnd, SStartGreaterThanEnd | SStartOutOfBounds, SStartOutOfBounds
  | SEndOutOfBounds, SEndOutOfBounds | SStartNotACharBoundary, SStartNotACharBoundary
  | SEndNotACharBoundary, SEndNotACharBoundary => true
  | _, _ => false
  end.

Definition model_slice (c : slice_case) : result (N * N) (N * N * str_kind) :=
  if sc_str c then str_try_slice (sc_content c) (sc_s c) (sc_e c)
  else match simplify (sc_s c) (sc_e c) (len (sc_content c)) with
       | ROk r => ROk r
       | RErr (a, b, k) => RErr (a, b, lift_kind k)
       end.

Definition check_slice (c : slice_case) : bool :=
  match model_slice c, sc_out c with
  | ROk (a, b), SOk bytes => list_eqb (sub (sc_content c) a b) bytes && negb (sc_slice_panicked c)
  | RErr (a, b, k), SErr k' a' b' => (a =? a') && (b =? b') && str_kind_eqb k k' && sc_slice_panicked c
  | _, _ => false
  end.

(** slice_ref probes: whole at address [wstart] with [content]; candidate at [sstart] of length [slen]. *)
Record ref_case := RefCase {
  rc_content : list N; rc_wstart : N; rc_sstart : N; rc_slen : N;
  rc_out : option (list N);    (* try_slice_ref: Some(bytes) / None *)
  rc_panicked : bool           (* slice_ref() panicked *)
}.

Definition check_ref (c : ref_case) : bool :=
  match try_range_of (rc_wstart c) (len (rc_content c)) (rc_sstart c) (rc_slen c), rc_out c with
  | Some (a, b), Some bytes => list_eqb (sub (rc_content c) a b) bytes && negb (rc_panicked c)
  | None, None => rc_panicked c
  | _, _ => false
  end.

(** vector range operations *)
Inductive vec_out := VOk (drained : list N) | VErr (r : rerr) | VErrAny (* only the panicking form exists *) | VPanic.
Record vec_case := VecCase {
  vc_content : list N; vc_s : bound; vc_e : bound;
  vc_out : vec_out;            (* try_drain / try_extend_from_within *)
  vc_panicked : bool           (* drain / extend_from_within panicked *)
}.

Definition rerr_eqb (a b : rerr) : bool :=
  match a, b with
  | StartOverflows, StartOverflows | EndOverflows, EndOverflows => true
  | RStartGreaterThanEnd x y, RStartGreaterThanEnd x' y' => (x =? x') && (y =? y')
  | REndOutOfBounds x y, REndOutOfBounds x' y' => (x =? x') && (y =? y')
  | _, _ => false
  end.

Definition check_vec (c : vec_case) : bool :=
  match range_mono (vc_s c) (vc_e c) (len (vc_content c)), vc_out c with
  | ROk (a, b), VOk d => list_eqb (sub (vc_content c) a b) d && negb (vc_panicked c)
  | RErr r, VErr r' => rerr_eqb r r' && vc_panicked c
  | RErr r, VErrAny => vc_panicked c
  | _, _ => false
  end.

Fixpoint bad_indices {A} (chk : A -> bool) (l : list A) (i : N) : list N :=
  match l with
  | [] => []
  | c :: r => if chk c then bad_indices chk r (i + 1) else i :: bad_indices chk r (i + 1)
  end.
