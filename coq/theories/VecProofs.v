(** * VecProofs: the theorems about the slot-level vector model (C13, C14, C15), collected.

    - [VInv' k s := VInv k s /\ DFresh s] (VecLib.v) is the invariant of VecSpec.v strengthened by "every identity whose
      destructor ran is below the allocation counter"; [VInv] alone is not inductive (VecCounterexample.v).
    - VecProofs1.v: [vinit_inv], [vstep_inv'] / [vstep_inv], [vrun_inv'] / [vrun_inv], [vrun_sound]:
      soundness is preserved by every operation whatever the panic position.
    - VecProofs2.v: [vstep_refines] (C13), [vstep_no_leak] (C14 completeness), for [VInv] as stated.
    - VecPan.v: [vstep_pan_none]. *)
From Hip Require Export Base Range VecModel VecSpec VecLib VecProofs1 VecProofs2 VecPan.

Check vinit_inv : forall k p, VInv k (vinit p).
Check vinit_inv' : forall k p, VInv' k (vinit p).
Check vstep_inv' : forall k s o, VInv' k s -> VInv' k (fst (vstep k s o)).
Check vstep_inv : forall k s o, VInv k s -> DFresh s -> vop_ok o -> VInv k (fst (vstep k s o)) /\ DFresh (fst (vstep k s o)).
Check vrun_inv' : forall k ops s, VInv' k s -> VInv' k (fst (vrun k s ops)).
Check vrun_inv : forall k ops s, VInv k s -> DFresh s -> Forall vop_ok ops -> VInv k (fst (vrun k s ops)) /\ DFresh (fst (vrun k s ops)).
Check vrun_sound : forall k p ops, VInv k (fst (vrun k (vinit p) ops)).
Check vstep_refines : forall k s o, VInv k s -> vop_ok o -> pan (wd s) = None -> small_world (fst (vstep k s o)) ->
  vspec k (vabs s) o = (vabs (fst (vstep k s o)), out_abs (wd (fst (vstep k s o))) (snd (vstep k s o))).
Check vstep_pan_none : forall k s o, pan (wd s) = None -> pan (wd (fst (vstep k s o))) = None.
Check vstep_no_leak : forall k s o, VInv k s -> VNoLeak k s -> vop_ok o -> no_forget o -> pan (wd s) = None -> VNoLeak k (fst (vstep k s o)).

Print Assumptions vinit_inv.
Print Assumptions vstep_inv'.
Print Assumptions vstep_inv.
Print Assumptions vrun_inv.
Print Assumptions vrun_sound.
Print Assumptions vstep_refines.
Print Assumptions vstep_pan_none.
Print Assumptions vstep_no_leak.
