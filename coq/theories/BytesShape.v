(** * BytesShape: what a step does to the handle pool and to the borrow sources, without any
    invariant: the pool is unchanged, extended by one handle, or changed at one index; the sources
    only grow; the [lin] flag only originates from [OWithCapacity]. *)
From Hip Require Import Base Range RangeProofs Utf8 StrRange Bytes BytesSpec BytesInv BytesLib
  BytesProofs1 BytesProofs2 BytesProofs3 BytesProofs4 BytesProofs BytesContract.

(** ** frames, unconditionally *)
Definition FR (st st' : state) : Prop := hs st' = hs st /\ srcs st' = srcs st.

Lemma FR_refl st : FR st st.
Proof. split; reflexivity. Qed.
Lemma FR_trans a b c : FR a b -> FR b c -> FR a c.
Proof. intros [H1 H2] [H3 H4]. split; congruence. Qed.

Lemma FRt_set_b st x b v : FR st x -> FR st (set_b x b v).
Proof. intros H. exact H. Qed.
Lemma FRt_add_alloc st x k : FR st x -> FR st (add_alloc x k).
Proof. intros H. exact H. Qed.
Lemma FRt_add_free st x k : FR st x -> FR st (add_free x k).
Proof. intros H. exact H. Qed.
Lemma FRt_add_leak st x k : FR st x -> FR st (add_leak x k).
Proof. intros H. exact H. Qed.
Lemma FRt_set_bad st x : FR st x -> FR st (set_bad x).
Proof. intros H. exact H. Qed.

Lemma FRt_detach bk st x b : FR st x -> FR st (detach bk x b).
Proof.
  intros H. unfold detach. destruct (get_b x b) as [blk|]; [destruct (is_unique_c bk (cnt blk))|]; exact H.
Qed.
Lemma FRt_attach st x b : FR st x -> FR st (attach x b).
Proof. intros H. unfold attach. destruct (get_b x b); exact H. Qed.
Lemma FRt_drop_repr bk st x r : FR st x -> FR st (drop_repr bk x r).
Proof. intros H. destruct r; cbn [drop_repr]; [exact H | exact H | apply FRt_detach; exact H]. Qed.
Lemma FRt_resize st x c c' : FR st x -> FR st (resize_events x c c').
Proof. intros H. unfold resize_events. destruct (c' =? c); [exact H|]. destruct (c =? 0); [exact H|]. destruct (c' =? 0); exact H. Qed.

Ltac fr :=
  repeat match goal with
  | |- FR _ _ => assumption
  | |- FR ?a ?a => apply FR_refl
  | |- FR _ (set_b _ _ _) => apply FRt_set_b
  | |- FR _ (add_alloc _ _) => apply FRt_add_alloc
  | |- FR _ (add_free _ _) => apply FRt_add_free
  | |- FR _ (add_leak _ _) => apply FRt_add_leak
  | |- FR _ (set_bad _) => apply FRt_set_bad
  | |- FR _ (detach _ _ _) => apply FRt_detach
  | |- FR _ (attach _ _) => apply FRt_attach
  | |- FR _ (drop_repr _ _ _) => apply FRt_drop_repr
  | |- FR _ (resize_events _ _ _) => apply FRt_resize
  | H : FR _ ?y |- FR _ ?y => eapply FR_trans; [|exact H]
  end.

Lemma fresh_block_fr st d cap adopt st' b' : fresh_block st d cap adopt = (st', b') -> FR st st'.
Proof. unfold fresh_block, new_b. intros E. injection E as <- <-. split; reflexivity. Qed.

Lemma from_slice_fr st x st' r : from_slice st x = (st', r) -> FR st st'.
Proof.
  unfold from_slice. destruct (len x <=? INLINE_CAP).
  - intros E. injection E as <- <-. fr.
  - destruct (fresh_block st x (len x) false) as [s b] eqn:Ef. intros E. injection E as <- <-.
    eapply fresh_block_fr; eauto.
Qed.

Lemma from_vec_fr st x cap st' r : from_vec st x cap = (st', r) -> FR st st'.
Proof.
  unfold from_vec. destruct (len x <=? INLINE_CAP).
  - intros E. injection E as <- <-. fr.
  - destruct (fresh_block st x cap true) as [s b] eqn:Ef. intros E. injection E as <- <-.
    eapply fresh_block_fr; eauto.
Qed.

Lemma share_or_copy_fr bk st b off n v st' r : share_or_copy bk st b off n v = (st', r) -> FR st st'.
Proof.
  unfold share_or_copy. destruct (get_b st b) as [blk|].
  - destruct (can_incr bk (cnt blk)).
    + intros E. injection E as <- <-. fr.
    + destruct (fresh_block st v n false) as [s b'] eqn:Ef. intros E. injection E as <- <-.
      eapply fresh_block_fr; eauto.
  - intros E. injection E as <- <-. fr.
Qed.

Lemma clone_repr_fr bk st r st' r' : clone_repr bk st r = (st', r') -> FR st st'.
Proof.
  destruct r; cbn [clone_repr]; intros E.
  - injection E as <- <-. fr.
  - injection E as <- <-. fr.
  - eapply share_or_copy_fr; eauto.
Qed.

Lemma range_repr_fr bk st r a b st' r' : range_repr bk st r a b = (st', r') -> FR st st'.
Proof.
  destruct r; cbn [range_repr]; intros E.
  - injection E as <- <-. fr.
  - injection E as <- <-. fr.
  - destruct (b - a <=? INLINE_CAP).
    + injection E as <- <-. fr.
    + eapply share_or_copy_fr; eauto.
Qed.

Lemma make_unique_fr bk st r st' r' : make_unique bk st r = (st', r') -> FR st st'.
Proof.
  destruct r as [d|s off n|b off n]; cbn [make_unique]; intros E.
  - injection E as <- <-. fr.
  - eapply from_slice_fr; eauto.
  - destruct (get_b st b) as [blk|].
    + destruct (is_unique_c bk (cnt blk)).
      * injection E as <- <-. fr.
      * destruct (fresh_block st (view_r st (RAlloc b off n)) n false) as [s b'] eqn:Ef.
        injection E as <- <-. apply FRt_detach. eapply fresh_block_fr; eauto.
    + injection E as <- <-. fr.
Qed.

Lemma write_repr_fr st r f st' r' : write_repr st r f = (st', r') -> FR st st'.
Proof.
  destruct r as [d|s off n|b off n]; cbn [write_repr]; intros E.
  - injection E as <- <-. fr.
  - injection E as <- <-. fr.
  - destruct (get_b st b) as [blk|]; injection E as <- <-; fr.
Qed.

Lemma vec_step_fr st vc o st' vc' : vec_step (st, vc) o = (st', vc') -> FR st st'.
Proof.
  destruct vc as [d cap]. destruct o; cbn [vec_step]; intros E; injection E as <- _;
    fr.
Qed.

Lemma vec_fold_fr script : forall st vc st' vc', fold_left vec_step script (st, vc) = (st', vc') -> FR st st'.
Proof.
  induction script as [|o r IH]; intros st vc st' vc' E; cbn [fold_left] in E.
  - injection E as <- _. fr.
  - destruct (vec_step (st, vc) o) as [s1 vc1] eqn:E1. eapply FR_trans; [eapply vec_step_fr; eauto | eapply IH; eauto].
Qed.

Lemma take_vec_fr bk st h r st' vc : take_vec bk st h r = (st', vc) -> FR st st'.
Proof.
  destruct r as [d|s off n|b off n]; cbn [take_vec]; intros E.
  - injection E as <- _. fr.
  - injection E as <- _. fr.
  - destruct (get_b st b) as [blk|].
    + destruct ((off =? 0) && is_unique_c bk (cnt blk)).
      * injection E as <- _. fr.
      * injection E as <- _. fr.
    + injection E as <- _. fr.
Qed.

(** ** the shape of a step *)
Definition lin_from (st : state) (o : op) (l : bool) : Prop :=
  l = true -> (exists n, o = OWithCapacity n) \/ exists h0 hd0, get_h st h0 = Some hd0 /\ lin hd0 = true.

Inductive shape (st : state) (o : op) (st' : state) : Prop :=
| sh_same : hs st' = hs st -> shape st o st'
| sh_new r l : hs st' = hs st ++ [Some (mkH r l)] -> lin_from st o l -> shape st o st'
| sh_upd h x : hs st' = upd (hs st) (N.to_nat h) x -> (forall r l, x = Some (mkH r l) -> lin_from st o l) ->
               shape st o st'.

Definition SH (st : state) (o : op) (st' : state) : Prop :=
  (exists ext, srcs st' = srcs st ++ ext) /\ shape st o st'.

Lemma lin_from_false st o : lin_from st o false.
Proof. intros H. discriminate. Qed.
Lemma lin_from_hd st o h hd : get_h st h = Some hd -> lin_from st o (lin hd).
Proof. intros Hh E. right. eauto. Qed.
Lemma lin_from_hd_and st o h hd b : get_h st h = Some hd -> lin_from st o (lin hd && b).
Proof. intros Hh E. apply andb_prop in E. destruct E as [E _]. right. eauto. Qed.

Lemma srcs_ext_of_eq (st st' : state) : srcs st' = srcs st -> exists ext, srcs st' = srcs st ++ ext.
Proof. intros ->. exists []. now rewrite app_nil_r. Qed.

Lemma SH_same st o x : FR st x -> SH st o x.
Proof. intros [H1 H2]. split; [apply srcs_ext_of_eq; exact H2 | apply sh_same; exact H1]. Qed.

Lemma SH_new st o x r l : FR st x -> lin_from st o l -> SH st o (set_hs x (hs x ++ [Some (mkH r l)])).
Proof.
  intros [H1 H2] L. split; [apply srcs_ext_of_eq; exact H2|].
  apply (sh_new st o _ r l); [sproj; now rewrite H1 | exact L].
Qed.

Lemma SH_set st o x h r l : FR st x -> lin_from st o l -> SH st o (set_h x h (Some (mkH r l))).
Proof.
  intros [H1 H2] L. split; [apply srcs_ext_of_eq; exact H2|].
  apply (sh_upd st o _ h (Some (mkH r l))); [unfold set_h; sproj; now rewrite H1|].
  intros r0 l0 E. inversion E; subst. exact L.
Qed.

Lemma SH_unset st o x h : FR st x -> SH st o (set_h x h None).
Proof.
  intros [H1 H2]. split; [apply srcs_ext_of_eq; exact H2|].
  apply (sh_upd st o _ h None); [unfold set_h; sproj; now rewrite H1 | discriminate].
Qed.

Lemma SH_unset_free st o x h k : FR st x -> SH st o (add_free (set_h x h None) k).
Proof.
  intros [H1 H2]. split; [apply srcs_ext_of_eq; exact H2|].
  apply (sh_upd st o _ h None); [unfold set_h; sproj; now rewrite H1 | discriminate].
Qed.

Ltac note_fr :=
  repeat match goal with
  | E : fresh_block _ _ _ _ = (_, _) |- _ => apply fresh_block_fr in E
  | E : from_slice _ _ = (_, _) |- _ => apply from_slice_fr in E
  | E : from_vec _ _ _ = (_, _) |- _ => apply from_vec_fr in E
  | E : share_or_copy _ _ _ _ _ _ = (_, _) |- _ => apply share_or_copy_fr in E
  | E : clone_repr _ _ _ = (_, _) |- _ => apply clone_repr_fr in E
  | E : range_repr _ _ _ _ _ = (_, _) |- _ => apply range_repr_fr in E
  | E : make_unique _ _ _ = (_, _) |- _ => apply make_unique_fr in E
  | E : write_repr _ _ _ = (_, _) |- _ => apply write_repr_fr in E
  | E : take_vec _ _ _ _ = (_, _) |- _ => apply take_vec_fr in E
  | E : fold_left vec_step _ (_, _) = (_, _) |- _ => apply vec_fold_fr in E
  end.

Ltac lf :=
  first [ apply lin_from_false
        | eapply lin_from_hd_and; eassumption
        | eapply lin_from_hd; eassumption
        | (intros _; left; eexists; reflexivity) ].

(** destruct every scrutinee of [E], innermost first *)
Ltac crunch E :=
  repeat (cbv beta iota zeta in E;
          match type of E with context [match ?x with _ => _ end] =>
            lazymatch x with
            | context [match _ with _ => _ end] => fail
            | _ => destruct x eqn:?
            end
          end);
  cbv beta iota zeta in E.

Lemma do_shorten_sh bk st o h r m : SH st o (do_shorten bk st h r m).
Proof.
  unfold do_shorten. destruct (is_alloc r && (m <=? INLINE_CAP)).
  - unfold assign. apply SH_set; [fr | lf].
  - destruct r; apply SH_set; [fr | lf | fr | lf | fr | lf].
Qed.

Lemma do_push_slice_sh bk st o h hd x st' u :
  get_h st h = Some hd -> do_push_slice bk st h hd x = (st', u) -> SH st o st'.
Proof.
  intros Hh E. unfold do_push_slice in E. crunch E; note_fr; injection E as <- <-;
    first [ apply SH_set; [fr | lf] | unfold assign; apply SH_set; [fr | lf] | apply SH_same; fr ].
Qed.

Lemma do_shrink_to_sh bk st o h hd m st' u :
  get_h st h = Some hd -> do_shrink_to bk st h hd m = (st', u) -> SH st o st'.
Proof.
  intros Hh E. unfold do_shrink_to in E. crunch E; note_fr; injection E as <- <-;
    first [ apply SH_set; [fr | lf] | unfold assign; apply SH_set; [fr | lf] | apply SH_same; fr ].
Qed.

Ltac fin E :=
  note_fr;
  first
  [ (eapply do_push_slice_sh; [eassumption | exact E])
  | (eapply do_shrink_to_sh; [eassumption | exact E])
  | (rewrite mk_new_eq in E; injection E as <- <-; apply SH_new; [fr | lf])
  | (injection E as <- <-;
     first [ apply do_shorten_sh
           | apply SH_set; [fr | lf]
           | apply SH_unset_free; fr
           | apply SH_unset; fr
           | (unfold assign; apply SH_set; [fr | lf])
           | apply SH_same; fr ]) ].

Lemma step_SH bk ty st o st' u : step bk ty st o = (st', u) -> SH st o st'.
Proof.
  intros E. destruct o.
  1-4: unfold step in E; crunch E; fin E.
  - (* OBorrowed *)
    unfold step, add_src in E. cbv beta iota zeta in E. rewrite mk_new_eq in E. injection E as <- <-. sproj.
    split; [exists [x]; reflexivity|]. apply (sh_new st _ _ (RBorrowed (len (srcs st)) 0 (len x)) false); [reflexivity | lf].
  - unfold step in E; crunch E; fin E.
  - (* OFromVec *) unfold step in E; crunch E; fin E.
  - unfold step in E; crunch E; fin E.
  - unfold step in E; crunch E; fin E.
  - unfold step in E; crunch E; fin E.
  - unfold step in E; crunch E; fin E.
  - unfold step in E; crunch E; fin E.
  - unfold step in E; crunch E; fin E.
  - unfold step in E; crunch E; fin E.
  - unfold step in E; crunch E; fin E.
  - unfold step in E; crunch E; fin E.
  - unfold step in E; crunch E; fin E.
  - unfold step in E; crunch E; fin E.
  - unfold step in E; crunch E; fin E.
  - unfold step in E; crunch E; fin E.
  - unfold step in E; crunch E; fin E.
  - unfold step in E; crunch E; fin E.
  - unfold step in E; crunch E; fin E.
  - unfold step in E; crunch E; fin E.
  - unfold step in E; crunch E; fin E.
  - (* OMutate *)
    unfold step in E. cbv beta zeta in E. destruct (get_h st h) as [hd|] eqn:Hh; [|injection E as <- <-; apply SH_same; fr].
    destruct (take_vec bk st h (hrepr hd)) as [st1 vc] eqn:Et.
    match type of E with context [fold_left vec_step script ?X] =>
      destruct (fold_left vec_step script X) as [st3 [d cap]] eqn:Ef end.
    apply take_vec_fr in Et. apply vec_fold_fr in Ef. destruct Et as [T1 T2]. destruct Ef as [F1 F2].
    unfold set_h in F1, F2. sproj. rewrite T1 in F1. rewrite T2 in F2.
    destruct leak.
    + injection E as <- <-. split; [apply srcs_ext_of_eq; exact F2|].
      apply (sh_upd st _ _ h (Some (mkH (RInline []) false))); [exact F1|].
      intros r0 l0 Ex. inversion Ex; subst. lf.
    + destruct (from_vec st3 d cap) as [st4 r] eqn:Ev. apply from_vec_fr in Ev. destruct Ev as [V1 V2].
      injection E as <- <-. split; [apply srcs_ext_of_eq; unfold set_h; sproj; congruence|].
      apply (sh_upd st _ _ h (Some (mkH r false))).
      * unfold set_h. sproj. rewrite V1, F1. apply upd_upd.
      * intros r0 l0 Ex. inversion Ex; subst. lf.
  - unfold step in E; crunch E; fin E.
  - unfold step in E; crunch E; fin E.
  - unfold step in E; crunch E; fin E.
  - unfold step in E; crunch E; fin E.
  - unfold step in E; crunch E; fin E.
  - unfold step in E; crunch E; fin E.
  - unfold step in E; crunch E; fin E.
  - unfold step in E; crunch E; fin E.
Qed.

(** ** C02: borrow sources are never touched *)
Theorem srcs_untouched : forall bk ty st o st' u s,
  step bk ty st o = (st', u) -> s < len (srcs st) -> get_src st' s = get_src st s.
Proof.
  intros bk ty st o st' u s E Hs. destruct (step_SH _ _ _ _ _ _ E) as [[ext S] _].
  unfold get_src at 1. rewrite S. apply get_src_app. exact Hs.
Qed.

(** ** C07: a non-normalised representation can only descend from [with_capacity] *)
Theorem lin_only_from_with_capacity : forall bk ty st o st' u,
  Inv bk st -> force_ok st o -> (forall h hd, get_h st h = Some hd -> lin hd = false) ->
  (forall n, o <> OWithCapacity n) -> step bk ty st o = (st', u) ->
  forall h hd, get_h st' h = Some hd -> lin hd = false.
Proof.
  intros bk ty st o st' u _ _ Hall Hno E h hd Hh.
  assert (Hl : forall l, lin_from st o l -> l = false).
  { intros l L. destruct l; [|reflexivity]. destruct (L eq_refl) as [[n Hn]|(h0 & hd0 & H0 & H1)].
    - exfalso. exact (Hno n Hn).
    - rewrite (Hall _ _ H0) in H1. discriminate. }
  destruct (step_SH _ _ _ _ _ _ E) as [_ [Hs | r l Hs L | h1 x Hs L]]; unfold get_h in Hh; rewrite Hs in Hh.
  - apply (Hall h hd Hh).
  - rewrite nthN_snoc in Hh. destruct (h =? len (hs st)).
    + inversion Hh; subst. cbn [lin]. apply Hl. exact L.
    + apply (Hall h hd Hh).
  - destruct (N.eq_dec h h1) as [->|Hne].
    + destruct (N.lt_ge_cases h1 (len (hs st))) as [Hlt|Hge].
      * rewrite nthN_upd_eq in Hh by exact Hlt. destruct hd as [r l]. cbn [lin]. apply Hl. apply (L r l Hh).
      * rewrite upd_oob in Hh by (unfold len in Hge; lia). apply (Hall h1 hd Hh).
    + rewrite nthN_upd_neq in Hh by congruence. apply (Hall h hd Hh).
Qed.

Print Assumptions srcs_untouched.
Print Assumptions lin_only_from_with_capacity.
