(** * CasesCmp: std's comparison of the views (harness `cmp` driver) against the model of Cmp.v (C12). *)
From Hip Require Import Base Cmp.

Record cmpcase := CmpCase { cm_kind : ckind; cm_a : list N; cm_b : list N; cm_eq : bool; cm_ord : comparison }.
Definition comparison_eqb (a b : comparison) : bool := match a, b with Eq, Eq | Lt, Lt | Gt, Gt => true | _, _ => false end.
Definition check_cmp (c : cmpcase) : bool :=
  Bool.eqb (k_eqb (cm_kind c) (cm_a c) (cm_b c)) (cm_eq c) && comparison_eqb (k_cmp (cm_kind c) (cm_a c) (cm_b c)) (cm_ord c).
Fixpoint bad_cmpcases (l : list cmpcase) (i : N) : list N :=
  match l with [] => [] | c :: r => if check_cmp c then bad_cmpcases r (i + 1) else i :: bad_cmpcases r (i + 1) end.
