(** * BytesProofs2: from the block-level invariant back to [Inv]; the three generic ways an
    operation ends (a handle is appended / one handle is replaced / no handle changes);
    the composite edits of Bytes.v (assign, push_slice, shorten, shrink_to, unique writes). *)
From Hip Require Import Base Range RangeProofs Utf8 StrRange Bytes BytesSpec BytesInv BytesLib BytesProofs1.

Lemma repr_ok_set_hs st x r : repr_ok (set_hs st x) r <-> repr_ok st r.
Proof. destruct r; reflexivity. Qed.

Lemma Inv_BInv bk st : Inv bk st -> BInv bk st (fun b => nrefs b (hs st)) 0.
Proof.
  intros I. constructor.
  - apply (inv_bad _ _ I).
  - intros b blk H. apply (inv_b _ _ I _ _ H).
  - intros b H. apply nrefs_zero. intros o Hin. destruct o as [[r l]|]; [|reflexivity].
    destruct r as [d|s off n|b' off n]; cbn [points_to]; try reflexivity.
    destruct (N.eqb_spec b' b) as [->|]; [|reflexivity]. exfalso.
    destruct (In_nth_error _ _ Hin) as [j Hj].
    assert (Hg : get_h st (N.of_nat j) = Some (mkH (RAlloc b off n) l)) by (apply nthN_of_nat; exact Hj).
    destruct (inv_h _ _ I _ _ Hg) as (blk & Hb & _). congruence.
  - rewrite (inv_heap _ _ I). lia.
Qed.

Lemma Inv_intro bk st :
  BInv bk st (fun b => nrefs b (hs st)) 0 ->
  (forall h hd, get_h st h = Some hd -> repr_ok st (hrepr hd) /\ (lin hd = false -> normalized (hrepr hd) = true)) ->
  Inv bk st.
Proof.
  intros [B1 B2 B3 B4] H. constructor.
  - exact B1.
  - intros h hd Hh. apply (H _ _ Hh).
  - intros h hd Hh. apply (H _ _ Hh).
  - intros b blk Hb. apply (B2 _ _ Hb).
  - rewrite B4. lia.
Qed.

Lemma Inv_counted bk st h hd : Inv bk st -> get_h st h = Some hd -> counted (fun b => nrefs b (hs st)) (hrepr hd).
Proof. intros _ Hh b. apply (nrefs_handle b _ _ _ Hh). Qed.

(** ** the three endings *)

(** a new handle is appended *)
Lemma final_new bk st st1 r l st' u :
  Inv bk st -> Frame st st1 -> (forall b, 1 <= nrefs b (hs st) -> blk_keeps st st1 b) ->
  BInv bk st1 (fun b => nrefs b (hs st) + pt b r) 0 -> repr_ok st1 r -> (l = false -> normalized r = true) ->
  mk_new st1 r l = (st', u) ->
  Inv bk st' /\ abs st' = abs st ++ [Some (view_r st1 r)] /\ u = UNew (len (abs st)).
Proof.
  intros I F K B Hok Hn E. unfold mk_new, new_h in E. injection E as E1 E2. subst st' u.
  pose proof (fr_hs _ _ F) as Hhs.
  assert (Hold : forall i hi, get_h st i = Some hi ->
                   repr_ok st1 (hrepr hi) /\ view_r st1 (hrepr hi) = view_r st (hrepr hi)).
  { intros i hi Hi. apply repr_keep; [exact F | | apply (inv_h _ _ I _ _ Hi)].
    intros b Hb. apply K. pose proof (nrefs_handle b _ _ _ Hi). lia. }
  split; [|split].
  - apply Inv_intro.
    + apply BInv_set_hs. eapply BInv_ext; [exact B|]. intros b. cbn beta. sproj.
      rewrite Hhs, nrefs_snoc, pto_Some. reflexivity.
    + intros h hd. unfold get_h. sproj. rewrite Hhs, nthN_snoc.
      destruct (N.eqb_spec h (len (hs st))) as [->|Hne].
      * intros Eh. inversion Eh; subst hd. cbn [hrepr lin]. split; [|exact Hn].
        apply repr_ok_set_hs. exact Hok.
      * intros Hi. split.
        -- apply repr_ok_set_hs. apply (Hold _ _ Hi).
        -- apply (inv_norm _ _ I _ _ Hi).
  - rewrite (abs_new st _ (mkH r l)).
    + cbn [hrepr]. rewrite view_r_set_hs. reflexivity.
    + sproj. now rewrite Hhs.
    + intros i hi Hi. rewrite view_r_set_hs. apply (Hold _ _ Hi).
  - rewrite abs_len, Hhs. reflexivity.
Qed.

(** only the borrow sources matter to [repr_keep] *)
Lemma repr_keep' st st' r :
  (exists ext, srcs st' = srcs st ++ ext) -> (forall b, 1 <= pt b r -> blk_keeps st st' b) ->
  repr_ok st r -> repr_ok st' r /\ view_r st' r = view_r st r.
Proof.
  intros S K Hok.
  assert (F : Frame st (set_hs st' (hs st))) by (constructor; [reflexivity | exact S]).
  destruct (repr_keep st (set_hs st' (hs st)) r F K Hok) as [H1 H2].
  split; [apply (repr_ok_set_hs st' (hs st) r); exact H1 | rewrite <- H2; symmetry; apply view_r_set_hs].
Qed.

Lemma upd_upd {A} (l : list A) i x y : upd (upd l i x) i y = upd l i y.
Proof. revert i; induction l as [|a l IH]; intros [|i]; cbn [upd]; auto. f_equal. auto. Qed.

(** the entry of handle [h] is replaced by [x] (general form: only the shape of the final handle pool is given) *)
Lemma final_upd bk st st' h hd x :
  Inv bk st -> get_h st h = Some hd ->
  hs st' = upd (hs st) (N.to_nat h) x -> (exists ext, srcs st' = srcs st ++ ext) ->
  others_kept (fun b => nrefs b (hs st)) (hrepr hd) st st' ->
  BInv bk st' (fun b => nrefs b (hs st) - pt b (hrepr hd) + pto b x) 0 ->
  (forall hd', x = Some hd' -> repr_ok st' (hrepr hd') /\ (lin hd' = false -> normalized (hrepr hd') = true)) ->
  Inv bk st' /\ abs st' = sset (abs st) h (option_map (hview st') x).
Proof.
  intros I Hh Hhs S K B Hx.
  pose proof (get_h_lt _ _ _ Hh) as Hlt.
  assert (Hold : forall i hi, i <> h -> get_h st i = Some hi ->
                   repr_ok st' (hrepr hi) /\ view_r st' (hrepr hi) = view_r st (hrepr hi)).
  { intros i hi Hne Hi. apply repr_keep'; [exact S | | apply (inv_h _ _ I _ _ Hi)].
    intros b Hb. apply K. cbn beta. pose proof (nrefs_two b _ _ _ _ _ Hne Hh Hi). lia. }
  split.
  - apply Inv_intro.
    + eapply BInv_ext; [exact B|]. intros b. cbn beta.
      rewrite Hhs. pose proof (nrefs_upd b _ _ _ x (proj1 (nthN_nth_error _ _ _) Hh)) as E.
      rewrite pto_Some in E. pose proof (nrefs_handle b _ _ _ Hh). lia.
    + intros i hi. unfold get_h. rewrite Hhs. destruct (N.eq_dec i h) as [->|Hne].
      * rewrite nthN_upd_eq by exact Hlt. intros ->. apply (Hx _ eq_refl).
      * rewrite nthN_upd_neq by congruence. intros Hi. split.
        -- apply (Hold _ _ Hne Hi).
        -- apply (inv_norm _ _ I _ _ Hi).
  - apply abs_upd; [exact Hhs|]. intros i hi Hne Hi. apply (Hold _ _ Hne Hi).
Qed.

Lemma final_set bk st st2 h hd x :
  Inv bk st -> get_h st h = Some hd -> Frame st st2 ->
  others_kept (fun b => nrefs b (hs st)) (hrepr hd) st st2 ->
  BInv bk st2 (fun b => nrefs b (hs st) - pt b (hrepr hd) + pto b x) 0 ->
  (forall hd', x = Some hd' -> repr_ok st2 (hrepr hd') /\ (lin hd' = false -> normalized (hrepr hd') = true)) ->
  Inv bk (set_h st2 h x) /\ abs (set_h st2 h x) = sset (abs st) h (option_map (hview st2) x).
Proof.
  intros I Hh F K B Hx.
  apply (final_upd bk st (set_h st2 h x) h hd x I Hh).
  - unfold set_h. sproj. now rewrite (fr_hs _ _ F).
  - exact (fr_srcs _ _ F).
  - exact K.
  - unfold set_h. apply BInv_set_hs. exact B.
  - intros hd' E. destruct (Hx _ E) as [H1 H2]. split; [|exact H2]. apply repr_ok_set_hs. exact H1.
Qed.

(** no handle changes *)
Lemma final_same bk st st1 :
  Inv bk st -> Frame st st1 -> (forall b, 1 <= nrefs b (hs st) -> blk_keeps st st1 b) ->
  BInv bk st1 (fun b => nrefs b (hs st)) 0 ->
  Inv bk st1 /\ abs st1 = abs st.
Proof.
  intros I F K B. pose proof (fr_hs _ _ F) as Hhs.
  assert (Hold : forall i hi, get_h st i = Some hi ->
                   repr_ok st1 (hrepr hi) /\ view_r st1 (hrepr hi) = view_r st (hrepr hi)).
  { intros i hi Hi. apply repr_keep; [exact F | | apply (inv_h _ _ I _ _ Hi)].
    intros b Hb. apply K. pose proof (nrefs_handle b _ _ _ Hi). lia. }
  split.
  - apply Inv_intro.
    + eapply BInv_ext; [exact B|]. intros b. now rewrite Hhs.
    + intros i hi. unfold get_h. rewrite Hhs. intros Hi. split; [apply (Hold _ _ Hi) | apply (inv_norm _ _ I _ _ Hi)].
  - apply abs_same; [exact Hhs|]. intros i hi Hi. apply (Hold _ _ Hi).
Qed.

(** counters-only changes that keep the heap balance *)
Lemma final_counters bk st st1 :
  Inv bk st -> hs st1 = hs st -> bs st1 = bs st -> srcs st1 = srcs st -> bad st1 = bad st ->
  n_alloc st1 + n_free st + n_leak st = n_alloc st + n_free st1 + n_leak st1 ->
  Inv bk st1 /\ abs st1 = abs st.
Proof.
  intros I Hh Hb Hs Hbad Hc. apply final_same; [exact I | apply Frame_intro; assumption | |].
  - intros b _. apply all_kept_same_bs. exact Hb.
  - eapply binv_cnt; [apply Inv_BInv; exact I | exact Hb | exact Hbad | lia].
Qed.

Lemma sset_abs_same st h hd : get_h st h = Some hd -> sset (abs st) h (Some (view_r st (hrepr hd))) = abs st.
Proof. intros Hh. apply sset_same. rewrite sget_abs, Hh. reflexivity. Qed.

(** ** assign after a producer *)
Lemma assign_good bk st st1 h hd r' v l :
  Inv bk st -> get_h st h = Some hd -> Produces bk st st1 r' v -> (l = false -> normalized r' = true) ->
  Inv bk (assign bk st1 h (hrepr hd) r' l) /\ abs (assign bk st1 h (hrepr hd) r' l) = sset (abs st) h (Some v).
Proof.
  intros I Hh [F K Ok V HB] Hn.
  pose proof (Inv_BInv _ _ I) as B.
  pose proof (HB _ _ B) as B1.
  assert (Hc : counted (fun x => nrefs x (hs st) + pt x r') (hrepr hd)).
  { intros b. pose proof (nrefs_handle b _ _ _ Hh). lia. }
  assert (Hok1 : repr_ok st1 (hrepr hd)).
  { apply (repr_keep st st1 _ F); [intros b _; apply K | apply (inv_h _ _ I _ _ Hh)]. }
  destruct (drop_repr_spec bk st1 (hrepr hd) _ _ B1 Hok1 Hc) as (F2 & K2 & B2).
  unfold assign. set (st2 := drop_repr bk st1 (hrepr hd)) in *.
  assert (Hr' : repr_ok st2 r' /\ view_r st2 r' = view_r st1 r').
  { apply repr_keep; [exact F2 | | exact Ok]. intros b Hb. apply K2. cbn beta.
    pose proof (nrefs_handle b _ _ _ Hh). lia. }
  assert (G : Inv bk (set_h st2 h (Some (mkH r' l)))
              /\ abs (set_h st2 h (Some (mkH r' l))) = sset (abs st) h (option_map (hview st2) (Some (mkH r' l)))).
  { apply (final_set bk st st2 h hd _ I Hh).
    - eapply Frame_trans; eauto.
    - intros b Hb. eapply blk_keeps_trans; [apply K|]. apply K2. cbn beta in *. lia.
    - eapply BInv_ext; [exact B2|]. intros b. cbn beta. rewrite pto_Some. cbn [hrepr].
      pose proof (nrefs_handle b _ _ _ Hh). lia.
    - intros hd' E. inversion E; subst hd'. cbn [hrepr lin]. split; [apply Hr' | exact Hn]. }
  destruct G as [I' A']. split; [exact I'|]. rewrite A'. cbn [option_map]. unfold hview. cbn [hrepr].
  destruct Hr' as [_ ->]. rewrite V. reflexivity.
Qed.

(** ** replace [h] by a uniquely owned representation and write through it *)
Lemma write_set_good bk st st1 h hd r1 f st2 r2 l :
  Inv bk st -> get_h st h = Some hd ->
  Frame st st1 -> others_kept (fun b => nrefs b (hs st)) (hrepr hd) st st1 ->
  BInv bk st1 (fun b => nrefs b (hs st) - pt b (hrepr hd) + pt b r1) 0 ->
  repr_ok st1 r1 -> grants_mut bk st1 r1 = true ->
  write_repr st1 r1 f = (st2, r2) -> (forall d, len (f d) = len d) ->
  (l = false -> normalized r1 = true) ->
  Inv bk (set_h st2 h (Some (mkH r2 l)))
  /\ abs (set_h st2 h (Some (mkH r2 l))) = sset (abs st) h (Some (f (view_r st1 r1))).
Proof.
  intros I Hh F K B Ok G E Hf Hn.
  assert (Hc : counted (fun b => nrefs b (hs st) - pt b (hrepr hd) + pt b r1) r1) by (intros b; cbn beta; lia).
  destruct (write_repr_spec bk st1 r1 f st2 r2 _ _ E B Ok Hc G Hf) as (F2 & K2 & B2 & Hpt & Ok2 & V2 & Hrl & Ha & Hnm).
  assert (X : Inv bk (set_h st2 h (Some (mkH r2 l)))
              /\ abs (set_h st2 h (Some (mkH r2 l))) = sset (abs st) h (option_map (hview st2) (Some (mkH r2 l)))).
  { apply (final_set bk st st2 h hd _ I Hh).
    - eapply Frame_trans; eauto.
    - intros b Hb. eapply blk_keeps_trans; [apply K; exact Hb|]. apply K2. cbn beta in *. lia.
    - eapply BInv_ext; [exact B2|]. intros b. cbn beta. rewrite pto_Some. cbn [hrepr]. rewrite Hpt. reflexivity.
    - intros hd' E'. inversion E'; subst hd'. cbn [hrepr lin]. split; [exact Ok2|]. rewrite Hnm. exact Hn. }
  destruct X as [I' A']. split; [exact I'|]. rewrite A'. cbn [option_map]. unfold hview. cbn [hrepr].
  rewrite V2. reflexivity.
Qed.

(** the same without a write *)
Lemma replace_good bk st st1 h hd r1 l :
  Inv bk st -> get_h st h = Some hd ->
  Frame st st1 -> others_kept (fun b => nrefs b (hs st)) (hrepr hd) st st1 ->
  BInv bk st1 (fun b => nrefs b (hs st) - pt b (hrepr hd) + pt b r1) 0 ->
  repr_ok st1 r1 -> (l = false -> normalized r1 = true) ->
  Inv bk (set_h st1 h (Some (mkH r1 l)))
  /\ abs (set_h st1 h (Some (mkH r1 l))) = sset (abs st) h (Some (view_r st1 r1)).
Proof.
  intros I Hh F K B Ok Hn.
  assert (X : Inv bk (set_h st1 h (Some (mkH r1 l)))
              /\ abs (set_h st1 h (Some (mkH r1 l))) = sset (abs st) h (option_map (hview st1) (Some (mkH r1 l)))).
  { apply (final_set bk st st1 h hd _ I Hh F K).
    - eapply BInv_ext; [exact B|]. intros b. cbn beta. rewrite pto_Some. reflexivity.
    - intros hd' E'. inversion E'; subst hd'. cbn [hrepr lin]. auto. }
  exact X.
Qed.

(** ** push_slice *)
Lemma sub_mid2 {A} (la lb : list A) a n : len la = a -> len lb = n -> sub (la ++ lb) a (a + n) = lb.
Proof. intros Ha Hb. rewrite <- (app_nil_r lb) at 1. apply sub_mid; assumption. Qed.

Lemma push_fresh_spec bk st0 d nl st1 r' :
  (if nl <=? INLINE_CAP then (st0, RInline d)
   else let '(st1, b') := fresh_block st0 d nl false in (st1, RAlloc b' 0 nl)) = (st1, r') ->
  len d = nl -> Produces bk st0 st1 r' d /\ normalized r' = true.
Proof.
  intros E Hl. destruct (nl <=? INLINE_CAP) eqn:C.
  - injection E as <- <-. split; [apply produces_inline; lia | reflexivity].
  - destruct (fresh_block st0 d nl false) as [st1' b'] eqn:Ef. injection E as <- <-.
    destruct (produces_fresh bk _ _ _ _ _ _ Ef Hl (N.le_refl _)) as (P & _).
    split; [exact P|]. rewrite normalized_alloc. lia.
Qed.

Lemma do_push_slice_good bk st h hd x st' u :
  Inv bk st -> get_h st h = Some hd -> do_push_slice bk st h hd x = (st', u) ->
  Inv bk st' /\ abs st' = sset (abs st) h (Some (view_r st (hrepr hd) ++ x)) /\ u = UUnit.
Proof.
  intros I Hh E. unfold do_push_slice in E. cbv beta zeta in E.
  pose proof (inv_h _ _ I _ _ Hh) as Hok.
  pose proof (repr_ok_len _ _ Hok) as Hlen.
  assert (Hl : len (view_r st (hrepr hd) ++ x) = rlen (hrepr hd) + len x) by (rewrite len_app; lia).
  destruct (hrepr hd) as [d|s off n|b off n] eqn:Er.
  - (* inline *)
    match type of E with context [match ?X with pair _ _ => _ end] => destruct X as [st1 r'] eqn:Ef end.
    injection E as <- <-. destruct (push_fresh_spec bk _ _ _ _ _ Ef Hl) as [P Hn].
    pose proof (assign_good bk st st1 h hd r' _ false I Hh P (fun _ => Hn)) as G.
    rewrite Er in G. cbn [assign drop_repr] in G. destruct G as [G1 G2]. auto.
  - (* borrowed *)
    match type of E with context [match ?X with pair _ _ => _ end] => destruct X as [st1 r'] eqn:Ef end.
    injection E as <- <-. destruct (push_fresh_spec bk _ _ _ _ _ Ef Hl) as [P Hn].
    pose proof (assign_good bk st st1 h hd r' _ false I Hh P (fun _ => Hn)) as G.
    rewrite Er in G. cbn [assign drop_repr] in G. destruct G as [G1 G2]. auto.
  - (* allocated *)
    pose proof Hok as (blk & Hb & Hbl). rewrite Hb in E.
    destruct (is_unique_c bk (cnt blk)) eqn:U.
    + (* in place *)
      injection E as <- <-.
      pose proof (Inv_BInv _ _ I) as B.
      pose proof (bi_b _ _ _ _ B _ _ Hb) as Hblk; cbn beta in Hblk.
      pose proof (nrefs_handle b _ _ _ Hh) as Hcb; rewrite Er, pt_self in Hcb.
      destruct (unique_rc _ _ _ Hblk U Hcb) as (R1 & C0 & P0).
      set (cap' := reserve_cap (off + n) (vcap blk) (len x)) in *.
      set (d' := firstn (N.to_nat (off + n)) (vdata blk) ++ x) in *.
      set (nl := n + len x).
      destruct (resize_events_spec st (vcap blk) cap') as (R_hs & R_bs & R_srcs & R_bad & R_leak & R_cnt).
      set (st1 := resize_events st (vcap blk) cap') in *.
      set (blk' := mkBlock d' cap' (cnt blk) (phantom blk)) in *.
      set (st2 := set_b st1 b (Some blk')).
      assert (Hd' : len d' = off + n + len x) by (unfold d'; rewrite len_app, len_firstn_le by lia; lia).
      assert (Hg2 : get_b st2 b = Some blk')
        by (unfold st2, get_b; sproj; rewrite R_bs; apply nthN_upd_eq; eapply get_b_lt; exact Hb).
      assert (Hv2 : view_r st2 (RAlloc b off nl) = view_r st (RAlloc b off n) ++ x).
      { cbn [view_r]. rewrite Hg2, Hb. unfold blk', d', nl. cbn [vdata].
        rewrite firstn_sub_split, <- app_assoc. apply sub_mid2.
        - apply len_firstn_le. lia.
        - rewrite len_app, len_sub' by lia. reflexivity. }
      assert (X : Inv bk (set_h st2 h (Some (mkH (RAlloc b off nl) (lin hd))))
                  /\ abs (set_h st2 h (Some (mkH (RAlloc b off nl) (lin hd))))
                     = sset (abs st) h (Some (view_r st2 (RAlloc b off nl)))).
      { apply (replace_good bk st st2 h hd _ _ I Hh).
        - apply Frame_intro; unfold st2; sproj; assumption.
        - rewrite Er. intros y Hy. destruct (N.eq_dec y b) as [->|Hne].
          + rewrite pt_self in Hy. lia.
          + apply blk_keeps_same. unfold st2, get_b. sproj. rewrite R_bs, nthN_upd_neq by congruence. reflexivity.
        - rewrite Er.
          eapply binv_upd with (o := Some blk) (b := b);
            [ exact B | apply get_b_nth; exact Hb | unfold st2; sproj; rewrite R_bs; reflexivity
            | unfold st2; sproj; exact R_bad | | | ].
          + intros y Hy. cbn beta. rewrite !pt_other by congruence. lia.
          + cbn beta. rewrite !pt_self. destruct Hblk as (H1 & H2 & H3 & H4).
            unfold blk_ok, blk'; cbn [vdata vcap cnt phantom]. rewrite Hd'.
            pose proof (reserve_cap_ge (off + n) (vcap blk) (len x) ltac:(lia)) as Hr. fold cap' in Hr.
            repeat split; auto; lia.
          + unfold st2, blk'; sproj; cbn [ho vcap]; lia.
        - cbn [repr_ok]. exists blk'. split; [exact Hg2|]. unfold blk', nl. cbn [vdata]. lia.
        - intros Hlin. pose proof (inv_norm _ _ I _ _ Hh Hlin) as Hnm. rewrite Er, normalized_alloc in Hnm.
          rewrite normalized_alloc. unfold nl. lia. }
      destruct X as [X1 X2]. rewrite Hv2 in X2.
      split; [exact X1|]. split; [exact X2 | reflexivity].
    + (* copy *)
      match type of E with context [match ?X with pair _ _ => _ end] => destruct X as [st1 r'] eqn:Ef end.
      injection E as <- <-. destruct (push_fresh_spec bk _ _ _ _ _ Ef Hl) as [P Hn].
      pose proof (assign_good bk st st1 h hd r' _ false I Hh P (fun _ => Hn)) as G.
      rewrite Er in G. destruct G as [G1 G2]. auto.
Qed.

(** ** truncate to [m <= len] *)
Lemma do_shorten_good bk st h hd m :
  Inv bk st -> get_h st h = Some hd -> m <= rlen (hrepr hd) ->
  Inv bk (do_shorten bk st h (hrepr hd) m)
  /\ abs (do_shorten bk st h (hrepr hd) m) = sset (abs st) h (Some (sub (view_r st (hrepr hd)) 0 m)).
Proof.
  intros I Hh Hm. unfold do_shorten.
  pose proof (inv_h _ _ I _ _ Hh) as Hok.
  pose proof (Inv_BInv _ _ I) as B.
  destruct (is_alloc (hrepr hd) && (m <=? INLINE_CAP)) eqn:C.
  - apply assign_good; [exact I | exact Hh | | reflexivity].
    apply produces_inline. pose proof (len_sub_le (view_r st (hrepr hd)) 0 m). apply andb_prop in C. lia.
  - assert (Gen : forall r', (forall b, pt b r' = pt b (hrepr hd)) -> repr_ok st r' -> normalized r' = true ->
              view_r st r' = sub (view_r st (hrepr hd)) 0 m ->
              Inv bk (set_h st h (Some (mkH r' false)))
              /\ abs (set_h st h (Some (mkH r' false))) = sset (abs st) h (Some (sub (view_r st (hrepr hd)) 0 m))).
    { intros r' Hpt Ok' Hn' V'. rewrite <- V'.
      apply (replace_good bk st st h hd r' false I Hh (Frame_refl st)).
      - intros b _. apply blk_keeps_refl.
      - eapply BInv_ext; [exact B|]. intros b. cbn beta. rewrite Hpt. pose proof (nrefs_handle b _ _ _ Hh). lia.
      - exact Ok'.
      - intros _. exact Hn'. }
    destruct (hrepr hd) as [d|s off n|b off n] eqn:Er; cbn [rlen is_alloc andb] in *.
    + apply Gen; [reflexivity | | reflexivity | reflexivity].
      cbn [repr_ok] in *. pose proof (len_sub_le d 0 m). lia.
    + apply Gen; [reflexivity | | reflexivity |].
      * cbn [repr_ok] in *. destruct Hok; split; [assumption | lia].
      * cbn [view_r]. rewrite sub_sub_0 by lia. reflexivity.
    + apply Gen; [reflexivity | | |].
      * cbn [repr_ok] in *. destruct Hok as (blk & Hb & Hl). exists blk. split; [exact Hb | lia].
      * rewrite normalized_alloc. lia.
      * cbn [view_r]. destruct Hok as (blk & -> & Hl). rewrite sub_sub_0 by lia. reflexivity.
Qed.

(** ** shrink_to *)
Lemma do_shrink_to_good bk st h hd m st' u :
  Inv bk st -> get_h st h = Some hd -> do_shrink_to bk st h hd m = (st', u) ->
  Inv bk st' /\ abs st' = abs st /\ u = UUnit.
Proof.
  intros I Hh E. unfold do_shrink_to in E. cbv beta zeta in E.
  pose proof (inv_h _ _ I _ _ Hh) as Hok.
  pose proof (repr_ok_len _ _ Hok) as Hlen.
  destruct (hrepr hd) as [d|s off n|b off n] eqn:Er.
  - injection E as <- <-. auto.
  - injection E as <- <-. auto.
  - destruct (INLINE_CAP <? N.max m n) eqn:C.
    + pose proof Hok as (blk & Hb & Hl). rewrite Hb in E.
      destruct (vcap blk <=? N.max m n) eqn:C2.
      * injection E as <- <-. auto.
      * destruct (fresh_block st (view_r st (RAlloc b off n)) (N.max m n) false) as [st1 b'] eqn:Ef.
        injection E as <- <-.
        cbn [rlen] in Hlen. assert (Hmx : n <= N.max m n) by lia.
        destruct (produces_fresh bk _ _ _ _ _ _ Ef Hlen Hmx) as (P & _).
        pose proof (assign_good bk st st1 h hd _ _ (lin hd) I Hh P) as G.
        rewrite Er in G. cbn [assign drop_repr] in G. destruct G as [G1 G2].
        { intros Hlin. pose proof (inv_norm _ _ I _ _ Hh Hlin) as Hnm. rewrite Er in Hnm. exact Hnm. }
        split; [exact G1|]. split; [|reflexivity]. etransitivity; [exact G2|]. rewrite <- Er. apply sset_abs_same. exact Hh.
    + injection E as <- <-.
      assert (P : Produces bk st st (RInline (view_r st (RAlloc b off n))) (view_r st (RAlloc b off n))).
      { apply produces_inline. cbn [rlen] in Hlen. lia. }
      pose proof (assign_good bk st st h hd _ _ false I Hh P (fun _ => eq_refl)) as G.
      rewrite Er in G. destruct G as [G1 G2].
      split; [exact G1|]. split; [|reflexivity]. etransitivity; [exact G2|]. rewrite <- Er. apply sset_abs_same. exact Hh.
Qed.
