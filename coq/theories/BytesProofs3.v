(** * BytesProofs3: every operation of [step], one lemma each: the invariant is kept and the
    std-level specification is met. *)
From Hip Require Import Base Range RangeProofs Utf8 StrRange Bytes BytesSpec BytesInv BytesLib BytesProofs1 BytesProofs2.

(** [OForceCount h k] is a test hook; its model computes [phantom := (UMAX - 1 - k) + 1 - nrefs]
    with truncated subtraction, which is only meaningful when [k + nrefs <= UMAX]
    (see BytesCounterexample.v).  Every other operation is unconstrained. *)
Definition force_ok (st : state) (o : op) : Prop :=
  match o with
  | OForceCount h k =>
    forall hd b off n, get_h st h = Some hd -> hrepr hd = RAlloc b off n -> k + nrefs b (hs st) <= UMAX
  | _ => True
  end.

Definition good (bk : backend) (ty : hty) (st : state) (o : op) (st' : state) (u : out) : Prop :=
  Inv bk st' /\ spec_rel ty (abs st) o u (abs st').

Lemma good_det bk ty st o st' u sp1 u1 :
  Inv bk st' -> spec_det ty (abs st) o = Some (sp1, u1) -> abs st' = sp1 -> u = u1 -> good bk ty st o st' u.
Proof. intros I Hd Ha Hu. split; [exact I|]. unfold spec_rel. rewrite Hd. auto. Qed.

Ltac open_step E := unfold step in E; cbv beta zeta in E.
Tactic Notation "with_h" hyp(E) ident(Hh) ident(hd) :=
  match type of E with context [get_h ?st ?h] => destruct (get_h st h) as [hd|] eqn:Hh end.
Ltac skip_case I Hh :=
  split; [exact I|]; unfold spec_rel, spec_det; rewrite ?sget_abs, Hh; cbn [option_map]; auto.
Ltac spec_h Hh := unfold spec_det; rewrite sget_abs, Hh; cbn [option_map]; unfold hview.
Tactic Notation "let_pair" hyp(E) ident(a) ident(b) ident(Eab) :=
  match type of E with context [match ?X with pair _ _ => _ end] => destruct X as [a b] eqn:Eab end.

(** ** small facts *)
Lemma len_nil_inline : len (@nil N) <= INLINE_CAP.
Proof. rewrite len_nil. unfold INLINE_CAP. lia. Qed.

Lemma len_write_at d i b : len (write_at d i b) = len d.
Proof. apply len_upd. Qed.

Lemma len_ascii_map upper d : len (ascii_map upper d) = len d.
Proof. apply len_map. Qed.

Lemma len_repeat_list (v : list N) k : len (repeat_list v k) = len v * N.of_nat k.
Proof.
  induction k as [|k IH]; cbn [repeat_list].
  - rewrite len_nil. lia.
  - rewrite len_app, IH. lia.
Qed.

Lemma last_start_aux_bound l : forall pos best,
  last_start_aux l pos best = best \/ (pos <= last_start_aux l pos best /\ last_start_aux l pos best < pos + len l).
Proof.
  induction l as [|b r IH]; intros pos best; cbn [last_start_aux].
  - left. reflexivity.
  - rewrite len_cons. destruct (IH (pos + 1) (if cont b then best else pos)) as [E|[E1 E2]].
    + rewrite E. destruct (cont b); [left; reflexivity | right; lia].
    + right. lia.
Qed.

Lemma last_start_le v : last_start v <= len v.
Proof. unfold last_start. destruct (last_start_aux_bound v 0 0) as [->|[_ H]]; lia. Qed.

Lemma simplify_ty_bounds ty v s e a b : simplify_ty ty v s e = ROk (a, b) -> a <= b /\ b <= len v.
Proof.
  destruct ty; cbn [simplify_ty].
  - destruct (simplify s e (len v)) as [[a' b']|[[a' b'] k]] eqn:Es; intros E; inversion E; subst.
    eapply simplify_ok_bounds; exact Es.
  - unfold str_try_slice. destruct (simplify s e (len v)) as [[a' b']|[[a' b'] k]] eqn:Es; [|discriminate].
    destruct (negb (is_char_boundary v a')); [discriminate|].
    destruct (negb (is_char_boundary v b')); [discriminate|].
    intros E; inversion E; subst. eapply simplify_ok_bounds; exact Es.
Qed.

Lemma lin_norm bk st h hd r1 :
  Inv bk st -> get_h st h = Some hd -> (normalized (hrepr hd) = true -> normalized r1 = true) ->
  lin hd && is_alloc r1 = false -> normalized r1 = true.
Proof.
  intros I Hh Hn Hl. destruct (lin hd) eqn:L.
  - cbn [andb] in Hl. apply normalized_nonalloc. exact Hl.
  - apply Hn. apply (inv_norm _ _ I _ _ Hh L).
Qed.

Lemma Inv_rlen bk st h hd : Inv bk st -> get_h st h = Some hd -> len (view_r st (hrepr hd)) = rlen (hrepr hd).
Proof. intros I Hh. apply repr_ok_len. apply (inv_h _ _ I _ _ Hh). Qed.

(** ** a new handle from a producer *)
Lemma new_good bk st st1 r v l st' u :
  Inv bk st -> Produces bk st st1 r v -> (l = false -> normalized r = true) -> mk_new st1 r l = (st', u) ->
  Inv bk st' /\ abs st' = abs st ++ [Some v] /\ u = UNew (len (abs st)).
Proof.
  intros I [F K Ok V HB] Hn E. rewrite <- V.
  apply (final_new bk st st1 r l st' u I F); [ | | exact Ok | exact Hn | exact E].
  - intros b _. apply K.
  - apply HB. apply Inv_BInv. exact I.
Qed.

Lemma new_det bk ty st o st1 r v l st' u :
  Inv bk st -> mk_new st1 r l = (st', u) -> Produces bk st st1 r v -> (l = false -> normalized r = true) ->
  spec_det ty (abs st) o = Some (snew (abs st) v) -> good bk ty st o st' u.
Proof.
  intros I E P Hn Hd. destruct (new_good _ _ _ _ _ _ _ _ I P Hn E) as (I' & A & U).
  eapply good_det; [exact I' | exact Hd | exact A | exact U].
Qed.

Lemma same_det bk ty st o u : Inv bk st -> spec_det ty (abs st) o = Some (abs st, u) -> good bk ty st o st u.
Proof. intros I Hd. eapply good_det; [exact I | exact Hd | reflexivity | reflexivity]. Qed.

(** ** constructors *)
Lemma good_ONew bk ty st st' u : Inv bk st -> step bk ty st ONew = (st', u) -> good bk ty st ONew st' u.
Proof.
  intros I E. open_step E.
  eapply new_det; [exact I | exact E | apply produces_inline; apply len_nil_inline | reflexivity | reflexivity].
Qed.

Lemma good_OInline bk ty st x st' u : Inv bk st -> step bk ty st (OInline x) = (st', u) -> good bk ty st (OInline x) st' u.
Proof.
  intros I E. open_step E. destruct (len x <=? INLINE_CAP) eqn:C.
  - eapply new_det; [exact I | exact E | apply produces_inline; lia | reflexivity |].
    unfold spec_det. rewrite C. reflexivity.
  - injection E as <- <-. apply same_det; [exact I|]. unfold spec_det. rewrite C. reflexivity.
Qed.

Lemma good_OTryInline bk ty st x st' u : Inv bk st -> step bk ty st (OTryInline x) = (st', u) -> good bk ty st (OTryInline x) st' u.
Proof.
  intros I E. open_step E. destruct (len x <=? INLINE_CAP) eqn:C.
  - eapply new_det; [exact I | exact E | apply produces_inline; lia | reflexivity |].
    unfold spec_det. rewrite C. reflexivity.
  - injection E as <- <-. apply same_det; [exact I|]. unfold spec_det. rewrite C. reflexivity.
Qed.

Lemma good_OWithCapacity bk ty st n st' u :
  Inv bk st -> step bk ty st (OWithCapacity n) = (st', u) -> good bk ty st (OWithCapacity n) st' u.
Proof.
  intros I E. open_step E. destruct (n <=? INLINE_CAP) eqn:C.
  - eapply new_det; [exact I | exact E | apply produces_inline; apply len_nil_inline | reflexivity | reflexivity].
  - destruct (fresh_block st [] n false) as [st1 b] eqn:Ef.
    destruct (produces_fresh bk _ _ _ 0 _ _ Ef (@len_nil N) (N.le_0_l _)) as (P & _).
    eapply new_det; [exact I | exact E | exact P | discriminate | reflexivity].
Qed.

Lemma nth_snoc_new {A} (l : list A) x d : nth (N.to_nat (len l)) (l ++ [x]) d = x.
Proof. unfold len. rewrite Nat2N.id, app_nth2 by lia. rewrite Nat.sub_diag. reflexivity. Qed.

Lemma good_OBorrowed bk ty st x st' u :
  Inv bk st -> step bk ty st (OBorrowed x) = (st', u) -> good bk ty st (OBorrowed x) st' u.
Proof.
  intros I E. open_step E. unfold add_src in E.
  set (st1 := mkSt (hs st) (bs st) (srcs st ++ [x]) (n_alloc st) (n_free st) (n_realloc st) (n_leak st) (bad st)) in *.
  assert (Hsrc : get_src st1 (len (srcs st)) = x) by (unfold get_src, st1; sproj; apply nth_snoc_new).
  assert (P : Produces bk st st1 (RBorrowed (len (srcs st)) 0 (len x)) x).
  { constructor.
    - constructor; [reflexivity | exists [x]; reflexivity].
    - apply all_kept_same_bs. reflexivity.
    - cbn [repr_ok]. rewrite Hsrc. unfold st1. sproj. rewrite len_app, len_cons, len_nil. lia.
    - cbn [view_r]. rewrite Hsrc. apply sub_all. reflexivity.
    - intros rc p B. apply binv_add0; [reflexivity|].
      eapply binv_cnt; [exact B | reflexivity | reflexivity |]. unfold st1. sproj. lia. }
  eapply new_det; [exact I | exact E | exact P | reflexivity | reflexivity].
Qed.

Lemma good_OFromSlice bk ty st x st' u :
  Inv bk st -> step bk ty st (OFromSlice x) = (st', u) -> good bk ty st (OFromSlice x) st' u.
Proof.
  intros I E. open_step E. destruct (from_slice st x) as [st1 r] eqn:Ef.
  destruct (from_slice_spec bk _ _ _ _ Ef) as (P & Hn & _).
  eapply new_det; [exact I | exact E | exact P | intros _; exact Hn | reflexivity].
Qed.

Lemma good_OFromVec bk ty st x extra st' u :
  Inv bk st -> step bk ty st (OFromVec x extra) = (st', u) -> good bk ty st (OFromVec x extra) st' u.
Proof.
  intros I E. open_step E.
  set (cap := len x + extra) in *.
  set (st0 := add_alloc st (if cap =? 0 then 0 else 1)) in *.
  destruct (from_vec st0 x cap) as [st1 r] eqn:Ef.
  destruct (from_vec_spec bk _ _ _ _ _ Ef ltac:(unfold cap; lia)) as (F & K & Ok & V & Hn & HB).
  assert (P : Produces bk st st1 r x).
  { constructor; [ | | exact Ok | exact V | ].
    - eapply Frame_trans; [|exact F]. apply Frame_intro; reflexivity.
    - eapply all_kept_trans; [|exact K]. apply all_kept_same_bs. reflexivity.
    - intros rc p B. apply HB. eapply binv_cnt; [exact B | reflexivity | reflexivity |].
      unfold st0, buf_count. sproj. lia. }
  eapply new_det; [exact I | exact E | exact P | intros _; exact Hn | reflexivity].
Qed.

Lemma good_OFromUtf8 bk ty st x st' u :
  Inv bk st -> step bk ty st (OFromUtf8 x) = (st', u) -> good bk ty st (OFromUtf8 x) st' u.
Proof.
  intros I E. open_step E. destruct ty.
  - injection E as <- <-. apply same_det; [exact I | reflexivity].
  - destruct (valid x) eqn:V.
    + destruct (from_slice st x) as [st1 r] eqn:Ef.
      destruct (from_slice_spec bk _ _ _ _ Ef) as (P & Hn & _).
      eapply new_det; [exact I | exact E | exact P | intros _; exact Hn |]. unfold spec_det. rewrite V. reflexivity.
    + injection E as <- <-.
      assert (X : Inv bk (if len x <=? INLINE_CAP then st else add_free (add_alloc st 2) 2)
                  /\ abs (if len x <=? INLINE_CAP then st else add_free (add_alloc st 2) 2) = abs st).
      { destruct (len x <=? INLINE_CAP); [auto|]. apply final_counters; auto. sproj. lia. }
      destruct X as [X1 X2]. eapply good_det; [exact X1 | | exact X2 | reflexivity].
      unfold spec_det. rewrite V. reflexivity.
Qed.

(** ** sharing *)
Lemma clone_new_good bk st h hd st1 r st' u :
  Inv bk st -> get_h st h = Some hd -> clone_repr bk st (hrepr hd) = (st1, r) ->
  mk_new st1 r (lin hd && is_alloc r) = (st', u) ->
  Inv bk st' /\ abs st' = abs st ++ [Some (view_r st (hrepr hd))] /\ u = UNew (len (abs st)).
Proof.
  intros I Hh Ec E.
  destruct (clone_repr_spec bk _ _ _ _ Ec (inv_h _ _ I _ _ Hh)) as (P & _ & _ & Hn).
  eapply new_good; [exact I | exact P | | exact E].
  apply (lin_norm bk st h hd r I Hh). intros H. congruence.
Qed.

Lemma good_OClone bk ty st h st' u :
  Inv bk st -> step bk ty st (OClone h) = (st', u) -> good bk ty st (OClone h) st' u.
Proof.
  intros I E. open_step E. with_h E Hh hd.
  - let_pair E st1 r Ec. destruct (clone_new_good _ _ _ _ _ _ _ _ I Hh Ec E) as (I' & A & U).
    eapply good_det; [exact I' | | exact A | exact U]. spec_h Hh. reflexivity.
  - injection E as <- <-. skip_case I Hh.
Qed.

Lemma range_new_good bk st h hd a b st1 r st' u :
  Inv bk st -> get_h st h = Some hd -> a <= b -> b <= rlen (hrepr hd) ->
  range_repr bk st (hrepr hd) a b = (st1, r) -> mk_new st1 r false = (st', u) ->
  Inv bk st' /\ abs st' = abs st ++ [Some (sub (view_r st (hrepr hd)) a b)] /\ u = UNew (len (abs st)).
Proof.
  intros I Hh Hab Hb Er E.
  destruct (range_repr_spec bk _ _ _ _ _ _ Er (inv_h _ _ I _ _ Hh) Hab Hb) as (P & Hn).
  eapply new_good; [exact I | exact P | intros _; exact Hn | exact E].
Qed.

Lemma good_OSlice bk ty st h s e st' u :
  Inv bk st -> step bk ty st (OSlice h s e) = (st', u) -> good bk ty st (OSlice h s e) st' u.
Proof.
  intros I E. open_step E. with_h E Hh hd.
  - destruct (simplify_ty ty (view_r st (hrepr hd)) s e) as [[a b]|err] eqn:Es.
    + let_pair E st1 r Er. destruct (simplify_ty_bounds _ _ _ _ _ _ Es) as [Hab Hb].
      rewrite (Inv_rlen _ _ _ _ I Hh) in Hb.
      destruct (range_new_good _ _ _ _ _ _ _ _ _ _ I Hh Hab Hb Er E) as (I' & A & U).
      eapply good_det; [exact I' | | exact A | exact U]. spec_h Hh. rewrite Es. reflexivity.
    + injection E as <- <-. apply same_det; [exact I|]. spec_h Hh. rewrite Es. reflexivity.
  - injection E as <- <-. skip_case I Hh.
Qed.

Lemma good_OTrySlice bk ty st h s e st' u :
  Inv bk st -> step bk ty st (OTrySlice h s e) = (st', u) -> good bk ty st (OTrySlice h s e) st' u.
Proof.
  intros I E. open_step E. with_h E Hh hd.
  - destruct (simplify_ty ty (view_r st (hrepr hd)) s e) as [[a b]|[[a b] k]] eqn:Es.
    + let_pair E st1 r Er. destruct (simplify_ty_bounds _ _ _ _ _ _ Es) as [Hab Hb].
      rewrite (Inv_rlen _ _ _ _ I Hh) in Hb.
      destruct (range_new_good _ _ _ _ _ _ _ _ _ _ I Hh Hab Hb Er E) as (I' & A & U).
      eapply good_det; [exact I' | | exact A | exact U]. spec_h Hh. rewrite Es. reflexivity.
    + injection E as <- <-. apply same_det; [exact I|]. spec_h Hh. rewrite Es. reflexivity.
  - injection E as <- <-. skip_case I Hh.
Qed.

Lemma good_OSliceRef bk ty st h off n st' u :
  Inv bk st -> step bk ty st (OSliceRef h off n) = (st', u) -> good bk ty st (OSliceRef h off n) st' u.
Proof.
  intros I E. open_step E. with_h E Hh hd.
  - pose proof (Inv_rlen _ _ _ _ I Hh) as Hlen. destruct (off + n <=? rlen (hrepr hd)) eqn:C.
    + let_pair E st1 r Er.
      destruct (range_new_good bk st h hd off (off + n) _ _ _ _ I Hh ltac:(lia) ltac:(lia) Er E) as (I' & A & U).
      eapply good_det; [exact I' | | exact A | exact U]. spec_h Hh. rewrite Hlen, C. reflexivity.
    + injection E as <- <-. apply same_det; [exact I|]. spec_h Hh. rewrite Hlen, C. reflexivity.
  - injection E as <- <-. skip_case I Hh.
Qed.

Lemma good_OSliceRefForeign bk ty st h t st' u :
  Inv bk st -> step bk ty st (OSliceRefForeign h t) = (st', u) -> good bk ty st (OSliceRefForeign h t) st' u.
Proof.
  intros I E. open_step E. with_h E Hh hd.
  - injection E as <- <-. apply same_det; [exact I|]. spec_h Hh. reflexivity.
  - injection E as <- <-. skip_case I Hh.
Qed.
