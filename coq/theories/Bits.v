(** * Bits: the bit-level primitives the tag arithmetic of hipstr uses (for the code regenerated into gen/TagGen.v). *)
From Hip Require Import Base.
Open Scope N_scope.

(** [a << b] on usize: the shift amount is checked in debug builds (overflow check) and masked in release builds; bits shifted
    out of the word are lost *)
Definition shl_w (dbg : bool) (a b : N) : M N :=
  if dbg && (64 <=? b) then Panic else Val (N.shiftl a (b mod 64) mod W).

(** [NonZeroU8::new_unchecked(v)]: undefined behaviour when [v = 0].  The panic monad has no separate outcome for undefined
    behaviour: it is modelled as [Panic], and the theorems about its callers show that this branch is never taken. *)
Definition nonzero_unchecked (v : N) : M N := if v =? 0 then Panic else Val v.

(** a pointer to a type aligned like usize has its two low bits clear: or-ing a 2-bit tag is adding it, xor-ing it removes it *)
Lemma lor_low_bits : forall addr t, addr mod 4 = 0 -> t < 4 -> N.lor addr t = addr + t.
Proof.
  intros addr t Ha Ht.
  assert (E : addr = 4 * (addr / 4)) by (pose proof (N.div_mod addr 4); lia).
  rewrite E at 1 2. generalize (addr / 4). intros k.
  assert (H4 : 4 * k = N.shiftl k 2) by (rewrite N.shiftl_mul_pow2; simpl; lia).
  rewrite H4. symmetry. rewrite <- N.lxor_lor.
  - apply N.add_nocarry_lxor. apply N.bits_inj_0. intros n. rewrite N.land_spec.
    destruct (N.ltb_spec n 2) as [L|L].
    + rewrite N.shiftl_spec_low by exact L. reflexivity.
    + rewrite (N.bits_above_log2 t n); [apply andb_false_r|].
      destruct t as [|p]; [simpl; lia|]. assert (N.log2 (N.pos p) < 2); [|lia].
      apply N.log2_lt_pow2; simpl; lia.
  - apply N.bits_inj_0. intros n. rewrite N.land_spec.
    destruct (N.ltb_spec n 2) as [L|L].
    + rewrite N.shiftl_spec_low by exact L. reflexivity.
    + rewrite (N.bits_above_log2 t n); [apply andb_false_r|].
      destruct t as [|p]; [simpl; lia|]. assert (N.log2 (N.pos p) < 2); [|lia].
      apply N.log2_lt_pow2; simpl; lia.
Qed.

Lemma land_low_bits : forall addr t, addr mod 4 = 0 -> t < 4 -> N.land (addr + t) 3 = t.
Proof.
  intros addr t Ha Ht. change 3 with (N.ones 2). rewrite N.land_ones. change (2 ^ 2) with 4.
  assert (E : addr = 4 * (addr / 4)) by (pose proof (N.div_mod addr 4); lia).
  rewrite E. rewrite N.add_comm, N.mul_comm, N.mod_add by lia. apply N.mod_small; exact Ht.
Qed.
