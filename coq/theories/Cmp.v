(** * Cmp: comparison kinds of the std views (C12): byte-wise ([u8], str, OsStr, BStr on Unix) and path-wise
    (Unix [Path]: component-wise), their hash classes, and the semantics of the crate's comparison-impl tables. *)
From Hip Require Import Base.

(** ** byte-wise *)
Fixpoint bytes_eqb (a b : list N) : bool :=
  match a, b with
  | [], [] => true
  | x :: a', y :: b' => (x =? y) && bytes_eqb a' b'
  | _, _ => false
  end.
Fixpoint bytes_cmp (a b : list N) : comparison :=
  match a, b with
  | [], [] => Eq
  | [], _ :: _ => Lt
  | _ :: _, [] => Gt
  | x :: a', y :: b' => match x ?= y with Eq => bytes_cmp a' b' | c => c end
  end.

(** ** Unix paths: [Path::components] *)
Inductive comp := CRoot | CCur | CParent | CNormal (name : list N).

Definition SLASH : N := 47.
Definition DOT : N := 46.

(** split at '/' (keeping empty pieces) *)
Fixpoint split_slash (l : list N) (cur : list N) : list (list N) :=
  match l with
  | [] => [rev cur]
  | c :: r => if c =? SLASH then rev cur :: split_slash r [] else split_slash r (c :: cur)
  end.

Definition is_dot (p : list N) : bool := match p with [c] => c =? DOT | _ => false end.
Definition is_dotdot (p : list N) : bool := match p with [c; d] => (c =? DOT) && (d =? DOT) | _ => false end.
Definition is_empty {A} (p : list A) : bool := match p with [] => true | _ => false end.

Definition piece_comp (p : list N) : list comp :=
  if is_empty p || is_dot p then [] else if is_dotdot p then [CParent] else [CNormal p].

(** root flag; a leading "." of a relative path is kept as CurDir; empty pieces and interior "." are dropped *)
Definition components (l : list N) : list comp :=
  match l with
  | [] => []
  | c :: _ =>
    let pieces := split_slash l [] in
    if c =? SLASH then CRoot :: flat_map piece_comp pieces
    else match pieces with
         | first :: rest => (if is_dot first then [CCur] else piece_comp first) ++ flat_map piece_comp rest
         | [] => []
         end
  end.

Definition comp_rank (c : comp) : N := match c with CRoot => 1 | CCur => 2 | CParent => 3 | CNormal _ => 4 end.
Definition comp_cmp (a b : comp) : comparison :=
  match a, b with
  | CNormal x, CNormal y => bytes_cmp x y
  | _, _ => comp_rank a ?= comp_rank b
  end.
Definition comp_eqb (a b : comp) : bool := match comp_cmp a b with Eq => true | _ => false end.

Fixpoint comps_cmp (a b : list comp) : comparison :=
  match a, b with
  | [], [] => Eq
  | [], _ :: _ => Lt
  | _ :: _, [] => Gt
  | x :: a', y :: b' => match comp_cmp x y with Eq => comps_cmp a' b' | c => c end
  end.

Definition path_cmp (a b : list N) : comparison := comps_cmp (components a) (components b).
Definition path_eqb (a b : list N) : bool := match path_cmp a b with Eq => true | _ => false end.

(** ** kinds *)
Inductive ckind := KBytes | KPath.
Definition kind_eqb (a b : ckind) : bool := match a, b with KBytes, KBytes | KPath, KPath => true | _, _ => false end.
Definition k_cmp (k : ckind) : list N -> list N -> comparison := match k with KBytes => bytes_cmp | KPath => path_cmp end.
Definition k_eqb (k : ckind) (a b : list N) : bool := match k_cmp k a b with Eq => true | _ => false end.

(** hash classes: two values hash equally for sure only inside one class *)
Inductive hclass := HSlice (* [u8], OsStr, BStr: length prefix + bytes *) | HStr (* str: bytes + 0xff *) | HPath (* Path: function of the components *).
Definition hclass_eqb (a b : hclass) : bool := match a, b with HSlice, HSlice | HStr, HStr | HPath, HPath => true | _, _ => false end.
