(** * StrRange: HipStr::try_slice = range normalisation + two char-boundary tests (src/string.rs:541-565). *)
From Hip Require Import Base Range Utf8.

(** string::SliceErrorKind *)
Inductive str_kind :=
| SStartGreaterThanEnd | SStartOutOfBounds | SEndOutOfBounds
| SStartNotACharBoundary | SEndNotACharBoundary.

Definition lift_kind (k : skind) : str_kind :=
  match k with
  | StartGreaterThanEnd => SStartGreaterThanEnd
  | StartOutOfBounds => SStartOutOfBounds
  | EndOutOfBounds => SEndOutOfBounds
  end.

Definition str_try_slice (v : list N) (s e : bound) : result (N * N) (N * N * str_kind) :=
  match simplify s e (len v) with
  | RErr (a, b, k) => RErr (a, b, lift_kind k)
  | ROk (a, b) =>
    if negb (is_char_boundary v a) then RErr (a, b, SStartNotACharBoundary)
    else if negb (is_char_boundary v b) then RErr (a, b, SEndNotACharBoundary)
    else ROk (a, b)
  end.

(** std: [str::get((s, e))] *)
Definition std_str_get (v : list N) (s e : bound) : option (N * N) :=
  match std_get s e (len v) with
  | Some (a, b) => if is_char_boundary v a && is_char_boundary v b then Some (a, b) else None
  | None => None
  end.
