(** * StrRangeProofs: HipStr::try_slice against std's [str::get] (C08 for strings, C06 for the result). *)
From Hip Require Import Base Range RangeProofs Utf8 StrRange Utf8Proofs.

Theorem str_try_slice_total : forall v s e, bound_ok s -> bound_ok e -> len v <= IMAX ->
  match str_try_slice v s e with
  | ROk (a, b) => std_str_get v s e = Some (a, b)
  | RErr (a, b, k) => std_str_get v s e = None /\
      match k with
      | SStartOutOfBounds => mstart s > len v
      | SEndOutOfBounds => mend e (len v) > len v
      | SStartGreaterThanEnd => mstart s > mend e (len v)
      | SStartNotACharBoundary => is_char_boundary v a = false
      | SEndNotACharBoundary => is_char_boundary v b = false
      end
  end.
Proof.
  intros v s e Hs He Hl. pose proof (simplify_total s e (len v) Hs He Hl) as H.
  unfold str_try_slice, std_str_get.
  destruct (simplify s e (len v)) as [[a b]|[[a b] k]].
  - rewrite H. destruct (is_char_boundary v a) eqn:Ba; cbn [negb andb].
    + destruct (is_char_boundary v b) eqn:Bb; cbn [negb]; [reflexivity | split; [reflexivity | exact Bb]].
    + split; [reflexivity | exact Ba].
  - destruct H as [H K]. rewrite H. split; [reflexivity|].
    destruct k; cbn [lift_kind names_failing] in *; exact K.
Qed.

Theorem str_try_slice_ok_iff : forall v s e a b, bound_ok s -> bound_ok e -> len v <= IMAX ->
  (str_try_slice v s e = ROk (a, b) <-> std_str_get v s e = Some (a, b)).
Proof.
  intros v s e a b Hs He Hl. pose proof (str_try_slice_total v s e Hs He Hl) as H.
  destruct (str_try_slice v s e) as [[a' b']|[[a' b'] k]].
  - rewrite H. split; intros E; inversion E; reflexivity.
  - destruct H as [H _]. rewrite H. split; intros E; discriminate E.
Qed.

(** What an accepted range satisfies. *)
Lemma str_try_slice_ok_inv : forall v s e a b, str_try_slice v s e = ROk (a, b) ->
  simplify s e (len v) = ROk (a, b) /\ is_char_boundary v a = true /\ is_char_boundary v b = true.
Proof.
  intros v s e a b. unfold str_try_slice.
  destruct (simplify s e (len v)) as [[a' b']|[[a' b'] k]]; [|discriminate].
  destruct (is_char_boundary v a') eqn:Ba; cbn [negb]; [|discriminate].
  destruct (is_char_boundary v b') eqn:Bb; cbn [negb]; [|discriminate].
  intros E; inversion E; subst. repeat split; assumption.
Qed.

Theorem str_try_slice_bounds : forall v s e a b,
  str_try_slice v s e = ROk (a, b) -> a <= b /\ b <= len v.
Proof.
  intros v s e a b H. apply str_try_slice_ok_inv in H as (H & _ & _).
  apply (simplify_ok_bounds _ _ _ _ _ H).
Qed.

(** An accepted slice of a well-formed string is well-formed. *)
Theorem str_try_slice_valid : forall v s e a b, valid v = true ->
  str_try_slice v s e = ROk (a, b) -> valid (sub v a b) = true.
Proof.
  intros v s e a b Hv H. pose proof (str_try_slice_bounds _ _ _ _ _ H) as [Hab Hb].
  apply str_try_slice_ok_inv in H as (_ & Ba & Bb). apply valid_sub; assumption.
Qed.

Print Assumptions str_try_slice_total.
Print Assumptions str_try_slice_ok_iff.
Print Assumptions str_try_slice_valid.
Print Assumptions str_try_slice_bounds.
