(** * C07 -- Representation contract: borrow/inline/heap choice, zero-copy, no-alloc, niche. *)
From Hip Require Import Base Range Utf8 StrRange Bytes BytesSpec BytesInv BytesLib BytesProofs3 BytesProofs BytesCorollaries BytesUtf8 BytesContract BytesShape.

(** Borrowing constructors never copy or allocate and expose the caller's exact memory (the source itself, offset 0, full length). *)
Theorem C07_borrow_zero_copy : forall bk ty st x,
  exists st', step bk ty st (OBorrowed x) = (st', UNew (len (hs st)))
    /\ get_h st' (len (hs st)) = Some (mkH (RBorrowed (len (srcs st)) 0 (len x)) false)
    /\ get_src st' (len (srcs st)) = x /\ n_alloc st' = n_alloc st.
Proof. exact borrowed_zero_copy. Qed.
Print Assumptions C07_borrow_zero_copy.

(** Any owned value that does not descend from an explicit with_capacity request is normalised: of length <= 23 it is inline (not heap). *)
Theorem C07_normalised : forall bk st h hd, Inv bk st -> get_h st h = Some hd -> lin hd = false -> normalized (hrepr hd) = true.
Proof. intros bk st h hd I. exact (inv_norm bk st I h hd). Qed.
Print Assumptions C07_normalised.

(** the non-normalised lineage flag originates only in with_capacity (it is inherited by clones and in-place pushes, never created elsewhere) *)
Theorem C07_lineage : forall bk ty st o st' u,
  Inv bk st -> force_ok st o -> (forall h hd, get_h st h = Some hd -> lin hd = false) ->
  (forall n, o <> OWithCapacity n) -> step bk ty st o = (st', u) ->
  forall h hd, get_h st' h = Some hd -> lin hd = false.
Proof. exact lin_only_from_with_capacity. Qed.
Print Assumptions C07_lineage.

(** new/default: inline, empty, no allocation *)
Theorem C07_new_is_inline_empty : forall bk ty st,
  exists st', step bk ty st ONew = (st', UNew (len (hs st)))
    /\ get_h st' (len (hs st)) = Some (mkH (RInline []) false) /\ bs st' = bs st /\ n_alloc st' = n_alloc st.
Proof. exact new_is_inline_empty. Qed.
Print Assumptions C07_new_is_inline_empty.

(** clear of a non-empty value never leaves a heap-backed value *)
Theorem C07_clear_not_heap : forall bk ty st h hd st' u,
  get_h st h = Some hd -> 0 < rlen (hrepr hd) -> step bk ty st (OClear h) = (st', u) ->
  exists hd', get_h st' h = Some hd' /\ is_alloc (hrepr hd') = false.
Proof. exact clear_not_heap. Qed.
Print Assumptions C07_clear_not_heap.

(** Cloning a heap-backed Arc/Rc value (count below the ceiling) allocates nothing and points into the same buffer at the same offset. *)
Theorem C07_clone_shares : forall bk ty st h hd b off n blk,
  get_h st h = Some hd -> hrepr hd = RAlloc b off n -> get_b st b = Some blk -> can_incr bk (cnt blk) = true ->
  exists st', step bk ty st (OClone h) = (st', UNew (len (hs st)))
    /\ (exists l, get_h st' (len (hs st)) = Some (mkH (RAlloc b off n) l))
    /\ n_alloc st' = n_alloc st /\ n_realloc st' = n_realloc st.
Proof. exact clone_shares. Qed.
Print Assumptions C07_clone_shares.

(** Slicing to more than the inline capacity allocates nothing and points into the same buffer at the right offset. *)
Theorem C07_slice_shares : forall bk ty st h hd b off n blk s e a b',
  get_h st h = Some hd -> hrepr hd = RAlloc b off n -> get_b st b = Some blk -> can_incr bk (cnt blk) = true ->
  simplify_ty ty (view_r st (hrepr hd)) s e = ROk (a, b') -> INLINE_CAP < b' - a ->
  exists st', step bk ty st (OTrySlice h s e) = (st', UNew (len (hs st)))
    /\ get_h st' (len (hs st)) = Some (mkH (RAlloc b (off + a) (b' - a)) false)
    /\ n_alloc st' = n_alloc st /\ n_realloc st' = n_realloc st.
Proof. exact slice_shares. Qed.
Print Assumptions C07_slice_shares.

(** a short slice of an owned value is inline, no allocation *)
Theorem C07_slice_inlines : forall bk ty st h hd s e a b',
  get_h st h = Some hd -> is_borrowed (hrepr hd) = false ->
  simplify_ty ty (view_r st (hrepr hd)) s e = ROk (a, b') -> b' - a <= INLINE_CAP ->
  exists st', step bk ty st (OTrySlice h s e) = (st', UNew (len (hs st)))
    /\ get_h st' (len (hs st)) = Some (mkH (RInline (sub (view_r st (hrepr hd)) a b')) false)
    /\ n_alloc st' = n_alloc st /\ n_realloc st' = n_realloc st /\ bs st' = bs st.
Proof. exact slice_inlines. Qed.
Print Assumptions C07_slice_inlines.

(** a slice of a borrowed value borrows the same source at the right offset, no allocation *)
Theorem C07_slice_borrowed : forall bk ty st h hd s0 off n s e a b',
  get_h st h = Some hd -> hrepr hd = RBorrowed s0 off n ->
  simplify_ty ty (view_r st (hrepr hd)) s e = ROk (a, b') ->
  exists st', step bk ty st (OTrySlice h s e) = (st', UNew (len (hs st)))
    /\ get_h st' (len (hs st)) = Some (mkH (RBorrowed s0 (off + a) (b' - a)) false)
    /\ n_alloc st' = n_alloc st /\ n_realloc st' = n_realloc st /\ bs st' = bs st.
Proof. exact slice_borrowed. Qed.
Print Assumptions C07_slice_borrowed.

(** From<Vec/String/Box/...> of more than 23 bytes takes the buffer over (same capacity; only the owner box is allocated). *)
Theorem C07_from_vec_adopts : forall bk ty st x extra,
  INLINE_CAP < len x ->
  let b' := len (bs st) in
  exists st', step bk ty st (OFromVec x extra) = (st', UNew (len (hs st)))
    /\ get_h st' (len (hs st)) = Some (mkH (RAlloc b' 0 (len x)) false)
    /\ get_b st' b' = Some (mkBlock x (len x + extra) 0 0)
    /\ n_alloc st' = n_alloc st + 2.
Proof. exact from_vec_adopts. Qed.
Print Assumptions C07_from_vec_adopts.

(** From<Vec> of at most 23 bytes is inline (the Vec's buffer is released) *)
Theorem C07_from_vec_inlines : forall bk ty st x extra,
  len x <= INLINE_CAP ->
  exists st', step bk ty st (OFromVec x extra) = (st', UNew (len (hs st)))
    /\ get_h st' (len (hs st)) = Some (mkH (RInline x) false)
    /\ bs st' = bs st
    /\ n_alloc st' + n_free st = n_alloc st + n_free st'.
Proof. exact from_vec_inlines. Qed.
Print Assumptions C07_from_vec_inlines.

(** into_vec/into_string of the sole owner at offset 0 hands the buffer back: same capacity, nothing copied or allocated. *)
Theorem C07_into_vec_reuses : forall bk ty st h hd b off n blk,
  get_h st h = Some hd -> hrepr hd = RAlloc b off n -> get_b st b = Some blk ->
  can_unwrap bk st (hrepr hd) = true ->
  exists st', step bk ty st (OIntoVec h) = (st', UVec (firstn (N.to_nat n) (vdata blk)) (vcap blk))
    /\ n_alloc st' = n_alloc st /\ n_realloc st' = n_realloc st /\ get_h st' h = None /\ get_b st' b = None.
Proof. exact into_vec_reuses. Qed.
Print Assumptions C07_into_vec_reuses.

(** capacity() >= len() always *)
Theorem C07_capacity_ge_len : forall bk st, Inv bk st -> Forall (fun o => len (o_bytes o) <= o_cap o) (observe bk st).
Proof. exact capacity_ge_len. Qed.
Print Assumptions C07_capacity_ge_len.

(** a with_capacity(n) value accepts bytes up to n without its data moving (same block, same capacity, no (re)allocation) *)
Theorem C07_with_capacity_in_place : forall bk ty st h hd b n x blk,
  Inv bk st -> get_h st h = Some hd -> hrepr hd = RAlloc b 0 n -> get_b st b = Some blk ->
  is_unique_c bk (cnt blk) = true -> n + len x <= vcap blk ->
  exists st', step bk ty st (OPushSlice h x) = (st', UUnit)
    /\ (exists l, get_h st' h = Some (mkH (RAlloc b 0 (n + len x)) l))
    /\ n_alloc st' = n_alloc st /\ n_realloc st' = n_realloc st
    /\ (exists blk', get_b st' b = Some blk' /\ vcap blk' = vcap blk).
Proof. exact with_capacity_in_place. Qed.
Print Assumptions C07_with_capacity_in_place.

(** the tag byte is never 0 (the NonZeroU8 niche that makes Option<Hip*> three words): tags are 1, 2, 3 *)
Lemma observe_from_tags bk st l : forall i, Forall (fun o => o_tag o <> 0) (observe_from bk st l i).
Proof.
  induction l as [|[hd|] r IH]; intros i; cbn [observe_from]; [constructor | | apply IH].
  constructor; [|apply IH]. unfold observe_h. destruct (hrepr hd) as [d|s off n|b off n]; [cbn; lia | cbn; lia |].
  destruct (get_b st b); cbn; lia.
Qed.
Theorem C07_niche : forall bk st, Forall (fun o => o_tag o <> 0) (observe bk st).
Proof. intros bk st. apply observe_from_tags. Qed.
Print Assumptions C07_niche.

Example C07_nonvacuous :
  map o_tag (observe BArc (fst (run BArc TByt init [OFromSlice (repeat 65 23); OFromSlice (repeat 65 24); OBorrowed [1]; OWithCapacity 30; OSlice 1 (Incl 0) (Excl 5)]))) = [1; 3; 2; 3; 1].
Proof. vm_compute. reflexivity. Qed.
