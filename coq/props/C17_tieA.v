(** * C17 (a) -- every public function of today's source that trusts its caller is an `unsafe fn`.
    The table is regenerated from /repo/src on every run (coq/gen/ApiTable.v); the domain of the statement is
    "the public functions present in the source now" -- finite, enumerated completely. *)
From Coq Require Import List String Bool.
Import ListNotations.
From Hip Require Import Api.
From HipGen Require Import ApiTable.

Definition audit_ok (f : api_fn) : bool := audit_entry (f_unsafe f) (f_safety_doc f) (f_unchecked f).

Theorem C17_audit_table : forallb audit_ok api_table = true.
Proof. vm_compute. reflexivity. Qed.

Theorem C17_audit : forall f, In f api_table -> (f_unchecked f = true \/ f_safety_doc f = true) -> f_unsafe f = true.
Proof.
  intros f Hin Ht. pose proof (proj1 (forallb_forall audit_ok api_table) C17_audit_table f Hin) as H.
  unfold audit_ok, audit_entry, trusts_caller in H. destruct (f_unsafe f); [reflexivity|].
  destruct Ht as [E|E]; rewrite E in H; destruct (f_unchecked f), (f_safety_doc f); discriminate.
Qed.
Print Assumptions C17_audit.

(** the table is not trivially empty and contains both kinds *)
Example C17_table_nonvacuous :
  Nat.leb 100 (List.length api_table) = true /\ existsb (fun f => f_unsafe f) api_table = true /\ existsb (fun f => negb (f_unsafe f)) api_table = true.
Proof. repeat split; vm_compute; reflexivity. Qed.

(** the list of offenders, for the replay file when the theorem above stops computing to true *)
Definition offenders : list (string * nat * string) :=
  map (fun f => (f_file f, f_line f, f_name f)) (filter (fun f => negb (audit_ok f)) api_table).
