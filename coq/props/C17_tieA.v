(** * C17 (a) -- every public function of today's source that trusts its caller is an `unsafe fn`.
    The table is regenerated from /repo/src on every run (coq/gen/ApiTable.v); the domain of the statement is
    "the public functions present in the source now" -- finite, enumerated completely. *)
From Coq Require Import List String Bool.
Import ListNotations.
From Hip Require Import Api ApiAudit.
From HipGen Require Import ApiTable.

Definition audit_ok (f : api_fn) : bool := audit_entry (f_unsafe f) (f_safety_doc f) (f_unchecked f).

Theorem C17_audit_table : forallb audit_ok api_table = true.
Proof. vm_compute. reflexivity. Qed.

Theorem C17_audit : forall f, In f api_table -> (f_unchecked f = true \/ f_safety_doc f = true) -> f_unsafe f = true.
Proof.
  intros f Hin Ht. pose proof (proj1 (forallb_forall audit_ok api_table) C17_audit_table f Hin) as H.
  unfold audit_ok, audit_entry, trusts_caller in H. destruct (f_unsafe f); [reflexivity|].
  destruct Ht as [E|E]; rewrite E in H; destruct (f_unchecked f), (f_safety_doc f); discriminate.
Qed.
Print Assumptions C17_audit.

(** the table is not trivially empty and contains both kinds *)
Example C17_table_nonvacuous :
  Nat.leb 100 (List.length api_table) = true /\ existsb (fun f => f_unsafe f) api_table = true /\ existsb (fun f => negb (f_unsafe f)) api_table = true.
Proof. repeat split; vm_compute; reflexivity. Qed.

(** the list of offenders, for the replay file when the theorem above stops computing to true *)
Definition offenders : list (string * nat * string) :=
  map (fun f => (f_file f, f_line f, f_name f)) (filter (fun f => negb (audit_ok f)) api_table).

(** ** the traits whose implementors the unchecked code trusts cannot be implemented outside the crate *)
Definition trait_sealed (n : string) : bool := sealed api_trait t_name t_nameable t_supers 8 trait_table n.

Theorem C17_traits_sealed_table : forallb (fun t => trait_sealed (t_name t)) trait_table = true.
Proof. vm_compute. reflexivity. Qed.

(** every trait declared in today's source requires (is, or has as a transitive supertrait) a trait that code outside the crate cannot name *)
Theorem C17_traits_sealed : forall t, In t trait_table ->
  exists m u, requires api_trait t_name t_supers trait_table (t_name t) m /\ lookup api_trait t_name trait_table m = Some u /\ t_nameable u = false.
Proof.
  intros t Hin. apply (sealed_sound api_trait t_name t_nameable t_supers 8).
  exact (proj1 (forallb_forall _ trait_table) C17_traits_sealed_table t Hin).
Qed.
Print Assumptions C17_traits_sealed.

Example C17_traits_nonvacuous :
  Nat.leb 8 (List.length trait_table) = true /\ existsb t_nameable trait_table = true
  /\ existsb (fun t => String.eqb (t_name t) "Pattern" && negb (t_nameable t) && Nat.leb 5 (t_safe_methods t)) trait_table = true.
Proof. repeat split; vm_compute; reflexivity. Qed.

Definition unsealed_traits : list (string * nat * string) :=
  map (fun t => (t_file t, t_line t, t_name t)) (filter (fun t => negb (trait_sealed (t_name t))) trait_table).

(** ** accessors whose result can outlive the borrow of [self]: `pub fn (&self ..) -> ..&'l T..` where no parameter carries ['l].
    Sound only when ['l] is the lifetime of the data the value itself borrows ([as_borrowed] family: the slice really lives for
    ['borrow]); anywhere else (e.g. an iterator handing out [&'a [T]] of the elements it is about to move) it is an escape. *)
Definition ref_ok (r : api_ref) : bool :=
  r_unsafe r
  || (String.eqb (r_lifetime r) "borrow"
      && (String.eqb (r_name r) "as_borrowed" || (String.eqb (r_name r) "as_slice" && String.eqb (r_file r) "src/bytes/raw/borrowed.rs"))).

Theorem C17_ref_accessors_table : forallb ref_ok ref_table = true.
Proof. vm_compute. reflexivity. Qed.

Theorem C17_ref_accessors : forall r, In r ref_table -> r_unsafe r = false -> r_lifetime r = "borrow" /\ (r_name r = "as_borrowed" \/ r_name r = "as_slice").
Proof.
  intros r Hin Hu. pose proof (proj1 (forallb_forall ref_ok ref_table) C17_ref_accessors_table r Hin) as H.
  unfold ref_ok in H. rewrite Hu in H. cbn [orb] in H.
  apply andb_true_iff in H as [Hl Hn]. split; [now apply String.eqb_eq|].
  apply orb_true_iff in Hn as [Hn|Hn]; [left; now apply String.eqb_eq|].
  apply andb_true_iff in Hn as [Hn _]. right; now apply String.eqb_eq.
Qed.
Print Assumptions C17_ref_accessors.

Definition unaudited_ref_accessors : list (string * nat * string) :=
  map (fun r => (r_file r, r_line r, r_name r)) (filter (fun r => negb (ref_ok r)) ref_table).

(** ** every safe function that wraps an `unsafe` block is one whose checks were examined; no public trait offers one to implementors/callers *)
Theorem C17_safe_wrappers_known : forallb is_audited safe_with_unsafe = true /\ trait_safe_with_unsafe = [].
Proof. split; vm_compute; reflexivity. Qed.

Definition unaudited_safe_wrappers : list (string * string) := filter (fun e => negb (is_audited e)) safe_with_unsafe ++ trait_safe_with_unsafe.
