(** * C06 -- HipStr is always well-formed UTF-8; OS/path values always valid encodings. *)
From Hip Require Import Utf8Proofs StrRangeProofs.
From Hip Require Import Base Range Utf8 StrRange Bytes BytesSpec BytesInv BytesLib BytesProofs3 BytesProofs BytesCorollaries BytesUtf8 BytesContract BytesShape.

(** One operation on HipStr values (arguments typed &str/char well-formed: op_wf) keeps every value well-formed UTF-8. *)
Theorem C06_step_valid : forall bk st o st' u,
  Inv bk st -> force_ok st o -> all_valid st -> op_wf TStr st o -> step bk TStr st o = (st', u) -> all_valid st'.
Proof. exact step_all_valid. Qed.
Print Assumptions C06_step_valid.

(** Through any sequence of safe operations every HipStr's bytes are well-formed UTF-8. *)
Theorem C06_always_valid : forall bk ops st' us,
  run_pre bk TStr init ops -> run_wf bk init ops -> run bk TStr init ops = (st', us) -> all_valid st'.
Proof. exact run_all_valid. Qed.
Print Assumptions C06_always_valid.

(** An operation that is rejected (error or panic: a cut inside a code point, ill-formed input to from_utf8) leaves every value unchanged. *)
Theorem C06_rejections_leave_unchanged : forall bk ty st o st' u,
  Inv bk st -> force_ok st o -> step bk ty st o = (st', u) ->
  (u = UPanic \/ (exists k a b, u = UErr k a b) \/ u = UNone) -> abs st' = abs st.
Proof. exact rejected_unchanged. Qed.
Print Assumptions C06_rejections_leave_unchanged.

(** slice/try_slice are rejected exactly when std rejects (range or char boundary); an accepted range yields a well-formed piece *)
Theorem C06_try_slice_iff_std : forall v s e a b, bound_ok s -> bound_ok e -> len v <= IMAX ->
  (str_try_slice v s e = ROk (a, b) <-> std_str_get v s e = Some (a, b)).
Proof. exact str_try_slice_ok_iff. Qed.
Print Assumptions C06_try_slice_iff_std.
Theorem C06_try_slice_valid : forall v s e a b, valid v = true -> str_try_slice v s e = ROk (a, b) -> valid (sub v a b) = true.
Proof. exact str_try_slice_valid. Qed.
Print Assumptions C06_try_slice_valid.
(** truncate inside a code point panics (model: OTruncate), pop removes exactly one scalar *)
Theorem C06_pop_one_scalar : forall l, valid l = true -> l <> [] -> valid (sub l 0 (last_start l)) = true /\ chr (sub l (last_start l) (len l)).
Proof. exact last_start_split. Qed.
Print Assumptions C06_pop_one_scalar.
(** HipOsStr / HipPath on Unix: every byte string is a valid OsStr; conversion to HipStr goes through the same [valid] test (OFromUtf8). *)

Example C06_nonvacuous :
  valid [97; 195; 169; 226; 130; 172; 240; 159; 166; 128] = true /\ valid [195] = false /\ valid [237; 160; 128] = false /\
  is_char_boundary [97; 195; 169] 2 = false /\
  snd (run BArc TStr init [OFromUtf8 [97; 195; 169]; OTrySlice 0 (Incl 0) (Excl 2); OTruncate 0 2; OFromUtf8 [195]]) =
     [UNew 0; UErr SEndNotACharBoundary 0 2; UPanic; UErr SStartOutOfBounds 0 0].
Proof. repeat split; vm_compute; reflexivity. Qed.
