(** * C10 tied to today's source (gen/ConcatGen.v, regenerated from src/bytes.rs on every run).
    The Concat model describes the copy pass by the list of pieces it sees ([ps2]) and takes one boolean, [check_end]: does the code
    check [end_ptr == final_ptr] before [set_len(new_len)]?  The model is adequate for the source as long as
    - each caller-supplied [AsRef] (piece or separator) is resolved ONCE per traversal and the copy uses that single answer for both
      its length and its pointer (otherwise "the piece the copy pass saw" is not one slice),
    - every [copy_nonoverlapping] is preceded, in its block, by the bound assertion on the very length it copies
      ([copy_loop] / [join_loop] return [None] = panic exactly there), as a real [assert!] in the generic forms,
    - the generic forms end with a real [assert!(end_ptr == final_ptr)].
    These are read off the source here; the adversarial theorems are then restated for the source's own [check_end]. *)
From Coq Require Import List Bool.
Import ListNotations.
From Hip Require Import Base Utf8 Concat ConcatProofs.
From HipGen Require Import ConcatGen.

Theorem C10_source_structure :
  forallb (fun f => bf_asref_once f && bf_copies_guarded f && bf_final_check f) builder_table = true
  /\ map bf_copies builder_table = [1; 3; 3]%nat /\ source_check_end = true.
Proof. repeat split; vm_compute; reflexivity. Qed.

Theorem C10_concat_adversarial_src : forall ps1 ps2 out,
  concat_generic source_check_end ps1 ps2 = CVal out -> all_init out = true /\ (out = [] \/ out = map Some (flat ps2)).
Proof. change source_check_end with true. exact concat_adversarial. Qed.
Print Assumptions C10_concat_adversarial_src.

Theorem C10_join_adversarial_src : forall ps1 ps2 sep out,
  join_generic source_check_end ps1 ps2 sep = CVal out -> all_init out = true /\ (out = [] \/ out = map Some (intercalate sep ps2)).
Proof. change source_check_end with true. exact join_adversarial. Qed.
Print Assumptions C10_join_adversarial_src.

Theorem C10_concat_equal_std_src : forall ps, concat_generic source_check_end ps ps = CVal (map Some (flat ps)).
Proof. change source_check_end with true. exact concat_equal_std. Qed.

Theorem C10_join_equal_std_src : forall ps sep, join_generic source_check_end ps ps sep = CVal (map Some (intercalate sep ps)).
Proof. change source_check_end with true. exact join_equal_std. Qed.
