(** * C05 -- Only soundly shareable values are Send/Sync.
    The type environment (struct fields + `unsafe impl Send/Sync` headers) is regenerated from /repo on every run. *)
From Coq Require Import List String Bool.
Import ListNotations.
From Hip Require Import AutoTraits CasesTraits.
From HipGen Require Import TypeEnv.
Open Scope string_scope.

(** the counters: Rc is a Cell (not Sync), Arc an atomic, Unique holds nothing *)
Definition counter_threadsafe (bk : string) : bool := negb (String.eqb bk "Rc").
Definition backends : list string := ["Arc"; "Rc"; "Unique"].
Definition public_types : list string :=
  ["HipByt"; "HipStr"; "HipOsStr"; "HipPath"; "bytes::RefMut"; "string::RefMut"; "os_string::RefMut"; "path::RefMut";
   "bytes::SliceError"; "string::SliceError"; "FromUtf8Error"; "IterWrapper";
   "Option<HipStr>"; "Vec<HipByt>"; "&HipStr"; "(HipPath, HipOsStr)"].

Definition verdict (tr : trait) (name bk : string) : bool := holds FUEL type_env tr (mk_type name (TAdt bk [])).

(** for every bytes/string/os-string/path type, their guards, errors and iterators (and the derived Option/Vec/&/tuple types):
    Send and Sync exactly when the counter tolerates concurrent use *)
Theorem C05_send_sync_iff_threadsafe_counter :
  forallb (fun name => forallb (fun bk =>
    Bool.eqb (verdict Send name bk) (counter_threadsafe bk) && Bool.eqb (verdict Sync name bk) (counter_threadsafe bk)) backends) public_types = true.
Proof. vm_compute. reflexivity. Qed.

Ltac by_cases_on_types H :=
  unfold public_types in H; cbn [In] in H;
  repeat (destruct H as [<-|H]; [vm_compute; split; reflexivity|]); contradiction.

Theorem C05_rc_values_confined : forall name, In name public_types -> verdict Send name "Rc" = false /\ verdict Sync name "Rc" = false.
Proof. intros name H. by_cases_on_types H. Qed.
Print Assumptions C05_rc_values_confined.

Theorem C05_arc_unique_values_shareable : forall name bk, In name public_types -> bk = "Arc" \/ bk = "Unique" ->
  verdict Send name bk = true /\ verdict Sync name bk = true.
Proof. intros name bk H [->| ->]; by_cases_on_types H. Qed.
Print Assumptions C05_arc_unique_values_shareable.

(** "Consequently no safe program can make two threads touch a non-atomic share count": moving or sharing a value across
    threads requires Send / Sync (std's thread::spawn, scoped threads, channels, Arc, Mutex all carry these bounds), and no
    type reachable from an Rc-backed value has either.  The pinned source (Send required only `B: Send`) is refuted: *)
Definition pinned_env : env :=
  map (fun a => if String.eqb (a_name a) "HipByt" || String.eqb (a_name a) "Allocated" then mkAdt (a_name a) (a_params a) (a_fields a) (Some [("B", Send)]) (a_sync a)
                else if String.eqb (a_name a) "Smart" then mkAdt (a_name a) (a_params a) (a_fields a) (Some [("T", Sync); ("T", Send); ("C", Send)]) (a_sync a) else a) type_env.
Theorem C05_pinned_refuted : holds FUEL pinned_env Send (TAdt "HipStr" [TAdt "Rc" []]) = true.
Proof. vm_compute. reflexivity. Qed.
