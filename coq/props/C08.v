(** * C08 -- Range and sub-slice APIs are total and agree with std indexing.
    Property theorems only; each is closed by [exact <lemma>] and followed by
    [Print Assumptions].  Proofs live in theories/RangeProofs.v. *)
From Hip Require Import Base Range RangeProofs.

(** try_slice: for every range (all bound kinds, every value below 2^64) and
    every length, Ok exactly std's [get]; otherwise an error naming the
    failing bound.  The result type has no panic case: it never panics or
    wraps.  ([slice] is [match try_slice with Ok r => r | Err e => panic]:
    it panics exactly when try_slice errs -- src/bytes.rs:624-629.) *)
Theorem C08_try_slice_total : forall s e len, bound_ok s -> bound_ok e -> len <= IMAX ->
  match simplify s e len with
  | ROk (a, b) => std_get s e len = Some (a, b)
  | RErr (a, b, k) => std_get s e len = None /\ names_failing k s e len
  end.
Proof. exact simplify_total. Qed.
Print Assumptions C08_try_slice_total.

Theorem C08_try_slice_ok_iff : forall s e len a b, bound_ok s -> bound_ok e -> len <= IMAX ->
  simplify s e len = ROk (a, b) <-> std_get s e len = Some (a, b).
Proof. exact simplify_ok_iff. Qed.
Print Assumptions C08_try_slice_ok_iff.

(** try_slice_ref / slice_ref accept exactly the slices lying address-wise
    inside the value and return that sub-range. *)
Theorem C08_slice_ref : forall wstart wlen sstart slen a b,
  try_range_of wstart wlen sstart slen = Some (a, b) <->
  inside wstart wlen sstart slen /\ a = sstart - wstart /\ b = a + slen.
Proof. exact try_range_of_iff. Qed.
Print Assumptions C08_slice_ref.

(** drain / try_drain / extend_from_within accept and reject the same ranges as Vec. *)
Theorem C08_vec_ranges : forall s e len, bound_ok s -> bound_ok e -> len <= IMAX ->
  match range_mono s e len with
  | ROk (a, b) => std_get s e len = Some (a, b)
  | RErr r => std_get s e len = None /\ rerr_names_failing r s e len
  end.
Proof. exact range_mono_total. Qed.
Print Assumptions C08_vec_ranges.

(** The pinned (pre-fix) code violates the property: kept as a regression seed. *)
Theorem C08_pinned_code_refuted : exists dbg s e len, bound_ok s /\ bound_ok e /\ len <= IMAX /\
  match simplify_v0 dbg s e len with
  | Val (ROk (a, b)) => std_get s e len <> Some (a, b)
  | Val (RErr _) => False
  | Panic => True
  end.
Proof. exact simplify_v0_refuted. Qed.

(** Non-vacuity: the hypotheses are met by concrete non-trivial inputs, on both sides of the verdict. *)
Example C08_nonvacuous :
  bound_ok (Excl 2) /\ bound_ok (Incl 5) /\ 40 <= IMAX /\ simplify (Excl 2) (Incl 5) 40 = ROk (3, 6) /\
  simplify Unb (Incl UMAX) 40 = RErr (0, UMAX, EndOutOfBounds) /\
  try_range_of 1000 40 1003 5 = Some (3, 8) /\ try_range_of 1000 40 1038 5 = None.
Proof. unfold bound_ok, W, IMAX. repeat split; try lia; vm_compute; reflexivity. Qed.
