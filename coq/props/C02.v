(** * C02 -- Handles are independent: no edit or drop is visible through another handle.
    Property theorems only (proofs: theories/BytesCorollaries.v, BytesShape.v, on the invariant of BytesInv.v). *)
From Hip Require Import Base Range Utf8 StrRange Bytes BytesSpec BytesInv BytesLib BytesProofs3 BytesProofs BytesCorollaries BytesUtf8 BytesContract BytesShape.

(** Whatever ONE operation does (in-place edit, push, truncate, mutate guard, conversion, drop ...), every handle other than its target keeps its liveness and its bytes -- whether it is a clone, a slice, the value sliced from, for every reachable sharing graph (the invariant quantifies over them). *)
Theorem C02_frame : forall bk ty st o st' u h,
  Inv bk st -> force_ok st o -> step bk ty st o = (st', u) -> h < len (hs st) -> target o <> Some h ->
  sget (abs st') h = sget (abs st) h.
Proof. exact C02_frame. Qed.
Print Assumptions C02_frame.

(** the same at the level of the std specification *)
Theorem C02_frame_spec : forall ty sp o u sp' h,
  spec_rel ty sp o u sp' -> h < len sp -> target o <> Some h -> sget sp' h = sget sp h.
Proof. exact spec_rel_frame. Qed.
Print Assumptions C02_frame_spec.

(** new values are appended; nothing else is created *)
Theorem C02_pool_grows : forall bk ty st o st' u,
  Inv bk st -> force_ok st o -> step bk ty st o = (st', u) ->
  len (hs st') = len (hs st) \/ (len (hs st') = len (hs st) + 1 /\ u = UNew (len (hs st))).
Proof. exact C02_pool_grows. Qed.
Print Assumptions C02_pool_grows.

(** the std buffer a value borrows from is never written *)
Theorem C02_borrow_source_untouched : forall bk ty st o st' u s,
  step bk ty st o = (st', u) -> s < len (srcs st) -> get_src st' s = get_src st s.
Proof. exact srcs_untouched. Qed.
Print Assumptions C02_borrow_source_untouched.

(** Mutable access without copying (as_mut_slice / as_mut_str / as_mut_ptr = Some, in-place push) is granted only to a value that is not borrowed and whose buffer no other live value shares. *)
Theorem C02_mut_access_exclusive : forall bk st h hd,
  Inv bk st -> get_h st h = Some hd -> grants_mut bk st (hrepr hd) = true ->
  is_borrowed (hrepr hd) = false /\ (forall b off n, hrepr hd = RAlloc b off n -> nrefs b (hs st) = 1).
Proof. exact mut_exclusive. Qed.
Print Assumptions C02_mut_access_exclusive.

(** into_vec / into_string succeed only for the sole owner at offset 0 *)
Theorem C02_into_vec_exclusive : forall bk st h hd,
  Inv bk st -> get_h st h = Some hd -> can_unwrap bk st (hrepr hd) = true ->
  is_borrowed (hrepr hd) = false
  /\ (forall b off n, hrepr hd = RAlloc b off n -> off = 0 /\ nrefs b (hs st) = 1).
Proof. exact unwrap_exclusive. Qed.
Print Assumptions C02_into_vec_exclusive.

(** sole owner: no other live handle points to the block *)
Theorem C02_sole_owner_has_no_alias : forall bk st h hd b off n,
  Inv bk st -> get_h st h = Some hd -> hrepr hd = RAlloc b off n -> nrefs b (hs st) = 1 ->
  forall h' hd', h' <> h -> get_h st h' = Some hd' -> points_to b (Some hd') = false.
Proof. exact sole_no_other. Qed.
Print Assumptions C02_sole_owner_has_no_alias.

(** as_mut_* returns Some exactly when access is exclusive; otherwise None and nothing changes *)
Theorem C02_as_mut_granted_iff : forall bk ty st h i b hd st' u,
  get_h st h = Some hd -> step bk ty st (OAsMutWrite h i b) = (st', u) ->
  (u = USome [] <-> grants_mut bk st (hrepr hd) = true)
  /\ (grants_mut bk st (hrepr hd) = false -> u = UNone /\ st' = st).
Proof. exact as_mut_granted_iff. Qed.
Print Assumptions C02_as_mut_granted_iff.

(** into_vec returns Ok exactly for the sole owner at offset 0; otherwise the value is handed back unchanged *)
Theorem C02_into_vec_ok_iff : forall bk ty st h hd st' u,
  Inv bk st -> get_h st h = Some hd -> step bk ty st (OIntoVec h) = (st', u) ->
  ((exists v c, u = UVec v c) <-> can_unwrap bk st (hrepr hd) = true)
  /\ (can_unwrap bk st (hrepr hd) = false -> u = UNone /\ st' = st).
Proof. exact into_vec_ok_iff. Qed.
Print Assumptions C02_into_vec_ok_iff.

(** Owned slices and clones stay fully readable after their source is dropped: the instance [o := ODrop h0] of C02_frame. *)
Corollary C02_outlives_source : forall bk ty st h0 st' u h, Inv bk st -> step bk ty st (ODrop h0) = (st', u) -> h < len (hs st) -> h <> h0 ->
  sget (abs st') h = sget (abs st) h.
Proof.
  intros bk ty st h0 st' u h I E L N. apply (C02_frame bk ty st (ODrop h0) st' u h I Logic.I E L).
  cbn [target]. intros H; inversion H; subst; contradiction.
Qed.
Print Assumptions C02_outlives_source.

Example C02_nonvacuous :
  let st := fst (run BArc TByt init [OFromSlice (repeat 65 40); OClone 0; OSlice 0 (Incl 2) (Excl 30); OPushSlice 0 [66]; ODrop 0]) in
  view st 1 = repeat 65 40 /\ view st 2 = repeat 65 28 /\ get_h st 0 = None.
Proof. repeat split; vm_compute; reflexivity. Qed.
