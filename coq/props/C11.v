(** * C11 -- Inherited str API yields the same pieces as std, each an independent value.
    Every HipStr wrapper calls the std method of the same name on as_str() and re-adopts each returned &str with
    slice_ref_unchecked (table regenerated from src/string.rs and src/string/pattern.rs: coq/gen/WrapTable.v).
    Adoption of an in-range sub-slice is the operation OSliceRef of the Bytes machine. *)
From Coq Require Import String.
From Hip Require Import Base Range Utf8 StrRange Bytes BytesSpec BytesInv BytesLib BytesProofs3 BytesProofs BytesCorollaries BytesContract.
From Hip Require Import ApiAudit.
From HipGen Require Import WrapTable.
Open Scope N_scope.

(** each wrapper / pattern arm forwards to the std method of the SAME name with its arguments in order, and adopts every result *)
Definition wrap_ok (w : wentry) : bool := String.eqb (w_hip w) (w_std w) && w_args_ok w && w_adopts w.
(** the case conversions and the UTF-16 decoders are std's results converted with From<String> (no logic of their own) *)
Theorem C11_conversions_delegate : forallb snd conv_table = true /\ List.length conv_table = 4%nat.
Proof. split; vm_compute; reflexivity. Qed.

(** the size / capacity / representation / ASCII / shrink wrappers are pure forwards to the byte string, under the same name, with their
    arguments in order *)
Definition fw_key (e : string * string * string * bool) : string * string := (fst (fst (fst e)), snd (fst (fst e))).
Theorem C11_wrappers_forward :
  forallb (fun e => String.eqb (snd (fst (fst e))) (snd (fst e)) && snd e) forward_table = true
  /\ forallb (fun r => existsb (fun e => pair_eqb (fw_key e) r) forward_table) forward_required = true.
Proof. split; vm_compute; reflexivity. Qed.

Theorem C11_table : forallb wrap_ok wrap_table = true /\ adopt_str_ok = true /\ adopt_indexed_ok = true /\ iter_forward_ok = true /\ iter_backward_ok = true.
Proof. repeat split; vm_compute; reflexivity. Qed.

(** Adoption: for ANY source value (borrowed, inline, heap; any backend; shared or not; at the count ceiling or not) and ANY
    sub-range the std method may return, the adopted piece reads back exactly that sub-range (item-for-item equality with std
    follows: std's items ARE those sub-ranges), and the machine keeps its invariant. *)
Theorem C11_adopt : forall bk ty st h off n st' u, Inv bk st -> step bk ty st (OSliceRef h off n) = (st', u) ->
  Inv bk st' /\ spec_rel ty (abs st) (OSliceRef h off n) u (abs st').
Proof. intros bk ty st h off n st' u I E. exact (step_good bk ty st (OSliceRef h off n) st' u I Logic.I E). Qed.
Print Assumptions C11_adopt.

Theorem C11_adopt_content : forall ty sp h off n v, sget sp h = Some v -> off + n <= len v ->
  spec_det ty sp (OSliceRef h off n) = Some (snew sp (sub v off (off + n))).
Proof.
  intros ty sp h off n v H L. unfold spec_det. rewrite H. destruct (off + n <=? len v) eqn:E; [reflexivity | lia].
Qed.

(** "borrows from the original borrowed data exactly when the source was borrowed" (same source, right offset; otherwise owned) *)
Theorem C11_piece_of_borrowed_borrows : forall bk ty st h hd s0 off n s e a b', get_h st h = Some hd -> hrepr hd = RBorrowed s0 off n ->
  simplify_ty ty (view_r st (hrepr hd)) s e = ROk (a, b') ->
  exists st', step bk ty st (OTrySlice h s e) = (st', UNew (len (hs st))) /\
    get_h st' (len (hs st)) = Some (mkH (RBorrowed s0 (off + a) (b' - a)) false) /\ n_alloc st' = n_alloc st /\ n_realloc st' = n_realloc st /\ bs st' = bs st.
Proof. exact slice_borrowed. Qed.
Print Assumptions C11_piece_of_borrowed_borrows.

(** "self-sufficient": whatever is done to the source afterwards -- mutation, drop -- the piece keeps its bytes *)
Theorem C11_self_sufficient : forall bk ty st o st' u p, Inv bk st -> force_ok st o -> step bk ty st o = (st', u) ->
  p < len (hs st) -> target o <> Some p -> sget (abs st') p = sget (abs st) p.
Proof. exact C02_frame. Qed.
Print Assumptions C11_self_sufficient.

Example C11_nonvacuous :
  Nat.leb 40 (List.length wrap_table) = true /\
  (* split a borrowed "a,b" into two borrowed pieces at offsets 0 and 2, then drop the source *)
  let st := fst (run BArc TStr init [OBorrowed [97; 44; 98]; OSliceRef 0 0 1; OSliceRef 0 2 1; ODrop 0]) in
  view st 1 = [97] /\ view st 2 = [98] /\ map o_tag (observe BArc st) = [2; 2] /\ map o_off (observe BArc st) = [0; 2].
Proof. repeat split; vm_compute; reflexivity. Qed.
