(** * C01 -- Content always equals the std model across all operation histories.
    Property theorems only.  The model is theories/Bytes.v (tied to /repo by the `bytes` correspondence driver in
    debug and release builds, all three backends); the std-level specification is theories/BytesSpec.v; the
    proofs are in theories/BytesProofs*.v. *)
From Hip Require Import Base Range Utf8 StrRange Bytes BytesSpec BytesInv BytesProofs3 BytesProofs.

(** Every run of the machine from the initial state, over ANY sequence of operations on any number of handles that
    may share buffers, refines the std model: each output ([pop]'s byte/char, Ok/Err of the [try_] forms, extracted
    Vec, panic) is the one [spec_rel] prescribes, and at every point each live handle reads back exactly the bytes of
    the std model.  [spec_rel] mentions neither the backend nor the representation: "any backend, any mix of
    borrowed, inline and heap-backed values" is the universal quantification over [bk] and over the histories. *)
Theorem C01_refines_std : forall bk ty ops st' us,
  Forall not_force ops ->                                   (* the public API (the force-count test hook is treated below) *)
  run bk ty init ops = (st', us) ->
  Inv bk st' /\ spec_run_rel ty [] ops us (abs st').
Proof.
  intros bk ty ops st' us N E. apply run_from_init; [apply run_pre_no_hook; exact N | exact E].
Qed.
Print Assumptions C01_refines_std.

(** with the test hook, under its side condition (states at the share-count ceiling are reachable this way: C09) *)
Theorem C01_refines_std_with_hook : forall bk ty ops st' us,
  run_pre bk ty init ops -> run bk ty init ops = (st', us) ->
  Inv bk st' /\ spec_run_rel ty [] ops us (abs st').
Proof. exact run_from_init. Qed.
Print Assumptions C01_refines_std_with_hook.

(** one step, from any state satisfying the invariant (the inductive core) *)
Theorem C01_step : forall bk ty st o st' u,
  Inv bk st -> force_ok st o -> step bk ty st o = (st', u) ->
  Inv bk st' /\ spec_rel ty (abs st) o u (abs st').
Proof. exact step_good. Qed.
Print Assumptions C01_step.

(** length and bytes agree: [len()] is the length of what [as_slice()] returns *)
Theorem C01_len : forall bk st h hd, Inv bk st -> get_h st h = Some hd -> len (view_r st (hrepr hd)) = rlen (hrepr hd).
Proof. exact rlen_view. Qed.
Print Assumptions C01_len.

(** Non-vacuity: a history with a shared buffer, an offset view, a non-normalised value and an in-place push. *)
Example C01_nonvacuous :
  let ops := [OFromSlice (repeat 65 40); OSlice 0 (Incl 3) (Excl 30); OClone 0; OWithCapacity 30; OPushSlice 3 [1; 2; 3];
              OTruncate 3 1; OPushSlice 0 [9]; OPop 1; ODrop 0; OIntoVec 2; ODrop 1; OIntoVec 2] in
  Forall not_force ops /\
  snd (run BArc TByt init ops) =
    [UNew 0; UNew 1; UNew 2; UNew 3; UUnit; UUnit; UUnit; USome [65]; UUnit; UNone; UUnit; UVec (repeat 65 40) 40].
Proof. split; [apply Forall_forall; intros o Ho; cbn [In] in Ho; repeat (destruct Ho as [<-|Ho]; [exact I|]); contradiction | vm_compute; reflexivity]. Qed.
