(** * C14 -- Container element lifecycle and buffer bounds. *)
From Hip Require Import VecProofs.

(** Every element is dropped or handed back at most once, never while uninitialised; ThinVec never writes beyond its
    capacity ([wr] outside the buffer sets the flag): one invariant, all operation sequences, both kinds. *)
Theorem C14_sound : forall k p ops, VInv k (fst (vrun k (vinit p) ops)).
Proof. exact vrun_sound. Qed.
Print Assumptions C14_sound.

(** ... and exactly once: without a user panic and without a forgotten Drain nothing leaks -- every live element is in a
    vector or was handed back, and (ThinVec) the number of buffers obtained minus released is the number of live vectors. *)
Theorem C14_no_leak_step : forall k s o, VInv k s -> VNoLeak k s -> vop_ok o -> no_forget o -> pan (wd s) = None -> VNoLeak k (fst (vstep k s o)).
Proof. exact vstep_no_leak. Qed.
Print Assumptions C14_no_leak_step.

Lemma vinit_no_leak : forall k, VNoLeak k (vinit None).
Proof. intros k. split; [intros x H; destruct H | destruct k; cbn; auto]. Qed.

Lemma vrun_cons_fst : forall k s o r, fst (vrun k s (o :: r)) = fst (vrun k (fst (vstep k s o)) r).
Proof. intros k s o r. cbn [vrun]. destruct (vstep k s o) as [s1 u]. cbn [fst]. destruct (vrun k s1 r) as [s2 us]. reflexivity. Qed.

Lemma no_leak_run : forall k ops s, VInv' k s -> VNoLeak k s -> pan (wd s) = None -> Forall vop_ok ops -> Forall no_forget ops ->
  VNoLeak k (fst (vrun k s ops)).
Proof.
  intros k ops. induction ops as [|o r IH]; intros s I L P Ho Hf.
  - exact L.
  - rewrite vrun_cons_fst. inversion Ho as [|? ? Ho1 Ho2]; subst. inversion Hf as [|? ? Hf1 Hf2]; subst.
    apply IH.
    + apply vstep_inv'. exact I.
    + apply vstep_no_leak; [exact (proj1 I) | exact L | exact Ho1 | exact Hf1 | exact P].
    + apply vstep_pan_none. exact P.
    + exact Ho2.
    + exact Hf2.
Qed.

Theorem C14_no_leak : forall k ops, Forall vop_ok ops -> Forall no_forget ops ->
  VNoLeak k (fst (vrun k (vinit None) ops)).
Proof.
  intros k ops Ho Hf. apply no_leak_run; [apply vinit_inv' | apply vinit_no_leak | reflexivity | exact Ho | exact Hf].
Qed.
Print Assumptions C14_no_leak.

(** when every vector has been dropped, every element created was dropped or handed back *)
Corollary C14_all_accounted : forall k ops, Forall vop_ok ops -> Forall no_forget ops ->
  let s := fst (vrun k (vinit None) ops) in
  (forall i, getv s i = None) -> incl (live (wd s)) (handed s).
Proof.
  intros k ops Ho Hf s Hd. destruct (C14_no_leak k ops Ho Hf) as [L _]. fold s in L.
  intros x Hx. specialize (L x Hx). unfold reachable in L. apply in_app_or in L as [L|L]; [|exact L].
  exfalso. apply in_flat_map in L as (v & Hv & _). unfold pool_vecs in Hv. apply in_flat_map in Hv as (o & Ho' & Hv).
  destruct o as [v'|]; [|destruct Hv]. apply In_nth_error in Ho' as (n & Hn).
  specialize (Hd (N.of_nat n)). unfold getv in Hd. rewrite Nat2N.id, Hn in Hd. discriminate.
Qed.
Print Assumptions C14_all_accounted.

Example C14_nonvacuous :
  let s := fst (vrun KThin (vinit None) [XFromIter [1; 2; 3; 4] 0%nat; XDrain 0 (Incl 1) (Excl 3) 1%nat 0%nat false; XSplitOff 0 1%nat; XDropV 0; XDropV 1]) in
  live (wd s) = handed s /\ wa (wd s) = wf (wd s) /\ badw (wd s) = false.
Proof. repeat split; vm_compute; reflexivity. Qed.
