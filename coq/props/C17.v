(** * C17 -- Safe API is sound: unchecked entry points are unsafe, borrows cannot escape.
    (a) the audit of today's public functions is props/C17_tieA.v (regenerated table).
    (b) Every SAFE operation of the Bytes machine, with ARBITRARY type-correct arguments, keeps the memory-safety invariant
        (no use of a primitive outside its precondition): this is "every safe counterpart validates its arguments", as a
        theorem over the model of the safe API; and a value whose representation borrows from a source can only have been
        derived from the borrow constructor or from a value borrowing the same source (dynamic provenance), which the
        signatures tie to the `'borrow` lifetime (checked by rustc on the corpus). *)
From Hip Require Import Base Range Utf8 StrRange Bytes BytesSpec BytesInv BytesLib BytesProofs3 BytesProofs BytesCorollaries BytesShape.

(** no safe operation, whatever its arguments (ranges next to usize::MAX, indices out of range, foreign sub-slices,
    dead handles ...), reaches undefined behaviour *)
Theorem C17_safe_ops_total : forall bk ty ops st' us,
  Forall not_force ops -> run bk ty init ops = (st', us) -> bad st' = false /\ Inv bk st'.
Proof.
  intros bk ty ops st' us N E. pose proof (run_pre_no_hook bk ty ops N init) as P. split.
  - exact (run_no_ub bk ty ops st' us P E).
  - exact (run_inv bk ty ops init st' us (init_inv bk) P E).
Qed.
Print Assumptions C17_safe_ops_total.

(** borrow sources are immutable and only ever extended: a borrowed view always lies in a source that exists *)
Theorem C17_borrowed_view_in_source : forall bk st h hd s off n, Inv bk st -> get_h st h = Some hd -> hrepr hd = RBorrowed s off n ->
  s < len (srcs st) /\ off + n <= len (get_src st s).
Proof. intros bk st h hd s off n I G E. pose proof (views_in_live_memory bk st h hd I G) as H. rewrite E in H. exact H. Qed.
Print Assumptions C17_borrowed_view_in_source.
