(** * C17 -- Safe API is sound: unchecked entry points are unsafe, borrows cannot escape.
    (a) the audit of today's public functions is props/C17_tieA.v (regenerated table).
    (b) Every SAFE operation of the Bytes machine, with ARBITRARY type-correct arguments, keeps the memory-safety invariant
        (no use of a primitive outside its precondition): this is "every safe counterpart validates its arguments", as a
        theorem over the model of the safe API; and a value whose representation borrows from a source can only have been
        derived from the borrow constructor or from a value borrowing the same source (dynamic provenance), which the
        signatures tie to the `'borrow` lifetime (checked by rustc on the corpus). *)
From Hip Require Import Base Range Utf8 StrRange Bytes BytesSpec BytesInv BytesLib BytesProofs3 BytesProofs BytesCorollaries BytesShape BytesProvenance.

(** no safe operation, whatever its arguments (ranges next to usize::MAX, indices out of range, foreign sub-slices,
    dead handles ...), reaches undefined behaviour *)
Theorem C17_safe_ops_total : forall bk ty ops st' us,
  Forall not_force ops -> run bk ty init ops = (st', us) -> bad st' = false /\ Inv bk st'.
Proof.
  intros bk ty ops st' us N E. pose proof (run_pre_no_hook bk ty ops N init) as P. split.
  - exact (run_no_ub bk ty ops st' us P E).
  - exact (run_inv bk ty ops init st' us (init_inv bk) P E).
Qed.
Print Assumptions C17_safe_ops_total.

(** borrow sources are immutable and only ever extended: a borrowed view always lies in a source that exists *)
Theorem C17_borrowed_view_in_source : forall bk st h hd s off n, Inv bk st -> get_h st h = Some hd -> hrepr hd = RBorrowed s off n ->
  s < len (srcs st) /\ off + n <= len (get_src st s).
Proof. intros bk st h hd s off n I G E. pose proof (views_in_live_memory bk st h hd I G) as H. rewrite E in H. exact H. Qed.
Print Assumptions C17_borrowed_view_in_source.

(** ** dynamic provenance of borrows ("a value created from a borrow - or anything sliced, split or cloned from it - cannot
    outlive that borrow unless converted with into_owned"): in the model a value borrows from a source only if it is the
    result of the borrow constructor, already borrowed from it, or was derived by this very step from a value that did. *)
Theorem C17_borrow_provenance_step : forall bk ty st o st' u h s,
  step bk ty st o = (st', u) -> borrows st' h = Some s ->
     borrows st h = Some s
  \/ (exists p, subject o = Some p /\ borrows st p = Some s /\ h = len (hs st))
  \/ (exists x, o = OBorrowed x /\ s = len (srcs st) /\ h = len (hs st)).
Proof. exact borrow_provenance_step. Qed.
Print Assumptions C17_borrow_provenance_step.

(** into_owned is the exit: its result borrows from nothing *)
Theorem C17_into_owned_borrows_nothing : forall bk ty st h st' u,
  step bk ty st (OIntoOwned h) = (st', u) -> borrows st' h = None.
Proof. exact into_owned_borrows_nothing. Qed.
Print Assumptions C17_into_owned_borrows_nothing.

(** over any history: every borrowing value borrows from a source that an OBorrowed of the history created, still intact *)
Theorem C17_borrow_provenance_run : forall bk ty ops st' us h s,
  run bk ty init ops = (st', us) -> borrows st' h = Some s ->
  exists x, In (OBorrowed x) ops /\ s < len (srcs st') /\ get_src st' s = x.
Proof. exact borrow_provenance_run. Qed.
Print Assumptions C17_borrow_provenance_run.

Theorem C17_no_borrow_constructor_no_borrow : forall bk ty ops st' us h,
  run bk ty init ops = (st', us) -> (forall x, ~ In (OBorrowed x) ops) -> borrows st' h = None.
Proof. exact no_borrow_constructor_no_borrow. Qed.
Print Assumptions C17_no_borrow_constructor_no_borrow.
