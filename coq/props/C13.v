(** * C13 -- InlineVec and ThinVec behave exactly like Vec within their capacity rules. *)
From Hip Require Import VecProofs.

(** one operation of the slot-level model = one operation of `Vec` on lists of values ([vspec], with the kind's capacity
    rule: ThinVec unbounded, InlineVec panics / hands back the rejected value with the reason when CAP would be exceeded,
    and keeps its previous elements followed by the prefix that fitted): same elements in the same order in every
    vector, same returned values, same Ok/Err/panic *)
Theorem C13_step_refines_vec : forall k s o, VInv k s -> vop_ok o -> pan (wd s) = None -> small_world (fst (vstep k s o)) ->
  vspec k (vabs s) o = (vabs (fst (vstep k s o)), out_abs (wd (fst (vstep k s o))) (snd (vstep k s o))).
Proof. exact vstep_refines. Qed.
Print Assumptions C13_step_refines_vec.

(** along a whole run: at every step the std model makes the same transition and returns the same value *)
Fixpoint refines_run (k : kind) (s : vstate) (ops : list vop) : Prop :=
  match ops with
  | [] => True
  | o :: r =>
    vspec k (vabs s) o = (vabs (fst (vstep k s o)), out_abs (wd (fst (vstep k s o))) (snd (vstep k s o)))
    /\ refines_run k (fst (vstep k s o)) r
  end.

Lemma vrun_cons_fst : forall k s o r, fst (vrun k s (o :: r)) = fst (vrun k (fst (vstep k s o)) r).
Proof. intros k s o r. cbn [vrun]. destruct (vstep k s o) as [s1 u]. cbn [fst]. destruct (vrun k s1 r) as [s2 us]. reflexivity. Qed.

(** identities stay below the range reserved for the caller's immortal source elements along the run *)
Fixpoint small_run (k : kind) (s : vstate) (ops : list vop) : Prop :=
  match ops with [] => True | o :: r => small_world (fst (vstep k s o)) /\ small_run k (fst (vstep k s o)) r end.

Theorem C13_refines_vec : forall k ops s, VInv' k s -> pan (wd s) = None -> Forall vop_ok ops -> small_run k s ops -> refines_run k s ops.
Proof.
  intros k ops. induction ops as [|o r IH]; intros s I P Ho Hs; cbn [refines_run]; [exact Logic.I|].
  inversion Ho as [|? ? Ho1 Ho2]; subst. destruct Hs as [Hs1 Hs2]. split.
  - apply vstep_refines; [exact (proj1 I) | exact Ho1 | exact P | exact Hs1].
  - apply IH; [apply vstep_inv'; exact I | apply vstep_pan_none; exact P | exact Ho2 | exact Hs2].
Qed.
Print Assumptions C13_refines_vec.

Corollary C13_refines_vec_from_empty : forall k ops, Forall vop_ok ops -> small_run k (vinit None) ops -> refines_run k (vinit None) ops.
Proof. intros k ops Ho Hs. apply C13_refines_vec; [apply vinit_inv' | reflexivity | exact Ho | exact Hs]. Qed.
Print Assumptions C13_refines_vec_from_empty.

(** the try_ variants hand back the rejected value with the right reason and leave the vector unchanged; a capacity or index
    panic leaves the previous elements followed at most by a prefix of the appended items: these are clauses of [vspec]
    (XTryPush / XTryInsert return [SRejected x full] with the state unchanged; XExtendIter on a full InlineVec keeps
    [l ++ prefix_fit ...]), hence consequences of the refinement. *)
Example C13_spec_clauses :
  vspec (KInline 2) [Some [7; 8]] (XTryPush 0 9) = ([Some [7; 8]], SRejected 9 true) /\
  vspec (KInline 2) [Some [7]] (XTryInsert 0 3%nat 9) = ([Some [7]], SRejected 9 false) /\
  vspec (KInline 3) [Some [7]] (XExtendIter 0 [1; 2; 3] 0%nat) = ([Some [7; 1; 2]], SPanicked) /\
  vspec (KInline 3) [Some [7]] (XInsert 0 5%nat 9) = ([Some [7]], SPanicked) /\
  vspec KThin [Some [7]] (XExtendIter 0 [1; 2; 3] 0%nat) = ([Some [7; 1; 2; 3]], SUnit).
Proof. repeat split; vm_compute; reflexivity. Qed.

Example C13_nonvacuous :
  let ops := [XFromIter [1; 2; 3] 0%nat; XInsert 0 1%nat 9; XSwapRemove 0 0%nat; XDrain 0 (Incl 1) Unb 1%nat 0%nat false; XPop 0] in
  map (out_abs (wd (fst (vrun (KInline 7) (vinit None) ops)))) (snd (vrun (KInline 7) (vinit None) ops))
    = [SNewV 0; SUnit; SItem 1; SItems [9]; SItem 3] /\
  vabs (fst (vrun (KInline 7) (vinit None) ops)) = [Some []].
Proof. split; vm_compute; reflexivity. Qed.
