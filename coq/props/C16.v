(** * C16 -- Serialisation round-trips and never yields invalid values. *)
From Hip Require Import Base Utf8 Codec CodecProofs.

Theorem C16_borsh_roundtrip : forall v rest, len v < U32 -> borsh_de (borsh_ser v ++ rest) = Some (v, rest).
Proof. exact borsh_roundtrip. Qed.
Print Assumptions C16_borsh_roundtrip.

(** HipStr serialises exactly like str ([borsh_ser] on its bytes) and round-trips *)
Theorem C16_borsh_str_roundtrip : forall v rest, len v < U32 -> valid v = true -> borsh_de_str (borsh_ser v ++ rest) = Some (v, rest).
Proof. exact borsh_str_roundtrip. Qed.
Print Assumptions C16_borsh_str_roundtrip.

(** arbitrary, truncated or ill-typed input: [borsh_de] is a total function into [option] (an error or a value: no panic case
    exists), and a value is exactly the payload announced by the prefix *)
Theorem C16_borsh_total : forall input v rest, borsh_de input = Some (v, rest) ->
  exists b0 b1 b2 b3, input = [b0; b1; b2; b3] ++ v ++ rest /\ len v = of_le32 b0 b1 b2 b3.
Proof. exact borsh_de_shape. Qed.
Print Assumptions C16_borsh_total.

Theorem C16_borsh_str_valid : forall input v rest, borsh_de_str input = Some (v, rest) -> valid v = true.
Proof. exact borsh_str_valid. Qed.
Print Assumptions C16_borsh_str_valid.

(** never an allocation out of proportion to the input actually supplied *)
Theorem C16_borsh_alloc : forall input, borsh_alloc_bound input <= N.max MAX_PREALLOC (N.max 8 (2 * len input)).
Proof. exact borsh_alloc_proportional. Qed.
Print Assumptions C16_borsh_alloc.

Theorem C16_borsh_pinned_refuted : exists input, len input = 7 /\ borsh_alloc_pinned input = 4294967295 /\ borsh_alloc_bound input = 4096.
Proof. exact borsh_pinned_refuted. Qed.

(** serde *)
Theorem C16_serde_roundtrip : forall b v, visit_byt b (ser_byt v) = VOk v false /\ visit_str b (ser_str v) = VOk v false.
Proof. intros; split; reflexivity. Qed.
Theorem C16_serde_from_std : forall b v, visit_byt b (ser_vec_u8 v) = VOk v false /\ visit_str b (ser_string v) = VOk v false.
Proof. intros; split; reflexivity. Qed.
Theorem C16_serde_str_valid : forall b t v bo, token_wf t -> visit_str b t = VOk v bo -> valid v = true.
Proof. exact serde_str_valid. Qed.
Print Assumptions C16_serde_str_valid.
Theorem C16_serde_borrow_iff : forall t v bo, visit_byt true t = VOk v bo ->
  (bo = true <-> exists x, t = KBorrowedStr x \/ t = KBorrowedBytes x) /\ visit_byt false t = VOk v false.
Proof. exact serde_borrow_iff. Qed.
Print Assumptions C16_serde_borrow_iff.
Theorem C16_serde_str_borrow_iff : forall t v bo, visit_str true t = VOk v bo ->
  (bo = true <-> exists x, t = KBorrowedStr x \/ t = KBorrowedBytes x) /\ visit_str false t = VOk v false.
Proof. exact serde_str_borrow_iff. Qed.
Print Assumptions C16_serde_str_borrow_iff.

Example C16_nonvacuous :
  borsh_de [3; 0; 0; 0; 97; 98; 99; 7] = Some ([97; 98; 99], [7]) /\ borsh_de [3; 0; 0; 0; 97] = None /\
  borsh_de_str [1; 0; 0; 0; 128] = None /\ visit_str true (KBorrowedBytes [195; 169]) = VOk [195; 169] true /\ visit_str true (KBytes [195]) = VErr.
Proof. repeat split; vm_compute; reflexivity. Qed.
