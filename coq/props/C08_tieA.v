(** * C08, transferred to the functions regenerated from /repo's current source. *)
From Hip Require Import Base Range RangeProofs.
From HipGen Require Import RangeGen.
From HipTie Require Import RangeEquiv.

Theorem C08_source_try_slice : forall dbg s e len, bound_ok s -> bound_ok e -> len <= IMAX ->
  match simplify_range_mono_gen dbg s e len with
  | Val (ROk (a, b)) => std_get s e len = Some (a, b)
  | Val (RErr (a, b, k)) => std_get s e len = None /\ names_failing k s e len
  | Panic => False
  end.
Proof.
  intros dbg s e len Hs He Hl. rewrite simplify_gen_ok by assumption.
  exact (simplify_total s e len Hs He Hl).
Qed.
Print Assumptions C08_source_try_slice.

Theorem C08_source_vec_ranges : forall dbg s e len, bound_ok s -> bound_ok e -> len <= IMAX ->
  match range_mono_gen dbg s e len with
  | Val (ROk (a, b)) => std_get s e len = Some (a, b)
  | Val (RErr r) => std_get s e len = None /\ rerr_names_failing r s e len
  | Panic => False
  end.
Proof.
  intros dbg s e len Hs He Hl. rewrite range_mono_gen_ok by assumption.
  exact (range_mono_total s e len Hs He Hl).
Qed.
Print Assumptions C08_source_vec_ranges.

Theorem C08_source_slice_ref : forall dbg wp wl sp sl,
  wl <= IMAX -> sl <= IMAX -> wp + wl < W -> sp + sl < W ->
  match try_range_of_gen dbg wp wl sp sl with
  | Val (Some (a, b)) => inside wp wl sp sl /\ a = sp - wp /\ b = a + sl
  | Val None => ~ inside wp wl sp sl
  | Panic => False
  end.
Proof.
  intros dbg wp wl sp sl H1 H2 H3 H4. rewrite try_range_of_gen_ok by assumption.
  exact (try_range_of_spec wp wl sp sl).
Qed.
Print Assumptions C08_source_slice_ref.
