(** * C04 -- Atomically shared buffers are race-free under every thread schedule.
    The protocol record [arc_proto] is regenerated from the orderings written in src/smart.rs on every run
    (coq/gen/ArcGen.v); the theorem is re-proved against it. *)
From Hip Require Import ArcRA ArcRALib ArcRAProofs.
From HipGen Require Import ArcGen.

(** the protocol of today's source meets the (decidable) side condition of the proof, and the increment/decrement are
    read-modify-write operations with the ceiling guard *)
Theorem C04_source_protocol_sound :
  sound_proto arc_proto = true /\ arc_incr_is_rmw = true /\ arc_decr_is_rmw = true /\ arc_incr_bound_ok = true.
Proof. repeat split; vm_compute; reflexivity. Qed.

(** every schedule, any number of threads, handles and loans: no data race on the payload, no access after the free,
    no second free ([err] is set by any of these) *)
Theorem C04_race_free : forall sc, err (run arc_proto sc) = false.
Proof. apply race_free_all_schedules. vm_compute. reflexivity. Qed.
Print Assumptions C04_race_free.

(** the theorem for every protocol meeting the side condition (the ordering of the increment is free) *)
Theorem C04_race_free_any_sound_protocol : forall p, sound_proto p = true -> forall sc, err (run p sc) = false.
Proof. exact race_free_all_schedules. Qed.
Print Assumptions C04_race_free_any_sound_protocol.

(** each weakening is racy: the side condition is not vacuous *)
Theorem C04_relaxed_decr_refuted : exists sc, err (run {| incr_release := true; decr_release := false; free_fence := true; uniq_fence := true |} sc) = true.
Proof. eexists. exact relaxed_decr_races. Qed.
Theorem C04_no_uniq_fence_refuted : exists sc, err (run {| incr_release := true; decr_release := true; free_fence := true; uniq_fence := false |} sc) = true.
Proof. eexists. exact no_uniq_fence_races. Qed.
Theorem C04_no_free_fence_refuted : exists sc, err (run {| incr_release := true; decr_release := true; free_fence := false; uniq_fence := true |} sc) = true.
Proof. eexists. exact no_free_fence_races. Qed.
