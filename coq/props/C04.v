(** * C04 -- Atomically shared buffers are race-free under every thread schedule.
    The protocol record [arc_proto] is regenerated from the orderings written in src/smart.rs on every run
    (coq/gen/ArcGen.v); the theorem is re-proved against it. *)
From Coq Require Import List Arith Bool.
Import ListNotations.
From Hip Require Import ArcRA ArcRALib ArcRAProofs.
From HipGen Require Import ArcGen.

(** the protocol of today's source meets the (decidable) side condition of the proof, and the increment/decrement are
    read-modify-write operations with the ceiling guard *)
Theorem C04_source_protocol_sound :
  sound_proto arc_proto = true /\ arc_incr_is_rmw = true /\ arc_decr_is_rmw = true /\ arc_incr_bound_ok = true.
Proof. repeat split; vm_compute; reflexivity. Qed.

(** In the machine a handle that has been dropped makes no further access ([alive = false]).  The heap handle of the source is
    `Copy`, so the borrow checker does not enforce this: the table lists every `x.explicit_drop()` of today's source and whether
    `x` is used again afterwards in its block (the private copy of a shared buffer must be made BEFORE the share is handed back),
    and whether `try_unwrap` still takes the payload only behind the acquiring test `is_unique()`. *)
Theorem C04_release_is_last_use : forallb (fun s => snd s) release_sites = true /\ Nat.leb 4 (List.length release_sites) = true.
Proof. split; vm_compute; reflexivity. Qed.

(** every schedule, any number of threads, handles and loans: no data race on the payload, no access after the free,
    no second free ([err] is set by any of these) *)
Theorem C04_race_free : forall sc, err (run arc_proto sc) = false.
Proof. apply race_free_all_schedules. vm_compute. reflexivity. Qed.
Print Assumptions C04_race_free.

(** the theorem for every protocol meeting the side condition (the ordering of the increment is free) *)
Theorem C04_race_free_any_sound_protocol : forall p, sound_proto p = true -> forall sc, err (run p sc) = false.
Proof. exact race_free_all_schedules. Qed.
Print Assumptions C04_race_free_any_sound_protocol.

(** released exactly once, and not before the last handle is gone *)
Theorem C04_freed_iff_no_handle : forall sc, freed (run arc_proto sc) = true <-> nal (hds (run arc_proto sc)) = 0.
Proof. apply freed_iff_no_handle. vm_compute. reflexivity. Qed.
Print Assumptions C04_freed_iff_no_handle.

Theorem C04_no_double_free : forall sc,
  length (filter (fun a => match akd a with AF => true | _ => false end) (accs (run arc_proto sc))) <= 1.
Proof. apply no_double_free. vm_compute. reflexivity. Qed.
Print Assumptions C04_no_double_free.

(** in-place mutable access (as_mut / in-place push) or ownership (try_unwrap / into_vec) is obtained only by the sole owner, and
    every access ever made -- by any thread, through any former co-owner -- happens-before it (see [exclusive_grant]) *)
Theorem C04_mutation_is_exclusive : forall sc a, In a (accs (run arc_proto sc)) -> akd a = AW ->
  exists sc1 o sc2, sc = sc1 ++ (atid a, ahnd a, o) :: sc2 /\ (exists j, o = TryMut j \/ o = Unwrap j) /\
    let s := run arc_proto sc1 in let s' := step arc_proto s (atid a) (ahnd a) o in
    a = acc_of s' (atid a) (ahnd a) AW /\ In a (accs s') /\ exclusive_grant s s' (atid a) (ahnd a).
Proof. apply mutation_is_exclusive. vm_compute. reflexivity. Qed.
Print Assumptions C04_mutation_is_exclusive.

(** the release is made by the sole owner after every prior access, and nothing touches the payload afterwards *)
Theorem C04_release_after_last_access : forall sc a, In a (accs (run arc_proto sc)) -> akd a = AF ->
  (exists sc1 o sc2, sc = sc1 ++ (atid a, ahnd a, o) :: sc2 /\ (o = Drop \/ exists j, o = Unwrap j) /\
     let s := run arc_proto sc1 in let s' := step arc_proto s (atid a) (ahnd a) o in
     a = acc_of s' (atid a) (ahnd a) AF /\ In a (accs s') /\ exclusive_grant s s' (atid a) (ahnd a)) /\
  exists l, accs (run arc_proto sc) = a :: l.
Proof. apply release_after_last_access. vm_compute. reflexivity. Qed.
Print Assumptions C04_release_after_last_access.

Theorem C04_no_uniq_fence_unwrap_refuted : exists sc, err (run {| incr_release := true; decr_release := true; free_fence := true; uniq_fence := false |} sc) = true.
Proof. eexists. exact no_uniq_fence_unwrap_races. Qed.

(** non-vacuity: a schedule in which a co-owner on another thread reads and drops, then the first owner unwraps *)
Example C04_nonvacuous :
  let s := run arc_proto [ (0,0,Clone); (0,1,Send 1); (1,1,Read); (1,1,Drop); (0,0,Unwrap 2) ] in
  err s = false /\ freed s = true /\ length (accs s) = 3.
Proof. vm_compute. repeat split. Qed.

(** each weakening is racy: the side condition is not vacuous *)
Theorem C04_relaxed_decr_refuted : exists sc, err (run {| incr_release := true; decr_release := false; free_fence := true; uniq_fence := true |} sc) = true.
Proof. eexists. exact relaxed_decr_races. Qed.
Theorem C04_no_uniq_fence_refuted : exists sc, err (run {| incr_release := true; decr_release := true; free_fence := true; uniq_fence := false |} sc) = true.
Proof. eexists. exact no_uniq_fence_races. Qed.
Theorem C04_no_free_fence_refuted : exists sc, err (run {| incr_release := true; decr_release := true; free_fence := false; uniq_fence := true |} sc) = true.
Proof. eexists. exact no_free_fence_races. Qed.
