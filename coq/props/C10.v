(** * C10 -- concat/join/repeat equal std and never expose bytes the caller did not supply. *)
From Hip Require Import Base Utf8 Bytes BytesSpec Concat ConcatProofs.

(** slice forms, and generic forms with a well-behaved iterator: exactly std's result, every byte initialised *)
Theorem C10_concat_equal_std : forall ps, concat_generic true ps ps = CVal (map Some (flat ps)).
Proof. exact concat_equal_std. Qed.
Print Assumptions C10_concat_equal_std.

Theorem C10_join_equal_std : forall ps sep, join_generic true ps ps sep = CVal (map Some (intercalate sep ps)).
Proof. exact join_equal_std. Qed.
Print Assumptions C10_join_equal_std.

(** second traversal arbitrary (misbehaving Clone / Iterator / AsRef): panic, or exactly what was copied *)
Theorem C10_concat_adversarial : forall ps1 ps2 out,
  concat_generic true ps1 ps2 = CVal out -> all_init out = true /\ (out = [] \/ out = map Some (flat ps2)).
Proof. exact concat_adversarial. Qed.
Print Assumptions C10_concat_adversarial.

Theorem C10_join_adversarial : forall ps1 ps2 sep out,
  join_generic true ps1 ps2 sep = CVal out -> all_init out = true /\ (out = [] \/ out = map Some (intercalate sep ps2)).
Proof. exact join_adversarial. Qed.
Print Assumptions C10_join_adversarial.

(** HipStr: never ill-formed UTF-8 *)
Theorem C10_concat_str_valid : forall ps1 ps2 out, Forall (fun p => valid p = true) ps2 ->
  concat_generic true ps1 ps2 = CVal (map Some out) -> valid out = true.
Proof. exact concat_str_valid. Qed.
Print Assumptions C10_concat_str_valid.

Theorem C10_join_str_valid : forall sep ps, valid sep = true -> Forall (fun p => valid p = true) ps -> valid (intercalate sep ps) = true.
Proof. exact valid_intercalate. Qed.
Print Assumptions C10_join_str_valid.

(** repeat is an operation of the Bytes machine: its result is [repeat_list v n] (std's [repeat]), or a panic exactly on
    capacity overflow -- this is the ORepeat clause of [spec_det], covered by the refinement theorem of C01. *)
Theorem C10_repeat_spec : forall ty sp h k v, sget sp h = Some v ->
  spec_det ty sp (ORepeat h k) =
  Some (if (len v =? 0) || (k =? 1) then snew sp v else if IMAX <? len v * k then (sp, UPanic) else snew sp (repeat_list v (N.to_nat k))).
Proof. intros ty sp h k v H. unfold spec_det. rewrite H. reflexivity. Qed.

(** the pinned code (before the fix) is refuted *)
Theorem C10_pinned_concat_refuted : exists ps1 ps2 out, concat_generic false ps1 ps2 = CVal out /\ all_init out = false.
Proof. exact concat_pinned_refuted. Qed.
Theorem C10_pinned_join_refuted : exists ps1 ps2 sep out, join_generic false ps1 ps2 sep = CVal out /\ all_init out = false.
Proof. exact join_pinned_refuted. Qed.

Example C10_nonvacuous :
  concat_generic true [[1; 2]; []; [3]] [[1; 2]; []; [3]] = CVal [Some 1; Some 2; Some 3] /\
  join_generic true [[1]; [2; 3]] [[1]; [2; 3]] [44; 32] = CVal [Some 1; Some 44; Some 32; Some 2; Some 3] /\
  concat_generic true [[1; 2; 3]] [[1]] = CPanic /\ concat_generic true [[1]] [[1; 2]] = CPanic.
Proof. repeat split; vm_compute; reflexivity. Qed.
