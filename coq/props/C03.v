(** * C03 -- Heap discipline: views lie in live memory, blocks are freed exactly once. *)
From Hip Require Import Base Range Utf8 StrRange Bytes BytesSpec BytesInv BytesLib BytesProofs3 BytesProofs BytesCorollaries BytesUtf8 BytesContract BytesShape.

(** The bytes a value exposes lie inside a block that is still allocated and inside its initialised part (or inside the value itself when inline, or inside the borrowed source). *)
Theorem C03_views_in_live_memory : forall bk st h hd,
  Inv bk st -> get_h st h = Some hd ->
  match hrepr hd with
  | RAlloc b off n => exists blk, get_b st b = Some blk /\ off + n <= len (vdata blk) /\ len (vdata blk) <= vcap blk
  | RBorrowed s off n => s < len (srcs st) /\ off + n <= len (get_src st s)
  | RInline d => len d <= INLINE_CAP
  end.
Proof. exact views_in_live_memory. Qed.
Print Assumptions C03_views_in_live_memory.

(** No primitive is ever used outside its precondition along any run: no access to a freed block (a freed block is removed from the block map and any access to it sets the flag), no out-of-range window. *)
Theorem C03_no_ub : forall bk ty ops st' us,
  run_pre bk ty init ops -> run bk ty init ops = (st', us) -> bad st' = false.
Proof. exact run_no_ub. Qed.
Print Assumptions C03_no_ub.

(** The invariant (which contains the heap accounting n_alloc = n_free + live heap objects + leaked guard buffers: every free is the free of a live object, one box and one buffer per block) holds along every run. *)
Theorem C03_invariant_kept : forall bk ty ops st st' us,
  Inv bk st -> run_pre bk ty st ops -> run bk ty st ops = (st', us) -> Inv bk st'.
Proof. exact run_inv. Qed.
Print Assumptions C03_invariant_kept.

(** Once every value has been dropped or converted away (and no outside share is pending) every block obtained has been released: nothing leaks except the buffers of deliberately leaked mutate guards. *)
Theorem C03_no_leak : forall bk st,
  Inv bk st -> (forall h, get_h st h = None) -> (forall b blk, get_b st b = Some blk -> phantom blk = 0) ->
  n_alloc st = n_free st + n_leak st.
Proof. exact no_leak. Qed.
Print Assumptions C03_no_leak.

Example C03_nonvacuous :
  let st := fst (run BRc TByt init [OFromSlice (repeat 65 40); OClone 0; OSlice 1 (Incl 5) Unb; ODrop 0; OPushSlice 2 [1]; ODrop 1; ODrop 2]) in
  n_alloc st = n_free st /\ n_alloc st = 4 /\ bad st = false.
Proof. repeat split; vm_compute; reflexivity. Qed.
