(** * C09 -- Share-count ceiling and non-sharing backend fall back to valid private copies. *)
From Hip Require Import Base Range Utf8 StrRange Bytes BytesSpec BytesInv BytesLib BytesProofs3 BytesProofs BytesCorollaries BytesUtf8 BytesContract BytesShape.

(** The stored count never reaches usize::MAX (so count + 1 never wraps), in every reachable state including the saturated ones. *)
Theorem C09_never_wraps : forall bk st b blk,
  Inv bk st -> get_b st b = Some blk -> cnt blk <= UMAX - 1 /\ kind_get bk (cnt blk) <= UMAX.
Proof. exact count_never_wraps. Qed.
Print Assumptions C09_never_wraps.

(** When the count cannot be incremented (ceiling reached, or Unique backend: can_incr = false) clone produces an independent value on a FRESH block with count 0 holding exactly the source's bytes; the original block is untouched. *)
Theorem C09_fallback_clone : forall bk ty st h hd b off n blk,
  Inv bk st -> get_h st h = Some hd -> hrepr hd = RAlloc b off n -> get_b st b = Some blk ->
  can_incr bk (cnt blk) = false ->
  let b' := len (bs st) in
  exists st', step bk ty st (OClone h) = (st', UNew (len (hs st)))
    /\ (exists l, get_h st' (len (hs st)) = Some (mkH (RAlloc b' 0 n) l))
    /\ b' <> b
    /\ get_b st' b' = Some (mkBlock (view_r st (hrepr hd)) n 0 0)
    /\ get_b st' b = Some blk
    /\ view_r st' (RAlloc b' 0 n) = view_r st (hrepr hd).
Proof. exact fallback_clone. Qed.
Print Assumptions C09_fallback_clone.

(** the same for slices longer than the inline capacity (and everything built on slice: slice_ref, split, trim ...): the piece owns its own memory -- its window starts at offset 0 of its own block *)
Theorem C09_fallback_slice : forall bk ty st h hd b off n blk s e a b',
  Inv bk st -> get_h st h = Some hd -> hrepr hd = RAlloc b off n -> get_b st b = Some blk ->
  can_incr bk (cnt blk) = false ->
  simplify_ty ty (view_r st (hrepr hd)) s e = ROk (a, b') -> INLINE_CAP < b' - a ->
  let nb := len (bs st) in
  exists st', step bk ty st (OTrySlice h s e) = (st', UNew (len (hs st)))
    /\ get_h st' (len (hs st)) = Some (mkH (RAlloc nb 0 (b' - a)) false)
    /\ nb <> b
    /\ get_b st' nb = Some (mkBlock (sub (view_r st (hrepr hd)) a b') (b' - a) 0 0)
    /\ get_b st' b = Some blk
    /\ view_r st' (RAlloc nb 0 (b' - a)) = sub (view_r st (hrepr hd)) a b'.
Proof. exact fallback_slice. Qed.
Print Assumptions C09_fallback_slice.

(** The copy outlives the original and the original is released normally: the copy is a handle of its own block, so
    C02_frame (dropping the original changes no other handle), C03 (views stay in live memory, no leak) and C01 apply to it. *)
Theorem C09_copy_outlives_original : forall bk ty st h0 st' u h, Inv bk st -> step bk ty st (ODrop h0) = (st', u) -> h < len (hs st) -> h <> h0 ->
  sget (abs st') h = sget (abs st) h /\ Inv bk st'.
Proof.
  intros bk ty st h0 st' u h I E L N. split.
  - apply (C02_frame bk ty st (ODrop h0) st' u h I Logic.I E L). cbn [target]. intros H; inversion H; subst; contradiction.
  - exact (step_inv bk ty st (ODrop h0) st' u I Logic.I E).
Qed.
Print Assumptions C09_copy_outlives_original.

(** Unique never shares *)
Theorem C09_unique_never_shares : forall c, can_incr BUnique c = false.
Proof. reflexivity. Qed.

Example C09_nonvacuous :
  (* at the ceiling: clone and slice copy; below it they share; after dropping the original the copies still read *)
  let st := fst (run BArc TByt init [OFromSlice (repeat 65 40); OForceCount 0 0; OClone 0; OSlice 0 (Incl 2) (Excl 30); ORestoreCount 0; ODrop 0]) in
  view st 1 = repeat 65 40 /\ view st 2 = repeat 65 28 /\ map o_where (observe BArc st) = [1; 2] /\ bad st = false /\
  let su := fst (run BUnique TByt init [OFromSlice (repeat 65 40); OSlice 0 (Incl 2) (Excl 30); ODrop 0]) in view su 1 = repeat 65 28.
Proof. repeat split; vm_compute; reflexivity. Qed.
