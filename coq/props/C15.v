(** * C15 -- Containers stay sound when user code panics mid-operation.
    The panic position [p] (which user callback -- Clone, Drop, iterator next, closure, predicate -- panics) is chosen by the
    environment and is universally quantified, as are the operation sequences and the vector kind. *)
From Hip Require Import VecProofs.

(** after ANY sequence of operations with a user panic at ANY callback position: no undefined behaviour so far (no drop or
    read of an uninitialised slot, no double drop, no write outside the buffer), every vector's length covers only
    initialised elements, no element is owned twice (so none can be dropped twice later), everything reachable is alive
    (nothing dropped is still in use), no destructor ran twice. *)
Theorem C15_unwind_safe : forall k p ops, VInv k (fst (vrun k (vinit p) ops)).
Proof. exact vrun_sound. Qed.
Print Assumptions C15_unwind_safe.

(** "it can still be used and dropped": the invariant is inductive -- any further operations (including dropping every
    vector: XDropV) from the post-panic state keep it, again for any panic position (a second panic is excluded only while
    unwinding, where Rust aborts) *)
Theorem C15_still_usable : forall k ops s, VInv' k s -> VInv' k (fst (vrun k s ops)).
Proof. exact vrun_inv'. Qed.
Print Assumptions C15_still_usable.

Theorem C15_one_step : forall k s o, VInv' k s -> VInv' k (fst (vstep k s o)).
Proof. exact vstep_inv'. Qed.
Print Assumptions C15_one_step.

(** the clauses spelled out *)
Corollary C15_clauses : forall k p ops, let s := fst (vrun k (vinit p) ops) in
  badw (wd s) = false /\ NoDup (reachable s) /\ incl (reachable s) (live (wd s)) /\ NoDup (drop_ids (log (wd s))) /\
  forall i v, getv s i = Some v -> (vlen v <= vcapn v)%nat /\ length (elems v) = vlen v.
Proof.
  intros k p ops s. pose proof (vrun_sound k p ops) as I. fold s in I. destruct I as [B V N L _ _ _ [D _]].
  repeat split; try assumption; destruct (V i v H) as (A & C & _); assumption.
Qed.
Print Assumptions C15_clauses.

(** the pinned ThinVec::resize (slots len+1.. first, slot len last) is refuted in design-spikes/C15_vec_panic; the model here
    is the repaired order.  Non-vacuity: a resize whose 2nd clone panics, then the vector is used and dropped. *)
Example C15_nonvacuous :
  let s := fst (vrun KThin (vinit (Some 1%N)) [XNew; XPush 0 1; XResize 0 4%nat 9; XPush 0 5; XDropV 0]) in
  badw (wd s) = false /\ live (wd s) = [] /\ snd (vrun KThin (vinit (Some 1%N)) [XNew; XPush 0 1; XResize 0 4%nat 9]) = [VNewV 0; VUnit; VPanicked].
Proof. repeat split; vm_compute; reflexivity. Qed.
