(** * C07 (niche / discrimination of the three representations), tied to today's source.
    gen/TagGen.v is regenerated on every run from src/vecs/inline.rs (TaggedU8::{max,new,get}, the length-and-tag byte of the
    inline representation), src/bytes/raw.rs (TAG_BITS, MASK, TAG_*, type Inline, fn tag) and src/bytes/raw/allocated.rs (the
    tagged pointer).  The theorems discharge the unsafe preconditions this arithmetic carries:
    [NonZeroU8::new_unchecked] (the byte is never 0: that is the niche of Option<Hip*>), [unreachable_unchecked] in [tag()]
    (the two low bits are always one of the three tags), and the pointer recovered by xor is the pointer that was tagged. *)
From Coq Require Import List Bool.
Import ListNotations.
From Hip Require Import Base Bits.
From HipGen Require Import TagGen.
Open Scope N_scope.

Definition upto (n : N) : list N := map N.of_nat (seq 0 (N.to_nat n)).
Lemma in_upto x n : x < n -> In x (upto n).
Proof. intros H. unfold upto. apply in_map_iff. exists (N.to_nat x). split; [apply N2Nat.id|]. apply in_seq. lia. Qed.

Definition tagged_case_ok (dbg : bool) (SHIFT TAG len : N) : bool :=
  match tagged_new_gen dbg SHIFT TAG len with
  | Val v => negb (v =? 0) && (v <? 256) && (N.land v (N.shiftl 1 SHIFT - 1) =? TAG)
             && match tagged_get_gen dbg SHIFT v with Val l => l =? len | Panic => false end
  | Panic => false
  end.

(** the whole parameter space the const assertions admit: SHIFT in 1..7, TAG in 1..2^SHIFT-1, every length up to the maximum *)
Definition tagged_all_ok : bool :=
  forallb (fun dbg => forallb (fun SHIFT => forallb (fun TAG =>
    if tagged_const_ok SHIFT TAG then forallb (fun len => if len <=? N.shiftr 255 SHIFT then tagged_case_ok dbg SHIFT TAG len else true) (upto 256) else true)
    (upto 256)) (upto 9)) [true; false].

Lemma tagged_all_ok_true : tagged_all_ok = true.
Proof. vm_compute. reflexivity. Qed.

Lemma shiftr_255_le s : N.shiftr 255 s <= 255.
Proof. rewrite N.shiftr_div_pow2. apply N.div_le_upper_bound; [apply N.pow_nonzero; lia|]. pose proof (N.pow_nonzero 2 s). nia. Qed.

(** Every length-and-tag byte built by [TaggedU8::new] -- for any SHIFT/TAG the const assertions accept and any length up to
    [max()] -- is non-zero (precondition of new_unchecked), fits a byte (the [as u8] loses nothing), carries TAG in its low
    SHIFT bits, and [get] reads the length back. *)
Theorem C07_tag_byte_roundtrip : forall dbg SHIFT TAG len, tagged_const_ok SHIFT TAG = true -> len <= N.shiftr 255 SHIFT ->
  exists v, tagged_new_gen dbg SHIFT TAG len = Val v /\ v <> 0 /\ v < 256 /\ N.land v (N.shiftl 1 SHIFT - 1) = TAG /\ tagged_get_gen dbg SHIFT v = Val len.
Proof.
  intros dbg SHIFT TAG len Hc Hl.
  assert (Hb : SHIFT < 9 /\ TAG < 256).
  { unfold tagged_const_ok in Hc. repeat (apply andb_true_iff in Hc as [Hc ?]).
    repeat match goal with H : (_ <? _) = true |- _ => apply N.ltb_lt in H end.
    assert (SHIFT < 8) by assumption. split; [lia|].
    assert (N.shiftl 1 SHIFT <= 128); [|lia].
    rewrite N.shiftl_1_l. change 128 with (2 ^ 7). apply N.pow_le_mono_r; lia. }
  destruct Hb as [Hs Ht].
  pose proof tagged_all_ok_true as A. unfold tagged_all_ok in A.
  rewrite forallb_forall in A. specialize (A dbg (ltac:(destruct dbg; cbn; auto))).
  rewrite forallb_forall in A. specialize (A SHIFT (in_upto _ _ Hs)).
  rewrite forallb_forall in A. specialize (A TAG (in_upto _ _ Ht)).
  rewrite Hc in A. rewrite forallb_forall in A.
  assert (Hlen : len < 256) by (pose proof (shiftr_255_le SHIFT); lia).
  specialize (A len (in_upto _ _ Hlen)).
  destruct (len <=? N.shiftr 255 SHIFT) eqn:E; [|apply N.leb_gt in E; lia].
  unfold tagged_case_ok in A. destruct (tagged_new_gen dbg SHIFT TAG len) as [v|]; [|discriminate].
  repeat (apply andb_true_iff in A as [A ?]).
  exists v. split; [reflexivity|].
  destruct (tagged_get_gen dbg SHIFT v) as [l|]; [|discriminate].
  repeat split.
  - apply negb_true_iff, N.eqb_neq in A. exact A.
  - match goal with H : (v <? 256) = true |- _ => apply N.ltb_lt in H; exact H end.
  - match goal with H : (N.land _ _ =? TAG) = true |- _ => apply N.eqb_eq in H; exact H end.
  - match goal with H : (l =? len) = true |- _ => apply N.eqb_eq in H; now subst end.
Qed.
Print Assumptions C07_tag_byte_roundtrip.

(** today's constants: the inline representation's parameters pass the const assertions, 23 bytes fit, the three tags are distinct,
    non-zero and within the mask, and the source still has the shapes the tagged-pointer theorem is about *)
Theorem C07_tags_discriminate :
  tagged_const_ok INLINE_SHIFT INLINE_TAG = true /\ INLINE_SHIFT = TAG_BITS /\ INLINE_TAG = TAG_INLINE /\ 23 <= N.shiftr 255 INLINE_SHIFT
  /\ NoDup [TAG_INLINE; TAG_BORROWED; TAG_ALLOCATED] /\ Forall (fun t => 0 < t /\ t <= MASK) [TAG_INLINE; TAG_BORROWED; TAG_ALLOCATED]
  /\ MASK = N.shiftl 1 INLINE_SHIFT - 1
  /\ ptr_tag_const_ok = true /\ ptr_tag_or_ok = true /\ ptr_untag_xor_ok = true /\ ptr_check_tag_ok = true /\ tag_match_ok = true /\ borrowed_tag_ok = true.
Proof.
  repeat split; try (vm_compute; reflexivity); try (vm_compute; discriminate).
  - repeat constructor; cbn; intuition discriminate.
  - repeat constructor; vm_compute; try reflexivity; discriminate.
Qed.

(** the inline byte of a HipByt (any length 0..=23) has the inline tag in its masked bits: [tag()] takes the Inline arm *)
Corollary C07_inline_byte_tag : forall dbg len, len <= 23 ->
  exists v, tagged_new_gen dbg INLINE_SHIFT INLINE_TAG len = Val v /\ v <> 0 /\ N.land v MASK = TAG_INLINE /\ tagged_get_gen dbg INLINE_SHIFT v = Val len.
Proof.
  intros dbg len H. destruct C07_tags_discriminate as (Hc & _ & Ht & Hm & _ & _ & HM & _).
  destruct (C07_tag_byte_roundtrip dbg INLINE_SHIFT INLINE_TAG len Hc ltac:(lia)) as (v & E & Hz & _ & Hl & Hg).
  exists v. rewrite HM, Hl, Ht. auto.
Qed.

(** the tagged pointer of the heap representation: for any address aligned like usize (low two bits clear), or-ing the tag sets
    exactly the masked bits to TAG_ALLOCATED, xor-ing gives the address back, and the first byte (little endian) -- the pivot's
    tag byte -- is non-zero with the allocated tag: [tag()] takes the Allocated arm and the niche is preserved *)
Theorem C07_tagged_pointer : forall addr, addr mod 4 = 0 ->
  let t := N.lor addr TAG_ALLOCATED in
  N.land t MASK = TAG_ALLOCATED /\ N.lxor t TAG_ALLOCATED = addr /\ N.land (t mod 256) MASK = TAG_ALLOCATED /\ t mod 256 <> 0.
Proof.
  intros addr Ha. change TAG_ALLOCATED with 3. change MASK with 3. cbv zeta.
  rewrite (lor_low_bits addr 3 Ha) by lia.
  assert (L0 : N.land addr 3 = 0) by (change 3 with (N.ones 2); rewrite N.land_ones; exact Ha).
  assert (M4 : ((addr + 3) mod 256) mod 4 = 3).
  { assert (E : addr = 4 * (addr / 4)) by (pose proof (N.div_mod addr 4); lia).
    pose proof (N.div_mod (addr + 3) 256 ltac:(lia)) as D. pose proof (N.mod_lt (addr + 3) 256 ltac:(lia)).
    set (r := (addr + 3) mod 256) in *. set (q := (addr + 3) / 256) in *.
    assert (r = 4 * (addr / 4 - 64 * q) + 3) by lia.
    rewrite H0. rewrite N.add_comm, N.mul_comm, N.mod_add by lia. reflexivity. }
  repeat split.
  - apply land_low_bits; [exact Ha|lia].
  - rewrite <- (lor_low_bits addr 3 Ha) by lia. rewrite <- N.lxor_lor by exact L0.
    rewrite N.lxor_assoc, N.lxor_nilpotent, N.lxor_0_r. reflexivity.
  - change 3 with (N.ones 2) at 2. rewrite N.land_ones. exact M4.
  - intros Z. rewrite Z in M4. discriminate.
Qed.
Print Assumptions C07_tagged_pointer.

(** the three possible tag bytes are pairwise distinguishable by [byte & MASK] and none is 0 (Option<Hip*> can use 0) *)
Theorem C07_niche_from_source : forall dbg len addr, len <= 23 -> addr mod 4 = 0 ->
  exists vi, tagged_new_gen dbg INLINE_SHIFT INLINE_TAG len = Val vi
  /\ let vb := TAG_BORROWED in let va := N.lor addr TAG_ALLOCATED mod 256 in
     vi <> 0 /\ vb <> 0 /\ va <> 0
     /\ N.land vi MASK = TAG_INLINE /\ N.land vb MASK = TAG_BORROWED /\ N.land va MASK = TAG_ALLOCATED.
Proof.
  intros dbg len addr Hl Ha. destruct (C07_inline_byte_tag dbg len Hl) as (vi & E & Hz & Ht & _).
  destruct (C07_tagged_pointer addr Ha) as (_ & _ & Hm & Hn).
  exists vi. split; [exact E|]. cbv zeta. repeat split; auto; vm_compute; try reflexivity; discriminate.
Qed.
Print Assumptions C07_niche_from_source.
