(** * C12 -- Eq/Ord/Hash/Borrow are mutually coherent and match the std views.
    The tables of comparison impls (symmetric_eq!/symmetric_ord! invocations with their helper functions), of the macros'
    argument orders, and of the Hash/Borrow impls are regenerated from /repo on every run (coq/gen/CmpTable.v). *)
From Coq Require Import List String Bool.
Import ListNotations.
From Hip Require Import Base Cmp CmpProofs.
From HipGen Require Import CmpTable.
Open Scope string_scope.

(** std's impl table for the views: a comparison involving a Path view is path-wise, otherwise byte-wise *)
Definition std_kind (lhs_is_path rhs_is_path : bool) : ckind := if lhs_is_path || rhs_is_path then KPath else KBytes.
Definition entry_ok (e : centry) : bool := kind_eqb (c_kind e) (std_kind (c_lhs_path e) (c_rhs_path e)).

(** every generated comparison impl -- between Hip types and std types, in either operand order -- compares in the kind std
    uses for the corresponding std views *)
Theorem C12_every_impl_agrees_with_std : forallb entry_ok cmp_table = true /\ macro_eq_args_ok = true /\ macro_ord_args_ok = true.
Proof. repeat split; vm_compute; reflexivity. Qed.

(** the == impl and the partial_cmp impl of one (L, R) pair use the same kind, hence == agrees with partial_cmp == Equal *)
Definition same_pair (a b : centry) : bool := String.eqb (c_lhs a) (c_lhs b) && String.eqb (c_rhs a) (c_rhs b) && String.eqb (c_file a) (c_file b).
Definition coherent_pairs : bool :=
  forallb (fun a => forallb (fun b => implb (same_pair a b) (kind_eqb (c_kind a) (c_kind b))) cmp_table) cmp_table.
Theorem C12_eq_ord_same_kind : coherent_pairs = true.
Proof. vm_compute. reflexivity. Qed.

Theorem C12_eq_iff_cmp_equal : forall k a b, k_eqb k a b = true <-> k_cmp k a b = Eq.
Proof. exact k_eq_iff_cmp. Qed.
Print Assumptions C12_eq_iff_cmp_equal.

(** the generated pair of impls answers consistently in both operand orders: f(other, self).map(reverse) = f(self, other) flipped *)
Theorem C12_reversed_operand_order : forall k a b, CompOpp (k_cmp k a b) = k_cmp k b a.
Proof. exact reversed_impl_agrees. Qed.
Print Assumptions C12_reversed_operand_order.

(** order laws in each kind (so sorting / BTreeMap are well-defined) and byte equality implies path equality but not conversely *)
Theorem C12_cmp_antisym : forall k a b, k_cmp k b a = CompOpp (k_cmp k a b).
Proof. exact k_cmp_antisym. Qed.
Theorem C12_cmp_trans : forall k c a b d, k_cmp k a b = c -> k_cmp k b d = c -> k_cmp k a d = c.
Proof. exact k_cmp_trans. Qed.
Print Assumptions C12_cmp_trans.
Theorem C12_path_coarser_than_bytes : (forall a b, a = b -> path_eqb a b = true) /\ exists a b, path_eqb a b = true /\ a <> b.
Proof. split; [exact path_eq_refl_of_bytes | exact path_eq_coarser]. Qed.

(** Borrow<T>: the borrowed form must compare and hash exactly like the owner.  Two impls are known to be incoherent
    (known findings K1, K2: they cannot be repaired without removing the impl); every OTHER Borrow impl is coherent, and a
    new incoherent one makes this theorem fail. *)
Definition known_incoherent (b : bentry) : bool :=
  (String.eqb (b_owner b) "HipPath" && String.eqb (b_target b) "OsStr") || (String.eqb (b_owner b) "HipStr" && String.eqb (b_target b) "BStr").
Definition borrow_coherent (b : bentry) : bool := kind_eqb (b_owner_eq b) (b_target_eq b) && hclass_eqb (b_owner_hash b) (b_target_hash b).
Theorem C12_borrow_coherent : forallb (fun b => known_incoherent b || borrow_coherent b) borrow_table = true.
Proof. vm_compute. reflexivity. Qed.
Theorem C12_borrow_known_refuted : forallb (fun b => implb (known_incoherent b) (negb (borrow_coherent b))) borrow_table = true /\ existsb known_incoherent borrow_table = true.
Proof. split; vm_compute; reflexivity. Qed.

Example C12_nonvacuous :
  Nat.leb 100 (List.length cmp_table) = true /\ existsb (fun e => kind_eqb (c_kind e) KPath) cmp_table = true /\
  path_eqb [97; 47] [97] = true /\ bytes_eqb [97; 47] [97] = false /\ path_cmp [97; 47; 98] [97; 47; 47; 46; 47; 98] = Eq.
Proof. repeat split; vm_compute; reflexivity. Qed.
