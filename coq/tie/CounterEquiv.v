(** * CounterEquiv: the counter functions regenerated from src/smart.rs (impl Kind for Rc / Unique) equal the
    value semantics used by the Bytes machine ([can_incr], [is_unique_c], [kind_get]) (Tie A, C09). *)
From Hip Require Import Base Bytes.
From HipGen Require Import CounterGen.

Lemma rc_incr_gen_ok : forall dbg c, c <= UMAX - 1 ->
  rc_incr_gen dbg c = Val (if can_incr BRc c then (c + 1, Done) else (c, Overflow)).
Proof. intros dbg c H. unfold rc_incr_gen, can_incr. word_unfold. split_ifs; cbn beta iota zeta; try reflexivity; lia. Qed.

(** decrement from the stored value 0 reports Overflow: the caller frees *)
Lemma rc_decr_gen_ok : forall dbg c,
  rc_decr_gen dbg c = Val (if is_unique_c BRc c then (c, Overflow) else (c - 1, Done)).
Proof. intros dbg c. unfold rc_decr_gen, is_unique_c. word_unfold. split_ifs; cbn beta iota zeta; try reflexivity; lia. Qed.

Lemma rc_get_gen_ok : forall dbg c, c <= UMAX - 1 -> rc_get_gen dbg c = Val (c, kind_get BRc c).
Proof. intros dbg c H. unfold rc_get_gen, kind_get. word_unfold. split_ifs; cbn beta iota zeta; try reflexivity; lia. Qed.

Lemma unique_incr_gen_ok : forall dbg c, unique_incr_gen dbg c = Val (if can_incr BUnique c then (c + 1, Done) else (c, Overflow)).
Proof. reflexivity. Qed.
Lemma unique_decr_gen_ok : forall dbg c, unique_decr_gen dbg c = Val (if is_unique_c BUnique c then (c, Overflow) else (c - 1, Done)).
Proof. reflexivity. Qed.
Lemma unique_get_gen_ok : forall dbg c, unique_get_gen dbg c = Val (c, kind_get BUnique c).
Proof. reflexivity. Qed.

(** the count can never wrap: an increment is refused unless the result stays below usize::MAX *)
Lemma rc_incr_never_wraps : forall dbg c c' r, c <= UMAX - 1 -> rc_incr_gen dbg c = Val (c', r) -> c' <= UMAX - 1.
Proof.
  intros dbg c c' r H E. rewrite rc_incr_gen_ok in E by exact H. unfold can_incr in E.
  destruct (c + 1 <? UMAX) eqn:L; inversion E; subst; unfold UMAX in *; lia.
Qed.
