(** * CorePinned: the unsafe core is the code the hand models were written against.
    The Bytes machine (representations, sharing, conversions), the counter models and the release/acquire protocol are hand models of
    src/bytes/raw.rs, src/bytes/raw/allocated.rs, src/bytes/raw/borrowed.rs and src/smart.rs.  Several of their functions are tied to
    the source by translation (gen/HandleGen, ReprGen, EditGen, TagGen, CounterGen, ArcGen); for ALL of them this file states that
    today's body is, hash for hash, the body that was read when the model was written or last reviewed, and that no function has been
    added to those files since.  A change there -- correct or not -- means the correspondence has to be re-examined (the drivers still
    search for a failing input). *)
From Coq Require Import List String Bool.
Import ListNotations.
From HipGen Require Import PinGen.

Theorem core_bodies_pinned : forallb snd pinned_core = true /\ Nat.leb 60 (List.length pinned_core) = true /\ unpinned_core_new = [].
Proof. repeat split; vm_compute; reflexivity. Qed.
