(** * StrEquiv: the checked slicing entry points recognised in today's source (gen/StrGen.v), composed with the translated
    [simplify_range_mono_gen], ARE the hand models [simplify] / [str_try_slice] on which C06 and C08 are proved:
    - HipByt::try_slice = [simplify];  HipStr::try_slice = [str_try_slice] (range first, then start boundary, then end boundary:
      no fast path accepts an empty range inside a code point, none skips a boundary test);
    - slice panics exactly when try_slice errs;
    - HipStr::truncate panics exactly on a cut inside a code point and otherwise shortens (or does nothing beyond the length). *)
From Hip Require Import Base Range Utf8 StrRange.
From HipGen Require Import RangeGen StrGen.
From HipTie Require Import RangeEquiv.
Open Scope N_scope.

Theorem byt_try_slice_gen_is_simplify : forall dbg s e n, bound_ok s -> bound_ok e -> n <= IMAX ->
  byt_try_slice_gen dbg s e n = Val (simplify s e n).
Proof. intros. unfold byt_try_slice_gen. now apply simplify_gen_ok. Qed.

Theorem str_try_slice_gen_is_str_try_slice : forall dbg v s e, bound_ok s -> bound_ok e -> len v <= IMAX ->
  str_try_slice_gen dbg v s e = Val (str_try_slice v s e).
Proof.
  intros dbg v s e Hs He Hl. unfold str_try_slice_gen, str_try_slice.
  rewrite (simplify_gen_ok dbg s e (len v) Hs He Hl). cbn [bindM].
  destruct (simplify s e (len v)) as [[a b]|[[a b] k]]; [|reflexivity].
  destruct (negb (is_char_boundary v a)); [reflexivity|]. destruct (negb (is_char_boundary v b)); reflexivity.
Qed.
Print Assumptions str_try_slice_gen_is_str_try_slice.

Theorem slice_panics_iff_try_slice_errs : forall dbg v s e, bound_ok s -> bound_ok e -> len v <= IMAX ->
  (str_slice_gen dbg v s e = Panic <-> exists x, str_try_slice v s e = RErr x)
  /\ (forall r, str_slice_gen dbg v s e = Val r <-> str_try_slice v s e = ROk r).
Proof.
  intros dbg v s e Hs He Hl. unfold str_slice_gen, panic_on_err.
  rewrite (str_try_slice_gen_is_str_try_slice dbg v s e Hs He Hl). cbn [bindM].
  destruct (str_try_slice v s e) as [r0|x]; split.
  - split; [discriminate | intros [y Hy]; discriminate].
  - intros r. split; intros H; inversion H; reflexivity.
  - split; [intros _; eauto | reflexivity].
  - intros r. split; discriminate.
Qed.

Theorem byt_slice_panics_iff_try_slice_errs : forall dbg s e n, bound_ok s -> bound_ok e -> n <= IMAX ->
  (byt_slice_gen dbg s e n = Panic <-> exists x, simplify s e n = RErr x) /\ (forall r, byt_slice_gen dbg s e n = Val r <-> simplify s e n = ROk r).
Proof.
  intros dbg s e n Hs He Hl. unfold byt_slice_gen, panic_on_err. rewrite (byt_try_slice_gen_is_simplify dbg s e n Hs He Hl). cbn [bindM].
  destruct (simplify s e n) as [r0|x]; split.
  - split; [discriminate | intros [y Hy]; discriminate].
  - intros r. split; intros H; inversion H; reflexivity.
  - split; [intros _; eauto | reflexivity].
  - intros r. split; discriminate.
Qed.

Theorem str_truncate_gen_spec : forall v m,
  str_truncate_gen v m = if (m <=? len v) && negb (is_char_boundary v m) then Panic else if m <=? len v then Val (Some m) else Val None.
Proof. intros v m. unfold str_truncate_gen. destruct (m <=? len v), (is_char_boundary v m); reflexivity. Qed.
