(** * RangeEquiv: the functions regenerated from /repo's source equal the hand model (Tie A, C08).

    The proofs use only [unfold] of the *generated* name, the word-level
    definitions of Base.v, [destruct] on the bound kinds, one case split per
    [if], and [lia] -- nothing that depends on the shape of the generated
    term.  A behaviour-preserving rewrite of the Rust function re-proves; a
    change of behaviour inside the stated domain makes a lemma fail. *)
From Hip Require Import Base Range.
From HipGen Require Import RangeGen.

Ltac gen_eq_hand :=
  word_unfold; unfold offset_from in *;
  repeat match goal with b : bound |- _ => destruct b end;
  cbn beta iota zeta delta [bound_ok] in *;
  split_ifs; cbn beta iota zeta; try reflexivity; try lia;
  try (f_equal; f_equal; try f_equal; lia).

Lemma simplify_gen_ok : forall dbg s e len, bound_ok s -> bound_ok e -> len <= IMAX ->
  simplify_range_mono_gen dbg s e len = Val (simplify s e len).
Proof. intros dbg s e len Hs He Hl. unfold simplify_range_mono_gen, simplify. gen_eq_hand. Qed.

Lemma range_mono_gen_ok : forall dbg s e len, bound_ok s -> bound_ok e -> len <= IMAX ->
  range_mono_gen dbg s e len = Val (range_mono s e len).
Proof. intros dbg s e len Hs He Hl. unfold range_mono_gen, range_mono. gen_eq_hand. Qed.

(** Addresses: a slice of [len <= IMAX] bytes lies below [W] (Rust's allocation invariant). *)
Lemma try_range_of_gen_ok : forall dbg wp wl sp sl,
  wl <= IMAX -> sl <= IMAX -> wp + wl < W -> sp + sl < W ->
  try_range_of_gen dbg wp wl sp sl = Val (try_range_of wp wl sp sl).
Proof.
  intros dbg wp wl sp sl H1 H2 H3 H4. unfold try_range_of_gen, try_range_of.
  destruct (sp <? wp) eqn:E1; cbn [orb]; [reflexivity|].
  destruct (wp + wl <? sp) eqn:E2; [reflexivity|].
  gen_eq_hand.
Qed.
