(** * EditEquiv: truncate / pop / shrink_to as recognised in today's source (gen/EditGen.v) are the machine's [do_shorten] and
    [do_shrink_to]: a heap value shortened to at most the inline capacity MOVES to the inline representation (it is normalised --
    this is what keeps `pop` at 24 bytes and `truncate` from leaving short values on the heap), otherwise the view is shortened in
    place; shrinking keeps [max(min_capacity, len)], goes inline at or below the inline capacity, and otherwise reallocates only when
    the capacity really exceeds the target, copying the VIEW (not the backing vector) before releasing the old share. *)
From Hip Require Import Base Range Bytes.
From HipGen Require Import EditGen.
Open Scope N_scope.

Theorem inline_capacity_is_the_models : INLINE_CAPACITY = INLINE_CAP.
Proof. reflexivity. Qed.

(** the effect on a handle's representation *)
Definition apply_shorten (bk : backend) (st : state) (h : N) (r : repr) (e : eff) : state :=
  match e with
  | EInline n => assign bk st h r (RInline (sub (view_r st r) 0 n)) false
  | ESetLen n => match r with
                 | RInline d => set_h st h (Some (mkH (RInline (sub d 0 n)) false))
                 | RBorrowed s off _ => set_h st h (Some (mkH (RBorrowed s off n) false))
                 | RAlloc b off _ => set_h st h (Some (mkH (RAlloc b off n) false))
                 end
  | _ => st
  end.

Theorem truncate_is_do_shorten : forall bk st h r m, m < rlen r ->
  apply_shorten bk st h r (truncate_gen (is_alloc r) (rlen r) m) = do_shorten bk st h r m.
Proof.
  intros bk st h r m H. unfold truncate_gen, do_shorten. change INLINE_CAPACITY with INLINE_CAP.
  assert (E : (m <? rlen r) = true) by (apply N.ltb_lt; exact H). rewrite E.
  destruct (is_alloc r && (m <=? INLINE_CAP)); reflexivity.
Qed.

Theorem truncate_noop_beyond_len : forall a n m, n <= m -> truncate_gen a n m = ENone.
Proof. intros a n m H. unfold truncate_gen. assert (E : (m <? n) = false) by (apply N.ltb_ge; exact H). rewrite E. reflexivity. Qed.

(** pop removes exactly the last byte and then behaves as truncate(len - 1) *)
Theorem pop_is_truncate : forall a n, 0 < n -> pop_gen a n = EPopped (n - 1) (truncate_gen a n (n - 1)).
Proof. intros a n H. unfold pop_gen. assert (E : (n =? 0) = false) by (apply N.eqb_neq; lia). rewrite E. reflexivity. Qed.

Theorem pop_of_24_goes_inline : pop_gen true 24 = EPopped 23 (EInline 23).
Proof. reflexivity. Qed.

(** shrink_to, composed with Allocated::shrink_to, is [do_shrink_to] *)
Definition shrink_decision (r : repr) (cap m : N) : eff :=
  match shrink_to_gen (is_alloc r) (rlen r) m with
  | EAllocShrink mc => alloc_shrink_to_gen (rlen r) cap mc
  | e => e
  end.

Theorem shrink_to_is_do_shrink_to : forall bk st h hd b off n blk m,
  hrepr hd = RAlloc b off n -> get_b st b = Some blk ->
  do_shrink_to bk st h hd m =
    match shrink_decision (hrepr hd) (vcap blk) m with
    | ENone => (st, UUnit)
    | EInline _ => (assign bk st h (hrepr hd) (RInline (view_r st (hrepr hd))) false, UUnit)
    | ERealloc mc => let v := view_r st (hrepr hd) in let '(st1, b') := fresh_block st v mc false in
                     (set_h (detach bk st1 b) h (Some (mkH (RAlloc b' 0 n) (lin hd))), UUnit)
    | _ => (st, UUnit)
    end.
Proof.
  intros bk st h hd b off n blk m Hr G. unfold do_shrink_to, shrink_decision, shrink_to_gen, alloc_shrink_to_gen.
  rewrite Hr. cbn [is_alloc rlen]. change INLINE_CAPACITY with INLINE_CAP. rewrite G.
  destruct (INLINE_CAP <? N.max m n) eqn:E; [|reflexivity].
  cbv zeta. rewrite (N.max_l (N.max m n) n) by apply N.le_max_r.
  destruct (vcap blk <=? N.max m n); reflexivity.
Qed.
Print Assumptions shrink_to_is_do_shrink_to.

Theorem shrink_to_noop_unless_heap : forall n m, shrink_to_gen false n m = ENone.
Proof. reflexivity. Qed.

(** push_slice: the decision of [do_push_slice] *)
Theorem push_slice_decision : forall bk st r (x : list N),
  let nl := rlen r + len x in
  match r with
  | RAlloc b off n =>
    forall blk, get_b st b = Some blk ->
    push_slice_gen true false (is_unique_c bk (cnt blk)) (rlen r) (len x) =
      if is_unique_c bk (cnt blk) then PInPlace else if nl <=? INLINE_CAP then PInline true else PNewVec nl
  | RInline _ => push_slice_gen false true false (rlen r) (len x) = if nl <=? INLINE_CAP then PInline false else PNewVec nl
  | RBorrowed _ _ _ => push_slice_gen false false false (rlen r) (len x) = if nl <=? INLINE_CAP then PInline true else PNewVec nl
  end.
Proof.
  intros bk st r x nl. unfold push_slice_gen. change INLINE_CAPACITY with INLINE_CAP.
  destruct r; [reflexivity|reflexivity|]. intros blk G. destruct (is_unique_c bk (cnt blk)); reflexivity.
Qed.

(** the fresh representation [do_push_slice] builds when it cannot push in place has exactly that shape: inline up to the capacity,
    otherwise a block of capacity exactly [new_len] *)
Theorem push_slice_fresh_shape : forall st v x nl, nl = len v + len x ->
  (nl <=? INLINE_CAP = true -> (if nl <=? INLINE_CAP then (st, RInline (v ++ x)) else let '(st1, b') := fresh_block st (v ++ x) nl false in (st1, RAlloc b' 0 nl)) = (st, RInline (v ++ x))).
Proof. intros st v x nl _ E. rewrite E. reflexivity. Qed.

(** make_unique: the private copy is made BEFORE the share is handed back (see also C04_release_is_last_use), and only when needed *)
Theorem make_unique_decision : forall bk st r,
  make_unique_gen (match r with RInline _ => TInline | RBorrowed _ _ _ => TBorrowed | RAlloc _ _ _ => TAllocated end)
                  (match r with RAlloc b _ _ => match get_b st b with Some blk => is_unique_c bk (cnt blk) | None => false end | _ => false end)
  = match r with
    | RInline _ => UNothing
    | RBorrowed _ _ _ => UCopyBorrowed
    | RAlloc b _ _ => if (match get_b st b with Some blk => is_unique_c bk (cnt blk) | None => false end) then UNothing else UCopyThenRelease
    end.
Proof. intros bk st r. destruct r; reflexivity. Qed.

(** take_vec hands the buffer over exactly when [can_unwrap] *)
Theorem take_vec_decision : forall bk st r,
  take_vec_gen (is_alloc r) (can_unwrap bk st r) = if can_unwrap bk st r then VTakeBuffer else VCopyThenDrop.
Proof. intros bk st r. unfold take_vec_gen. destruct r as [d|s off n|b off n]; cbn [is_alloc andb]; [reflexivity|reflexivity|]. destruct (can_unwrap bk st (RAlloc b off n)); reflexivity. Qed.

(** mutable access in place: exactly the machine's [grants_mut] *)
Theorem grants_mut_gen_is_grants_mut : forall bk st r,
  grants_mut_gen (match r with RInline _ => TInline | RBorrowed _ _ _ => TBorrowed | RAlloc _ _ _ => TAllocated end)
                 (match r with RAlloc b _ _ => match get_b st b with Some blk => is_unique_c bk (cnt blk) | None => false end | _ => false end)
  = grants_mut bk st r.
Proof. intros bk st r. destruct r; reflexivity. Qed.

(** with_capacity: the model's threshold *)
Theorem with_capacity_gen_spec : forall n, with_capacity_gen n = if n <=? INLINE_CAP then WInlineEmpty else WHeap n.
Proof. reflexivity. Qed.

(** repeat: the branches of the machine's [ORepeat] (clone | panic beyond isize::MAX | inline | fresh heap value) *)
Theorem repeat_gen_spec : forall n k, n <= IMAX ->
  repeat_gen n k =
    if (n =? 0) || (k =? 1) then RClone
    else if IMAX <? n * k then RPanic
    else if n * k <=? INLINE_CAP then RInlineCopies (n * k) else RVecRepeat (n * k).
Proof.
  intros n k Hn. unfold repeat_gen, mul_chk. change INLINE_CAPACITY with INLINE_CAP.
  destruct ((n =? 0) || (k =? 1)); [reflexivity|].
  destruct (n * k <? W) eqn:E.
  - destruct (IMAX <? n * k) eqn:E2.
    + assert (L : (n * k <=? INLINE_CAP) = false) by (apply N.leb_gt; apply N.ltb_lt in E2; unfold INLINE_CAP, IMAX in *; lia). rewrite L. reflexivity.
    + reflexivity.
  - assert (L : (IMAX <? n * k) = true) by (apply N.ltb_lt; apply N.ltb_ge in E; unfold W, IMAX in *; lia). rewrite L. reflexivity.
Qed.

Theorem clear_is_truncate_0 : forall a n, clear_gen a n = truncate_gen a n 0.
Proof. reflexivity. Qed.
Theorem push_is_push_slice_1 : forall a i u n, push_gen a i u n = push_slice_gen a i u n 1.
Proof. reflexivity. Qed.
