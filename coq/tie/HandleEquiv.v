(** * HandleEquiv: the two functions that duplicate a heap handle, as regenerated from src/bytes/raw/allocated.rs (gen/HandleGen.v),
    do what the Bytes machine's [share_or_copy] does: after a successful increment the new handle SHARES the owner at the requested
    window ([off + start], [end - start]); when the count cannot be incremented (ceiling, Unique) it is a FRESH owner holding a copy
    of exactly the requested sub-range of the view -- never the old data pointer with a new owner, never the whole backing vector,
    never a bitwise copy of the handle without the increment. *)
From Hip Require Import Base Range Bytes.
From HipGen Require Import HandleGen.
Open Scope N_scope.

Theorem slice_unchecked_gen_spec : forall dbg ci off n a c, a <= c -> c <= n ->
  slice_unchecked_gen dbg ci off n a c = Val (if ci then HShare (off + a) (c - a) else HFresh a c).
Proof.
  intros dbg ci off n a c H1 H2. unfold slice_unchecked_gen, mk_share.
  assert (E1 : (a <=? c) = true) by (apply N.leb_le; exact H1).
  assert (E2 : (a <=? n) = true) by (apply N.leb_le; lia).
  assert (E3 : (c <=? n) = true) by (apply N.leb_le; exact H2).
  rewrite E1, E2, E3. destruct dbg, ci; reflexivity.
Qed.

Theorem explicit_clone_gen_spec : forall dbg ci off n,
  explicit_clone_gen dbg ci off n = Val (if ci then HShare off n else HFresh 0 n).
Proof. intros dbg ci off n. unfold explicit_clone_gen. destruct dbg, ci; reflexivity. Qed.

(** what a result means on a machine state: [b] is the source's block, [v] its view *)
Definition realize (st : state) (b : N) (v : list N) (h : hres) : state * repr :=
  match h with
  | HShare off n => (attach st b, RAlloc b off n)
  | HFresh a c => let '(st', b') := fresh_block st (sub v a c) (c - a) false in (st', RAlloc b' 0 (c - a))
  end.

(** slicing a heap value to [a..c] (longer than the inline capacity) in the machine IS the generated function, realised *)
Theorem slice_unchecked_is_share_or_copy : forall dbg bk st b blk off n a c, get_b st b = Some blk -> a <= c -> c <= n ->
  exists h, slice_unchecked_gen dbg (can_incr bk (cnt blk)) off n a c = Val h
    /\ realize st b (view_r st (RAlloc b off n)) h = share_or_copy bk st b (off + a) (c - a) (sub (view_r st (RAlloc b off n)) a c).
Proof.
  intros dbg bk st b blk off n a c G H1 H2. eexists. split; [apply slice_unchecked_gen_spec; assumption|].
  unfold share_or_copy. rewrite G. destruct (can_incr bk (cnt blk)); reflexivity.
Qed.
Print Assumptions slice_unchecked_is_share_or_copy.

(** cloning a heap value: share the same window, or a fresh owner holding the whole VIEW (not the whole backing vector) *)
Theorem explicit_clone_is_share_or_copy : forall dbg bk st b blk off n, get_b st b = Some blk ->
  let v := view_r st (RAlloc b off n) in len v = n ->
  exists h, explicit_clone_gen dbg (can_incr bk (cnt blk)) off n = Val h /\ realize st b v h = share_or_copy bk st b off n v.
Proof.
  intros dbg bk st b blk off n G v Hv. eexists. split; [apply explicit_clone_gen_spec|].
  unfold share_or_copy. rewrite G. destruct (can_incr bk (cnt blk)); cbn [realize]; [reflexivity|].
  rewrite N.sub_0_r. replace (sub v 0 n) with v; [reflexivity|].
  unfold sub. rewrite <- Hv. unfold len. rewrite N.sub_0_r, Nat2N.id. cbn [N.to_nat skipn]. now rewrite firstn_all.
Qed.
Print Assumptions explicit_clone_is_share_or_copy.

(** [try_into_vec]: the buffer is handed over only to the SOLE owner whose view starts at offset 0, truncated to the view's length
    (this is the machine's [can_unwrap]); every other handle gets itself back unchanged *)
Theorem try_into_vec_gen_spec : forall dbg unique off n vlen, n <= vlen ->
  try_into_vec_gen dbg unique off n vlen = Val (if (off =? 0) && unique then TIVOk n else TIVErr).
Proof.
  intros dbg unique off n vlen H. unfold try_into_vec_gen, OWNER_PTR.
  destruct (off =? 0), unique; cbn [negb andb]; destruct dbg; cbn [andb negb]; try reflexivity;
    rewrite N.min_r by exact H; reflexivity.
Qed.

Theorem can_unwrap_is_try_into_vec : forall dbg bk st b blk off n, get_b st b = Some blk -> n <= len (vdata blk) ->
  try_into_vec_gen dbg (is_unique_c bk (cnt blk)) off n (len (vdata blk)) = Val (if can_unwrap bk st (RAlloc b off n) then TIVOk n else TIVErr).
Proof. intros dbg bk st b blk off n G H. rewrite try_into_vec_gen_spec by exact H. unfold can_unwrap. rewrite G. reflexivity. Qed.
Print Assumptions can_unwrap_is_try_into_vec.
