(** * VecEquiv: ThinVec's growth, as regenerated from src/vecs/thin.rs (gen/VecGen.v), is the policy of the vector machine
    ([thin_reserve], [thin_reserve_exact] in VecModel.v): nothing while the spare capacity suffices; otherwise
    [max(len + additional, 2 * capacity)] (resp. exactly [len + additional]); "capacity overflow" exactly when [len + additional]
    does not fit a word.  Stated for every state with [len <= cap] and [2 * cap] representable (a buffer that exists). *)
From Hip Require Import Base VecModel.
From HipGen Require Import VecGen.
Open Scope N_scope.

Theorem thin_reserve_gen_spec : forall dbg cap n add, n <= cap -> cap * 2 < W ->
  thin_reserve_gen dbg cap n add =
    if cap - n <? add then (if n + add <? W then Val (Some (N.max (n + add) (cap * 2))) else Panic) else Val None.
Proof.
  intros dbg cap n add H1 H2. unfold thin_reserve_gen, bindM, sub_w, add_chk, mul_w.
  assert (E1 : (n <=? cap) = true) by (apply N.leb_le; exact H1). rewrite E1.
  assert (E2 : (cap * 2 <? W) = true) by (apply N.ltb_lt; exact H2).
  destruct (cap - n <? add); [|reflexivity].
  destruct (n + add <? W); [|reflexivity]. rewrite E2. reflexivity.
Qed.

Theorem thin_reserve_exact_gen_spec : forall dbg cap n add, n <= cap ->
  thin_reserve_exact_gen dbg cap n add =
    if cap - n <? add then (if n + add <? W then Val (Some (n + add)) else Panic) else Val None.
Proof.
  intros dbg cap n add H1. unfold thin_reserve_exact_gen, bindM, sub_w, add_chk.
  assert (E1 : (n <=? cap) = true) by (apply N.leb_le; exact H1). rewrite E1.
  destruct (cap - n <? add); [|reflexivity]. destruct (n + add <? W); reflexivity.
Qed.

(** the machine's policy on naturals is that function (no overflow for the sizes a machine state can hold) *)
Theorem thin_reserve_is_the_models : forall w v add,
  let cap := N.of_nat (vcapn v) in let n := N.of_nat (vlen v) in
  (vlen v <= vcapn v)%nat -> cap * 2 < W -> n + N.of_nat add < W ->
  exists r, thin_reserve_gen true cap n (N.of_nat add) = Val r /\
    thin_reserve w v add = match r with Some c => set_cap w v (N.to_nat c) | None => (w, v) end.
Proof.
  intros w v add cap n H1 H2 H3. rewrite thin_reserve_gen_spec by (subst cap n; lia).
  unfold thin_reserve. subst cap n.
  destruct (Nat.ltb_spec (vcapn v - vlen v) add) as [L|L].
  - assert (E : (N.of_nat (vcapn v) - N.of_nat (vlen v) <? N.of_nat add) = true) by (apply N.ltb_lt; lia). rewrite E.
    assert (E2 : (N.of_nat (vlen v) + N.of_nat add <? W) = true) by (apply N.ltb_lt; exact H3). rewrite E2.
    eexists. split; [reflexivity|]. cbv beta iota. f_equal.
    rewrite N2Nat.inj_max, N2Nat.inj_add, N2Nat.inj_mul, !Nat2N.id. reflexivity.
  - assert (E : (N.of_nat (vcapn v) - N.of_nat (vlen v) <? N.of_nat add) = false) by (apply N.ltb_ge; lia). rewrite E.
    eexists. split; reflexivity.
Qed.
Print Assumptions thin_reserve_is_the_models.

Theorem thin_reserve_exact_is_the_models : forall w v add,
  let cap := N.of_nat (vcapn v) in let n := N.of_nat (vlen v) in
  (vlen v <= vcapn v)%nat -> n + N.of_nat add < W ->
  exists r, thin_reserve_exact_gen true cap n (N.of_nat add) = Val r /\
    thin_reserve_exact w v add = match r with Some c => set_cap w v (N.to_nat c) | None => (w, v) end.
Proof.
  intros w v add cap n H1 H3. rewrite thin_reserve_exact_gen_spec by (subst cap n; lia).
  unfold thin_reserve_exact. subst cap n.
  destruct (Nat.ltb_spec (vcapn v - vlen v) add) as [L|L].
  - assert (E : (N.of_nat (vcapn v) - N.of_nat (vlen v) <? N.of_nat add) = true) by (apply N.ltb_lt; lia). rewrite E.
    assert (E2 : (N.of_nat (vlen v) + N.of_nat add <? W) = true) by (apply N.ltb_lt; exact H3). rewrite E2.
    eexists. split; [reflexivity|]. cbv beta iota. f_equal.
    rewrite N2Nat.inj_add, !Nat2N.id. reflexivity.
  - assert (E : (N.of_nat (vcapn v) - N.of_nat (vlen v) <? N.of_nat add) = false) by (apply N.ltb_ge; lia). rewrite E.
    eexists. split; reflexivity.
Qed.

(** "capacity overflow": reserve panics exactly when [len + additional] does not fit (as Vec does) -- for ANY element type, the
    arithmetic does not look at the element size *)
Theorem thin_reserve_overflow_panics : forall dbg cap n add, n <= cap -> cap * 2 < W -> cap - n < add -> W <= n + add ->
  thin_reserve_gen dbg cap n add = Panic /\ thin_reserve_exact_gen dbg cap n add = Panic.
Proof.
  intros dbg cap n add H1 H2 H3 H4. rewrite thin_reserve_gen_spec, thin_reserve_exact_gen_spec by assumption.
  assert (E : (cap - n <? add) = true) by (apply N.ltb_lt; exact H3). assert (E2 : (n + add <? W) = false) by (apply N.ltb_ge; exact H4).
  rewrite E, E2. split; reflexivity.
Qed.

(** ** the bodies the vector machine's operations were transcribed from are the bodies of today's source *)
From Coq Require Import List String Bool.
Import ListNotations.
From Hip Require Import VecSpec.

(** every function body of the vector files (and of the drain / range / guarded-clone helpers) is, hash for hash, the one that was
    read when the vector machine and its drivers were written or last reviewed (translator/shapes.json); none has appeared since *)
Theorem vec_bodies_pinned : forallb snd pinned_bodies = true /\ Nat.leb 70 (List.length pinned_bodies) = true /\ unpinned_new_bodies = [].
Proof. repeat split; vm_compute; reflexivity. Qed.

Theorem vec_operation_bodies_recognised :
  forallb snd vec_shapes = true /\ Nat.leb 18 (List.length vec_shapes) = true /\ drain_extra_iterator_overrides = []
  /\ truncate_lowers_len_before_drops = true /\ drain_new_always_sets_len_to_start = true.
Proof. repeat split; vm_compute; reflexivity. Qed.

(** try_insert rejects an index beyond the length FIRST (what Vec::insert panics on), a full vector second: the reason handed back is
    the one the std specification [vspec] gives *)
Theorem try_insert_gen_is_vspec : forall c sp v l i x, sgetv sp v = Some l ->
  vspec (KInline c) sp (XTryInsert v i x) =
    match try_insert_gen (N.of_nat (List.length l)) (N.of_nat c) (N.of_nat i) with
    | InsOutOfBounds => (sp, SRejected x false)
    | InsFull => (sp, SRejected x true)
    | InsOk => (ssetv sp v (Some (insert_at l i x)), SUnit)
    end \/ (c < List.length l)%nat.
Proof.
  intros c sp v l i x G. destruct (Nat.ltb_spec c (List.length l)) as [L|L]; [right; exact L|left].
  unfold vspec. rewrite G. cbn [cap_of]. unfold try_insert_gen, fits. cbn [cap_of].
  destruct (Nat.ltb_spec (List.length l) i) as [A|A].
  - assert (E : (N.of_nat (List.length l) <? N.of_nat i)%N = true) by (apply N.ltb_lt; lia). rewrite E. reflexivity.
  - assert (E : (N.of_nat (List.length l) <? N.of_nat i)%N = false) by (apply N.ltb_ge; lia). rewrite E.
    destruct (Nat.leb_spec (S (List.length l)) c) as [B|B].
    + assert (E2 : (N.of_nat (List.length l) =? N.of_nat c)%N = false) by (apply N.eqb_neq; lia). rewrite E2. reflexivity.
    + assert (E2 : (N.of_nat (List.length l) =? N.of_nat c)%N = true) by (apply N.eqb_eq; lia). rewrite E2. reflexivity.
Qed.
Print Assumptions try_insert_gen_is_vspec.
