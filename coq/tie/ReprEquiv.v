(** * ReprEquiv: the representation decisions regenerated from src/bytes/raw.rs (gen/ReprGen.v) are the ones of the Bytes machine.
    [range_unchecked]: an inline source gives an inline copy, a borrowed source a borrow of the sub-range, a heap source an inline
    copy up to the inline capacity and otherwise [Allocated::slice_unchecked] (gen/HandleGen.v); [from_slice] /
    [normalized_from_vec]: inline up to the inline capacity, heap above -- the threshold of the model, [INLINE_CAP], is the source's. *)
From Hip Require Import Base Range Bytes.
From HipGen Require Import ReprGen.
Open Scope N_scope.

Theorem inline_capacity_is_the_models : INLINE_CAPACITY = INLINE_CAP.
Proof. reflexivity. Qed.

Definition split_of (r : repr) : split :=
  match r with RInline _ => SInline tt | RBorrowed _ _ _ => SBorrowed tt | RAlloc _ _ _ => SAllocated tt end.

(** the decision of [range_repr], as data *)
Definition range_decision (r : repr) (a b : N) : rres :=
  match r with
  | RInline _ => RRInline a b
  | RBorrowed _ _ _ => RRBorrowed a b
  | RAlloc _ _ _ => if b - a <=? INLINE_CAP then RRInline a b else RRSlice a b
  end.

Theorem range_unchecked_gen_spec : forall dbg r a b, a <= b -> b <= rlen r ->
  range_unchecked_gen dbg (split_of r) (rlen r) a b = Val (range_decision r a b).
Proof.
  intros dbg r a b H1 H2. unfold range_unchecked_gen, range_decision.
  assert (E1 : (a <=? b) = true) by (apply N.leb_le; exact H1).
  assert (E2 : (b <=? rlen r) = true) by (apply N.leb_le; exact H2).
  rewrite E1, E2. change INLINE_CAPACITY with INLINE_CAP.
  destruct r as [d|s off n|blk off n]; cbn [split_of rres_normalized];
    try (destruct dbg; reflexivity).
  destruct (b - a <=? INLINE_CAP) eqn:E; cbn [rres_normalized].
  - destruct dbg; reflexivity.
  - change INLINE_CAPACITY with INLINE_CAP. apply N.leb_gt in E. assert (L : (INLINE_CAP <? b - a) = true) by (apply N.ltb_lt; exact E).
    rewrite L. destruct dbg; reflexivity.
Qed.
Print Assumptions range_unchecked_gen_spec.

(** the machine's [range_repr] follows exactly that decision *)
Theorem range_repr_follows_decision : forall bk st r a b,
  match range_decision r a b, r with
  | RRInline _ _, RInline d => range_repr bk st r a b = (st, RInline (sub d a b))
  | RRInline _ _, RAlloc _ _ _ => range_repr bk st r a b = (st, RInline (sub (view_r st r) a b))
  | RRBorrowed _ _, RBorrowed s off n => range_repr bk st r a b = (st, RBorrowed s (off + a) (b - a))
  | RRSlice _ _, RAlloc blk off n => range_repr bk st r a b = share_or_copy bk st blk (off + a) (b - a) (sub (view_r st r) a b)
  | _, _ => False
  end.
Proof.
  intros bk st r a b. destruct r as [d|s off n|blk off n]; cbn [range_decision range_repr]; try reflexivity.
  destruct (b - a <=? INLINE_CAP); reflexivity.
Qed.

(** constructors: inline up to the capacity (the empty value included), heap above *)
Theorem from_slice_gen_spec : forall dbg l,
  from_slice_gen dbg l = Val (if l =? 0 then RREmpty else if l <=? INLINE_CAP then RRInline 0 l else RRAllocNew).
Proof. intros dbg l. unfold from_slice_gen. change INLINE_CAPACITY with INLINE_CAP. destruct (l =? 0), (l <=? INLINE_CAP); reflexivity. Qed.

Theorem normalized_from_vec_gen_spec : forall dbg l,
  normalized_from_vec_gen dbg l = Val (if l <=? INLINE_CAP then RRInline 0 l else RRAllocNew).
Proof. intros dbg l. unfold normalized_from_vec_gen. change INLINE_CAPACITY with INLINE_CAP. destruct (l <=? INLINE_CAP); reflexivity. Qed.

Theorem model_from_slice_same_threshold : forall st x,
  (len x <=? INLINE_CAP = true -> Bytes.from_slice st x = (st, RInline x))
  /\ (len x <=? INLINE_CAP = false -> exists st' b, Bytes.from_slice st x = (st', RAlloc b 0 (len x))).
Proof.
  intros st x. unfold Bytes.from_slice. split; intros E; rewrite E; [reflexivity|].
  destruct (fresh_block st x (len x) false) as [st' b]. eauto.
Qed.
