SPEC = {
 "id": "C03",
 "level": "proof",
 "props": [
  "props/C03.vo"
 ],
 "tie": ["tie/HandleEquiv.vo", "tie/CorePinned.vo"],
 "gen_items": ["src/bytes/raw/allocated.rs:slice_unchecked + explicit_clone", "src/bytes/raw*.rs + src/smart.rs:pinned bodies"],
 "tieA_required": True,
 "case_libs": [
  "theories/CasesBytes.vo",
  "theories/CasesConcat.vo"
 ],
 "drivers": [
  {
   "driver": "bytes",
   "profiles": [
    "debug",
    "release"
   ],
   "args": [
    "all",
    "focus=heap"
   ]
  },
  {
   "driver": "concat",
   "profiles": [
    "debug",
    "release"
   ]
  }
 ],
 "rule": "histories of the Bytes machine on the real implementation (corpus + seeded structured-random, HipByt and HipStr, Arc/Rc/Unique, debug+release); after EVERY op every live handle is re-read and its hook-level representation (tag, owner identity, offset, stored count, Vec len/cap, normalised flag) and the allocator counters are compared with the model by coqc. Oracle for this property: the tracking allocator (every block remembered with its layout; double free / wrong layout / red-zone damage / write-after-free recorded, not forwarded), view inside the owner's initialised buffer, owner buffer = live allocator block of exactly the Vec's capacity, per-op alloc/free/realloc counts and the number of live blocks obtained by the library equal the model's after every op; each history ends by dropping everything; a history whose values are all gone must have released every block (leak oracle; histories with a forgotten mutate guard or a forced count excepted). Multi-piece construction (concat / join with adversarial iterators and AsRef, `concat` driver, debug+release) runs under the same allocator monitor: no write outside the destination block whatever the second traversal yields.",
 "assumptions": [
  "the Inner box and the Vec buffer are two allocations in Rust; the model counts one box per block and one buffer per block of non-zero capacity",
  "Layout alignment of Vec<u8>/Box<Inner> is std's"
 ],
 "trusted_base": [
  "modelled rather than verified: pointer arithmetic and unsafe blocks as index arithmetic on blocks; the pivot/union layout as a tagged representation; Vec<u8> growth as RawVec::grow_amortized (compared exactly with the implementation)",
  "hooks in /repo (cfg hipstr_verif): verif_repr / verif_force_count / verif_bytes read or set the representation; the tracking global allocator of the harness"
 ]
}
