import os, re
import verif as V

def loom_suite(tier, seed, only=None, expected="no unordered conflicting access, freed exactly once, no mutable access while shared"):
    """The litmus suite on the REAL counted pointer under loom (the crate's own cfg(loom) atomics).  `only`: libtest name filter
    (the litmus tests relevant to another property are run from that property's check with this filter)."""
    d = os.path.join(V.ROOT, "harness-loom")
    if not os.path.exists(os.path.join(d, "Cargo.lock")):
        import shutil; shutil.copy(os.path.join(V.REPO, "Cargo.lock"), os.path.join(d, "Cargo.lock"))
    env = {"RUSTFLAGS": "--cfg loom --cfg hipstr_verif", "CARGO_TARGET_DIR": os.path.join(V.CACHE, "target-loom"),
           "VERIF_LOOM_PREEMPT": "3" if tier == "quick" else "5"}
    with V.Lock("cargo-loom"):
        rc, out = V.sh(["cargo", "test", "--release", "--offline"] + ([only] if only else []) + ["--", "--test-threads", "4"], cwd=d, timeout=1500, env=env)
    # libtest prints "test NAME ... " and the verdict possibly on a later line (panic output is interleaved): parse the summary
    ok_tests = re.findall(r"^test (\w+) \.\.\. ok", out, re.M)
    failed = []
    fm = re.search(r"^failures:\n((?:    \w+\n)+)", out, re.M)
    if fm:
        failed = fm.group(1).split()
    sm = re.search(r"test result: (\w+)\. (\d+) passed; (\d+) failed", out)
    res = {"evaluations": len(ok_tests) + len(failed), "distinct_nontrivial": len(ok_tests) + len(failed), "violations": [], "broken": [],
           "samples": ["loom litmus %s: ok" % t for t in ok_tests] + ["loom litmus %s: FAILED" % t for t in failed],
           "notes": ["loom preemption bound %s" % env["VERIF_LOOM_PREEMPT"]]}
    if rc != 0 and not failed:
        # a litmus test that aborts the test process (panic while unwinding inside loom) leaves no summary: name it from the panicking thread
        failed = sorted(set(re.findall(r"thread '(\w+)' \(\d+\) panicked", out)) - {"main"})
    if not sm or (rc != 0 and not failed):
        res["broken"].append({"kind": "loom-build-or-run", "excerpt": out[-2500:]})
        return res
    for name in failed:
        m = re.search(r"(Causality violation[^\n]*|assertion[^\n]*failed[^\n]*|panicked at[^\n]*\n[^\n]*)", out)
        res["violations"].append({"what": "loom litmus %s on the real Smart<_, Arc>" % name, "observed": (m.group(1) if m else "test failed")[:300],
                                  "expected": expected,
                                  "replay": "cd harness-loom && RUSTFLAGS='--cfg loom --cfg hipstr_verif' CARGO_TARGET_DIR=/verif/.cache/target-loom cargo test --release --offline %s" % name})
    return res

SPEC = {
    "id": "C04",
    "level": "proof",
    "props": ["props/C04.vo"],
    "tie": ["tie/CorePinned.vo"],
    "gen_items": ["src/smart.rs:impl Kind for Arc", "src/bytes/raw*.rs + src/smart.rs:pinned bodies"],
    "tieA_required": True,
    "props_need_gen": ["props/C04.vo"],
    "case_libs": ["theories/CasesCounter.vo", "theories/CasesBytes.vo"],
    "drivers": [{"driver": "counter", "profiles": ["debug", "release"]},
                # the single-threaded face of "released only after the last access": the ordering probe of the bytes driver samples the share
                # count at the first allocation of every copy-on-write operation on a shared buffer (the share must still be held then)
                {"driver": "bytes", "profiles": ["debug"], "args": ["byt", "focus=sharing"]}],
    "custom": loom_suite,
    "rule": ("(1) Kind value semantics of Arc/Rc/Unique through Smart from stored states {0,1,2,5,MAX-4..MAX-1} (hook) against the model's can_incr/is_unique/get, debug+release; "
             "(2) loom litmus suite on the real Smart<_, Arc> with a loom-tracked payload whose destructor is a write: read/drop on two threads, read+drop vs in-place mutation, "
             "read+drop vs try_unwrap, concurrent increments through &Smart -- loom explores interleavings and C11 reorderings up to the preemption bound. "
             "distinct_nontrivial = counter states + litmus programs."),
    "assumptions": [
        "the memory model is the release/acquire fragment with fences and release sequences (no consume, no SC accesses: the code uses none); compare_exchange_weak's spurious failure is a retry",
        "thread spawn/join/channel hand-over synchronise (std); hardware/compiler reorderings are represented only through this model",
        "props/C04.v is proved against coq/gen/ArcGen.v, regenerated from src/smart.rs: a change of an ordering changes arc_proto and sound_proto arc_proto = true must still compute",
        "if the translator cannot read impl Kind for Arc the theorem about today's protocol is not available: the check then reports the property as no longer shown to hold (the loom suite is still run to look for a failing schedule)",
    ],
    "trusted_base": ["loom 0.7.2 as the implementation-side explorer of schedules; the ArcRA machine as the model of release/acquire (DESIGN.md section 6/C04)"],
}
