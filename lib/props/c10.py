SPEC = {
    "id": "C10",
    "level": "proof",
    "props": ["props/C10.vo"],
    "tie": ["props/C10_tieA.vo", "tie/EditEquiv.vo"],
    "gen_items": ["src/bytes.rs:concat / join structure", "src/bytes.rs:truncate pop shrink_to push_slice push clear repeat with_capacity as_mut_* to_mut_slice; raw.rs:make_unique take_vec; allocated.rs:shrink_to as_mut_*"],
    "tieA_required": True,
    "case_libs": ["theories/CasesConcat.vo"],
    "drivers": [{"driver": "concat", "profiles": ["debug", "release"]}],
    "rule": ("all piece lists of 0-3 pieces over the length alphabet {0,1,12,24} (thorough: {0,1,2,11,12,23,24,30}) x separators of 0-2 bytes, through concat/join (generic, "
             "well-behaved iterator) and concat_slices/join_slices, HipByt and HipStr, 3 backends, debug+release, against [pieces].concat()/join(sep); plus seeded adversarial "
             "cases: an iterator whose clone (the length pass) yields the first list while the iterator itself (the copy pass) yields a scripted mutation of it (shorter piece, "
             "longer piece, fewer/more items, same lengths with other content, nothing, unrelated). Oracle: panic, or exactly std's concat/join of the pieces actually copied, in "
             "normalised representation, valid UTF-8 for HipStr. distinct_nontrivial = distinct (first, second, sep, outcome) cases, each also evaluated by the Coq model."),
    "assumptions": [
        "the destination is written contiguously (each copy starts where the previous ended: src/bytes.rs concat/join folds) -- the model's buffer is the list of bytes written so far",
        "repeat is covered as an operation of the Bytes machine (C01 refinement + bytes driver)",
        "length arithmetic of join ((segments-1)*sep_len + segments_len) does not overflow: lengths are bounded by allocated memory",
    ],
    "trusted_base": ["modelled rather than verified: ptr::copy_nonoverlapping into spare capacity as list append; set_len as publication of the first new_len cells"],
}
