def _loom(tier, seed):
    import importlib.util, os
    sp = importlib.util.spec_from_file_location('c04', os.path.join(os.path.dirname(__file__), 'c04.py')); m = importlib.util.module_from_spec(sp); sp.loader.exec_module(m)
    return m.loom_suite(tier, seed, only='exclusive_', expected='mutable access or ownership only for the sole owner, also after concurrent clones on other threads')

SPEC = {
    "custom": _loom,
 "id": "C02",
 "level": "proof",
 "props": [
  "props/C02.vo"
 ],
 "tie": ["tie/HandleEquiv.vo", "tie/CorePinned.vo", "tie/EditEquiv.vo"],
 "gen_items": ["src/bytes/raw/allocated.rs:slice_unchecked + explicit_clone", "src/bytes/raw*.rs + src/smart.rs:pinned bodies", "src/bytes.rs:truncate pop shrink_to push_slice push clear repeat with_capacity as_mut_* to_mut_slice; raw.rs:make_unique take_vec; allocated.rs:shrink_to as_mut_*"],
 "tieA_required": True,
 "case_libs": [
  "theories/CasesBytes.vo"
 ],
 "drivers": [
  {
   "driver": "bytes",
   "profiles": [
    "debug",
    "release"
   ],
   "args": [
    "all",
    "focus=sharing"
   ]
  }
 ],
 "rule": "histories of the Bytes machine on the real implementation (corpus + seeded structured-random, HipByt and HipStr, Arc/Rc/Unique, debug+release); after EVERY op every live handle is re-read and its hook-level representation (tag, owner identity, offset, stored count, Vec len/cap, normalised flag) and the allocator counters are compared with the model by coqc. Oracle for this property: each handle's own std shadow value (an edit/drop of one handle must not change any other handle's bytes), borrow sources compared with their pristine copy after every op, Some/None of as_mut_slice/as_mut_ptr and Ok/Err of into_vec compared with the model's exclusivity verdict. distinct_nontrivial = histories with at least one heap-backed handle.",
 "assumptions": [
  "the std buffer borrowed from is observed through the leaked source allocation (never freed during a case)"
 ],
 "trusted_base": [
  "modelled rather than verified: pointer arithmetic and unsafe blocks as index arithmetic on blocks; the pivot/union layout as a tagged representation; Vec<u8> growth as RawVec::grow_amortized (compared exactly with the implementation)",
  "hooks in /repo (cfg hipstr_verif): verif_repr / verif_force_count / verif_bytes read or set the representation; the tracking global allocator of the harness"
 ]
}
