SPEC = {
 "id": "C06",
 "level": "proof",
 "props": [
  "props/C06.vo"
 ],
 "tie": ["tie/StrEquiv.vo"],
 "gen_items": ["src/bytes.rs:simplify_range_mono", "src/bytes.rs + src/string.rs:try_slice / slice / truncate (checked entry points)"],
 "tieA_required": True,
 "case_libs": [
  "theories/CasesBytes.vo",
  "theories/CasesCodec.vo"
 ],
 "drivers": [
  {
   "driver": "codec",
   "profiles": [
    "debug"
   ]
  },
  {
   "driver": "bytes",
   "profiles": [
    "debug",
    "release"
   ],
   "args": [
    "str",
    "focus=utf8"
   ]
  }
 ],
 "rule": "histories of the Bytes machine on the real implementation (corpus + seeded structured-random, HipByt and HipStr, Arc/Rc/Unique, debug+release); after EVERY op every live handle is re-read and its hook-level representation (tag, owner identity, offset, stored count, Vec len/cap, normalised flag) and the allocator counters are compared with the model by coqc. For this property only HipStr histories over the scalar alphabet {a, B, e-acute, euro sign, crab, z} with cuts inside code points, plus the malformed stream: from_utf8 on every string of 1-3 bytes over the 14 class representatives of Unicode table 3-7 and ill-formed classes embedded at every offset of a valid carrier. Oracle: core::str::from_utf8(as_bytes()) after every op; Err/panic exactly where std rejects; rejected ops leave the value unchanged.",
 "assumptions": [
  "arguments typed &str/char are well-formed (op_wf); String::truncate inside a code point in a mutate guard panics in std and is excluded (script_wf)",
  "HipOsStr/HipPath on Unix: every byte string is a valid OsStr (trivial clause); Windows WTF-8 is not modelled",
  "to_lowercase/to_uppercase/from_utf16 build the value from a std String (valid by std)"
 ],
 "trusted_base": [
  "modelled rather than verified: pointer arithmetic and unsafe blocks as index arithmetic on blocks; the pivot/union layout as a tagged representation; Vec<u8> growth as RawVec::grow_amortized (compared exactly with the implementation)",
  "hooks in /repo (cfg hipstr_verif): verif_repr / verif_force_count / verif_bytes read or set the representation; the tracking global allocator of the harness"
 ]
}
