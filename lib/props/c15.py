SPEC = {
 "id": "C15",
 "level": "proof",
 "props": [
  "props/C15.vo"
 ],
 "tie": ["tie/VecEquiv.vo"],
 "gen_items": ["src/vecs/thin.rs:reserve + reserve_exact"],
 "tieA_required": True,
 "case_libs": [
  "theories/CasesVec.vo"
 ],
 "drivers": [
  {
   "driver": "vec",
   "profiles": [
    "debug",
    "release"
   ],
   "args": [
    "focus=panic"
   ]
  }
 ],
 "rule": "operation sequences on InlineVec<El,7> and ThinVec<El> (El = 16-byte identity-tracked element whose Clone/Drop, and the iterators/closures/predicates handed to the vector, log every call): corpus + seeded structured-random sequences over the whole op alphabet (constructors from slice/iterator with lying size hints, push/try_push/pop/pop_if/insert/try_insert/remove/swap_remove, truncate/clear, resize/resize_with, extend_from_slice/extend_from_within/extend, append, split_off, drain with front/back consumption and forget, into_iter, clone, reserve(_exact)/shrink_to(_fit), drop) with indices/counts at 0, len-1, len, len+1 and ranges next to usize::MAX; after EVERY op: contents vs a Vec driven beside it, registry (no drop of an unknown/dead identity), allocator monitor; each step is replayed by coqc on the slot-level model comparing outcome, len/cap/ids/values of every vector, live set, the callback log verbatim, callback counter and allocator events. For this property (fault enumeration): every sequence is first run without injection to count its user callbacks, then re-run once per callback position k (all positions for the corpus and for short runs, 6 sampled positions for long random runs; thorough: all) with the k-th callback panicking; after catch_unwind the vectors are observed, the run continues (push/pop/...) and finally everything is dropped.",
 "assumptions": [
  "the model covers a 16-byte element type (no layout rounding: capacity policy of ThinVec = max(required, 2*cap), minimum 2); other element types are checked against Vec by the harness only",
  "a user panic while already unwinding aborts the process (Rust semantics): the environment's panic position cannot fire during unwinding, in the model and in the harness alike",
  "sources passed as slices are the caller's elements (never dropped by the vector); identities stay below 10^6 (small_world)"
 ],
 "trusted_base": [
  "modelled rather than verified: MaybeUninit slots as option-like slots, ptr::copy as slot copies, unwinding as explicit cleanup paths, ThinVec layout arithmetic as capacity arithmetic (layouts checked by the allocator monitor)",
  "the identity registry and tracking allocator of the harness"
 ]
}
