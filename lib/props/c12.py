SPEC = {
    "id": "C12",
    "level": "proof",
    "props": ["props/C12.vo"],
    "props_need_gen": ["props/C12.vo"],
    "gen_items": ["src/**:comparison, Hash and Borrow impl tables"],
    "tieA_required": True,
    "case_libs": ["theories/CasesCmp.vo"],
    "drivers": [{"driver": "cmp", "profiles": ["debug"]}],
    "exhaustive": True,
    "rule": ("all ordered pairs of byte strings of length <= 3 (thorough: 4) over {a, b, '/', '.'} plus 12 heap-sized variants with common prefixes; per pair: 50 (Hip type, std or Hip type) impl pairs in both operand "
             "orders (==, !=, partial_cmp, and == <=> partial_cmp == Equal), Ord of the four types, Hash equality of equal values (fixed-key SipHash), HashMap and BTreeMap lookups through each of the 7 Borrow "
             "impls, across backend combinations; oracle: std's answer on the std views (byte-wise, or Path's for path views). Std's answers for both kinds on every pair are evaluated by the Coq model "
             "(components / lexicographic order). distinct_nontrivial = model cases."),
    "assumptions": [
        "Unix paths (components model: root flag, empty and interior '.' dropped, '..' kept); Windows prefixes not modelled",
        "std's Hash for str/[u8]/OsStr/Path is modelled only as a hash CLASS (values hash equally for sure only within one class); std's own Eq/Hash coherence for Path is trusted",
        "the harness instantiates 50 representative (L, R) pairs by hand; the full table of 119 generated impls is covered by the Coq table theorem (kinds) only",
    ],
    "trusted_base": ["std as the oracle of comparisons"],
}
