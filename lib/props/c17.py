import glob, os, re
from concurrent.futures import ThreadPoolExecutor
import verif as V

def compile_corpus(tier, seed, only=None):
    """rustc's verdict on the client-program corpus: escape attempts and unchecked calls outside `unsafe` must be rejected,
    their twins must compile.  `only`: file-name prefix (C05 runs its own programs with it)."""
    res = {"evaluations": 0, "distinct_nontrivial": 0, "violations": [], "broken": [], "samples": [], "notes": []}
    ok, out = V.harness_build("debug")
    deps = os.path.join(V.TARGET, "debug", "deps")
    if not ok and not (only and glob.glob(os.path.join(deps, "libhipstr-*.rlib"))):
        res["broken"].append({"kind": "harness-build", "excerpt": out[-2000:]})
        return res
    rlibs = sorted(glob.glob(os.path.join(deps, "libhipstr-*.rlib")), key=os.path.getmtime)
    if not rlibs:
        res["broken"].append({"kind": "corpus", "excerpt": "libhipstr rlib not found"})
        return res
    rlib = rlibs[-1]
    outdir = os.path.join(V.CACHE, "api_corpus")
    os.makedirs(outdir, exist_ok=True)
    progs = sorted(glob.glob(os.path.join(V.HARNESS, "api_corpus", (only or "") + "*.rs")))
    def one(p):
        expect = re.search(r"// expect: (\w+)", open(p).read()).group(1)
        name = os.path.basename(p)[:-3]
        rc, o = V.sh(["rustc", "--edition", "2021", "--crate-type", "lib", "--emit", "metadata", "--cfg", "hipstr_verif", "-L", "dependency=" + deps,
                      "--extern", "hipstr=" + rlib, "-o", os.path.join(outdir, name + ".rmeta"), p], timeout=300)
        codes = sorted(set(re.findall(r"error\[(E\d+)\]", o)))
        return name, expect, rc, codes, o
    with ThreadPoolExecutor(max_workers=V.NCPU) as ex:
        results = list(ex.map(one, progs))
    BORROW = {"E0597", "E0515", "E0505", "E0716", "E0521", "E0499", "E0502", "E0506", "E0712", "E0713", "E0310", "E0308"}
    for name, expect, rc, codes, o in results:
        res["evaluations"] += 1
        res["distinct_nontrivial"] += 1
        res["samples"].append("%s: expect %s -> %s %s" % (name, expect, "accepted" if rc == 0 else "rejected", ",".join(codes)))
        if expect == "accept" and rc != 0 and name.startswith("c05_"):
            res["violations"].append({"what": "api corpus %s" % name, "observed": "rustc rejects the program (%s): an Arc- or Unique-backed value is not Send / Sync here" % ",".join(codes), "expected": "accepted: Send and Sync independently of the borrow lifetime",
                                      "program": open(os.path.join(V.HARNESS, "api_corpus", name + ".rs")).read(), "rustc": o[-800:]})
        elif expect == "accept" and rc != 0:
            res["broken"].append({"kind": "corpus", "program": name, "excerpt": "twin program no longer compiles: " + o[-600:]})
        elif expect == "reject" and rc == 0:
            what = "unchecked entry point callable from safe code" if name.startswith("unsafe_") else "a trait whose implementors the unchecked code trusts can be named or implemented by client code" if name.startswith("sealed_") else ("non-atomic counter value sent to another thread" if "send" in name else "borrowed data escapes its borrow")
            res["violations"].append({"what": "api corpus %s" % name, "observed": "rustc accepts the program (%s)" % what, "expected": "compile error",
                                      "program": open(os.path.join(V.HARNESS, "api_corpus", name + ".rs")).read()})
        elif expect == "reject":
            want = {"E0277"} if name.startswith("c05_") else {"E0133"} if name.startswith("unsafe_") else {"E0603", "E0433", "E0432", "E0405", "E0277", "E0046"} if name.startswith("sealed_") else ({"E0277"} if "send" in name else BORROW)
            if not (set(codes) & want):
                res["broken"].append({"kind": "corpus", "program": name, "excerpt": "rejected for an unexpected reason %s: %s" % (codes, o[-400:])})
    return res

SPEC = {
    "id": "C17",
    "level": "proof",
    "props": ["props/C17.vo"],
    # (b) "every safe counterpart validates its arguments": the checked entry points and the transformers behind them are the ones the
    # model describes (transfer lemmas over today's source)
    "tie": ["props/C17_tieA.vo", "tie/StrEquiv.vo", "tie/EditEquiv.vo", "tie/HandleEquiv.vo", "tie/ReprEquiv.vo", "props/C10_tieA.vo"],
    "gen_items": ["src/**:pub fn table", "src/bytes.rs + src/string.rs:try_slice / slice / truncate (checked entry points)",
                  "src/bytes.rs:truncate pop shrink_to push_slice push clear repeat with_capacity as_mut_* to_mut_slice; raw.rs:make_unique take_vec; allocated.rs:shrink_to as_mut_*",
                  "src/bytes/raw/allocated.rs:slice_unchecked + explicit_clone", "src/bytes/raw.rs:range_unchecked + from_slice + normalized_from_vec", "src/bytes.rs:concat / join structure"],
    "tieA_required": True,
    "drivers": [{"driver": "adversary", "profiles": ["debug", "release"]}, {"driver": "codec", "profiles": ["debug"]},
                {"driver": "concat", "profiles": ["release"]}, {"driver": "bytes", "profiles": ["release"], "args": ["str", "focus=utf8"]}],
    "case_libs": ["theories/CasesCodec.vo", "theories/CasesConcat.vo", "theories/CasesBytes.vo"],
    "custom": compile_corpus,
    "exhaustive": True,
    "rule": ("(a) every `pub fn` of /repo/src (test modules excluded) with its `unsafe` qualifier, `# Safety` doc section and `_unchecked` suffix, re-read on every run (complete enumeration of a "
             "finite domain); (b) a corpus of client programs compiled by rustc against the library built from the working tree: escape attempts through borrowed+clone, slice, try_slice, slice_ref, "
             "split, trim, split_once, as_borrowed, into_borrowed, mutate guard, as_str, HipPath/HipOsStr, Cow, to_ascii_*, each with a twin using into_owned that must compile; naming / implementing the sealed traits (pattern traits incl. the full smuggling exploit, Vector, MutVector, Backend); calls of every "
             "unchecked entry point outside `unsafe`; Rc-backed value sent to a thread; (c) `adversary` driver: the safe range-taking entry points (HipByt/HipStr slice, try_slice; ThinVec/InlineVec drain, extend_from_within) called with safe-code "
             "RangeBounds implementations whose answers change between queries, in debug and release. distinct_nontrivial = programs compiled + adversarial calls."),
    "assumptions": [
        "(a) is a textual criterion: an entry point that trusts its caller is recognised by its `# Safety` section or `_unchecked` suffix; a function that trusts its caller silently is outside this criterion and is covered only through the operation-level theorems of the Bytes/Vec machines (every SAFE operation keeps the invariant for ALL arguments)",
        "soundness of Rust's borrow checker and type system is trusted; the corpus tests that the SIGNATURES make rustc reject the escapes",
    ],
    "trusted_base": ["rustc as the oracle of (b)"],
}
