SPEC = {
    "id": "C08",
    "level": "proof",
    "props": ["props/C08.vo"],
    "tie": ["props/C08_tieA.vo", "tie/StrEquiv.vo"],
    "gen_items": ["src/bytes.rs:simplify_range_mono", "src/common.rs:range_mono", "src/bytes/raw.rs:try_range_of", "src/bytes.rs + src/string.rs:try_slice / slice / truncate (checked entry points)"],
    "tieA_required": True,
    "case_libs": ["theories/CasesRange.vo"],
    "drivers": [{"driver": "range", "profiles": ["debug", "release"]}],
    "exhaustive": True,
    "rule": ("exhaustive boundary lattice: {Included,Excluded,Unbounded}^2 x values {0,1,len-1,len,len+1,isize::MAX,isize::MAX+1,usize::MAX-1,usize::MAX "
             "(+ interior positions of multi-byte chars for HipStr)} x len in {0,1,5,23,24,40} (thorough: 11 lengths) x {inline,borrowed,heap,heap-offset,"
             "non-normalised heap} x {Arc,Rc,Unique} x {HipByt,HipStr} x {debug,release}; slice_ref probes: every/strided in-range (offset,len), adjacent, "
             "straddling, foreign, empty-at-boundary; drain/extend_from_within on InlineVec<u8,16>/ThinVec<u8> vs Vec. "
             "distinct_nontrivial = number of distinct (content, range, outcome) cases after de-duplication across representations/backends; "
             "each is evaluated by the Coq model too. Every case sits on a verdict boundary by construction."),
    "assumptions": [
        "len <= isize::MAX for every slice (Rust allocation invariant) -- hypothesis of every C08 theorem",
        "slice() is `match try_slice() { Ok(r) => r, Err(e) => panic!(..) }` (src/bytes.rs:624-629, src/string.rs:516-521): checked by the harness on every case, not proved",
        "HipStr::try_slice (boundary tests) is modelled by hand in StrRange.v and tied by correspondence only (no translator)",
    ],
    "trusted_base": [
        "modelled rather than verified: pointers as addresses in N (try_range_of); the unsafe range_unchecked that consumes the normalised range is covered by C01/C03, not here",
    ],
}
