def _corpus(tier, seed):
    import importlib.util, os
    sp = importlib.util.spec_from_file_location('c17', os.path.join(os.path.dirname(__file__), 'c17.py')); m = importlib.util.module_from_spec(sp); sp.loader.exec_module(m)
    return m.compile_corpus(tier, seed, only="c05_")

SPEC = {
    "custom": _corpus,
    "id": "C05",
    "level": "proof",
    "props": ["props/C05.vo"],
    "props_need_gen": ["props/C05.vo"],
    "gen_items": ["src/**:struct fields + unsafe impl Send/Sync"],
    "tieA_required": True,
    "case_libs": ["theories/CasesTraits.vo", "gen/TypeEnv.vo"],
    "drivers": [{"driver": "traits", "profiles": ["debug"]}],
    "exhaustive": True,
    "rule": ("rustc's verdict T: Send / T: Sync (autoref-specialisation probes compiled into the harness against the working tree) for 16 types (HipByt, HipStr, HipOsStr, HipPath, their four "
             "RefMut guards, both SliceError types, FromUtf8Error, the IterWrapper returned by split, and Option/Vec/&/tuple of them) x {Arc, Rc, Unique} x {Send, Sync} x {a local borrow lifetime, "
             "'static} = 192 verdicts, each compared with the model's derivation `holds` over the environment regenerated from the struct definitions and unsafe impl headers; the finite domain is "
             "enumerated completely. Also size_of::<Option<T>>() == size_of::<T>() == 24 for the 12 type x backend pairs. distinct_nontrivial = verdicts compared. Plus client programs compiled by rustc (harness/api_corpus/c05_*): values borrowing LOCAL data moved to / shared with scoped threads must compile for Arc and Unique (the probes cannot see an impl that holds for 'static only) and be rejected (E0277) for Rc, iterators included."),
    "assumptions": [
        "the auto-trait rules of `holds` (fields, &T, &mut T, Cell, raw pointers, explicit impls with bounds) are a model of rustc's, validated by the 192 probes; negative impls and dyn are not modelled (the crate has none)",
        "moving or sharing a value across threads in safe Rust requires Send / Sync (std's spawn/scope/channels/Arc/Mutex bounds): the 'consequently' clause rests on that",
        "if the translator cannot read a struct or impl header the theorem about today's environment is unavailable; rustc's probes then decide alone (noted in the evidence)",
    ],
    "trusted_base": ["rustc's trait solver as the oracle"],
}
