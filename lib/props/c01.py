SPEC = {
    "id": "C01",
    "level": "proof",
    "props": ["props/C01.vo"],
    # the transformers of the Bytes machine that are read off today's source (Tie A): a change of one of these functions breaks the
    # transfer lemma (or makes the item unavailable) before any input is searched for
    "tie": ["tie/HandleEquiv.vo", "tie/CorePinned.vo", "tie/ReprEquiv.vo", "tie/EditEquiv.vo"],
    "gen_items": ["src/bytes/raw/allocated.rs:slice_unchecked + explicit_clone", "src/bytes/raw*.rs + src/smart.rs:pinned bodies", "src/bytes/raw.rs:range_unchecked + from_slice + normalized_from_vec",
                  "src/bytes.rs:truncate pop shrink_to push_slice push clear repeat with_capacity as_mut_* to_mut_slice; raw.rs:make_unique take_vec; allocated.rs:shrink_to as_mut_*"],
    "tieA_required": True,
    "case_libs": ["theories/CasesBytes.vo"],
    "drivers": [{"driver": "bytes", "profiles": ["debug", "release"], "args": ["all", "focus=content"]}],
    "rule": ("corpus of fixed histories (the refuted witnesses of DESIGN.md section 7 first) + seeded structured-random histories of 15-75 ops over pools of up to ~6 handles "
             "(constructors incl. with_capacity/borrowed/from_vec, clone, slice/try_slice with boundary bounds, slice_ref, push/push_slice/pop/truncate/clear, shrink_to(_fit), "
             "as_mut/to_mut writes, make/to_ascii, repeat, mutate scripts incl. leaked guards, into_owned/into_vec/Vec::from/into_borrowed, force/restore count, drop), each closed by "
             "dropping everything; x {HipByt, HipStr} x {Arc, Rc, Unique} x {debug, release}. After EVERY op the harness re-reads EVERY live handle and compares bytes/len with a std "
             "shadow value (oracle) and prints tag, owner identity, offset, stored count, Vec len/capacity, is_normalized and allocator counters, which coqc compares with the model "
             "step by step. evaluations = ops executed; distinct_nontrivial = histories in which at least one heap-backed handle was live (shared/offset/non-normalised states arise in them)."),
    "assumptions": [
        "arguments typed &str/char are well-formed (Rust's type invariant on the caller side)",
        "Display/Debug text is std's formatter applied to the view (hipstr delegates: src/bytes.rs:1515-1523, string.rs); delegation is exercised by the harness via as_str()/as_slice() equality only",
        "HipOsStr/HipPath are thin wrappers over the same HipByt machine (Unix: OsStr = arbitrary bytes); their wrappers are exercised by the C12/C16 drivers, not by this one",
        "debug assertions of the implementation are not modelled one by one: the model has no debug/release switch, the std-level spec has none either, and the same model is compared with debug and release builds",
    ],
    "trusted_base": [
        "modelled rather than verified: pointer arithmetic and unsafe blocks as index arithmetic on blocks; the pivot/union layout as a tagged representation; Vec<u8> growth as RawVec::grow_amortized (compared exactly with the implementation)",
        "hooks in /repo (cfg hipstr_verif): verif_repr / verif_force_count / verif_bytes read or set the representation",
    ],
}
