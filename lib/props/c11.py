SPEC = {
    "id": "C11",
    "level": "proof",
    "props": ["props/C11.vo"],
    "props_need_gen": ["props/C11.vo"],
    "gen_items": ["src/string.rs + pattern.rs:str-API wrapper table"],
    "tieA_required": True,
    "drivers": [{"driver": "strapi", "profiles": ["debug", "release"]},
                {"driver": "bytes", "profiles": ["debug"], "args": ["str", "focus=sharing"]}],
    "case_libs": ["theories/CasesBytes.vo"],
    "exhaustive": True,
    "rule": ("every method (trim*, split*, rsplit*, splitn/rsplitn with n = 0..3, split_once/rsplit_once, matches/rmatches, match_indices/rmatch_indices, trim_*matches, strip_prefix/suffix, split_whitespace, "
             "split_ascii_whitespace, lines, to_lowercase/uppercase, to_ascii_*, from_utf16(_lossy)) x every haystack of length <= 3 (thorough: 4) over {a, b, ' ', '\\n', e-acute, crab, \"\\r\\n\"} plus longer ones x "
             "patterns {char x3, &str x4 incl. empty and overlapping, &String, &[char], &[char; 2], closure} x {forward, backward, mixed next/next_back} x {borrowed, inline, heap} x 3 backends; oracle: the std method "
             "on as_str(), item for item and index for index; each piece: is_borrowed iff the source is (and then inside the source's memory), normalised; pieces re-read after the source was pushed to, upper-cased, "
             "truncated and dropped. The adoption step itself (slice_ref of a sub-range = OSliceRef) is compared with the Coq machine by the bytes driver on HipStr histories. distinct_nontrivial = haystacks."),
    "assumptions": ["std's str methods return sub-slices of their argument (std's contract): item-for-item equality with std is by construction (same std call) plus the adoption theorem, not a theorem about str::split",
                    "the wrapper table recognises the wrappers by shape (std call on self.as_str(), adoption through slice_ref_unchecked / IterWrapper); an unrecognised wrapper makes the table unavailable, the harness then decides alone"],
    "trusted_base": ["std's searchers are not modelled"],
}
