SPEC = {
    "id": "C16",
    "level": "proof",
    "props": ["props/C16.vo"],
    "case_libs": ["theories/CasesCodec.vo"],
    "drivers": [{"driver": "codec", "profiles": ["debug", "release"]}],
    "rule": ("borsh: for boundary values (empty, 1, multi-byte text, 23, 24, 100 bytes, ill-formed UTF-8) x {HipByt, HipStr} x 3 backends: serialisation equal to Vec<u8>/str, every truncation of every valid "
             "encoding near both ends (and every 7th in between), trailing data, length prefixes far larger than the payload (up to u32::MAX), with the largest single allocation request recorded by the allocator "
             "monitor; oracle: Vec<u8>/String reading the same input. serde: a one-token deserializer drives every visitor method (str, borrowed_str, string, bytes, borrowed_bytes, byte_buf, seq, other) of the owned "
             "and borrowing visitors with valid and ill-formed payloads; serde_json round trips (incl. escapes forcing buffered strings, truncated JSON) for HipStr/HipByt/HipOsStr/HipPath and from what "
             "String/Vec<u8>/OsString/PathBuf serialise to. Every borsh input and every token case is also evaluated by the Coq model. distinct_nontrivial = distinct (input/token, outcome) cases."),
    "assumptions": ["serde_json / borsh / serde itself are trusted token and byte sources; string tokens carry well-formed text by serde's typing (token_wf)",
                    "HipOsStr/HipPath delegate to OsString/PathBuf (de)serialisation (std/serde) and are checked by round trip only",
                    "the allocation bound of the model is max(4096, 2 x bytes read): std's amortised Vec growth"],
    "trusted_base": ["modelled rather than verified: io::Read as a byte list; the visitor dispatch of serde as one token -> one visit_* call"],
}
