def _loom(tier, seed):
    import importlib.util, os
    sp = importlib.util.spec_from_file_location('c04', os.path.join(os.path.dirname(__file__), 'c04.py')); m = importlib.util.module_from_spec(sp); sp.loader.exec_module(m)
    return m.loom_suite(tier, seed, only='sharing_', expected='a clone made while other threads clone or drop shares the buffer (no copy, no allocation)')

SPEC = {
    "custom": _loom,
    "tie": ["props/C07_tieA.vo", "tie/HandleEquiv.vo", "tie/CorePinned.vo", "tie/ReprEquiv.vo", "tie/EditEquiv.vo"],
    "gen_items": ["src/vecs/inline.rs + src/bytes/raw.rs:tag arithmetic", "src/bytes/raw/allocated.rs:slice_unchecked + explicit_clone", "src/bytes/raw*.rs + src/smart.rs:pinned bodies", "src/bytes/raw.rs:range_unchecked + from_slice + normalized_from_vec", "src/bytes.rs:truncate pop shrink_to push_slice push clear repeat with_capacity as_mut_* to_mut_slice; raw.rs:make_unique take_vec; allocated.rs:shrink_to as_mut_*"],
    "tieA_required": True,
 "id": "C07",
 "level": "proof",
 "props": [
  "props/C07.vo"
 ],
 "case_libs": [
  "theories/CasesBytes.vo"
 ],
 "drivers": [
  {
   "driver": "bytes",
   "profiles": [
    "debug",
    "release"
   ],
   "args": [
    "all",
    "focus=repr"
   ]
  }
 ],
 "rule": "histories of the Bytes machine on the real implementation (corpus + seeded structured-random, HipByt and HipStr, Arc/Rc/Unique, debug+release); after EVERY op every live handle is re-read and its hook-level representation (tag, owner identity, offset, stored count, Vec len/cap, normalised flag) and the allocator counters are compared with the model by coqc. For this property additionally the sweep: every constructor (from slice, from Vec with 0 and 9 spare, borrowed, with_capacity + push, try_inline) x every length 0..=64 (thorough: also 255, 256, 4096) followed by clone of each, long/short slices, clear, into_vec before/after dropping the clone, shrink_to_fit, truncate. Oracle: is_inline/is_borrowed/is_allocated/is_normalized, as_ptr identity (owner identity + offset), capacity() >= len(), allocator event counts per op (zero for clone/slice/borrow).",
 "assumptions": [
  "size_of::<Option<Hip*>>() == size_of::<Hip*>() == 24 is rustc's layout decision: observed by the harness (C12/C16 drivers build Option values), only the non-zero tag byte is proved"
 ],
 "trusted_base": [
  "modelled rather than verified: pointer arithmetic and unsafe blocks as index arithmetic on blocks; the pivot/union layout as a tagged representation; Vec<u8> growth as RawVec::grow_amortized (compared exactly with the implementation)",
  "hooks in /repo (cfg hipstr_verif): verif_repr / verif_force_count / verif_bytes read or set the representation; the tracking global allocator of the harness"
 ]
}
