def _loom(tier, seed):
    import importlib.util, os
    sp = importlib.util.spec_from_file_location('c04', os.path.join(os.path.dirname(__file__), 'c04.py')); m = importlib.util.module_from_spec(sp); sp.loader.exec_module(m)
    return m.loom_suite(tier, seed, only='ceiling_', expected='at the ceiling every clone is a private copy, exclusive access is never granted, the count never wraps')

SPEC = {
    "custom": _loom,
 "id": "C09",
 "level": "proof",
 "props": [
  "props/C09.vo"
 ],
 "case_libs": [
  "theories/CasesBytes.vo",
  "theories/CasesCounter.vo"
 ],
 "drivers": [
  {
   "driver": "bytes",
   "profiles": [
    "debug",
    "release"
   ],
   "args": [
    "all",
    "focus=ceiling"
   ]
  },
  {
   "driver": "counter",
   "profiles": [
    "debug",
    "release"
   ]
  }
 ],
 "rule": "histories of the Bytes machine on the real implementation (corpus + seeded structured-random, HipByt and HipStr, Arc/Rc/Unique, debug+release); after EVERY op every live handle is re-read and its hook-level representation (tag, owner identity, offset, stored count, Vec len/cap, normalised flag) and the allocator counters are compared with the model by coqc. For this property the force-count hook drives owner blocks to ceiling-k (k in 0..2) in every non-Unique history; clones/slices (lengths around the inline limit) are taken there, the source is dropped, pieces are re-read; Unique histories run without the hook. Plus the counter driver: Kind::{incr via clone, get, is_unique} from stored states {0,1,2,5,MAX-4..MAX-1}. Oracle: content of the copy after dropping the original, owner identity distinct from the source's, allocator block containing the view.",
 "assumptions": [
  "OForceCount is a test hook; the model's phantom-share accounting is meaningful under the side condition force_ok (k + handles <= usize::MAX), see theories/BytesCounterexample.v"
 ],
 "trusted_base": [
  "modelled rather than verified: pointer arithmetic and unsafe blocks as index arithmetic on blocks; the pivot/union layout as a tagged representation; Vec<u8> growth as RawVec::grow_amortized (compared exactly with the implementation)",
  "hooks in /repo (cfg hipstr_verif): verif_repr / verif_force_count / verif_bytes read or set the representation; the tracking global allocator of the harness"
 ],
 "tieA_required": True,
 "tie": [
  "tie/CounterEquiv.vo",
  "tie/HandleEquiv.vo", "tie/CorePinned.vo"
 ],
 "gen_items": [
  "src/bytes/raw/allocated.rs:slice_unchecked + explicit_clone", "src/bytes/raw*.rs + src/smart.rs:pinned bodies",
  "src/smart.rs:impl Kind for Rc::incr",
  "src/smart.rs:impl Kind for Rc::decr",
  "src/smart.rs:impl Kind for Rc::get",
  "src/smart.rs:impl Kind for Unique::incr",
  "src/smart.rs:impl Kind for Unique::decr",
  "src/smart.rs:impl Kind for Unique::get"
 ]
}
