"""Shared machinery for bin/check: Tie A regeneration, Coq build + audit, harness build/run,
case evaluation in coqc, evidence/replay writing.  See DESIGN.md sections 3-5 and 9."""
import fcntl, glob, hashlib, json, os, re, shutil, subprocess, sys, time
from concurrent.futures import ThreadPoolExecutor

ROOT = os.path.dirname(os.path.dirname(os.path.abspath(__file__)))
REPO = os.environ.get("VERIF_REPO", "/repo")
COQ = os.path.join(ROOT, "coq")
CACHE = os.path.join(ROOT, ".cache")
TARGET = os.path.join(CACHE, "target")
HARNESS = os.path.join(ROOT, "harness")
NCPU = os.cpu_count() or 4

FORBIDDEN = re.compile(r"\b(Admitted|admit|Axiom|Axioms|Parameter|Parameters|Conjecture|Conjectures|Hypothesis|Hypotheses|Variable|Variables)\b|Unset\s+Guard|bypass_check|Admit\s+Obligations|-type-in-type|-impredicative-set|Unset\s+Universe\s+Checking|Unset\s+Positivity")
# std-library axioms that may legitimately appear in Print Assumptions (named in the trusted base when they do)
AXIOM_ALLOW = {
    "functional_extensionality_dep", "FunctionalExtensionality.functional_extensionality_dep",
    "Eqdep.Eq_rect_eq.eq_rect_eq", "eq_rect_eq", "JMeq_eq", "JMeq.JMeq_eq",
    "Classical_Prop.classic", "classic", "proof_irrelevance", "ProofIrrelevance.proof_irrelevance",
    "propositional_extensionality", "PropExtensionality.propositional_extensionality",
}

def log(*a):
    print(*a, file=sys.stderr, flush=True)

class Lock:
    def __init__(self, name):
        os.makedirs(CACHE, exist_ok=True)
        self.path = os.path.join(CACHE, name + ".lock")
    def __enter__(self):
        self.f = open(self.path, "w")
        fcntl.flock(self.f, fcntl.LOCK_EX)
    def __exit__(self, *a):
        fcntl.flock(self.f, fcntl.LOCK_UN)
        self.f.close()

def sh(cmd, cwd=None, timeout=1800, env=None, input=None):
    e = dict(os.environ)
    e.update({"CARGO_NET_OFFLINE": "true", "CARGO_TARGET_DIR": TARGET})
    if env:
        e.update(env)
    try:
        p = subprocess.run(cmd, cwd=cwd, env=e, stdout=subprocess.PIPE, stderr=subprocess.STDOUT, timeout=timeout,
                           shell=isinstance(cmd, str), input=input, text=True, errors="replace")
        return p.returncode, p.stdout
    except subprocess.TimeoutExpired as ex:
        out = ex.stdout if isinstance(ex.stdout, str) else (ex.stdout or b"").decode(errors="replace")
        return 124, (out or "") + "\n[timeout after %ss]" % timeout

# ------------------------------------------------------------------ Tie A
def regenerate():
    """Re-run the translator on /repo's working tree.  Returns its status dict."""
    with Lock("coq"):
        rc, out = sh([sys.executable, os.path.join(ROOT, "translator", "gen.py"), REPO, os.path.join(COQ, "gen")], timeout=300)
    try:
        return json.loads(out)
    except Exception:
        return {"items": {"translator": "unavailable: crashed: " + out[-400:]}, "files": {}}

# ------------------------------------------------------------------ Coq
def coq_makefile():
    """(Re)generate coq/Makefile from the files of _CoqProject that exist now: a generated file the translator could not
    produce must not break the build of unrelated targets."""
    proj = os.path.join(COQ, "_CoqProject")
    eff = os.path.join(COQ, "_CoqProject.effective")
    mk = os.path.join(COQ, "Makefile")
    lines = []
    for ln in open(proj).read().splitlines():
        t = ln.strip()
        if t.endswith(".v") and not t.startswith("-") and not os.path.exists(os.path.join(COQ, t)):
            continue
        lines.append(ln)
    text = "\n".join(lines) + "\n"
    if not os.path.exists(eff) or open(eff).read() != text or not os.path.exists(mk):
        open(eff, "w").write(text)
        sh("coq_makefile -f _CoqProject.effective -o Makefile", cwd=COQ, timeout=120)

def coq_build(targets, timeout=1500):
    """make the given .vo targets (full build, never -vos).  Returns (ok, output)."""
    with Lock("coq"):
        coq_makefile()
        rc, out = sh(["make", "-j%d" % NCPU, "-k"] + targets, cwd=COQ, timeout=timeout)
    return rc == 0, out

def coq_failed_files(out):
    return sorted(set(re.findall(r'File "\./([^"]+)", line \d+', out)))

def coq_error_excerpt(out, limit=1500):
    m = re.search(r'File "\./[^"]+", line \d+.*', out, re.S)
    return (m.group(0) if m else out)[-limit:] if not m else m.group(0)[:limit]

def audit_sources(files):
    """Forbidden-word audit over the given .v files (comments stripped)."""
    bad = []
    for f in files:
        try:
            src = open(f).read()
        except OSError:
            continue
        src = strip_coq_comments(src)
        for m in FORBIDDEN.finditer(src):
            word = m.group(0)
            # Variable/Hypothesis are allowed only inside a Section
            if re.match(r"(Variable|Variables|Hypothesis|Hypotheses)$", word) and inside_section(src, m.start()):
                continue
            line = src.count("\n", 0, m.start()) + 1
            bad.append("%s:%d: %s" % (os.path.relpath(f, ROOT), line, word))
    return bad

def strip_coq_comments(src):
    out, depth, i, n = [], 0, 0, len(src)
    while i < n:
        if src.startswith("(*", i):
            depth += 1; i += 2
        elif src.startswith("*)", i) and depth:
            depth -= 1; i += 2
        else:
            if depth == 0:
                out.append(src[i])
            elif src[i] == "\n":
                out.append("\n")
            i += 1
    return "".join(out)

def inside_section(src, pos):
    opened = len(re.findall(r"^\s*Section\s+\w+", src[:pos], re.M))
    closed = 0
    for m in re.finditer(r"^\s*End\s+(\w+)\s*\.", src[:pos], re.M):
        if re.search(r"^\s*Section\s+%s\b" % re.escape(m.group(1)), src[:m.start()], re.M):
            closed += 1
    return opened > closed

def all_v_files():
    fs = []
    for d in ("theories", "props", "tie", "gen"):
        fs += glob.glob(os.path.join(COQ, d, "*.v"))
    return fs

def deps_of(vfile, seen=None):
    """Transitive project-local dependencies of a .v file (by Require lines)."""
    seen = seen if seen is not None else set()
    if vfile in seen or not os.path.exists(vfile):
        return seen
    seen.add(vfile)
    src = strip_coq_comments(open(vfile).read())
    for m in re.finditer(r"From\s+(Hip|HipGen|HipTie|HipProps)\s+Require\s+(?:Import|Export)?\s*([^.]+)\.", src):
        d = {"Hip": "theories", "HipGen": "gen", "HipTie": "tie", "HipProps": "props"}[m.group(1)]
        for name in m.group(2).split():
            deps_of(os.path.join(COQ, d, name + ".v"), seen)
    return seen

def parse_assumptions(out):
    """From make/coqc output: list of per-Print-Assumptions results: 'closed' or list of axioms."""
    res = []
    lines = out.splitlines()
    i = 0
    while i < len(lines):
        ln = lines[i].strip()
        if ln.startswith("Closed under the global context"):
            res.append([])
        elif ln.startswith("Axioms:"):
            ax = []
            i += 1
            while i < len(lines) and lines[i].strip() and not lines[i].startswith(("COQC", "Closed", "Axioms:", "make", "File")):
                m = re.match(r"\s*([A-Za-z_][\w.']*)\s*:", lines[i])
                if m:
                    ax.append(m.group(1))
                i += 1
            res.append(ax)
            continue
        i += 1
    return res

def print_assumptions_of(vofile_src, timeout=600):
    """Re-run coqc on a props file to capture its Print Assumptions output (make only prints on rebuild)."""
    rel = os.path.relpath(vofile_src, COQ)
    args = ["coqc", "-noglob", "-Q", "theories", "Hip", "-Q", "gen", "HipGen", "-Q", "tie", "HipTie", "-Q", "props", "HipProps",
            "-w", "-notation-overridden,-deprecated-hint-without-locality,-deprecated-instance-without-locality,-ambiguous-paths",
            "-o", os.path.join(CACHE, "pa", os.path.basename(rel) + "o"), rel]
    os.makedirs(os.path.join(CACHE, "pa"), exist_ok=True)
    with Lock("coq"):
        rc, out = sh(args, cwd=COQ, timeout=timeout)
    return rc, out

def count_obligations(vfiles):
    """Number of Theorem/Lemma/Corollary/Example statements in the given files."""
    n, names = 0, []
    for f in vfiles:
        if not os.path.exists(f):
            continue
        src = strip_coq_comments(open(f).read())
        for m in re.finditer(r"^\s*(?:Theorem|Lemma|Corollary|Example|Fact|Proposition)\s+([\w']+)", src, re.M):
            n += 1
            names.append(os.path.basename(f)[:-2] + "." + m.group(1))
    return n, names

# ------------------------------------------------------------------ harness
def harness_build(profile):
    if not os.path.exists(os.path.join(HARNESS, "Cargo.lock")):
        shutil.copy(os.path.join(REPO, "Cargo.lock"), os.path.join(HARNESS, "Cargo.lock"))
    cmd = ["cargo", "build", "--offline", "--quiet"] + (["--release"] if profile == "release" else [])
    with Lock("cargo"):
        rc, out = sh(cmd, cwd=HARNESS, timeout=1500, env={"RUSTFLAGS": "--cfg hipstr_verif"})
    return rc == 0, out

def harness_bin(profile):
    return os.path.join(TARGET, profile, "hipverif")

def run_harness(profile, driver, outdir, tier, seed, extra=(), timeout=1500, env=None):
    os.makedirs(outdir, exist_ok=True)
    crumb = os.path.join(outdir, "breadcrumb_%s_%s.txt" % (driver, profile))
    if os.path.exists(crumb):
        os.remove(crumb)
    env = dict(env or {}); env["VERIF_BREADCRUMB"] = crumb
    rc, out = sh([harness_bin(profile), driver, "--out", outdir, "--tier", tier, "--seed", str(seed)] + list(extra), timeout=timeout, env=env)
    last = out.strip().splitlines()[-1] if out.strip() else ""
    try:
        return rc, json.loads(last), out
    except Exception:
        where = open(crumb).read() if os.path.exists(crumb) else ""
        return rc if rc else 1, None, out[-1500:] + ("\n[last case] " + where if where else "")

# ------------------------------------------------------------------ model evaluation of case files
def run_case_files(outdir, files, timeout=900):
    """coqc each case file (they end in `Eval vm_compute in (bad_indices ...)`); returns list of (file, bad index list | 'error', text)."""
    def one(f):
        rc, out = sh(["coqc", "-noglob", "-Q", os.path.join(COQ, "theories"), "Hip", "-Q", os.path.join(COQ, "gen"), "HipGen", f], cwd=outdir, timeout=timeout)
        if rc != 0:
            return (f, "error", out[-1500:])
        flat = " ".join(out.split())
        m = re.search(r"=\s*\[(.*?)\]\s*:\s*list", flat)
        if not m:
            return (f, "error", out[-1500:])
        body = m.group(1).strip()
        if not body:
            return (f, [], "")
        idx = []
        for x in body.split(";"):
            nums = [int(n) for n in re.findall(r"\d+", x)]
            if nums:
                idx.append(nums[0] if len(nums) == 1 else tuple(nums))
        return (f, idx, "")
    with ThreadPoolExecutor(max_workers=NCPU) as ex:
        return list(ex.map(one, files))

def case_text(outdir, f, idx):
    """The idx-th case line of a case file (for (case, step) pairs: the step of a multi-line case)."""
    if isinstance(idx, tuple):
        try:
            src = open(os.path.join(outdir, f)).read()
            case = src.split("BCase ")[1:][idx[0]]
            steps = case.split("BStep ")[1:]
            return "case %d step %d: ... %s" % (idx[0], idx[1], " | ".join(" ".join(x.split())[:400] for x in steps[max(0, idx[1] - 3):idx[1] + 1]))
        except Exception:
            return "case %s" % (idx,)
    lines = [l.strip().rstrip(";") for l in open(os.path.join(outdir, f)).read().split("Definition cases := [\n", 1)[1].split("\n].", 1)[0].splitlines()]
    return lines[idx] if idx < len(lines) else "?"

# ------------------------------------------------------------------ reporting
def known_findings():
    p = os.path.join(ROOT, "known_findings.json")
    if not os.path.exists(p):
        return []
    return json.load(open(p))

def write_replay(prop, name, payload):
    d = os.path.join(ROOT, "replay")
    os.makedirs(d, exist_ok=True)
    p = os.path.join(d, "%s_%s.json" % (prop, name))
    payload = dict(payload)
    payload["property"] = prop
    json.dump(payload, open(p, "w"), indent=1)
    return p

def write_evidence(prop, tier, seed, level, coverage, assumptions, wall, violations):
    d = os.path.join(ROOT, "evidence")
    os.makedirs(d, exist_ok=True)
    ev = {"property_id": prop, "tier": tier, "seed": seed, "level": level, "coverage": coverage,
          "assumptions": assumptions, "wall_s": round(wall, 2), "violations": violations}
    json.dump(ev, open(os.path.join(d, prop + ".json"), "w"), indent=1)
    return ev

TRUSTED_BASE_COMMON = [
    "Coq 8.16.1 kernel (vm_compute used in *_refuted witnesses, finite-table checks and the evaluation of case files; native_compute not used)",
    "translator/rs2v.py + translator/gen.py (Tie A): Rust-subset reader producing coq/gen/*.v",
    "harness (Rust): drivers, generators, oracles; lib/verif.py + bin/check orchestration and output parsing",
    "rustc/cargo toolchain and std as the property oracle (checked indexing, Vec, str, Path, hashing)",
    "Rust allocation invariant: slice lengths <= isize::MAX and objects do not wrap the address space",
]
