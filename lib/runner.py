"""Generic per-property flow (DESIGN.md section 9):
regenerate gen/ from /repo -> build the property's theorems (+ transfer lemmas) -> audit -> build harness from /repo ->
run drivers (implementation vs property oracle; case files for the model) -> evaluate case files in coqc -> verdict + evidence."""
import json, os, re, sys, time
import verif as V

def run(spec, tier, seed, replay=None):
    t0 = time.time()
    pid = spec["id"]
    notes, broken_obl, broken_corr = [], [], []
    # ---------------------------------------------------------------- Tie A
    tie = V.regenerate()
    tie_items = tie.get("items", {})
    gen_ok = all(str(tie_items.get(k, "")).startswith("translated") for k in spec.get("gen_items", []))
    tie_status = {k: tie_items.get(k, "unavailable: not produced") for k in spec.get("gen_items", [])}
    tieA_required = spec.get("tieA_required", False)
    if spec.get("gen_items") and not gen_ok:
        notes.append("tieA unavailable for: " + ", ".join(k for k, v in tie_status.items() if not str(v).startswith("translated")))
        if tieA_required:
            broken_obl.append({"kind": "translation", "detail": tie_status})
    # ---------------------------------------------------------------- Coq
    targets = list(spec.get("props", []))
    if gen_ok:
        targets += spec.get("tie", [])
    elif spec.get("props_need_gen"):
        targets = [t for t in targets if t not in spec["props_need_gen"]]
    ok, out = V.coq_build(targets)
    coq_out = out
    if not ok:
        failed = V.coq_failed_files(out)
        broken_obl.append({"kind": "proof", "files": failed, "excerpt": V.coq_error_excerpt(out)})
    vfiles = [os.path.join(V.COQ, t[:-1]) for t in targets]   # .vo -> .v
    deps = set()
    for f in vfiles:
        V.deps_of(f, deps)
    bad_words = V.audit_sources(sorted(deps))
    if bad_words:
        broken_obl.append({"kind": "audit", "detail": bad_words})
    axioms_seen = set()
    pa_count = 0
    if ok:
        for f in vfiles:
            rc, pout = V.print_assumptions_of(f)
            if rc != 0:
                broken_obl.append({"kind": "proof", "files": [os.path.relpath(f, V.COQ)], "excerpt": V.coq_error_excerpt(pout)})
                continue
            for ax in V.parse_assumptions(pout):
                pa_count += 1
                for a in ax:
                    axioms_seen.add(a)
                    if a not in V.AXIOM_ALLOW and a.split(".")[-1] not in V.AXIOM_ALLOW:
                        broken_obl.append({"kind": "axiom", "detail": a, "file": os.path.relpath(f, V.COQ)})
    # thorough tier: the independent checker re-checks the compiled property files and everything they depend on
    if ok and tier == "thorough":
        mods = []
        for t in targets:
            d, b = t.split("/")[0], os.path.basename(t)[:-3]
            mods.append({"props": "HipProps", "tie": "HipTie", "theories": "Hip", "gen": "HipGen"}[d] + "." + b)
        rc, cout = V.sh(["coqchk", "-silent", "-o", "-Q", "theories", "Hip", "-Q", "gen", "HipGen", "-Q", "tie", "HipTie", "-Q", "props", "HipProps"] + mods, cwd=V.COQ, timeout=3000)
        am = re.search(r"\* Axioms:\s*(.*?)\n\s*\n", cout, re.S)
        ax_txt = " ".join(am.group(1).split()) if am else "?"
        notes.append("coqchk (independent checker) on %s: rc=%s, axioms: %s" % (" ".join(mods), rc, ax_txt))
        if rc != 0 or ax_txt != "<none>" or "type-in-type: <none>" not in " ".join(cout.split()):
            broken_obl.append({"kind": "coqchk", "detail": cout[-1500:]})
    # obligations: the property theorems, the transfer lemmas, and every lemma of the theories they depend on
    dep_files = sorted(f for f in deps if f not in vfiles and "/theories/Cases" not in f)
    n_obl, obl_names = V.count_obligations(vfiles + dep_files)
    obl_names = [n for n in obl_names if n.split(".")[0] in {os.path.basename(f)[:-2] for f in vfiles}] + ["(+ %d lemmas in %s)" % (n_obl - sum(1 for n in obl_names if n.split(".")[0] in {os.path.basename(f)[:-2] for f in vfiles}), ", ".join(os.path.basename(f) for f in dep_files))]
    # ---------------------------------------------------------------- harness
    impl_violations, summaries, samples = [], [], []
    evaluations = nontrivial = validated = 0
    distribution = {}
    case_dir = os.path.join(V.CACHE, "cases", pid)
    if os.path.isdir(case_dir):
        for f in os.listdir(case_dir):
            try:
                os.remove(os.path.join(case_dir, f))
            except OSError:
                pass
    all_case_files = []
    for drv in spec.get("drivers", []):
        for profile in drv.get("profiles", ["debug"]):
            okb, bout = V.harness_build(profile)
            if not okb:
                broken_corr.append({"kind": "harness-build", "profile": profile, "excerpt": bout[-2000:]})
                continue
            extra = list(drv.get("args", [])) + (list(drv.get("thorough_args", [])) if tier == "thorough" else [])
            rc, summ, raw = V.run_harness(profile, drv["driver"], case_dir, tier, seed, extra, timeout=drv.get("timeout", 1500), env=drv.get("env"))
            if summ is None:
                if rc != 124 and "[last case]" in raw:
                    # the driver died (abort / signal) while exercising the implementation: the case it was running is the failing input
                    impl_violations.append({"what": "%s driver (%s) died with status %s while running: %s" % (drv["driver"], profile, rc, raw.split("[last case] ", 1)[1][:1500]),
                                            "observed": raw.split("[last case]")[0][-400:].strip() or "process killed by signal %s" % (-rc if rc < 0 else rc),
                                            "expected": "the driver completes (it does on the unchanged tree)", "profile": profile, "driver": drv["driver"]})
                else:
                    broken_corr.append({"kind": "harness-run", "driver": drv["driver"], "profile": profile, "rc": rc, "excerpt": raw[-2000:]})
                continue
            summaries.append(summ)
            evaluations += summ.get("evaluations", 0)
            nontrivial += summ.get("distinct_nontrivial", 0)
            for k, v in summ.get("distribution", {}).items():
                distribution[k] = distribution.get(k, 0) + v
            samples += summ.get("samples", [])[:6]
            for v in summ.get("violations", []):
                v = dict(v); v["profile"] = profile; v["driver"] = drv["driver"]
                impl_violations.append(v)
            all_case_files += summ.get("files", [])
            notes += ["%s/%s: %s" % (drv["driver"], profile, n) for n in summ.get("notes", [])]
    # ---------------------------------------------------------------- property-specific extra step (e.g. loom litmus suite, rustc probes)
    if spec.get("custom"):
        try:
            res = spec["custom"](tier, seed)
        except Exception as ex:
            res = {"broken": [{"kind": "custom-step", "excerpt": repr(ex)}]}
        for v in res.get("violations", []):
            impl_violations.append(v)
        broken_corr += res.get("broken", [])
        evaluations += res.get("evaluations", 0)
        nontrivial += res.get("distinct_nontrivial", 0)
        samples += res.get("samples", [])
        notes += res.get("notes", [])
    # ---------------------------------------------------------------- model vs implementation
    mismatches = []
    if all_case_files:
        okc, outc = V.coq_build(spec.get("case_libs", []))
        if not okc:
            broken_corr.append({"kind": "model-build", "excerpt": V.coq_error_excerpt(outc)})
        else:
            for f, idx, text in V.run_case_files(case_dir, all_case_files):
                if idx == "error":
                    broken_corr.append({"kind": "case-eval", "file": f, "excerpt": text})
                elif idx:
                    for i in idx[:5]:
                        mismatches.append({"file": f, "index": i, "case": V.case_text(case_dir, f, i)})
                else:
                    validated += 1
    if mismatches:
        broken_corr.append({"kind": "model-vs-implementation", "mismatches": mismatches[:20]})
    # ---------------------------------------------------------------- verdict
    known = [k for k in V.known_findings() if k.get("property") == pid and k.get("status") == "known"]
    unlisted, listed = [], []
    for v in impl_violations:
        hit = next((k for k in known if re.search(k["match"], v.get("what", ""))), None)
        (listed if hit else unlisted).append((v, hit))
    lines = []
    seen_known = set()
    for v, k in listed:
        if k["key"] not in seen_known:
            seen_known.add(k["key"])
            lines.append("KNOWN-FINDING: property=%s %s" % (pid, k["what"]))
    exit_code = 0
    if unlisted:
        v = unlisted[0][0]
        path = V.write_replay(pid, "input", {"kind": "input", "tier": tier, "seed": seed, "violation": v,
                                            "all": [u[0] for u in unlisted[:20]], "broken_obligations": broken_obl, "broken_correspondence": broken_corr})
        lines.append("VIOLATION property=%s replay=%s" % (pid, path))
        exit_code = 1
    elif broken_obl or broken_corr:
        path = V.write_replay(pid, "obligation", {"kind": "obligation", "tier": tier, "seed": seed,
                                                 "broken_obligations": broken_obl, "broken_correspondence": broken_corr,
                                                 "searched": "harness oracle comparison over %d evaluations found no input on which the implementation violates the property" % evaluations})
        lines.append("VIOLATION property=%s replay=%s no-failing-input-found" % (pid, path))
        exit_code = 1
    if not any(b["kind"] in ("proof", "axiom", "audit") for b in broken_obl):
        discharged = n_obl
    else:
        # count only the statements of files whose .vo is present and up to date
        built = [f for f in vfiles + dep_files
                 if os.path.exists(f + "o") and os.path.getmtime(f + "o") >= os.path.getmtime(f)]
        discharged = V.count_obligations(built)[0] if not any(b["kind"] in ("axiom", "audit") for b in broken_obl) else 0
    trusted = list(V.TRUSTED_BASE_COMMON) + spec.get("trusted_base", [])
    if axioms_seen:
        trusted.append("std-library axioms reported by Print Assumptions: " + ", ".join(sorted(axioms_seen)))
    else:
        trusted.append("Print Assumptions: every property theorem is 'Closed under the global context' (%d checked)" % pa_count)
    coverage = {
        "obligations": max(n_obl, 1), "discharged": discharged,
        "checker_cmd": "make -C coq " + " ".join(targets) + " (coqc 8.16.1, full .vo build) + coqc on %d generated case files" % len(all_case_files),
        "trusted_base": trusted,
        "obligation_names": obl_names,
        "evaluations": evaluations, "distinct_nontrivial": nontrivial,
        "rule": spec.get("rule", ""),
        "samples": samples[:12] if samples else obl_names[:5],
        "traces_validated_against_impl": validated,
        "case_files": len(all_case_files),
        "input_distribution": distribution,
        "tieA": tie_status,
        "notes": notes,
        "exhaustive": bool(spec.get("exhaustive", False)),
        "known_findings_reported": sorted(seen_known),
    }
    coverage.update(spec.get("extra_coverage", {}))
    V.write_evidence(pid, tier, seed, spec.get("level", "proof"), coverage, spec.get("assumptions", []), time.time() - t0, len(unlisted) + (1 if exit_code and not unlisted else 0))
    for l in lines:
        print(l)
    if exit_code == 0:
        print("OK property=%s obligations=%d evaluations=%d case_files_agree=%d wall=%.1fs" % (pid, n_obl, evaluations, validated, time.time() - t0))
    else:
        for b in broken_obl + broken_corr:
            V.log("BROKEN:", json.dumps(b)[:3000])
    return exit_code
