#!/usr/bin/env python3
"""rs2v: reader for a pure-integer/enum subset of Rust -> Gallina (Tie A of DESIGN.md section 4).

Library part: tokenizer, item finder, Pratt expression/statement parser, CPS emitter.
The emitter produces definitions in the panic monad [M] of theories/Base.v:
  +,-,*            -> add_w/sub_w/mul_w dbg   (panic in debug, wrap in release)
  checked_*        -> add_chk/... : option N
  saturating_*     -> sat_add/sat_sub
  e?               -> early return of the error
  return e         -> early return
Every control-flow join is a named local continuation, so nothing is duplicated.

A TranslationError means "this item is outside the subset (or was not found)":
callers record `tieA: unavailable(<item>)` and fall back to Tie B.
"""
import re, sys

class TranslationError(Exception):
    pass

# ---------------------------------------------------------------- tokenizer
TOKEN_RE = re.compile(r"""
    (?P<ws>\s+)
  | (?P<lc>//[^\n]*)
  | (?P<bc>/\*.*?\*/)
  | (?P<str>b?"(?:\\.|[^"\\])*")
  | (?P<chr>b?'(?:\\.|[^'\\])')
  | (?P<life>'[A-Za-z_][A-Za-z0-9_]*)
  | (?P<num>\d[\d_]*(?:usize|u8|u32|u64|isize|i32|i64)?)
  | (?P<id>[A-Za-z_][A-Za-z0-9_]*)
  | (?P<op>\.\.=|\.\.\.|=>|==|!=|<=|>=|&&|\|\||->|::|\.\.|<<|>>|[{}()\[\],;:<>+\-*/%=?.!&|^#@$])
""", re.X | re.S)

def tokenize(src):
    pos, out = 0, []
    while pos < len(src):
        m = TOKEN_RE.match(src, pos)
        if not m:
            raise TranslationError("cannot tokenize at %r" % src[pos:pos + 30])
        pos = m.end()
        k = m.lastgroup
        if k in ("ws", "lc", "bc"):
            continue
        out.append((k, m.group(k)))
    return out

def strip_comments(src):
    return re.sub(r"//[^\n]*", "", src)

# ---------------------------------------------------------------- item finder
def match_brace(src, i):
    """src[i] == '{' -> index of the matching '}' (ignores braces in comments/strings crudely)."""
    depth, j, n = 0, i, len(src)
    while j < n:
        c = src[j]
        if c == '/' and src.startswith('//', j):
            j = src.index('\n', j)
            continue
        if c == '"':
            j += 1
            while src[j] != '"':
                j += 2 if src[j] == '\\' else 1
        elif c == "'" and j + 2 < n and (src[j + 2] == "'" or (src[j + 1] == '\\' and src[j + 3] == "'")):
            j += 3 if src[j + 1] != '\\' else 4
            continue
        elif c == '{':
            depth += 1
        elif c == '}':
            depth -= 1
            if depth == 0:
                return j
        j += 1
    raise TranslationError("unbalanced braces")

def find_fn(src, name, within=None):
    """Return (header, body) of `fn name`. `within`: regex that must match the header of the enclosing impl block."""
    scope = src
    if within is not None:
        m = re.search(within, src)
        if not m:
            raise TranslationError("impl block %r not found" % within)
        i = src.index('{', m.end() - 1) if src[m.end() - 1] != '{' else m.end() - 1
        scope = src[i:match_brace(src, i) + 1]
    m = re.search(r"\bfn\s+%s\s*(<[^>]*>)?\s*\(" % re.escape(name), scope)
    if not m:
        raise TranslationError("fn %s not found" % name)
    # find the body's opening brace: first '{' after the parameter list at paren depth 0
    j, depth = m.end() - 1, 0
    while True:
        c = scope[j]
        if c == '(':
            depth += 1
        elif c == ')':
            depth -= 1
        elif c == '{' and depth == 0:
            break
        elif c == ';' and depth == 0:
            raise TranslationError("fn %s has no body" % name)
        j += 1
    end = match_brace(scope, j)
    return scope[m.start():j], scope[j + 1:end]

def find_const(src, name):
    m = re.search(r"\bconst\s+%s\s*:\s*([^=]+?)\s*=\s*(.*?);" % re.escape(name), src, re.S)
    if not m:
        raise TranslationError("const %s not found" % name)
    return m.group(1).strip(), m.group(2).strip()

# ---------------------------------------------------------------- parser
BINOPS = {  # precedence, higher binds tighter
    '..': 1, '..=': 1,
    '||': 2, '&&': 3,
    '==': 4, '!=': 4, '<': 4, '>': 4, '<=': 4, '>=': 4,
    '|': 5, '^': 6, '&': 7, '<<': 8, '>>': 8,
    '+': 9, '-': 9, '*': 10, '/': 10, '%': 10,
}

class Parser:
    def __init__(self, toks):
        self.t, self.i = toks, 0

    def peek(self, k=0):
        return self.t[self.i + k][1] if self.i + k < len(self.t) else None

    def kind(self, k=0):
        return self.t[self.i + k][0] if self.i + k < len(self.t) else None

    def eat(self, x=None):
        tok = self.peek()
        if tok is None or (x is not None and tok != x):
            raise TranslationError("expected %r got %r (token %d)" % (x, tok, self.i))
        self.i += 1
        return tok

    # ---- statements / blocks.  block := stmt* [expr]
    def block_body(self):
        stmts = []
        while self.peek() not in (None, '}'):
            if self.peek() == '#':                      # attribute: skip
                self.eat('#')
                if self.peek() == '!':
                    self.eat('!')
                self.skip_group('[', ']')
                continue
            if self.peek() == 'let':
                self.eat('let')
                mut = False
                if self.peek() == 'mut':
                    self.eat(); mut = True
                pat = self.pattern()
                if self.peek() == ':':
                    self.eat(':'); self.skip_type()
                self.eat('=')
                e = self.expr()
                els = None
                if self.peek() == 'else':
                    self.eat('else'); self.eat('{'); els = self.block_body(); self.eat('}')
                self.eat(';')
                stmts.append(('let', pat, e, mut, els))
                continue
            e = self.expr()
            if self.peek() == ';':
                self.eat(';')
                stmts.append(('expr', e))
            elif self.peek() == '}' or self.peek() is None:
                return ('block', stmts, e)
            elif e[0] in ('if', 'match', 'while', 'blockexpr', 'unsafe'):
                stmts.append(('expr', e))              # block-like expression statement
            elif e[0] == 'assign':
                raise TranslationError("assignment without ;")
            else:
                raise TranslationError("unexpected token %r after expression" % self.peek())
        return ('block', stmts, None)

    def skip_group(self, o, c):
        self.eat(o); depth = 1
        while depth:
            t = self.eat()
            if t == o: depth += 1
            elif t == c: depth -= 1

    def skip_type(self):
        depth = 0
        while True:
            t = self.peek()
            if t in ('<', '(', '['): depth += 1
            elif t in ('>', ')', ']'):
                if depth == 0: return
                depth -= 1
            elif t == '>>':
                depth -= 2
            elif depth == 0 and t in ('=', ';', ',', '{', None):
                return
            self.eat()

    def pattern(self):
        t = self.peek()
        if t == '_':
            self.eat(); return ('pwild',)
        if t == '&':
            self.eat(); return self.pattern()
        if t == '(':
            self.eat('(')
            items = []
            while self.peek() != ')':
                items.append(self.pattern())
                if self.peek() == ',': self.eat(',')
            self.eat(')')
            return items[0] if len(items) == 1 else ('ptuple', items)
        if self.kind() == 'num':
            return ('pnum', int(re.sub(r"[_a-z].*", "", self.eat().replace('_', ''))))
        path = self.path()
        if self.peek() == '(':
            self.eat('(')
            items = []
            while self.peek() != ')':
                items.append(self.pattern())
                if self.peek() == ',': self.eat(',')
            self.eat(')')
            return ('pctor', path, items)
        if self.peek() == '{':
            self.eat('{')
            fields = []
            while self.peek() != '}':
                f = self.eat()
                if self.peek() == ':':
                    self.eat(':'); fields.append((f, self.pattern()))
                else:
                    fields.append((f, ('pvar', f)))
                if self.peek() == ',': self.eat(',')
            self.eat('}')
            return ('pstruct', path, fields)
        if '::' in path or path[0].isupper():
            return ('pctor', path, [])
        return ('pvar', path)

    def path(self):
        if self.kind() != 'id':
            raise TranslationError("expected identifier, got %r" % self.peek())
        p = self.eat()
        while self.peek() == '::':
            self.eat('::')
            if self.peek() == '<':                       # turbofish
                self.skip_generic()
                continue
            p += '::' + self.eat()
        return p

    def skip_generic(self):
        self.eat('<'); depth = 1
        while depth:
            t = self.eat()
            if t == '<': depth += 1
            elif t == '>': depth -= 1
            elif t == '>>': depth -= 2

    def expr(self, nostruct=False, minprec=0):
        lhs = self.unary(nostruct)
        while True:
            op = self.peek()
            if op == 'as':
                self.eat(); ty = self.eat()
                lhs = ('cast', lhs, ty); continue
            if op == '=' and minprec == 0:
                self.eat(); rhs = self.expr(nostruct)
                return ('assign', lhs, rhs)
            if op in ('+', '-', '*') and self.peek(1) == '=' and minprec == 0 and False:
                pass
            if op not in BINOPS or BINOPS[op] < minprec:
                return lhs
            prec = BINOPS[op]
            self.eat()
            if op in ('..', '..=') and self.peek() in (')', ']', '}', ',', ';', None):
                lhs = ('range', op, lhs, None); continue
            rhs = self.expr(nostruct, prec + 1)
            lhs = ('range', op, lhs, rhs) if op in ('..', '..=') else ('bin', op, lhs, rhs)

    def unary(self, nostruct):
        t = self.peek()
        if t == '!':
            self.eat(); return ('not', self.unary(nostruct))
        if t == '-':
            self.eat(); return ('neg', self.unary(nostruct))
        if t == '*':
            self.eat(); return ('deref', self.unary(nostruct))
        if t == '&':
            self.eat()
            if self.peek() == 'mut': self.eat()
            if self.peek() == 'raw':
                self.eat(); self.eat()
            return ('ref', self.unary(nostruct))
        return self.postfix(nostruct)

    def postfix(self, nostruct):
        e = self.atom(nostruct)
        while True:
            t = self.peek()
            if t == '?':
                self.eat(); e = ('try', e)
            elif t == '.':
                self.eat()
                if self.kind() == 'num':
                    e = ('field', e, self.eat()); continue
                name = self.eat()
                if self.peek() == '::':
                    self.eat('::'); self.skip_generic()
                if self.peek() == '(':
                    self.eat('(')
                    e = ('mcall', name, e, self.args(')'))
                else:
                    e = ('field', e, name)
            elif t == '(' and e[0] == 'path':
                self.eat('(')
                e = ('call', e[1], self.args(')'))
            elif t == '[':
                self.eat('['); idx = self.expr(); self.eat(']')
                e = ('index', e, idx)
            else:
                return e

    def args(self, close):
        a = []
        while self.peek() != close:
            a.append(self.expr())
            if self.peek() == ',': self.eat(',')
        self.eat(close)
        return a

    def atom(self, nostruct):
        t, k = self.peek(), self.kind()
        if k == 'num':
            self.eat()
            return ('num', int(re.sub(r"(usize|u8|u32|u64|isize|i32|i64)$", "", t).replace('_', '')))
        if t == '(':
            self.eat('(')
            items = self.args(')')
            return items[0] if len(items) == 1 else ('tuple', items)
        if t == '{':
            self.eat('{'); b = self.block_body(); self.eat('}')
            return ('blockexpr', b)
        if t == 'unsafe':
            self.eat(); self.eat('{'); b = self.block_body(); self.eat('}')
            return ('blockexpr', b)
        if t == 'if':
            self.eat()
            if self.peek() == 'let':
                self.eat('let'); pat = self.pattern(); self.eat('=')
                scrut = self.expr(nostruct=True)
                self.eat('{'); a = self.block_body(); self.eat('}')
                b = None
                if self.peek() == 'else':
                    self.eat('else')
                    if self.peek() == 'if':
                        b = ('block', [], self.atom(nostruct))
                    else:
                        self.eat('{'); b = self.block_body(); self.eat('}')
                return ('match', scrut, [(pat, a), (('pwild',), b if b is not None else ('block', [], ('unit',)))])
            c = self.expr(nostruct=True)
            self.eat('{'); a = self.block_body(); self.eat('}')
            b = None
            if self.peek() == 'else':
                self.eat('else')
                if self.peek() == 'if':
                    b = ('block', [], self.atom(nostruct))
                else:
                    self.eat('{'); b = self.block_body(); self.eat('}')
            return ('if', c, a, b)
        if t == 'match':
            self.eat()
            scrut = self.expr(nostruct=True)
            self.eat('{')
            arms = []
            while self.peek() != '}':
                pats = [self.pattern()]
                while self.peek() == '|':
                    self.eat('|'); pats.append(self.pattern())
                if self.peek() == '..' or self.peek() == '..=':      # numeric range pattern  `64..`
                    raise TranslationError("range pattern")
                self.eat('=>')
                body = self.expr()
                for p in pats:
                    arms.append((p, ('block', [], body) if body[0] != 'blockexpr' else body[1]))
                if self.peek() == ',': self.eat(',')
            self.eat('}')
            return ('match', scrut, arms)
        if t == 'while':
            self.eat()
            c = self.expr(nostruct=True)
            self.eat('{'); b = self.block_body(); self.eat('}')
            return ('while', c, b)
        if t == 'return':
            self.eat()
            if self.peek() in (';', '}', ','):
                return ('return', ('unit',))
            return ('return', self.expr())
        if t == '|':                                       # closure  |x| expr
            self.eat('|'); params = []
            while self.peek() != '|':
                params.append(self.pattern())
                if self.peek() == ':':
                    self.eat(':'); self.skip_type()
                if self.peek() == ',': self.eat(',')
            self.eat('|')
            return ('closure', params, self.expr())
        if k == 'id':
            p = self.path()
            if self.peek() == '!':                        # macro call
                self.eat('!')
                o = self.peek(); c = {'(': ')', '[': ']', '{': '}'}[o]
                start = self.i
                self.skip_group(o, c)
                return ('macro', p, self.t[start + 1:self.i - 1])
            if self.peek() == '{' and not nostruct and (p[0].isupper() or '::' in p):
                self.eat('{'); fields = []
                while self.peek() != '}':
                    f = self.eat()
                    if self.peek() == ':':
                        self.eat(':'); fields.append((f, self.expr()))
                    else:
                        fields.append((f, ('path', f)))
                    if self.peek() == ',': self.eat(',')
                self.eat('}')
                return ('struct', p, fields)
            return ('path', p)
        raise TranslationError("unexpected token %r" % t)

def parse_body(body_src):
    p = Parser(tokenize(body_src))
    b = p.block_body()
    if p.peek() is not None:
        raise TranslationError("trailing tokens after body: %r" % p.peek())
    return b

# ---------------------------------------------------------------- emitter (CPS)
COQ_KEYWORDS = {'end', 'as', 'at', 'in', 'fun', 'let', 'match', 'with', 'if', 'then', 'else', 'return', 'fix', 'forall', 'exists', 'Type', 'Set', 'Prop'}

def ident(x):
    x = x.split('::')[-1] if x[0].islower() or x[0] == '_' else x
    return x + '_' if x in COQ_KEYWORDS else x

class Emitter:
    """cfg keys:
       ctors    : {'Bound::Included': ('Incl', None), 'RangeError::EndOutOfBounds': ('REndOutOfBounds', ['end','len'])}
       consts   : {'usize::MAX': 'UMAX', ...}
       slices   : set of variable names of slice type (x.len() -> x_len, x.as_ptr() -> x_ptr)
       methods  : {name: callable(emitter, recv_term, arg_terms) -> (kind, term)} extra pure/monadic methods
    """
    def __init__(self, cfg):
        self.cfg = cfg
        self.n = 0

    def fresh(self, base='k'):
        self.n += 1
        return "%s%d" % (base, self.n)

    def ctor(self, path):
        c = self.cfg.get('ctors', {})
        if path in c:
            return c[path]
        short = path.split('::')[-1]
        for k, v in c.items():
            if k.split('::')[-1] == short and '::' not in path:
                return v
        raise TranslationError("unknown constructor %s" % path)

    # tr(e, k): k maps a Gallina term (string) for the value of e to the Gallina term of "the rest", of type M _
    def tr(self, e, k):
        t = e[0]
        if t == 'num':
            return k(str(e[1]))
        if t == 'unit':
            return k('tt')
        if t == 'path':
            p = e[1]
            if p in self.cfg.get('consts', {}):
                return k(self.cfg['consts'][p])
            if p == 'None':
                return k('None')
            if '::' in p or p[0].isupper():
                name, fields = self.ctor(p)
                return k(name)
            return k(ident(p))
        if t == 'cast':
            # integer casts between modelled-as-N types: widening casts are the identity; `as u8` truncates (cfg 'narrow_casts')
            ty = e[2] if len(e) > 2 else None
            tyname = ty if isinstance(ty, str) else (ty[1] if isinstance(ty, tuple) and len(ty) > 1 and isinstance(ty[1], str) else None)
            if tyname in self.cfg.get('narrow_casts', {}):
                return self.tr(e[1], lambda a: k("(%s mod %s)" % (a, self.cfg['narrow_casts'][tyname])))
            return self.tr(e[1], k)
        if t == 'ref' or t == 'deref':
            return self.tr(e[1], k)
        if t == 'blockexpr':
            return self.block(e[1], k)
        if t == 'index' and 'index' in self.cfg:
            return self.tr(e[1], lambda a: self.tr(e[2], lambda i: self.cfg['index'](self, a, i, k)))
        if t == 'tuple':
            return self.tr_list(e[1], lambda ts: k('(' + ', '.join(ts) + ')'))
        if t == 'range':
            if e[1] != '..' or e[3] is None:
                raise TranslationError("range expression form")
            return self.tr(e[2], lambda a: self.tr(e[3], lambda b: k('(%s, %s)' % (a, b))))
        if t == 'struct':
            if e[1] == 'Range':
                d = dict(e[2])
                return self.tr(d['start'], lambda a: self.tr(d['end'], lambda b: k('(%s, %s)' % (a, b))))
            name, fields = self.ctor(e[1])
            d = dict(e[2])
            if fields is None or set(fields) != set(d):
                raise TranslationError("struct literal %s fields" % e[1])
            return self.tr_list([d[f] for f in fields], lambda ts: k('(%s %s)' % (name, ' '.join(ts))))
        if t == 'call':
            f = e[1]
            if f == 'Ok':
                return self.tr(e[2][0], lambda a: k('(ROk %s)' % a))
            if f == 'Err':
                return self.tr(e[2][0], lambda a: k('(RErr %s)' % a))
            if f == 'Some':
                return self.tr(e[2][0], lambda a: k('(Some %s)' % a))
            if f in self.cfg.get('functions', {}):
                return self.tr_list(e[2], lambda ts: self.cfg['functions'][f](self, ts, k))
            name, fields = self.ctor(f)
            return self.tr_list(e[2], lambda ts: k('(%s %s)' % (name, ' '.join(ts))))
        if t == 'not':
            return self.tr(e[1], lambda a: k('(negb %s)' % a))
        if t == 'bin':
            op = e[1]
            if op in ('&&', '||'):
                # short-circuit: the right operand may be monadic (panic) only if evaluated
                j = self.fresh()
                return "let %s := (fun b__ : bool => %s) in %s" % (
                    j, k('b__'),
                    self.tr(e[2], lambda a:
                            "(if %s then %s else %s)" % (
                                a,
                                self.tr(e[3], lambda b: "%s %s" % (j, b)) if op == '&&' else "%s true" % j,
                                "%s false" % j if op == '&&' else self.tr(e[3], lambda b: "%s %s" % (j, b)))))
            def both(a, b):
                if op == '+': return self.bind("add_w dbg %s %s" % (a, b), k)
                if op == '-': return self.bind("sub_w dbg %s %s" % (a, b), k)
                if op == '*': return self.bind("mul_w dbg %s %s" % (a, b), k)
                if op == '/': return self.bind("div_w %s %s" % (a, b), k)
                if op == '%': return self.bind("rem_w %s %s" % (a, b), k)
                pure = {'<': "(%s <? %s)" % (a, b), '>': "(%s <? %s)" % (b, a), '<=': "(%s <=? %s)" % (a, b),
                        '>=': "(%s <=? %s)" % (b, a), '==': "(%s =? %s)" % (a, b), '!=': "(negb (%s =? %s))" % (a, b),
                        '&': "(N.land %s %s)" % (a, b), '|': "(N.lor %s %s)" % (a, b), '^': "(N.lxor %s %s)" % (a, b),
                        '>>': "(N.shiftr %s %s)" % (a, b)}
                if op in pure: return k(pure[op])
                if op == '<<': return self.bind("shl_w dbg %s %s" % (a, b), k)
                raise TranslationError("operator %s" % op)
            return self.tr(e[2], lambda a: self.tr(e[3], lambda b: both(a, b)))
        if t == 'try':
            return self.tr(e[1], lambda a:
                           "match %s with RErr err__ => Val (RErr err__) | ROk v__ => %s end" % (a, k('v__')))
        if t == 'return':
            return self.tr(e[1], lambda a: "Val %s" % a)
        if t == 'mcall':
            return self.mcall(e, k)
        if t == 'field':
            r, f = e[1], e[2]
            if r[0] == 'path' and r[1] == 'self' and ('self.' + f) in self.cfg.get('fields', {}):
                return k(self.cfg['fields']['self.' + f])
            if r[0] == 'path' and (r[1] + '.' + f) in self.cfg.get('fields', {}):
                return k(self.cfg['fields'][r[1] + '.' + f])
            raise TranslationError("field access .%s" % f)
        if t == 'if':
            return self.tr_if(e, k)
        if t == 'match':
            return self.tr_match(e, k)
        if t == 'macro':
            return self.tr_macro(e, k)
        raise TranslationError("expression form %s" % t)

    def bind(self, m, k):
        v = self.fresh('v')
        return "bindM (%s) (fun %s => %s)" % (m, v, k(v))

    def tr_list(self, es, k, acc=None):
        acc = acc or []
        if not es:
            return k(acc)
        return self.tr(es[0], lambda a: self.tr_list(es[1:], k, acc + [a]))

    def join(self, k, hint='j'):
        """Name the continuation so that it is emitted once."""
        j = self.fresh(hint)
        return j, (lambda body: "let %s := (fun r__ => %s) in %s" % (j, k('r__'), body))

    def tr_if(self, e, k):
        _, c, a, b = e
        j, wrap = self.join(k)
        kk = lambda v: "%s %s" % (j, v)
        if b is None:
            b = ('block', [], ('unit',))
        return wrap(self.tr(c, lambda cv: "(if %s then %s else %s)" % (cv, self.block(a, kk), self.block(b, kk))))

    def pat(self, p):
        t = p[0]
        if t == 'pwild': return '_'
        if t == 'pvar': return ident(p[1])
        if t == 'pnum': return str(p[1])
        if t == 'ptuple': return '(' + ', '.join(self.pat(x) for x in p[1]) + ')'
        if t == 'pctor':
            if p[1] == 'Ok': return '(ROk %s)' % self.pat(p[2][0])
            if p[1] == 'Err': return '(RErr %s)' % self.pat(p[2][0])
            if p[1] == 'Some': return '(Some %s)' % self.pat(p[2][0])
            if p[1] == 'None': return 'None'
            name, fields = self.ctor(p[1])
            return '(%s %s)' % (name, ' '.join(self.pat(x) for x in p[2])) if p[2] else name
        if t == 'pstruct':
            if p[1] == 'Range':
                d = dict(p[2]); return '(%s, %s)' % (self.pat(d['start']), self.pat(d['end']))
            name, fields = self.ctor(p[1])
            d = dict(p[2])
            return '(%s %s)' % (name, ' '.join(self.pat(d[f]) for f in fields))
        raise TranslationError("pattern %s" % t)

    def tr_match(self, e, k):
        _, scrut, arms = e
        j, wrap = self.join(k)
        kk = lambda v: "%s %s" % (j, v)
        def arms_of(sv):
            return "match %s with %s end" % (sv, ' '.join("| %s => %s" % (self.pat(p), self.block(b, kk)) for p, b in arms))
        return wrap(self.tr(scrut, arms_of))

    def block(self, b, k):
        _, stmts, tail = b
        return self.stmts(stmts, tail, k)

    def stmts(self, stmts, tail, k):
        if not stmts:
            if tail is None:
                return k('tt')
            return self.tr(tail, k)
        s, rest = stmts[0], stmts[1:]
        if s[0] == 'let':
            _, pat, e, mut, els = s
            if els is not None:
                raise TranslationError("let-else")
            return self.tr(e, lambda v: "let '%s := %s in %s" % (self.pat(pat), v, self.stmts(rest, tail, k))
                           if pat[0] != 'pvar' else "let %s := %s in %s" % (self.pat(pat), v, self.stmts(rest, tail, k)))
        if s[0] == 'expr':
            e = s[1]
            if e[0] == 'macro' and e[1] in ('debug_assert', 'debug_assert_eq', 'assert', 'assert_eq'):
                return self.tr_macro(e, lambda _v: self.stmts(rest, tail, k))
            if e[0] == 'if' and e[3] is None:
                if self.ends_with_return(e[2]):
                    # `if c { ...; return x; }` followed by the rest (the continuation of the block is dead)
                    return self.tr(e[1], lambda cv: "(if %s then %s else %s)" % (
                        cv, self.block(e[2], lambda _v: "Panic"), self.stmts(rest, tail, k)))
                j, wrap = self.join(lambda _v: self.stmts(rest, tail, k))
                return wrap(self.tr(e[1], lambda cv: "(if %s then %s else %s tt)" % (
                    cv, self.block(e[2], lambda _v: "%s tt" % j), j)))
            if e[0] == 'return':
                return self.tr(e, k)
            if e[0] in self.cfg.get('stmt_handlers', {}):
                return self.cfg['stmt_handlers'][e[0]](self, e, lambda: self.stmts(rest, tail, k))
            return self.tr(e, lambda _v: self.stmts(rest, tail, k))
        raise TranslationError("statement %s" % s[0])

    def ends_with_return(self, b):
        _, stmts, tail = b
        if tail is not None:
            return tail[0] == 'return'
        return bool(stmts) and stmts[-1][0] == 'expr' and stmts[-1][1][0] == 'return'

    def tr_macro(self, e, k):
        name, toks = e[1], e[2]
        if name in ('debug_assert', 'assert'):
            # condition = tokens up to the first top-level comma
            depth, cut = 0, len(toks)
            for i, (kd, tx) in enumerate(toks):
                if tx in '([{': depth += 1
                elif tx in ')]}': depth -= 1
                elif tx == ',' and depth == 0:
                    cut = i; break
            cond = Parser(toks[:cut]).expr()
            guard = "dbg && " if name == 'debug_assert' else ""
            return self.tr(cond, lambda c: "(if %snegb %s then Panic else %s)" % (guard, c, k('tt')))
        if name in ('panic', 'unreachable'):
            return "Panic"
        raise TranslationError("macro %s!" % name)

    def mcall(self, e, k):
        _, name, recv, args = e
        # slice-typed variables
        if recv[0] == 'path' and recv[1] in self.cfg.get('slices', ()):
            x = ident(recv[1])
            if name == 'len' and not args: return k("%s_len" % x)
            if name == 'as_ptr' and not args: return k("%s_ptr" % x)
            if name == 'as_ptr_range' and not args: return k("(%s_ptr, %s_ptr + %s_len)" % (x, x, x))
            if name == 'is_empty' and not args: return k("(%s_len =? 0)" % x)
        if name in self.cfg.get('methods', {}):
            return self.tr(recv, lambda r: self.tr_list(args, lambda ts: self.cfg['methods'][name](self, r, ts, k)))
        def with_all(f):
            return self.tr(recv, lambda r: self.tr_list(args, lambda ts: f(r, ts)))
        simple = {
            'checked_add': lambda r, a: k("(add_chk %s %s)" % (r, a[0])),
            'checked_sub': lambda r, a: k("(sub_chk %s %s)" % (r, a[0])),
            'checked_mul': lambda r, a: k("(mul_chk %s %s)" % (r, a[0])),
            'saturating_add': lambda r, a: k("(sat_add %s %s)" % (r, a[0])),
            'saturating_sub': lambda r, a: k("(sat_sub %s %s)" % (r, a[0])),
            'wrapping_add': lambda r, a: k("((%s + %s) mod W)" % (r, a[0])),
            'max': lambda r, a: k("(N.max %s %s)" % (r, a[0])),
            'min': lambda r, a: k("(N.min %s %s)" % (r, a[0])),
            'ok_or': lambda r, a: k("(ok_or %s %s)" % (r, a[0])),
            'offset_from': lambda r, a: self.bind("offset_from %s %s" % (r, a[0]), k),
            'try_into': lambda r, a: k(r),
            'unwrap_unchecked': lambda r, a: k(r),
            'cloned': lambda r, a: k(r),
            'get': lambda r, a: k(r),                    # NonZero::get / TaggedU8-style newtype read (cfg decides fields)
        }
        if name in simple:
            return with_all(simple[name])
        raise TranslationError("method .%s()" % name)

def emit_fn(name, params, ret_ty, body_ast, cfg):
    em = Emitter(cfg)
    term = em.block(body_ast, lambda v: "Val %s" % v)
    ps = ' '.join("(%s : %s)" % (n, t) for n, t in params)
    return "Definition %s (dbg : bool) %s : M (%s) :=\n  %s.\n" % (name, ps, ret_ty, term)
