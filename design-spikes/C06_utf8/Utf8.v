From Coq Require Import List NArith Lia Bool.
From Coq Require Import ZifyBool ZifyN.
Import ListNotations.
Local Open Scope N_scope.
Arguments N.ltb : simpl never. Arguments N.leb : simpl never.

Definition cont (b : N) : bool := (128 <=? b) && (b <? 192).
(* second-byte ranges per Unicode table 3-7 *)
Definition ok3 (b0 b1 : N) : bool :=
  ((b0 =? 224) && (160 <=? b1) && (b1 <? 192)) || (((225 <=? b0) && (b0 <? 237)) || ((238 <=? b0) && (b0 <? 240))) && cont b1
  || ((b0 =? 237) && (128 <=? b1) && (b1 <? 160)).
Definition ok4 (b0 b1 : N) : bool :=
  ((b0 =? 240) && (144 <=? b1) && (b1 <? 192)) || ((241 <=? b0) && (b0 <? 244)) && cont b1 || ((b0 =? 244) && (128 <=? b1) && (b1 <? 144)).
Definition is2 b0 := (194 <=? b0) && (b0 <? 224).
Definition is3 b0 := (224 <=? b0) && (b0 <? 240).
Definition is4 b0 := (240 <=? b0) && (b0 <? 245).

Fixpoint valid (l : list N) : bool :=
  match l with
  | [] => true
  | b0 :: r0 =>
    if b0 <? 128 then valid r0 else
    match r0 with
    | [] => false
    | b1 :: r1 =>
      if is2 b0 then cont b1 && valid r1 else
      match r1 with
      | [] => false
      | b2 :: r2 =>
        if is3 b0 then ok3 b0 b1 && cont b2 && valid r2 else
        match r2 with
        | [] => false
        | b3 :: r3 => if is4 b0 then ok4 b0 b1 && cont b2 && cont b3 && valid r3 else false
        end
      end
    end
  end.

Definition boundary (l : list N) (i : nat) : Prop :=
  i = 0%nat \/ i = length l \/ (i < length l)%nat /\ cont (nth i l 0) = false.

Lemma ok3_cont b0 b1 : ok3 b0 b1 = true -> cont b1 = true. Proof. unfold ok3, cont. lia. Qed.
Lemma ok4_cont b0 b1 : ok4 b0 b1 = true -> cont b1 = true. Proof. unfold ok4, cont. lia. Qed.
Lemma lead_not_cont b : b <? 128 = true \/ is2 b = true \/ is3 b = true \/ is4 b = true -> cont b = false.
Proof. unfold is2, is3, is4, cont. lia. Qed.


Lemma boundary_shift pre rest j : (length pre <= j)%nat -> boundary (pre ++ rest) j -> boundary rest (j - length pre).
Proof.
  unfold boundary. rewrite app_length. intros Hp [H|[H|[H1 H2]]].
  - left; lia.
  - right; left; lia.
  - right; right. split; [lia|]. rewrite app_nth2 in H2 by lia. exact H2.
Qed.
Lemma boundary_interior l j : (0 < j)%nat -> (j < length l)%nat -> cont (nth j l 0) = true -> ~ boundary l j.
Proof. unfold boundary. intros ? ? Hc [H|[H|[_ H]]]; try lia; congruence. Qed.

Theorem valid_split : forall n l, (length l <= n)%nat -> valid l = true -> forall i, (i <= length l)%nat -> boundary l i ->
  valid (firstn i l) = true /\ valid (skipn i l) = true.
Proof.
  induction n as [|n IH]; intros l Hn Hv i Hi Hb.
  { destruct l; [|cbn in Hn; lia]. destruct i; cbn; auto. }
  destruct i as [|i]; [cbn; auto|].
  assert (Hstep : forall pre rest, l = pre ++ rest -> (0 < length pre)%nat -> (length pre <= S i)%nat -> valid rest = true ->
            (forall t, valid t = true -> valid (pre ++ t) = true) ->
            valid (firstn (S i) l) = true /\ valid (skipn (S i) l) = true).
  { intros pre rest E Hp0 Hp Hr Hpre. subst l. rewrite app_length in *.
    rewrite firstn_app, skipn_app. rewrite (firstn_all2 pre) by lia. rewrite (skipn_all2 pre) by lia. cbn [app].
    assert (length rest <= n)%nat as L1 by lia. assert (S i - length pre <= length rest)%nat as L2 by lia.
    destruct (IH rest L1 Hr (S i - length pre)%nat L2 (boundary_shift _ _ _ Hp Hb)) as [A B].
    split; [apply Hpre; exact A|exact B]. }
  destruct l as [|b0 r0]; [cbn in Hi; lia|]. cbn [valid] in Hv.
  destruct (b0 <? 128) eqn:E1.
  { apply (Hstep [b0] r0); cbn [length app]; try reflexivity; try lia; auto. intros t Ht. cbn [valid app]. rewrite E1. exact Ht. }
  destruct r0 as [|b1 r1]; [discriminate|].
  destruct (is2 b0) eqn:E2.
  { apply andb_prop in Hv as [C1 Hv].
    destruct i as [|i]. { exfalso; revert Hb; apply boundary_interior; cbn [length nth]; [lia|lia|exact C1]. }
    apply (Hstep [b0;b1] r1); cbn [length app]; try reflexivity; try lia; auto.
    intros t Ht. cbn [valid app]. rewrite E1, E2, C1. exact Ht. }
  destruct r1 as [|b2 r2]; [discriminate|].
  destruct (is3 b0) eqn:E3.
  { apply andb_prop in Hv as [Hv V]. apply andb_prop in Hv as [O3 C2]. pose proof (ok3_cont _ _ O3) as C1.
    destruct i as [|[|i]].
    { exfalso; revert Hb; apply boundary_interior; cbn [length nth]; [lia|lia|exact C1]. }
    { exfalso; revert Hb; apply boundary_interior; cbn [length nth]; [lia|lia|exact C2]. }
    apply (Hstep [b0;b1;b2] r2); cbn [length app]; try reflexivity; try lia; auto.
    intros t Ht. cbn [valid app]. rewrite E1, E2, E3, O3, C2. exact Ht. }
  destruct r2 as [|b3 r3]; [discriminate|].
  destruct (is4 b0) eqn:E4; [|discriminate].
  apply andb_prop in Hv as [Hv V]. apply andb_prop in Hv as [Hv C3]. apply andb_prop in Hv as [O4 C2]. pose proof (ok4_cont _ _ O4) as C1.
  destruct i as [|[|[|i]]].
  { exfalso; revert Hb; apply boundary_interior; cbn [length nth]; [lia|lia|exact C1]. }
  { exfalso; revert Hb; apply boundary_interior; cbn [length nth]; [lia|lia|exact C2]. }
  { exfalso; revert Hb; apply boundary_interior; cbn [length nth]; [lia|lia|exact C3]. }
  apply (Hstep [b0;b1;b2;b3] r3); cbn [length app]; try reflexivity; try lia; auto.
  intros t Ht. cbn [valid app]. rewrite E1, E2, E3, E4, O4, C2, C3. exact Ht.
Qed.

Corollary valid_slice l a b : valid l = true -> (a <= b <= length l)%nat -> boundary l a -> boundary l b ->
  valid (firstn (b - a) (skipn a l)) = true.
Proof.
  intros Hv Hab Ha Hb. assert (a <= length l)%nat as La by lia. destruct (valid_split _ l (le_n _) Hv a La Ha) as [_ Hs].
  assert (boundary (skipn a l) (b - a)) as Hb'.
  { rewrite <- (firstn_skipn a l) in Hb. replace (b - a)%nat with (b - length (firstn a l))%nat by (rewrite firstn_length; lia).
    apply boundary_shift; [rewrite firstn_length; lia|exact Hb]. }
  apply (valid_split _ (skipn a l) (le_n _) Hs (b - a)%nat); [rewrite skipn_length; lia|exact Hb'].
Qed.
Print Assumptions valid_slice.
